#!/bin/sh
# MANIFEST.setup_cmd: offline; checks the toolchain the checks rely on and prepares .work
set -e
cd "$(dirname "$0")"
mkdir -p .work evidence
for t in java gcc clang python3 make strace; do command -v $t >/dev/null || { echo "missing tool: $t" >&2; exit 1; }; done
test -f /opt/veriftools/tla/tla2tools.jar
echo setup ok
