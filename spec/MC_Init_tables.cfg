SPECIFICATION Spec
CONSTANTS
  TopTypes = {"int"}
  MaxTok = 0
  MaxIdx = 2
  AllowAgg = FALSE
  DevOn = {}
  Salt = 0
  EmitCases = FALSE
  FormsOn = {"plain"}
  Prune = TRUE
INVARIANTS EmitTables
CHECK_DEADLOCK FALSE
