--------------------------------- MODULE Abi ---------------------------------
(* Property C08, structural form: the parameter / return classes and the aggregate   *)
(* type descriptions cproc hands to the backend describe, field for field, the same   *)
(* layout and register classes as the C declarations.                                  *)
(*                                                                                     *)
(*  CFlat(T, raise)   flattened (offset, size, class in {int, flt}) list of a C type   *)
(*                    from the declarative layout of Layout.tla; a named bit-field is   *)
(*                    the storage unit it occupies.                                     *)
(*  QFlat(Q)          the same list computed from a QBE `type` definition under QBE's   *)
(*                    aggregate rules: sequential fields at natural alignment, counts,  *)
(*                    nested :types, union alternatives, opaque `align n { size }`.     *)
(*  Descr(T, v)       implementation-shaped model of qbe.c:emittype: the scan for a      *)
(*                    "subsequent member with a larger storage unit", the skipping of   *)
(*                    members below `off`, array counts, union alternatives.            *)
(*  PClass / VClass   class of a parameter after adjustment (6.7.6.3p7) / of a variable *)
(*                    argument after the default promotions.                            *)
(*  Classify          what the three ABIs derive from a field list: per-eightbyte        *)
(*                    classes and MEMORY (SysV), HFA / integer registers / by reference  *)
(*                    (AAPCS64), flattening into FP+integer registers (RISC-V LP64D).   *)
(*                    Two descriptions are ABI-equivalent iff size, alignment and this   *)
(*                    classification agree: a different but equivalent descriptor is     *)
(*                    accepted, one that changes a register class is not.               *)
(*                                                                                     *)
(* Modes (constant Mode): Layout's "mc" (design level: Inv_Descr on C06's universe),    *)
(* "judge" (flow C: pairs of C type term and descriptor parsed from cproc's IL, read    *)
(* from $ABI_IN), "sig" (generator of signatures over the aggregates of $ABI_IN).       *)
EXTENDS Layout

CONSTANTS MaxParams,     \* "sig": parameters per signature
          MaxExtra,      \* "sig": variable arguments per call
          AbiDevs        \* deviations of the emittype model that are switched on (subset of AllAbiDevs)

AllAbiDevs == {"ScanAnyLater"}   \* qbe.c:emittype before e12ac22: the scan took ANY later member starting at or before the current
                                 \* one, also one with a smaller storage unit (`struct { short a:1; char b:3; }` -> `{ b, }`)

Targets == <<"x86_64-sysv", "aarch64", "riscv64">>
RaiseOf(tg) == tg = "aarch64"

(* ======================================================================= *)
(* C side                                                                   *)
ShiftL(lv, base, u) == [j \in 1..Len(lv) |-> [lv[j] EXCEPT !.off = @ + base, !.un = @ \/ u]]

(* leaves: [off, sz, cl, un (below a union), k ("m" member | "bf" named bit-field | "ubf" unnamed bit-field),  *)
(*          ptr (a pointer: integer class everywhere, but not an "integer" for the RISC-V flattening rule)]    *)
RECURSIVE CFlat(_, _)
CFlat(T, raise) ==
  CASE T.k = "sc"  -> [size |-> SSize(T.n), align |-> SSize(T.n), flex |-> FALSE,
                       lv |-> <<[off |-> 0, sz |-> SSize(T.n), cl |-> SClass(T.n), un |-> FALSE, k |-> "m", ptr |-> T.n = "ptr"]>>]
    [] T.k = "arr" -> LET e == CFlat(T.of, raise) IN
                      [size |-> e.size * T.n, align |-> e.align, flex |-> T.n = 0 \/ e.flex,
                       lv |-> Concat([j \in 1..T.n |-> ShiftL(e.lv, (j - 1) * e.size, FALSE)])]
    [] T.k = "su"  ->
         LET n   == Len(T.ms)
             sub == [i \in 1..n |-> CFlat(T.ms[i].t, raise)]
             L   == DFold(T, raise, sub)
             mem(i) == LET m == T.ms[i] f == L.fs[i] IN
                       IF IsBF(m)
                       THEN <<[off |-> f.off, sz |-> sub[i].size, cl |-> "int", un |-> T.un, k |-> IF m.nm THEN "bf" ELSE "ubf", ptr |-> FALSE]>>
                       ELSE ShiftL(sub[i].lv, f.off, T.un)
         IN [size |-> L.size, align |-> L.align, flex |-> L.flex, lv |-> Concat([i \in 1..n |-> mem(i)])]

(* ======================================================================= *)
(* QBE side.  Q term: [k |-> "struct"|"union", alts |-> << <<field>>, ... >>] (struct: one alternative),  *)
(* field = [c |-> "b".."d", n |-> count] or [c |-> ":", t |-> Q, n |-> count]; [k |-> "opaque", align, size] *)
QSize(c) == CASE c = "b" -> 1 [] c = "h" -> 2 [] c \in {"w", "s"} -> 4 [] c \in {"l", "d"} -> 8
QCl(c) == IF c \in {"s", "d"} THEN "flt" ELSE "int"

RECURSIVE QFlat(_)
QFlat(Q) ==
  IF Q.k = "opaque" THEN [size |-> Q.size, align |-> Q.align, lv |-> <<>>, dark |-> TRUE]
  ELSE LET na == Len(Q.alts)
           Alt(a) ==
             LET fs == Q.alts[a]
                 S[i \in 0..Len(fs)] ==
                   IF i = 0 THEN [sz |-> 0, al |-> 1, lv |-> <<>>, dark |-> FALSE]
                   ELSE LET p == S[i - 1]
                            f == fs[i]
                            e == IF f.c = ":" THEN QFlat(f.t)
                                 ELSE [size |-> QSize(f.c), align |-> QSize(f.c), dark |-> FALSE,
                                       lv |-> <<[off |-> 0, sz |-> QSize(f.c), cl |-> QCl(f.c), un |-> FALSE, k |-> "m", ptr |-> FALSE]>>]
                            o == AlignUp(p.sz, e.align)
                        IN [sz |-> o + f.n * e.size, al |-> Max(p.al, e.align), dark |-> p.dark \/ e.dark,
                            lv |-> p.lv \o Concat([j \in 1..f.n |-> ShiftL(e.lv, o + (j - 1) * e.size, Q.k = "union")])]
             IN S[Len(fs)]
           A == [a \in 1..na |-> Alt(a)]
           al == LET M[a \in 0..na] == IF a = 0 THEN 1 ELSE Max(M[a - 1], A[a].al) IN M[na]
           sz == LET M[a \in 0..na] == IF a = 0 THEN 0 ELSE Max(M[a - 1], A[a].sz) IN M[na]
       IN [size |-> AlignUp(sz, al), align |-> al, dark |-> \E a \in 1..na : A[a].dark,
           lv |-> Concat([a \in 1..na |-> A[a].lv])]

(* ======================================================================= *)
(* qbe.c:emittype                                                           *)
QData(n) == CASE SSize(n) = 1 -> "b" [] SSize(n) = 2 -> "h"
              [] SSize(n) = 4 -> IF SClass(n) = "flt" THEN "s" ELSE "w"
              [] SSize(n) = 8 -> IF SClass(n) = "flt" THEN "d" ELSE "l"
              [] OTHER -> "?"          \* long double: qbetype() is fatal

RECURSIVE Strip(_)
Strip(t) == IF t.k = "arr" THEN Strip(t.of) ELSE t

SelIdx(n, P(_)) == LET S[i \in 0..n] == IF i = 0 THEN <<>> ELSE IF P(i) THEN Append(S[i - 1], i) ELSE S[i - 1] IN S[n]

(* look for a subsequent member with a larger storage unit (offs: member offsets, nr members) *)
RECURSIVE DScan(_, _, _, _, _)
DScan(offs, sizes, nr, o, cur) ==
  IF o > nr THEN cur
  ELSE IF offs[o] >= AlignUp(offs[cur] + 1, 8) THEN cur
  ELSE DScan(offs, sizes, nr, o + 1,
             IF offs[o] <= offs[cur] /\ ("ScanAnyLater" \in AbiDevs \/ offs[o] + sizes[o] >= offs[cur] + sizes[cur]) THEN o ELSE cur)
(* skip subsequent members contained within the same storage unit *)
RECURSIVE DSkip(_, _, _, _)
DSkip(offs, nr, p, off) == IF p <= nr /\ offs[p] < off THEN DSkip(offs, nr, p + 1, off) ELSE p
RECURSIVE DLoop(_, _, _, _, _)
DLoop(offs, sizes, fields, nr, j) ==
  IF j > nr THEN <<>>
  ELSE LET cur == DScan(offs, sizes, nr, j + 1, j)
           off == offs[cur] + sizes[cur]
       IN <<fields[cur]>> \o DLoop(offs, sizes, fields, nr, DSkip(offs, nr, cur + 1, off))

RECURSIVE Descr(_, _)
Descr(T, v) ==
  LET L == Lay(T, v)
      R == SelIdx(Len(T.ms), LAMBDA i : RealMember(T.ms[i]))      \* the `struct member` list
      nr == Len(R)
      offs == [j \in 1..nr |-> L.fs[R[j]].off]
      sizes == [j \in 1..nr |-> Lay(T.ms[R[j]].t, v).size]
      fields == [j \in 1..nr |->
                   LET sub == Strip(T.ms[R[j]].t)
                       ssz == Lay(sub, v).size
                       cnt == IF sizes[j] > ssz THEN sizes[j] \div ssz ELSE 1
                   IN IF sub.k = "sc" THEN [c |-> QData(sub.n), n |-> cnt]
                      ELSE [c |-> ":", t |-> Descr(sub, v), n |-> cnt]]
  IN IF T.un THEN [k |-> "union", alts |-> [j \in 1..nr |-> <<fields[j]>>]]
     ELSE [k |-> "struct", alts |-> <<DLoop(offs, sizes, fields, nr, 1)>>]

(* ======================================================================= *)
(* What the ABIs derive from a field list                                   *)
CeilDiv(a, b) == (a + b - 1) \div b
Offsets(lv, P(_)) == {lv[j].off : j \in {x \in 1..Len(lv) : P(lv[x])}}

SysV(F) ==     \* F = [size, align, lv]
  IF F.size > 16 \/ F.size = 0 \/ \E j \in 1..Len(F.lv) : F.lv[j].k # "ubf" /\ F.lv[j].off % F.lv[j].sz # 0 THEN <<"mem">>
  ELSE LET cls(e) ==
             LET over == {j \in 1..Len(F.lv) : F.lv[j].k # "ubf" /\ F.lv[j].off < 8 * (e + 1) /\ F.lv[j].off + F.lv[j].sz > 8 * e}
             IN IF \E j \in over : F.lv[j].cl = "int" THEN "int" ELSE IF over # {} THEN "sse" ELSE "none"
           all == [e \in 1..CeilDiv(F.size, 8) |-> cls(e - 1)]
       IN SelectSeq(all, LAMBDA c : c # "none")

AAPCS(F) ==
  LET lv == F.lv
      n == Len(lv)
      flt == n > 0 /\ \A j \in 1..n : lv[j].cl = "flt" /\ lv[j].k = "m" /\ lv[j].sz = lv[1].sz
      cnt == Cardinality({lv[j].off : j \in 1..n})
  IN IF flt /\ cnt <= 4 /\ F.size = cnt * lv[1].sz THEN <<"hfa", lv[1].sz, cnt>>
     ELSE IF F.size <= 16 THEN <<"int", CeilDiv(F.size, 8), F.align = 16>>
     ELSE <<"mem">>

RV64(F) ==
  LET lv == F.lv
      n == Len(lv)
      flat == n \in {1, 2} /\ (\A j \in 1..n : ~lv[j].un /\ ~lv[j].ptr) /\ (\E j \in 1..n : lv[j].cl = "flt")
              \* a bit-field counts as a field of its declared type even when that storage unit overlaps the other field
  IN IF flat THEN <<"flat">> \o [j \in 1..n |-> IF lv[j].cl = "flt" THEN "f" ELSE "i"] \o [j \in 1..n |-> lv[j].sz]
     ELSE IF F.size <= 16 THEN <<"int", CeilDiv(F.size, 8), F.align = 16>>
     ELSE <<"mem">>

Classify(F, tg) == CASE tg = "x86_64-sysv" -> SysV(F) [] tg = "aarch64" -> AAPCS(F) [] tg = "riscv64" -> RV64(F)

(* opaque descriptors (va_list): QBE passes them in memory / by reference *)
QClassify(F, tg) == IF F.dark THEN <<"mem">> ELSE Classify(F, tg)

AbiEquiv(C, Q, tg) == C.size = Q.size /\ C.align = Q.align /\ Classify(C, tg) = QClassify(Q, tg)

(* field for field: the same (offset, size, class) set, a bit-field standing for its storage unit and      *)
(* fields swallowed by a wider integer unit of the descriptor tolerated only if ABI-equivalent (above)      *)
FieldSet(lv) == {<<lv[j].off, lv[j].sz, lv[j].cl>> : j \in {x \in 1..Len(lv) : lv[x].k # "ubf"}}
SameFields(C, Q) == C.size = Q.size /\ C.align = Q.align /\ FieldSet(C.lv) = FieldSet(Q.lv)

(* ----------------------------------------------------------------------- *)
(* Classes of C types whose description qbe.c:emittype cannot get right (its own XXX comment, and the     *)
(* consequences of merging bit-fields into storage units); everything else must be described exactly.     *)
RECURSIVE DescrClasses(_, _)
DescrClasses(T, tg) ==
  IF T.k = "sc" THEN {}
  ELSE IF T.k = "arr" THEN DescrClasses(T.of, tg) \cup (IF T.n = 0 THEN {"flexible"} ELSE {})
  ELSE LET n == Len(T.ms)
           own ==
             (IF \E i \in 1..n : T.ms[i].al > DL(T.ms[i].t, FALSE).align THEN {"alignas-member"} ELSE {})
             \cup (IF T.pk /\ \E i \in 1..n : DL(T.ms[i].t, FALSE).align > 1 THEN {"packed"} ELSE {})
             \cup (IF \E i \in 1..n : IsBF(T.ms[i]) /\ ~T.ms[i].nm THEN {"unnamed-bitfield"} ELSE {})
             \cup (IF \E i \in 1..n : Strip(T.ms[i].t).k = "sc" /\ Strip(T.ms[i].t).n = "ldouble" THEN {"long-double"} ELSE {})
             \cup (IF \E i \in 1..n : IsBF(T.ms[i]) /\ T.ms[i].nm THEN {"bitfield"} ELSE {})
             \* QBE IL has no pointer class: `l` beside a float is flattened by QBE's rv64 ABI, LP64D flattens integers only
             \cup (IF tg = "riscv64" /\ (LET lv == CFlat(T, FALSE).lv IN (\E l \in 1..Len(lv) : lv[l].ptr) /\ (\E l \in 1..Len(lv) : lv[l].cl = "flt"))
                   THEN {"pointer-beside-float-rv"} ELSE {})
       IN own \cup UNION {DescrClasses(T.ms[i].t, tg) : i \in 1..n}

CurView(tg) == [impl |-> TRUE, raise |-> RaiseOf(tg), devs |-> Devs]     \* cproc's own layout on that target

(* design level, on C06's bounded universe (Layout "mc" mode, at the end of each aggregate) *)
Inv_Descr ==
  (Mode = "mc" /\ phase = "done") =>
     \A i \in 1..3 :
        LET tg == Targets[i] T == Current IN
        (DescrClasses(T, tg) = {} /\ ~DevApplies(T)) =>
           AbiEquiv(CFlat(T, RaiseOf(tg)), QFlat(Descr(T, CurView(tg))), tg)

(* exploration aid: print the aggregates whose model descriptor is not ABI-equivalent, with the reason *)
Inv_DescrReport ==
  (Mode = "mc" /\ phase = "done") =>
     \A i \in 1..3 :
        LET tg == Targets[i] T == Current
            C == CFlat(T, RaiseOf(tg)) Q == QFlat(Descr(T, CurView(tg))) IN
        (DescrClasses(T, tg) = {} /\ ~DevApplies(T) /\ ~AbiEquiv(C, Q, tg)) =>
           PrintT("VCASE " \o ToJson([tg |-> tg, t |-> T, d |-> Descr(T, CurView(tg)), cs |-> C.size, qs |-> Q.size, ca |-> C.align, qa |-> Q.align,
                                       cc |-> Classify(C, tg), qc |-> QClassify(Q, tg)]))

(* ======================================================================= *)
(* Signatures                                                               *)
(* parameter reference: [k |-> "sc", n |-> name] | [k |-> "agg", i |-> index into the input] | [k |-> "arr", n |-> name] *)
PClass(p) == CASE p.k = "agg" -> <<":", p.i>>
               [] p.k = "valist" -> <<"valist">>                 \* target dependent, see VaListClass
               [] p.k = "arr" -> <<"l">>                         \* 6.7.6.3p7: adjusted to pointer
               [] p.k = "sc"  -> <<IF SClass(p.n) = "flt" THEN (IF SSize(p.n) = 4 THEN "s" ELSE "d")
                                   ELSE IF SSize(p.n) = 8 THEN "l" ELSE "w">>
VClass(p) == IF p.k = "sc" /\ p.n = "float" THEN <<"d">> ELSE PClass(p)      \* default argument promotions (6.5.2.2p6)

(* targ.c: va_list is struct[1] (adjusted to a pointer) on x86_64-sysv, a 32-byte struct passed by value on  *)
(* aarch64 (described to QBE as the opaque `align 8 { 32 }`), void * on riscv64                              *)
VaListClass == [x \in {"x86_64-sysv", "riscv64"} |-> <<"l">>] @@ [x \in {"aarch64"} |-> <<":", "va_list">>]
VaListAArch64 == SU(FALSE, FALSE, <<MEM(SC("ptr"), TRUE, -1, 0), MEM(SC("ptr"), TRUE, -1, 0), MEM(SC("ptr"), TRUE, -1, 0),
                                    MEM(SC("int"), TRUE, -1, 0), MEM(SC("int"), TRUE, -1, 0)>>)

(* A sub-word integer comes back in a full register whose upper bits the psABIs leave undefined: before cproc uses *)
(* the result of a call as a word (as a controlling expression: if/while/for/do, ?:, !, &&, ||) it has to extend it  *)
(* from its own width.  RetExt: the extension a result of scalar type n needs ("" = none), cs = plain char is signed *)
RetExt(n, cs) == CASE n \in {"bool", "uchar"} -> "extub" [] n = "schar" -> "extsb" [] n = "char" -> (IF cs THEN "extsb" ELSE "extub")
                   [] n = "short" -> "extsh" [] n = "ushort" -> "extuh" [] OTHER -> ""
RetExtOf(r) == IF r.k = "sc" THEN [x \in {"x86_64-sysv"} |-> RetExt(r.n, TRUE)] @@ [x \in {"aarch64", "riscv64"} |-> RetExt(r.n, FALSE)]
               ELSE [x \in {"x86_64-sysv", "aarch64", "riscv64"} |-> ""]
CtrlContexts == <<"if", "while", "for", "do", "cond", "not", "and", "or">>

AInput == IF Mode \in {"judge", "sig", "ident"} THEN ndJsonDeserialize(IOEnv.ABI_IN) ELSE <<>>

SigScalars == {"bool", "char", "schar", "uchar", "short", "ushort", "int", "uint", "long", "ulong", "llong", "ullong", "float", "double", "ptr"}

(* "sig": st = [ret, va, nagg], ms = fixed parameters, outs = variable arguments, pick = kind chosen next *)
SigBegin ==
  /\ Mode = "sig" /\ phase = "idle"
  /\ \E np \in 0..MaxParams, va \in BOOLEAN, rk \in {"void", "sc", "agg"} :
       \* C23: a variadic function needs no named parameter (`double vsum(...)`): the marker is then the first call operand
       /\ rk = "agg" => st.nagg > 0
       /\ \E r \in (IF rk = "void" THEN {[k |-> "void"]}
                    ELSE IF rk = "sc" THEN {[k |-> "sc", n |-> x] : x \in SigScalars}
                    ELSE {[k |-> "agg", i |-> RandomElement(1..st.nagg)]}) :      \* simulation only: one random aggregate
            st' = [st EXCEPT !.ret = r, !.va = va]
       /\ want' = np
  /\ ms' = <<>> /\ outs' = <<>> /\ phase' = "build" /\ pick' = ""
  /\ UNCHANGED pool

SigPick ==
  /\ Mode = "sig" /\ phase \in {"build", "extra"} /\ pick = ""
  /\ phase = "build" => Len(ms) < want
  /\ phase = "extra" => Len(outs) < MaxExtra
  /\ \E c \in {"sc", "agg", "arr"} : (c = "agg" => st.nagg > 0) /\ pick' = c
  /\ UNCHANGED <<st, ms, outs, pool, phase, want>>

SigRefs(c) == CASE c = "sc" -> {[k |-> "sc", n |-> x] : x \in SigScalars} \cup {[k |-> "valist"]}
                [] c = "agg" -> {[k |-> "agg", i |-> RandomElement(1..st.nagg)]}     \* simulation only (enumerating 10^4 successors per step is too slow)
                [] c = "arr" -> {[k |-> "arr", n |-> x] : x \in {"char", "int", "double"}}

SigAdd ==
  /\ Mode = "sig" /\ pick # ""
  /\ \E p \in SigRefs(pick), nm \in BOOLEAN :      \* nm: the parameter of the DEFINITION is named (C23 allows unnamed ones)
       IF phase = "build" THEN ms' = Append(ms, [nm |-> nm] @@ p) /\ outs' = outs
       ELSE nm /\ p.k # "arr" /\ outs' = Append(outs, p) /\ ms' = ms
  /\ pick' = ""
  /\ UNCHANGED <<st, pool, phase, want>>

(* The classes come from the parameter TYPES; whether a parameter is named is irrelevant (PClass ignores nm). *)
(* fresh: "" | "u" | "r" - the harness must make this signature the FIRST by-value use of the aggregate's type  *)
(* in the translation unit (unnamed parameter / return type only), see "ident".                                 *)
SigCase == [k |-> "sig", ret |-> st.ret, va |-> st.va, ps |-> ms, xs |-> outs, fresh |-> st.fresh,
            rcls |-> IF st.ret.k = "void" THEN <<>> ELSE PClass(st.ret),
            pcls |-> [i \in 1..Len(ms) |-> PClass(ms[i])],
            xcls |-> [i \in 1..Len(outs) |-> VClass(outs[i])],
            valist |-> VaListClass, valist_t |-> VaListAArch64,
            rext |-> RetExtOf(st.ret), ctxs |-> CtrlContexts,
            marker |-> IF st.va THEN Len(ms) ELSE -1,           \* index of the `...` marker in a call (number of named arguments)
            \* with no variable arguments the marker changes the machine-level protocol only where the caller must
            \* announce the number of vector registers used (SysV: %al); elsewhere its absence is ABI-equivalent
            marker0 |-> {"x86_64-sysv"}]

SigNext ==
  /\ Mode = "sig" /\ pick = ""
  /\ \/ phase = "build" /\ Len(ms) = want /\ st.va /\ phase' = "extra" /\ UNCHANGED <<st, ms, outs, pool, want, pick>>
     \/ /\ \/ phase = "build" /\ Len(ms) = want /\ ~st.va
           \/ phase = "extra"
        /\ PrintT("VCASE " \o ToJson(SigCase))
        /\ phase' = "idle" /\ UNCHANGED <<st, ms, outs, pool, want, pick>>

(* "judge": one initial state per input record [i, t, q (descriptor parsed from the IL, inlined), tg] *)
Verdict(rec) ==
  LET T == rec.t
      tg == rec.tg
      C == CFlat(T, RaiseOf(tg))
      Qa == QFlat(rec.q)
      M == Descr(T, CurView(tg))
      Qm == QFlat(M)
  IN [i |-> rec.i, tg |-> tg,
      csize |-> C.size, calign |-> C.align, qsize |-> Qa.size, qalign |-> Qa.align,
      ccls |-> Classify(C, tg), qcls |-> QClassify(Qa, tg),
      equiv |-> AbiEquiv(C, Qa, tg), same |-> SameFields(C, Qa),
      asmodel |-> rec.q = M, modelequiv |-> AbiEquiv(C, Qm, tg),
      classes |-> DescrClasses(T, tg) \cup (IF DevApplies(T) THEN {"layout-deviation"} ELSE {})]

JudgeOne ==
  /\ Mode = "judge" /\ phase = "idle"
  /\ PrintT("VCASE " \o ToJson(Verdict(pool[1])))
  /\ phase' = "done"
  /\ UNCHANGED <<st, ms, outs, pool, want, pick>>

(* "ident": per input aggregate A the signatures `A f(A a)`, `void f(A)` (unnamed, first use of the type) and *)
(* `A f(void)` (the return type is the only use), so that every aggregate is described at least once and   *)
(* through each of the three places qbe.c:mkfunc / emitfunc take a type description from                    *)
IdentOne ==
  /\ Mode = "ident" /\ phase = "idle"
  /\ PrintT("VCASE " \o ToJson(SigCase))
  /\ phase' = "done"
  /\ UNCHANGED <<st, ms, outs, pool, want, pick>>

AInit ==
  IF Mode = "ident"
  THEN /\ pick = "" /\ phase = "idle" /\ want = 0 /\ pool = <<>>
       /\ LET n == Len(AInput) IN
          \/ \E i \in 1..n, v \in {"", "u", "r"} :
               /\ st = [ret |-> IF v = "u" THEN [k |-> "void"] ELSE [k |-> "agg", i |-> i], va |-> FALSE, nagg |-> n, fresh |-> v]
               /\ ms = IF v = "r" THEN <<>> ELSE <<[k |-> "agg", i |-> i, nm |-> v # "u"]>>
               /\ outs = <<>>
          \* every sub-word return type once: `T f(int)` called in each controlling context
          \/ \E ty \in {"bool", "char", "schar", "uchar", "short", "ushort"} :
               /\ st = [ret |-> [k |-> "sc", n |-> ty], va |-> FALSE, nagg |-> n, fresh |-> ""]
               /\ ms = <<[k |-> "sc", n |-> "int", nm |-> TRUE]>>
               /\ outs = <<>>
          \* variadic matrix: 0, 1, 2 named parameters x 0, 1, 3 variable arguments (integer, floating, aggregate);
          \* the marker sits at index nparam, i.e. first for `f(...)`
          \/ \E np \in {0, 1, 2}, nx \in {0, 1, 3}, xk \in {"int", "double", "float", "agg"} :
               /\ st = [ret |-> [k |-> "sc", n |-> "double"], va |-> TRUE, nagg |-> n, fresh |-> ""]
               /\ ms = [j \in 1..np |-> [k |-> "sc", n |-> IF j = 1 THEN "int" ELSE "double", nm |-> TRUE]]
               /\ outs = [j \in 1..nx |-> IF xk = "agg" THEN [k |-> "agg", i |-> 1] ELSE [k |-> "sc", n |-> xk]]
  ELSE IF Mode \in {"judge", "sig"}
  THEN /\ ms = <<>> /\ outs = <<>> /\ pick = "" /\ phase = "idle" /\ want = 0
       /\ LET inp == AInput IN
          IF Mode = "judge" THEN \E i \in 1..Len(inp) : pool = <<inp[i]>> /\ st = Acc0(FALSE, FALSE)
          ELSE pool = <<>> /\ st = [ret |-> [k |-> "void"], va |-> FALSE, nagg |-> Len(inp), fresh |-> ""]
  ELSE Init

ANext == IF Mode = "judge" THEN JudgeOne
         ELSE IF Mode = "ident" THEN IdentOne
         ELSE IF Mode = "sig" THEN SigBegin \/ SigPick \/ SigAdd \/ SigNext
         ELSE Next

ASpec == AInit /\ [][ANext]_vars
=============================================================================
