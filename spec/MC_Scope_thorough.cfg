\* design check of the scope chain: implementation-shaped lookup = declarative innermost binding
SPECIFICATION SSpec
CONSTANTS
  Names = {"a", "b"}
  MaxScopes = 3
  MaxDepth = 3
  MaxIds = 4
INVARIANTS Inv_Refines Inv_NameSpacesApart Inv_Tree Inv_NoNullBinding
CHECK_DEADLOCK FALSE
