SPECIFICATION Spec
CONSTANTS
  MaxD = 7
  MaxSteps = 70
  NLabels = 3
  UndefGoto = TRUE
  NoretArm = FALSE
INVARIANT Emit
CHECK_DEADLOCK FALSE
