------------------------------- MODULE Layout -------------------------------
(* Object layout (property C06) and the type universe shared with Abi.tla (C08).  *)
(*                                                                                *)
(* Two halves:                                                                    *)
(*  1. DECLARATIVE ABI layout  DL(T, raise): SizeOf / AlignOf / OffsetOf / BitPos *)
(*     of a C type term under the LP64 little-endian C ABIs of x86_64-sysv,       *)
(*     aarch64 (AAPCS64) and riscv64 (psABI).  Written in *bit positions* with    *)
(*     "least position satisfying the constraint" (CHOOSE), not with rounding     *)
(*     arithmetic.  `raise` is the per-target switch "an unnamed (incl. zero      *)
(*     width) bit-field raises the alignment of the aggregate like a member of    *)
(*     its declared type would": TRUE on aarch64, FALSE on x86_64 and riscv64.    *)
(*  2. IMPLEMENTATION-SHAPED accumulator: the state (size, align, bits, pack,     *)
(*     flexible) of /repo/decl.c:struct structbuilder + struct type and the exact *)
(*     arithmetic of decl.c:addmember / tagspec (final ALIGNUP), one operator per *)
(*     branch (IPlain, IBit, IFinish), driven by the actions AddPlain AddBitfield *)
(*     AddAnonymous Finish.  Known defects of the current code are *named         *)
(*     deviations* in the set Devs.                                               *)
(*  plus the enum half: EnumBase (declarative) and the min/max loop of tagspec.   *)
(*                                                                                *)
(* TLC checks that the accumulator refines the declarative layout (Inv_Refine..), *)
(* whole-object sanity invariants of the declarative layout, and emits VCASE      *)
(* lines (type term + expected numbers) that props/c06.py replays into the real   *)
(* cproc-qbe.                                                                     *)
EXTENDS Integers, Sequences, FiniteSets, TLC, Json, IOUtils

CONSTANTS Mode,      \* "mc": one aggregate, every prefix checked | "gen": pool of nested aggregates, emits type terms |
                     \* "eval": expected numbers for the type terms in the ndjson file $LAYOUT_IN | "enum"
          MaxLen,    \* members per aggregate
          MaxPool,   \* aggregates built per behaviour ("gen": nesting depth)
          MaxSize,   \* bound on the byte size of an aggregate under construction
          Raise,     \* declarative per-target switch used by the refinement invariants
          Devs,      \* subset of AllDevs: deviations of the implementation-shaped model that are switched on
          Widths,    \* bit-field widths of the universe
          Emit,      \* BOOLEAN: print VCASE lines
          CharSigned, \* BOOLEAN: plain char is signed on the target (x86_64: TRUE; aarch64, riscv64: FALSE)
          EUSuffixed, \* enum mode: values that are also tried with a `u` suffix
          GenClasses, \* "gen": member classes the generator may pick (subset of Classes)
          GenPacked,  \* "gen": whether packed structs are generated
          McSel,      \* "mc": "full" member universe | "scan": small universe aimed at qbe.c:emittype's storage-unit scan (C08)
          CheckSim   \* BOOLEAN: assert the one-step simulation condition in every Add (all-lengths check with VIEW AccView)

AllDevs == {"EnumFirstZeroUnsigned",  \* decl.c:260 the wrap test `value == 0 && !et->issigned` also fires for the first, implicit 0 of a fixed unsigned enum
            "UnnamedNoAlign",        \* decl.c:827  `if (m && ...)`: an unnamed bit-field never raises t->align (wrong on aarch64)
            "UnionUnnamedIgnored",   \* decl.c:819  `else if (m)`: an unnamed bit-field of a union does not count towards its size
            "PackedNoFinalAlign"}    \* decl.c:231  `if (!b.pack)`: size of a packed struct is not rounded up to its alignment (visible with _Alignas members)

VARIABLES st,     \* accumulator: [un, pk, size, align, bits, flex]   (enum mode: the tagspec loop state)
          ms,     \* members added so far (MEM records)               (enum mode: enumerators)
          outs,   \* what addmember stored in each struct member: [off, bf, af] or NoMember
          pool,   \* finished aggregates (type terms), "gen" mode
          phase,  \* "idle" | "build" | "done"
          want,   \* number of members the aggregate under construction will get ("gen")
          pick    \* member class chosen for the next Add ("gen"), "" otherwise

vars == <<st, ms, outs, pool, phase, want, pick>>

Max(a, b) == IF a < b THEN b ELSE a
Min(a, b) == IF a < b THEN a ELSE b

(* ======================================================================= *)
(* Type terms                                                              *)
SC(n)          == [k |-> "sc", n |-> n]
ARR(t, n)      == [k |-> "arr", of |-> t, n |-> n]           \* n = 0: incomplete (flexible array member)
SU(un, pk, m)  == [k |-> "su", un |-> un, pk |-> pk, ms |-> m]
MEM(t, nm, w, al) == [t |-> t, nm |-> nm, w |-> w, al |-> al]   \* w = -1: not a bit-field; al = 0: no _Alignas

IntNames == {"bool", "char", "schar", "uchar", "short", "ushort", "int", "uint", "long", "ulong", "llong", "ullong"}
FltNames == {"float", "double", "ldouble"}
ScalarNames == IntNames \cup FltNames \cup {"ptr"}

(* LP64, identical on the three targets *)
SSize(n) == CASE n \in {"bool", "char", "schar", "uchar"} -> 1
              [] n \in {"short", "ushort"} -> 2
              [] n \in {"int", "uint", "float"} -> 4
              [] n \in {"long", "ulong", "llong", "ullong", "double", "ptr"} -> 8
              [] n = "ldouble" -> 16
SClass(n) == IF n \in FltNames THEN "flt" ELSE "int"

(* ======================================================================= *)
(* 1. Declarative layout                                                   *)

LeastFrom(lo, P(_)) == CHOOSE x \in lo..(lo + 130) : P(x) /\ \A y \in lo..(x - 1) : ~P(y)

IsBF(m) == m.w # -1
RealMember(m) == m.nm \/ ~IsBF(m)       \* gets a `struct member` (named, or anonymous aggregate)

(* One member: p = [pos, al] is the end (in bits) and alignment reached so far; ml the layout of the member's type. *)
(* Result: new pos, new al and the placement f = [off, bo, w] of the member.                                       *)
DStep(un, pk, raise, p, m, ml) ==
  IF ~IsBF(m)
  THEN \* ordinary member: lowest suitably aligned byte offset not below the end of the previous member
       LET a   == Max(IF pk THEN 1 ELSE ml.align, m.al)
           off == IF un THEN 0 ELSE LeastFrom((p.pos + 7) \div 8, LAMBDA o : o % a = 0)
           e   == 8 * (off + ml.size)
       IN [pos |-> IF un THEN Max(p.pos, e) ELSE e, al |-> Max(p.al, a), f |-> [off |-> off, bo |-> 0, w |-> -1]]
  ELSE \* bit-field: lowest bit position such that the field lies inside one naturally aligned storage unit of
       \* its declared type; width 0 closes the current unit; unions start every member at 0
       LET U == 8 * ml.size
           b == IF un THEN 0
                ELSE IF m.w = 0 THEN LeastFrom(p.pos, LAMBDA x : x % U = 0)
                ELSE LeastFrom(p.pos, LAMBDA x : x \div U = (x + m.w - 1) \div U)
           a == IF m.nm \/ raise THEN ml.align ELSE 1
       IN [pos |-> IF un THEN Max(p.pos, m.w) ELSE b + m.w, al |-> Max(p.al, a),
           f |-> [off |-> (b \div U) * ml.size, bo |-> b % U, w |-> m.w]]

DFinishSize(pos, al) == LeastFrom((pos + 7) \div 8, LAMBDA o : o % al = 0)

(* layout of an aggregate given the layouts ML[i] = [size, align, flex, ...] of its member types *)
DFold(T, raise, ML) ==
  LET n == Len(T.ms)
      S[i \in 0..n] ==
        IF i = 0 THEN [pos |-> 0, al |-> 1, fs |-> <<>>]
        ELSE LET p == S[i - 1]
                 d == DStep(T.un, T.pk, raise, p, T.ms[i], ML[i])
             IN [pos |-> d.pos, al |-> d.al, fs |-> Append(p.fs, d.f)]
      F == S[n]
  IN [size  |-> DFinishSize(F.pos, F.al),
      align |-> F.al,
      flex  |-> \E i \in 1..n : ML[i].flex,
      fs    |-> F.fs]

RECURSIVE DL(_, _)
DL(T, raise) ==
  CASE T.k = "sc"  -> [size |-> SSize(T.n), align |-> SSize(T.n), flex |-> FALSE, fs |-> <<>>]
    [] T.k = "arr" -> LET e == DL(T.of, raise) IN
                      [size |-> e.size * T.n, align |-> e.align, flex |-> T.n = 0 \/ e.flex, fs |-> <<>>]
    [] T.k = "su"  -> DFold(T, raise, [i \in 1..Len(T.ms) |-> DL(T.ms[i].t, raise)])

SizeOf(T, raise)  == DL(T, raise).size
AlignOf(T, raise) == DL(T, raise).align

(* ======================================================================= *)
(* 2. Implementation-shaped accumulator (decl.c)                           *)

AlignDown(x, n) == x - (x % n)                 \* util.h ALIGNDOWN(x, n) ((x) & -(n)), n a power of two
AlignUp(x, n)   == AlignDown(x + n - 1, n)     \* util.h ALIGNUP

NoMember == [off |-> -1, bf |-> 0, af |-> 0]
Acc0(un, pk) == [un |-> un, pk |-> pk, size |-> 0, align |-> 0, bits |-> 0, flex |-> FALSE]

(* addmember, `width == -1` branch.  al = alignment from alignas (0: none); precondition al = 0 \/ al >= malign *)
IPlain(s, msize, malign, al, mflex) ==
  LET a   == IF al < malign THEN (IF s.pk THEN 1 ELSE malign) ELSE al
      off == IF ~s.un THEN AlignUp(s.size, a) ELSE 0
      sz  == IF ~s.un THEN off + msize ELSE Max(s.size, msize)
  IN [s |-> [s EXCEPT !.size = sz, !.bits = 0, !.align = Max(s.align, a), !.flex = s.flex \/ mflex],
      o |-> [off |-> off, bf |-> 0, af |-> 0]]

(* addmember, bit-field branch.  tsize = size = alignment of the declared type; precondition ~s.pk, w <= 8*tsize, (w = 0 => ~nm) *)
IBit(s, D, raise, tsize, w, nm) ==
  LET alignOK == nm \/ ("UnnamedNoAlign" \notin D /\ raise)
      al2 == IF alignOK THEN Max(s.align, tsize) ELSE s.align
  IN IF ~s.un
     THEN LET end   == AlignUp(s.size, tsize)
              fresh == w = 0 \/ w > (end - s.size) * 8 + s.bits        \* no room, allocate a new storage unit
              size1 == IF fresh THEN end ELSE s.size
              bits1 == IF fresh THEN 0 ELSE s.bits
              off   == AlignDown(size1 - (IF bits1 # 0 THEN 1 ELSE 0), tsize)
              bf    == (size1 - off) * 8 - bits1
              af    == tsize * 8 - w - bf
              size2 == size1 + (w - bits1 + 7) \div 8
              bits2 == (bits1 - w) % 8                                 \* unsigned wrap-around then % 8
          IN [s |-> [s EXCEPT !.size = size2, !.bits = bits2, !.align = al2],
              o |-> IF nm THEN [off |-> off, bf |-> bf, af |-> af] ELSE NoMember]
     ELSE IF nm
          THEN [s |-> [s EXCEPT !.size = Max(s.size, tsize), !.align = al2],
                o |-> [off |-> 0, bf |-> 0, af |-> tsize * 8 - w]]
          ELSE [s |-> [s EXCEPT !.size = IF "UnionUnnamedIgnored" \in D THEN s.size ELSE Max(s.size, (w + 7) \div 8),
                                !.align = al2],
                o |-> NoMember]

(* tagspec after the member loop *)
IFinish(s, D) ==
  IF s.pk /\ "PackedNoFinalAlign" \in D THEN s ELSE [s EXCEPT !.size = AlignUp(s.size, s.align)]

(* whole-type layout computed by folding the accumulator over a type term, same result shape as DL *)
IFold(T, D, raise, ML) ==
  LET n == Len(T.ms)
      S[i \in 0..n] ==
        IF i = 0 THEN [s |-> Acc0(T.un, T.pk), fs |-> <<>>]
        ELSE LET p == S[i - 1]
                 m == T.ms[i]
                 r == IF IsBF(m) THEN IBit(p.s, D, raise, ML[i].size, m.w, m.nm)
                      ELSE IPlain(p.s, ML[i].size, ML[i].align, m.al, ML[i].flex)
             IN [s |-> r.s, fs |-> Append(p.fs, [off |-> r.o.off, bo |-> r.o.bf, w |-> m.w])]
      F == IFinish(S[n].s, D)
  IN [size |-> F.size, align |-> F.align, flex |-> F.flex, fs |-> S[n].fs]

RECURSIVE IL(_, _, _)
IL(T, D, raise) ==
  CASE T.k = "sc"  -> [size |-> SSize(T.n), align |-> SSize(T.n), flex |-> FALSE, fs |-> <<>>]
    [] T.k = "arr" -> LET e == IL(T.of, D, raise) IN      \* decl.c:declarator / type.c:mkarraytype
                      [size |-> e.size * T.n, align |-> e.align, flex |-> T.n = 0 \/ e.flex, fs |-> <<>>]
    [] T.k = "su"  -> IFold(T, D, raise, [i \in 1..Len(T.ms) |-> IL(T.ms[i].t, D, raise)])

(* whole-object sanity of the declarative layout itself *)
Extent(T, D, ML, i) ==    \* bit interval [lo, hi) occupied by member i; D = DL(T, r), ML[i] = DL(T.ms[i].t, r)
  LET f == D.fs[i] m == T.ms[i] IN
  IF IsBF(m) THEN [lo |-> 8 * f.off + f.bo, hi |-> 8 * f.off + f.bo + m.w]
  ELSE [lo |-> 8 * f.off, hi |-> 8 * (f.off + ML[i].size)]

DeclSane(T, raise) ==
  LET n == Len(T.ms)
      ML == [i \in 1..n |-> DL(T.ms[i].t, raise)]
      D == DFold(T, raise, ML)
      X == [i \in 1..n |-> Extent(T, D, ML, i)]
  IN
  /\ \A i \in 1..n : LET m == T.ms[i] f == D.fs[i] ml == ML[i] IN
        /\ ~IsBF(m) => /\ f.off % Max(IF T.pk THEN 1 ELSE ml.align, m.al) = 0          \* offsets aligned
                       /\ f.off + ml.size <= D.size
        /\ IsBF(m)  => /\ f.off % ml.size = 0                                          \* storage unit naturally aligned
                       /\ f.bo + m.w <= 8 * ml.size                                    \* inside one storage unit
                       /\ 8 * D.size >= X[i].hi
  /\ ~T.un => \A i \in 1..(n - 1) : X[i].hi <= X[i + 1].lo /\ X[i].lo <= X[i].hi        \* declaration order, no overlap
  /\ T.un => \A i \in 1..n : X[i].lo = 0
  /\ D.size % D.align = 0
  /\ \A i \in 1..n : RealMember(T.ms[i]) => D.align % Max(IF T.pk THEN 1 ELSE ML[i].align, T.ms[i].al) = 0

(* ======================================================================= *)
(* Flattening: every member at every depth with its absolute offset         *)
(* Lay(T, v): v = [impl |-> BOOLEAN, raise |-> BOOLEAN, devs |-> set]        *)
Lay(T, v) == IF v.impl THEN IL(T, v.devs, v.raise) ELSE DL(T, v.raise)

(* path element: i >= 1 member index; -(k+1) array element k *)
Shift(nodes, base, pre) == [j \in 1..Len(nodes) |-> [nodes[j] EXCEPT !.p = <<pre>> \o @, !.off = @ + base]]
Concat(ss) == LET C[i \in 0..Len(ss)] == IF i = 0 THEN <<>> ELSE C[i - 1] \o ss[i] IN C[Len(ss)]

(* Full(T, v): layout and, in one bottom-up pass, every member at every depth with its offset relative to T *)
RECURSIVE Full(_, _)
Full(T, v) ==
  CASE T.k = "sc"  -> [size |-> SSize(T.n), align |-> SSize(T.n), flex |-> FALSE, nodes |-> <<>>]
    [] T.k = "arr" ->
         LET e  == Full(T.of, v)
             ks == IF T.n = 0 THEN <<>> ELSE IF T.n = 1 THEN <<0>> ELSE <<0, T.n - 1>>       \* sampled elements
             el(k) == <<[p |-> <<-(k + 1)>>, off |-> k * e.size, bo |-> 0, w |-> -1]>> \o Shift(e.nodes, k * e.size, -(k + 1))
         IN [size |-> e.size * T.n, align |-> e.align, flex |-> T.n = 0 \/ e.flex,
             nodes |-> Concat([j \in 1..Len(ks) |-> el(ks[j])])]
    [] T.k = "su"  ->
         LET n   == Len(T.ms)
             sub == [i \in 1..n |-> Full(T.ms[i].t, v)]
             L   == IF v.impl THEN IFold(T, v.devs, v.raise, sub) ELSE DFold(T, v.raise, sub)
             mem(i) == LET m == T.ms[i] f == L.fs[i] IN
                       IF ~RealMember(m) THEN <<>>
                       ELSE <<[p |-> <<i>>, off |-> f.off, bo |-> f.bo, w |-> m.w]>>
                            \o (IF IsBF(m) THEN <<>> ELSE Shift(sub[i].nodes, f.off, i))
         IN [size |-> L.size, align |-> L.align, flex |-> L.flex, nodes |-> Concat([i \in 1..n |-> mem(i)])]

Summary(T, v) == LET L == Full(T, v) IN [size |-> L.size, align |-> L.align, nodes |-> L.nodes]

(* ======================================================================= *)
(* Member universe                                                          *)
BFTypes == {"char", "short", "int", "long"}
BFKinds == {MEM(SC(t), nm, w, 0) : t \in BFTypes, nm \in BOOLEAN, w \in Widths}
BFOk(m) == m.w <= 8 * SSize(m.t.n) /\ (m.w = 0 => ~m.nm)
CI == SU(FALSE, FALSE, <<MEM(SC("char"), TRUE, -1, 0), MEM(SC("int"), TRUE, -1, 0)>>)       \* struct { char; int; }
CS == SU(TRUE, FALSE, <<MEM(SC("char"), TRUE, -1, 0), MEM(SC("short"), TRUE, -1, 0)>>)      \* union { char; short; }
MCPlain == {MEM(SC(n), TRUE, -1, 0) : n \in {"char", "short", "int", "long", "double"}}
           \cup {MEM(ARR(SC("char"), 3), TRUE, -1, 0), MEM(CI, TRUE, -1, 0)}
           \cup {MEM(SC("char"), TRUE, -1, 8), MEM(SC("short"), TRUE, -1, 4), MEM(SC("int"), TRUE, -1, 16)}   \* _Alignas(n)
MCAnon == {MEM(CI, FALSE, -1, 0), MEM(CS, FALSE, -1, 0)}
MCFlex == {MEM(ARR(SC("int"), 0), TRUE, -1, 0)}

(* "gen" universe: chosen in two steps (pick a class, then a member of the class) so that -simulate is not drowned in bit-fields *)
Classes == {"scalar", "array", "bitfield", "nested", "anon", "alignas", "flex"}
GenScalars == {"bool", "char", "uchar", "short", "int", "uint", "long", "llong", "float", "double", "ldouble", "ptr"}
PowersFrom(a) == {x \in {1, 2, 4, 8, 16, 32, 64} : x >= a}
PoolSU(un) == {pool[i] : i \in {j \in 1..Len(pool) : ~pool[j].fx \/ un}}      \* entries [t, al, fx]
Nestable(un) == {e.t : e \in PoolSU(un)}
GenMembers(cls, un, last) ==
  CASE cls = "scalar"   -> {MEM(SC(n), TRUE, -1, 0) : n \in GenScalars}
    [] cls = "array"    -> {MEM(ARR(SC(n), c), TRUE, -1, 0) : n \in {"char", "short", "int", "double", "ptr"}, c \in {1, 2, 3, 5}}
                           \cup {MEM(ARR(ARR(SC(n), 2), 3), TRUE, -1, 0) : n \in {"char", "int"}}
                           \cup {MEM(ARR(t, c), TRUE, -1, 0) : t \in Nestable(FALSE), c \in {1, 2, 3}}
    [] cls = "bitfield" -> {m \in {MEM(SC(t), nm, w, 0) : t \in {"bool", "char", "uchar", "short", "ushort", "int", "uint", "long", "ulong", "llong"},
                                                          nm \in BOOLEAN, w \in Widths} :
                              BFOk(m) /\ (m.t.n = "bool" => m.w <= 1)}
    [] cls = "nested"   -> {MEM(t, TRUE, -1, 0) : t \in Nestable(un)}
    [] cls = "anon"     -> {MEM(t, FALSE, -1, 0) : t \in Nestable(un)}
    [] cls = "alignas"  -> UNION {{MEM(SC(n), TRUE, -1, a) : a \in PowersFrom(SSize(n))} : n \in {"char", "short", "int", "long", "double"}}
                           \cup UNION {{MEM(e.t, nm, -1, a) : nm \in BOOLEAN, a \in PowersFrom(e.al)} : e \in PoolSU(un)}
    [] cls = "flex"     -> IF last /\ ~un /\ (\E i \in 1..Len(ms) : ms[i].nm)
                           THEN {MEM(ARR(SC(n), 0), TRUE, -1, 0) : n \in {"char", "int", "long"}} ELSE {}


(* ======================================================================= *)
(* 3. Enumerations: underlying type (C23 6.7.2.2 as implemented by the platform compilers:            *)
(*    unsigned int / int when every value fits, else unsigned long / long; fixed type otherwise)      *)
(*    and the enumerator loop of decl.c:tagspec.                                                      *)
(* Scaled carrier (TLC integers are 32 bit): char 3, short 5, int 7, long = long long 12 bits.         *)
(* props/c06.py maps a scaled value to the real one through the nearest anchor (a power of two bound  *)
(* of some type): real(v) = REAL(a) + (v - a), |v - a| <= 1, which preserves every comparison made     *)
(* here and the successor relation used by implicit enumerators.                                      *)
EW == 4096
EBits(n) == CASE n \in {"char", "schar", "uchar"} -> 3
              [] n \in {"short", "ushort"} -> 5
              [] n \in {"int", "uint"} -> 7
              [] OTHER -> 12
ESigned(n) == n \in {"schar", "short", "int", "long", "llong"} \/ (n = "char" /\ CharSigned)
ETMax(n) == 2 ^ (EBits(n) - (IF ESigned(n) THEN 1 ELSE 0)) - 1
ETMin(n) == IF ESigned(n) THEN -(2 ^ (EBits(n) - 1)) ELSE 0

EAnchors == {0, 4, 8, 16, 32, 64, 128, 2048, 4096, -4, -16, -64, -2048}
EUniverse == {x \in (-2048)..4095 : \E a \in EAnchors : x - a \in {-1, 0, 1}}
ESameAnchor(x, y) == \E a \in EAnchors : x - a \in {-1, 0, 1} /\ y - a \in {-1, 0, 1}
FixedTypes == {"char", "schar", "uchar", "short", "ushort", "int", "uint", "long", "ulong", "llong", "ullong"}

(* enumerator: [x |-> explicit?, v |-> value if explicit, u |-> written with a `u` suffix] *)
(* type of the constant expression as props/c06.py writes it: decimal literal, `u` suffix, negative as (-(n-1) - 1) *)
LitType(v, u) == IF u THEN (IF v <= ETMax("uint") THEN "uint" ELSE "ulong")
                 ELSE IF v < 0 THEN (IF v >= ETMin("int") THEN "int" ELSE "long")
                 ELSE IF v <= ETMax("int") THEN "int" ELSE "long"
LitOk(e) == e.x => /\ (e.u => e.v >= 0)
                   /\ (~e.u => e.v <= ETMax("long"))

EVals(es) == LET V[i \in 1..Len(es)] == IF es[i].x THEN es[i].v ELSE IF i = 1 THEN 0 ELSE V[i - 1] + 1 IN V

(* declarative *)
EnumD(fixed, es) ==
  LET n == Len(es)
      V == EVals(es)
      lo == CHOOSE x \in {V[i] : i \in 1..n} : \A i \in 1..n : x <= V[i]
      hi == CHOOSE x \in {V[i] : i \in 1..n} : \A i \in 1..n : x >= V[i]
  IN IF fixed # "none"
     THEN [ok |-> \A i \in 1..n : V[i] >= ETMin(fixed) /\ V[i] <= ETMax(fixed), base |-> fixed]
     ELSE IF lo < ETMin("llong") \/ hi > ETMax("ullong") \/ (lo < 0 /\ hi > ETMax("llong"))
          THEN [ok |-> FALSE, base |-> "none"]
          ELSE [ok |-> TRUE,
                base |-> IF lo >= ETMin("int") /\ hi <= ETMax("int") THEN (IF lo < 0 THEN "int" ELSE "uint")
                         ELSE IF lo >= 0 THEN (IF hi <= ETMax("uint") THEN "uint" ELSE "ulong")
                         ELSE "long"]

(* cases whose required outcome is certain: an implicit enumerator never follows LLONG_MAX or ULLONG_MAX *)
ECertain(es) == LET V == EVals(es) IN
  \A i \in 2..Len(es) : ~es[i].x => V[i - 1] \notin {ETMax("llong"), ETMax("ullong")}

(* implementation: decl.c:tagspec, TYPEENUM branch; `value` is an unsigned long long (here: modulo EW) *)
HasInt(t, i, sign) ==      \* type.c:typehasint
  IF sign /\ i >= EW \div 2 THEN ESigned(t) /\ i >= EW - 2 ^ (EBits(t) - 1)
  ELSE i <= ETMax(t)

EInit(fixed) == [et |-> IF fixed = "none" THEN "int" ELSE fixed, value |-> 0, min |-> 0, max |-> 0, n |-> 0,
                 err |-> FALSE, fixed |-> fixed]
IntTypes(sign) == IF sign THEN <<"int", "long", "llong">> ELSE <<"uint", "ulong", "ullong">>
FirstFit(sign, P(_)) == LET c == IntTypes(sign) IN
  IF P(c[1]) THEN c[1] ELSE IF P(c[2]) THEN c[2] ELSE IF P(c[3]) THEN c[3] ELSE "none"

EStep(s, e) ==
  IF s.err THEN s ELSE
  LET value == IF e.x THEN e.v % EW ELSE s.value
      r == IF e.x
           THEN LET ls == ESigned(LitType(e.v, e.u)) IN
                IF s.fixed = "none"
                THEN [et |-> IF HasInt("int", value, ls) THEN "int" ELSE LitType(e.v, e.u), err |-> FALSE]
                ELSE [et |-> s.et, err |-> ~HasInt(s.et, value, ls)]
           ELSE IF \/ value = 0 /\ ~ESigned(s.et) /\ (s.n > 0 \/ "EnumFirstZeroUnsigned" \in Devs)
                   \/ value = EW \div 2 /\ ESigned(s.et)
                THEN [et |-> s.et, err |-> TRUE]        \* "no (un)signed integer type can represent enumerator value"
                ELSE IF ~HasInt(s.et, value, ESigned(s.et))
                     THEN IF s.fixed # "none" THEN [et |-> s.et, err |-> TRUE]
                          ELSE LET sign == ESigned(s.et)
                                   t == FirstFit(sign, LAMBDA c : HasInt(c, value, sign))
                               IN [et |-> t, err |-> t = "none"]
                     ELSE [et |-> s.et, err |-> FALSE]
      neg == ~r.err /\ ESigned(r.et) /\ value >= EW \div 2
  IN [s EXCEPT !.et = r.et, !.err = r.err, !.value = (value + 1) % EW, !.n = s.n + 1,
               !.min = IF neg THEN Max(s.min, EW - value) ELSE s.min,
               !.max = IF ~neg /\ ~r.err THEN Max(s.max, value) ELSE s.max]

EFinish(s) ==
  IF s.err THEN [ok |-> FALSE, base |-> "none"]
  ELSE IF s.fixed # "none" THEN [ok |-> TRUE, base |-> s.fixed]
  ELSE IF s.min <= 2 ^ (EBits("int") - 1) /\ s.max <= ETMax("int")        \* min <= 0x80000000 && max <= 0x7fffffff
       THEN [ok |-> TRUE, base |-> IF s.min # 0 THEN "int" ELSE "uint"]
       ELSE LET sign == s.min > 0
                t == FirstFit(sign, LAMBDA c : HasInt(c, s.max, FALSE) /\ HasInt(c, (EW - s.min) % EW, TRUE))
            IN [ok |-> t # "none", base |-> t]

EnumI(fixed, es) ==
  LET S[i \in 0..Len(es)] == IF i = 0 THEN EInit(fixed) ELSE EStep(S[i - 1], es[i]) IN EFinish(S[Len(es)])

EnumDevApplies(fixed, es) ==
  "EnumFirstZeroUnsigned" \in Devs /\ fixed # "none" /\ ~ESigned(fixed) /\ es # <<>> /\ ~es[1].x

EnumMembers == {[x |-> FALSE, v |-> 0, u |-> FALSE]}
               \cup {e \in {[x |-> TRUE, v |-> v, u |-> u] : v \in EUniverse, u \in BOOLEAN} : LitOk(e) /\ (e.u => e.v \in EUSuffixed)}

AddEnumerator ==
  /\ Mode = "enum" /\ phase = "build" /\ Len(ms) < (IF st.fixed = "none" THEN MaxLen ELSE Min(MaxLen, 2))
  /\ \E e \in EnumMembers :
       /\ ~e.x /\ ms # <<>> => LET V == EVals(ms) p == V[Len(ms)] IN p + 1 \in EUniverse /\ ESameAnchor(p, p + 1)
       /\ ms' = Append(ms, e)
       /\ st' = EStep(st, e)
  /\ UNCHANGED <<outs, pool, phase, want, pick>>

FinishEnum ==
  /\ Mode = "enum" /\ phase = "build" /\ ms # <<>>
  /\ phase' = "done"
  /\ UNCHANGED <<st, ms, outs, pool, want, pick>>

Inv_EnumRefine ==
  (Mode = "enum" /\ ms # <<>> /\ ECertain(ms) /\ ~EnumDevApplies(st.fixed, ms)) =>
     LET d == EnumD(st.fixed, ms) i == EFinish(st) IN
       /\ i = EnumI(st.fixed, ms)
       /\ d.ok = i.ok
       /\ d.ok => d.base = i.base

EnumCase ==
  LET d == EnumD(st.fixed, ms) i == EFinish(st) IN
  [k |-> "enum", fixed |-> st.fixed, es |-> ms, cs |-> CharSigned,
   exp |-> [ok |-> d.ok, base |-> d.base, size |-> IF d.ok THEN SSize(d.base) ELSE 0, signed |-> d.ok /\ ESigned(d.base)],
   mod |-> IF i = d THEN [same |-> TRUE] ELSE i,
   devs |-> {x \in {"EnumFirstZeroUnsigned"} : EnumDevApplies(st.fixed, ms)}]

Inv_EmitEnum ==
  (Emit /\ Mode = "enum" /\ phase = "done" /\ ECertain(ms) /\ EnumD(st.fixed, ms).ok) => PrintT("VCASE " \o ToJson(EnumCase))

Current == SU(st.un, st.pk, ms)
DView(r) == [impl |-> FALSE, raise |-> r, devs |-> {}]
IView(D, r) == [impl |-> TRUE, raise |-> r, devs |-> D]

RECURSIVE HasUnnamedBF(_)
HasUnnamedBF(T) == IF T.k = "sc" THEN FALSE ELSE IF T.k = "arr" THEN HasUnnamedBF(T.of)
                   ELSE \E i \in 1..Len(T.ms) : (IsBF(T.ms[i]) /\ ~T.ms[i].nm) \/ HasUnnamedBF(T.ms[i].t)

Case(T) ==
  LET e0 == Summary(T, DView(FALSE))
      e1 == IF HasUnnamedBF(T) THEN Summary(T, DView(TRUE)) ELSE e0      \* `raise` only matters for unnamed bit-fields
      m0 == Summary(T, IView(Devs, FALSE))          \* what the current code is modelled to do
      m1 == IF "UnnamedNoAlign" \in Devs \/ ~HasUnnamedBF(T) THEN m0 ELSE Summary(T, IView(Devs, TRUE))
      fired(r, e, m) == IF m = e THEN {} ELSE {d \in Devs : Summary(T, IView(Devs \ {d}, r)) # m}
  IN [k |-> "su", t |-> T, exp0 |-> e0,
      exp1 |-> IF e1 = e0 THEN [same |-> TRUE] ELSE e1,
      mod0 |-> IF m0 = e0 THEN [same |-> TRUE] ELSE m0,
      mod1 |-> IF m1 = e1 THEN [same |-> TRUE] ELSE m1,
      devs0 |-> fired(FALSE, e0, m0), devs1 |-> fired(TRUE, e1, m1)]


(* ======================================================================= *)
(* Actions                                                                  *)
ImplView == [impl |-> TRUE, raise |-> Raise, devs |-> Devs]

Step(s, m) ==   \* one call of addmember with the configured deviations
  LET ml == IL(m.t, Devs, Raise) IN
  IF IsBF(m) THEN IBit(s, Devs, Raise, ml.size, m.w, m.nm)
  ELSE IPlain(s, ml.size, ml.align, m.al, ml.flex)

(* refinement mapping: pos (bits) = 8*size - bits ; align 0 stands for "no member yet" = 1 *)
AbsPos(s) == 8 * s.size - s.bits

MemberAgrees(m, o, f) ==
  IF RealMember(m) THEN o.off = f.off /\ o.bf = f.bo /\ (IsBF(m) => o.af = 8 * SSize(m.t.n) - m.w - f.bo)
  ELSE o = NoMember

(* Simulation condition for one struct step, from ANY accumulator state s: used as an assertion inside the  *)
(* action so that, together with VIEW AccView, TLC checks member sequences of every length (see notes).     *)
StepSim(s, m) ==
  LET d == DStep(FALSE, s.pk, Raise, [pos |-> AbsPos(s), al |-> Max(s.align, 1)], m, DL(m.t, Raise))
      r == Step(s, m)
  IN AbsPos(r.s) = d.pos /\ Max(r.s.align, 1) = d.al /\ MemberAgrees(m, r.o, d.f) /\ r.s.bits \in 0..7

CanAdd(m) ==
  /\ phase = "build"
  /\ Len(ms) < (IF Mode = "gen" THEN want ELSE MaxLen)
  /\ ~(~st.un /\ st.flex)                                   \* "struct has member after flexible array member"
  /\ IsBF(m) => ~st.pk                                      \* "bit-field in packed struct is not supported"
     \* "struct member contains flexible array member": the universes only offer such members to unions

Add(m) ==
  /\ CanAdd(m)
  /\ (CheckSim /\ ~st.un) => Assert(StepSim(st, m), <<"simulation step fails", st, m>>)
  /\ LET r == Step(st, m) IN
       /\ r.s.size <= MaxSize
       /\ st' = r.s
       /\ outs' = Append(outs, r.o)
  /\ ms' = Append(ms, m)
  /\ pick' = ""
  /\ UNCHANGED <<pool, phase, want>>

ScanPlain == {MEM(SC("char"), TRUE, -1, 0), MEM(SC("int"), TRUE, -1, 0), MEM(ARR(SC("char"), 3), TRUE, -1, 0)}
AddPlain ==
  \/ Mode = "mc"  /\ McSel = "scan" /\ \E m \in ScanPlain : Add(m)
  \/ Mode = "mc"  /\ McSel = "full" /\ \E m \in MCPlain \cup MCFlex : (m \in MCFlex => ~st.un /\ \E i \in 1..Len(ms) : ms[i].nm) /\ Add(m)
  \/ Mode = "gen" /\ pick \in {"scalar", "array", "nested", "alignas", "flex"}
                  /\ \E m \in GenMembers(pick, st.un, Len(ms) + 1 = want) : m.nm /\ Add(m)
AddBitfield ==
  \/ Mode = "mc"  /\ \E m \in BFKinds : BFOk(m) /\ (McSel = "scan" => m.nm) /\ Add(m)
  \/ Mode = "gen" /\ pick = "bitfield" /\ \E m \in GenMembers(pick, st.un, FALSE) : Add(m)
AddAnonymous ==
  \/ Mode = "mc"  /\ McSel = "full" /\ \E m \in MCAnon : Add(m)
  \/ Mode = "gen" /\ pick \in {"anon", "alignas"} /\ \E m \in GenMembers(pick, st.un, FALSE) : ~m.nm /\ Add(m)

Pick ==
  /\ Mode = "gen" /\ phase = "build" /\ pick = "" /\ Len(ms) < want
  /\ \E c \in GenClasses :
       /\ c = "bitfield" => ~st.pk
       /\ c \in {"nested", "anon"} => Nestable(st.un) # {}
       /\ c = "flex" => GenMembers(c, st.un, Len(ms) + 1 = want) # {} /\ ~st.pk
       /\ pick' = c
  /\ UNCHANGED <<st, ms, outs, pool, phase, want>>

Begin ==
  /\ Mode = "gen" /\ phase = "idle" /\ Len(pool) < MaxPool
  /\ \E un \in BOOLEAN, pk \in BOOLEAN, n \in 1..MaxLen :
       /\ un => ~pk                       \* cproc: packed is only accepted on struct
       /\ pk => GenPacked
       /\ st' = Acc0(un, pk) /\ want' = n
  /\ ms' = <<>> /\ outs' = <<>> /\ phase' = "build" /\ pick' = ""
  /\ UNCHANGED pool

HasMember == \E i \in 1..Len(ms) : RealMember(ms[i])     \* otherwise "struct/union has no members"

Finish ==
  /\ phase = "build" /\ HasMember /\ pick = ""
  /\ Mode = "gen" => Len(ms) = want
  /\ st' = IFinish(st, Devs)
  /\ pool' = IF Mode = "gen"       \* al: alignment on every target (an _Alignas below it would be a constraint violation on aarch64)
             THEN LET D == DL(Current, TRUE) IN Append(pool, [t |-> Current, al |-> D.align, fx |-> D.flex])
             ELSE pool
  /\ phase' = IF Mode = "gen" /\ Len(pool) + 1 < MaxPool THEN "idle" ELSE "done"
  /\ (Emit /\ Mode = "gen") => PrintT("VCASE " \o ToJson(Current))
  /\ UNCHANGED <<ms, outs, want, pick>>

(* ======================================================================= *)
(* "huge": aggregates of 4 GiB and more.  TLC's integers are 32 bit, so the member that makes the aggregate huge   *)
(* is a *stretch array* (an array term with a field st) whose byte size is n0 + D: the spec lays the type out for   *)
(* D = 0, 64, 128, 192, asserts that every observable (size, every offset, sampled element index) is AFFINE in D     *)
(* over these points (alignments divide 64, so the layout is periodic in D with period 64) and prints the layouts     *)
(* for D = 0 and D = 64; props/c06.py evaluates base + slope * (D / 64) for D = 2^32 - 64, 2^32, 2^33, 2^40 with     *)
(* unbounded integers.  gcc and clang are asked about the same huge types (audit), so a wrong extrapolation is a      *)
(* SPEC-AUDIT machinery error, never a VIOLATION.                                                                     *)
IsStretch(T) == T.k = "arr" /\ "st" \in DOMAIN T
RECURSIVE StretchT(_, _), HasStretch(_)
StretchT(T, d) ==
  CASE T.k = "sc"  -> T
    [] T.k = "arr" -> IF IsStretch(T) THEN [T EXCEPT !.n = @ + d * (64 \div SSize(T.of.n))] ELSE [T EXCEPT !.of = StretchT(@, d)]
    [] T.k = "su"  -> [T EXCEPT !.ms = [i \in 1..Len(T.ms) |-> [T.ms[i] EXCEPT !.t = StretchT(@, d)]]]
HasStretch(T) == IF T.k = "sc" THEN FALSE ELSE IF T.k = "arr" THEN IsStretch(T) \/ HasStretch(T.of)
                 ELSE \E i \in 1..Len(T.ms) : HasStretch(T.ms[i].t)

SARR(n, c) == [k |-> "arr", of |-> SC(n), n |-> c, st |-> TRUE]
HugeInner == SU(FALSE, FALSE, <<MEM(SARR("char", 64), TRUE, -1, 0), MEM(SC("char"), TRUE, -1, 0)>>)
HugeUniverse ==
  {MEM(SARR("char", c), TRUE, -1, 0) : c \in {63, 64, 68}} \cup {MEM(SARR("short", 32), TRUE, -1, 0), MEM(SARR("long", 8), TRUE, -1, 0)}
  \cup {MEM(SC(n), TRUE, -1, 0) : n \in {"char", "int", "long"}} \cup {MEM(CI, TRUE, -1, 0), MEM(SC("int"), TRUE, 3, 0)}
  \cup {MEM(HugeInner, TRUE, -1, 0), MEM(ARR(HugeInner, 2), TRUE, -1, 0)}
HugeTerms ==
  {SU(un, FALSE, s) : un \in BOOLEAN,
                      s \in {q \in UNION {[1..n -> HugeUniverse] : n \in 1..MaxLen} : \E i \in DOMAIN q : HasStretch(q[i].t)}}

Affine(a, b, c, d) == b - a = c - b /\ c - b = d - c
AffineSummary(T, v) ==
  LET S == [d \in 0..3 |-> Summary(StretchT(T, d), v)] IN
  /\ Affine(S[0].size, S[1].size, S[2].size, S[3].size)
  /\ S[0].align = S[1].align /\ S[1].align = S[2].align /\ S[2].align = S[3].align
  /\ \A j \in 1..Len(S[0].nodes) :
       /\ Affine(S[0].nodes[j].off, S[1].nodes[j].off, S[2].nodes[j].off, S[3].nodes[j].off)
       /\ S[0].nodes[j].bo = S[3].nodes[j].bo /\ S[0].nodes[j].w = S[3].nodes[j].w
       /\ \A e \in 1..Len(S[0].nodes[j].p) : Affine(S[0].nodes[j].p[e], S[1].nodes[j].p[e], S[2].nodes[j].p[e], S[3].nodes[j].p[e])

HugeOne ==
  /\ Mode = "huge" /\ phase = "idle"
  /\ LET T == pool[1].t IN
     /\ Assert(\A r \in BOOLEAN : AffineSummary(T, DView(r)) /\ AffineSummary(T, IView(Devs, r)), <<"layout is not affine in the stretch", T>>)
     /\ PrintT("VCASE " \o ToJson([k |-> "huge", t |-> T, c0 |-> Case(StretchT(T, 0)), c1 |-> Case(StretchT(T, 1))]))
  /\ phase' = "done"
  /\ UNCHANGED <<st, ms, outs, pool, want, pick>>

(* "eval": the harness hands type terms (deduplicated output of a "gen" run, or terms of its own making for  *)
(* C08 signatures) back to TLC; one initial state per term, one step that prints the expectations.          *)
Input == IF Mode = "eval" THEN ndJsonDeserialize(IOEnv.LAYOUT_IN) ELSE <<>>
EvalOne ==
  /\ Mode = "eval" /\ phase = "idle"
  /\ Assert(DeclSane(pool[1].t, FALSE) /\ (HasUnnamedBF(pool[1].t) => DeclSane(pool[1].t, TRUE)), <<"declarative layout not sane", want>>)
  /\ PrintT("VCASE " \o ToJson([i |-> want] @@ Case(pool[1].t)))
  /\ phase' = "done"
  /\ UNCHANGED <<st, ms, outs, pool, want, pick>>

Init ==
  /\ Mode \in {"mc", "gen", "enum", "eval", "huge"}
  /\ ms = <<>> /\ outs = <<>> /\ pick = ""
  /\ Mode \notin {"eval", "huge"} => pool = <<>>
  /\ CASE Mode = "mc"   -> \E un \in BOOLEAN, pk \in BOOLEAN : (un => ~pk) /\ (McSel = "scan" => ~un /\ ~pk) /\ st = Acc0(un, pk) /\ phase = "build" /\ want = MaxLen
       [] Mode = "gen"  -> st = Acc0(FALSE, FALSE) /\ phase = "idle" /\ want = 0
       [] Mode = "eval" -> LET inp == Input IN
                           \E i \in 1..Len(inp) : pool = <<[t |-> inp[i]]>> /\ st = Acc0(FALSE, FALSE) /\ phase = "idle" /\ want = i
       [] Mode = "huge" -> \E T \in HugeTerms : pool = <<[t |-> T]>> /\ st = Acc0(FALSE, FALSE) /\ phase = "idle" /\ want = 0
       [] Mode = "enum" -> \E f \in FixedTypes \cup {"none"} : st = EInit(f) /\ phase = "build" /\ want = 0

Next == IF Mode = "enum" THEN AddEnumerator \/ FinishEnum
        ELSE IF Mode = "eval" THEN EvalOne
        ELSE IF Mode = "huge" THEN HugeOne
        ELSE AddPlain \/ AddBitfield \/ AddAnonymous \/ Finish \/ Begin \/ Pick

Spec == Init /\ [][Next]_vars

(* ======================================================================= *)
(* Invariants                                                               *)

(* The deviations can only matter for these syntactic classes of aggregates. *)
DevApplies(T) ==
  \/ "UnnamedNoAlign" \in Devs /\ Raise /\ \E i \in 1..Len(T.ms) : IsBF(T.ms[i]) /\ ~T.ms[i].nm
  \/ "UnionUnnamedIgnored" \in Devs /\ T.un /\ \E i \in 1..Len(T.ms) : IsBF(T.ms[i]) /\ ~T.ms[i].nm /\ T.ms[i].w > 0
  \/ "PackedNoFinalAlign" \in Devs /\ T.pk /\ \E i \in 1..Len(T.ms) : T.ms[i].al > 1

Inv_RefineStep ==     \* every prefix: what addmember stored = declarative offsets / bit positions; running end and alignment agree
  (Mode # "enum" /\ phase = "build" /\ ~DevApplies(Current)) =>
     LET T == Current
         n == Len(ms)
         ML == [i \in 1..n |-> DL(ms[i].t, Raise)]
         D == DFold(T, Raise, ML)
     IN /\ \A i \in 1..n : MemberAgrees(ms[i], outs[i], D.fs[i])
        /\ Max(st.align, 1) = D.align
        /\ (HasMember => IFinish(st, Devs).size = D.size)
        /\ st.flex = D.flex
        /\ st.bits \in 0..7
        \* the running bit position of the two sides agrees (struct): pos = 8*size - bits
        /\ ~st.un => AbsPos(st) = (IF n = 0 THEN 0 ELSE Extent(T, D, ML, n).hi)

Inv_RefineDone ==
  (Mode # "enum" /\ phase = "done" /\ Mode = "mc" /\ ~DevApplies(Current)) =>
     LET D == DL(Current, Raise) IN st.size = D.size /\ st.align = D.align

Inv_DeclSane == (Mode # "enum" /\ phase = "build") => DeclSane(Current, FALSE) /\ DeclSane(Current, TRUE)

(* the implementation-shaped layout never violates these either, unless packed *)
Inv_ImplSane ==
  (Mode # "enum" /\ phase = "done" /\ Mode = "mc") =>
     /\ (~st.pk \/ "PackedNoFinalAlign" \notin Devs) => st.size % st.align = 0
     /\ \A i \in 1..Len(ms) : RealMember(ms[i]) =>
           /\ outs[i].off >= 0
           /\ IsBF(ms[i]) => outs[i].bf >= 0 /\ outs[i].af >= 0 /\ outs[i].off % SSize(ms[i].t.n) = 0

(* ======================================================================= *)
(* VCASE emission (flow A of C06, field lists of C08)                       *)
Inv_Emit == (Emit /\ Mode = "mc" /\ phase = "done") => PrintT("VCASE " \o ToJson(Case(Current)))

Inv_EmitTerm == (Emit /\ Mode = "mc" /\ phase = "done") => PrintT("VCASE " \o ToJson(Current))

Inv_SimFinish ==     \* closing the struct from any accumulator state agrees with the declarative rounding
  (CheckSim /\ Mode = "mc" /\ phase = "build" /\ ~st.un /\ st.align > 0) =>
     IFinish(st, Devs).size = DFinishSize(AbsPos(st), st.align)

(* VIEW for the all-lengths simulation check: the accumulator state alone.  Sound because both folds are  *)
(* functions of (state, member): see props/c06.notes.md.                                                   *)
AccView == <<st, phase>>
=============================================================================
