\* expected to be REJECTED: with mapinit(2) two puts fill the table and a mapget of an absent key never returns
SPECIFICATION Spec
CONSTANTS
  NKeys = 3
  InitCap = 2
  CapMax = 8
  Buckets = {0,1}
  SortedH = TRUE
  PutVals = {1}
  AllowKeep = FALSE
  AllowReset = FALSE
  MaxOps = 0
INVARIANTS Inv_FreeSlot
VIEW View
CHECK_DEADLOCK FALSE
