SPECIFICATION Spec
CONSTANTS
  MaxCalls = 4
  Addrs = {0, 3, 12}
  Dev_AddrInId = TRUE
  KeepHist = TRUE
INVARIANTS TypeOK Inv_IdsFromCalls Inv_Unique Inv_TempUniquePerFunc
CHECK_DEADLOCK FALSE
