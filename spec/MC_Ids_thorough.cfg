SPECIFICATION Spec
CONSTANTS
  MaxCalls = 7
  Addrs = {0, 3, 12}
  Dev_AddrInId = FALSE
  KeepHist = TRUE
INVARIANTS TypeOK Inv_IdsFromCalls Inv_Unique Inv_TempUniquePerFunc
CHECK_DEADLOCK FALSE
