SPECIFICATION Spec
CONSTANTS
  Chunks <- PunctChunks
  MaxLen = 0
  MinLen = 0
  Variants = {"plain"}
  VarLen = 0
  Mode = "kw"
  PerturbChars = {"_", "e", "A", "z", "1"}
  Devs = {"NoDigraphs", "NoUCNIdent", "NoUCNEscape"}
  Emit = TRUE
INVARIANTS Inv_Fired Inv_Emit
CHECK_DEADLOCK FALSE
