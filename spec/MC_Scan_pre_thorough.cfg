SPECIFICATION Spec
CONSTANTS
  Chunks <- PrefixChunks
  MaxLen = 5
  MinLen = 0
  Variants = {"plain"}
  VarLen = 3
  Mode = "alpha"
  PerturbChars = {}
  Devs = {"NoDigraphs", "NoUCNIdent", "NoUCNEscape"}
  Emit = TRUE
INVARIANTS Inv_Fired Inv_Emit
CHECK_DEADLOCK FALSE
