------------------------------- MODULE CScope -------------------------------
(* Generator of C scoping programs with the entity every use must denote        *)
(* (flow A through the compiler, property C16).                                  *)
(*                                                                               *)
(* A program is a sequence of items: scopes opened and closed (function bodies    *)
(* with parameters, blocks, `for` statements, function prototypes), declarations  *)
(* in the ordinary name space (objects, typedef names, enumeration constants,     *)
(* parameters), in the tag name space (struct/union, also forward-declared and    *)
(* completed later), labels (function scope, own name space), macro definitions   *)
(* and #undefs (no scoping at all: translation phase 4 precedes scoping), and     *)
(* uses.  Every declaration gets a fresh identity; every use item carries the     *)
(* identity it must resolve to:                                                   *)
(*    macro replacement first (an object-like macro hides everything of that      *)
(*    spelling; a function-like macro only when followed by `(`), otherwise the    *)
(*    binding of the innermost enclosing scope in that name space (Scope.tla's     *)
(*    declarative Visible).                                                        *)
(* Only programs whose validity is certain are generated: no redeclaration in     *)
(* the same scope, no use of an invisible or incomplete entity, no declaration    *)
(* of a name while an object-like macro of that spelling is defined, parameters    *)
(* and the function body form one scope (6.2.1p4).                                 *)
(* The harness (props/c16.py) renders the items to C, giving every identity a      *)
(* unique size/value, and reads the resolved identity of each use off the IL.      *)
EXTENDS Scope, Json, SequencesExt

CONSTANTS MaxLen,      \* items after which the program only winds down
          Deep,        \* TRUE: descend to MaxDepth before any scope is closed (deep-nesting programs)
          Feat         \* set of enabled features: "macro","label","proto","for","fwd","func","funcx","stmt","linkage","tdspec","nest"

VARIABLES stack,       \* scope ids, innermost last
          kinds,       \* parallel to stack: "file" "func" "block" "for" "forbody" "proto"
          prog,        \* items emitted so far
          ent,         \* ent[id] = kind of entity id
          macros,      \* pp.c's macro table: name -> id, NULL after #undef
          labels,      \* labels of the current function: name -> id
          gotos,       \* names used by goto in the current function
          incomplete,  \* ids of tags declared but not yet completed
          down,        \* Deep: still descending
          since,       \* Deep: items since the last scope was opened or closed
          done

cvars == <<sc, nsc, nid, stack, kinds, prog, ent, macros, labels, gotos, incomplete, down, since, done>>

top == stack[Len(stack)]
kind == kinds[Len(kinds)]
NewId == Len(ent) + 1
InFunc == \E i \in 1..Len(kinds) : kinds[i] = "func"
InProto == kind = "proto"
RoomOpen == Len(prog) < MaxLen
Room == RoomOpen /\ (Deep => since < 3)          \* Deep: at most 3 items per level, so the walk really goes down
CanOpen == Len(stack) < MaxDepth + 1 /\ nsc < MaxScopes /\ (Deep => down)
CanClose == Deep => ~down
F(x) == x \in Feat
SortedNames(S) == SetToSortSeq(S, LAMBDA a, b : a < b)

\* Selection and iteration statements with UNBRACED substatements (6.8.4p3, 6.8.5p5: the statement is a block and
\* each substatement is a block of its own).  Their scopes hold only what expressions can declare: tags and
\* enumeration constants (in a type name of sizeof / _Alignof / a cast / a compound literal).  The kind of a
\* statement scope encodes its form and how many substatements are already closed.
StmtKinds == {"if0", "if1", "if2", "while0", "while1", "do0", "do1", "switch0", "switch1", "forx0", "forx1"}
CtrlOK == kind \in {"if0", "while0", "switch0", "forx0", "do1"}          \* position of the controlling expression(s)
LastItem == prog[Len(prog)]
SubEmpty == kind = "sub" /\ LastItem.op = "open"
SubExprOK == kind = "sub" /\ (LastItem.op = "open" \/ LastItem.op \in {"decl", "use"})   \* one expression statement
ExprCtx == kind \in StmtKinds \/ kind = "sub"
PlainCtx == ~ExprCtx /\ kind # "for"                                       \* between declarations/statements of a block or file
ItemOK == PlainCtx \/ ((CtrlOK \/ SubExprOK) /\ since < 4)       \* a few items per expression, so that statements nest and repeat
NextStmtKind(k) == CASE k = "if0" -> "if1" [] k = "if1" -> "if2" [] k = "while0" -> "while1" [] k = "do0" -> "do1"
                     [] k = "switch0" -> "switch1" [] k = "forx0" -> "forx1"

MacroId(n) == DGet(macros, n)
ObjMacroOn(n) == MacroId(n) # NULL /\ ent[MacroId(n)] = "macro"
FnMacroOn(n) == MacroId(n) # NULL /\ ent[MacroId(n)] = "fmacro"

\* identity of the entity with linkage spelled n, if the program has declared one so far
LinkId(n) ==
  IF DHas(sc[FileScope].decl, n) /\ ent[sc[FileScope].decl[n]] \in {"obj", "xobj", "xfunc"} THEN sc[FileScope].decl[n]
  ELSE LET S == {i \in 1..Len(prog) : prog[i].op = "decl" /\ prog[i].name = n /\ prog[i].kind \in {"xobj", "xfunc"}}
       IN IF S = {} THEN NULL ELSE prog[CHOOSE i \in S : \A j \in S : i <= j].id

Emit1(item) == prog' = Append(prog, item)
Same(vs) == UNCHANGED vs

CInit ==
  /\ SInit
  /\ stack = <<FileScope>> /\ kinds = <<"file">> /\ prog = <<>> /\ ent = <<>>
  /\ macros = EmptyDict /\ labels = EmptyDict /\ gotos = {} /\ incomplete = {} /\ down = TRUE /\ since = 0 /\ done = FALSE

(* ---- declarations ------------------------------------------------------------ *)
DeclOrd(n, k) ==
  /\ ~done /\ Room /\ ItemOK
  /\ IF InProto THEN k \in {"param", "enum"} ELSE IF ExprCtx THEN k = "enum" ELSE k \in {"obj", "typedef", "enum"}
  /\ ~DHas(sc[top].decl, n) /\ ~ObjMacroOn(n)
  /\ kind = "file" => LinkId(n) = NULL       \* a file-scope declaration after a block-scope `extern` of the spelling: not generated
  /\ PutAs(top, "decl", n, NewId)
  /\ ent' = Append(ent, k)
  /\ Emit1([op |-> "decl", ns |-> "decl", kind |-> k, name |-> n, id |-> NewId])
  /\ Same(<<nsc, nid, stack, kinds, macros, labels, gotos, incomplete, down, done>>)
  /\ since' = since + 1

\* Declaration whose type specifier is a visible typedef name m (possibly m = n: `T T[3];`): once a type specifier has
\* been seen, the next identifier is the declarator even if it is spelled like a visible typedef name, which it then
\* hides for the rest of the scope (6.7.2, 6.7.8p3).  The item says which typedef the specifier denotes.
TypedefVisible(m) == LET r == Visible(top, "decl", m) IN r # NULL /\ ent[r] = "typedef" /\ MacroId(m) = NULL
DeclTD(n, m, k) ==
  /\ ~done /\ Room /\ F("tdspec")
  /\ IF InProto THEN k = "tparam" ELSE (k \in {"obj", "typedef"} /\ PlainCtx /\ (k = "obj" => kind # "file"))
  /\ ~DHas(sc[top].decl, n) /\ ~ObjMacroOn(n) /\ TypedefVisible(m)
  /\ kind = "file" => LinkId(n) = NULL
  /\ PutAs(top, "decl", n, NewId)
  /\ ent' = Append(ent, k)
  /\ Emit1([op |-> "decl", ns |-> "decl", kind |-> k, name |-> n, id |-> NewId, ts |-> m, tsid |-> Visible(top, "decl", m)])
  /\ Same(<<nsc, nid, stack, kinds, macros, labels, gotos, incomplete, down, done>>)
  /\ since' = since + 1

\* Declarations WITH LINKAGE (6.2.2): `extern char n[..];` (xobj) and the function declaration (xfunc), at file scope
\* or in any block.  All linked declarations of a spelling denote ONE entity (a file-scope object definition is
\* that entity too), so they share one identity; what a block-scope one adds is a new BINDING in its scope: from
\* there to the end of the block the name denotes the linked entity again, even if a local or parameter of an
\* enclosing scope hides the file-scope declaration (6.2.1p4).
DeclLinked(n, k) ==
  /\ ~done /\ Room /\ F("linkage") /\ PlainCtx /\ ~InProto
  /\ k \in {"xobj", "xfunc"}
  /\ ~DHas(sc[top].decl, n) /\ ~ObjMacroOn(n)
  /\ LET l == LinkId(n) IN
       /\ IF l # NULL THEN (IF k = "xobj" THEN ent[l] \in {"obj", "xobj"} ELSE ent[l] = "xfunc")
                      ELSE ~DHas(sc[FileScope].decl, n)
       /\ LET id == IF l # NULL THEN l ELSE NewId IN
            /\ PutAs(top, "decl", n, id)
            /\ ent' = IF l # NULL THEN ent ELSE Append(ent, k)
            /\ Emit1([op |-> "decl", ns |-> "decl", kind |-> k, name |-> n, id |-> id])
  /\ Same(<<nsc, nid, stack, kinds, macros, labels, gotos, incomplete, down, done>>)
  /\ since' = since + 1

DeclTag(n, k, fwd) ==       \* struct n { ... };   or the forward declaration  struct n;
  /\ ~done /\ Room /\ ItemOK
  /\ k \in {"struct", "union"}
  /\ fwd => (F("fwd") /\ ~InProto /\ PlainCtx)
  /\ ~DHas(sc[top].tag, n) /\ ~ObjMacroOn(n)
  /\ PutAs(top, "tag", n, NewId)
  /\ ent' = Append(ent, k)
  /\ incomplete' = IF fwd THEN incomplete \cup {NewId} ELSE incomplete
  /\ LET tds == SortedNames({m \in Names : F("tdspec") /\ ~fwd /\ k = "struct" /\ TypedefVisible(m)})
         \* members spelled like the visible typedef names, typed by them in rotation:  struct M { U T; T U; }
         mem == [i \in 1..Len(tds) |-> [name |-> tds[(i % Len(tds)) + 1], ts |-> tds[i], tsid |-> Visible(top, "decl", tds[i])]]
     IN Emit1([op |-> IF fwd THEN "fwd" ELSE "decl", ns |-> "tag", kind |-> k, name |-> n, id |-> NewId, mem |-> mem])
  /\ Same(<<nsc, nid, stack, kinds, macros, labels, gotos, down, done>>)
  /\ since' = since + 1

\* struct n { ...; struct t { ... } b; char e_[sizeof(enum { e = .. })]; };   A member list is not a scope: the tag t and
\* the enumeration constant e declared inside it belong to the scope that encloses the struct specifier (6.2.1p4, p7)
\* and stay visible after the closing brace.  The two items following the struct item are rendered inside its member list.
DeclTagNest(n, t, e) ==
  /\ ~done /\ Room /\ F("nest") /\ PlainCtx /\ ~InProto
  /\ t # n
  /\ ~DHas(sc[top].tag, n) /\ ~DHas(sc[top].tag, t) /\ ~DHas(sc[top].decl, e)
  /\ ~ObjMacroOn(n) /\ ~ObjMacroOn(t) /\ ~ObjMacroOn(e)
  /\ kind = "file" => LinkId(e) = NULL
  /\ sc' = [sc EXCEPT ![top].tag = DPut(DPut(@, n, NewId), t, NewId + 1), ![top].decl = DPut(@, e, NewId + 2)]
  /\ ent' = ent \o <<"struct", "struct", "enum">>
  /\ prog' = prog \o <<[op |-> "decl", ns |-> "tag", kind |-> "struct", name |-> n, id |-> NewId, mem |-> <<>>, nest |-> 2],
                       [op |-> "decl", ns |-> "tag", kind |-> "struct", name |-> t, id |-> NewId + 1, mem |-> <<>>],
                       [op |-> "decl", ns |-> "decl", kind |-> "enum", name |-> e, id |-> NewId + 2]>>
  /\ Same(<<nsc, nid, stack, kinds, macros, labels, gotos, incomplete, down, done>>)
  /\ since' = since + 1

CompleteTag(n) ==           \* struct n { ... };  in the scope that holds the forward declaration: same entity
  /\ ~done /\ Room /\ ~InProto /\ PlainCtx
  /\ DHas(sc[top].tag, n) /\ sc[top].tag[n] \in incomplete /\ ~ObjMacroOn(n)
  /\ incomplete' = incomplete \ {sc[top].tag[n]}
  /\ Emit1([op |-> "complete", ns |-> "tag", kind |-> ent[sc[top].tag[n]], name |-> n, id |-> sc[top].tag[n]])
  /\ Same(<<sc, nsc, nid, stack, kinds, ent, macros, labels, gotos, down, done>>)
  /\ since' = since + 1

(* ---- uses -------------------------------------------------------------------- *)
UseOrd(n) ==
  /\ ~done /\ Room /\ ItemOK
  /\ LET r == IF ObjMacroOn(n) THEN MacroId(n) ELSE Visible(top, "decl", n) IN
       /\ r # NULL
       /\ Emit1([op |-> "use", ns |-> "decl", form |-> "plain", kind |-> ent[r], name |-> n, id |-> r])
  /\ Same(<<sc, nsc, nid, stack, kinds, ent, macros, labels, gotos, incomplete, down, done>>)
  /\ since' = since + 1

UseCall(n) ==               \* n()  with a function-like macro n defined
  /\ ~done /\ Room /\ ItemOK /\ FnMacroOn(n)
  /\ Emit1([op |-> "use", ns |-> "decl", form |-> "call", kind |-> "fmacro", name |-> n, id |-> MacroId(n)])
  /\ Same(<<sc, nsc, nid, stack, kinds, ent, macros, labels, gotos, incomplete, down, done>>)
  /\ since' = since + 1

UseTag(n) ==
  /\ ~done /\ Room /\ ItemOK /\ ~ObjMacroOn(n)
  /\ LET r == Visible(top, "tag", n) IN
       /\ r # NULL /\ r \notin incomplete
       /\ Emit1([op |-> "use", ns |-> "tag", form |-> "plain", kind |-> ent[r], name |-> n, id |-> r])
  /\ Same(<<sc, nsc, nid, stack, kinds, ent, macros, labels, gotos, incomplete, down, done>>)
  /\ since' = since + 1

(* ---- macros (pp.c: define -> mapput, #undef -> *mapput = NULL, lookup -> mapget) ---- *)
Define(n, fl) ==
  /\ ~done /\ Room /\ F("macro") /\ ~InProto /\ PlainCtx
  /\ MacroId(n) = NULL
  /\ macros' = DPut(macros, n, NewId)
  /\ ent' = Append(ent, IF fl THEN "fmacro" ELSE "macro")
  /\ Emit1([op |-> "define", kind |-> IF fl THEN "fmacro" ELSE "macro", name |-> n, id |-> NewId])
  /\ Same(<<sc, nsc, nid, stack, kinds, labels, gotos, incomplete, down, done>>)
  /\ since' = since + 1

Undef(n) ==                 \* also of a name that is not defined (valid, leaves a NULL entry in the table)
  /\ ~done /\ Room /\ F("macro") /\ ~InProto /\ PlainCtx
  /\ macros' = DPut(macros, n, NULL)
  /\ Emit1([op |-> "undef", name |-> n])
  /\ Same(<<sc, nsc, nid, stack, kinds, ent, labels, gotos, incomplete, down, done>>)
  /\ since' = since + 1

(* ---- labels: function scope, separate name space (6.2.1p3, 6.2.3) -------------- *)
Label(n) ==
  /\ ~done /\ Room /\ F("label") /\ InFunc /\ kind # "proto" /\ PlainCtx
  /\ ~DHas(labels, n) /\ ~ObjMacroOn(n)
  /\ labels' = DPut(labels, n, NewId)
  /\ ent' = Append(ent, "label")
  /\ Emit1([op |-> "label", name |-> n, id |-> NewId])
  /\ Same(<<sc, nsc, nid, stack, kinds, macros, gotos, incomplete, down, done>>)
  /\ since' = since + 1

Goto(n) ==                  \* forward or backward, from any nesting depth; resolved when the function ends
  /\ ~done /\ Room /\ F("label") /\ InFunc /\ kind # "proto" /\ PlainCtx
  /\ ~ObjMacroOn(n)
  /\ gotos' = gotos \cup {n}
  /\ ent' = Append(ent, "goto")
  /\ Emit1([op |-> "goto", name |-> n, id |-> NewId])
  /\ Same(<<sc, nsc, nid, stack, kinds, macros, labels, incomplete, down, done>>)
  /\ since' = since + 1

(* ---- scopes ------------------------------------------------------------------ *)
Push(k) ==
  /\ OpenAs(top, nsc + 1) /\ nsc' = nsc + 1
  /\ stack' = Append(stack, nsc + 1) /\ kinds' = Append(kinds, k)
  /\ down' = (down /\ Len(stack) + 1 < MaxDepth + 1)

OpenBlock ==
  /\ ~done /\ RoomOpen /\ CanOpen /\ kind \in {"func", "block", "forbody"}
  /\ Push("block")
  /\ Emit1([op |-> "open", how |-> "block"])
  /\ Same(<<nid, ent, macros, labels, gotos, incomplete, done>>)
  /\ since' = 0

OpenProto ==
  /\ ~done /\ RoomOpen /\ Len(stack) < MaxDepth + 1 /\ nsc < MaxScopes /\ (Deep => ~down)    \* a prototype cannot nest further
  /\ F("proto") /\ kind \in {"file", "func", "block", "forbody"}
  /\ Push("proto")
  /\ Emit1([op |-> "open", how |-> "proto"])
  /\ Same(<<nid, ent, macros, labels, gotos, incomplete, done>>)
  /\ since' = 0


OpenFunc(P) ==              \* function definition: parameters P and the body form one scope
  /\ ~done /\ RoomOpen /\ F("func") /\ kind = "file" /\ CanOpen
  /\ \A n \in P : ~ObjMacroOn(n)
  /\ LET ps  == SortedNames(P)
         id0 == Len(ent)
         s   == nsc + 1
     IN /\ sc' = sc @@ (s :> [parent |-> top,
                              decl |-> [n \in P |-> id0 + (CHOOSE i \in 1..Len(ps) : ps[i] = n)],
                              tag |-> EmptyDict])
        \* a parameter spelled like a file-scope typedef name is declared with that very typedef:  void fn(T T)
        /\ LET self(i) == F("tdspec") /\ TypedefVisible(ps[i]) IN
           /\ ent' = ent \o [i \in 1..Len(ps) |-> IF self(i) THEN "tparam" ELSE "param"]
           /\ prog' = prog \o <<[op |-> "open", how |-> "func"]>>
                        \o [i \in 1..Len(ps) |->
                              IF self(i) THEN [op |-> "decl", ns |-> "decl", kind |-> "tparam", name |-> ps[i], id |-> id0 + i,
                                               ts |-> ps[i], tsid |-> Visible(top, "decl", ps[i])]
                              ELSE [op |-> "decl", ns |-> "decl", kind |-> "param", name |-> ps[i], id |-> id0 + i]]
                        \o <<[op |-> "body"]>>
  /\ nsc' = nsc + 1 /\ stack' = Append(stack, nsc + 1) /\ kinds' = Append(kinds, "func")
  /\ down' = (down /\ Len(stack) + 1 < MaxDepth + 1)
  /\ labels' = EmptyDict /\ gotos' = {}
  /\ Same(<<nid, macros, incomplete, done>>)
  /\ since' = 0

\* Function definition whose declarator holds several function declarators (6.7.6.3, 6.2.1p4); with PTR = "( *":
\*   "ret"    char PTR fn(P))(Q) {             function returning pointer to function
\*   "retret" char PTR PTR fn(P))(Q))(R) {     ... returning pointer to function returning pointer to function
\*   "cb"     void fn(P, void PTR cb)(Q)) {    a parameter that is itself a function pointer with named parameters
\*   "cbret"  char PTR fn(P, void PTR cb)(Q)))(R) {
\* Only the parameter list P of the function being DEFINED is re-opened as the scope of the body; every
\* other parameter list is a function prototype scope that ends at its closing parenthesis.  Q is arbitrary,
\* R is the complement of P, so names collide and do not collide with P and with file-scope identifiers.
\* No use is generated inside Q or R (whether P's names are visible there is not something to rely on).
ParamItems(ps, id0) == [i \in 1..Len(ps) |-> [op |-> "decl", ns |-> "decl", kind |-> "param", name |-> ps[i], id |-> id0 + i]]
PGroup(role, ps, id0) == <<[op |-> "open", how |-> "pscope", role |-> role]>> \o ParamItems(ps, id0) \o <<[op |-> "close", how |-> "pscope"]>>
NFuncX == Cardinality({i \in 1..Len(prog) : prog[i].op = "open" /\ prog[i].how = "funcx"})

OpenFuncX(P, Q, shape) ==
  /\ ~done /\ RoomOpen /\ F("funcx") /\ kind = "file" /\ CanOpen /\ nsc + 3 <= MaxScopes /\ NFuncX < 3
  /\ \A n \in Names : ~ObjMacroOn(n)
  /\ LET pP  == SortedNames(P)
         pQ  == SortedNames(Q)
         pR  == SortedNames(Names \ P)
         id0 == Len(ent)
         s   == nsc + 1
         g1  == IF shape \in {"ret", "retret"} THEN PGroup("ret", pQ, id0 + Len(pP)) ELSE PGroup("cb", pQ, id0 + Len(pP))
         g2  == IF shape \in {"retret", "cbret"} THEN PGroup("ret", pR, id0 + Len(pP) + Len(pQ)) ELSE <<>>
         n2  == IF g2 = <<>> THEN 0 ELSE Len(pR)
     IN /\ sc' = sc @@ (s :> [parent |-> top,
                              decl |-> [n \in P |-> id0 + (CHOOSE i \in 1..Len(pP) : pP[i] = n)],
                              tag |-> EmptyDict])
        /\ ent' = ent \o [i \in 1..(Len(pP) + Len(pQ) + n2) |-> "param"]
        /\ prog' = prog \o <<[op |-> "open", how |-> "funcx", shape |-> shape]>> \o ParamItems(pP, id0) \o g1 \o g2 \o <<[op |-> "body"]>>
        /\ nsc' = nsc + (IF g2 = <<>> THEN 2 ELSE 3)
        /\ stack' = Append(stack, s) /\ kinds' = Append(kinds, "func")
  /\ down' = (down /\ Len(stack) + 1 < MaxDepth + 1)
  /\ labels' = EmptyDict /\ gotos' = {}
  /\ Same(<<nid, macros, incomplete, done>>)
  /\ since' = 0

OpenFor(n) ==               \* for (char n[..]; ..) { : the declaration lives in the for scope, the body is a block of its own
  /\ ~done /\ RoomOpen /\ F("for") /\ kind \in {"func", "block", "forbody"}
  /\ Len(stack) + 1 < MaxDepth + 1 /\ nsc + 1 < MaxScopes /\ (Deep => down)
  /\ ~ObjMacroOn(n)
  /\ LET s1 == nsc + 1
         s2 == nsc + 2
     IN /\ sc' = sc @@ (s1 :> [parent |-> top, decl |-> (n :> NewId), tag |-> EmptyDict]) @@ (s2 :> NewScope(s1))
        /\ stack' = stack \o <<s1, s2>> /\ kinds' = kinds \o <<"for", "forbody">>
        /\ nsc' = nsc + 2
  /\ ent' = Append(ent, "obj")
  /\ prog' = prog \o <<[op |-> "open", how |-> "for"],
                       [op |-> "decl", ns |-> "decl", kind |-> "obj", name |-> n, id |-> NewId],
                       [op |-> "open", how |-> "forbody"]>>
  /\ down' = (down /\ Len(stack) + 2 < MaxDepth + 1)
  /\ Same(<<nid, macros, labels, gotos, incomplete, done>>)
  /\ since' = 0

Pop(k) == sc' = [x \in Live \ {stack[i] : i \in (Len(stack) - k + 1)..Len(stack)} |-> sc[x]]
          /\ stack' = SubSeq(stack, 1, Len(stack) - k) /\ kinds' = SubSeq(kinds, 1, Len(kinds) - k)

\* if / while / do / switch / for with unbraced substatements.  A statement may be the sole statement of a
\* substatement (else-if chains, loops in an else branch ...), except of the then-branch of an `if` (an inner `if`
\* there would capture the outer else).
OpenStmt(form) ==
  /\ ~done /\ RoomOpen /\ F("stmt") /\ InFunc /\ CanOpen
  /\ form \in {"if", "while", "do", "switch", "forx"}
  /\ \/ kind \in {"func", "block", "forbody"}
     \/ SubEmpty /\ kinds[Len(kinds) - 1] # "if0"
  /\ Push(form \o "0")
  /\ Emit1([op |-> "open", how |-> "stmt", form |-> form])
  /\ Same(<<nid, ent, macros, labels, gotos, incomplete, done>>)
  /\ since' = 0

OpenSub ==
  /\ ~done /\ RoomOpen /\ CanOpen /\ kind \in {"if0", "if1", "while0", "switch0", "forx0", "do0"}
  /\ Push("sub")
  /\ Emit1([op |-> "open", how |-> "sub"])
  /\ Same(<<nid, ent, macros, labels, gotos, incomplete, done>>)
  /\ since' = 0

CloseSub ==
  /\ ~done /\ CanClose /\ kind = "sub"
  /\ sc' = [x \in Live \ {top} |-> sc[x]]
  /\ stack' = SubSeq(stack, 1, Len(stack) - 1)
  /\ kinds' = [SubSeq(kinds, 1, Len(kinds) - 1) EXCEPT ![Len(kinds) - 1] = NextStmtKind(kinds[Len(kinds) - 1])]
  /\ Emit1([op |-> "close", how |-> "sub"])
  /\ Same(<<nsc, nid, ent, macros, labels, gotos, incomplete, down, done>>)
  /\ since' = 0

CloseStmt ==
  /\ ~done /\ CanClose /\ kind \in {"if1", "if2", "while1", "switch1", "forx1", "do1"}
  /\ Pop(1)
  /\ Emit1([op |-> "close", how |-> "stmt"])
  /\ Same(<<nsc, nid, ent, macros, labels, gotos, incomplete, down, done>>)
  /\ since' = 0

CloseScope ==
  /\ ~done /\ CanClose /\ kind \in {"block", "proto", "forbody"}
  /\ IF kind = "forbody"
     THEN Pop(2) /\ prog' = prog \o <<[op |-> "close", how |-> "forbody"], [op |-> "close", how |-> "for"]>>
     ELSE Pop(1) /\ Emit1([op |-> "close", how |-> kind])
  /\ Same(<<nsc, nid, ent, macros, labels, gotos, incomplete, down, done>>)
  /\ since' = 0

CloseFunc ==                \* labels still owed to gotos are placed at the end of the body
  /\ ~done /\ CanClose /\ kind = "func"
  /\ LET owed == SortedNames(gotos \ DOMAIN labels)
         id0  == Len(ent)
         all  == [n \in DOMAIN labels \cup gotos |->
                    IF DHas(labels, n) THEN labels[n] ELSE id0 + (CHOOSE i \in 1..Len(owed) : owed[i] = n)]
     IN /\ \A i \in 1..Len(owed) : ~ObjMacroOn(owed[i])
        /\ ent' = ent \o [i \in 1..Len(owed) |-> "label"]
        /\ prog' = prog \o [i \in 1..Len(owed) |-> [op |-> "label", name |-> owed[i], id |-> id0 + i]]
                        \o <<[op |-> "close", how |-> "func",
                              labels |-> LET ns == SortedNames(DOMAIN all) IN [i \in 1..Len(ns) |-> [name |-> ns[i], id |-> all[ns[i]]]]]>>
  /\ Pop(1)
  /\ labels' = EmptyDict /\ gotos' = {}
  /\ Same(<<nsc, nid, macros, incomplete, down, done>>)
  /\ since' = 0

Finish ==
  /\ ~done /\ ~InFunc /\ (Deep => ~down)
  /\ done' = TRUE
  /\ Same(<<sc, nsc, nid, stack, kinds, prog, ent, macros, labels, gotos, incomplete, down>>)
  /\ UNCHANGED since

Turn ==                     \* Deep: bottom reached or no way further down: start closing
  /\ ~done /\ Deep /\ down /\ (~RoomOpen \/ nsc >= MaxScopes - 1)
  /\ down' = FALSE
  /\ Same(<<sc, nsc, nid, stack, kinds, prog, ent, macros, labels, gotos, incomplete, done>>)
  /\ UNCHANGED since

CNext ==
  \/ \E n \in Names, k \in {"obj", "typedef", "enum", "param"} : DeclOrd(n, k)
  \/ \E n \in Names, t \in Names, e \in Names : DeclTagNest(n, t, e)
  \/ \E n \in Names, k \in {"xobj", "xfunc"} : DeclLinked(n, k)
  \/ \E n \in Names, m \in Names, k \in {"obj", "typedef", "tparam"} : DeclTD(n, m, k)
  \/ \E n \in Names, k \in {"struct", "union"}, f \in BOOLEAN : DeclTag(n, k, f)
  \/ \E n \in Names : CompleteTag(n) \/ UseOrd(n) \/ UseCall(n) \/ UseTag(n) \/ Undef(n) \/ Label(n) \/ Goto(n) \/ OpenFor(n)
  \/ \E n \in Names, fl \in BOOLEAN : Define(n, fl)
  \/ \E P \in SUBSET Names : OpenFunc(P)
  \/ \E P \in SUBSET Names, Q \in SUBSET Names, sh \in {"ret", "retret", "cb", "cbret"} : OpenFuncX(P, Q, sh)
  \/ \E fm \in {"if", "while", "do", "switch", "forx"} : OpenStmt(fm)
  \/ OpenSub \/ CloseSub \/ CloseStmt
  \/ OpenBlock \/ OpenProto \/ CloseScope \/ CloseFunc \/ Finish \/ Turn

CSpec == CInit /\ [][CNext]_cvars

(* ---------------------------------------------------------------------------- *)
(* Independent declarative reading of C11 6.2.1 on the program text alone: the    *)
(* scope of a declaration starts at the declaration and ends with the block        *)
(* (prototype, function) it is in; walking backwards from a use, the first          *)
(* declaration of that spelling and name space that is not inside an already        *)
(* closed region is the one denoted; the last #define/#undef of the spelling        *)
(* decides macro replacement.                                                       *)
RECURSIVE LexScan(_, _, _, _, _)
LexScan(p, i, lvl, ns, n) ==
  IF i = 0 THEN NULL
  ELSE LET it == p[i] IN
       IF it.op = "close" THEN LexScan(p, i - 1, lvl + 1, ns, n)
       ELSE IF it.op = "open" THEN LexScan(p, i - 1, IF lvl > 0 THEN lvl - 1 ELSE 0, ns, n)
       ELSE IF it.op \in {"decl", "fwd"} /\ lvl = 0 /\ it.ns = ns /\ it.name = n THEN it.id
       ELSE LexScan(p, i - 1, lvl, ns, n)
RECURSIVE LexMacro(_, _, _)
LexMacro(p, i, n) ==
  IF i = 0 THEN NULL
  ELSE IF p[i].op = "define" /\ p[i].name = n THEN p[i].id
  ELSE IF p[i].op = "undef" /\ p[i].name = n THEN NULL
  ELSE LexMacro(p, i - 1, n)

Inv_Lexical ==
  prog # <<>> /\ prog[Len(prog)].op = "use" =>
    LET u == prog[Len(prog)]
        m == LexMacro(prog, Len(prog) - 1, u.name)
    IN IF m # NULL /\ (ent[m] = "macro" \/ u.form = "call") THEN u.id = m
       ELSE u.id = LexScan(prog, Len(prog) - 1, 0, u.ns, u.name)

Inv_LexicalTS ==      \* the typedef a declaration's specifier denotes, read off the text alone
  prog # <<>> /\ prog[Len(prog)].op = "decl" /\ "ts" \in DOMAIN prog[Len(prog)] =>
    prog[Len(prog)].tsid = LexScan(prog, Len(prog) - 1, 0, "decl", prog[Len(prog)].ts)

Inv_Stack == /\ Len(stack) = Len(kinds) /\ stack[1] = FileScope
             /\ \A i \in 2..Len(stack) : sc[stack[i]].parent = stack[i - 1]
             /\ Live = {stack[i] : i \in 1..Len(stack)}

HasUse == \E i \in 1..Len(prog) : prog[i].op \in {"use", "goto"}
Inv_Emit == (done /\ HasUse) => PrintT("VCASE " \o ToJson([prog |-> prog, ent |-> ent]))
=============================================================================
