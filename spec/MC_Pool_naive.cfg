\* expected to be REJECTED: the naive repair (key length in bytes, width not in the key) shares "\0" with u"": misaligned
SPECIFICATION Spec
CONSTANTS
  Widths = {1, 2, 4}
  Elems = {0, 97, 98, 353}
  MaxEls = 2
  Dev_PoolKeyInElements = FALSE
  Dev_PoolKeyIgnoresWidth = FALSE
  MaxUses = 2
INVARIANTS Inv_NaiveServes
CHECK_DEADLOCK FALSE
