SPECIFICATION FairSpec
CONSTANTS
  MaxInputs = 2
  MaxStages = 3
  Cap = 1
  Modes = {"link", "stdout"}
  FailEnds = {"exit1_before_read", "exit1_mid_write", "exit1_after", "signal", "spawn_fails"}
  LinkEnds = {"exit0", "exit1_after", "signal", "spawn_fails"}
  MaxFail = 1
  Devs = {}
  KeepReadEnds = TRUE
  EmitCases = FALSE
PROPERTIES Live_Exits
CHECK_DEADLOCK FALSE
