--------------------------- MODULE CTypesCompatMC ---------------------------
(* Derived types (pointer / array[n | unknown] / function(params, variadic?) /  *)
(* qualifier sets / struct tags / enums) up to a nesting depth:                 *)
(*  - TLC checks, for EVERY pair of types of the universe, that the            *)
(*    implementation-shaped M_typecompatible (type.c recursion) agrees with the *)
(*    declarative Compatible (6.2.7), that Compatible is reflexive/symmetric,   *)
(*    that Composite is compatible with both arguments, and that exprassign's   *)
(*    pointer branch agrees with 6.5.16.1p1;                                    *)
(*  - every state (one per left type) prints a VCASE with its partner types:    *)
(*    all compatible ones, all one-mutation neighbours, a few foreign types,    *)
(*    each with the judgements C11 requires (replayed by props/c05.py).         *)
EXTENDS TypeModel, Json, SequencesExt

CONSTANTS LeafNames,   \* unqualified leaf types, by name (see TypeByName)
          QualSets,    \* qualifier sets applied to pointees / elements
          ArrLens,     \* array lengths (0 = unknown)
          Depth,       \* maximal number of derivations
          P1Names, P2Names,   \* parameter types for one- and two-parameter prototypes
          FnRetNames,  \* return types of depth-1 functions
          Devs, Emit,
          EmitLeafNames   \* VCASE lines are printed for left types of depth <= 2 and for deeper ones whose innermost
                          \* leaf is one of these (every pair is model-checked regardless)

TypeByName(n) ==
  CASE n \in BasicKinds \cup {"void"} -> B(n)
    [] n \in EnumTags -> En(n)
    [] n \in {"S1", "S2"} -> St(n)
    [] n = "U1" -> Un(n)
    [] n = "cint" -> Qual(B("int"), {"const"})
    [] n = "pint" -> Ptr(B("int"))
    [] n = "pcint" -> Ptr(Qual(B("int"), {"const"}))
    [] n = "cpint" -> Qual(Ptr(B("int")), {"const"})
    [] n = "pvoid" -> Ptr(Void)
    [] n = "a2int" -> Arr(B("int"), 2)
    [] n = "a2cint" -> Arr(Qual(B("int"), {"const"}), 2)
    [] n = "a0int" -> Arr(B("int"), 0)
    [] n = "fvi" -> Fn(Void, <<B("int")>>, FALSE)
Leaves == {TypeByName(n) : n \in LeafNames}
P1 == {TypeByName(n) : n \in P1Names}
P2 == {TypeByName(n) : n \in P2Names}
FnRets == {TypeByName(n) : n \in FnRetNames}

VARIABLES c, r
vars == <<c, r>>

IsFn(t) == t.k = "fn"
ParamLists == {<<>>} \cup {<<p>> : p \in P1} \cup {<<p, q>> : <<p, q>> \in P2 \X P2}
Protos == {[ps |-> l, va |-> v] : <<l, v>> \in {lv \in ParamLists \X BOOLEAN : ~(lv[2] /\ Len(lv[1]) = 0)}}

(* qualified versions of object types (a function type is never qualified) *)
QV(ts) == {Qual(t, q) : <<t, q>> \in {tq \in ts \X QualSets : ~(tq[2] # {} /\ IsFn(tq[1]))}}

RECURSIVE DT(_)
DT(d) ==
  IF d = 0 THEN Leaves
  ELSE LET prev == DT(d - 1)
           new == IF d = 1 THEN prev ELSE prev \ DT(d - 2)          \* types of exactly depth d-1
           objs == {t \in new : ~IsFn(t) /\ ~IsVoid(t)}
       IN prev
          \cup {Ptr(t) : t \in QV(new)}
          \cup {Arr(t, n) : <<t, n>> \in QV({t \in objs : ~(t.k = "arr" /\ t.n = 0)}) \X ArrLens}
          \cup (IF d = 1 THEN {Fn(rt, p.ps, p.va) : <<rt, p>> \in FnRets \X Protos}
                ELSE {Fn(rt, <<>>, FALSE) : rt \in {t \in new : t.k = "ptr"}}
                     \cup {Fn(B("int"), <<p>>, FALSE) : p \in {t \in new : t.k \in {"ptr", "arr"}}})
(* plus the const-qualified version of every object type of depth <= 1: pairs (T, const T) exercise the rules about   *)
(* the types' OWN qualifiers (6.7.3p10; "all the qualifiers of the type pointed to by the right", 6.5.16.1p1)          *)
Universe == DT(Depth) \cup {Qual(t, {"const"}) : t \in {u \in DT(1) : ~IsFn(u)}}

(* ---------------------------------------------------------------------- *)
(* number of atomic differences between two types of the same skeleton; 99 = different skeleton *)
RECURSIVE Dist(_, _)
Min99(x) == IF x > 99 THEN 99 ELSE x
SeqDist(s1, s2) ==
  IF Len(s1) # Len(s2) THEN 99
  ELSE LET RECURSIVE sd(_)
           sd(i) == IF i > Len(s1) THEN 0 ELSE Min99(Dist(s1[i], s2[i]) + sd(i + 1))
       IN sd(1)
Dist(t1, t2) ==
  LET dq == IF t1.q = t2.q THEN 0 ELSE 1 IN
  IF t1.k \in {"ptr", "arr", "fn"} /\ t1.k # t2.k THEN 99
  ELSE IF t2.k \in {"ptr", "arr", "fn"} /\ t1.k # t2.k THEN 99
  ELSE IF t1.k = "ptr" THEN Min99(dq + Dist(t1.to, t2.to))
  ELSE IF t1.k = "arr" THEN Min99((IF t1.n = t2.n THEN 0 ELSE 1) + Dist(t1.of, t2.of))
  ELSE IF t1.k = "fn" THEN Min99((IF t1.va = t2.va THEN 0 ELSE 1) + Dist(t1.ret, t2.ret) + SeqDist(t1.ps, t2.ps))
  ELSE dq + (IF Unq(t1) = Unq(t2) THEN 0 ELSE 1)

Foreign == {B("int"), Ptr(B("int")), Arr(B("int"), 2), Fn(B("int"), <<>>, FALSE), Ptr(Void)}

(* a type with every known array length changed: incompatible with t wherever t has a known length *)
RECURSIVE Bump(_)
Bump(t) ==
  IF t.k = "arr" THEN [t EXCEPT !.n = IF @ = 0 THEN 0 ELSE @ + 1, !.of = Bump(@)]
  ELSE IF t.k = "ptr" THEN [t EXCEPT !.to = Bump(@)]
  ELSE IF t.k = "fn" THEN [t EXCEPT !.ret = Bump(@), !.ps = [i \in 1..Len(t.ps) |-> Bump(t.ps[i])]]
  ELSE t

(* does the spelling `__builtin_types_compatible_p(T1, T2)` avoid the GNU corner "qualified array at top level" *)
BuiltinSafe(t) == ~(t.k = "arr" /\ QualsOf(t) # {})
IsRedeclarable(t) == ~IsVoid(t)                                   \* `extern T x;` / `T f;`
NoIncompleteParam(t) == TRUE

(* ---------------------------------------------------------------------- *)
NotDone == [done |-> FALSE]
Init == c \in [t1 : Universe] /\ r = NotDone

Partner(t1, t2) ==
  LET comp == Compatible(t1, t2)
      cu == Compatible(Unq(t1), Unq(t2))
      det == comp /\ CompositeDetermined(t1, t2)
      cs == IF det THEN Composite(t1, t2) ELSE t1
      mcs(D) == M_typecomposite(t2, t1, D)          \* declcommon: prior->type = typecomposite(t /* new */, prior->type)
      pa == PtrAssignOK(Ptr(t1), Ptr(t2))
      ct == TypeOfCond(Obj(Ptr(t1)), Obj(Ptr(t2)), "x86_64-sysv")
      cm == M_condexpr(Obj(Ptr(t1)), Obj(Ptr(t2)), "x86_64-sysv", Devs).t
      cdet == ~IsErr(ct) /\ ~IsErr(cm) /\ (PtrTargetsCompatible(Ptr(t1), Ptr(t2)) => CompositeDetermined(Unq(t1), Unq(t2)))
  IN [t2 |-> t2,
      compat |-> comp,                       \* 6.2.7 (including the types' own qualifiers)
      compat_unq |-> cu,                     \* ignoring top-level qualifiers (GNU builtin)
      bsafe |-> BuiltinSafe(t1) /\ BuiltinSafe(t2),
      qenum |-> QualEnumMeetsInt(t1, t2),
      \* pointers to arrays whose elements are differently qualified: incompatible pointees in C11 (6.7.3p9), while
      \* C23 (gcc -std=gnu2x) lets qualifiers be added; clang audits these
      arrq |-> t1.k = "arr" /\ t2.k = "arr" /\ QualsOf(t1) # QualsOf(t2),
      redecl |-> IF IsRedeclarable(t1) /\ IsRedeclarable(t2) /\ (IsFn(t1) <=> IsFn(t2)) THEN (IF comp THEN "accept" ELSE "reject") ELSE "na",
      ptrinit |-> IF ~PtrAssignDecided(Ptr(t1), Ptr(t2)) THEN "na" ELSE IF pa THEN "accept" ELSE "reject",   \* T1 *p = q; (q: T2 *)
      det |-> det,
      comp_is_t1 |-> det /\ cs = t1,
      comp_is_t2 |-> det /\ cs = t2,
      composite |-> cs,
      bump |-> Bump(cs),
      bump_differs |-> det /\ ~Compatible(Bump(cs), cs),
      \* what the shipped declcommon leaves as the type of the identifier after `T1 x; T2 x;`
      mod_composite |-> IF det THEN mcs(Devs) ELSE t1,
      dev_composite |-> det /\ mcs(Devs) # cs,
      \* observations of the identifier's type T after the two declarations: _Generic(&x, C *: 1, default: 0),
      \* the same with Bump(C), and whether sizeof(x) is allowed (complete object type)
      cs_complete |-> det /\ IsCompleteObj(cs),
      mod_complete |-> det /\ IsCompleteObj(mcs(Devs)),
      mod_sees_c |-> det /\ Compatible(mcs(Devs), cs),
      mod_sees_bump |-> det /\ Compatible(mcs(Devs), Bump(cs)),
      \* 6.5.15p6: `K ? p1 : p2` with p1 : T1 *, p2 : T2 * (declared objects); K ranges over CTypes.CondControls in the harness
      cond |-> cdet,
      condt |-> IF cdet THEN ct ELSE Ptr(t1),
      cond_dev |-> cdet /\ cm # ct,
      cond_alt |-> cdet /\ M_typecompatible(ct, cm)]

A_TypeCompatible ==
  /\ ~r.done
  /\ LET t1 == c.t1
         bad == {t2 \in Universe :
                   \/ M_qualtypecompatible(t1, t2) # Compatible(t1, t2)
                   \/ M_typecompatible(t1, t2) # Compatible(Unq(t1), Unq(t2))
                   \/ (Compatible(t1, t2) /\ CompositeDetermined(t1, t2) /\ Composite(t1, t2) # Composite(t2, t1)
                        /\ t1.k # "fn")
                   \/ Compatible(t1, t2) # Compatible(t2, t1)
                   \/ (Compatible(t1, t2) /\ CompositeDetermined(t1, t2) /\
                        ~(Compatible(Composite(t1, t2), t1) /\ Compatible(Composite(t1, t2), t2)
                          /\ Compatible(M_typecomposite(t1, t2, {}), t1)))
                   \/ (PtrAssignDecided(Ptr(t1), Ptr(t2)) /\ M_ptrassign(Ptr(t1), Ptr(t2)) # PtrAssignOK(Ptr(t1), Ptr(t2)))}
         partners == {t2 \in Universe : Compatible(Unq(t1), Unq(t2)) \/ Dist(t1, t2) <= 1} \cup Foreign
     IN r' = [done |-> TRUE, bad |-> bad, refl |-> Compatible(t1, t1),
              partners |-> SetToSeq({Partner(t1, t2) : t2 \in partners})]
  /\ UNCHANGED c

Next == A_TypeCompatible
Spec == Init /\ [][Next]_vars

Inv_Refines == r.done => r.bad = {}
Inv_Reflexive == r.done => r.refl
RECURSIVE LeafOf(_)
LeafOf(t) == IF t.k = "ptr" THEN LeafOf(t.to) ELSE IF t.k = "arr" THEN LeafOf(t.of) ELSE IF t.k = "fn" THEN LeafOf(t.ret) ELSE Unq(t)
EmitThis == c.t1 \in DT(IF Depth > 2 THEN 2 ELSE Depth) \/ LeafOf(c.t1) \in {TypeByName(n) : n \in EmitLeafNames}
NpcInt == X(B("int"), 0, FALSE, TRUE)                 \* the constant 0
NpcVoid == X(Ptr(Void), 0, FALSE, TRUE)               \* (void *)0
Inv_Emit == (Emit /\ r.done /\ EmitThis) =>
  PrintT("VCASE " \o ToJson([form |-> "compat", t1 |-> c.t1, partners |-> r.partners, conds |-> CondControls,
          \* null pointer constant rows of 6.5.15p6: `K ? 0 : p`, `K ? p : 0`, `K ? (void *)0 : p`, `K ? p : (void *)0` with p : T1 *
          npc |-> <<TypeOfCond(NpcInt, Obj(Ptr(c.t1)), "x86_64-sysv"), TypeOfCond(Obj(Ptr(c.t1)), NpcInt, "x86_64-sysv"),
                    TypeOfCond(NpcVoid, Obj(Ptr(c.t1)), "x86_64-sysv"), TypeOfCond(Obj(Ptr(c.t1)), NpcVoid, "x86_64-sysv")>>]))
=============================================================================
