-------------------------------- MODULE Word --------------------------------
(* N-bit two's-complement arithmetic, width-parametric, in two representations.  *)
(*                                                                               *)
(*  (I) integer family  I*(n, ...)   a word of n bits is a TLC integer 0..2^n-1.  *)
(*      Usable for n <= 15 (products stay below 2^31: TLC integers are 32-bit).   *)
(*      This is the representation for SCALED widths (char=2, short=3, int=4,     *)
(*      long=llong=6, carrier=6 bits) where TLC quantifies over all values.       *)
(*                                                                               *)
(*  (B) byte family     Add Sub Mul UDivMod SDivMod And Or Xor Not Neg Shl Shr    *)
(*      Sar ULt SLt Wrap SExt ZExt Trunc ...    a word of 8*k bits is a tuple of  *)
(*      k bytes 0..255, little endian (<<253,255,...,255>> = -3).  Width = length *)
(*      of the tuple, so the same operators serve 8/16/32/64-bit words and the    *)
(*      128-bit words a specification uses as "mathematical integers" around      *)
(*      64-bit operands.  JSON arrays of bytes map 1:1 (DESIGN.md appendix B).    *)
(*                                                                               *)
(* The module is constant-free so that any specification can EXTEND it.          *)
(* WordTest.tla checks (B) against (I) exhaustively at 8 bits, algebraic laws at *)
(* 16 bits and fixed vectors at 64 bits.                                         *)
EXTENDS Naturals, Integers, Sequences
INSTANCE WordBits                 \* BitAnd BitOr BitXor on non-negative ints (Java-backed)

Pow2(k) == 2 ^ k

(* ===================================================================== *)
(* (I) integer family                                                     *)
(* ===================================================================== *)
IMax(n)        == 2 ^ n - 1
INorm(n, x)    == x % (2 ^ n)                  \* TLC's % is the mathematical modulus (>= 0)
IToS(n, a)     == IF a >= 2 ^ (n - 1) THEN a - 2 ^ n ELSE a      \* signed view of a word
IOfS(n, z)     == z % (2 ^ n)                                      \* word of an integer
IAdd(n, a, b)  == (a + b) % (2 ^ n)
ISub(n, a, b)  == (a - b) % (2 ^ n)
IMul(n, a, b)  == (a * b) % (2 ^ n)
INeg(n, a)     == (0 - a) % (2 ^ n)
INot(n, a)     == (2 ^ n - 1) - a
IAnd(n, a, b)  == BitAnd(a, b)
IOr(n, a, b)   == BitOr(a, b)
IXor(n, a, b)  == BitXor(a, b)
IShl(n, a, k)  == IF k >= n THEN 0 ELSE (a * 2 ^ k) % (2 ^ n)
IShr(n, a, k)  == IF k >= n THEN 0 ELSE a \div (2 ^ k)
ISar(n, a, k)  == IF k >= n THEN (IF a >= 2 ^ (n - 1) THEN 2 ^ n - 1 ELSE 0)
                  ELSE (IToS(n, a) \div (2 ^ k)) % (2 ^ n)        \* \div is floor division
IULt(a, b)     == a < b
ISLt(n, a, b)  == IToS(n, a) < IToS(n, b)
Abs(z)         == IF z < 0 THEN 0 - z ELSE z
TruncDiv(x, y) == IF (x < 0) = (y < 0) THEN Abs(x) \div Abs(y) ELSE 0 - (Abs(x) \div Abs(y))
TruncRem(x, y) == x - y * TruncDiv(x, y)
IUDiv(n, a, b) == a \div b                      \* b # 0
IUMod(n, a, b) == a % b
ISDiv(n, a, b) == IOfS(n, TruncDiv(IToS(n, a), IToS(n, b)))       \* b # 0; MIN / -1 wraps to MIN
ISMod(n, a, b) == IOfS(n, TruncRem(IToS(n, a), IToS(n, b)))
(* keep the low `bits` bits of an n-bit word, then extend to n bits *)
IWrap(n, v, bits, signed) ==
  LET lo == v % (2 ^ bits)
  IN IF signed /\ lo >= 2 ^ (bits - 1) THEN lo + (2 ^ n - 2 ^ bits) ELSE lo
ISExt(n, v, bits) == IWrap(n, v, bits, TRUE)
IZExt(n, v, bits) == IWrap(n, v, bits, FALSE)

(* ===================================================================== *)
(* (B) byte family                                                        *)
(* ===================================================================== *)
IsWord(a)  == \A i \in 1..Len(a) : a[i] \in 0..255
Zero(k)    == [i \in 1..k |-> 0]
Ones(k)    == [i \in 1..k |-> 255]
IsZero(a)  == \A i \in 1..Len(a) : a[i] = 0
IsNeg(a)   == a[Len(a)] >= 128
Bit(a, i)  == (a[(i \div 8) + 1] \div (2 ^ (i % 8))) % 2          \* bit i, i = 0 is the least significant
SetBit(a, i) == [a EXCEPT ![(i \div 8) + 1] = @ + 2 ^ (i % 8)]     \* bit i must be clear

(* small TLC integer (possibly negative) -> k-byte word, and back for values < 2^31 *)
RECURSIVE OfNatR(_, _)
OfNatR(x, k) == IF k = 0 THEN <<>> ELSE <<x % 256>> \o OfNatR(x \div 256, k - 1)
OfInt(x, k) == IF x >= 0 THEN OfNatR(x, k)
               ELSE LET m == OfNatR((0 - x) - 1, k) IN [i \in 1..k |-> 255 - m[i]]   \* -x = ~(x-1)
RECURSIVE ToNatR(_, _)
ToNatR(a, i) == IF i > Len(a) THEN 0 ELSE a[i] + 256 * ToNatR(a, i + 1)
ToNat(a) == ToNatR(a, 1)                                            \* only for values < 2^31

Trunc(a, k) == [i \in 1..k |-> a[i]]
ZExt(a, k)  == [i \in 1..k |-> IF i <= Len(a) THEN a[i] ELSE 0]
SExt(a, k)  == LET f == IF IsNeg(a) THEN 255 ELSE 0 IN [i \in 1..k |-> IF i <= Len(a) THEN a[i] ELSE f]

RECURSIVE AddR(_, _, _, _, _)
AddR(a, b, i, c, acc) ==
  IF i > Len(a) THEN acc
  ELSE LET t == a[i] + b[i] + c IN AddR(a, b, i + 1, t \div 256, Append(acc, t % 256))
Add(a, b)  == AddR(a, b, 1, 0, <<>>)
AddCarry(a, b, cin) == AddR(a, b, 1, cin, <<>>)
Not(a)     == [i \in 1..Len(a) |-> 255 - a[i]]
Sub(a, b)  == AddR(a, Not(b), 1, 1, <<>>)
Neg(a)     == AddR(Zero(Len(a)), Not(a), 1, 1, <<>>)
And(a, b)  == [i \in 1..Len(a) |-> BitAnd(a[i], b[i])]
Or(a, b)   == [i \in 1..Len(a) |-> BitOr(a[i], b[i])]
Xor(a, b)  == [i \in 1..Len(a) |-> BitXor(a[i], b[i])]

RECURSIVE ULtR(_, _, _)
ULtR(a, b, i) == IF i = 0 THEN FALSE ELSE IF a[i] # b[i] THEN a[i] < b[i] ELSE ULtR(a, b, i - 1)
ULt(a, b)  == ULtR(a, b, Len(a))
SLt(a, b)  == IF IsNeg(a) # IsNeg(b) THEN IsNeg(a) ELSE ULt(a, b)
ULe(a, b)  == ~ULt(b, a)
SLe(a, b)  == ~SLt(b, a)

(* truncated product (low Len(a) bytes) *)
RECURSIVE ColSum(_, _, _, _)
ColSum(a, b, k, i) == IF i > k THEN 0 ELSE a[i] * b[k + 1 - i] + ColSum(a, b, k, i + 1)
RECURSIVE MulR(_, _, _, _, _)
MulR(a, b, k, c, acc) ==
  IF k > Len(a) THEN acc
  ELSE LET t == ColSum(a, b, k, 1) + c IN MulR(a, b, k + 1, t \div 256, Append(acc, t % 256))
Mul(a, b)  == MulR(a, b, 1, 0, <<>>)

(* shifts by 0 <= s < 8*Len(a) bits; larger counts give 0 / sign fill *)
Shl(a, s) ==
  LET n == Len(a)  q == s \div 8  r == s % 8
      src(j) == IF j >= 1 THEN a[j] ELSE 0
  IN IF s >= 8 * n THEN Zero(n)
     ELSE [i \in 1..n |-> ((src(i - q) * 2 ^ r) % 256) + (src(i - q - 1) \div (2 ^ (8 - r)))]
ShrFill(a, s, f) ==
  LET n == Len(a)  q == s \div 8  r == s % 8
      src(j) == IF j <= n THEN a[j] ELSE f
  IN IF s >= 8 * n THEN [i \in 1..n |-> f]
     ELSE [i \in 1..n |-> (src(i + q) \div (2 ^ r)) + ((src(i + q + 1) * 2 ^ (8 - r)) % 256)]
Shr(a, s) == ShrFill(a, s, 0)
Sar(a, s) == ShrFill(a, s, IF IsNeg(a) THEN 255 ELSE 0)

(* number of significant bits of the unsigned value (0 for zero) *)
RECURSIVE TopByte(_, _)
TopByte(a, i) == IF i = 0 THEN 0 ELSE IF a[i] # 0 THEN i ELSE TopByte(a, i - 1)
RECURSIVE BitLenByte(_)
BitLenByte(x) == IF x = 0 THEN 0 ELSE 1 + BitLenByte(x \div 2)
BitLen(a) == LET t == TopByte(a, Len(a)) IN IF t = 0 THEN 0 ELSE 8 * (t - 1) + BitLenByte(a[t])
(* number of trailing zero bits (8*Len(a) for zero) *)
RECURSIVE LowByte(_, _)
LowByte(a, i) == IF i > Len(a) THEN 0 ELSE IF a[i] # 0 THEN i ELSE LowByte(a, i + 1)
RECURSIVE TzByte(_)
TzByte(x) == IF x % 2 = 1 THEN 0 ELSE 1 + TzByte(x \div 2)
Tz(a) == LET t == LowByte(a, 1) IN IF t = 0 THEN 8 * Len(a) ELSE 8 * (t - 1) + TzByte(a[t])

(* unsigned restoring division, most significant bit first; b # 0.              *)
(* The running remainder lives in Len(a)+1 bytes so that 2r+1 cannot overflow.   *)
RECURSIVE UDivR(_, _, _, _, _)
UDivR(a, bx, i, q, r) ==
  IF i < 0 THEN <<q, r>>
  ELSE LET r1 == AddCarry(r, r, Bit(a, i))
           ge == ~ULt(r1, bx)
       IN UDivR(a, bx, i - 1, IF ge THEN SetBit(q, i) ELSE q, IF ge THEN Sub(r1, bx) ELSE r1)
UDivMod(a, b) ==          \* <<quotient, remainder>>
  LET n == Len(a)
      res == UDivR(a, ZExt(b, n + 1), BitLen(a) - 1, Zero(n), Zero(n + 1))
  IN <<res[1], Trunc(res[2], n)>>
UDiv(a, b) == UDivMod(a, b)[1]
UMod(a, b) == UDivMod(a, b)[2]
(* signed division truncating toward zero; remainder has the sign of the dividend. *)
(* MIN / -1 yields MIN (the wrapped quotient), remainder 0; callers decide whether that traps. *)
SDivMod(a, b) ==
  LET na == IsNeg(a)  nb == IsNeg(b)
      qr == UDivMod(IF na THEN Neg(a) ELSE a, IF nb THEN Neg(b) ELSE b)
  IN <<IF na # nb THEN Neg(qr[1]) ELSE qr[1], IF na THEN Neg(qr[2]) ELSE qr[2]>>
SDiv(a, b) == SDivMod(a, b)[1]
SMod(a, b) == SDivMod(a, b)[2]

(* keep the low `bits` bits (1 <= bits <= 8*Len(v)), then sign- or zero-extend to Len(v) bytes *)
Wrap(v, bits, signed) ==
  LET n == Len(v)
      f == IF signed /\ Bit(v, bits - 1) = 1 THEN 255 ELSE 0
      fb == bits \div 8          \* number of whole bytes kept
      rb == bits % 8
  IN [i \in 1..n |->
        IF i <= fb THEN v[i]
        ELSE IF i = fb + 1 /\ rb > 0 THEN (v[i] % (2 ^ rb)) + (IF f = 255 THEN 256 - 2 ^ rb ELSE 0)
        ELSE f]
(* is the value of the (signed, 8*Len(v)-bit) word v representable in `bits` bits? *)
FitsS(v, bits) == Wrap(v, bits, TRUE) = v
FitsU(v, bits) == ~IsNeg(v) /\ Wrap(v, bits, FALSE) = v

Min2(a, b) == IF a < b THEN a ELSE b
Max2(a, b) == IF a < b THEN b ELSE a
=============================================================================
