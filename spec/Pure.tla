-------------------------------- MODULE Pure --------------------------------
(* Property C20: the output of cproc-qbe is a pure function of the input (text  *)
(* + the file name it is presented under) and of the options -t / -E.           *)
(*                                                                             *)
(* Monitor.  `seen` remembers for every (input, opts) the result of the first    *)
(* run; a run in ANY environment is allowed only if it reproduces that result.   *)
(* The environment is a parameter of Run that no conjunct mentions: that the    *)
(* recorded log of the real binary is a behaviour of this spec IS the property   *)
(* on the explored inputs x environments (Trace_Pure.tla, flow B).  The set of   *)
(* environments is enumerated from PureLattice.tla by PureEnv.tla.             *)
(*                                                                             *)
(* A result is [rc, out, err]: exit status (negative = killed by that signal),  *)
(* digest of the bytes delivered to the output (stdout or the -o file) and      *)
(* digest of stderr after the harness replaced the spelling of the input's file  *)
(* name and of argv[0] by fixed tokens (both are *inputs*: diagnostics name      *)
(* them).  For a run that was killed by a signal the amount of output that left  *)
(* the stdio buffer before death is not specified by anything: `Proj` drops it.  *)
(* `uninit` is the number of uninitialised-value reports valgrind memcheck made  *)
(* for the run (0 for native runs): a run with a report is a forbidden event.    *)
EXTENDS Naturals, Integers, FiniteSets, TLC

CONSTANTS Inputs, Opts, Results, Envs, None

VARIABLES seen

Keys == Inputs \X Opts

Proj(r) == IF r.rc < 0 THEN [r EXCEPT !.out = "-"] ELSE r

TypeOK == seen \in [Keys -> Results \cup {None}]

Init == seen = [k \in Keys |-> None]

Run(env, input, opts, res, uninit) ==
  /\ uninit = 0
  /\ seen[<<input, opts>>] \in {None, res}
  /\ seen' = [seen EXCEPT ![<<input, opts>>] = res]

Next == \E env \in Envs, i \in Inputs, o \in Opts, r \in Results : Run(env, i, o, r, 0)

Spec == Init /\ [][Next]_seen

(* what the monitor guarantees about any log it accepts *)
Stable == [][\A k \in Keys : seen[k] # None => seen'[k] = seen[k]]_seen          \* a recorded result never changes
OneKey == [][Cardinality({k \in Keys : seen'[k] # seen[k]}) <= 1]_seen
(* design check of the guard: a second run with a different result is disabled  *)
Inv_Guard == \A i \in Inputs, o \in Opts, r \in Results :
               (seen[<<i, o>>] # None /\ seen[<<i, o>>] # r) => \A env \in Envs : ~ENABLED Run(env, i, o, r, 0)
Inv_UninitForbidden == \A env \in Envs, i \in Inputs, o \in Opts, r \in Results : ~ENABLED Run(env, i, o, r, 1)
=============================================================================
