-------------------------------- MODULE Tok --------------------------------
(* Lexical grammar of C11 6.4 as predicates on character sequences, and the    *)
(* maximal-munch rule of 6.4p4.  A character is a one-character string, a text  *)
(* is a sequence of characters.  Everything here is declarative: a lexeme class *)
(* is defined by the grammar production it has to match, never by a scanning    *)
(* procedure.  Used by Scan.tla (C13), Loc.tla (C11).                            *)
(*                                                                               *)
(* Deliberate choices (documented in harness/props/c13.notes.md):               *)
(*  - `::` is a punctuator and u8'c' a character constant (C23 6.4.6, 6.4.4.5;   *)
(*    cproc documents both, a C11 program cannot tell the difference).           *)
(*  - digraphs ARE punctuators (C11 6.4.6p3).                                     *)
(*  - universal character names are part of identifiers / pp-numbers / escapes,  *)
(*    but only the spellings in SafeUCN are treated as decided; a text with any   *)
(*    other \u or \U followed by enough hex digits is outside the model (6.4.3p2   *)
(*    range constraints are not modelled).                                        *)
(*  - trigraphs (phase 1) are outside the model (removed in C23).                 *)
EXTENDS Naturals, Sequences, FiniteSets, TLC, TokTables

RangeOf(f) == {f[i] : i \in DOMAIN f}

(* ---------------------------------------------------------------------- *)
(* Character classes                                                       *)
Digit    == {AsciiSeq[i] : i \in 17..26}                    \* '0'..'9'
Upper    == {AsciiSeq[i] : i \in 34..59}                    \* 'A'..'Z'
Lower    == {AsciiSeq[i] : i \in 66..91}                    \* 'a'..'z'
Nondigit == Upper \cup Lower \cup {"_"}                     \* 6.4.2.1 nondigit
OctDigit == {"0","1","2","3","4","5","6","7"}
HexDigit == Digit \cup {"a","b","c","d","e","f","A","B","C","D","E","F"}
White    == {" ", "\t"}                                     \* white space other than new-line in the alphabet used
NL       == "\n"
BS       == "\\"
SQ       == "'"
DQ       == "\""

AsciiCode == [c \in RangeOf(AsciiSeq) |-> 31 + (CHOOSE i \in 1..Len(AsciiSeq) : AsciiSeq[i] = c)]
Code(c) == IF c = NL THEN 10 ELSE IF c = "\t" THEN 9 ELSE AsciiCode[c]

RECURSIVE Str(_)
Str(s) == IF s = <<>> THEN "" ELSE s[1] \o Str(Tail(s))      \* text -> TLA+ string (for output only)

Sub(u, i, n) == SubSeq(u, i, i + n - 1)
StartsWith(u, i, p) == i + Len(p) - 1 <= Len(u) /\ Sub(u, i, Len(p)) = p
SetMax(S) == CHOOSE x \in S : \A y \in S : y <= x
SetMin(S) == CHOOSE x \in S : \A y \in S : x <= y

(* ---------------------------------------------------------------------- *)
(* 6.4.6 punctuators                                                       *)
AllPunct == Punctuators \o Digraphs
PunctSpellings == {AllPunct[i][1] : i \in 1..Len(AllPunct)}
PunctKindFn == [l \in PunctSpellings |-> AllPunct[CHOOSE i \in 1..Len(AllPunct) : AllPunct[i][1] = l][2]]
IsPunct(l) == l \in PunctSpellings
PunctKind(l) == PunctKindFn[l]
IsDigraph(l) == \E i \in 1..Len(Digraphs) : Digraphs[i][1] = l
(* spelling printed for a punctuator kind: its primary spelling *)
PunctCanon(k) == Punctuators[CHOOSE i \in 1..Len(Punctuators) : Punctuators[i][2] = k][1]

(* ---------------------------------------------------------------------- *)
(* 6.4.3 universal character names (syntax only)                            *)
AllIn(l, S) == \A i \in 1..Len(l) : l[i] \in S
IsUCN(l) == \/ Len(l) = 6  /\ l[1] = BS /\ l[2] = "u" /\ AllIn(SubSeq(l, 3, 6), HexDigit)
            \/ Len(l) = 10 /\ l[1] = BS /\ l[2] = "U" /\ AllIn(SubSeq(l, 3, 10), HexDigit)
SafeUCN == { <<BS,"u","0","0","e","9">>, <<BS,"U","0","0","0","0","0","0","e","9">> }   \* é: allowed by Annex D
(* a UCN-shaped sequence whose acceptability is not modelled *)
HasUnmodelledUCN(u) ==
  \E i \in 1..Len(u) : \E n \in {6, 10} :
     i + n - 1 <= Len(u) /\ IsUCN(Sub(u, i, n)) /\ Sub(u, i, n) \notin SafeUCN

(* ---------------------------------------------------------------------- *)
(* 6.4.2.1 identifiers                                                      *)
RECURSIVE IdRest(_)
IdRest(l) ==
  \/ l = <<>>
  \/ l[1] \in Nondigit \cup Digit /\ IdRest(Tail(l))
  \/ Len(l) >= 6  /\ IsUCN(SubSeq(l, 1, 6))  /\ IdRest(SubSeq(l, 7, Len(l)))
  \/ Len(l) >= 10 /\ IsUCN(SubSeq(l, 1, 10)) /\ IdRest(SubSeq(l, 11, Len(l)))
IsIdent(l) ==
  /\ l # <<>>
  /\ \/ l[1] \in Nondigit /\ IdRest(Tail(l))
     \/ Len(l) >= 6  /\ IsUCN(SubSeq(l, 1, 6))  /\ IdRest(SubSeq(l, 7, Len(l)))
     \/ Len(l) >= 10 /\ IsUCN(SubSeq(l, 1, 10)) /\ IdRest(SubSeq(l, 11, Len(l)))

(* 6.4.1 keywords; the declarative keyword function *)
Keywords == KeywordsC11 \o KeywordsC23 \o KeywordsGNU
KeywordSpellings == {Keywords[i][1] : i \in 1..Len(Keywords)}
KeywordKindFn == [l \in KeywordSpellings |-> Keywords[CHOOSE i \in 1..Len(Keywords) : Keywords[i][1] = l][2]]
IsKeyword(l) == l \in KeywordSpellings
KeywordKind(l) == KeywordKindFn[l]
KeywordSpelling(k) == KeywordCanon[CHOOSE i \in 1..Len(KeywordCanon) : KeywordCanon[i][1] = k][2]
(* spellings on which the model takes no position: C23 keywords cproc does not claim *)
KeywordDontCare == { <<"_","B","i","t","I","n","t">> }

(* ---------------------------------------------------------------------- *)
(* 6.4.8 preprocessing numbers, by the productions (right-recursive reading)   *)
RECURSIVE IsPPNumber(_)
IsPPNumber(l) ==
  LET n == Len(l) IN
  \/ n = 1 /\ l[1] \in Digit                                                     \* digit
  \/ n = 2 /\ l[1] = "." /\ l[2] \in Digit                                       \* . digit
  \/ n >= 2 /\ l[n] \in Digit \cup Nondigit \cup {"."} /\ IsPPNumber(SubSeq(l, 1, n - 1))
  \/ n >= 3 /\ l[n] \in {"+", "-"} /\ l[n-1] \in {"e", "E", "p", "P"} /\ IsPPNumber(SubSeq(l, 1, n - 2))
  \/ n >= 7  /\ IsUCN(SubSeq(l, n - 5, n)) /\ IsPPNumber(SubSeq(l, 1, n - 6))   \* identifier-nondigit = UCN
  \/ n >= 11 /\ IsUCN(SubSeq(l, n - 9, n)) /\ IsPPNumber(SubSeq(l, 1, n - 10))

(* ---------------------------------------------------------------------- *)
(* 6.4.4.4 escape sequences, character constants; 6.4.5 string literals       *)
SimpleEsc == {SQ, DQ, "?", BS, "a", "b", "f", "n", "r", "t", "v"}
IsEscape(e) ==
  /\ Len(e) >= 2 /\ e[1] = BS
  /\ \/ Len(e) = 2 /\ e[2] \in SimpleEsc
     \/ Len(e) <= 4 /\ AllIn(Tail(e), OctDigit)
     \/ Len(e) >= 3 /\ e[2] = "x" /\ AllIn(SubSeq(e, 3, Len(e)), HexDigit)
     \/ IsUCN(e)
(* b is a (possibly empty) sequence of c-chars (q = SQ) or s-chars (q = DQ) *)
RECURSIVE CharSeq(_, _)
CharSeq(b, q) ==
  \/ b = <<>>
  \/ b[1] \notin {q, BS, NL} /\ CharSeq(Tail(b), q)
  \/ b[1] = BS /\ \E k \in 2..Len(b) : IsEscape(SubSeq(b, 1, k)) /\ CharSeq(SubSeq(b, k + 1, Len(b)), q)

CharPrefixes == { <<>>, <<"L">>, <<"u">>, <<"U">>, <<"u","8">> }      \* u8'c' is C23
StrPrefixes  == { <<>>, <<"L">>, <<"u">>, <<"U">>, <<"u","8">> }
Quoted(l, q, prefixes, allowEmpty) ==
  \E p \in prefixes :
    LET n == Len(l)
        m == Len(p) IN
    /\ n >= m + 2
    /\ SubSeq(l, 1, m) = p
    /\ l[m + 1] = q /\ l[n] = q
    /\ (allowEmpty \/ n > m + 2)
    /\ CharSeq(SubSeq(l, m + 2, n - 1), q)
IsCharConst(l) == Quoted(l, SQ, CharPrefixes, FALSE)
IsStringLit(l) == Quoted(l, DQ, StrPrefixes, TRUE)

(* ---------------------------------------------------------------------- *)
(* 6.4 preprocessing-token (header-names only exist inside #include)         *)
IsPPToken(l) == IsPunct(l) \/ IsPPNumber(l) \/ IsIdent(l) \/ IsCharConst(l) \/ IsStringLit(l)

(* 6.4p4: the next token is the longest sequence of characters that could     *)
(* constitute a preprocessing token.  0 when no prefix at i is one.            *)
MaxMunch(u, i) ==
  LET cands == {n \in 1..(Len(u) - i + 1) : IsPPToken(Sub(u, i, n))}
  IN IF cands = {} THEN 0 ELSE SetMax(cands)

(* token kind and printed spelling of a lexeme that IsPPToken *)
KindOf(l) ==
  IF IsPunct(l) THEN PunctKind(l)
  ELSE IF IsPPNumber(l) THEN "TNUMBER"
  ELSE IF IsIdent(l) THEN (IF IsKeyword(l) THEN KeywordKind(l) ELSE "TIDENT")
  ELSE IF IsCharConst(l) THEN "TCHARCONST"
  ELSE "TSTRINGLIT"
SpellingOf(l) ==
  IF IsPunct(l) THEN PunctCanon(PunctKind(l))
  ELSE IF IsIdent(l) /\ IsKeyword(l) THEN KeywordSpelling(KeywordKind(l))
  ELSE l
=============================================================================
