------------------------------- MODULE CArith -------------------------------
(* Property C04: constant expressions fold to the value run-time evaluation gives. *)
(*                                                                                 *)
(*  ConstEval(e)   declarative value and type of an arithmetic constant expression *)
(*                 (C11 6.3.1, 6.5, 6.6): the mathematical result on integers /    *)
(*                 exact dyadic rationals, then conversion to the result type.     *)
(*  FoldModel(e)   implementation-shaped: expr.c's tree construction (promotions,  *)
(*                 usual arithmetic conversions, rewriting of ~ ! +, parse-time    *)
(*                 selection in condexpr) followed by eval.c's folding on the      *)
(*                 64-bit carrier (operation chosen by (op, float?, signed?) then  *)
(*                 cast()'s mask-and-sign-extend).  The confirmed defects of       *)
(*                 DESIGN.md section 8 are named deviations switched by CONSTANTs. *)
(*                                                                                 *)
(* Two modes (CONSTANT Real):                                                      *)
(*   Real = FALSE  scaled widths char=2 short=3 int=4 long=llong=6 bits, carrier 6 *)
(*                 bits standing for eval.c's 64-bit `unsigned long long`; words   *)
(*                 and integers are plain TLC integers; TLC checks                 *)
(*                 FoldModel => ConstEval over ALL operand values.                 *)
(*   Real = TRUE   real widths 8/16/32/64; carrier words are 8-byte tuples, the    *)
(*                 "mathematical integers" of ConstEval are 16-byte two's          *)
(*                 complement tuples (exact for every single operation on 64-bit   *)
(*                 operands); TLC enumerates boundary cases and emits VCASE lines  *)
(*                 that the harness renders into every folding context (flow A),   *)
(*                 and Trace_Fold.tla validates recorded fold events (flow B).     *)
EXTENDS Word, FiniteSets, TLC, Json

CONSTANTS
  Real,                            \* FALSE: scaled exhaustive model checking; TRUE: real widths
  CharSigned,                      \* plain char signed (x86_64-sysv) or unsigned (aarch64, riscv64)
  Dev_LogicalReturnsOperand,       \* eval(): `||`/`&&` fold to one of the operands instead of 0/1
  Dev_BoolCastTruncates,           \* cast(): no _Bool case; conversion to _Bool folded as truncation to 8 bits
  Dev_FloatToUnsignedRejectsNeg,   \* eval(): float -> unsigned rejects every negative value, also those in (-1,0)
  Dev_FloatCondNotFolded,          \* condexpr(): constant floating controlling expression is not selected
  Dev_UnevaluatedOperandFolded,    \* eval(): right operand of ||/&& folded (and may trap) although not evaluated
  Dev_NoDivisionGuard,             \* binary(): host division without guard: x/0, x%0, MIN/-1, MIN%-1 raise SIGFPE
  Dev_CondSameTypeNoPromotion,     \* condexpr(): `lt == rt` shortcut skips the usual arithmetic conversions (C05)
  Dev_BareAddressMinusRejected,    \* eval()/dataitem(): `P - C` on an address that is not already `P + C1` stays a TSUB node
  Dev_SwapReassocClobbers          \* eval() TADD: after `C2 + (P + C1)` is swapped the re-association still writes into expr->u.binary.r,
                                   \* which is the (P + C1) node it is reading: `long p = 2 + (long)&a[1];` dies with SIGSEGV

(* ====================================================================== *)
(* Types                                                                    *)
(* ====================================================================== *)
IntTypeSeq == <<"bool", "char", "schar", "uchar", "short", "ushort", "int", "uint", "long", "ulong", "llong", "ullong">>
FloatTypeSeq == <<"float", "double">>
IntTypes == {IntTypeSeq[i] : i \in 1..Len(IntTypeSeq)}
FloatTypes == {"float", "double"}
ArithTypes == IntTypes \cup FloatTypes
IsFloat(t) == t \in FloatTypes
IsInt(t) == t \in IntTypes

WidthS == [bool |-> 1, char |-> 2, schar |-> 2, uchar |-> 2, short |-> 3, ushort |-> 3, int |-> 4, uint |-> 4,
           long |-> 6, ulong |-> 6, llong |-> 6, ullong |-> 6]
WidthR == [bool |-> 1, char |-> 8, schar |-> 8, uchar |-> 8, short |-> 16, ushort |-> 16, int |-> 32, uint |-> 32,
           long |-> 64, ulong |-> 64, llong |-> 64, ullong |-> 64]
Width(t) == IF Real THEN WidthR[t] ELSE WidthS[t]          \* value bits (range of the type)
CastBits(t) == IF t = "bool" THEN Width("uchar") ELSE Width(t)  \* 8 * type->size, what cast() masks to
CB == IF Real THEN 64 ELSE 6                                \* carrier bits (unsigned long long of eval.c)
IsSigned(t) == IF t = "char" THEN CharSigned ELSE t \in {"schar", "short", "int", "long", "llong"}
Rank == [bool |-> 1, char |-> 2, schar |-> 2, uchar |-> 2, short |-> 3, ushort |-> 3, int |-> 4, uint |-> 4,
         long |-> 5, ulong |-> 5, llong |-> 6, ullong |-> 6]
UnsignedOf == [int |-> "uint", long |-> "ulong", llong |-> "ullong"]
(* significant bits.  Scaled: 3 and 8, so that (as with 24 and 53) p_double >= 2 * p_float + 2: rounding a sum, difference, *)
(* product or quotient of floats to double first and to float afterwards is then the same as rounding it once              *)
Mant(t) == IF Real THEN (IF t = "float" THEN 24 ELSE 53) ELSE (IF t = "float" THEN 3 ELSE 8)

(* ====================================================================== *)
(* Z: the integers of the declarative side                                  *)
(* ====================================================================== *)
ZB == 16
ZK(n)       == IF Real THEN OfInt(n, ZB) ELSE n
ZAdd(a, b)  == IF Real THEN Add(a, b) ELSE a + b
ZSub(a, b)  == IF Real THEN Sub(a, b) ELSE a - b
ZMul(a, b)  == IF Real THEN Mul(a, b) ELSE a * b
ZNeg(a)     == IF Real THEN Neg(a) ELSE 0 - a
ZIsZero(a)  == IF Real THEN IsZero(a) ELSE a = 0
ZIsNeg(a)   == IF Real THEN IsNeg(a) ELSE a < 0
ZLt(a, b)   == IF Real THEN SLt(a, b) ELSE a < b
ZLe(a, b)   == ~ZLt(b, a)
ZAbs(a)     == IF ZIsNeg(a) THEN ZNeg(a) ELSE a
ZTDiv(a, b) == IF Real THEN SDiv(a, b) ELSE TruncDiv(a, b)      \* truncating toward zero, b # 0
ZTRem(a, b) == IF Real THEN SMod(a, b) ELSE TruncRem(a, b)
ZShl(a, k)  == IF Real THEN Shl(a, k) ELSE a * 2 ^ k
ZShrF(a, k) == IF Real THEN Sar(a, k) ELSE a \div (2 ^ k)        \* floor(a / 2^k)
Z0          == ZK(0)
Z1          == ZK(1)
ZPow2(k)    == ZShl(Z1, k)
RECURSIVE IBitLen(_)
IBitLen(x)  == IF x = 0 THEN 0 ELSE 1 + IBitLen(x \div 2)
RECURSIVE ITz(_)
ITz(x)      == IF x % 2 = 1 THEN 0 ELSE 1 + ITz(x \div 2)
ZBitLen(a)  == IF Real THEN BitLen(ZAbs(a)) ELSE IBitLen(Abs(a))   \* bits of |a|
ZTz(a)      == IF Real THEN Tz(a) ELSE ITz(Abs(a))                 \* a # 0
(* the value congruent to z modulo 2^bits that lies in the range of a bits-wide signed/unsigned type *)
ZWrapT(z, bits, sg) ==
  IF Real THEN Wrap(z, bits, sg)
  ELSE LET lo == z % (2 ^ bits) IN IF sg /\ lo >= 2 ^ (bits - 1) THEN lo - 2 ^ bits ELSE lo
ZSmall(z)   == IF Real THEN z[1] ELSE z                            \* a value known to lie in 0..255
ZBitOp(op, a, b, bits, sg) ==      \* a, b in range of the type; two's complement bit operation
  IF Real THEN (CASE op = "&" -> And(a, b) [] op = "|" -> Or(a, b) [] op = "^" -> Xor(a, b))
  ELSE LET ua == a % (2 ^ bits)
           ub == b % (2 ^ bits)
           w  == CASE op = "&" -> BitAnd(ua, ub) [] op = "|" -> BitOr(ua, ub) [] op = "^" -> BitXor(ua, ub)
       IN ZWrapT(w, bits, sg)

(* ---- exact dyadic rationals m * 2^e (m odd or zero); x = FALSE marks "not exactly representable" ---- *)
D(m, e)   == [x |-> TRUE, m |-> m, e |-> e]
DZero     == D(Z0, 0)
Inexact   == [x |-> FALSE, m |-> Z0, e |-> 0]
DNorm(m, e) == IF ZIsZero(m) THEN DZero ELSE LET tz == ZTz(m) IN D(ZShrF(m, tz), e + tz)
DOfZ(z)   == DNorm(z, 0)
DIsZero(d) == ZIsZero(d.m)
DIsNeg(d)  == ZIsNeg(d.m)
DNeg(d)    == D(ZNeg(d.m), d.e)
DTop(d)    == ZBitLen(d.m) + d.e                   \* |d| in [2^(top-1), 2^top)
MaxShift   == IF Real THEN 60 ELSE 12
DAdd(a, b) ==
  IF DIsZero(a) THEN b ELSE IF DIsZero(b) THEN a
  ELSE IF Abs(a.e - b.e) > MaxShift THEN Inexact   \* the exact sum then needs more than 53 significant bits
  ELSE LET e == Min2(a.e, b.e) IN DNorm(ZAdd(ZShl(a.m, a.e - e), ZShl(b.m, b.e - e)), e)
DSub(a, b) == DAdd(a, DNeg(b))
DMul(a, b) == DNorm(ZMul(a.m, b.m), a.e + b.e)
DDiv(a, b) ==      \* b # 0; the quotient is dyadic iff the odd mantissa of b divides that of a
  IF DIsZero(a) THEN DZero
  ELSE IF ZIsZero(ZTRem(a.m, b.m)) THEN DNorm(ZTDiv(a.m, b.m), a.e - b.e) ELSE Inexact
RECURSIVE DLt(_, _)
DLt(a, b) ==
  IF DIsNeg(a) # DIsNeg(b) THEN DIsNeg(a)
  ELSE IF DIsNeg(a) THEN DLt(DNeg(b), DNeg(a))
  ELSE IF DIsZero(a) THEN ~DIsZero(b)
  ELSE IF DIsZero(b) THEN FALSE
  ELSE IF DTop(a) # DTop(b) THEN DTop(a) < DTop(b)
  ELSE LET e == Min2(a.e, b.e) IN ZLt(ZShl(a.m, a.e - e), ZShl(b.m, b.e - e))
(* integral part (truncation toward zero); big = TRUE when it certainly exceeds every integer type *)
DTrunc(d) ==
  IF DIsZero(d) THEN [big |-> FALSE, z |-> ZK(0)]
  ELSE IF d.e >= 0 THEN (IF DTop(d) > (IF Real THEN 100 ELSE 20) THEN [big |-> TRUE, z |-> ZK(0)]
                         ELSE [big |-> FALSE, z |-> ZShl(d.m, d.e)])
  ELSE IF 0 - d.e > (IF Real THEN 120 ELSE 20) THEN [big |-> FALSE, z |-> ZK(0)]
  ELSE [big |-> FALSE, z |-> ZTDiv(d.m, ZPow2(0 - d.e))]
(* exactly representable in floating type t (normal or subnormal, finite) *)
DRepr(d, t) ==
  \/ DIsZero(d)
  \/ /\ ZBitLen(d.m) <= Mant(t)
     /\ Real => IF t = "float" THEN DTop(d) <= 128 /\ d.e >= -149 ELSE DTop(d) <= 1024 /\ d.e >= -1074

(* IEEE 754 round-to-nearest, ties-to-even of an exact dyadic d to the format of t (binary32 / binary64): keep p = Mant(t)   *)
(* significant bits: |m| = q * 2^k + r with k = bitlen(m) - p; r > 2^(k-1) rounds the magnitude up, r < 2^(k-1) down, a tie   *)
(* goes to the even q; q + 1 = 2^p renormalises (DNorm).  Outside the model (Inexact): a magnitude below the smallest normal  *)
(* number that needs rounding (subnormal range) and a rounded magnitude above the largest finite value.                      *)
ZOdd(a) == IF Real THEN a[1] % 2 = 1 ELSE a % 2 = 1            \* a >= 0
MinTop(t) == IF t = "float" THEN -125 ELSE -1021              \* DTop of the smallest normal number
MaxTop(t) == IF t = "float" THEN 128 ELSE 1024
DRound(d, t) ==
  IF ~d.x THEN Inexact
  ELSE IF DIsZero(d) THEN d
  ELSE LET n == ZBitLen(d.m)
           p == Mant(t)
       IN IF n <= p THEN (IF DRepr(d, t) THEN d ELSE Inexact)
          ELSE LET k  == n - p
                   a  == ZAbs(d.m)
                   q  == ZShrF(a, k)
                   r  == ZSub(a, ZShl(q, k))
                   h  == ZPow2(k - 1)
                   up == ZLt(h, r) \/ (r = h /\ ZOdd(q))
                   q2 == IF up THEN ZAdd(q, Z1) ELSE q
                   res == DNorm(IF DIsNeg(d) THEN ZNeg(q2) ELSE q2, d.e + k)
               IN IF Real /\ (DTop(d) < MinTop(t) \/ DTop(res) > MaxTop(t)) THEN Inexact ELSE res
(* what eval.c computes: the host's double operation, then cast()'s `(float)` when the type is float *)
ImplRound(d, t) == LET r1 == DRound(d, "double") IN IF t = "float" THEN DRound(r1, "float") ELSE r1

(* ====================================================================== *)
(* Declarative side: C11 typing and evaluation                              *)
(* ====================================================================== *)
(* (zero-arity definitions of constant level are evaluated once by TLC: the per-type tables below are caches) *)
MinTab == [t \in IntTypes |-> IF IsSigned(t) THEN ZNeg(ZPow2(Width(t) - 1)) ELSE Z0]
MaxTab == [t \in IntTypes |-> IF IsSigned(t) THEN ZSub(ZPow2(Width(t) - 1), Z1) ELSE ZSub(ZPow2(Width(t)), Z1)]
MinZ(t) == MinTab[t]
MaxZ(t) == MaxTab[t]
InRange(z, t) == ZLe(MinZ(t), z) /\ ZLe(z, MaxZ(t))
CanRepresentAll(t1, t2) == InRange(MinZ(t2), t1) /\ InRange(MaxZ(t2), t1)
(* 6.3.1.1p2 integer promotions *)
PromoteDef(t) ==
  IF IsFloat(t) THEN t
  ELSE IF Rank[t] <= Rank["int"] THEN (IF CanRepresentAll("int", t) THEN "int" ELSE "uint")
  ELSE t
PromoteTab == [t \in ArithTypes |-> PromoteDef(t)]
Promote(t) == PromoteTab[t]
(* 6.3.1.8 usual arithmetic conversions *)
UACDef(t1, t2) ==
  IF "double" \in {t1, t2} THEN "double" ELSE IF "float" \in {t1, t2} THEN "float"
  ELSE LET a == Promote(t1)
           b == Promote(t2)
       IN IF a = b THEN a
          ELSE IF IsSigned(a) = IsSigned(b) THEN (IF Rank[a] > Rank[b] THEN a ELSE b)
          ELSE LET u == IF IsSigned(a) THEN b ELSE a
                   s == IF IsSigned(a) THEN a ELSE b
               IN IF Rank[u] >= Rank[s] THEN u
                  ELSE IF CanRepresentAll(s, u) THEN s
                  ELSE UnsignedOf[s]

UACTab == [t1 \in ArithTypes |-> [t2 \in ArithTypes |-> UACDef(t1, t2)]]
UAC(t1, t2) == UACTab[t1][t2]

Val(st, t, v) == [st |-> st, t |-> t, v |-> v]
OkV(t, v) == Val("ok", t, v)
NoV(st, t) == Val(st, t, 0)        \* st in {"ub", "inexact"}: no value is prescribed
B01(b) == IF b THEN Z1 ELSE Z0
(* a floating result of type t whose exact value is d: rounded to the format (6.3.1.4p2, 6.3.1.5, 6.4.4.2p3 with the    *)
(* IEC 60559 default rounding of Annex F); "inexact" = outside the model (not dyadic, subnormal range, overflow)        *)
FloatResult(t, d) == LET r == DRound(d, t) IN IF r.x THEN OkV(t, r) ELSE NoV("inexact", t)

(* 6.3.1.2-6.3.1.5 conversion of a value x of type f to type t *)
Conv(x, f, t) ==
  IF t = "bool" THEN OkV(t, B01(IF IsFloat(f) THEN ~DIsZero(x) ELSE ~ZIsZero(x)))
  ELSE IF IsInt(f) /\ IsInt(t) THEN OkV(t, ZWrapT(x, Width(t), IsSigned(t)))   \* unsigned: modulo; signed: implementation-defined wrap
  ELSE IF IsInt(f) THEN FloatResult(t, DOfZ(x))
  ELSE IF IsInt(t) THEN (LET tr == DTrunc(x) IN IF tr.big \/ ~InRange(tr.z, t) THEN NoV("ub", t) ELSE OkV(t, tr.z))
  ELSE FloatResult(t, x)

IsZeroV(a) == IF IsFloat(a.t) THEN DIsZero(a.v) ELSE ZIsZero(a.v)
ArithOps == {"*", "/", "%", "+", "-"}
BitOps   == {"&", "|", "^"}
ShiftOps == {"<<", ">>"}
RelOps   == {"<", ">", "<=", ">=", "==", "!="}
LogOps   == {"||", "&&"}
BinOps   == ArithOps \cup BitOps \cup ShiftOps \cup RelOps \cup LogOps
UnOps    == {"+", "-", "~", "!"}
IntOnlyOps == {"%"} \cup BitOps \cup ShiftOps

(* result of an integer operation of type t whose mathematical value is z *)
IntResult(t, z) ==
  IF IsSigned(t) THEN (IF InRange(z, t) THEN OkV(t, z) ELSE NoV("ub", t))     \* 6.5p5
  ELSE OkV(t, ZWrapT(z, Width(t), FALSE))                                      \* 6.2.5p9

ArithValue(op, t, a, b) ==      \* a, b already converted to the common type t
  IF IsFloat(t)
  THEN CASE op = "+" -> FloatResult(t, DAdd(a, b))
         [] op = "-" -> FloatResult(t, DSub(a, b))
         [] op = "*" -> FloatResult(t, DMul(a, b))
         [] op = "/" -> IF DIsZero(b) THEN NoV("ub", t) ELSE FloatResult(t, DDiv(a, b))
  ELSE CASE op = "+" -> IntResult(t, ZAdd(a, b))
         [] op = "-" -> IntResult(t, ZSub(a, b))
         [] op = "*" -> IntResult(t, ZMul(a, b))
         [] op = "/" -> IF ZIsZero(b) THEN NoV("ub", t) ELSE IntResult(t, ZTDiv(a, b))
         [] op = "%" -> IF ZIsZero(b) \/ ~InRange(ZTDiv(a, b), t) THEN NoV("ub", t)    \* 6.5.5p5-6
                        ELSE IntResult(t, ZTRem(a, b))
         [] op \in BitOps -> OkV(t, ZBitOp(op, a, b, Width(t), IsSigned(t)))
RelBool(op, t, a, b) ==
  LET lt == IF IsFloat(t) THEN DLt(a, b) ELSE ZLt(a, b)
      gt == IF IsFloat(t) THEN DLt(b, a) ELSE ZLt(b, a)
  IN CASE op = "<" -> lt [] op = ">" -> gt [] op = "<=" -> ~gt [] op = ">=" -> ~lt
       [] op = "==" -> (~lt /\ ~gt) [] op = "!=" -> (lt \/ gt)
RelValue(op, t, a, b) == B01(RelBool(op, t, a, b))
ShiftValue(op, t, l, c) ==      \* l of the promoted type t, c the promoted right operand
  IF ZIsNeg(c) \/ ~ZLt(c, ZK(Width(t))) THEN NoV("ub", t)                      \* 6.5.7p3
  ELSE LET k == ZSmall(c) IN
       IF op = "<<"
       THEN (IF IsSigned(t) THEN (IF ZIsNeg(l) THEN NoV("ub", t) ELSE IntResult(t, ZShl(l, k)))
             ELSE IntResult(t, ZShl(l, k)))
       ELSE OkV(t, ZShrF(l, k))            \* negative signed: implementation-defined, arithmetic shift

(* 6.4.4.1p5: the type of an integer constant is the first of the list in which its value can be represented *)
NumCands(b, suf) ==
  LET dec == b = 10 IN
  CASE suf = "" -> (IF dec THEN <<"int", "long", "llong">> ELSE <<"int", "uint", "long", "ulong", "llong", "ullong">>)
    [] suf = "u" -> <<"uint", "ulong", "ullong">>
    [] suf = "l" -> (IF dec THEN <<"long", "llong">> ELSE <<"long", "ulong", "llong", "ullong">>)
    [] suf = "ul" -> <<"ulong", "ullong">>
    [] suf = "ll" -> (IF dec THEN <<"llong">> ELSE <<"llong", "ullong">>)
    [] suf = "ull" -> <<"ullong">>
NumType(b, suf, v) ==
  LET c == NumCands(b, suf)
      fit == {i \in 1..Len(c) : InRange(v, c[i])}
  IN IF fit = {} THEN "none" ELSE c[CHOOSE i \in fit : \A j \in fit : i <= j]

(* An operator chain written WITHOUT parentheses: x1 op1 x2 op2 ... xn.  C11 6.5.5-6.5.14 give one precedence level per   *)
(* production, all left-associative: the root of the grammar tree is the RIGHTMOST operator of the LOWEST level.           *)
Lvl(op) == CASE op \in {"*", "/", "%"} -> 10 [] op \in {"+", "-"} -> 9 [] op \in ShiftOps -> 8
             [] op \in {"<", ">", "<=", ">="} -> 7 [] op \in {"==", "!="} -> 6 [] op = "&" -> 5 [] op = "^" -> 4
             [] op = "|" -> 3 [] op = "&&" -> 2 [] op = "||" -> 1
RECURSIVE GrammarTree(_, _)
GrammarTree(xs, ops) ==
  IF Len(ops) = 0 THEN xs[1]
  ELSE LET lo == CHOOSE v \in {Lvl(ops[j]) : j \in 1..Len(ops)} : \A j \in 1..Len(ops) : v <= Lvl(ops[j])
           i  == CHOOSE j \in 1..Len(ops) : Lvl(ops[j]) = lo /\ \A j2 \in 1..Len(ops) : Lvl(ops[j2]) = lo => j2 <= j
       IN [k |-> "bin", op |-> ops[i], l |-> GrammarTree(SubSeq(xs, 1, i), SubSeq(ops, 1, i - 1)),
           r |-> GrammarTree(SubSeq(xs, i + 1, Len(xs)), SubSeq(ops, i + 1, Len(ops)))]
EChain(xs, ops) == [k |-> "chain", xs |-> xs, ops |-> ops]
(* [k "ucond"]: `c ? a : b` written without parentheses, c a chain or primary, b a chain or another ucond (6.5.15) *)
EUCond(c, a, b) == [k |-> "ucond", c |-> c, a |-> a, b |-> b]

RECURSIVE TypeOf(_)
TypeOf(e) ==
  CASE e.k \in {"lit", "leaf", "flit"} -> e.t
    [] e.k = "num" -> (LET t == NumType(e.b, e.suf, e.v) IN IF t = "none" THEN "int" ELSE t)
    [] e.k = "cast" -> e.t
    [] e.k = "un" -> (IF e.op = "!" THEN "int" ELSE Promote(TypeOf(e.a)))
    [] e.k = "bin" -> (IF e.op \in RelOps \cup LogOps THEN "int"
                       ELSE IF e.op \in ShiftOps THEN Promote(TypeOf(e.l))
                       ELSE UAC(TypeOf(e.l), TypeOf(e.r)))
    [] e.k \in {"cond", "ucond"} -> UAC(TypeOf(e.a), TypeOf(e.b))        \* 6.5.15p5
    [] e.k = "chain" -> TypeOf(GrammarTree(e.xs, e.ops))

RECURSIVE ConstEval(_)
ConstEval(e) ==
  CASE e.k \in {"lit", "leaf"} -> OkV(e.t, e.v)
    [] e.k = "flit" -> FloatResult(e.t, e.v)       \* floating constant whose exact (dyadic) value need not be representable
    [] e.k = "num" -> (LET t == NumType(e.b, e.suf, e.v) IN IF t = "none" THEN NoV("ub", "int") ELSE OkV(t, e.v))
    [] e.k = "cast" ->
         (LET a == ConstEval(e.a) IN IF a.st # "ok" THEN NoV(a.st, e.t) ELSE Conv(a.v, a.t, e.t))
    [] e.k = "un" ->
         (LET a == ConstEval(e.a)
              t == TypeOf(e)
          IN IF a.st # "ok" THEN NoV(a.st, t)
             ELSE IF e.op = "!" THEN OkV(t, B01(IsZeroV(a)))
             ELSE LET p == Conv(a.v, a.t, t).v
                  IN CASE e.op = "+" -> OkV(t, p)
                       [] e.op = "-" -> (IF IsFloat(t) THEN OkV(t, DNeg(p)) ELSE IntResult(t, ZNeg(p)))
                       [] e.op = "~" -> IntResult(t, ZSub(ZNeg(p), ZK(1))))
    [] e.k = "bin" /\ e.op \in LogOps ->        \* 6.5.13-14: the right operand is evaluated only when needed
         (LET a == ConstEval(e.l) IN
          IF a.st # "ok" THEN NoV(a.st, "int")
          ELSE IF (e.op = "||") = ~IsZeroV(a) THEN OkV("int", B01(e.op = "||"))
          ELSE LET b == ConstEval(e.r) IN IF b.st # "ok" THEN NoV(b.st, "int") ELSE OkV("int", B01(~IsZeroV(b))))
    [] e.k = "bin" /\ e.op \notin LogOps ->
         (LET a == ConstEval(e.l)
              b == ConstEval(e.r)
              t == TypeOf(e)
          IN IF a.st # "ok" THEN NoV(a.st, t)
             ELSE IF b.st # "ok" THEN NoV(b.st, t)
             ELSE IF e.op \in ShiftOps
                  THEN ShiftValue(e.op, t, Conv(a.v, a.t, t).v, Conv(b.v, b.t, Promote(b.t)).v)
             ELSE LET ct == UAC(a.t, b.t)
                      ca == Conv(a.v, a.t, ct)
                      cb == Conv(b.v, b.t, ct)
                  IN IF ca.st # "ok" THEN NoV(ca.st, t)
                     ELSE IF cb.st # "ok" THEN NoV(cb.st, t)
                     ELSE IF e.op \in RelOps THEN OkV("int", RelValue(e.op, ct, ca.v, cb.v))
                     ELSE ArithValue(e.op, ct, ca.v, cb.v))
    [] e.k = "chain" -> ConstEval(GrammarTree(e.xs, e.ops))
    [] e.k \in {"cond", "ucond"} ->             \* 6.5.15: only the selected operand is evaluated
         (LET c == ConstEval(e.c)
              t == TypeOf(e)
          IN IF c.st # "ok" THEN NoV(c.st, t)
             ELSE LET s == IF IsZeroV(c) THEN ConstEval(e.b) ELSE ConstEval(e.a)
                  IN IF s.st # "ok" THEN NoV(s.st, t) ELSE Conv(s.v, s.t, t))

(* ====================================================================== *)
(* Implementation-shaped side, part 1: carrier arithmetic of eval.c         *)
(* ====================================================================== *)
CK(n)       == IF Real THEN OfInt(n, 8) ELSE n % (2 ^ CB)
COnes       == IF Real THEN Ones(8) ELSE 2 ^ CB - 1
CAdd(a, b)  == IF Real THEN Add(a, b) ELSE IAdd(CB, a, b)
CSub(a, b)  == IF Real THEN Sub(a, b) ELSE ISub(CB, a, b)
CMul(a, b)  == IF Real THEN Mul(a, b) ELSE IMul(CB, a, b)
CNeg(a)     == IF Real THEN Neg(a) ELSE INeg(CB, a)
CAnd(a, b)  == IF Real THEN And(a, b) ELSE IAnd(CB, a, b)
COr(a, b)   == IF Real THEN Or(a, b) ELSE IOr(CB, a, b)
CXor(a, b)  == IF Real THEN Xor(a, b) ELSE IXor(CB, a, b)
CUDiv(a, b) == IF Real THEN UDiv(a, b) ELSE IUDiv(CB, a, b)
CUMod(a, b) == IF Real THEN UMod(a, b) ELSE IUMod(CB, a, b)
CSDiv(a, b) == IF Real THEN SDiv(a, b) ELSE ISDiv(CB, a, b)
CSMod(a, b) == IF Real THEN SMod(a, b) ELSE ISMod(CB, a, b)
CShl(a, k)  == IF Real THEN Shl(a, k) ELSE IShl(CB, a, k)
CShr(a, k)  == IF Real THEN Shr(a, k) ELSE IShr(CB, a, k)
CSar(a, k)  == IF Real THEN Sar(a, k) ELSE ISar(CB, a, k)
CULt(a, b)  == IF Real THEN ULt(a, b) ELSE IULt(a, b)
CSLt(a, b)  == IF Real THEN SLt(a, b) ELSE ISLt(CB, a, b)
CIsZero(a)  == IF Real THEN IsZero(a) ELSE a = 0
CCount(a)   == IF Real THEN a[1] % 64 ELSE a % CB      \* `r & 63`: shift count modulo the carrier width
CMin        == IF Real THEN [i \in 1..8 |-> IF i = 8 THEN 128 ELSE 0] ELSE 2 ^ (CB - 1)
CToZU(u)    == IF Real THEN ZExt(u, ZB) ELSE u         \* value of the carrier read as unsigned long long
CToZS(u)    == IF Real THEN SExt(u, ZB) ELSE IToS(CB, u)   \* ... read as long long
COfZ(z)     == IF Real THEN Trunc(z, 8) ELSE z % (2 ^ CB)
C0          == CK(0)
C1          == CK(1)
C01(b)      == IF b THEN C1 ELSE C0

(* cast(): `u &= -1ull >> 64 - size*8; if (signed) { m = 1ull << size*8 - 1; u = (u ^ m) - m; }` *)
CastMaskTab == [t \in IntTypes |-> CShr(COnes, CB - CastBits(t))]
CastSignTab == [t \in IntTypes |-> CShl(CK(1), CastBits(t) - 1)]
CastInt(u, t) ==
  LET x == CAnd(u, CastMaskTab[t])
      m == CastSignTab[t]
  IN IF IsSigned(t) THEN CSub(CXor(x, m), m) ELSE x

(* constants of the folded tree: integer carrier u (f unused) or exact floating value f (u unused) *)
KI(t, u) == [k |-> "c", t |-> t, u |-> u, f |-> DZero]
KF(t, f) == [k |-> "c", t |-> t, u |-> C0, f |-> f]
IsK(n) == n.k = "c"
NBin(op, t, l, r) == [k |-> "bin", op |-> op, t |-> t, l |-> l, r |-> r]

(* result of a fold step: st = "ok" (n is the resulting node), "trap" (the compiler dies with a signal), *)
(* "error" (diagnosed, exit 1), "unspec" (outside the model: inexact floating result or host-undefined *)
(* conversion); dv = names of the deviations that changed the outcome                                  *)
R(st, n, dv) == [st |-> st, n |-> n, dv |-> dv]
Bad(st, dv) == [st |-> st, n |-> KI("int", C0), dv |-> dv]

(* binary(): the operation is selected by the type of the LEFT operand, the result is cast to type t *)
FoldBinary(op, t, l, r) ==
  IF IsFloat(l.t)
  THEN IF ~IsFloat(r.t) \/ (op \notin RelOps /\ ~IsFloat(t)) THEN Bad("unspec", {})    \* union read through the other member
       ELSE IF op \in RelOps
            THEN R("ok", KI(t, CastInt(C01(RelBool(op, "double", l.f, r.f)), t)), {})
            ELSE IF op = "/" /\ DIsZero(r.f) THEN Bad("unspec", {})
            ELSE LET d == CASE op = "+" -> DAdd(l.f, r.f) [] op = "-" -> DSub(l.f, r.f)
                            [] op = "*" -> DMul(l.f, r.f) [] op = "/" -> DDiv(l.f, r.f)
                     rd == ImplRound(d, t)
                 IN IF rd.x THEN R("ok", KF(t, rd), {}) ELSE Bad("unspec", {})
  ELSE IF IsFloat(r.t) \/ IsFloat(t) THEN Bad("unspec", {})
  ELSE
  LET sg == IsSigned(l.t)        \* op |= S
      a == l.u
      b == r.u
      divtrap == op \in {"/", "%"} /\ (CIsZero(b) \/ (sg /\ a = CMin /\ b = COnes))
      raw == CASE op = "*" -> CMul(a, b)
               [] op = "/" -> (IF sg THEN CSDiv(a, b) ELSE CUDiv(a, b))
               [] op = "%" -> (IF sg THEN CSMod(a, b) ELSE CUMod(a, b))
               [] op = "+" -> CAdd(a, b)
               [] op = "-" -> CSub(a, b)
               [] op = "<<" -> CShl(a, CCount(b))
               [] op = ">>" -> (IF sg THEN CSar(a, CCount(b)) ELSE CShr(a, CCount(b)))
               [] op = "&" -> CAnd(a, b)
               [] op = "|" -> COr(a, b)
               [] op = "^" -> CXor(a, b)
               [] op = "<" -> C01(IF sg THEN CSLt(a, b) ELSE CULt(a, b))
               [] op = ">" -> C01(IF sg THEN CSLt(b, a) ELSE CULt(b, a))
               [] op = "<=" -> C01(~(IF sg THEN CSLt(b, a) ELSE CULt(b, a)))
               [] op = ">=" -> C01(~(IF sg THEN CSLt(a, b) ELSE CULt(a, b)))
               [] op = "==" -> C01(a = b)
               [] op = "!=" -> C01(a # b)
  IN IF divtrap
     THEN (IF Dev_NoDivisionGuard THEN Bad("trap", {"NoDivisionGuard"}) ELSE Bad("error", {}))
     ELSE R("ok", KI(t, CastInt(raw, t)), {})

(* unary(): only TSUB reaches it *)
FoldNeg(t, l) ==
  IF IsFloat(l.t) THEN (IF IsFloat(t) THEN R("ok", KF(t, DNeg(l.f)), {}) ELSE Bad("unspec", {}))
  ELSE IF IsFloat(t) THEN Bad("unspec", {})
  ELSE R("ok", KI(t, CastInt(CNeg(l.u), t)), {})

(* EXPRCAST of a constant *)
FoldCast(t, l) ==
  IF IsInt(l.t) /\ IsFloat(t)
  THEN LET d == DOfZ(IF IsSigned(l.t) THEN CToZS(l.u) ELSE CToZU(l.u))
           rd == DRound(d, t)            \* `t->size == 4 ? (float)i : (double)i`: one rounding, to the target format
       IN IF rd.x THEN R("ok", KF(t, rd), {}) ELSE Bad("unspec", {})
  ELSE IF IsFloat(l.t) /\ IsInt(t)
  THEN LET tr == DTrunc(l.f)
           lim == ZPow2(IF IsSigned(t) THEN CB - 1 ELSE CB)
           right == R("ok", KI(t, C01(~DIsZero(l.f))), {})             \* what (_Bool)x must give
           negfrac == DIsNeg(l.f) /\ ~tr.big /\ ZIsZero(tr.z)           \* value in (-1, 0)
           got ==
             IF IsSigned(t)          \* `f < -0x1p63 || f >= 0x1p63` -> error; i = f
             THEN (IF tr.big \/ ZLt(tr.z, ZNeg(lim)) \/ ~ZLt(tr.z, lim) THEN Bad("error", {})
                   ELSE IF ~InRange(tr.z, t) THEN Bad("unspec", {})     \* out of range of t: no value prescribed
                   ELSE R("ok", KI(t, CastInt(COfZ(tr.z), t)), {}))
             ELSE                    \* `f < 0.0 || f >= 0x1p64` -> error; u = f   (repaired: f <= -1.0)
                  IF DIsNeg(l.f) /\ (Dev_FloatToUnsignedRejectsNeg \/ ~negfrac)
                  THEN Bad("error", IF negfrac THEN {"FloatToUnsignedRejectsNeg"} ELSE {})
                  ELSE IF tr.big \/ ~ZLt(tr.z, lim) THEN Bad("error", {})
                  ELSE IF t # "bool" /\ ~InRange(tr.z, t) THEN Bad("unspec", {})
                  ELSE R("ok", KI(t, CastInt(COfZ(tr.z), t)), {})
       IN IF t # "bool" THEN got
          ELSE IF ~Dev_BoolCastTruncates THEN right
          ELSE IF got.st = right.st /\ got.n = right.n THEN got
          ELSE [got EXCEPT !.dv = @ \cup {"BoolCastTruncates"}]
  ELSE IF IsFloat(l.t)         \* float -> float: cast() rounds to float when size == 4
  THEN (LET rd == DRound(l.f, t) IN IF rd.x THEN R("ok", KF(t, rd), {}) ELSE Bad("unspec", {}))
  ELSE                         \* integer -> integer
       IF t = "bool" /\ ~Dev_BoolCastTruncates THEN R("ok", KI(t, C01(~CIsZero(l.u))), {})
       ELSE LET u == CastInt(l.u, t)
            IN R("ok", KI(t, u), IF t = "bool" /\ u # C01(~CIsZero(l.u)) THEN {"BoolCastTruncates"} ELSE {})

(* truth of a constant as eval()/condexpr() test it: `u.constant.u` non-zero (for floating constants the *)
(* bit pattern, which is zero exactly for +0.0; -0.0 is outside this model)                               *)
KTrue(c) == IF IsFloat(c.t) THEN ~DIsZero(c.f) ELSE ~CIsZero(c.u)

(* eval() on a tree built by expr.c; returns R(st, node, dv) *)
RECURSIVE Fold(_)
Fold(n) ==
  CASE n.k = "c" -> R("ok", n, {})
    [] n.k = "neg" ->
         (LET a == Fold(n.a) IN
          IF a.st # "ok" THEN a
          ELSE IF ~IsK(a.n) THEN R("ok", [n EXCEPT !.a = a.n], a.dv)
          ELSE LET f == FoldNeg(n.t, a.n) IN [f EXCEPT !.dv = @ \cup a.dv])
    [] n.k = "cast" ->
         (LET a == Fold(n.a) IN
          IF a.st # "ok" THEN a
          ELSE IF ~IsK(a.n) /\ a.n.t = "ptr" /\ n.t \in {"ptr", "long", "ulong", "llong", "ullong"}
               THEN R("ok", a.n, a.dv)      \* pointer -> pointer / integer of the size of long: `expr = l` (6.6p10 extension)
          ELSE IF ~IsK(a.n) THEN R("ok", [n EXCEPT !.a = a.n], a.dv)
          ELSE LET f == FoldCast(n.t, a.n) IN [f EXCEPT !.dv = @ \cup a.dv])
    [] n.k = "cond" -> R("ok", n, {})                     \* eval() has no EXPRCOND case
    [] n.k = "addr" -> R("ok", n, {})
    [] n.k = "deref" -> (LET a == Fold(n.a) IN IF a.st # "ok" THEN a ELSE R("ok", [n EXCEPT !.a = a.n], a.dv))
    [] n.k = "amp" ->                                     \* `&*p` cancels: expr = eval(l->base)
         (LET a == Fold(n.a) IN
          IF a.st # "ok" THEN a
          ELSE IF a.n.k = "deref" THEN (LET b == Fold(a.n.a) IN [b EXCEPT !.dv = @ \cup a.dv])
          ELSE R("ok", [n EXCEPT !.a = a.n], a.dv))
    [] n.k = "bin" /\ n.op \in LogOps ->
         (LET a == Fold(n.l) IN
          IF a.st # "ok" THEN a
          ELSE LET decided == IsK(a.n) /\ ((n.op = "||") = KTrue(a.n))
               IN IF decided /\ ~Dev_UnevaluatedOperandFolded
                  THEN (IF Dev_LogicalReturnsOperand
                        THEN R("ok", a.n, a.dv \cup (IF a.n = KI("int", C01(n.op = "||")) THEN {} ELSE {"LogicalReturnsOperand"}))
                        ELSE R("ok", KI("int", C01(n.op = "||")), a.dv))
                  ELSE
                  LET b == Fold(n.r)
                      dvu == IF decided THEN {"UnevaluatedOperandFolded"} ELSE {}
                  IN IF b.st # "ok" THEN [b EXCEPT !.dv = @ \cup a.dv \cup dvu]
                     ELSE IF ~IsK(a.n) THEN R("ok", [n EXCEPT !.l = a.n, !.r = b.n], a.dv \cup b.dv)
                     ELSE IF Dev_LogicalReturnsOperand
                          THEN LET pick == IF decided THEN a.n ELSE b.n
                                   right == IF decided THEN KI("int", C01(n.op = "||"))
                                            ELSE IF IsK(b.n) THEN KI("int", C01(KTrue(b.n))) ELSE b.n
                               IN R("ok", pick, a.dv \cup b.dv \cup (IF pick = right THEN {} ELSE {"LogicalReturnsOperand"}))
                          ELSE IF decided THEN R("ok", KI("int", C01(n.op = "||")), a.dv \cup b.dv)
                          ELSE IF IsK(b.n) THEN R("ok", KI("int", C01(KTrue(b.n))), a.dv \cup b.dv)
                          ELSE R("ok", [n EXCEPT !.l = a.n, !.r = b.n], a.dv \cup b.dv))
    [] n.k = "bin" /\ n.op \notin LogOps ->
         (LET a == Fold(n.l) IN
          IF a.st # "ok" THEN a
          ELSE LET b == Fold(n.r) IN
               IF b.st # "ok" THEN [b EXCEPT !.dv = @ \cup a.dv]
               ELSE IF IsK(a.n) /\ IsK(b.n)
                    THEN LET f == FoldBinary(n.op, n.t, a.n, b.n) IN [f EXCEPT !.dv = @ \cup a.dv \cup b.dv]
               ELSE IF n.op \in {"+", "-"}
                    THEN \* TADD: `if (r->kind == EXPRBINARY) swap`; then (P + C1) +- C2 -> P + (C1 +- C2), whatever the type of expr
                         LET sw == n.op = "+" /\ b.n.k = "bin"
                             l == IF sw THEN b.n ELSE a.n
                             r == IF sw THEN a.n ELSE b.n
                             dv == a.dv \cup b.dv
                             same == R("ok", [n EXCEPT !.l = a.n, !.r = b.n], dv)
                         IN IF ~IsK(r) THEN same
                            ELSE IF l.k = "bin" /\ l.t = "ptr" /\ l.op = "+" /\ IsK(l.r)
                                 THEN (IF sw /\ Dev_SwapReassocClobbers THEN Bad("trap", dv \cup {"SwapReassocClobbers"})
                                       ELSE LET f == FoldBinary(n.op, r.t, l.r, r)        \* folded into the constant node r
                                            IN IF f.st # "ok" THEN [f EXCEPT !.dv = @ \cup dv]
                                               ELSE R("ok", NBin("+", n.t, l.l, f.n), dv \cup f.dv))
                            ELSE IF n.op = "-" /\ l.k = "addr"
                                 THEN (IF Dev_BareAddressMinusRejected THEN [same EXCEPT !.dv = @ \cup {"BareAddressMinusRejected"}]
                                       ELSE LET f == FoldNeg(r.t, r) IN R("ok", NBin("+", n.t, l, f.n), dv))
                            ELSE same
                    ELSE R("ok", [n EXCEPT !.l = a.n, !.r = b.n], a.dv \cup b.dv))

(* ====================================================================== *)
(* Implementation-shaped side, part 2: tree construction of expr.c          *)
(* ====================================================================== *)
(* type.c typepromote(t, width = -1) *)
ImplPromoteDef(t) ==
  IF t = "float" THEN "double"      \* (only used for variadic arguments; never reached from the operators below)
  ELSE IF IsInt(t) /\ Rank[t] <= Rank["int"]
       THEN (IF CastBits(t) - (IF IsSigned(t) THEN 1 ELSE 0) < CastBits("int") THEN "int" ELSE "uint")
  ELSE t
ImplPromoteTab == [t \in ArithTypes |-> ImplPromoteDef(t)]
ImplPromote(t) == ImplPromoteTab[t]
(* type.c typecommonreal *)
ImplCommonDef(t1, t2) ==
  IF "double" \in {t1, t2} THEN "double" ELSE IF "float" \in {t1, t2} THEN "float"
  ELSE LET a == ImplPromote(t1)
           b == ImplPromote(t2)
       IN IF a = b THEN a
          ELSE IF IsSigned(a) = IsSigned(b) THEN (IF Rank[a] > Rank[b] THEN a ELSE b)
          ELSE LET u == IF IsSigned(a) THEN b ELSE a         \* after the swap t1 is the unsigned one
                   s == IF IsSigned(a) THEN a ELSE b
               IN IF Rank[u] >= Rank[s] THEN u
                  ELSE IF CastBits(u) < CastBits(s) THEN s
                  ELSE UnsignedOf[s]
ImplCommonTab == [t1 \in ArithTypes |-> [t2 \in ArithTypes |-> ImplCommonDef(t1, t2)]]
ImplCommon(t1, t2) == ImplCommonTab[t1][t2]
(* exprconvert(): a cast node unless the types are compatible *)
Cv(n, t) == IF n.t = t THEN n ELSE [k |-> "cast", t |-> t, a |-> n]

(* expr.c inttype(): first type of limits[] from the suffix's entry on, step 2 for decimal or unsigned-suffixed *)
Limits == <<"int", "uint", "long", "ulong", "llong", "ullong">>
SufIndex == [none |-> 0, u |-> 1, l |-> 2, ul |-> 3, ll |-> 4, ull |-> 5]
(* type.c typehasint(t, i, false): i <= 0xffffffffffffffff >> (8 - size << 3) + issigned *)
ImplHasInt(t, u) == ~CULt(CShr(COnes, (CB - CastBits(t)) + (IF IsSigned(t) THEN 1 ELSE 0)), u)
ImplIntType(b, suf, u) ==
  LET i0 == SufIndex[IF suf = "" THEN "none" ELSE suf]
      step == IF i0 % 2 = 1 \/ b = 10 THEN 2 ELSE 1
      cand == {i \in 0..5 : i >= i0 /\ (i - i0) % step = 0 /\ ImplHasInt(Limits[i + 1], u)}
  IN IF cand = {} THEN "none" ELSE Limits[(CHOOSE i \in cand : \A j \in cand : i <= j) + 1]

(* literal operand: the constant the leaf stands for *)
LeafK(e) == IF IsFloat(e.t) THEN KF(e.t, e.v) ELSE KI(e.t, COfZ(e.v))

(* Build(e): R(st, node, dv).  Parsing folds the controlling expression of ?: (condexpr calls eval), so *)
(* construction can already trap or report an error.                                                     *)
RECURSIVE Build(_)
Build(e) ==
  CASE e.k \in {"lit", "leaf"} -> R("ok", LeafK(e), {})
    [] e.k = "flit" ->        \* primaryexpr(): strtof() for an f-suffixed constant, strtod() otherwise: correctly rounded to the type
         (LET rd == DRound(e.v, e.t) IN IF rd.x THEN R("ok", KF(e.t, rd), {}) ELSE Bad("unspec", {}))
    [] e.k = "num" -> (LET t == ImplIntType(e.b, e.suf, COfZ(e.v))
                       IN IF t = "none" THEN Bad("error", {}) ELSE R("ok", KI(t, COfZ(e.v)), {}))
    [] e.k = "cast" -> (LET a == Build(e.a) IN IF a.st # "ok" THEN a ELSE R("ok", [k |-> "cast", t |-> e.t, a |-> a.n], a.dv))
    [] e.k = "un" ->
         (LET a == Build(e.a) IN
          IF a.st # "ok" THEN a
          ELSE LET p == IF IsInt(a.n.t) THEN Cv(a.n, ImplPromote(a.n.t)) ELSE a.n
               IN CASE e.op = "+" -> R("ok", p, a.dv)
                    [] e.op = "-" -> R("ok", [k |-> "neg", t |-> p.t, a |-> p], a.dv)
                    [] e.op = "~" -> R("ok", NBin("^", p.t, p, KI(p.t, COnes)), a.dv)      \* mkconstexpr(e->type, -1)
                    [] e.op = "!" -> (LET ct == ImplCommon(a.n.t, "int")
                                      IN R("ok", NBin("==", "int", Cv(a.n, ct), Cv(KI("int", CK(0)), ct)), a.dv)))
    [] e.k = "bin" ->
         (LET a == Build(e.l) IN
          IF a.st # "ok" THEN a
          ELSE LET b == Build(e.r) IN
               IF b.st # "ok" THEN [b EXCEPT !.dv = @ \cup a.dv]
               ELSE LET dv == a.dv \cup b.dv IN
                    IF e.op \in LogOps THEN R("ok", NBin(e.op, "int", a.n, b.n), dv)
                    ELSE IF e.op \in ShiftOps
                         THEN LET l == Cv(a.n, ImplPromote(a.n.t)) IN R("ok", NBin(e.op, l.t, l, Cv(b.n, ImplPromote(b.n.t))), dv)
                    ELSE LET ct == ImplCommon(a.n.t, b.n.t)
                         IN R("ok", NBin(e.op, IF e.op \in RelOps THEN "int" ELSE ct, Cv(a.n, ct), Cv(b.n, ct)), dv))
    [] e.k = "chain" -> Build(GrammarTree(e.xs, e.ops))      \* binaryexpr(): precedence climbing must build the grammar tree
    [] e.k \in {"cond", "ucond"} ->
         (LET c == Build(e.c) IN
          IF c.st # "ok" THEN c
          ELSE LET a == Build(e.a) IN
               IF a.st # "ok" THEN [a EXCEPT !.dv = @ \cup c.dv]
               ELSE LET b == Build(e.b) IN
                    IF b.st # "ok" THEN [b EXCEPT !.dv = @ \cup c.dv \cup a.dv]
                    ELSE LET same == a.n.t = b.n.t /\ Dev_CondSameTypeNoPromotion
                             t == IF same THEN a.n.t ELSE ImplCommon(a.n.t, b.n.t)
                             dvt == IF same /\ ImplCommon(a.n.t, b.n.t) # t THEN {"CondSameTypeNoPromotion"} ELSE {}
                             la == IF same THEN a.n ELSE Cv(a.n, t)
                             lb == IF same THEN b.n ELSE Cv(b.n, t)
                             fc == Fold(c.n)                                   \* e = eval(e)
                             dv == c.dv \cup a.dv \cup b.dv \cup fc.dv \cup dvt
                         IN IF fc.st # "ok" THEN [fc EXCEPT !.dv = dv]
                            ELSE IF IsK(fc.n) /\ (IsInt(fc.n.t) \/ ~Dev_FloatCondNotFolded)
                                 THEN R("ok", Cv(IF KTrue(fc.n) THEN la ELSE lb, t), dv)
                                 ELSE R("ok", [k |-> "cond", t |-> t, c |-> fc.n, a |-> la, b |-> lb],
                                        dv \cup (IF IsK(fc.n) THEN {"FloatCondNotFolded"} ELSE {})))


(* ====================================================================== *)
(* Address constants: &arr[i], arr + c, P + C1 +- C2 (6.6p9)                 *)
(* ====================================================================== *)
(* surface: [k "sym"] = arr;  [k "mem"] = &st.m (st = struct { char c; T m; });  [k "idx", a] = &arr[a];        *)
(*          [k "pcast", to, p] = (long)p or (char * )p;  [k "padd", op, p, c, sw] = p op c  (sw: written c + p)  *)
ESym == [k |-> "sym"]
EMem == [k |-> "mem"]
EIdx(a) == [k |-> "idx", a |-> a]
EPCast(to, p) == [k |-> "pcast", to |-> to, p |-> p]
EPAdd(op, p, c, sw) == [k |-> "padd", op |-> op, p |-> p, c |-> c, sw |-> sw]
RECURSIVE AddrType(_)
AddrType(e) == CASE e.k \in {"sym", "mem", "idx"} -> "elem" [] e.k = "pcast" -> e.to [] e.k = "padd" -> AddrType(e.p)
(* declarative: byte offset from the object's symbol.  While the expression has pointer type it must stay inside the  *)
(* object or one past it (6.5.6p8); once converted to an integer (ext) the arithmetic is plain integer arithmetic and  *)
(* acceptance as a constant is an extension (6.6p10): the value is prescribed only if the implementation accepts it.  *)
AV(st, v, ext, unit, sym) == [st |-> st, v |-> v, ext |-> ext, unit |-> unit, sym |-> sym, nar |-> FALSE]
(* integer types narrower than a pointer, as targets of (T)address; "enum" is an enumerated type whose base is unsigned int *)
NarrowTypes == {"bool", "char", "schar", "uchar", "short", "ushort", "int", "uint", "enum"}
CastTypeOf(to) == IF to = "charp" THEN "ptr" ELSE IF to = "enum" THEN "uint" ELSE to
RECURSIVE AddrEval(_, _, _)
AddrEval(e, es, an) ==
  LET hi(sym) == IF sym = "arr" THEN an * es ELSE 2 * es
      chk(r) == IF r.st = "ok" /\ ~r.ext /\ (ZIsNeg(r.v) \/ ZLt(ZK(hi(r.sym)), r.v)) THEN [r EXCEPT !.st = "ub"] ELSE r
  IN CASE e.k = "sym" -> AV("ok", Z0, FALSE, es, "arr")
       [] e.k = "mem" -> AV("ok", ZK(es), FALSE, es, "st")
       [] e.k = "idx" -> (LET a == ConstEval(e.a) IN
                          IF a.st # "ok" THEN AV(a.st, Z0, FALSE, es, "arr") ELSE chk(AV("ok", ZMul(a.v, ZK(es)), FALSE, es, "arr")))
       [] e.k = "pcast" -> (LET p == AddrEval(e.p, es, an) IN
                            IF e.to = "long" THEN [p EXCEPT !.ext = TRUE, !.unit = 1]
                            ELSE IF e.to \in NarrowTypes        \* the address does not fit: no relocation of that width exists; if the
                                 THEN [p EXCEPT !.ext = TRUE, !.unit = 1, !.nar = TRUE]   \* implementation accepts it, the object keeps T's size
                            ELSE [p EXCEPT !.unit = 1])
       [] e.k = "padd" -> (LET p == AddrEval(e.p, es, an)
                               c == ConstEval(e.c)
                           IN IF p.st # "ok" THEN p ELSE IF c.st # "ok" THEN [p EXCEPT !.st = c.st]
                              ELSE LET d == ZMul(c.v, ZK(p.unit)) IN chk([p EXCEPT !.v = IF e.op = "+" THEN ZAdd(@, d) ELSE ZSub(@, d)]))
PtrEval(e, es, an) == AddrEval(e, es, an)

(* implementation: mkbinaryexpr(TADD/TSUB, pointer, integer) scales the integer as unsigned long *)
AddrOf(sym) == [k |-> "addr", t |-> "ptr", sym |-> sym]
Addr == AddrOf("arr")
Scaled(n, es) == NBin("*", "ulong", Cv(n, "ulong"), KI("ulong", CK(es)))
AmpDeref(n) == [k |-> "amp", t |-> "ptr", a |-> [k |-> "deref", t |-> "obj", a |-> n]]
(* PB: R(...) plus the unit pointer arithmetic scales by *)
PB(r, unit) == [st |-> r.st, n |-> r.n, dv |-> r.dv, unit |-> unit]
RECURSIVE PBuild(_, _)
PBuild(e, es) ==
  CASE e.k = "sym" -> PB(R("ok", Addr, {}), es)
    [] e.k = "mem" ->       \* &st.m: postfixexpr builds *(T * )((unsigned long)&st + offset), then & is applied
         PB(R("ok", AmpDeref(NBin("+", "ptr", [k |-> "cast", t |-> "ulong", a |-> AddrOf("st")], KI("ulong", CK(es)))), {}), es)
    [] e.k = "idx" ->       \* &arr[a] = &*(arr + a): mkunaryexpr keeps both nodes, eval() cancels them
         (LET a == Build(e.a) IN
          IF a.st # "ok" THEN PB(a, es) ELSE PB(R("ok", AmpDeref(NBin("+", "ptr", Addr, Scaled(a.n, es))), a.dv), es))
    [] e.k = "pcast" ->
         (LET p == PBuild(e.p, es) IN
          IF p.st # "ok" THEN p ELSE PB(R("ok", [k |-> "cast", t |-> CastTypeOf(e.to), a |-> p.n], p.dv), 1))
    [] e.k = "padd" ->
         (LET p == PBuild(e.p, es) IN
          IF p.st # "ok" THEN p
          ELSE LET c == Build(e.c) IN
               IF c.st # "ok" THEN PB([c EXCEPT !.dv = @ \cup p.dv], p.unit)
               ELSE IF p.n.t = "ptr"
                    THEN PB(R("ok", NBin(e.op, "ptr", p.n, Scaled(c.n, p.unit)), p.dv \cup c.dv), p.unit)   \* pointer operand goes left
               ELSE LET ct == ImplCommon(p.n.t, c.n.t)                                                     \* integer arithmetic
                        pl == Cv(p.n, ct)
                        cr == Cv(c.n, ct)
                    IN PB(R("ok", IF e.sw THEN NBin(e.op, ct, cr, pl) ELSE NBin(e.op, ct, pl, cr), p.dv \cup c.dv), p.unit))
(* qbe.c dataitem(): what an initializer may be *)
DataItem(f) ==
  IF f.st # "ok" THEN [st |-> f.st, n |-> f.n, dv |-> f.dv, sym |-> "none"]
  ELSE IF f.n.k = "addr" THEN [st |-> "ok", n |-> KI("ulong", C0), dv |-> f.dv, sym |-> f.n.sym]
  ELSE IF f.n.k = "bin" /\ f.n.op = "+" /\ f.n.l.k = "addr" /\ IsK(f.n.r)
       THEN [st |-> "ok", n |-> KI("ulong", f.n.r.u), dv |-> f.dv, sym |-> f.n.l.sym]
  ELSE [st |-> "error", n |-> KI("int", C0), dv |-> f.dv, sym |-> "none"]          \* "initializer is not a constant expression"

(* FoldModel(e): what the consumer of a constant expression receives: eval(condexpr()) *)
FoldModel(e) ==
  LET b == Build(e) IN
  IF b.st # "ok" THEN b ELSE LET f == Fold(b.n) IN [f EXCEPT !.dv = @ \cup b.dv]

(* `T v = E;`: exprassign converts to the declared type unless compatible with the type the parser gave E *)
FoldAssigned(e, t) ==
  LET b == Build(e) IN
  IF b.st # "ok" THEN b ELSE LET f == Fold(Cv(b.n, t)) IN [f EXCEPT !.dv = @ \cup b.dv]

(* constructors of the surface syntax ConstEval / FoldModel work on *)
Lit(t, v)      == [k |-> "lit", t |-> t, v |-> v]
ECast(t, a)    == [k |-> "cast", t |-> t, a |-> a]
EUn(op, a)     == [k |-> "un", op |-> op, a |-> a]
EBin(op, l, r) == [k |-> "bin", op |-> op, l |-> l, r |-> r]
FLit(t, v, sp) == [k |-> "flit", t |-> t, v |-> v, sp |-> sp]                   \* floating constant of exact value v, spelled sp
ENum(b, suf, v) == [k |-> "num", b |-> b, suf |-> suf, v |-> v]                 \* integer constant: base, suffix, value
ELeaf(t, v, src, ty) == [k |-> "leaf", t |-> t, v |-> v, src |-> src, ty |-> ty]  \* sizeof/_Alignof/offsetof/enum constant
ECond(c, a, b) == [k |-> "cond", c |-> c, a |-> a, b |-> b]

(* `T *p = A;`: eval() then dataitem() *)
FoldAddress(e, es) ==
  LET b == PBuild(e, es) IN
  IF b.st # "ok" THEN b ELSE LET f == Fold(b.n) IN DataItem([f EXCEPT !.dv = @ \cup b.dv])
AgreesAddr(s, m) ==
  CASE s.st = "ok" /\ s.nar -> m.st \notin {"trap", "ok"}       \* DataItem "ok" is an 8-byte `l $sym + off` item: never in a narrower object
    [] s.st = "ok" /\ ~s.nar /\ ~s.ext -> m.st = "ok" /\ m.sym = s.sym /\ m.n.u = COfZ(s.v)
    [] s.st = "ok" /\ ~s.nar /\ s.ext -> m.st # "trap" /\ (m.st = "ok" => (m.sym = s.sym /\ m.n.u = COfZ(s.v)))   \* may be refused, never wrong
    [] s.st = "ub" -> m.st # "trap"
    [] OTHER -> TRUE

(* ====================================================================== *)
(* Refinement: FoldModel (deviations off) => ConstEval                      *)
(* ====================================================================== *)
(* carrier representation eval.c keeps for a value of integer type t *)
Canon(z, t) == COfZ(z)
Agrees(s, m) ==          \* s = ConstEval(e), m = FoldModel(e)
  CASE s.st = "ok" ->
         /\ m.st = "ok"
         /\ IsK(m.n)
         /\ m.n.t = s.t
         /\ IF IsFloat(s.t) THEN m.n.f = s.v ELSE m.n.u = Canon(s.v, s.t)
    [] s.st = "ub" -> m.st # "trap"          \* no value prescribed, but the compiler must not die
    [] OTHER -> TRUE                          \* inexact floating result: outside the model
=============================================================================
