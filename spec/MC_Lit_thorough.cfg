SPECIFICATION Spec
CONSTANTS
  Devs = {"StrEscapeTrunc"}
  Mode = "exh"
  Tier = "thorough"
INVARIANTS Inv_Refines Inv_NoAbort Inv_Wf Inv_Emit
CHECK_DEADLOCK FALSE
