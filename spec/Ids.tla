--------------------------------- MODULE Ids ---------------------------------
(* Property C20, structural support (b): every number that appears in a name    *)
(* cproc-qbe prints -- block labels @name.N, temporaries %.N, local globals      *)
(* $.Lname.N, aggregate types :tag.N -- is drawn from a counter, so it is a      *)
(* function of the SEQUENCE of front-end calls into qbe.c and never of where     *)
(* the allocator placed the object.                                            *)
(*                                                                             *)
(* Implementation-shaped half (transcription of qbe.c):                        *)
(*   mkblock:   static unsigned id;  b->label.id = ++id          (whole run)    *)
(*   mkglobal:  static unsigned id;  v->id = asmname ? 0 :                      *)
(*                                   linkage == LINKNONE ? ++id : 0             *)
(*   functemp:  v->id = ++f->lastid                               (per func)    *)
(*   mkfunc:    f->lastid = 0   (after its mkblock("start"))                    *)
(*   emittype:  static unsigned id;  t->value->id = ++id  (before the members)  *)
(* Every call also receives an address `a` from an allocator that may return    *)
(* anything (Addrs): the address is an argument of every action and the model   *)
(* shows that no issued id depends on it.                                      *)
(* Declarative half: IdOf(calls, n) -- the id of the n-th call computed from the *)
(* call kinds alone (a count over the prefix).  Inv_IdsFromCalls: the ids issued *)
(* by the counters equal IdOf on every reachable state, for every choice of     *)
(* addresses.  Dev_AddrInId switches on a deliberately wrong allocator-dependent *)
(* id (the shape of the negative controls): TLC must then refute the invariant   *)
(* (MC_Ids_dev.cfg, expected rc 12).                                           *)
(* Binding: Trace_Ids.tla validates the H10 hook events of real executions.     *)
EXTENDS Naturals, Sequences, FiniteSets, TLC

CONSTANTS MaxCalls,       \* bound on the length of the call sequence
          Addrs,          \* addresses the allocator may hand out (arbitrary naturals)
          Dev_AddrInId,   \* negative model control: fold the address into local-global ids
          KeepHist        \* TRUE: calls/ids are full histories (model checking); FALSE: only the last
                          \* call is kept (trace validation of long executions)

VARIABLES blk, glob, typ, tmp,    \* the four counters
          calls,                  \* history: sequence of call kinds
          ids                     \* history: sequence of issued ids

vars == <<blk, glob, typ, tmp, calls, ids>>

Kinds == {"func", "blk", "tmp", "globloc", "globext", "type"}

Issue(kind, id) == IF KeepHist THEN calls' = Append(calls, kind) /\ ids' = Append(ids, id)
                   ELSE calls' = <<kind>> /\ ids' = <<id>>

MkBlock(a)  == blk' = blk + 1 /\ Issue("blk", blk + 1) /\ UNCHANGED <<glob, typ, tmp>>
MkFunc(a)   == tmp' = 0 /\ Issue("func", 0) /\ UNCHANGED <<blk, glob, typ>>
FuncTemp(a) == tmp' = tmp + 1 /\ Issue("tmp", tmp + 1) /\ UNCHANGED <<blk, glob, typ>>
MkGlobalLocal(a) ==     \* no linkage, no asm name: numbered
  /\ glob' = glob + 1
  /\ Issue("globloc", IF Dev_AddrInId THEN glob + 1 + (a % 7) ELSE glob + 1)
  /\ UNCHANGED <<blk, typ, tmp>>
MkGlobalNamed(a) == Issue("globext", 0) /\ UNCHANGED <<blk, glob, typ, tmp>>
EmitType(a) == typ' = typ + 1 /\ Issue("type", typ + 1) /\ UNCHANGED <<blk, glob, tmp>>

Init == blk = 0 /\ glob = 0 /\ typ = 0 /\ tmp = 0 /\ calls = << >> /\ ids = << >>

Bound == Len(calls) < MaxCalls
BMkBlock(a) == Bound /\ MkBlock(a)
BMkFunc(a) == Bound /\ MkFunc(a)
BFuncTemp(a) == Bound /\ FuncTemp(a)
BMkGlobalLocal(a) == Bound /\ MkGlobalLocal(a)
BMkGlobalNamed(a) == Bound /\ MkGlobalNamed(a)
BEmitType(a) == Bound /\ EmitType(a)
Next ==
  \/ \E a \in Addrs : BMkBlock(a)
  \/ \E a \in Addrs : BMkFunc(a)
  \/ \E a \in Addrs : BFuncTemp(a)
  \/ \E a \in Addrs : BMkGlobalLocal(a)
  \/ \E a \in Addrs : BMkGlobalNamed(a)
  \/ \E a \in Addrs : BEmitType(a)

Spec == Init /\ [][Next]_vars

(* ---- declarative: ids from the call sequence alone ----------------------- *)
CountOf(cs, n, kind) == Cardinality({m \in 1..n : cs[m] = kind})
LastFunc(cs, n) == LET fs == {m \in 1..n : cs[m] = "func"}
                   IN IF fs = {} THEN 0 ELSE CHOOSE m \in fs : \A m2 \in fs : m2 <= m
IdOf(cs, n) ==
  CASE cs[n] = "blk"     -> CountOf(cs, n, "blk")
    [] cs[n] = "globloc" -> CountOf(cs, n, "globloc")
    [] cs[n] = "type"    -> CountOf(cs, n, "type")
    [] cs[n] = "tmp"     -> Cardinality({m \in (LastFunc(cs, n) + 1)..n : cs[m] = "tmp"})
    [] cs[n] = "func"    -> 0
    [] cs[n] = "globext" -> 0

TypeOK == /\ Len(calls) = Len(ids) /\ \A n \in 1..Len(calls) : calls[n] \in Kinds
          /\ blk \in Nat /\ glob \in Nat /\ typ \in Nat /\ tmp \in Nat
Inv_IdsFromCalls == \A n \in 1..Len(ids) : ids[n] = IdOf(calls, n)
(* names cannot collide: within its name space a number is issued once          *)
Inv_Unique ==
  \A m, n \in 1..Len(ids) :
    (m < n /\ calls[m] = calls[n] /\ calls[n] \in {"blk", "globloc", "type"}) => ids[m] # ids[n]
Inv_TempUniquePerFunc ==
  \A m, n \in 1..Len(ids) :
    (m < n /\ calls[m] = "tmp" /\ calls[n] = "tmp" /\ LastFunc(calls, m) = LastFunc(calls, n)) => ids[m] # ids[n]
=============================================================================
