SPECIFICATION Spec
CONSTANTS
  Cap0 = 256
  MaxLen = 4100
  Elems = {1, 8, 16, 24, 48}
  ObjCap = 32
  DescCap = 64
  MaxParam = 3
  NGuard = 16
  NAttrName = 6
  NObjHash = 11
  HashHash = {8, 9, 10}
  BigLens = {10000, 100000, 1000000}
  Depths = {10, 100, 1000, 10000}
INVARIANTS Inv_IndexBelowCapacity Inv_LenWithinCap Inv_ObjDiagnosed
CHECK_DEADLOCK FALSE
