SPECIFICATION Spec
CONSTANTS
  ItemKinds = {"gcmt_lead", "gcmt_mid", "decl", "line7", "sp_first"}
  ViolKinds = {"v_undecl"}
  MaxItems = 2
  MinItems = 0
  MaxCmt = 6
  Devs = {}
  Emit = FALSE
INVARIANTS Inv_Refines
CHECK_DEADLOCK FALSE
