------------------------------- MODULE Skip -------------------------------
(* Property C19 (3): every loop of the compiler proper that consumes tokens or characters   *)
(* until a delimiter terminates on every input, in particular when the input ends first.    *)
(*                                                                                          *)
(* Each loop is transcribed from the C source as an action taking one iteration per step    *)
(* (implementation-shaped side) and classified declaratively from the C grammar (what the    *)
(* delimiter is, what "unterminated" means).  A stream is a finite sequence of symbols       *)
(* followed by end of input; reading at end of input yields EOF again (scan.c: scankind      *)
(* returns TEOF forever, nextchar keeps chr = EOF).  TLC enumerates every stream up to       *)
(* MaxLen over each loop's alphabet - every truncation point of every shape - and checks     *)
(*   Terminates : <>(status # "running")                      (liveness, weak fairness)     *)
(*   Refines    : the terminal status is one the declarative class allows                   *)
(* and prints one VCASE per stream with the rendered source text and the outcome class the   *)
(* real compiler must show: "ok" (status 0), "diag" (status 1), "any" (0 or 1), always       *)
(* within the time limit.  With the named deviation on, the attribute-argument loop has no   *)
(* end-of-input test (attr.c:285) and TLC reports the non-terminating behaviour; those        *)
(* streams are printed with got = "hang".                                                    *)
(*                                                                                          *)
(* Symbols: O "(", C ")", X an ordinary token/character, N newline, S "*", L "/", Q '"',     *)
(* B backslash.  Backslash-newline is removed by scan.c:nextchar (translation phase 2);      *)
(* the declarative side removes it from the whole stream in one left-to-right pass.          *)
EXTENDS Naturals, Integers, Sequences, FiniteSets, TLC, Json

CONSTANTS MaxLen,                 \* streams of length 0..MaxLen
          Loops,                  \* subset of AllLoops to enumerate
          Dev_AttrSkipNoEOF       \* TRUE: parseattr before /repo f3e22e6 (no EOF test; only MC_Skip_live.cfg, the vacuity guard); FALSE: what termination requires

AllLoops == {"attr", "gnuattr", "margs", "pragma", "define", "cppc", "cc", "str"}
ASSUME Loops \subseteq AllLoops

Alphabet(l) ==
  CASE l \in {"attr", "gnuattr"} -> {"O", "C", "X"}
    [] l = "margs"               -> {"O", "C", "X", "N"}
    [] l \in {"pragma", "define"} -> {"X", "N", "B"}
    [] l = "cppc"                -> {"X", "B", "N"}
    [] l = "cc"                  -> {"S", "L", "X", "N"}
    [] l = "str"                 -> {"X", "Q", "B", "N"}

(* rendering: text before the stream, text of each symbol, token-wise tail after the delimiter *)
Pre(l) ==
  CASE l = "attr"    -> "[[foo("
    [] l = "gnuattr" -> "__attribute__((foo("
    [] l = "margs"   -> "#define F(...) 0\nint v = F("
    [] l = "pragma"  -> "#pragma p"
    [] l = "define"  -> "#define M"
    [] l = "cppc"    -> "//"
    [] l = "cc"      -> "/*"
    [] l = "str"     -> "char *v = \""
SymText(l, s) ==
  CASE s = "O" -> " ("
    [] s = "C" -> " )"
    [] s = "X" -> IF l \in {"cc", "cppc", "str"} THEN "a"
                  ELSE IF l \in {"attr", "gnuattr"} THEN " , x"      \* attributes are comma separated; a comma is an ordinary token inside arguments
                  ELSE " x"
    [] s = "N" -> "\n"
    [] s = "S" -> "*"
    [] s = "L" -> "/"
    [] s = "Q" -> "\""
    [] s = "B" -> "\\"
TailToks(l) ==
  CASE l = "attr"    -> <<"]]", " int", " w", ";", "\n">>
    [] l = "gnuattr" -> <<"))", " int", " w", ";", "\n">>
    [] l = "margs"   -> <<";", "\n">>
    [] l \in {"pragma", "define", "cppc"} -> <<"int", " w", ";", "\n">>
    [] l = "cc"      -> <<" int", " w", ";", "\n">>
    [] l = "str"     -> <<";", "\n">>

RECURSIVE Cat(_, _)
Cat(f, n) == IF n = 0 THEN "" ELSE Cat(f, n - 1) \o f[n]

(* all sequences over A of length <= n *)
RECURSIVE SeqsUpTo(_, _)
SeqsUpTo(A, n) == IF n = 0 THEN {<<>>} ELSE LET S == SeqsUpTo(A, n - 1) IN S \cup {Append(s, a) : s \in {t \in S : Len(t) = n - 1}, a \in A}

VARIABLES loop, stream, pos, chr, aux, status
vars == <<loop, stream, pos, chr, aux, status>>

(* ---------------------------------------------------------------------------------- *)
(* scan.c:nextchar on the raw stream: the next character after removing backslash-newline *)
RECURSIVE NC(_, _)
NC(s, p) == IF p > Len(s) THEN [c |-> "E", p |-> p]
            ELSE IF s[p] = "B" /\ p + 1 <= Len(s) /\ s[p + 1] = "N" THEN NC(s, p + 2)
            ELSE [c |-> s[p], p |-> p + 1]

Advance == LET r == NC(stream, pos) IN chr' = r.c /\ pos' = r.p

Stop(st) == status' = st /\ UNCHANGED <<chr, pos, aux>>

Init ==
  /\ loop \in Loops
  /\ stream \in SeqsUpTo(Alphabet(loop), MaxLen)
  /\ status = "running"
  /\ aux = IF loop \in {"attr", "gnuattr"} THEN 1 ELSE 0
  /\ IF loop \in {"pragma", "cppc"}
     THEN chr = "X" /\ pos = 1                               \* on the directive name / the second '/'
     ELSE LET r == NC(stream, 1) IN chr = r.c /\ pos = r.p   \* first token / character after the prefix

(* attr.c:285  for (paren = 1; paren > 0; next()) switch (tok.kind) { '(': ++paren; ')': --paren; }          *)
(* embedded in attr.c:97/119  while (parseattr(...) || consume(TCOMMA)) ;  parseattr: identifier, then an       *)
(* optional parenthesised argument list that is skipped.  aux >= 1: inside an argument list at that depth;      *)
(* aux = -1: just after an attribute name; aux = 0: between attributes.  The stream is accepted ("closed") when *)
(* it ends between attributes; a token that cannot continue the list ends the loop and the following            *)
(* expect(']') / expect(')') decides: for [[ ]] every such token is an error, for __attribute__(( a ')' leaves   *)
(* the specifier ("closed": what follows is no longer this loop's business).                                     *)
StepAttr ==
  /\ loop \in {"attr", "gnuattr"}
  /\ IF aux >= 1
     THEN IF ~Dev_AttrSkipNoEOF /\ chr = "E" THEN Stop("error")     \* the missing test
          ELSE /\ aux' = aux + (IF chr = "O" THEN 1 ELSE 0) - (IF chr = "C" THEN 1 ELSE 0)
               /\ Advance /\ UNCHANGED status
     ELSE IF aux = -1
     THEN IF chr = "O" THEN aux' = 1 /\ Advance /\ UNCHANGED status       \* consume(TLPAREN): skip arguments
          ELSE aux' = 0 /\ UNCHANGED <<chr, pos, status>>                  \* attribute without arguments
     ELSE CASE chr = "X" -> aux' = -1 /\ Advance /\ UNCHANGED status      \* next attribute name
            [] chr = "E" -> Stop("closed")                                \* stream used up between attributes
            [] chr = "C" /\ loop = "gnuattr" -> Stop("closed")
            [] OTHER -> Stop("error")

(* pp.c:488 expandfunc: EOF -> error; ')' at depth 0 ends the argument list *)
StepMargs ==
  /\ loop = "margs"
  /\ IF chr = "E" THEN Stop("error")
     ELSE IF aux = 0 /\ chr = "C" THEN Stop("closed")
     ELSE /\ aux' = aux + (IF chr = "O" THEN 1 ELSE 0) - (IF chr = "C" THEN 1 ELSE 0)
          /\ Advance /\ UNCHANGED status

(* pp.c:354 #pragma: while (tok.kind != TNEWLINE && tok.kind != TEOF) next();  then tokencheck(TNEWLINE) *)
(* pp.c:248 #define body: while (t->kind != TNEWLINE && t->kind != TEOF) scan(t);  then the same check     *)
StepLine ==
  /\ loop \in {"pragma", "define"}
  /\ IF chr \notin {"N", "E"} THEN Advance /\ UNCHANGED <<aux, status>>
     ELSE Stop(IF chr = "N" THEN "closed" ELSE "error")

(* scan.c:251  do nextchar(s); while (s->chr != '\n' && s->chr != EOF); *)
StepCppc ==
  /\ loop = "cppc"
  /\ LET r == NC(stream, pos) IN
       IF r.c \in {"N", "E"}
       THEN /\ status' = (IF r.c = "N" THEN "closed" ELSE "closedeof")
            /\ chr' = r.c /\ pos' = r.p /\ UNCHANGED aux
       ELSE chr' = r.c /\ pos' = r.p /\ UNCHANGED <<aux, status>>

(* scan.c:256  do { last = chr; nextchar; if (chr == EOF) error } while (last != '*' || chr != '/'); *)
StepCc ==
  /\ loop = "cc"
  /\ LET r == NC(stream, pos) IN
       IF r.c = "E" THEN status' = "error" /\ chr' = r.c /\ pos' = r.p /\ UNCHANGED aux
       ELSE IF chr = "S" /\ r.c = "L" THEN status' = "closed" /\ chr' = r.c /\ pos' = r.p /\ UNCHANGED aux
       ELSE chr' = r.c /\ pos' = r.p /\ UNCHANGED <<aux, status>>

(* scan.c:225 stringlit + escape(): '\\' -> escape; '"' -> done; '\n' / EOF -> error *)
StepStr ==
  /\ loop = "str"
  /\ CASE chr = "Q" -> Stop("closed")
       [] chr \in {"N", "E"} -> Stop("error")
       [] chr = "B" -> LET r == NC(stream, pos) IN
                         IF r.c \in {"Q", "B", "X"}            \* \" \\ \a : nextchar once more
                         THEN LET r2 == NC(stream, r.p) IN chr' = r2.c /\ pos' = r2.p /\ UNCHANGED <<aux, status>>
                         ELSE status' = "error" /\ chr' = r.c /\ pos' = r.p /\ UNCHANGED aux
       [] OTHER -> Advance /\ UNCHANGED <<aux, status>>

Next == status = "running" /\ (StepAttr \/ StepMargs \/ StepLine \/ StepCppc \/ StepCc \/ StepStr) /\ UNCHANGED <<loop, stream>>

Spec == Init /\ [][Next]_vars /\ WF_vars(Next)

(* ---------------------------------------------------------------------------------- *)
(* Declarative classification, on the stream with backslash-newline pairs removed.      *)
RECURSIVE Spliced(_)
Spliced(s) == IF s = <<>> THEN <<>>
              ELSE IF Len(s) >= 2 /\ s[1] = "B" /\ s[2] = "N" THEN Spliced(SubSeq(s, 3, Len(s)))
              ELSE <<s[1]>> \o Spliced(Tail(s))

T == Spliced(stream)

(* index in T at which a parenthesised list opened at depth d0 closes; 0 if it never does *)
RECURSIVE CloseIdx(_, _, _)
CloseIdx(t, i, d) == IF i > Len(t) THEN 0
                     ELSE IF t[i] = "C" /\ d = 1 THEN i
                     ELSE CloseIdx(t, i + 1, d + (IF t[i] = "O" THEN 1 ELSE 0) - (IF t[i] = "C" THEN 1 ELSE 0))
FirstIdx(t, P(_)) == IF \E i \in 1..Len(t) : P(i) THEN CHOOSE i \in 1..Len(t) : P(i) /\ \A j \in 1..(i - 1) : ~P(j) ELSE 0

(* attribute list grammar on T from index i in state d (as aux above): "closedend" = T is a well-formed   *)
(* continuation `args ) (name [( args )])*`, "badlist" = a token that cannot continue the list,            *)
(* "closedearly" = __attribute__ specifier left by ')' before the stream ends                              *)
RECURSIVE AttrScan(_, _, _, _)
AttrScan(l, t, i, d) ==
  IF i > Len(t) THEN (IF d >= 1 THEN "unterminated" ELSE "closedend")
  ELSE IF d >= 1 THEN AttrScan(l, t, i + 1, d + (IF t[i] = "O" THEN 1 ELSE 0) - (IF t[i] = "C" THEN 1 ELSE 0))
  ELSE IF d = -1 THEN (IF t[i] = "O" THEN AttrScan(l, t, i + 1, 1) ELSE AttrScan(l, t, i, 0))
  ELSE IF t[i] = "X" THEN AttrScan(l, t, i + 1, -1)
  ELSE IF t[i] = "C" /\ l = "gnuattr" THEN "closedearly"
  ELSE "badlist"

(* "closedend": delimiter found and it is the last thing of the stream; "closedearly": found before;   *)
(* "unterminated": input ends inside the construct; "badnl": newline inside a string literal             *)
RECURSIVE StrScan(_, _)
StrScan(t, i) == IF i > Len(t) THEN "unterminated"
                 ELSE IF t[i] = "Q" THEN (IF i = Len(t) THEN "closedend" ELSE "closedearly")
                 ELSE IF t[i] = "N" THEN "badnl"
                 ELSE IF t[i] = "B" THEN (IF i + 1 <= Len(t) /\ t[i + 1] \in {"Q", "B", "X"} THEN StrScan(t, i + 2)
                                          ELSE IF i + 1 > Len(t) THEN "unterminated" ELSE "badnl")
                 ELSE StrScan(t, i + 1)

Shape ==
  LET at(i) == IF i = 0 THEN "unterminated" ELSE IF i = Len(T) THEN "closedend" ELSE "closedearly" IN
  CASE loop \in {"attr", "gnuattr"} -> AttrScan(loop, T, 1, 1)
    [] loop = "margs" -> at(CloseIdx(T, 1, 1))
    [] loop \in {"pragma", "define", "cppc"} -> at(FirstIdx(T, LAMBDA i : T[i] = "N"))
    [] loop = "cc"  -> LET k == FirstIdx(T, LAMBDA i : i >= 2 /\ T[i - 1] = "S" /\ T[i] = "L") IN at(k)
    [] loop = "str" -> StrScan(T, 1)

(* what the C grammar says about the rendered file  pre ++ stream ++ first `cut` tail tokens              *)
Class(cut) ==
  CASE Shape \in {"badnl", "badlist"} -> "diag"                                               \* 6.4.5: newline in a string literal
    [] Shape = "unterminated" /\ loop \in {"attr", "gnuattr", "margs", "cc", "str"} -> "diag"
    [] Shape = "unterminated" -> "any"                  \* directive / comment ended by end of file: no newline, 5.1.1.2p1 leaves it open
    [] Shape = "closedend" /\ cut = Len(TailToks(loop)) /\ loop # "gnuattr" -> "ok"   \* GNU attribute arguments are no standard syntax: left open
    [] OTHER -> "any"

AllowedStatus ==
  CASE Shape \in {"badnl", "badlist"} -> {"error"}
    [] Shape = "unterminated" /\ loop \in {"attr", "gnuattr", "margs", "cc", "str"} -> {"error"}
    [] Shape = "unterminated" -> {"error", "closedeof"}
    [] OTHER -> {"closed"}

Refines == status # "running" => status \in AllowedStatus

Terminates == <>(status # "running")

(* a state from which the loop can only repeat itself: the iteration changes nothing *)
Stuck == status = "running" /\ ENABLED Next /\ ~ENABLED <<Next>>_vars

Text == Pre(loop) \o Cat([i \in 1..Len(stream) |-> SymText(loop, stream[i])], Len(stream))

Inv_Emit ==
  (status # "running" \/ Stuck) =>
    PrintT("VCASE " \o ToJson([loop |-> loop, stream |-> stream, text |-> Text, tail |-> TailToks(loop), shape |-> Shape,
                               class |-> [c \in 1..(Len(TailToks(loop)) + 1) |-> Class(c - 1)],
                               got |-> IF Stuck THEN "hang" ELSE status]))
=============================================================================
