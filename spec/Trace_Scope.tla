---------------------------- MODULE Trace_Scope ----------------------------
(* Flow B for scope.c: the H8 events (mkscope / delscope / scopeput* /           *)
(* scopeget* at their return, guard CPROC_VERIF) recorded while the real          *)
(* compiler translates a unit are accepted iff they are a behaviour of Scope.tla  *)
(* and every lookup returned the declaratively visible binding (DeclGet).         *)
(* Pointers are renumbered by the harness (file scope = 0; "(nil)" = 0 = NULL).   *)
(* Executions are concatenated with {"e":"Reset"}.  Property C16.                 *)
EXTENDS Scope, Json, IOUtils

Trace == ndJsonDeserialize(IOEnv.TRACE)

VARIABLES l
tvars == <<sc, nsc, nid, l>>

ev == Trace[l]
IsEvent(name) == l <= Len(Trace) /\ ev.e = name /\ l' = l + 1

TInit == SInit /\ l = 1

EvReset == IsEvent("Reset") /\ sc' = (FileScope :> NewScope(-1)) /\ UNCHANGED <<nsc, nid>>
(* A scope may be deleted while scopes below it still exist (that only leaks or  *)
(* strands them); what must not happen is that a stranded scope is USED: every   *)
(* scope an event names must still reach the file scope through live parents.    *)
RECURSIVE ChainOK(_)
ChainOK(s) == s \in Live /\ (sc[s].parent = -1 \/ ChainOK(sc[s].parent))

EvOpen  == IsEvent("open") /\ ChainOK(ev.p) /\ ev.s \notin Live /\ OpenAs(ev.p, ev.s) /\ UNCHANGED <<nsc, nid>>
EvClose == IsEvent("close") /\ ev.s \in Live \ {FileScope} /\ CloseAs(ev.s) /\ UNCHANGED <<nsc, nid>>
EvPut   == IsEvent("put") /\ ChainOK(ev.s) /\ ev.ns \in NameSpaces /\ ev.id # NULL
           /\ PutAs(ev.s, ev.ns, ev.name, ev.id) /\ UNCHANGED <<nsc, nid>>
EvGet   == IsEvent("get") /\ ChainOK(ev.s) /\ ev.ns \in NameSpaces
           /\ ev.id = DeclGet(ev.s, ev.ns, ev.name, ev.rec = 1)
           /\ ev.id = ImplGet(ev.s, ev.ns, ev.name, ev.rec = 1)
           /\ UNCHANGED <<sc, nsc, nid>>

TNext == EvReset \/ EvOpen \/ EvClose \/ EvPut \/ EvGet
TSpec == TInit /\ [][TNext]_tvars

TraceAccepted == TLCGet("stats").diameter = Len(Trace) + 1
=============================================================================
