SPECIFICATION Spec
CONSTANTS
  MaxOpts = 10
  MaxInputs = 6
  Alphabet = "full"
  EmitOpts = 99
  EmitNames = {"a.c", "f.S"}
  EmitInputs = 99
  Devs = {"EmitQbeFile"}
INVARIANTS Inv_Refines Inv_Explained Inv_Emit
CHECK_DEADLOCK FALSE
