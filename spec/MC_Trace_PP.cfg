SPECIFICATION TSpec
CONSTANTS
  AllowHidden = FALSE
POSTCONDITION TraceAccepted
CHECK_DEADLOCK FALSE
