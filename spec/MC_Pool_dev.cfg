\* expected to be REJECTED: the shipped key (length in elements) lets literals with different images share
SPECIFICATION Spec
CONSTANTS
  Widths = {1, 2, 4}
  Elems = {0, 97, 98, 353}
  MaxEls = 2
  Dev_PoolKeyInElements = FALSE
  Dev_PoolKeyIgnoresWidth = FALSE
  MaxUses = 2
INVARIANTS Inv_ShippedServes
CHECK_DEADLOCK FALSE
