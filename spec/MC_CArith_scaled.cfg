\* deviations on = none   (template: harness/props/c04.notes.md)
SPECIFICATION Spec
CONSTANTS
  Real = FALSE
  CharSigned = TRUE
  Families = {"flit", "fround", "bin", "un", "cast", "cond", "unev", "nest", "num", "addr"}
  Level = 1
  Dev_LogicalReturnsOperand = FALSE
  Dev_BoolCastTruncates = FALSE
  Dev_FloatToUnsignedRejectsNeg = FALSE
  Dev_FloatCondNotFolded = FALSE
  Dev_UnevaluatedOperandFolded = FALSE
  Dev_NoDivisionGuard = FALSE
  Dev_CondSameTypeNoPromotion = FALSE
  Dev_BareAddressMinusRejected = FALSE
  Dev_SwapReassocClobbers = FALSE
INVARIANTS Inv_Refines Inv_Count
CHECK_DEADLOCK FALSE
