------------------------------- MODULE Macro -------------------------------
(* Property C12: macro definition and expansion follow C11 6.10.3 on the      *)
(* subset pp.c implements (#define object/function/variadic, '#', #undef).     *)
(*                                                                             *)
(* Part 1  declarative: Ex/Permitted = C11 6.10.3.1-6.10.3.4 on token lists    *)
(*         with per-token hide sets (Prosser), Redefinable = 6.10.3p2.         *)
(* Part 2  PPModel: transcription of /repo/pp.c (ctx stack, macro.hide,        *)
(*         token.hide, macrodepth, expandfunc, peekparen, stringize), one      *)
(*         action per critical section, explicit call stack.  Every place      *)
(*         where pp.c deviates from Part 1 is a named deviation switched by    *)
(*         the constant Devs (set of names).                                   *)
(* Part 3  program spaces for BFS, random generator for -simulate, emission.   *)
EXTENDS Naturals, Integers, Sequences, FiniteSets, TLC, Json, MacroDisc

CONSTANTS Devs,      \* set of enabled deviation names (see DevNames)
          Space,     \* name of the program space ("q1", "redef", "sim", ...)
          Modes,     \* subset of {"E","C"}: -E (PPNEWLINE) / compile path
          EmitCases, \* BOOLEAN: print VCASE lines
          PeekBudget \* how many times the consumer may call peek() with a non-matching kind (token pushed back)

DevNames == {"PendingReuse", "PaintBody", "MacroequalSpace", "StaleNewline",
             "StrTrailingNL", "StrSkipsNested", "ZeroParamNL", "ArgNewlineTok",
             "TrailingComma", "StaleDepth", "ArgUseAfterFree", "KeywordFreesLit", "UndefFreesHeldBody", "TextPaste", "NullDirLeak"}
(* the last three are uses of freed memory: the model continues as if the memory *)
(* were intact and records that the real outcome is unpredictable (WildDevs)   *)
WildDevs == {"ArgUseAfterFree", "KeywordFreesLit", "UndefFreesHeldBody"}
Keywords == {"int", "unsigned", "sizeof", "struct"}
FreedS == "?freed?"
ASSUME Devs \subseteq DevNames

(* deviations the pinned pp.c is known to exhibit (known_findings.d/C12.json); *)
(* a deviation is deleted from this set when the defect is repaired in /repo  *)
KnownDevs == {"StrSkipsNested", "StaleDepth"}
(* repaired in /repo (fix: commits of 2026-10-04; known_findings.d/C12.json has the hashes); the disjuncts are kept,
   switched off, as the record of what the defect was (config sec8_hist exhibits each against Expand):
   PendingReuse PaintBody ArgUseAfterFree UndefFreesHeldBody (next() copies the token), KeywordFreesLit,
   MacroequalSpace, StaleNewline, TrailingComma, StrTrailingNL ZeroParamNL ArgNewlineTok (new-lines in invocations),
   TextPaste (main.c -E loop separates tokens that would paste; config qp_textpaste is its record).
   NullDirLeak was never in the tree: it is the class "a directive's exit path skips the restore of ppflags" (here the early
   return of the null directive taken after PPNEWLINE was set); config qn_leak is the record that such a leak is a
   model-level difference (Inv_Newline fails) *)
NoDevs == {}
Dev(n) == n \in Devs

Max2(a, b) == IF a < b THEN b ELSE a
Last(s) == s[Len(s)]
Front(s) == SubSeq(s, 1, Len(s) - 1)

(* ------------------------------------------------------------------------ *)
(* Source programs.  A program is a sequence of lines                          *)
(*   [k |-> "def", n, fn, ps, b]   #define n[(ps)] b                            *)
(*   [k |-> "undef", n]            #undef n                                     *)
(*   [k |-> "text", b]             a text line                                  *)
(*   [k |-> "nop", n, ps, b]       a directive that leaves the macro table alone: *)
(*                                 '#' followed by the tokens b; b = <<>> is the    *)
(*                                 null directive (6.10.7), else #pragma / #line /  *)
(*                                 a line marker.  ps = <<pre, post>>: the text in  *)
(*                                 front of '#' (white space) and behind the last   *)
(*                                 token (white space, a comment); n = "ext" when   *)
(*                                 the form is an extension (not auditable)         *)
(* Source tokens: [k, s, sp]; k in id num str chr p; sp = preceded by space.   *)
Tk(k, s, sp) == [k |-> k, s |-> s, sp |-> sp]
Line(k, n, fn, ps, b) == [k |-> k, n |-> n, fn |-> fn, ps |-> ps, b |-> b]
NoLine == Line("none", "", FALSE, <<>>, <<>>)
Nop(pre, toks, post) == Line("nop", "", FALSE, <<pre, post>>, toks)
NopExt(pre, toks, post) == Line("nop", "ext", FALSE, <<pre, post>>, toks)
IsP(t, s) == t.k = "p" /\ t.s = s

MacroNamesOf(P) == {P[i].n : i \in {j \in 1..Len(P) : P[j].k \in {"def", "undef"}}}

Variadic(m) == m.fn /\ Len(m.ps) > 0 /\ m.ps[Len(m.ps)] = "__VA_ARGS__"
IsPar(m, s) == m.fn /\ \E i \in 1..Len(m.ps) : m.ps[i] = s
PIdx(m, s) == CHOOSE i \in 1..Len(m.ps) : m.ps[i] = s
(* parameter i occurs not preceded by '#' (it is macro-expanded, 6.10.3.1)   *)
PTok(m, i) == m.fn /\ \E j \in 1..Len(m.b) : m.b[j].k = "id" /\ m.b[j].s = m.ps[i]
                                   /\ ~(j > 1 /\ IsP(m.b[j-1], "#"))
PStr(m, i) == m.fn /\ \E j \in 2..Len(m.b) : m.b[j].k = "id" /\ m.b[j].s = m.ps[i] /\ IsP(m.b[j-1], "#")

(* ------------------------------------------------------------------------ *)
(* Spelling helpers (TLC strings support \o, Len, SubSeq)                      *)
Ch(s, i) == SubSeq(s, i, i)
RECURSIVE EscFrom(_, _)
EscFrom(s, i) == IF i > Len(s) THEN ""
                 ELSE (IF Ch(s, i) = "\"" \/ Ch(s, i) = "\\" THEN "\\" \o Ch(s, i) ELSE Ch(s, i)) \o EscFrom(s, i + 1)
Esc(s) == EscFrom(s, 1)
RECURSIVE NoSpFrom(_, _)
NoSpFrom(s, i) == IF i > Len(s) THEN "" ELSE (IF Ch(s, i) = " " THEN "" ELSE Ch(s, i)) \o NoSpFrom(s, i + 1)
NoSp(s) == NoSpFrom(s, 1)
(* 6.10.3.2p2: spelling of a token inside a stringified argument *)
Spell(t) == IF t.k \in {"str", "chr"} THEN Esc(t.s) ELSE t.s

(* 6.10.3p2: same kind, same parameters, same replacement list; all          *)
(* white-space separations are considered identical (leading one excluded)   *)
Redefinable(l1, l2) ==
  /\ l1.fn = l2.fn /\ l1.ps = l2.ps /\ Len(l1.b) = Len(l2.b)
  /\ \A j \in 1..Len(l1.b) : l1.b[j].k = l2.b[j].k /\ l1.b[j].s = l2.b[j].s /\ (j = 1 \/ l1.b[j].sp = l2.b[j].sp)

(* ======================================================================== *)
(* Part 1: declarative expansion.                                            *)
(* D-tokens: [k, s, sp, u, x, hs, li]                                         *)
(*   hs hide set; u: the white space before this token is not determined by  *)
(*   the standard (conventions differ); x: (string literals made by '#')     *)
(*   spelling exact, else determined only up to white space; li: line index  *)
(*   for k = "dir" items (a directive line riding in the token list).        *)
DT(t, sp) == [k |-> t.k, s |-> t.s, sp |-> sp, u |-> FALSE, x |-> TRUE, hs |-> {}, li |-> 0]
DirItem(i) == [k |-> "dir", s |-> "", sp |-> TRUE, u |-> FALSE, x |-> TRUE, hs |-> {}, li |-> i]

RECURSIVE FlatD(_, _)
FlatD(P, i) ==
  IF i > Len(P) THEN <<>>
  ELSE (IF P[i].k = "text" THEN [j \in 1..Len(P[i].b) |-> DT(P[i].b[j], P[i].b[j].sp \/ j = 1)]
        ELSE <<DirItem(i)>>) \o FlatD(P, i + 1)

Mark(t, pend) == [t EXCEPT !.u = @ \/ (pend /\ ~t.sp)]

(* '#' operator: spelling of the raw argument, leading/trailing white space  *)
(* deleted, inner white space = one space                                     *)
RECURSIVE StrBody(_, _)
StrBody(raw, q) == IF q > Len(raw) THEN ""
                   ELSE (IF q > 1 /\ raw[q].sp THEN " " ELSE "") \o Spell(raw[q]) \o StrBody(raw, q + 1)
StrTok(raw, sp, hsn) ==
  [k |-> "str", s |-> "\"" \o StrBody(raw, 1) \o "\"", sp |-> sp, u |-> FALSE,
   x |-> \A q \in 1..Len(raw) : raw[q].x /\ (q = 1 \/ ~raw[q].u), hs |-> hsn, li |-> 0]

(* collect the arguments of an invocation: ts[1] = "(" *)
RECURSIVE Coll(_, _, _, _, _, _)
Coll(ts, j, d, cur, args, nsplit) ==
  IF j > Len(ts) THEN [st |-> "ub"]
  ELSE LET t == ts[j] IN
    IF t.k = "dir" THEN [st |-> "ub"]
    ELSE IF d = 0 /\ IsP(t, ")") THEN [st |-> "ok", args |-> Append(args, cur), end |-> j, hsr |-> t.hs]
    ELSE IF d = 0 /\ IsP(t, ",") /\ Len(args) < nsplit THEN Coll(ts, j + 1, 0, <<>>, Append(args, cur), nsplit)
    ELSE Coll(ts, j + 1, IF IsP(t, "(") THEN d + 1 ELSE IF IsP(t, ")") THEN d - 1 ELSE d, Append(cur, t), args, nsplit)

ArityOK(m, args) == IF Len(m.ps) = 0 THEN Len(args) = 1 /\ args[1] = <<>> ELSE Len(args) = Len(m.ps)

(* 6.10.3.1 / 6.10.3.2: build the replacement of m.  raw: raw arguments,     *)
(* exp: results of complete macro replacement of the arguments               *)
RECURSIVE Sub(_, _, _, _, _, _, _, _)
Sub(m, j, raw, exp, hsn, name, acc, pend) ==
  IF j > Len(m.b) THEN [ts |-> acc, pend |-> pend]
  ELSE LET t0 == [DT(m.b[j], IF j = 1 THEN name.sp ELSE m.b[j].sp) EXCEPT !.hs = hsn, !.u = (j = 1 /\ name.u)] IN
    IF m.fn /\ IsP(t0, "#") THEN
      LET i == PIdx(m, m.b[j+1].s) IN
      Sub(m, j + 2, raw, exp, hsn, name, Append(acc, Mark([StrTok(raw[i], t0.sp, hsn) EXCEPT !.u = t0.u], pend)), FALSE)
    ELSE IF t0.k = "id" /\ IsPar(m, t0.s) THEN
      LET i == PIdx(m, t0.s)
          a == exp[i].out
      IN IF a = <<>> THEN Sub(m, j + 1, raw, exp, hsn, name, acc, pend \/ t0.sp \/ t0.u \/ exp[i].pend)
         ELSE LET f == [a[1] EXCEPT !.sp = t0.sp, !.u = a[1].u \/ t0.u \/ (a[1].sp # t0.sp) \/ (pend /\ ~t0.sp)]
                  a2 == [q \in 1..Len(a) |-> [(IF q = 1 THEN f ELSE a[q]) EXCEPT !.hs = @ \cup hsn]]
              IN Sub(m, j + 1, raw, exp, hsn, name, acc \o a2, exp[i].pend)
    ELSE Sub(m, j + 1, raw, exp, hsn, name, Append(acc, Mark(t0, pend)), FALSE)

Subst(m, raw, exp, hsn, name) ==
  LET r == Sub(m, 1, raw, exp, hsn, name, <<>>, FALSE)
  IN [ts |-> r.ts, pend |-> IF r.ts = <<>> THEN r.pend \/ name.sp \/ name.u ELSE r.pend]

FirstNonDirIsParen(ts) ==
  LET S == {j \in 1..Len(ts) : ts[j].k # "dir"} IN
  S # {} /\ IsP(ts[CHOOSE j \in S : \A q \in S : j <= q], "(")

Res(st, out, pend, M) == [st |-> st, out |-> out, pend |-> pend, M |-> M]
Worst(sts) == IF "ub" \in sts THEN "ub" ELSE IF "error" \in sts THEN "error" ELSE "ok"

(* Ex(P, ts, M, acc, pend, pol, fuel): macro-replace the list ts under table  *)
(* M.  pol chooses, where 6.10.3.4p4 / DR 268 leaves it unspecified whether   *)
(* a replacement is nested, "min" (not nested) or "max" (nested).             *)
RECURSIVE Ex(_, _, _, _, _, _, _)
Ex(P, ts, M, acc, pend, pol, fuel) ==
  IF fuel = 0 THEN Res("ub", acc, FALSE, M)
  ELSE IF ts = <<>> THEN Res("ok", acc, pend, M)
  ELSE LET h0 == ts[1]
           rest == Tail(ts) IN
    IF h0.k = "dir" THEN
      LET ln == P[h0.li] IN
      IF ln.k = "nop" THEN Ex(P, rest, M, acc, FALSE, pol, fuel - 1)     \* the line is deleted (phase 4), nothing else happens
      ELSE IF ln.k = "undef" THEN Ex(P, rest, [M EXCEPT ![ln.n] = NoLine], acc, FALSE, pol, fuel - 1)
      ELSE IF M[ln.n].k = "def" /\ ~Redefinable(M[ln.n], ln) THEN Res("error", acc, FALSE, M)
      ELSE Ex(P, rest, [M EXCEPT ![ln.n] = ln], acc, FALSE, pol, fuel - 1)
    ELSE LET h == Mark(h0, pend) IN
      IF ~(h.k = "id" /\ h.s \in DOMAIN M /\ M[h.s].k = "def" /\ h.s \notin h.hs)
      THEN Ex(P, rest, M, Append(acc, h), FALSE, pol, fuel - 1)
      ELSE LET m == M[h.s] IN
        IF ~m.fn THEN
          LET r == Subst(m, <<>>, <<>>, h.hs \cup {h.s}, h) IN
          Ex(P, r.ts \o rest, M, acc, r.pend, pol, fuel - 1)
        ELSE IF rest = <<>> \/ rest[1].k = "dir" \/ ~IsP(rest[1], "(") THEN
          IF rest # <<>> /\ rest[1].k = "dir" /\ FirstNonDirIsParen(rest) THEN Res("ub", acc, FALSE, M)
          ELSE Ex(P, rest, M, Append(acc, h), FALSE, pol, fuel - 1)
        ELSE LET c == Coll(rest, 2, 0, <<>>, <<>>, IF Variadic(m) THEN Len(m.ps) - 1 ELSE 1000) IN
          IF c.st # "ok" THEN Res(c.st, acc, FALSE, M)
          ELSE IF ~ArityOK(m, c.args) THEN Res("error", acc, FALSE, M)
          ELSE LET hsn == (IF pol = "min" THEN h.hs \cap c.hsr ELSE h.hs \cup c.hsr) \cup {h.s}
                   exp == [i \in 1..Len(m.ps) |->
                             IF PTok(m, i) THEN Ex(P, c.args[i], M, <<>>, FALSE, pol, fuel - 1)
                             ELSE Res("ok", <<>>, FALSE, M)]
                   w == Worst({exp[i].st : i \in 1..Len(m.ps)})
               IN IF w # "ok" THEN Res(w, acc, FALSE, M)
                  ELSE LET r == Subst(m, c.args, exp, hsn, h) IN
                       Ex(P, r.ts \o SubSeq(rest, c.end + 1, Len(rest)), M, acc, r.pend, pol, fuel - 1)

Fuel == 400
ProjD(out) == [i \in 1..Len(out) |-> [k |-> out[i].k, s |-> out[i].s, x |-> out[i].x]]
DeclOutcome(P, pol) ==
  LET r == Ex(P, FlatD(P, 1), [n \in MacroNamesOf(P) |-> NoLine], <<>>, FALSE, pol, Fuel)
  IN [st |-> r.st, out |-> IF r.st = "ok" THEN ProjD(r.out) ELSE <<>>]
(* the set of permitted outcomes; a program with an "ub" member is outside the property *)
Permitted(P) == {DeclOutcome(P, "min"), DeclOutcome(P, "max")}
Excluded(per) == \E d \in per : d.st = "ub"

SameTok(a, d) == a.k = d.k /\ (IF d.x THEN a.s = d.s ELSE NoSp(a.s) = NoSp(d.s))
Conf(mo, d) == mo.st = d.st /\ (d.st = "ok" => Len(mo.out) = Len(d.out) /\ \A i \in 1..Len(d.out) : SameTok(mo.out[i], d.out[i]))

(* ======================================================================== *)
(* Part 2: PPModel, a transcription of /repo/pp.c.                            *)
(* P-tokens [k, s, sp, h]: k additionally "nl", "eof"; h = token.hide.        *)
VARIABLES prog,    \* the program (fixed once generated)
          mode,    \* "E": cproc-qbe -E (ppflags has PPNEWLINE); "C": compile path
          inp,     \* what scan() delivers: P-tokens of all lines, NEWLINE tokens, final EOF
          inpd,    \* inpd[i] = line index if inp[i] is the '#' starting a directive line, else 0
          mem,     \* the C state: macros, ctx, macrodepth, scanner position, tok, pending, ...
          stack,   \* call stack of next / expand / expandfunc activations
          ret,     \* return value of the last expand() call
          out,     \* tokens delivered to the consumer by next()
          status,  \* "gen" | "gen1" | "run" | "ok" | "error"
          gen,     \* -simulate only: number of program items still to generate
          acts     \* history: names of the actions taken so far (vacuity guard, emitted with each case)
vars == <<prog, mode, inp, inpd, mem, stack, ret, out, status, gen, acts>>

PT(t) == [k |-> t.k, s |-> t.s, sp |-> t.sp, h |-> FALSE]
PTok4(k, s, sp) == [k |-> k, s |-> s, sp |-> sp, h |-> FALSE]
NlTok == PTok4("nl", "", FALSE)
EofTok == PTok4("eof", "", FALSE)
IsPp(t, s) == t.k = "p" /\ t.s = s

(* the tokens scan() sees on a directive line (used only when the line is   *)
(* not recognised as a directive, deviation StaleNewline)                    *)
RECURSIVE ParamToks(_, _)
ParamToks(ps, i) ==
  IF i > Len(ps) THEN <<>>
  ELSE (IF i > 1 THEN <<PTok4("p", ",", FALSE)>> ELSE <<>>)
       \o <<IF ps[i] = "__VA_ARGS__" THEN PTok4("p", "...", FALSE) ELSE PTok4("id", ps[i], FALSE)>>
       \o ParamToks(ps, i + 1)
DirToks(ln) ==
  IF ln.k = "nop" THEN <<PTok4("p", "#", FALSE)>> \o [j \in 1..Len(ln.b) |-> PT(ln.b[j])] \o <<NlTok>>
  ELSE IF ln.k = "undef" THEN <<PTok4("p", "#", FALSE), PTok4("id", "undef", FALSE), PTok4("id", ln.n, TRUE), NlTok>>
  ELSE <<PTok4("p", "#", FALSE), PTok4("id", "define", FALSE), PTok4("id", ln.n, TRUE)>>
       \o (IF ln.fn THEN <<PTok4("p", "(", FALSE)>> \o ParamToks(ln.ps, 1) \o <<PTok4("p", ")", FALSE)>> ELSE <<>>)
       \o [j \in 1..Len(ln.b) |-> PT(ln.b[j])] \o <<NlTok>>
LineToks(ln) == IF ln.k = "text" THEN [j \in 1..Len(ln.b) |-> PT(ln.b[j])] \o <<NlTok>> ELSE DirToks(ln)
RECURSIVE InpOf(_, _)
InpOf(P, i) == IF i > Len(P) THEN <<EofTok>> ELSE LineToks(P[i]) \o InpOf(P, i + 1)
RECURSIVE InpdOf(_, _)
InpdOf(P, i) == IF i > Len(P) THEN <<0>>
                ELSE [j \in 1..Len(LineToks(P[i])) |-> IF j = 1 /\ P[i].k # "text" THEN i ELSE 0] \o InpdOf(P, i + 1)

(* struct macro *)
NoMac == [def |-> FALSE, fn |-> FALSE, ps |-> <<>>, pf |-> <<>>, body |-> <<>>, hide |-> FALSE, args |-> <<>>]
NoArg == [toks |-> <<>>, str |-> NlTok]
MkMac(ln) == [def |-> TRUE, fn |-> ln.fn, ps |-> ln.ps,
              pf |-> [i \in 1..Len(ln.ps) |-> (IF PTok(ln, i) THEN {"TOK"} ELSE {}) \cup (IF PStr(ln, i) THEN {"STR"} ELSE {})
                                              \cup (IF ln.ps[i] = "__VA_ARGS__" THEN {"VAR"} ELSE {})],
              body |-> [j \in 1..Len(ln.b) |-> PT(ln.b[j])], hide |-> FALSE,
              args |-> [i \in 1..Len(ln.ps) |-> NoArg]]
IsParP(mc, s) == mc.fn /\ \E i \in 1..Len(mc.ps) : mc.ps[i] = s
PIdxP(mc, s) == CHOOSE i \in 1..Len(mc.ps) : mc.ps[i] = s

(* macroequal(), with the white-space comparison it lacks as the alternative *)
MacroEqualC(m1, m2) ==
  /\ m1.fn = m2.fn
  /\ (m1.fn => Len(m1.ps) = Len(m2.ps) /\ \A i \in 1..Len(m1.ps) : m1.ps[i] = m2.ps[i] /\ m1.pf[i] = m2.pf[i])
  /\ Len(m1.body) = Len(m2.body)
  /\ \A j \in 1..Len(m1.body) : m1.body[j].k = m2.body[j].k /\ m1.body[j].s = m2.body[j].s
SpaceEqual(m1, m2) == \A j \in 2..Len(m1.body) : m1.body[j].sp = m2.body[j].sp

Frame(r, m, a, i, cnt) == [r |-> r, m |-> m, a |-> a, i |-> i, cnt |-> cnt]
TokRef == [r |-> "tok", m |-> "", a |-> 0, i |-> 0]
(* a held token pointer: ref = where it points, val = the token read there, cp = the holder works on a
   private copy (expandfunc since fix 4ba409c: cur = *t; expand(&cur)) *)
NullT == [ref |-> [r |-> "null", m |-> "", a |-> 0, i |-> 0], val |-> EofTok, cp |-> FALSE]
Fire(m, d) == [m EXCEPT !.fired = @ \cup {d}]

Mem0(names) == [mac |-> [n \in names |-> NoMac], ctx |-> <<>>, md |-> 0, pos |-> 1, nl |-> TRUE, tok |-> EofTok,
                pend |-> <<>>, pushes |-> [n \in names |-> 0], pops |-> [n \in names |-> 0],
                fired |-> {}, err |-> "", maxctx |-> 0, ndir |-> 0, pk |-> EofTok, pkn |-> PeekBudget,
                ppnl |-> FALSE]     \* ppflags & PPNEWLINE: next() hands new-line tokens to its caller (set by main() under -E)

Stor(m, f) == CASE f.r = "body" -> m.mac[f.m].body
                [] f.r = "arg"  -> m.mac[f.m].args[f.a].toks
                [] f.r = "str"  -> <<m.mac[f.m].args[f.a].str>>
                [] f.r = "pend" -> m.pend
                [] f.r = "pk"   -> <<m.pk>>

(* macrodone() *)
MacroDone(m, n) == [m EXCEPT !.mac[n].hide = FALSE, !.md = @ - 1, !.pops[n] = @ + 1]

(* ctxnext(): the loop that drops exhausted frames *)
RECURSIVE PopDone(_)
PopDone(m) ==
  IF m.ctx = <<>> THEN m
  ELSE LET f == Last(m.ctx) IN
    IF f.cnt > 0 THEN m
    ELSE LET m1 == [m EXCEPT !.ctx = Front(@)] IN PopDone(IF f.r = "body" THEN MacroDone(m1, f.m) ELSE m1)

(* framenext() on the top frame *)
TopNext(m) ==
  LET d == Len(m.ctx)
      f == m.ctx[d]
      v == Stor(m, f)[f.i]
      m1 == [m EXCEPT !.ctx[d].i = @ + 1, !.ctx[d].cnt = @ - 1]
  IN [mem |-> IF v.s = FreedS THEN Fire(m1, "KeywordFreesLit") ELSE m1,
      t |-> [ref |-> [r |-> f.r, m |-> f.m, a |-> f.a, i |-> f.i], val |-> v, cp |-> FALSE]]

(* ctxpush(): note t[0].space = space writes into the pushed storage *)
SetSp(m, f, space) ==
  CASE f.r = "body" -> [m EXCEPT !.mac[f.m].body[f.i].sp = space]
    [] f.r = "arg"  -> [m EXCEPT !.mac[f.m].args[f.a].toks[f.i].sp = space]
    [] f.r = "str"  -> [m EXCEPT !.mac[f.m].args[f.a].str.sp = space]
    [] f.r = "pend" -> [m EXCEPT !.pend[f.i].sp = space]
    [] f.r = "pk"   -> [m EXCEPT !.pk.sp = space]
CtxPush(m, f, space) ==
  LET m1 == IF f.cnt > 0 THEN SetSp(m, f, space) ELSE m
  IN [m1 EXCEPT !.ctx = Append(@, f), !.maxctx = Max2(@, Len(m.ctx) + 1)]

(* ctxnext() *)
RECURSIVE CtxNext(_)
CtxNext(m0) ==
  LET m == PopDone(m0) IN
  IF m.ctx = <<>> THEN [mem |-> m, t |-> NullT]
  ELSE LET d == Len(m.ctx)
           f == m.ctx[d] IN
    IF f.r = "body" /\ m.mac[f.m].fn THEN
      LET mc == m.mac[f.m]
          cur == mc.body[f.i] IN
      IF IsPp(cur, "#") THEN
        LET i == PIdxP(mc, mc.body[f.i + 1].s)
            m1 == [m EXCEPT !.ctx[d].i = @ + 2, !.ctx[d].cnt = @ - 2]
        IN TopNext(CtxPush(m1, Frame("str", f.m, i, 1, 1), cur.sp))
      ELSE IF cur.k = "id" /\ IsParP(mc, cur.s) THEN
        LET i == PIdxP(mc, cur.s)
            m1 == [m EXCEPT !.ctx[d].i = @ + 1, !.ctx[d].cnt = @ - 1]
            n == Len(mc.args[i].toks)
        IN IF n = 0 THEN CtxNext(m1) ELSE TopNext(CtxPush(m1, Frame("arg", f.m, i, 1, n), cur.sp))
      ELSE TopNext(m)
    ELSE TopNext(m)

(* define() / undef() on an (already parsed) directive line; leaves tok = NEWLINE *)
(* directive(): the null directive returns at once; every other directive runs with PPNEWLINE set       *)
(* (oldflags = ppflags; ppflags |= PPNEWLINE) and restores the caller's flags on its way out, so the      *)
(* scanner state a directive needs never outlives the directive line                                      *)
DirBody(m, li) ==
  LET ln == prog[li]
      m0 == [m EXCEPT !.pos = @ + Len(DirToks(ln)), !.tok = NlTok, !.ndir = @ + 1] IN
  IF ln.k = "nop" THEN m0
  ELSE IF ln.k = "undef" THEN [m0 EXCEPT !.mac[ln.n] = NoMac]
  ELSE LET new == MkMac(ln)
           old == m.mac[ln.n]
           m1 == IF old.def /\ \E j \in 1..Len(old.body) : old.body[j].s = FreedS
                 THEN Fire(m0, "KeywordFreesLit") ELSE m0      \* macroequal reads the freed lit
       IN
    IF old.def /\ ~MacroEqualC(new, old) THEN [m1 EXCEPT !.err = "redefinition"]
    ELSE IF old.def /\ ~SpaceEqual(new, old) THEN
      IF Dev("MacroequalSpace") THEN Fire([m1 EXCEPT !.mac[ln.n] = new], "MacroequalSpace")
      ELSE [m1 EXCEPT !.err = "redefinition"]
    ELSE [m1 EXCEPT !.mac[ln.n] = new]
ApplyDir(m, li) ==
  IF prog[li].k = "nop" /\ prog[li].b = <<>> THEN
    IF Dev("NullDirLeak") THEN Fire([DirBody(m, li) EXCEPT !.ppnl = TRUE], "NullDirLeak") ELSE DirBody(m, li)
  ELSE [DirBody([m EXCEPT !.ppnl = TRUE], li) EXCEPT !.ppnl = m.ppnl]

(* nextinto(t): tgt = "tok" when t == &tok.  static bool newline is m.nl;    *)
(* pp.c computes it from the global tok even when t points elsewhere.        *)
RECURSIVE NextInto(_, _)
NextInto(m, tgt) ==
  IF m.err # "" THEN [mem |-> m, v |-> EofTok]
  ELSE LET it == inp[m.pos] IN
    IF m.nl /\ inpd[m.pos] > 0 THEN NextInto(ApplyDir(m, inpd[m.pos]), tgt)
    ELSE LET nl2 == IF Dev("StaleNewline") /\ tgt # "tok" THEN m.tok.k = "nl" ELSE it.k = "nl"
             m1 == [m EXCEPT !.pos = IF it.k = "eof" THEN @ ELSE @ + 1, !.nl = nl2,
                             !.tok = IF tgt = "tok" THEN it ELSE @]
         IN [mem |-> IF inpd[m.pos] > 0 THEN Fire(m1, "StaleNewline") ELSE m1, v |-> it]

(* rawnext() *)
RawNext(m) ==
  LET r == CtxNext(m) IN
  IF r.t # NullT THEN r
  ELSE LET q == NextInto(r.mem, "tok") IN [mem |-> q.mem, t |-> [ref |-> TokRef, val |-> q.v, cp |-> FALSE]]

(* peekparen(): pending is a static array that is refilled from index 0 *)
SetAt(s, j, v) == IF j <= Len(s) THEN [s EXCEPT ![j] = v] ELSE Append(s, v)
RECURSIVE Fill(_, _)
Fill(m, j) ==
  LET q == NextInto(m, "pend")
      m1 == [q.mem EXCEPT !.pend = SetAt(@, j, q.v)]
  IN IF q.v.k = "nl" THEN Fill(m1, j + 1) ELSE [mem |-> m1, n |-> j]
PeekParen(m) ==
  LET c == CtxNext(m) IN
  IF c.t # NullT THEN
    IF IsPp(c.t.val, "(") THEN [mem |-> c.mem, r |-> TRUE, v |-> c.t.val, skipped |-> <<>>]
    ELSE LET d == Len(c.mem.ctx) IN
         [mem |-> [c.mem EXCEPT !.ctx[d].i = @ - 1, !.ctx[d].cnt = @ + 1], r |-> FALSE, v |-> c.t.val, skipped |-> <<>>]
  ELSE LET q == Fill(c.mem, 1)
           lastv == q.mem.pend[q.n] IN
    IF IsPp(lastv, "(") THEN [mem |-> q.mem, r |-> TRUE, v |-> lastv, skipped |-> SubSeq(q.mem.pend, 1, q.n - 1)]
    ELSE [mem |-> CtxPush(q.mem, Frame("pend", "", 0, 1, q.n), q.mem.pend[1].sp), r |-> FALSE, v |-> lastv, skipped |-> <<>>]

(* *t for a held pointer t.  pp.c keeps pointers into the pending array      *)
(* across a refill (PendingReuse); the alternative is value semantics.       *)
Deref(m, t) == IF Dev("PendingReuse") /\ t.ref.r = "pend" /\ ~t.cp THEN m.pend[t.ref.i] ELSE t.val

(* t->hide = true.  The write goes to wherever t points; into a macro's own  *)
(* replacement list it persists across expansions (PaintBody).               *)
Paint(m, t) ==
  LET t2 == [t EXCEPT !.val.h = TRUE]
      rf == IF t.cp THEN NullT.ref ELSE t.ref     \* a private copy is painted, not the storage
      m2 == CASE rf.r = "body" -> IF Dev("PaintBody") THEN [m EXCEPT !.mac[rf.m].body[rf.i].h = TRUE] ELSE m
              [] rf.r = "arg"  -> [m EXCEPT !.mac[rf.m].args[rf.a].toks[rf.i].h = TRUE]
              [] rf.r = "pend" -> [m EXCEPT !.pend[rf.i].h = TRUE]
              [] rf.r = "tok"  -> [m EXCEPT !.tok.h = TRUE]
              [] rf.r = "pk"   -> [m EXCEPT !.pk.h = TRUE]
              [] OTHER -> m
  IN [mem |-> m2, t |-> t2]

(* macrodone() has freed m->arg while a caller of expand() still holds a      *)
(* pointer into it (the frame was dropped by peekparen's ctxnext)              *)
UseAfterFree(m, t) ==
  IF t.cp THEN m
  ELSE IF Dev("ArgUseAfterFree") /\ t.ref.r = "arg" /\ ~m.mac[t.ref.m].hide THEN Fire(m, "ArgUseAfterFree")
  ELSE IF Dev("UndefFreesHeldBody") /\ t.ref.r = "body" /\ ~m.mac[t.ref.m].def THEN Fire(m, "UndefFreesHeldBody")  \* undef() freed m->token
  ELSE m
(* next(): tok = *t; keyword(&tok) frees tok.lit, which the stored token shares *)
KeywordFree(m, t, v) ==
  IF Dev("KeywordFreesLit") /\ v.k = "id" /\ v.s \in Keywords THEN
    CASE t.ref.r = "body" /\ m.mac[t.ref.m].def -> [m EXCEPT !.mac[t.ref.m].body[t.ref.i].s = FreedS]
      [] t.ref.r = "arg" /\ m.mac[t.ref.m].hide -> [m EXCEPT !.mac[t.ref.m].args[t.ref.a].toks[t.ref.i].s = FreedS]
      [] OTHER -> m
  ELSE m

(* stringize() *)
Stringize(str, v) ==
  LET s1 == IF (v.sp \/ v.k = "nl") /\ Len(str) > 1 /\ Ch(str, Len(str)) # " " THEN str \o " " ELSE str
  IN IF v.k = "nl" THEN s1 ELSE IF v.k \in {"str", "chr"} THEN s1 \o Esc(v.s) ELSE s1 \o v.s

(* ---------------- activation records ---------------- *)
Act(f, pc) == [f |-> f, pc |-> pc, t |-> NullT, m |-> "", sp |-> FALSE, i |-> 0, depth |-> 0, paren |-> 0,
               str |-> "", toks |-> <<>>, nt |-> <<>>, strs |-> <<>>, nlp |-> FALSE]
Top == stack[Len(stack)]
SetTop(a) == [stack EXCEPT ![Len(stack)] = a]
Running == status = "run"

(* alternative to StrSkipsNested / StaleDepth: tokens read on behalf of a    *)
(* nested invocation are also raw argument tokens of every enclosing        *)
(* expandfunc whose parameter is stringified.  stk: activations below top.   *)
EnclSee(stk, v, md, upto) ==
  [q \in 1..Len(stk) |->
     IF q <= upto /\ stk[q].f = "efunc" /\ stk[q].pc \in {"aft"} /\ md <= stk[q].depth THEN
        LET mc == mem.mac[stk[q].m] IN
        [stk[q] EXCEPT !.depth = IF Dev("StaleDepth") THEN @ ELSE md,
                       !.str = IF ~Dev("StrSkipsNested") /\ "STR" \in mc.pf[stk[q].i] THEN Stringize(@, v) ELSE @]
     ELSE stk[q]]
(* record that the deviating code path differs from the alternative here *)
SeeFire(m, stk, md) ==
  LET E == {q \in 1..Len(stk) : stk[q].f = "efunc" /\ stk[q].pc = "aft" /\ md <= stk[q].depth}
      m1 == IF Dev("StrSkipsNested") /\ \E q \in E : "STR" \in m.mac[stk[q].m].pf[stk[q].i] THEN Fire(m, "StrSkipsNested") ELSE m
  IN IF Dev("StaleDepth") /\ \E q \in E : md < stk[q].depth THEN Fire(m1, "StaleDepth") ELSE m1
RECURSIVE EnclSeeAll(_, _, _, _, _)
EnclSeeAll(stk, vs, j, md, upto) == IF j > Len(vs) THEN stk ELSE EnclSeeAll(EnclSee(stk, vs[j], md, upto), vs, j + 1, md, upto)

Fail(m) == /\ mem' = m /\ status' = (IF m.err = "directive inside macro arguments" THEN "ub" ELSE "error") /\ UNCHANGED <<prog, mode, inp, inpd, stack, ret, out, gen>>
Static == UNCHANGED <<prog, mode, inp, inpd, gen>>

(* next(): do t = rawnext(); while (expand(t) || newline skipped) *)
NextFetch ==
  /\ Running /\ Top.f = "next" /\ Top.pc = "fetch"
  /\ LET r == RawNext(mem) IN
     IF r.mem.err # "" THEN Fail(r.mem)
     ELSE /\ mem' = r.mem
          /\ stack' = Append(SetTop([Top EXCEPT !.pc = "after", !.t = r.t]), [Act("expand", "lookup") EXCEPT !.t = r.t])
          /\ UNCHANGED <<ret, out, status>> /\ Static

NextAfter ==
  /\ Running /\ Top.f = "next" /\ Top.pc = "after"
  /\ LET v == Deref(mem, Top.t)
         m0 == UseAfterFree(IF v # Top.t.val THEN Fire(mem, "PendingReuse") ELSE mem, Top.t)
         m1 == KeywordFree(m0, Top.t, v) IN
     IF ret THEN
        /\ stack' = SetTop([Top EXCEPT !.pc = "fetch"]) /\ mem' = mem /\ UNCHANGED <<ret, out, status>> /\ Static
     ELSE IF v.k = "nl" /\ ~mem.ppnl THEN
        /\ stack' = SetTop([Top EXCEPT !.pc = "fetch"]) /\ mem' = m0 /\ UNCHANGED <<ret, out, status>> /\ Static
     ELSE /\ mem' = [m1 EXCEPT !.tok = v]
          /\ out' = IF v.k = "eof" THEN out ELSE Append(out, v)
          /\ status' = IF v.k = "eof" THEN "ok" ELSE status
          /\ stack' = SetTop([Top EXCEPT !.pc = "fetch"])
          /\ UNCHANGED ret /\ Static

(* peek(kind) when the next token is not of that kind: static struct token     *)
(* pending = tok; tok = old; ctxpush(&pending, 1, NULL, pending.space).  The     *)
(* consumer has then not received the token: it is taken back from out.          *)
PeekPushBack ==
  /\ Running /\ Top.f = "next" /\ Top.pc = "fetch" /\ mem.pkn > 0 /\ out # <<>> /\ mode = "C"
  /\ \A q \in 1..Len(mem.ctx) : mem.ctx[q].r # "pk"     \* peek() starts with next(), which re-reads the previous push-back
  /\ LET v == Last(out)
         m1 == [mem EXCEPT !.pk = v, !.pkn = @ - 1, !.tok = IF Len(out) > 1 THEN out[Len(out) - 1] ELSE EofTok]
     IN mem' = CtxPush(m1, Frame("pk", "", 0, 1, 1), v.sp)
  /\ out' = Front(out)
  /\ UNCHANGED <<stack, ret, status>> /\ Static

(* return b from expand(): pop, hand the (possibly painted) token back *)
ExpandReturn(m, b, t) ==
  /\ mem' = m /\ ret' = b
  /\ stack' = LET s1 == Front(stack) IN [s1 EXCEPT ![Len(s1)].t = t]
  /\ UNCHANGED <<out, status>> /\ Static

ExpandLookup ==
  /\ Running /\ Top.f = "expand" /\ Top.pc = "lookup"
  /\ LET t == Top.t
         v == t.val IN
     IF v.k # "id" THEN ExpandReturn(mem, FALSE, t)
     ELSE LET mc == IF v.s \in DOMAIN mem.mac THEN mem.mac[v.s] ELSE NoMac
              hidden == ~mc.def \/ mc.hide
              p == IF hidden THEN Paint(mem, t) ELSE [mem |-> mem, t |-> t]
              pm == IF ~hidden /\ v.h /\ t.ref.r = "body" THEN Fire(p.mem, "PaintBody") ELSE p.mem
          IN IF p.t.val.h THEN ExpandReturn(pm, FALSE, p.t)
             ELSE /\ stack' = SetTop([Top EXCEPT !.pc = IF mc.fn THEN "peek" ELSE "push", !.m = v.s, !.sp = v.sp])
                  /\ mem' = pm /\ UNCHANGED <<ret, out, status>> /\ Static

ExpandPeek ==
  /\ Running /\ Top.f = "expand" /\ Top.pc = "peek"
  /\ LET r == PeekParen(mem) IN
     IF r.mem.err # "" THEN Fail(r.mem)
     ELSE IF r.mem.ndir # mem.ndir /\ \E q \in 1..Len(stack) : stack[q].f = "efunc"
          THEN Fail([r.mem EXCEPT !.err = "directive inside macro arguments"])
     ELSE IF ~r.r THEN ExpandReturn(r.mem, FALSE, Top.t)
     ELSE /\ mem' = SeeFire(r.mem, Front(stack), r.mem.md)
          /\ stack' = LET below == EnclSeeAll(Front(stack), Append(r.skipped, r.v), 1, r.mem.md, Len(stack) - 1) IN
                      Append(Append(below, [Top EXCEPT !.pc = "push"]), [Act("efunc", "start") EXCEPT !.m = Top.m])
          /\ UNCHANGED <<ret, out, status>> /\ Static

ExpandPush ==
  /\ Running /\ Top.f = "expand" /\ Top.pc = "push"
  /\ LET n == Top.m
         m1 == CtxPush(mem, Frame("body", n, 0, 1, Len(mem.mac[n].body)), Top.sp)
         m2 == [m1 EXCEPT !.mac[n].hide = TRUE, !.md = @ + 1, !.pushes[n] = @ + 1]
     IN ExpandReturn(m2, TRUE, Top.t)

(* expandfunc() *)
InitParam(a, mc, i) == [a EXCEPT !.i = i, !.str = IF "STR" \in mc.pf[i] THEN "\"" ELSE @,
                                 !.nt = [q \in 1..i |-> IF q = i THEN 0 ELSE @[q]]]

(* rawnext() inside an expandfunc that is itself nested in other expandfuncs *)
FuncReadB(m, below) ==
  LET r == RawNext(m) IN
  IF r.mem.ndir # m.ndir   \* a directive inside the arguments of an invocation: undefined (6.10.3p11), outside the model
  THEN [mem |-> [r.mem EXCEPT !.err = "directive inside macro arguments"], t |-> r.t, below |-> below]
  ELSE [mem |-> SeeFire(r.mem, below, r.mem.md), t |-> r.t, below |-> EnclSee(below, r.t.val, r.mem.md, Len(below))]
FuncRead(m) == FuncReadB(m, Front(stack))
RECURSIVE SkipNl(_)
SkipNl(r) == IF r.t.val.k = "nl" THEN SkipNl(FuncReadB(r.mem, r.below)) ELSE r

FuncStart ==
  /\ Running /\ Top.f = "efunc" /\ Top.pc = "start"
  /\ LET mc == mem.mac[Top.m]
         r0 == FuncRead(mem)
         r == IF Len(mc.ps) = 0 /\ ~Dev("ZeroParamNL") THEN SkipNl(r0) ELSE r0
         m1 == IF r.t # r0.t THEN r.mem ELSE IF Len(mc.ps) = 0 /\ r0.t.val.k = "nl" THEN Fire(r.mem, "ZeroParamNL") ELSE r.mem
         a0 == [Top EXCEPT !.depth = mem.md, !.paren = 0, !.t = r.t]
     IN IF m1.err # "" THEN Fail(m1)
        ELSE /\ mem' = m1
             /\ stack' = Append(r.below, IF Len(mc.ps) = 0 THEN [a0 EXCEPT !.pc = "finish", !.i = 0]
                                          ELSE [InitParam(a0, mc, 1) EXCEPT !.pc = "tok"])
             /\ UNCHANGED <<ret, out, status>> /\ Static

FuncTok ==
  /\ Running /\ Top.f = "efunc" /\ Top.pc = "tok"
  /\ LET mc == mem.mac[Top.m]
         pf == mc.pf[Top.i]
         t == IF Top.nlp THEN [Top.t EXCEPT !.val.sp = TRUE] ELSE Top.t
         v == t.val
         cnt == mem.md <= Top.depth
         depth2 == IF cnt THEN mem.md ELSE Top.depth
         term == cnt /\ Top.paren = 0 /\ (IsPp(v, ")") \/ (IsPp(v, ",") /\ "VAR" \notin pf))
         a1 == [Top EXCEPT !.depth = depth2, !.t = t, !.nlp = FALSE]
     IN IF v.k = "eof" THEN Fail([mem EXCEPT !.err = "EOF in macro arguments"])
        ELSE IF term THEN /\ stack' = SetTop([a1 EXCEPT !.pc = "endarg"]) /\ UNCHANGED <<mem, ret, out, status>> /\ Static
        ELSE LET a2 == [a1 EXCEPT !.paren = IF cnt /\ IsPp(v, "(") THEN @ + 1 ELSE IF cnt /\ IsPp(v, ")") THEN @ - 1 ELSE @,
                                  !.str = IF cnt /\ "STR" \in pf THEN Stringize(@, v) ELSE @]
             IN IF "TOK" \in pf /\ ~(v.k = "nl" /\ ~Dev("ArgNewlineTok")) THEN
                   /\ stack' = Append(SetTop([a2 EXCEPT !.pc = "aft"]), [Act("expand", "lookup") EXCEPT !.t = [t EXCEPT !.cp = TRUE]])
                   /\ UNCHANGED <<mem, ret, out, status>> /\ Static
                ELSE LET r == FuncRead(mem) IN
                   IF r.mem.err # "" THEN Fail(r.mem)
                   ELSE /\ mem' = r.mem
                        /\ stack' = Append(r.below, [a2 EXCEPT !.t = r.t, !.nlp = ("TOK" \in pf /\ v.k = "nl")])
                        /\ UNCHANGED <<ret, out, status>> /\ Static

FuncAft ==
  /\ Running /\ Top.f = "efunc" /\ Top.pc = "aft"
  /\ LET v == Deref(mem, Top.t)
         m0 == IF ~ret /\ v # Top.t.val THEN Fire(mem, "PendingReuse") ELSE mem
         m00 == IF ~ret THEN UseAfterFree(m0, Top.t) ELSE m0
         m1 == IF ~ret /\ v.k = "nl" THEN Fire(m00, "ArgNewlineTok") ELSE m00
         a1 == IF ret THEN Top ELSE [Top EXCEPT !.toks = Append(@, v), !.nt[Top.i] = @ + 1]
         r == FuncRead(m1)
     IN IF r.mem.err # "" THEN Fail(r.mem)
        ELSE /\ mem' = r.mem
             /\ stack' = Append(r.below, [a1 EXCEPT !.t = r.t, !.pc = "tok"])
             /\ UNCHANGED <<ret, out, status>> /\ Static

StripTrail(s) == IF Len(s) > 1 /\ Ch(s, Len(s)) = " " THEN SubSeq(s, 1, Len(s) - 1) ELSE s
FuncEndArg ==
  /\ Running /\ Top.f = "efunc" /\ Top.pc = "endarg"
  /\ LET mc == mem.mac[Top.m]
         i == Top.i
         s0 == IF Dev("StrTrailingNL") THEN Top.str ELSE StripTrail(Top.str)
         m0 == IF Dev("StrTrailingNL") /\ "STR" \in mc.pf[i] /\ StripTrail(Top.str) # Top.str THEN Fire(mem, "StrTrailingNL") ELSE mem
         a1 == [Top EXCEPT !.strs = [q \in 1..i |-> IF q = i THEN (IF "STR" \in mc.pf[i] THEN PTok4("str", s0 \o "\"", FALSE) ELSE NlTok)
                                                    ELSE IF q <= Len(@) THEN @[q] ELSE NlTok]]
     IN IF IsPp(Top.t.val, ")") THEN
           /\ stack' = SetTop([a1 EXCEPT !.pc = "finish"]) /\ mem' = m0 /\ UNCHANGED <<ret, out, status>> /\ Static
        ELSE LET r == FuncRead(m0) IN
           IF r.mem.err # "" THEN Fail(r.mem)
           ELSE /\ mem' = r.mem
                /\ stack' = Append(r.below, IF i + 1 <= Len(mc.ps) THEN [InitParam([a1 EXCEPT !.t = r.t], mc, i + 1) EXCEPT !.pc = "tok"]
                                            ELSE [a1 EXCEPT !.t = r.t, !.i = i + 1, !.pc = "finish"])
                /\ UNCHANGED <<ret, out, status>> /\ Static

RECURSIVE SumTo(_, _)
SumTo(nt, i) == IF i = 0 THEN 0 ELSE nt[i] + SumTo(nt, i - 1)
FuncFinish ==
  /\ Running /\ Top.f = "efunc" /\ Top.pc = "finish"
  /\ LET mc == mem.mac[Top.m]
         np == Len(mc.ps)
         a == Top IN
     IF a.i < np THEN Fail([mem EXCEPT !.err = "not enough arguments"])
     ELSE IF ~IsPp(a.t.val, ")") THEN Fail([mem EXCEPT !.err = "too many arguments"])
     ELSE IF a.i = np + 1 /\ np > 0 /\ ~Dev("TrailingComma") THEN Fail([mem EXCEPT !.err = "too many arguments"])
     ELSE /\ mem' = LET m1 == [mem EXCEPT !.mac[a.m].args =
                                 [q \in 1..np |-> [toks |-> SubSeq(a.toks, SumTo(a.nt, q - 1) + 1, SumTo(a.nt, q)),
                                                   str |-> a.strs[q]]]]
                    IN IF a.i = np + 1 /\ np > 0 THEN Fire(m1, "TrailingComma") ELSE m1
          /\ stack' = Front(stack)
          /\ UNCHANGED <<ret, out, status>> /\ Static

A(name, act) == act /\ acts' = acts \cup {name}
Step == \/ A("NextFetch", NextFetch) \/ A("NextAfter", NextAfter) \/ A("PeekPushBack", PeekPushBack)
        \/ A("ExpandLookup", ExpandLookup) \/ A("ExpandPeek", ExpandPeek) \/ A("ExpandPush", ExpandPush)
        \/ A("FuncStart", FuncStart) \/ A("FuncTok", FuncTok) \/ A("FuncAft", FuncAft)
        \/ A("FuncEndArg", FuncEndArg) \/ A("FuncFinish", FuncFinish)

(* ======================================================================== *)
(* Part 3: program spaces, initial states, invariants, emission.              *)
Digits == {"0", "1", "2", "3", "4", "5", "6", "7", "8", "9"}
Letters == {"A", "B", "C", "D", "E", "F", "G", "H", "I", "J", "K", "L", "M", "N", "O", "P", "Q", "R", "S", "T", "U",
            "V", "W", "X", "Y", "Z", "a", "b", "c", "d", "e", "f", "g", "h", "i", "j", "k", "l", "m", "n", "o", "p",
            "q", "r", "s", "t", "u", "v", "w", "x", "y", "z", "_"}
KindOf(s) == LET c == Ch(s, 1) IN
  IF c \in Digits THEN "num" ELSE IF c = "\"" THEN "str" ELSE IF c = "'" THEN "chr" ELSE IF c \in Letters THEN "id" ELSE "p"
(* a symbol of a space's alphabet stands for one or two tokens:               *)
(*   "#x" = '#' followed by x;  "~s" = s not preceded by white space;  else s  *)
SymToks(sym) ==
  IF Len(sym) > 1 /\ Ch(sym, 1) = "#" THEN <<Tk("p", "#", TRUE), Tk("id", SubSeq(sym, 2, Len(sym)), FALSE)>>
  ELSE IF Len(sym) > 1 /\ Ch(sym, 1) = "~" THEN LET s == SubSeq(sym, 2, Len(sym)) IN <<Tk(KindOf(s), s, FALSE)>>
  ELSE <<Tk(KindOf(sym), sym, TRUE)>>
RECURSIVE ToksRaw(_, _)
ToksRaw(syms, i) == IF i > Len(syms) THEN <<>> ELSE SymToks(syms[i]) \o ToksRaw(syms, i + 1)
(* two tokens may be written without white space between them only if that   *)
(* cannot change the lexing: one of them is a separator punctuator            *)
Seps == {"(", ")", ",", "[", "]", ";"}
CanAbut(a, b) == (a.k = "p" /\ a.s \in Seps) \/ (b.k = "p" /\ b.s \in Seps)
NormSp(ts) == [j \in 1..Len(ts) |-> IF j > 1 /\ ~ts[j].sp /\ ~CanAbut(ts[j-1], ts[j]) THEN [ts[j] EXCEPT !.sp = TRUE] ELSE ts[j]]
ToksOf(syms, i) == NormSp(ToksRaw(syms, i))
(* first body token of a definition is separated from the name / ')' *)
Body(syms) == LET b == ToksOf(syms, 1) IN IF b = <<>> THEN b ELSE [b EXCEPT ![1].sp = TRUE]
(* text: the pseudo symbol "NL" ends a line *)
RECURSIVE TextLines(_, _, _)
TextLines(syms, i, cur) ==
  IF i > Len(syms) THEN <<Line("text", "", FALSE, <<>>, ToksOf(cur, 1))>>
  ELSE IF syms[i] = "NL" THEN <<Line("text", "", FALSE, <<>>, ToksOf(cur, 1))>> \o TextLines(syms, i + 1, <<>>)
  ELSE TextLines(syms, i + 1, Append(cur, syms[i]))

(* ------------------------------------------------------------------------ *)
(* The text `cproc-qbe -E` prints (main.c) and its re-scanning.  Macro        *)
(* replacement makes tokens adjacent that were not adjacent in the source;    *)
(* the text must separate every pair that would be scanned differently when   *)
(* pasted (C11 5.1.1.2 phase 3, 6.4p4 maximal munch), else compiling the      *)
(* printed text is not compiling the unit.                                    *)
PunctSet == {"[", "]", "(", ")", "{", "}", ".", "->", "++", "--", "&", "*", "+", "-", "~", "!", "/", "%", "<<", ">>", "<", ">",
             "<=", ">=", "==", "!=", "^", "|", "&&", "||", "?", ":", "::", ";", "...", "=", "*=", "/=", "%=", "+=", "-=",
             "<<=", ">>=", "&=", "^=", "|=", ",", "#", "##"}
Quotes == {"\"", "'"}
Prefixes == {"L", "u", "U", "u8"}
IsIdCh(c) == c \in Letters \cup Digits
RECURSIVE IdEnd(_, _), NumEnd(_, _), QuoteEnd(_, _, _), LexS(_, _, _)
IdEnd(s, i) == IF i <= Len(s) /\ IsIdCh(Ch(s, i)) THEN IdEnd(s, i + 1) ELSE i
NumEnd(s, i) ==      \* pp-number: digits, letters, '_', '.', and a sign after e E p P
  IF i > Len(s) THEN i
  ELSE LET c == Ch(s, i) IN
    IF IsIdCh(c) \/ c = "." \/ (c \in {"+", "-"} /\ Ch(s, i - 1) \in {"e", "E", "p", "P"}) THEN NumEnd(s, i + 1) ELSE i
QuoteEnd(s, i, q) == IF i > Len(s) THEN i ELSE IF Ch(s, i) = "\\" THEN QuoteEnd(s, i + 2, q) ELSE IF Ch(s, i) = q THEN i + 1 ELSE QuoteEnd(s, i + 1, q)
(* the spellings of the preprocessing tokens of the text s (white space = blank) *)
LexS(s, i, acc) ==
  IF i > Len(s) THEN acc
  ELSE LET c == Ch(s, i)
           Tok(e) == LexS(s, e, Append(acc, SubSeq(s, i, e - 1))) IN
    IF c = " " THEN LexS(s, i + 1, acc)
    ELSE IF c \in Quotes THEN Tok(QuoteEnd(s, i + 1, c))
    ELSE IF c \in Digits \/ (c = "." /\ i < Len(s) /\ Ch(s, i + 1) \in Digits) THEN Tok(NumEnd(s, i + 1))
    ELSE IF c \in Letters THEN
      LET e == IdEnd(s, i) IN
      IF SubSeq(s, i, e - 1) \in Prefixes /\ e <= Len(s) /\ Ch(s, e) \in Quotes THEN Tok(QuoteEnd(s, e + 1, Ch(s, e))) ELSE Tok(e)
    ELSE IF i < Len(s) /\ SubSeq(s, i, i + 1) \in {"//", "/*"} THEN Append(acc, "<comment>")
    ELSE IF i + 2 <= Len(s) /\ SubSeq(s, i, i + 2) \in PunctSet THEN Tok(i + 3)
    ELSE IF i + 1 <= Len(s) /\ SubSeq(s, i, i + 1) \in PunctSet THEN Tok(i + 2)
    ELSE Tok(i + 1)
Lex(s) == LexS(s, 1, <<>>)

(* declarative: b written directly after a must be separated *)
MustSep(a, b) == Lex(a.s \o b.s) # <<a.s, b.s>> \/ (a.s = "." /\ Ch(b.s, 1) = ".")      \* ". . ." must not become "..."
(* pairs that form a digraph (6.4.6p3); pp.c's scanner has none, a conforming reader of the text has *)
Digraph(a, b) == a.k = "p" /\ (a.s \o Ch(b.s, 1)) \in {"<:", "<%", "%>", ":>", "%:"}
(* main.c pastes(): the rule the -E loop uses to force a blank (transcription) *)
JoinSet == {"->", "++", "--", "<<", ">>", "<=", ">=", "==", "!=", "&&", "||", "::", "*=", "/=", "%=", "+=", "-=", "<<=", ">>=",
            "&=", "^=", "|=", "##", "//", "/*", "<:", "<%", "%>", ":>", "%:"}
PasteC(a, b) ==
  LET c == Ch(b.s, 1)
      last == Ch(a.s, Len(a.s)) IN
  CASE a.k \in {"str", "chr"} -> FALSE
    [] a.k = "num" -> IsIdCh(c) \/ c = "." \/ (c \in {"+", "-"} /\ last \in {"e", "E", "p", "P"})
    [] a.k = "id"  -> IF c \in Quotes THEN a.s \in Prefixes ELSE IsIdCh(c)
    [] OTHER       -> (a.s = "." /\ (c = "." \/ c \in Digits)) \/ (a.s \o c) \in JoinSet
(* the rule is exactly the requirement on representatives of every token class *)
PasteReps == {Tk("id", "q", FALSE), Tk("id", "L", FALSE), Tk("id", "u8", FALSE), Tk("num", "1", FALSE), Tk("num", "1e", FALSE),
              Tk("num", "0x1p", FALSE), Tk("str", "\"s\"", FALSE), Tk("chr", "'c'", FALSE)}
             \cup {Tk("p", x, FALSE) : x \in PunctSet \ {"(", ")", ","}}
ASSUME \A a \in PasteReps, b \in PasteReps : PasteC(a, b) <=> (MustSep(a, b) \/ Digraph(a, b))

NoPrev == Tk("none", "", FALSE)
RECURSIVE TextFrom(_, _, _, _)
TextFrom(o, i, prev, acc) ==
  IF i > Len(o) THEN acc
  ELSE IF o[i].k = "nl" THEN TextFrom(o, i + 1, NoPrev, acc \o " ")
  ELSE LET sep == o[i].sp \/ (prev.k # "none" /\ ~Dev("TextPaste") /\ PasteC(prev, o[i]))   \* TextPaste: blank only where the source had one
       IN TextFrom(o, i + 1, o[i], acc \o (IF sep THEN " " ELSE "") \o o[i].s)
TextOf(o) == TextFrom(o, 1, NoPrev, "")
SpellingsOf(o) == LET idx == SelectSeq([i \in 1..Len(o) |-> i], LAMBDA i : o[i].k # "nl") IN [j \in 1..Len(idx) |-> o[idx[j]].s]

SeqsUpTo(S, n) == UNION {[1..k -> S] : k \in 0..n}
Def(n, fn, ps, syms) == Line("def", n, fn, ps, Body(SelectSeq(syms, LAMBDA y : y # "NL")))
Undef(n) == Line("undef", n, FALSE, <<>>, <<>>)
Text(syms) == TextLines(syms, 1, <<>>)

(* all definitions of name n: object-like over oalpha, or function-like with  *)
(* each parameter list in pss over falpha; bodies of at most bmax symbols     *)
DefsOf(n, oalpha, falpha, pss, bmax) ==
  {Def(n, FALSE, <<>>, b) : b \in SeqsUpTo(oalpha, bmax)}
  \cup UNION {{Def(n, TRUE, ps, b) : b \in SeqsUpTo(falpha, bmax)} : ps \in pss}

(* directives that leave the macro table alone, in every spelling the scanner distinguishes *)
NopNull == {Nop("", <<>>, ""), Nop("", <<>>, " "), Nop("  ", <<>>, ""), Nop("", <<>>, " /* c */"), Nop("", <<>>, " // c"), Nop("/* c */ ", <<>>, "")}
NopOther == {Nop("", <<Tk("id", "pragma", FALSE), Tk("id", "q", TRUE)>>, ""), Nop("", <<Tk("id", "pragma", FALSE)>>, ""),
             Nop(" ", <<Tk("id", "pragma", TRUE), Tk("id", "q", TRUE), Tk("p", "(", FALSE), Tk("num", "1", FALSE), Tk("p", ")", FALSE)>>, " /* c */"),
             Nop("", <<Tk("id", "line", FALSE), Tk("num", "7", TRUE)>>, ""),
             Nop("", <<Tk("id", "line", TRUE), Tk("num", "7", TRUE), Tk("str", "\"f.c\"", TRUE)>>, " // c"),
             NopExt("", <<Tk("num", "9", TRUE), Tk("str", "\"g.c\"", TRUE)>>, ""),
             NopExt("", <<Tk("num", "9", TRUE), Tk("str", "\"g.c\"", TRUE), Tk("num", "1", TRUE)>>, "")}
NopAll == NopNull \cup NopOther
NopQuick == {Nop("", <<>>, ""), Nop("", <<Tk("id", "pragma", FALSE), Tk("id", "q", TRUE)>>, ""),
             Nop("", <<Tk("id", "line", TRUE), Tk("num", "7", TRUE), Tk("str", "\"f.c\"", TRUE)>>, " // c")}
NopMid == NopQuick \cup {Nop("  ", <<>>, ""), Nop("", <<>>, " /* c */"), NopExt("", <<Tk("num", "9", TRUE), Tk("str", "\"g.c\"", TRUE)>>, "")}
NopSeq == <<Nop("", <<>>, ""), Nop("  ", <<>>, " /* c */"), Nop("", <<Tk("id", "pragma", FALSE), Tk("id", "q", TRUE)>>, ""),
            Nop("", <<Tk("id", "line", FALSE), Tk("num", "7", TRUE)>>, "")>>
(* a unit that is well formed in both modes: object- and function-like macros, an invocation that spans two   *)
(* lines, a function-like name that ends a line without being invoked, #undef / re-#define in the middle.      *)
(* One or two such directives are inserted at every line boundary (a boundary inside the invocation makes the  *)
(* program undefined by 6.10.3p11: generated, not judged).                                                     *)
NopUnit ==
  <<Def("ADD", TRUE, <<"a", "b">>, <<"(", "(", "a", ")", "+", "(", "b", ")", ")">>),
    Def("K", FALSE, <<>>, <<"3">>)>>
  \o Text(<<"int", "ADD", ";", "NL", "int", "f", "~(", "int", "v", "~)", "{", "NL",
            "int", "r", "=", "ADD", "~(", "v", "~,", "NL", "K", "~)", "~;", "NL", "r", "=", "r", "+", "ADD", "NL", ";">>)
  \o <<Undef("K"), Def("K", FALSE, <<>>, <<"5">>)>>
  \o Text(<<"return", "ADD", "~(", "r", "~,", "K", "~)", "~;", "}">>)
InsAt(P, p, d) == SubSeq(P, 1, p) \o <<d>> \o SubSeq(P, p + 1, Len(P))
NopProgs(pairset, singleset) ==
  LET U == NopUnit
      n == Len(U) IN
  {InsAt(U, p, d) : p \in 0..n, d \in singleset}
  \cup UNION {{InsAt(InsAt(U, p2, d2), p1, d1) : p1 \in 0..p2, d1 \in pairset, d2 \in pairset} : p2 \in 0..n}   \* d1 before d2, also adjacent

ProgSpace ==
  CASE Space = "t0" ->   \* smoke test
       {<<a, b>> \o Text(<<"A">> \o s) :
          a \in DefsOf("A", {"B", "1"}, {"B", "x", "#x"}, {<<"x">>}, 2),
          b \in DefsOf("B", {"A", "("}, {"A", "x"}, {<<"x">>}, 1),
          s \in SeqsUpTo({"(", ")", "A", "1"}, 2)}
    [] Space = "q1" ->   \* two macros, mutual/self reference, parens in bodies (DR 268 situations)
       {<<a, b>> \o Text(<<h>> \o s) :
          a \in DefsOf("A", {"A", "B", "(", "1"}, {"A", "B", "x", "(", ")"}, {<<"x">>}, 2),
          b \in DefsOf("B", {"A", "B", "(", "1"}, {"A", "B", "x", "(", ")"}, {<<"x">>}, 1),
          h \in {"A", "B"},
          s \in SeqsUpTo({"(", ")", "A", "B", "1"}, 2)}
    [] Space = "q1s" ->  \* quick variant of q1
       {<<a, b>> \o Text(<<"A">> \o s) :
          a \in DefsOf("A", {"B", "(", "1"}, {"A", "B", "x", "(", ")"}, {<<"x">>}, 2),
          b \in DefsOf("B", {"A", "B", "("}, {"A", "x"}, {<<"x">>}, 1),
          s \in SeqsUpTo({"(", ")", "B", "1"}, 2)}
    [] Space = "q2s" ->  \* quick variant of q2
       {<<Def("A", TRUE, <<"x">>, <<"x">>), b>> \o Text(s1) \o d \o Text(s2) :
          b \in {Def("B", FALSE, <<>>, <<"A">>), Def("B", TRUE, <<>>, <<"1">>)},
          s1 \in {s \in SeqsUpTo({"A", "B", "(", "NL"}, 3) : Len(s) > 0 /\ s[1] \in {"A", "B"}},
          d \in {<<>>, <<Def("C", FALSE, <<>>, <<"2">>)>>, <<Undef("B")>>},
          s2 \in SeqsUpTo({"A", "C", "(", "1"}, 2)}
    [] Space = "q3s" ->  \* quick variant of q3
       {<<Def("S", TRUE, <<"x">>, a), Def("F", TRUE, <<"y">>, b), Def("E", FALSE, <<>>, <<>>)>> \o Text(<<"S", "~(">> \o s \o <<"~)">>) :
          a \in {<<"#x">>, <<"#x", "x">>},
          b \in {<<"y">>, <<"S", "~(", "y", "~1", "~)">>},
          s \in SeqsUpTo({"F", "~(", "~)", "q", "~q", "\"a\\n\"", "'\"'", "E", "NL"}, 3)}
    [] Space = "q1x" ->  \* thorough variant of q1
       {<<a, b>> \o Text(<<h>> \o s) :
          a \in DefsOf("A", {"A", "B", "(", ")", "1"}, {"A", "B", "x", "(", ")", "#x"}, {<<"x">>}, 2),
          b \in DefsOf("B", {"A", "B", "(", "1"}, {"A", "B", "x", "(", ")"}, {<<"x">>}, 2),
          h \in {"A", "B"},
          s \in SeqsUpTo({"(", ")", "A", "B", "1", ","}, 2)}
    [] Space = "q2" ->   \* source lines: function-like names at line ends, empty lines, a directive in between
       {<<Def("A", TRUE, <<"x">>, a), b>> \o Text(s1) \o d \o Text(s2) :
          a \in {<<"x">>, <<"B", "x">>},
          b \in {Def("B", FALSE, <<>>, <<"A">>), Def("B", FALSE, <<>>, <<"1">>), Def("B", TRUE, <<>>, <<"1">>)},
          s1 \in {s \in SeqsUpTo({"A", "B", "(", "NL"}, 3) : Len(s) > 0 /\ s[1] \in {"A", "B"}},
          d \in {<<>>, <<Def("C", FALSE, <<>>, <<"2">>)>>, <<Undef("B")>>},
          s2 \in SeqsUpTo({"A", "C", "(", "1", "NL"}, 2)}
    [] Space = "q3" ->   \* stringification: spacing, escapes, nested invocations, newlines in arguments
       {<<Def("S", TRUE, <<"x">>, a), Def("F", TRUE, <<"y">>, b), Def("E", FALSE, <<>>, <<>>)>> \o Text(<<"S", "~(">> \o s \o <<"~)">>) :
          a \in {<<"#x">>, <<"#x", "x">>, <<"x", "#x">>},
          b \in {<<"y">>, <<"S", "~(", "~y", "~)">>, <<"S", "~(", "y", "~1", "~)">>},
          s \in SeqsUpTo({"F", "~(", "~)", "q", "~q", "\"a\\n\"", "'\"'", "E", "NL", "~,"}, 3)}
    [] Space = "q4" ->   \* variadic, several parameters, argument counts
       UNION {{<<Def("V", TRUE, ps, a), Def("G", TRUE, <<"p", "q">>, <<"q", "p">>)>> \o Text(<<"V", "~(">> \o s) :
                 a \in {b \in {<<"__VA_ARGS__">>, <<"#__VA_ARGS__">>, <<"x", "__VA_ARGS__">>, <<"#x", "y">>, <<"y", "x">>, <<"1">>} :
                          \A j \in 1..Len(b) : LET nm == IF Ch(b[j], 1) = "#" THEN SubSeq(b[j], 2, Len(b[j])) ELSE b[j]
                                               IN nm \in {"1"} \/ \E q \in 1..Len(ps) : ps[q] = nm},
                 s \in SeqsUpTo({"~)", "~,", "1", "~(", "G"}, 4)} :
              ps \in {<<"__VA_ARGS__">>, <<"x", "__VA_ARGS__">>, <<>>, <<"x", "y">>}}
    [] Space = "q4s" ->  \* quick variant of q4
       UNION {{<<Def("V", TRUE, ps, a), Def("G", TRUE, <<"p", "q">>, <<"q", "p">>)>> \o Text(<<"V", "~(">> \o s) :
                 a \in {b \in {<<"#__VA_ARGS__", "__VA_ARGS__">>, <<"x", "__VA_ARGS__">>, <<"#x", "y">>, <<"1">>} :
                          \A j \in 1..Len(b) : LET nm == IF Ch(b[j], 1) = "#" THEN SubSeq(b[j], 2, Len(b[j])) ELSE b[j]
                                               IN nm \in {"1"} \/ \E q \in 1..Len(ps) : ps[q] = nm},
                 s \in SeqsUpTo({"~)", "~,", "1", "~(", "G", "NL"}, 3)} :
              ps \in {<<"__VA_ARGS__">>, <<"x", "__VA_ARGS__">>, <<>>, <<"x", "y">>}}
    [] Space = "q5s" ->  \* an invocation opened inside a replacement list and completed behind it (macrodepth gets shallower
                         \* during argument collection), arguments that expand to parentheses and commas
       {<<Def("Q", FALSE, <<>>, q), Def("B", FALSE, <<>>, b), Def("g", TRUE, ps, IF Len(ps) = 1 THEN <<"[", "a", "]">> ELSE <<"[", "a", "b", "]">>)>>
          \o Text(<<"Q">> \o s) :
          q \in {<<"g", "(">>, <<"g", "(", "B">>, <<"g", "(", "2", ",">>},
          b \in SeqsUpTo({"1", ")", ","}, 2),
          ps \in {<<"a">>, <<"a", "b">>},
          s \in SeqsUpTo({"B", "2", ")", ","}, 3)}
    [] Space = "sec8" ->  \* the failing inputs of DESIGN.md section 8 and of the defects found by this check, verbatim
       { <<Def("C", TRUE, <<"a">>, <<"a">>)>> \o Text(<<"C", "C", "1">>),
         <<Def("H", FALSE, <<>>, <<"A", "B">>), Def("B", FALSE, <<>>, <<"Z", "H">>)>> \o Text(<<"B", "NL", "H">>),
         <<Line("def", "A", FALSE, <<>>, <<Tk("num", "1", TRUE), Tk("p", "+", TRUE), Tk("num", "2", TRUE)>>),
           Line("def", "A", FALSE, <<>>, <<Tk("num", "1", TRUE), Tk("p", "+", FALSE), Tk("num", "2", FALSE)>>)>> \o Text(<<"A">>),
         <<Def("A", FALSE, <<>>, <<"x">>)>> \o Text(<<"A">>) \o <<Def("x", FALSE, <<>>, <<"1">>)>> \o Text(<<"A">>),
         <<Def("F", TRUE, <<"x">>, <<"x">>)>> \o Text(<<"F">>) \o <<Def("G", FALSE, <<>>, <<"1">>)>> \o Text(<<"G">>),
         <<Def("S", TRUE, <<"x">>, <<"#x">>)>> \o Text(<<"S", "~(", "~a", "NL", "~)">>),
         <<Def("h", TRUE, <<"a", "b">>, <<"a", "+", "b">>), Def("g", TRUE, <<"x">>, <<"#x", "x">>)>>
            \o Text(<<"g", "~(", "~h", "~(", "~1", "~,", "~2", "~)", "~)">>),
         <<Def("F", TRUE, <<>>, <<"1">>)>> \o Text(<<"F", "~(", "NL", "~)">>),
         <<Def("G", TRUE, <<"x">>, <<"[", "x", "]">>), Def("H", TRUE, <<"z">>, <<"G", "z">>)>> \o Text(<<"H", "~(", "NL", "~(", "~1", "~)", "~)">>),
         <<Def("F", TRUE, <<"a">>, <<"a">>)>> \o Text(<<"F", "~(", "~1", "~,", "~)">>),
         <<Def("F", TRUE, <<"y">>, <<"y">>), Def("ID", TRUE, <<"x">>, <<"x">>)>> \o Text(<<"ID", "~(", "~F", "~)", "1">>),
         <<Def("T", FALSE, <<>>, <<"int">>)>> \o Text(<<"T", "a", ";", "T", "b", ";">>),
         <<Def("A", TRUE, <<"x">>, <<"x">>), Def("B", FALSE, <<>>, <<"A">>)>> \o Text(<<"B">>) \o <<Undef("B")>>,
         <<Def("G", TRUE, <<"x">>, <<"x", ")">>), Def("Q", FALSE, <<>>, <<"g", "~(", "G">>), Def("g", TRUE, <<"a">>, <<"[", "a", "]">>)>>
            \o Text(<<"Q", "(", "~1", "~)", "2", ")">>),
         <<Line("def", "NEG", FALSE, <<>>, <<Tk("p", "-", TRUE), Tk("id", "x", FALSE)>>)>>
            \o <<Line("text", "", FALSE, <<>>, <<Tk("id", "r", FALSE), Tk("p", "-", TRUE), Tk("id", "NEG", FALSE), Tk("p", ";", FALSE)>>)>> }
    [] Space = "qp" ->   \* every pair of token classes made adjacent by replacement: argument edge, body edge, empty expansion
                         \* between, stringified neighbour (for the text round trip of -E)
       LET R == {"q", "L", "u8", "1", "1e", "\"s\"", "'c'", ".", "+", "-", "<", ">", "=", "/", "*", ":", "#", "%", "&", "<<", "..."}
           Base == <<Def("F", TRUE, <<"a">>, <<"a">>), Def("E", TRUE, <<>>, <<>>), Def("S", TRUE, <<"a">>, <<"#a">>)>>
           Sy(x) == "~" \o x
       IN {Base \o Text(<<"r", "F", "~(", Sy(x), "~)", "~F", "~(", Sy(y), "~)">>) : x \in R, y \in R}
          \cup {Base \o <<Def("O", TRUE, <<>>, <<x>>)>> \o Text(<<"r", "O", "~(", "~)", "~F", "~(", Sy(y), "~)">>) : x \in R \ {"#"}, y \in R}
          \cup {Base \o Text(<<"r", "F", "~(", Sy(x), "~)", "~E", "~(", "~)", "~F", "~(", Sy(y), "~)">>) : x \in R, y \in R}
          \cup {Base \o Text(<<"r", "F", "~(", Sy(x), "~)", "~S", "~(", "~q", "~)">>) : x \in R}
    [] Space = "qh" ->   \* '#' is an ordinary token in the replacement list of an OBJECT-like macro (6.10.3.2p1 constrains
                         \* function-like macros only): alone, before an identifier, before a name that is a parameter of
                         \* another macro, at the end; expanded directly, inside invocations, via pre-expanded and then
                         \* stringified arguments.  Every line starts with r so that no '#' is first on an output line.
       {<<Def("H", FALSE, <<>>, h), Def("STR", TRUE, <<"x">>, <<"#x">>), Def("XSTR", TRUE, <<"x">>, <<"STR", "~(", "~x", "~)">>),
          Def("F", TRUE, <<"x">>, <<"x">>), Def("G", TRUE, <<"x">>, <<"#x", "H", "x">>)>> \o Text(<<"r">> \o u) :
          h \in {<<"#">>, <<"#", "x">>, <<"#", "q">>, <<"q", "#">>, <<"#", "#">>, <<"#", "H">>, <<"#", "STR">>},
          u \in {<<"H">>, <<"H", "H">>, <<"XSTR", "~(", "~H", "~)">>, <<"STR", "~(", "~H", "~)">>, <<"F", "~(", "~H", "~)">>,
                  <<"F", "~(", "~XSTR", "~(", "~H", "~)", "~)">>, <<"G", "~(", "~H", "~)">>, <<"F", "~(", "~H", "~)", "~H">>,
                  <<"XSTR", "~(", "~F", "~(", "~H", "~)", "~)", "NL", "r", "H", "~(", "~1", "~)">>}}
    [] Space = "qn" -> NopProgs(NopQuick, NopAll)
    [] Space = "qnx" -> NopProgs(NopMid, NopAll)
    [] Space = "redef2" -> \* define -> USE -> redefine: ctxpush overwrites the space flag of the first replacement token with the
                           \* spacing of the invocation, and white space in front of the replacement list is not part of it
                           \* (6.10.3p2/p7): the first token never takes part in the comparison; interior white space does
       LET T(k, sp, str) == Tk(k, str, sp)
           ObjDefs == {Def("A", FALSE, <<>>, <<"(", "1", ")">>), Def("A", FALSE, <<>>, <<"(", "~1", ")">>), Def("A", FALSE, <<>>, <<"(", "2", ")">>)}
           FnBody(sp1, sp2) == <<Tk("p", "(", sp1), Tk("id", "x", sp2), Tk("p", ")", TRUE)>>
           FnDefs == {Line("def", "A", TRUE, <<"x">>, FnBody(TRUE, TRUE)), Line("def", "A", TRUE, <<"x">>, FnBody(FALSE, TRUE)),
                      Line("def", "A", TRUE, <<"x">>, FnBody(TRUE, FALSE)), Line("def", "A", TRUE, <<"y">>, <<Tk("p", "(", TRUE), Tk("id", "y", TRUE), Tk("p", ")", TRUE)>>)}
           Arg(fn) == IF fn THEN <<Tk("p", "(", FALSE), Tk("num", "5", FALSE), Tk("p", ")", FALSE)>> ELSE <<>>
           Uses(fn) == {<<>>,
                        <<<<Tk("id", "A", FALSE)>> \o Arg(fn)>>,                                      \* name in column 0
                        <<<<Tk("id", "q", FALSE), Tk("id", "A", TRUE)>> \o Arg(fn)>>,                  \* after a blank
                        <<<<Tk("id", "q", FALSE), Tk("p", "[", FALSE), Tk("id", "A", FALSE)>> \o Arg(fn) \o <<Tk("p", "]", FALSE)>>>>,
                        <<<<Tk("id", "q", FALSE), Tk("p", "=", TRUE), Tk("id", "A", FALSE)>> \o Arg(fn) \o <<Tk("p", ";", FALSE)>>>>,
                        <<<<Tk("p", "(", FALSE), Tk("id", "A", FALSE)>> \o Arg(fn) \o <<Tk("p", ")", FALSE)>>,
                          <<Tk("id", "r", FALSE), Tk("id", "A", TRUE)>> \o Arg(fn)>>}                  \* two uses, the last after a blank
           Hist(defs, fn) == {<<d1>> \o [i \in 1..Len(u) |-> Line("text", "", FALSE, <<>>, u[i])] \o <<d2>>
                                \o <<Line("text", "", FALSE, <<>>, <<Tk("id", "A", TRUE)>> \o Arg(fn))>> :
                              d1 \in defs, u \in Uses(fn), d2 \in defs}
       IN Hist(ObjDefs, FALSE) \cup Hist(FnDefs, TRUE)
    [] Space = "redef" -> \* #define / #undef histories of one name, then a use
       LET cand == {Def("A", FALSE, <<>>, <<"(", "1", ")">>), Def("A", FALSE, <<>>, <<"(", "~1", "~)">>),
                    Def("A", FALSE, <<>>, <<"(", "2", ")">>), Def("A", FALSE, <<>>, <<"(", "1">>),
                    Def("A", TRUE, <<"x">>, <<"(", "x", ")">>), Def("A", TRUE, <<"y">>, <<"(", "y", ")">>),
                    Def("A", TRUE, <<"x">>, <<"(", "~x", ")">>), Def("A", TRUE, <<>>, <<"(", "1", ")">>),
                    Def("A", TRUE, <<"x">>, <<"(", "#x", ")">>), Def("A", TRUE, <<"x", "y">>, <<"(", "x", ")">>),
                    Undef("A")}
       IN {h \o Text(u) : h \in UNION {[1..k -> cand] : k \in 1..3}, u \in {<<"A">>, <<"A", "~(", "~5", "~)">>}}

InitOf(P, md) ==
  /\ prog = P /\ mode = md /\ inp = InpOf(P, 1) /\ inpd = InpdOf(P, 1) /\ gen = 0
  /\ mem = [Mem0(MacroNamesOf(P)) EXCEPT !.ppnl = (md = "E")] /\ stack = <<Act("next", "fetch")>> /\ ret = FALSE /\ out = <<>> /\ status = "run"
  /\ acts = {}

(* ------------------------------------------------------------------------ *)
(* Random programs for -simulate (Space = "sim").  TLC re-evaluates a LET     *)
(* body at every use, so every random draw is passed as an operator argument  *)
(* (evaluated once).  R(n) draws from 1..n.                                    *)
R(n) == RandomElement(1..n)
PickFrom(seq, r) == seq[(r % Len(seq)) + 1]
NamePool == <<"A", "B", "C", "D", "E", "F", "G", "H", "J", "K", "M", "N">>
ParPool == <<"x", "y", "z", "w">>
PlainSyms == <<"q", "r", "1", "23", "+", "-", "*", "[", "]", "<<", "=", "~q", "~1", "\"s\"", "\"a\\n\"", "\"q\\\"r\"",
               "'c'", "'\\''", "'\"'", "~\"s\"", ";">>
CNums == <<"1", "2", "3", "7", "10">>
COps == <<"+", "-", "*", "|", "+", "<<">>
NamesOfN(n) == SubSeq(NamePool, 1, n)
(* the definition of name n in force after the lines of P (NoLine if none)   *)
CurDef(P, n) ==
  LET S == {i \in 1..Len(P) : P[i].k \in {"def", "undef"} /\ P[i].n = n} IN
  IF S = {} THEN NoLine
  ELSE LET i == CHOOSE i \in S : \A q \in S : q <= i IN IF P[i].k = "def" THEN P[i] ELSE NoLine
ParamsOf(np, var) == SubSeq(ParPool, 1, np) \o (IF var THEN <<"__VA_ARGS__">> ELSE <<>>)

(* --- mode "E": free token sequences --- *)
GenBodySym(names, ps, r, r2) ==
  IF r <= 30 THEN PickFrom(names, r2)
  ELSE IF r <= 60 /\ ps # <<>> THEN PickFrom(ps, r2)
  ELSE IF r <= 72 /\ ps # <<>> THEN "#" \o PickFrom(ps, r2)
  ELSE IF r <= 76 THEN "("
  ELSE IF r <= 80 THEN ")"
  ELSE IF r <= 83 THEN ","
  ELSE IF r <= 86 /\ ps # <<>> THEN "~" \o PickFrom(ps, r2)
  ELSE PickFrom(PlainSyms, r2)
RECURSIVE GenBody(_, _, _, _)
GenBody(names, ps, k, acc) == IF k = 0 THEN acc ELSE GenBody(names, ps, k - 1, Append(acc, GenBodySym(names, ps, R(100), R(1000))))
GenDefE(names, n, rk, np, rv, blen) ==
  IF rk <= 40 THEN Def(n, FALSE, <<>>, GenBody(names, <<>>, blen, <<>>))
  ELSE LET ps == ParamsOf(np, rv <= 25) IN Def(n, TRUE, ps, GenBody(names, ps, blen, <<>>))

RECURSIVE GenAtoms(_, _, _, _, _), GenArgs(_, _, _, _, _, _)
GenInv(P, names, d, name, r, r2, r3) ==
  LET df == CurDef(P, name)
      n0 == IF df.k = "def" /\ df.fn THEN Len(df.ps) ELSE (r2 % 3)
      extra == IF df.k = "def" /\ Variadic(df) THEN r2 % 3 ELSE 0
      n == IF r <= 8 THEN n0 + 1 ELSE IF r <= 14 /\ n0 > 0 THEN n0 - 1 ELSE n0 + extra
  IN <<name>> \o (IF r3 <= 10 THEN <<"NL">> ELSE <<>>) \o <<IF r3 % 2 = 0 THEN "~(" ELSE "(">>
     \o GenArgs(P, names, d, n, 1, <<>>) \o <<IF r3 % 3 = 0 THEN "~)" ELSE ")">>
GenAtom(P, names, d, r, r2) ==
  IF r <= 35 THEN <<PickFrom(PlainSyms, r2)>>
  ELSE IF r <= 60 \/ d = 0 THEN <<(IF r2 % 4 = 0 THEN "~" ELSE "") \o PickFrom(names, r2)>>   \* "~": no blank before the name
  ELSE IF r <= 65 THEN <<"NL">>
  ELSE IF r <= 68 THEN <<"(", PickFrom(PlainSyms, r2), ")">>
  ELSE GenInv(P, names, d - 1, PickFrom(names, r2), R(100), R(1000), R(100))
GenAtoms(P, names, d, k, acc) == IF k = 0 THEN acc ELSE GenAtoms(P, names, d, k - 1, acc \o GenAtom(P, names, d, R(100), R(1000)))
GenArgs(P, names, d, n, i, acc) ==
  IF i > n THEN acc
  ELSE GenArgs(P, names, d, n, i + 1, acc \o (IF i > 1 THEN <<"~,">> ELSE <<>>) \o GenAtoms(P, names, d, R(4) - 1, <<>>))
GenTextItem(P, names, r, r2) ==
  IF r <= 40 THEN GenInv(P, names, 2, PickFrom(names, r2), R(100), R(1000), R(100))
  ELSE IF r <= 62 THEN <<PickFrom(names, r2)>>
  ELSE IF r <= 85 THEN <<PickFrom(PlainSyms, r2)>>
  ELSE IF r <= 90 THEN <<"NL">>
  ELSE <<PickFrom(<<"(", ")", ",", "~(">>, r2)>>
RECURSIVE GenTextSyms(_, _, _, _)
GenTextSyms(P, names, k, acc) == IF k = 0 THEN acc ELSE GenTextSyms(P, names, k - 1, acc \o GenTextItem(P, names, R(100), R(1000)))

(* a redefinition of an existing definition: identical, or changed in white   *)
(* space / spelling / parameter name                                          *)
Variant(df, r) ==
  LET S == {j \in 2..Len(df.b) : CanAbut(df.b[j-1], df.b[j])} IN
  IF r <= 35 \/ Len(df.b) < 2 THEN df
  ELSE IF r <= 70 THEN (IF S = {} THEN df ELSE LET j == CHOOSE j \in S : \A q \in S : j <= q IN [df EXCEPT !.b[j].sp = ~@])
  ELSE IF r <= 85 THEN [df EXCEPT !.b[Len(df.b)].s = "9", !.b[Len(df.b)].k = "num", !.b[Len(df.b)].sp = TRUE]
  ELSE [df EXCEPT !.b = Front(@)]

(* --- mode "C": integer constant expressions, lines  int chkN = <expr> ;  --- *)
RECURSIVE CExpr(_, _, _, _, _), COperand(_, _, _, _, _, _), CArgs(_, _, _, _, _, _, _)
CExpr(P, names, ps, d, k) ==
  IF k = 0 THEN COperand(P, names, ps, d, R(100), R(1000))
  ELSE CExpr(P, names, ps, d, k - 1) \o <<PickFrom(COps, R(1000))>> \o COperand(P, names, ps, d, R(100), R(1000))
IsStrDef(df) == df.k = "def" /\ df.fn /\ Len(df.b) = 2 /\ IsP(df.b[1], "#")
IsKwDef(df) == df.k = "def" /\ ~df.fn /\ Len(df.b) = 1 /\ df.b[1].s = "int"
CInv(P, names, ps, d, name) ==
  LET df == CurDef(P, name) IN
  IF IsStrDef(df) \/ IsKwDef(df) THEN <<"5">>      \* not an integer operand by itself
  ELSE IF df.k = "def" /\ df.fn THEN <<name, "~(">> \o CArgs(P, names, ps, d, Len(df.ps), 1, <<>>) \o <<"~)">>
  ELSE <<name>>
(* a macro name without parentheses (a function-like one stays; the enum line declares it); nl: ends the line *)
CBare(P, name, nl) ==
  LET df == CurDef(P, name) IN
  IF IsStrDef(df) \/ IsKwDef(df) THEN <<"6">> ELSE IF nl THEN <<name, "NL">> ELSE <<name>>
COperand(P, names, ps, d, r, r2) ==
  IF r <= 25 \/ d = 0 THEN <<PickFrom(CNums, r2)>>
  ELSE IF r <= 45 /\ ps # <<>> THEN <<PickFrom(ps, r2)>>
  ELSE IF r <= 55 THEN <<"(">> \o CExpr(P, names, ps, d - 1, R(2)) \o <<"~)">>
  ELSE IF r <= 63 THEN CBare(P, PickFrom(names, r2), ps = <<>> /\ r > 60)
  ELSE CInv(P, names, ps, d - 1, PickFrom(names, r2))
CArgs(P, names, ps, d, n, i, acc) ==
  IF i > n THEN acc
  ELSE CArgs(P, names, ps, d, n, i + 1, acc \o (IF i > 1 THEN <<"~,">> ELSE <<>>) \o CExpr(P, names, ps, d, R(2) - 1))
GenDefC(P, names, n, rk, np, rv) ==
  IF rk <= 30 THEN Def(n, FALSE, <<>>, CExpr(P, names, <<>>, 2, R(3) - 1))
  ELSE IF rk <= 38 THEN Def(n, FALSE, <<>>, <<"int">>)                       \* a keyword in a replacement list
  ELSE IF rk <= 48 THEN Def(n, TRUE, <<"x">>, <<"#x">>)                      \* used as  sizeof N(...)
  ELSE LET ps == ParamsOf(np, rv <= 20) IN Def(n, TRUE, ps, CExpr(P, names, ps, 2, R(3) - 1))
(* operand usable in a text line *)
CTextOperand(P, names, name, r) ==
  LET df == CurDef(P, name) IN
  IF IsStrDef(df) THEN <<"sizeof", name, "~(">> \o CExpr(P, names, <<>>, 1, R(3) - 1) \o <<"~)">>
  ELSE IF IsKwDef(df) THEN <<"(", name, "~)", PickFrom(CNums, r)>>
  ELSE CInv(P, names, <<>>, 2, name)
RECURSIVE CTextExpr(_, _, _)
CTextExpr(P, names, k) ==
  IF k = 0 THEN CTextOperand(P, names, PickFrom(names, R(1000)), R(1000))
  ELSE CTextExpr(P, names, k - 1) \o <<PickFrom(COps, R(1000))>> \o CTextOperand(P, names, PickFrom(names, R(1000)), R(1000))
RECURSIVE EnumSyms(_, _)
EnumSyms(names, i) == IF i > Len(names) THEN <<>>
                      ELSE (IF i > 1 THEN <<"~,">> ELSE <<>>) \o <<names[i], "=", PickFrom(<<"101", "102", "103", "104", "105", "106", "107", "108", "109", "110", "111", "112">>, i)>> \o EnumSyms(names, i + 1)
CLine(P, names, id) == <<"int", "chk" \o ToString(id), "=">> \o CTextExpr(P, names, R(3) - 1) \o <<";">>

RECURSIVE GenDefs(_, _, _, _)
GenDefs(md, names, i, acc) ==
  IF i > Len(names) THEN acc
  ELSE GenDefs(md, names, i + 1,
               Append(acc, IF md = "E" THEN GenDefE(names, names[i], R(100), R(5) - 1, R(100), R(7) - 1)
                           ELSE GenDefC(acc, names, names[i], R(100), R(3), R(100))))
NamesIn(P) == LET S == MacroNamesOf(P) IN SelectSeq(NamePool, LAMBDA n : n \in S)
GenItem(md, P, names, r, r2, id) ==
  IF r <= 62 THEN (IF md = "E" THEN Text(GenTextSyms(P, names, R(4), <<>>)) ELSE Text(CLine(P, names, id)))
  ELSE IF r <= 72 THEN <<Undef(PickFrom(names, r2))>>
  ELSE IF r <= 88 THEN <<IF md = "E" THEN GenDefE(names, PickFrom(names, r2), R(100), R(5) - 1, R(100), R(7) - 1)
                         ELSE GenDefC(P, names, PickFrom(names, r2), R(100), R(3), R(100))>>
  ELSE IF r <= 93 THEN <<PickFrom(NopSeq, r2)>>
  ELSE LET df == CurDef(P, PickFrom(names, r2)) IN IF df.k = "def" THEN <<Variant(df, R(100))>> ELSE <<>>

GenStart(md, n, k) ==
  /\ mode' = md /\ gen' = k /\ status' = "gen1"
  /\ prog' = (IF md = "C" THEN Text(<<"enum", "{">> \o EnumSyms(NamesOfN(n), 1) \o <<"}", ";">>) ELSE <<>>)
             \o GenDefs(md, NamesOfN(n), 1, <<>>)
  /\ UNCHANGED <<inp, inpd, mem, stack, ret, out>>
GenStep ==
  \/ /\ status = "gen" /\ GenStart(RandomElement(Modes), R(12), R(7) + 1)
  \/ /\ status = "gen1" /\ gen > 0
     /\ prog' = prog \o GenItem(mode, prog, NamesIn(prog), R(100), R(1000), gen)
     /\ gen' = gen - 1 /\ UNCHANGED <<mode, inp, inpd, mem, stack, ret, out, status>>
  \/ /\ status = "gen1" /\ gen = 0
     /\ inp' = InpOf(prog, 1) /\ inpd' = InpdOf(prog, 1) /\ mem' = [Mem0(MacroNamesOf(prog)) EXCEPT !.ppnl = (mode = "E")]
     /\ stack' = <<Act("next", "fetch")>> /\ status' = "run" /\ UNCHANGED <<prog, mode, ret, out, gen>>

Init == IF Space = "sim"
        THEN /\ prog = <<>> /\ mode = "E" /\ inp = <<>> /\ inpd = <<>> /\ mem = Mem0({}) /\ stack = <<>>
             /\ ret = FALSE /\ out = <<>> /\ status = "gen" /\ gen = 0 /\ acts = {}
        ELSE \E P \in ProgSpace : \E md \in Modes : InitOf(P, md)
Next == Step \/ (GenStep /\ UNCHANGED acts)
Spec == Init /\ [][Next]_vars

(* ---------------- invariants ---------------- *)
BodyFrames(c) == Cardinality({i \in 1..Len(c) : c[i].r = "body"})
Inv_Ctx ==
  status = "run" =>
    /\ mem.md = BodyFrames(mem.ctx)
    \* a macro is pushed only while not hidden and un-hidden exactly when its frame is dropped
    \* (StaleDepth lets an invocation end inside a live nested expansion of the same macro: the discipline breaks)
    /\ "StaleDepth" \notin mem.fired =>
         /\ Len(mem.ctx) <= 2 * Cardinality(DOMAIN mem.mac) + 1
         /\ \A n \in DOMAIN mem.mac : mem.pushes[n] - mem.pops[n] = (IF mem.mac[n].def /\ mem.mac[n].hide THEN 1 ELSE 0)
    /\ Len(stack) <= Len(inp) + 4   \* recursion of expand/expandfunc follows the nesting of invocations in the source
Inv_End ==
  status = "ok" =>
    LET m == PopDone(mem) IN
    /\ m.md = 0 /\ Len(stack) = 1 /\ ("PendingReuse" \notin mem.fired => m.ctx = <<>>)
    /\ \A n \in DOMAIN m.mac : m.pushes[n] = m.pops[n] /\ ("StaleDepth" \notin mem.fired => ~m.mac[n].hide)

(* the hide discipline (MacroDisc.tla, also the monitor of real executions in   *)
(* Trace_PP.tla): frames are dropped from the top, a macro is pushed only while  *)
(* not live, directives are executed only while no replacement list is live      *)
BodyStack(c) ==
  LET idx == SelectSeq([i \in 1..Len(c) |-> i], LAMBDA i : c[i].r = "body")
  IN [j \in 1..Len(idx) |-> c[idx[j]].m]
Prop_Disc ==
  [][/\ DiscStep(BodyStack(mem.ctx), BodyStack(mem'.ctx), "StaleDepth" \in mem'.fired)
     /\ (mem'.ndir # mem.ndir /\ mem.ndir # 0 => mem'.md = 0)]_vars

ModelOutcome ==
  LET idx == SelectSeq([i \in 1..Len(out) |-> i], LAMBDA i : out[i].k # "nl" \/ mode = "C")   \* a new-line that reaches the parser is a token
  IN [st |-> status, out |-> IF status = "ok" THEN [j \in 1..Len(idx) |-> [k |-> out[idx[j]].k, s |-> out[idx[j]].s]] ELSE <<>>]

RECURSIVE SetToSeq(_)
SetToSeq(S) == IF S = {} THEN <<>> ELSE LET e == CHOOSE e \in S : TRUE IN <<e>> \o SetToSeq(S \ {e})

(* compile mode: next() never hands a new-line token to the parser (ppflags has PPNEWLINE only inside a directive) *)
Inv_Newline == mode = "C" => (~mem.ppnl \/ status # "run") /\ \A i \in 1..Len(out) : out[i].k # "nl"

(* the printed text re-scans to the delivered tokens (mode E; the tokens of `out` carry their space flags) *)
TextOK == Lex(TextOf(out)) = SpellingsOf(out)
Inv_Text == (status = "ok" /\ mode = "E") => TextOK

CaseRec(per, mo, tag) ==
  [prog |-> prog, mode |-> mode, per |-> SetToSeq(per), model |-> mo, fired |-> SetToSeq(mem.fired), tag |-> tag,
   err |-> mem.err, maxctx |-> mem.maxctx, acts |-> SetToSeq(acts),
   textok |-> IF Dev("TextPaste") /\ status = "ok" /\ mode = "E" THEN TextOK ELSE TRUE,
   np |-> LET N == SetToSeq(DOMAIN mem.pushes) IN [i \in 1..Len(N) |-> mem.pushes[N[i]]]]
EmitCase(per, mo, tag) == IF EmitCases THEN PrintT("VCASE " \o ToJson(CaseRec(per, mo, tag))) ELSE TRUE

(* refinement: the outcome of PPModel is one of the permitted outcomes.      *)
(* With Devs = {} a mismatch is a violated invariant; with deviations on it   *)
(* is emitted (tag "dev") - the deviation changes behaviour on that program.  *)
Inv_Conform ==
  status \in {"ok", "error", "ub"} =>
    LET per == Permitted(prog)
        mo == ModelOutcome IN
    IF Excluded(per) \/ status = "ub" THEN EmitCase(per, mo, "excl")
    ELSE IF \E d \in per : Conf(mo, d) THEN EmitCase(per, mo, "ok")
    ELSE IF Devs = {} THEN FALSE
    ELSE EmitCase(per, mo, "dev")
=============================================================================
