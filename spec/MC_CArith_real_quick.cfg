\* generated by hand-written template (see harness/props/c04.notes.md); deviations on = LogicalReturnsOperand, BoolCastTruncates, FloatToUnsignedRejectsNeg, FloatCondNotFolded, UnevaluatedOperandFolded, NoDivisionGuard, CondSameTypeNoPromotion
SPECIFICATION Spec
CONSTANTS
  Real = TRUE
  CharSigned = TRUE
  Families = {"binsame", "binmix", "fbin", "un", "cast", "condfew", "unev", "nest"}
  Level = 1
  Dev_LogicalReturnsOperand = TRUE
  Dev_BoolCastTruncates = TRUE
  Dev_FloatToUnsignedRejectsNeg = TRUE
  Dev_FloatCondNotFolded = TRUE
  Dev_UnevaluatedOperandFolded = TRUE
  Dev_NoDivisionGuard = TRUE
  Dev_CondSameTypeNoPromotion = TRUE
INVARIANTS Inv_Emit
CHECK_DEADLOCK FALSE
