\* deviations on = none (all eight defects repaired in /repo; see harness/props/c04.py FIXED)
SPECIFICATION Spec
CONSTANTS
  Real = TRUE
  CharSigned = TRUE
  Families = {"casect", "chain", "flit", "fround", "binsame", "binmix", "fbin", "un", "cast", "condfew", "unev", "nest", "num", "leaf", "addr"}
  Level = 1
  Dev_LogicalReturnsOperand = FALSE
  Dev_BoolCastTruncates = FALSE
  Dev_FloatToUnsignedRejectsNeg = FALSE
  Dev_FloatCondNotFolded = FALSE
  Dev_UnevaluatedOperandFolded = FALSE
  Dev_NoDivisionGuard = FALSE
  Dev_CondSameTypeNoPromotion = FALSE
  Dev_BareAddressMinusRejected = FALSE
  Dev_SwapReassocClobbers = FALSE
INVARIANTS Inv_Emit
CHECK_DEADLOCK FALSE
