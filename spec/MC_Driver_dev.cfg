SPECIFICATION Spec
CONSTANTS
  MaxOpts = 1
  MaxInputs = 1
  Alphabet = "core"
  EmitOpts = 1
  EmitNames = {"a.c", "f.S"}
  EmitInputs = 1
  Devs = {"EmitQbeFile"}
INVARIANTS Inv_Refines Inv_Explained Inv_Emit
CHECK_DEADLOCK FALSE
