------------------------------- MODULE Switch -------------------------------
(* C15, flow C: judges the comparison ladder the real compiler emitted for a      *)
(* generated switch statement and computes, for every probe value, the case the   *)
(* C semantics select (6.8.4.2: the case whose constant, converted to the         *)
(* promoted controlling type, equals the value; else default; else none).         *)
(* The ladder is read back from the IL by the harness as a tree                   *)
(*   node: [key, eq (case number), lt, gt]   leaf: [leaf |-> TRUE]                *)
(* and walked here under the IL's comparison semantics (class w: low 32 bits,     *)
(* class l: 64 bits, unsigned order) — see Tree.tla for the scaled design-level   *)
(* model of the same ladder.                                                      *)
EXTENDS Bits, Naturals, Integers, Sequences, FiniteSets, TLC, Json, IOUtils

Switches == ndJsonDeserialize(IOEnv.SWITCHES)
VARIABLE sid
Init == sid \in 1..Len(Switches)
Next == UNCHANGED sid
Spec == Init /\ [][Next]_sid
SW == Switches[sid]

(* promoted controlling type: [bits, signed] *)
PBits == SW.pbits
PSigned == SW.psigned
Canon(w) == IF PSigned THEN SExtBits(w, PBits) ELSE TruncBits(w, PBits)
Proj(w) == IF SW.cls = "w" THEN TruncBits(w, 32) ELSE w

(* declarative dispatch: index of the case whose converted constant equals the value, 0 = default/none *)
Keys == [i \in 1..Len(SW.keys) |-> Canon(SW.keys[i])]
KeySet == {Keys[i] : i \in 1..Len(Keys)}
Distinct == Cardinality(KeySet) = Len(Keys)
CaseOf(v) == LET S == {i \in 1..Len(Keys) : Keys[i] = Canon(v)} IN IF S = {} THEN 0 ELSE CHOOSE i \in S : TRUE

(* the ladder as emitted *)
IsLeaf(t) == "leaf" \in DOMAIN t
RECURSIVE Walk(_, _), NodeKeys(_), Depth(_), Ordered(_, _, _, _, _), Count(_)
Walk(t, v) ==
  IF IsLeaf(t) THEN 0
  ELSE IF Proj(v) = Proj(t.key) THEN t.eq
  ELSE IF ULt(Proj(v), Proj(t.key)) THEN Walk(t.lt, v) ELSE Walk(t.gt, v)
NodeKeys(t) == IF IsLeaf(t) THEN {} ELSE {Proj(t.key)} \cup NodeKeys(t.lt) \cup NodeKeys(t.gt)
Count(t) == IF IsLeaf(t) THEN 0 ELSE 1 + Count(t.lt) + Count(t.gt)
Depth(t) == IF IsLeaf(t) THEN 0 ELSE 1 + (LET a == Depth(t.lt) b == Depth(t.gt) IN IF a < b THEN b ELSE a)
(* strict search-tree order on the projected keys: hasLo/hasHi say whether a bound applies *)
Ordered(t, hasLo, lo, hasHi, hi) ==
  IsLeaf(t) \/ ( /\ (hasLo => ULt(lo, Proj(t.key)))
                 /\ (hasHi => ULt(Proj(t.key), hi))
                 /\ Ordered(t.lt, hasLo, lo, TRUE, Proj(t.key))
                 /\ Ordered(t.gt, TRUE, Proj(t.key), hasHi, hi) )
RECURSIVE MinNodes(_)
MinNodes(h) == IF h = 0 THEN 0 ELSE IF h = 1 THEN 1 ELSE MinNodes(h - 1) + MinNodes(h - 2) + 1

L == SW.ladder
LadOrdered == Ordered(L, FALSE, Zero, FALSE, Zero)
LadKeys == NodeKeys(L) = {Proj(k) : k \in KeySet} /\ Count(L) = Len(Keys)
LadLog == Count(L) >= MinNodes(Depth(L))                  \* AVL depth bound: logarithmic search depth
LadTargets == \A i \in 1..Len(Keys) : Walk(L, Keys[i]) = i

Expected == [j \in 1..Len(SW.probes) |-> CaseOf(SW.probes[j])]
LadderResult == [j \in 1..Len(SW.probes) |-> Walk(L, Canon(SW.probes[j]))]

Emit == PrintT("VCASE " \o ToJson([id |-> SW.id, distinct |-> Distinct,
          wf |-> [ordered |-> LadOrdered, keys |-> LadKeys, log |-> LadLog, targets |-> LadTargets],
          depth |-> Depth(L), n |-> Count(L),
          expected |-> Expected, ladderok |-> (LadderResult = Expected)]))
=============================================================================
