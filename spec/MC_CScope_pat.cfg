\* generator (-simulate): pattern programs over 4 names that the harness instantiates in many renamed copies (large units)
SPECIFICATION CSpec
CONSTANTS
  Names = {1, 2, 3, 4}
  MaxScopes = 60
  MaxDepth = 5
  MaxIds = 0
  MaxLen = 40
  Deep = FALSE
  Feat = {"macro", "label", "proto", "for", "fwd", "func"}
INVARIANTS Inv_Lexical Inv_Stack Inv_Emit
CHECK_DEADLOCK FALSE
