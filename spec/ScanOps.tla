------------------------------ MODULE ScanOps ------------------------------
(* The scanner of /repo/scan.c and pp.c:keyword() transcribed as operators on a   *)
(* scanner record (struct scanner + position in the file) and a text.  Shared by  *)
(* Scan.tla (C13: token sequences) and Loc.tla (C11: locations).                   *)
(* Deviations of the code from C11 are named members of the constant Devs: with a  *)
(* name in Devs the operator does what the code does, without it what a conforming *)
(* scanner would do; `fired` in the scanner record collects the deviations that     *)
(* took part.                                                                       *)
EXTENDS Tok, Json, IOUtils, SequencesExt

CONSTANT Devs        \* deviations switched on

(* ====================================================================== *)
(* Implementation-shaped side: scan.c                                       *)

Dev(d) == d \in Devs

(* struct scanner; pos = index in the text of the next character getc() returns *)
Scanner0 == [pos |-> 1, chr |-> "NONE", line |-> 1, col |-> 0, buf |-> <<>>, usebuf |-> FALSE,
             saw |-> FALSE, err |-> "", fired |-> {}]

(* nextchar(): the for(;;) loop.  The code counts a new-line when it READS it, so while chr is the   *)
(* new-line the location already names column 0 of the following line (deviation NewlineLocNextLine: *)
(* a new-line token, whose location is captured at that moment, is reported one line late).  Without *)
(* the deviation the line is advanced when the character AFTER the new-line is fetched.              *)
RECURSIVE Fetch(_, _)
Fetch(t, s) ==
  IF s.pos > Len(t) THEN [s EXCEPT !.chr = "EOF", !.col = @ + 1]
  ELSE LET c == t[s.pos] IN
    IF c = NL THEN (IF Dev("NewlineLocNextLine") THEN [s EXCEPT !.chr = c, !.pos = @ + 1, !.line = @ + 1, !.col = 0]
                    ELSE [s EXCEPT !.chr = c, !.pos = @ + 1, !.col = @ + 1])
    ELSE IF c # BS THEN [s EXCEPT !.chr = c, !.pos = @ + 1, !.col = @ + 1]
    ELSE IF s.pos + 1 <= Len(t) /\ t[s.pos + 1] = NL
         THEN Fetch(t, [s EXCEPT !.pos = @ + 2, !.line = @ + 1, !.col = 0])     \* splice: both characters consumed
         ELSE [s EXCEPT !.chr = c, !.pos = @ + 1, !.col = @ + 1]                 \* ungetc(c)
NextChar(t, s) ==
  LET a == IF s.usebuf THEN [s EXCEPT !.buf = Append(@, s.chr)] ELSE s
      b == IF ~Dev("NewlineLocNextLine") /\ s.chr = NL THEN [a EXCEPT !.line = @ + 1, !.col = 0] ELSE a
  IN Fetch(t, b)
RECURSIVE NextChars(_, _, _)
NextChars(t, s, n) == IF n = 0 THEN s ELSE NextChars(t, NextChar(t, s), n - 1)
Fail(s, msg) == [s EXCEPT !.err = msg]
Fire(s, d) == [s EXCEPT !.fired = @ \cup {d}]

(* characters ahead of s.chr in the file, splices not removed (only used by the deviation-free variants) *)
AheadIs(t, s, p) == StartsWith(t, s.pos, p)
UCNAt(t, s) ==    \* s.chr is the backslash of a decided UCN; returns its length or 0
  IF s.chr # BS THEN 0
  ELSE IF \E x \in SafeUCN : Len(x) = 6 /\ AheadIs(t, s, Tail(x)) THEN 6
  ELSE IF \E x \in SafeUCN : Len(x) = 10 /\ AheadIs(t, s, Tail(x)) THEN 10
  ELSE 0

IsAlpha(c) == c \in Upper \cup Lower
IsDigit(c) == c \in Digit
IsAlnum(c) == IsAlpha(c) \/ IsDigit(c)

(* result of one pass through scankind up to `return` or `goto again` *)
Tok_(s, k) == [s |-> s, kind |-> k]
Again(s)   == [s |-> s, kind |-> "AGAIN"]

Op2(t, s, t1, t2) ==
  LET a == NextChar(t, s) IN
  IF a.chr # "=" THEN Tok_(a, t1) ELSE Tok_(NextChar(t, a), t2)
Op3(t, s, t1, t2, t3) ==
  LET c == s.chr
      a == NextChar(t, s) IN
  IF a.chr = "=" THEN Tok_(NextChar(t, a), t2)
  ELSE IF a.chr # c THEN Tok_(a, t1)
  ELSE Tok_(NextChar(t, a), t3)
Op4(t, s, t1, t2, t3, t4) ==
  LET c == s.chr
      a == NextChar(t, s) IN
  IF a.chr = "=" THEN Tok_(NextChar(t, a), t2)
  ELSE IF a.chr # c THEN Tok_(a, t1)
  ELSE LET b == NextChar(t, a) IN
       IF b.chr # "=" THEN Tok_(b, t3) ELSE Tok_(NextChar(t, b), t4)

(* ident(): while (isalnum(chr) || chr == '_') nextchar *)
RECURSIVE IdentLoop(_, _)
IdentLoop(t, s) ==
  IF IsAlnum(s.chr) \/ s.chr = "_" THEN IdentLoop(t, NextChar(t, s))
  ELSE IF UCNAt(t, s) > 0 THEN
         IF Dev("NoUCNIdent") THEN Fire(s, "NoUCNIdent")                        \* code stops the identifier here
         ELSE IdentLoop(t, NextChars(t, s, UCNAt(t, s)))
  ELSE s
Ident(t, s) == Tok_(IdentLoop(t, [s EXCEPT !.usebuf = TRUE]), "TIDENT")

(* number(): for (;;) { nextchar; switch (chr) ... } *)
RECURSIVE NumberLoop(_, _, _)
NumberLoop(t, s, allowsign) ==
  LET a == NextChar(t, s) IN
  IF a.chr \in {"e", "E", "p", "P"} THEN NumberLoop(t, a, TRUE)
  ELSE IF a.chr \in {"+", "-"} THEN (IF allowsign THEN NumberLoop(t, a, FALSE) ELSE a)     \* allowsign = false after a sign (fix 629d756)
  ELSE IF a.chr \in {"_", "."} THEN NumberLoop(t, a, FALSE)
  ELSE IF IsAlnum(a.chr) THEN NumberLoop(t, a, FALSE)
  ELSE IF UCNAt(t, a) > 0 THEN
         IF Dev("NoUCNIdent") THEN Fire(a, "NoUCNIdent")
         ELSE NumberLoop(t, NextChars(t, a, UCNAt(t, a) - 1), FALSE)
  ELSE a
Number(t, s) == Tok_(NumberLoop(t, [s EXCEPT !.usebuf = TRUE], FALSE), "TNUMBER")

IsXDigit(c) == c \in HexDigit
IsODigit(c) == c \in OctDigit
RECURSIVE HexLoop(_, _)
HexLoop(t, s) == LET a == NextChar(t, s) IN IF IsXDigit(a.chr) THEN HexLoop(t, a) ELSE a     \* do nextchar while isxdigit
(* escape(): entered with chr = backslash *)
Escape(t, s) ==
  LET a == NextChar(t, s) IN
  IF a.chr = "x" THEN
    LET b == NextChar(t, a) IN
    IF ~IsXDigit(b.chr) THEN Fail(b, "invalid hexadecimal escape sequence") ELSE HexLoop(t, b)
  ELSE IF IsODigit(a.chr) THEN
    LET b == NextChar(t, a) IN
    IF IsODigit(b.chr) THEN
      LET c == NextChar(t, b) IN IF IsODigit(c.chr) THEN NextChar(t, c) ELSE c
    ELSE b
  ELSE IF a.chr \in SimpleEsc THEN NextChar(t, a)
  ELSE IF UCNAt(t, s) > 0 THEN
    IF Dev("NoUCNEscape") THEN Fail(Fire(a, "NoUCNEscape"), "invalid escape sequence")
    ELSE NextChars(t, a, UCNAt(t, s) - 1)
  ELSE Fail(a, "invalid escape sequence")

(* charconst() / stringlit(): q is the closing quote *)
RECURSIVE QuotedLoop(_, _, _)
QuotedLoop(t, s, q) ==
  IF s.err # "" THEN s
  ELSE IF s.chr = BS THEN QuotedLoop(t, Escape(t, s), q)
  ELSE IF s.chr = q THEN NextChar(t, s)
  ELSE IF s.chr = NL THEN Fail(s, "newline in literal")
  ELSE IF s.chr = "EOF" THEN Fail(s, "EOF in literal")
  ELSE QuotedLoop(t, NextChar(t, s), q)
CharConst(t, s) == Tok_(QuotedLoop(t, NextChar(t, [s EXCEPT !.usebuf = TRUE]), SQ), "TCHARCONST")
StringLit(t, s) == Tok_(QuotedLoop(t, NextChar(t, [s EXCEPT !.usebuf = TRUE]), DQ), "TSTRINGLIT")

(* comment(): entered after '/' was consumed; returns the state and whether a comment was skipped *)
RECURSIVE LineCmt(_, _), BlockCmt(_, _)
LineCmt(t, s) == LET a == NextChar(t, s) IN IF a.chr # NL /\ a.chr # "EOF" THEN LineCmt(t, a) ELSE a
BlockCmt(t, s) ==     \* do { last = chr; nextchar; if EOF error } while (last != '*' || chr != '/')
  LET last == s.chr
      a == NextChar(t, s) IN
  IF a.chr = "EOF" THEN Fail(a, "EOF in comment")
  ELSE IF last # "*" \/ a.chr # "/" THEN BlockCmt(t, a)
  ELSE a
Comment(t, s) ==
  IF s.chr = "/" THEN [s |-> [LineCmt(t, s) EXCEPT !.saw = TRUE], is |-> TRUE]
  ELSE IF s.chr = "*" THEN
    LET b == BlockCmt(t, NextChar(t, s)) IN
    IF b.err # "" THEN [s |-> b, is |-> TRUE]
    ELSE [s |-> [NextChar(t, b) EXCEPT !.saw = TRUE], is |-> TRUE]
  ELSE [s |-> s, is |-> FALSE]

(* ---- the branches of scankind's switch ---- *)
Singles == [c \in {"[", "]", "(", ")", "{", "}", "~", "?", ";", ","} |->
  CASE c = "[" -> "TLBRACK" [] c = "]" -> "TRBRACK" [] c = "(" -> "TLPAREN" [] c = ")" -> "TRPAREN"
    [] c = "{" -> "TLBRACE" [] c = "}" -> "TRBRACE" [] c = "~" -> "TBNOT" [] c = "?" -> "TQUESTION"
    [] c = ";" -> "TSEMICOLON" [] c = "," -> "TCOMMA"]

BrSpace(t, s)  == Again(NextChar(t, [s EXCEPT !.saw = TRUE]))
BrSingle(t, s) == Tok_(NextChar(t, s), Singles[s.chr])
BrNewline(t, s) == Tok_(NextChar(t, s), "TNEWLINE")
BrOp2(t, s) ==
  CASE s.chr = "!" -> Op2(t, s, "TLNOT", "TNEQ")
    [] s.chr = "*" -> Op2(t, s, "TMUL", "TMULASSIGN")
    [] s.chr = "=" -> Op2(t, s, "TASSIGN", "TEQL")
    [] s.chr = "^" -> Op2(t, s, "TXOR", "TXORASSIGN")
BrMod(t, s) ==
  IF Dev("NoDigraphs") THEN
    LET r == Op2(t, s, "TMOD", "TMODASSIGN") IN
    IF r.kind = "TMOD" /\ r.s.chr \in {">", ":"} THEN Tok_(Fire(r.s, "NoDigraphs"), r.kind) ELSE r
  ELSE   \* %  %=  %>  %:  %:%:
    LET a == NextChar(t, s) IN
    IF a.chr = "=" THEN Tok_(NextChar(t, a), "TMODASSIGN")
    ELSE IF a.chr = ">" THEN Tok_(NextChar(t, a), "TRBRACE")
    ELSE IF a.chr # ":" THEN Tok_(a, "TMOD")
    ELSE LET b == NextChar(t, a) IN
         IF b.chr # "%" THEN Tok_(b, "THASH")
         ELSE LET c == NextChar(t, b) IN
              IF c.chr = ":" THEN Tok_(NextChar(t, c), "THASHHASH")
              ELSE Tok_([c EXCEPT !.pos = IF c.chr = "EOF" THEN @ ELSE @ - 1, !.line = b.line, !.col = b.col, !.chr = "%"], "THASH")
BrOp3(t, s) ==
  CASE s.chr = "&" -> Op3(t, s, "TBAND", "TBANDASSIGN", "TLAND")
    [] s.chr = "+" -> Op3(t, s, "TADD", "TADDASSIGN", "TINC")
    [] s.chr = "|" -> Op3(t, s, "TBOR", "TBORASSIGN", "TLOR")
BrMinus(t, s) ==
  LET r == Op3(t, s, "TSUB", "TSUBASSIGN", "TDEC") IN
  IF r.kind # "TSUB" \/ r.s.chr # ">" THEN r ELSE Tok_(NextChar(t, r.s), "TARROW")
BrSlash(t, s) ==
  LET r == Op2(t, s, "TDIV", "TDIVASSIGN") IN
  IF r.kind # "TDIV" THEN r
  ELSE LET c == Comment(t, r.s) IN IF c.is THEN Again(c.s) ELSE r
BrLess(t, s) ==
  IF Dev("NoDigraphs") THEN
    LET r == Op4(t, s, "TLESS", "TLEQ", "TSHL", "TSHLASSIGN") IN
    IF r.kind = "TLESS" /\ r.s.chr \in {":", "%"} THEN Tok_(Fire(r.s, "NoDigraphs"), r.kind) ELSE r
  ELSE
    LET a == NextChar(t, s) IN
    IF a.chr = ":" THEN Tok_(NextChar(t, a), "TLBRACK")
    ELSE IF a.chr = "%" THEN Tok_(NextChar(t, a), "TLBRACE")
    ELSE Op4(t, s, "TLESS", "TLEQ", "TSHL", "TSHLASSIGN")
BrGreater(t, s) == Op4(t, s, "TGREATER", "TGEQ", "TSHR", "TSHRASSIGN")
BrHash(t, s) ==
  LET a == NextChar(t, s) IN IF a.chr # "#" THEN Tok_(a, "THASH") ELSE Tok_(NextChar(t, a), "THASHHASH")
BrColon(t, s) ==
  LET a == NextChar(t, s) IN
  IF a.chr = ":" THEN Tok_(NextChar(t, a), "TCOLONCOLON")
  ELSE IF a.chr = ">" THEN
    IF Dev("NoDigraphs") THEN Tok_(Fire(a, "NoDigraphs"), "TCOLON") ELSE Tok_(NextChar(t, a), "TRBRACK")
  ELSE Tok_(a, "TCOLON")
BrDot(t, s) ==
  LET a == NextChar(t, s) IN
  IF IsDigit(a.chr) THEN Number(t, [a EXCEPT !.buf = Append(@, ".")])
  ELSE IF a.chr # "." THEN Tok_(a, "TPERIOD")
  ELSE LET b == NextChar(t, a) IN                              \* oldloc = a's location
       IF b.chr # "."
       THEN \* ungetc(chr); loc = oldloc; chr = '.'   (ungetc(EOF) does nothing).  Only chr is pushed back: splices that
            \* nextchar consumed on the way to it are gone although loc is rewound over them (deviation DotDotRestore);
            \* without the deviation the whole look-ahead is re-read.
            IF Dev("DotDotRestore")
            THEN Tok_([IF b.chr # "EOF" /\ b.pos - 1 # a.pos THEN Fire(b, "DotDotRestore") ELSE b
                          EXCEPT !.pos = IF b.chr = "EOF" THEN @ ELSE @ - 1, !.line = a.line, !.col = a.col, !.chr = "."], "TPERIOD")
            ELSE Tok_([b EXCEPT !.pos = a.pos, !.line = a.line, !.col = a.col, !.chr = "."], "TPERIOD")
       ELSE Tok_(NextChar(t, b), "TELLIPSIS")
BrPrefix(t, s) ==      \* case 'L': case 'U': case 'u':
  LET first == s.chr
      a == NextChar(t, [s EXCEPT !.usebuf = TRUE])
      b == IF first = "u" /\ a.chr = "8" THEN NextChar(t, a) ELSE a IN       \* buf.str[0] == 'u'
  IF b.chr = SQ THEN CharConst(t, b)
  ELSE IF b.chr = DQ THEN StringLit(t, b)
  ELSE Ident(t, b)
BrOther(t, s) ==
  IF UCNAt(t, s) > 0 THEN
    IF Dev("NoUCNIdent") THEN Tok_(NextChar(t, Fire([s EXCEPT !.usebuf = TRUE], "NoUCNIdent")), "TOTHER")
    ELSE Ident(t, NextChars(t, [s EXCEPT !.usebuf = TRUE], UCNAt(t, s)))
  ELSE Tok_(NextChar(t, [s EXCEPT !.usebuf = TRUE]), "TOTHER")

Op2Chars == {"!", "*", "=", "^"}
Op3Chars == {"&", "+", "|"}
PrefixChars == {"L", "U", "u"}
Class(c) ==
  CASE c \in White -> "space"
    [] c = NL -> "newline"
    [] c = "EOF" -> "eof"
    [] c \in DOMAIN Singles -> "single"
    [] c \in Op2Chars -> "op2"
    [] c = "%" -> "mod"
    [] c \in Op3Chars -> "op3"
    [] c = "-" -> "minus"
    [] c = "/" -> "slash"
    [] c = "<" -> "less"
    [] c = ">" -> "greater"
    [] c = "#" -> "hash"
    [] c = ":" -> "colon"
    [] c = "." -> "dot"
    [] c = DQ -> "string"
    [] c = SQ -> "char"
    [] c \in PrefixChars -> "prefix"
    [] IsDigit(c) -> "number"
    [] IsAlpha(c) \/ c = "_" -> "ident"
    [] OTHER -> "other"

Branch(t, s) ==
  LET k == Class(s.chr) IN
  CASE k = "space" -> BrSpace(t, s)
    [] k = "newline" -> BrNewline(t, s)
    [] k = "eof" -> Tok_(s, "TEOF")
    [] k = "single" -> BrSingle(t, s)
    [] k = "op2" -> BrOp2(t, s)
    [] k = "mod" -> BrMod(t, s)
    [] k = "op3" -> BrOp3(t, s)
    [] k = "minus" -> BrMinus(t, s)
    [] k = "slash" -> BrSlash(t, s)
    [] k = "less" -> BrLess(t, s)
    [] k = "greater" -> BrGreater(t, s)
    [] k = "hash" -> BrHash(t, s)
    [] k = "colon" -> BrColon(t, s)
    [] k = "dot" -> BrDot(t, s)
    [] k = "string" -> StringLit(t, s)
    [] k = "char" -> CharConst(t, s)
    [] k = "prefix" -> BrPrefix(t, s)
    [] k = "number" -> Number(t, s)
    [] k = "ident" -> Ident(t, s)
    [] k = "other" -> BrOther(t, s)

(* scan(): sawspace = false; scankind until a token; lit = bufget if usebuf.                        *)
(* Returns [s, kind, lit, space, line, col]; line/col are the location captured at the last `again`. *)
RECURSIVE ScanKind(_, _)
ScanKind(t, s) ==
  LET r == Branch(t, s) IN
  IF r.s.err # "" THEN [s |-> r.s, kind |-> "ERROR", line |-> s.line, col |-> s.col]
  ELSE IF r.kind = "AGAIN" THEN ScanKind(t, r.s)
  ELSE [s |-> r.s, kind |-> r.kind, line |-> s.line, col |-> s.col]
ScanToken(t, s0) ==
  LET r == ScanKind(t, [s0 EXCEPT !.saw = FALSE]) IN
  [s |-> [r.s EXCEPT !.buf = <<>>, !.usebuf = FALSE], kind |-> r.kind,
   lit |-> IF r.s.usebuf THEN r.s.buf ELSE <<>>, space |-> r.s.saw, line |-> r.line, col |-> r.col]
ScanStart(t) == NextChar(t, Scanner0)        \* scanfrom(): loc = 1:0, nextchar

(* ====================================================================== *)
(* pp.c: keyword() — bisection over the table in the order it has in pp.c     *)
KwTable == IF "KWTABLE" \in DOMAIN IOEnv THEN JsonDeserialize(IOEnv.KWTABLE) ELSE <<>>   \* <<name, kind>> in file order

Min2(a, b) == IF a < b THEN a ELSE b
(* strcmp: sign of the first difference of unsigned chars, the terminator being 0 *)
Strcmp(a, b) ==
  LET n == Min2(Len(a), Len(b))
      diff == {i \in 1..n : a[i] # b[i]} IN
  IF diff = {} THEN (IF Len(a) = Len(b) THEN 0 ELSE IF Len(a) < Len(b) THEN 0 - 1 ELSE 1)
  ELSE LET i == SetMin(diff) IN IF Code(a[i]) < Code(b[i]) THEN 0 - 1 ELSE 1
RECURSIVE Bisect(_, _, _, _)
Bisect(tab, w, low, high) ==       \* while (low < high) { mid = (low + high) / 2; ... }
  IF low >= high THEN "TIDENT"
  ELSE LET mid == (low + high) \div 2
           cmp == Strcmp(w, tab[mid + 1][1]) IN
       IF cmp = 0 THEN tab[mid + 1][2]
       ELSE IF cmp < 0 THEN Bisect(tab, w, low, mid)
       ELSE Bisect(tab, w, mid + 1, high)
KeywordModel(w) == Bisect(KwTable, w, 0, Len(KwTable))

(* next(): token from scan(), identifiers through keyword(); what the -E dump prints for it *)
Delivered(r) ==
  LET k == IF r.kind = "TIDENT" THEN KeywordModel(r.lit) ELSE r.kind
      spell == IF r.kind \in {"TIDENT", "TNUMBER", "TCHARCONST", "TSTRINGLIT", "TOTHER"} /\ k = r.kind THEN r.lit
               ELSE IF k \in {"TNEWLINE", "TEOF", "ERROR"} THEN <<>>
               ELSE IF r.kind = "TIDENT" THEN KeywordSpelling(k)       \* tokstr[kind]
               ELSE PunctCanon(k)
  IN <<k, spell, r.space>>

=============================================================================
