------------------------------- MODULE Proc -------------------------------
(* Exit protocol and own-I/O faults of the compiler proper (cproc-qbe), property C19 (1).   *)
(*                                                                                          *)
(* Transcription of /repo/main.c + the stdio semantics it relies on:                        *)
(*   Start -> Args -> {Usage -> exit 2 | bad target -> exit 1}                              *)
(*         -> OpenOut {freopen fails -> exit 1}                                             *)
(*         -> OpenIn  {fopen fails -> exit 1}                                               *)
(*         -> Run: Emit byte by byte into a buffer of B bytes; a full buffer is written by  *)
(*                 one write(2) when the next byte arrives; a failing write sets the sticky *)
(*                 error flag, discards the chunk and the run goes on                       *)
(*                 {Diag -> exit(1): buffer flushed by exit(), status 1 whatever happens}   *)
(*         -> End -> Flush (fflush) -> {ferror -> "write failed", exit 1 | exit 0}          *)
(* A scenario (argv class, output kind, sink kind with its fault schedule, input kind,      *)
(* program class, output size) is chosen in Init; everything after is deterministic, so a   *)
(* terminal state is *the* behaviour prescribed for that scenario.  The harness renders each *)
(* scenario to a real invocation (harness/failwrite.c injects the write/read faults with     *)
(* ptrace, real kernel faults come from /dev/full, a closed descriptor, RLIMIT_FSIZE) and    *)
(* compares status, number/size/result of write(2) calls and bytes accepted by the sink.     *)
(*                                                                                          *)
(* Sizes are in model units: the real buffer has 4096 bytes, the model buffer B; the        *)
(* harness maps n to (n \div B)*4096 + frac(n % B) with frac monotone, frac(0)=0,            *)
(* frac(1)=1, frac(B-1)=4095, so "around multiples of B" means around multiples of 4096.     *)
(*                                                                                          *)
(* Defect repaired by /repo 0b97f88, kept as a named deviation (FALSE in every configuration): Dev_ReadErrIsEOF.  scan.c:nextchar never looks *)
(* at ferror(file): a read(2) that fails (EISDIR for a directory, EBADF for a closed stdin,  *)
(* EIO) is taken for end of input, the truncated input is compiled and the status is 0.      *)
EXTENDS Naturals, Integers, Sequences, FiniteSets, TLC, Json, SequencesExt

CONSTANTS B,                  \* stdio buffer size in model units (>= 2)
          MaxBlocks,          \* output sizes range over 0 .. MaxBlocks*B + 1
          Dev_ReadErrIsEOF    \* TRUE: model the shipped code; FALSE: what the property demands

ASSUME B >= 2 /\ MaxBlocks >= 1

Sizes == 0 .. (MaxBlocks * B + 1)
MaxW  == MaxBlocks + 2                       \* upper bound on write(2) calls of a fault-free run, plus one

(* ------------------------------------------------------------------------------------ *)
(* Scenarios.                                                                            *)
(* args : "ok" | "badopt" | "noarg" (option without its argument) | "badtarget"          *)
(* outk : "stdout" | "ofile" | "obad" (-o names a path that cannot be created)           *)
(* sink : "good" | "allfail" (/dev/full, closed descriptor) | "failk" (k-th write fails  *)
(*        once) | "shortk" (k-th write is cut in half once) | "limit" (file size limit   *)
(*        of k model units: crossing write is short, every later write fails)            *)
(* ink  : "stdin" | "file" | "two" (two input files) | "missing" | "two2missing"         *)
(*        | "readerr" (the input file holds n blocks of B units, read by n+1 read(2)      *)
(*          calls; the r-th fails; each block yields B units of output; n = 0, r = 1 is   *)
(*          also a directory given as input, or a closed standard input)                  *)
(* prog : "ok" (n bytes of output, no diagnostic) | "diag" (m bytes of output, then a    *)
(*        diagnosed error)                                                               *)
Scn(args, outk, sink, k, ink, r, prog, n) ==
  [args |-> args, outk |-> outk, sink |-> sink, k |-> k, ink |-> ink, r |-> r, prog |-> prog, n |-> n]

Scenarios ==
       {Scn(a, "stdout", "good", 0, "stdin", 0, "ok", 1) : a \in {"badopt", "noarg", "badtarget"}}
  \cup {Scn("ok", "obad", "good", 0, "stdin", 0, "ok", n) : n \in {0, 1}}
  \cup {Scn("ok", o, "good", 0, i, 0, p, n) : o \in {"stdout", "ofile"}, i \in {"stdin", "file", "two"},
                                               p \in {"ok", "diag"}, n \in Sizes}
  \cup {Scn("ok", o, "allfail", 0, i, 0, p, n) : o \in {"stdout", "ofile"}, i \in {"stdin", "file"},
                                               p \in {"ok", "diag"}, n \in Sizes}
  \cup {Scn("ok", "stdout", s, k, "stdin", 0, p, n) : s \in {"failk", "shortk"}, k \in 1..MaxW,
                                               p \in {"ok", "diag"}, n \in Sizes}
  \cup {Scn("ok", "ofile", "limit", k, "file", 0, p, n) : k \in Sizes, p \in {"ok", "diag"}, n \in Sizes}
  \cup {Scn("ok", "stdout", "good", 0, i, 0, "ok", n) : i \in {"missing", "two2missing"}, n \in {0, 1, B + 1}}
  \cup {s \in {Scn("ok", "stdout", "good", 0, "readerr", r, "ok", n) : r \in 1..(MaxBlocks + 1), n \in 0..MaxBlocks} :
            s.r <= s.n + 1}

VARIABLES scn, pc, exit, buf, emitted, accepted, lost, nw, wlog, err, todo, iofail, devfired

vars == <<scn, pc, exit, buf, emitted, accepted, lost, nw, wlog, err, todo, iofail, devfired>>

(* ------------------------------------------------------------------------------------ *)
(* write(2) on the output descriptor: one system call.  Returns the pair                *)
(* <<bytes accepted, failed>> for a request of c bytes as the (nw+1)-th call.           *)
SysWrite(c) ==
  LET j == nw + 1 IN
  CASE scn.sink = "good"    -> [acc |-> c, fail |-> FALSE]
    [] scn.sink = "allfail" -> [acc |-> 0, fail |-> TRUE]
    [] scn.sink = "failk"   -> IF j = scn.k THEN [acc |-> 0, fail |-> TRUE] ELSE [acc |-> c, fail |-> FALSE]
    [] scn.sink = "shortk"  -> IF j = scn.k /\ c >= 2 THEN [acc |-> c \div 2, fail |-> FALSE]
                                                      ELSE [acc |-> c, fail |-> FALSE]
    [] scn.sink = "limit"   -> LET room == scn.k - accepted IN      \* RLIMIT_FSIZE with SIGXFSZ ignored
                               IF room <= 0 THEN [acc |-> 0, fail |-> TRUE]
                               ELSE IF room < c THEN [acc |-> room, fail |-> FALSE]
                               ELSE [acc |-> c, fail |-> FALSE]

(* The stdio write loop (glibc _IO_new_file_write): repeat write(2) on the rest after a  *)
(* short count, stop at the first failure; the buffer is emptied in either case.         *)
(* One action = one system call; `todo` is what is left of the chunk being written.      *)
StartFlush == todo' = buf /\ buf' = 0

WriteStep ==
  /\ todo > 0
  /\ LET w == SysWrite(todo) IN
       /\ nw' = nw + 1
       /\ wlog' = Append(wlog, <<todo, IF w.fail THEN -1 ELSE w.acc>>)
       /\ IF w.fail
          THEN /\ err' = TRUE /\ lost' = lost + todo /\ todo' = 0 /\ accepted' = accepted
               /\ iofail' = iofail \cup {"write"}
          ELSE /\ accepted' = accepted + w.acc /\ todo' = todo - w.acc
               /\ UNCHANGED <<err, lost, iofail>>

(* ------------------------------------------------------------------------------------ *)
Init ==
  /\ scn \in Scenarios
  /\ pc = "Start" /\ exit = -1 /\ buf = 0 /\ emitted = 0 /\ accepted = 0 /\ lost = 0 /\ nw = 0
  /\ wlog = <<>> /\ err = FALSE /\ todo = 0 /\ iofail = {} /\ devfired = FALSE

Terminate(code) == pc' = "Done" /\ exit' = code

Args ==
  /\ pc = "Start"
  /\ IF scn.args \in {"badopt", "noarg"} THEN Terminate(2)               \* usage()
     ELSE IF scn.args = "badtarget" THEN Terminate(1)                    \* targinit: fatal
     ELSE pc' = "OpenOut" /\ UNCHANGED exit
  /\ UNCHANGED <<scn, buf, emitted, accepted, lost, nw, wlog, err, todo, iofail, devfired>>

OpenOut ==
  /\ pc = "OpenOut"
  /\ IF scn.outk = "obad"
     THEN Terminate(1) /\ iofail' = iofail \cup {"openout"}              \* freopen fails: fatal
     ELSE pc' = "OpenIn" /\ UNCHANGED <<exit, iofail>>
  /\ UNCHANGED <<scn, buf, emitted, accepted, lost, nw, wlog, err, todo, devfired>>

(* what the run will emit: the number of output bytes produced before it stops, and why *)
(* it stops.  "readerr": the r-th read fails, so r-1 blocks of input were seen.          *)
Plan ==
  CASE scn.ink = "missing"     -> [n |-> 0, stop |-> "openin"]
    [] scn.ink = "two2missing" -> [n |-> scn.n, stop |-> "openin"]
    [] scn.ink = "readerr"     -> [n |-> B * (scn.r - 1), stop |-> "readerr"]
    [] OTHER                   -> [n |-> scn.n, stop |-> IF scn.prog = "diag" THEN "diag" ELSE "end"]

OpenIn ==
  /\ pc = "OpenIn"
  /\ IF Plan.stop = "openin" /\ Plan.n = 0
     THEN Terminate(1) /\ iofail' = iofail \cup {"openin"}               \* scanopen: fatal
     ELSE pc' = "Run" /\ UNCHANGED <<exit, iofail>>
  /\ UNCHANGED <<scn, buf, emitted, accepted, lost, nw, wlog, err, todo, devfired>>

(* putc: a full buffer is flushed when the next byte arrives *)
Emit ==
  /\ pc = "Run" /\ todo = 0 /\ emitted < Plan.n
  /\ IF buf = B
     THEN StartFlush /\ UNCHANGED emitted
     ELSE buf' = buf + 1 /\ emitted' = emitted + 1 /\ UNCHANGED todo
  /\ UNCHANGED <<scn, pc, exit, accepted, lost, nw, wlog, err, iofail, devfired>>

Write ==
  /\ pc \in {"Run", "Flush", "ExitFlush"} /\ WriteStep
  /\ UNCHANGED <<scn, pc, exit, buf, emitted, devfired>>

RunStops ==
  /\ pc = "Run" /\ todo = 0 /\ emitted = Plan.n
  /\ CASE Plan.stop = "end"     -> pc' = "Flush" /\ StartFlush /\ UNCHANGED <<exit, iofail, devfired>>
       [] Plan.stop = "diag"    -> pc' = "ExitFlush" /\ StartFlush /\ UNCHANGED <<exit, iofail, devfired>>
       [] Plan.stop = "openin"  -> pc' = "ExitFlush" /\ StartFlush /\ iofail' = iofail \cup {"openin"}
                                   /\ UNCHANGED <<exit, devfired>>
       [] Plan.stop = "readerr" ->
            /\ iofail' = iofail \cup {"read"}
            /\ IF Dev_ReadErrIsEOF
               THEN pc' = "Flush" /\ devfired' = TRUE                    \* taken for EOF: normal end
               ELSE pc' = "ExitFlush" /\ UNCHANGED devfired              \* required: diagnosed, status 1
            /\ StartFlush /\ UNCHANGED exit
  /\ UNCHANGED <<scn, emitted, accepted, lost, nw, wlog, err>>

(* exit(1) after a diagnostic: exit() flushes stdout, the status is 1 regardless *)
ExitFlushDone ==
  /\ pc = "ExitFlush" /\ todo = 0
  /\ Terminate(1)
  /\ UNCHANGED <<scn, buf, emitted, accepted, lost, nw, wlog, err, todo, iofail, devfired>>

(* fflush(stdout); if (ferror(stdout)) fatal("write failed"); return 0; *)
FlushDone ==
  /\ pc = "Flush" /\ todo = 0
  /\ Terminate(IF err THEN 1 ELSE 0)
  /\ UNCHANGED <<scn, buf, emitted, accepted, lost, nw, wlog, err, todo, iofail, devfired>>

Next == Args \/ OpenOut \/ OpenIn \/ Emit \/ Write \/ RunStops \/ ExitFlushDone \/ FlushDone

Spec == Init /\ [][Next]_vars /\ WF_vars(Next)

(* ------------------------------------------------------------------------------------ *)
TypeOK ==
  /\ exit \in {-1, 0, 1, 2} /\ buf \in 0..B /\ todo \in 0..B
  /\ pc \in {"Start", "OpenOut", "OpenIn", "Run", "Flush", "ExitFlush", "Done"}
  /\ (pc = "Done") = (exit # -1)

Inv_ExitCodes == exit \in {-1, 0, 1, 2}

(* bytes are conserved: everything emitted is in the buffer, in flight, accepted or lost *)
Inv_Conservation == emitted = buf + todo + accepted + lost

(* status 0 => every byte the program produced was accepted by the sink, nothing failed *)
Inv_ZeroMeansDelivered ==
  exit = 0 => /\ accepted = emitted /\ lost = 0 /\ buf = 0 /\ todo = 0
              /\ (scn.ink # "readerr" => emitted = scn.n)

(* the property's last sentence: a failure of the compiler's own I/O gives a non-zero status. *)
(* With the deviation switched on the model is the shipped code, which breaks exactly this    *)
(* for read errors; the invariant is therefore checked with Dev_ReadErrIsEOF = FALSE and, in  *)
(* the implementation-shaped configuration, weakened by the named deviation only.            *)
Inv_IOFaultReported ==
  (exit # -1 /\ iofail # {}) => (exit # 0 \/ (Dev_ReadErrIsEOF /\ devfired /\ iofail = {"read"}))

Inv_UsageIsTwo == (exit = 2) <=> (pc = "Done" /\ scn.args \in {"badopt", "noarg"})

(* a fault-free run writes ceil(n/B) chunks, all of B bytes but the last *)
Inv_ChunkShape ==
  (pc = "Done" /\ scn.sink = "good") =>
     \A i \in 1..Len(wlog) : wlog[i][2] = wlog[i][1] /\ (i < Len(wlog) => wlog[i][1] = B)

Terminates == <>(pc = "Done")

(* ------------------------------------------------------------------------------------ *)
Inv_Emit ==
  pc = "Done" =>
    PrintT("VCASE " \o ToJson([scn |-> scn, exit |-> exit, emitted |-> emitted, accepted |-> accepted,
                               lost |-> lost, nw |-> nw, wlog |-> wlog, err |-> err,
                               iofail |-> SetToSeq(iofail), dev |-> devfired]))
=============================================================================
