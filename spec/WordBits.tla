------------------------------ MODULE WordBits ------------------------------
(* Bitwise and/or/xor on non-negative TLC integers (Java-backed operators of the *)
(* CommunityModules' Bitwise), re-exported under names that do not clash with    *)
(* Word.tla's And/Or/Xor/Not on byte tuples.                                      *)
LOCAL INSTANCE Bitwise
BitAnd(x, y) == x & y
BitOr(x, y)  == x | y
BitXor(x, y) == x ^^ y
=============================================================================
