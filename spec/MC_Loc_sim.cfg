SPECIFICATION Spec
CONSTANTS
  ItemKinds = {"decl", "sp_between", "sp_inside", "sp_double", "cmt2", "cmt3", "lcmt", "lcmt_sp", "blank", "blank2", "sp_first", "pragma", "nulldir", "macro3", "macro_nl", "dotdot_sp", "line1", "line7", "lineBig", "line010", "line7f", "line7fp", "line7fx", "line7e", "line7sp", "marker7", "markerBig", "marker1nf"}
  ViolKinds = {"v_stray", "v_undecl", "v_cmt", "v_splice", "v_macro", "v_bogus", "v_define", "v_line", "v_str"}
  MaxItems = 7
  MinItems = 4
  MaxCmt = 0
  Devs = {"NewlineLocNextLine", "SetlocAfterLookahead", "DotDotRestore"}
  Emit = TRUE
INVARIANTS Inv_Emit
CHECK_DEADLOCK FALSE
