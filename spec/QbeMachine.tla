----------------------------- MODULE QbeMachine -----------------------------
(* Small-step semantics of the QBE IL subset cproc emits (DESIGN.md Appendix A), *)
(* executed on a module printed by the real compiler and parsed by               *)
(* harness/ilparse.py (flow C of C01).  Integer classes only (w = low 32 bits of  *)
(* a word, l = 64 bits); floating-point instructions set status "unsupported".   *)
(*                                                                               *)
(* Memory is a set of allocations (globals, alloc4/8/16 results) at disjoint,    *)
(* gap-separated addresses; every load/store must fall inside one live           *)
(* allocation (MemSafe — C01's "no out-of-bounds access to any object it         *)
(* allocates"); stack allocations die when their function returns.               *)
(* Observable behaviour: the sequence of arguments passed to the external        *)
(* function $obs, and main's return value.                                       *)
EXTENDS Bits, FloatInt, Naturals, Integers, Sequences, FiniteSets, TLC, Json, IOUtils

(* the modules under execution: one JSON record [funcs, data] per line, produced by  *)
(* harness/ilprep.py from the IL the real compiler printed                            *)
Progs == ndJsonDeserialize(IOEnv.QBE_PROGS)

VARIABLES pid, fn, blk, ip, prev, tmp, allocs, frames, qout, qstatus, qret, fuel

qvars == <<pid, fn, blk, ip, prev, tmp, allocs, frames, qout, qstatus, qret, fuel>>
Prog == Progs[pid]

Funcs == Prog.funcs
Data  == Prog.data
FuncIdx(name) == CHOOSE i \in 1..Len(Funcs) : Funcs[i].name = name
HasFunc(name) == \E i \in 1..Len(Funcs) : Funcs[i].name = name
DataIdx(name) == CHOOSE i \in 1..Len(Data) : Data[i].name = name
HasData(name) == \E i \in 1..Len(Data) : Data[i].name = name

(* ---- address space: functions at 16*i, data from DataBase, stack above ---- *)
FuncAddr(i) == 16 * i
Gap == 32
Align16(n) == ((n + 15) \div 16) * 16
RECURSIVE DataBaseOf(_)
DataBaseOf(i) == IF i = 1 THEN 4096 ELSE Align16(DataBaseOf(i - 1) + Data[i - 1].size + Gap)
StackBase == IF Len(Data) = 0 THEN 8192 ELSE Align16(DataBaseOf(Len(Data)) + Data[Len(Data)].size + Gap + 4096)

SymAddr(name) ==     \* address of a global symbol as a TLC int; -1 if unknown
  IF HasData(name) THEN DataBaseOf(DataIdx(name))
  ELSE IF HasFunc(name) THEN FuncAddr(FuncIdx(name)) ELSE -1

(* initial image of data definition i with relocations applied *)
PutWord(bytes, off, w, n) == [k \in 1..Len(bytes) |-> IF k > off /\ k <= off + n THEN w[k - off] ELSE bytes[k]]
RECURSIVE ApplyRelocs(_, _, _)
ApplyRelocs(bytes, rel, j) ==
  IF j > Len(rel) THEN bytes
  ELSE ApplyRelocs(PutWord(bytes, rel[j].off, Add(W(SymAddr(rel[j].sym)), rel[j].add), 8), rel, j + 1)
InitAllocs ==
  [i \in 1..Len(Data) |-> [base |-> DataBaseOf(i), size |-> Data[i].size, live |-> TRUE, frame |-> 0,
                           bytes |-> ApplyRelocs(Data[i].bytes, Data[i].relocs, 1)]]

(* ---- values ---- *)
Val(v) ==   \* IL value -> word (temporaries must be defined: checked by Defined)
  CASE v.t = "tmp"  -> tmp[v.n]
    [] v.t = "int"  -> v.v
    [] v.t = "glob" -> W(SymAddr(v.n))
Defined(v) == (v.t = "tmp" => v.n \in DOMAIN tmp) /\ (v.t = "glob" => SymAddr(v.n) >= 0) /\ v.t # "flt"
Norm(cls, w) == IF cls \in {"w", "s"} THEN TruncBits(w, 32) ELSE w        \* a w or s temporary holds 32 meaningful bits

(* ---- memory access ---- *)
Find(addr, n) ==     \* index of the live allocation containing [addr, addr+n), or 0
  LET S == {i \in 1..Len(allocs) : allocs[i].live /\ allocs[i].base <= addr /\ addr + n <= allocs[i].base + allocs[i].size}
  IN IF S = {} THEN 0 ELSE CHOOSE i \in S : TRUE
AddrOK(w, n) == FitsNat31(w) /\ Find(Lo31(w), n) # 0
Load(w, n) ==        \* n bytes, zero-extended to a word
  LET a == Lo31(w)  i == Find(a, n)  o == a - allocs[i].base
  IN Mk8(LAMBDA k : IF k <= n THEN allocs[i].bytes[o + k] ELSE 0)
Store(w, n, val) ==
  LET a == Lo31(w)  i == Find(a, n)  o == a - allocs[i].base
  IN [allocs EXCEPT ![i].bytes = [k \in 1..Len(@) |-> IF k > o /\ k <= o + n THEN val[k - o] ELSE @[k]]]

NextBaseOf(al) ==      \* base address of the next stack allocation: above everything allocated so far, gap-separated, 16-aligned
  Align16(IF Len(al) = 0 THEN StackBase
          ELSE LET l == al[Len(al)] IN IF l.base + l.size + Gap < StackBase THEN StackBase ELSE l.base + l.size + Gap)
ReadBytes(w, n) == LET a == Lo31(w)  i == Find(a, n)  o == a - allocs[i].base IN SubSeq(allocs[i].bytes, o + 1, o + n)
IsAgg(c) == c \notin {"w", "l", "s", "d", ""}
TypeSize(c) == LET T == Prog.types IN T[CHOOSE i \in 1..Len(T) : T[i].name = c].size

(* ---- current instruction ---- *)
F == Funcs[fn]
B == F.blocks[blk]
NInst == Len(B.insts)
I == B.insts[ip]
BlockIdx(f, label) == CHOOSE j \in 1..Len(f.blocks) : f.blocks[j].label = label
HasBlock(f, label) == \E j \in 1..Len(f.blocks) : f.blocks[j].label = label
Running == qstatus = "run"

Stop(why) == /\ qstatus' = why
             /\ UNCHANGED <<pid, fn, blk, ip, prev, tmp, allocs, frames, qout, qret, fuel>>
SetTmp(name, cls, w) == tmp' = (name :> Norm(cls, w)) @@ tmp
Advance == ip' = ip + 1 /\ UNCHANGED <<pid, fn, blk, prev>>
Tick == fuel' = fuel - 1

(* ---- arithmetic ---- *)
Bits(cls) == IF cls = "w" THEN 32 ELSE 64
SX(cls, w) == IF cls = "w" THEN SExtBits(w, 32) ELSE w
ZX(cls, w) == IF cls = "w" THEN TruncBits(w, 32) ELSE w
ShCount(cls, w) == Lo31(w) % Bits(cls)
BinOps == {"add", "sub", "mul", "div", "rem", "udiv", "urem", "or", "xor", "and", "sar", "shr", "shl"}
DivOps == {"div", "rem", "udiv", "urem"}
BinRes(op, cls, a, b) ==
  CASE op = "add" -> Add(a, b) [] op = "sub" -> Sub(a, b) [] op = "mul" -> Mul(a, b)
    [] op = "or" -> WOr(a, b) [] op = "xor" -> WXor(a, b) [] op = "and" -> WAnd(a, b)
    [] op = "div"  -> SDiv(SX(cls, a), SX(cls, b))
    [] op = "rem"  -> SRem(SX(cls, a), SX(cls, b))
    [] op = "udiv" -> UDiv(ZX(cls, a), ZX(cls, b))
    [] op = "urem" -> URem(ZX(cls, a), ZX(cls, b))
    [] op = "shl"  -> Shl(a, ShCount(cls, b))
    [] op = "shr"  -> Shr(ZX(cls, a), ShCount(cls, b))
    [] op = "sar"  -> Sar(SX(cls, a), ShCount(cls, b))
DivTraps(op, cls, a, b) ==
  \/ IsZero(ZX(cls, b))
  \/ (op \in {"div", "rem"} /\ SX(cls, a) = Shl(Ones, Bits(cls) - 1) /\ SX(cls, b) = Ones)

CmpOps == {"ceqw", "cnew", "cslew", "csltw", "csgew", "csgtw", "culew", "cultw", "cugew", "cugtw",
           "ceql", "cnel", "cslel", "csltl", "csgel", "csgtl", "culel", "cultl", "cugel", "cugtl"}
CmpClass(op) == IF op \in {"ceqw", "cnew", "cslew", "csltw", "csgew", "csgtw", "culew", "cultw", "cugew", "cugtw"} THEN "w" ELSE "l"
CmpKind(op) ==
  CASE op \in {"ceqw", "ceql"} -> "eq" [] op \in {"cnew", "cnel"} -> "ne"
    [] op \in {"cslew", "cslel"} -> "sle" [] op \in {"csltw", "csltl"} -> "slt"
    [] op \in {"csgew", "csgel"} -> "sge" [] op \in {"csgtw", "csgtl"} -> "sgt"
    [] op \in {"culew", "culel"} -> "ule" [] op \in {"cultw", "cultl"} -> "ult"
    [] op \in {"cugew", "cugel"} -> "uge" [] op \in {"cugtw", "cugtl"} -> "ugt"
CmpTrue(op, a0, b0) ==
  LET c == CmpClass(op)  k == CmpKind(op)
      sa == SX(c, a0)  sb == SX(c, b0)  ua == ZX(c, a0)  ub == ZX(c, b0)
  IN CASE k = "eq" -> ua = ub [] k = "ne" -> ua # ub
       [] k = "sle" -> SLe(sa, sb) [] k = "slt" -> SLt(sa, sb) [] k = "sge" -> SLe(sb, sa) [] k = "sgt" -> SLt(sb, sa)
       [] k = "ule" -> ULe(ua, ub) [] k = "ult" -> ULt(ua, ub) [] k = "uge" -> ULe(ub, ua) [] k = "ugt" -> ULt(ub, ua)

ExtOps == {"extsw", "extuw", "extsh", "extuh", "extsb", "extub"}
ExtRes(op, a) ==
  CASE op = "extsw" -> SExtBits(a, 32) [] op = "extuw" -> TruncBits(a, 32)
    [] op = "extsh" -> SExtBits(a, 16) [] op = "extuh" -> TruncBits(a, 16)
    [] op = "extsb" -> SExtBits(a, 8)  [] op = "extub" -> TruncBits(a, 8)

LoadOps == {"loadl", "loadw", "loadsw", "loaduw", "loadsh", "loaduh", "loadsb", "loadub", "loads", "loadd"}     \* loads/loadd move the IEEE image
LoadSize(op) == CASE op \in {"loadl", "loadd"} -> 8 [] op \in {"loadw", "loadsw", "loaduw", "loads"} -> 4 [] op \in {"loadsh", "loaduh"} -> 2 [] OTHER -> 1
LoadSigned(op) == op \in {"loadw", "loadsw", "loadsh", "loadsb"}
StoreOps == {"storel", "storew", "storeh", "storeb", "stores", "stored"}
StoreSize(op) == CASE op \in {"storel", "stored"} -> 8 [] op \in {"storew", "stores"} -> 4 [] op = "storeh" -> 2 [] OTHER -> 1
AllocOps == {"alloc4", "alloc8", "alloc16"}
VarargOps == {"vastart", "vaarg"}
InInst == Running /\ ip >= 1 /\ ip <= NInst /\ fuel > 0
ArgsDefined == \A k \in 1..Len(I.args) : Defined(I.args[k])
(* ---- floating point: temporaries and memory hold IEEE-754 images; arithmetic is done on the integral values they denote ---- *)
(* (FloatInt.tla).  An operand that is not such a value (fraction, -0, denormal, infinity, NaN), an inexact result, or an     *)
(* out-of-range conversion stops the run as "unsupported-float-or-vararg": Refine.tla then gives no verdict and the native  *)
(* execution of the IL (il2c) alone decides.  Loads, stores, copies, phis, arguments and results just move the image.       *)
FPrec(c) == IF c = "s" THEN 24 ELSE 53
FDec(c, w) == IF c = "s" THEN DecS(w) ELSE DecD(w)
FPack(c, f) == IF RepresentableP(f.mag, FPrec(c)) THEN [ok |-> TRUE, w |-> IF c = "s" THEN EncS(f) ELSE EncD(f)] ELSE [ok |-> FALSE]
FBad == [ok |-> FALSE]
FCmpOps == {"ceqs", "cnes", "cles", "clts", "cges", "cgts", "ceqd", "cned", "cled", "cltd", "cged", "cgtd"}
FCmpCls(op) == IF op \in {"ceqs", "cnes", "cles", "clts", "cges", "cgts"} THEN "s" ELSE "d"
FCmpTrue(op, x, y) ==
  CASE op \in {"ceqs", "ceqd"} -> x = y [] op \in {"cnes", "cned"} -> x # y
    [] op \in {"clts", "cltd"} -> FLt(x, y) [] op \in {"cgts", "cgtd"} -> FLt(y, x)
    [] op \in {"cles", "cled"} -> ~FLt(y, x) [] op \in {"cges", "cged"} -> ~FLt(x, y)
FToIntOps == {"stosi", "stoui", "dtosi", "dtoui"}
FFromIntOps == {"swtof", "uwtof", "sltof", "ultof"}
FConvOps == FToIntOps \cup FFromIntOps \cup {"exts", "truncd"}
IsFloatCalc == \/ I.op \in FCmpOps \cup FConvOps
               \/ (I.op \in {"add", "sub", "mul", "div", "neg"} /\ I.cls \in {"s", "d"})
FCalc ==      \* [ok, w]
  LET a == Val(I.args[1]) IN
  CASE I.op \in {"add", "sub", "mul", "div"} -> (
         LET x == FDec(I.cls, a)  y == FDec(I.cls, Val(I.args[2])) IN
         IF ~x.ok \/ ~y.ok THEN FBad
         ELSE LET z == CASE I.op = "add" -> FAdd(x.f, y.f) [] I.op = "sub" -> FAdd(x.f, FNeg(y.f))
                         [] I.op = "mul" -> FMul(x.f, y.f) [] I.op = "div" -> FDiv(x.f, y.f) IN
              IF ~z.ok THEN FBad ELSE FPack(I.cls, z.f))
    [] I.op = "neg" -> (LET x == FDec(I.cls, a) IN IF ~x.ok \/ IsZero(x.f.mag) THEN FBad ELSE FPack(I.cls, FNeg(x.f)))     \* -0 is not modelled
    [] I.op \in FCmpOps -> (
         LET c == FCmpCls(I.op)  x == FDec(c, a)  y == FDec(c, Val(I.args[2])) IN
         IF ~x.ok \/ ~y.ok THEN FBad ELSE [ok |-> TRUE, w |-> IF FCmpTrue(I.op, x.f, y.f) THEN One ELSE Zero])
    [] I.op = "exts" -> (LET x == FDec("s", a) IN IF ~x.ok THEN FBad ELSE FPack("d", x.f))
    [] I.op = "truncd" -> (LET x == FDec("d", a) IN IF ~x.ok THEN FBad ELSE FPack("s", x.f))
    [] I.op \in FToIntOps -> (
         LET x == FDec(IF I.op \in {"stosi", "stoui"} THEN "s" ELSE "d", a)  n == Bits(I.cls) IN
         IF ~x.ok THEN FBad
         ELSE IF I.op \in {"stosi", "dtosi"} THEN
                (IF x.f.neg THEN (IF ULt(Shl(One, n - 1), x.f.mag) THEN FBad ELSE [ok |-> TRUE, w |-> Neg(x.f.mag)])
                 ELSE IF ULt(x.f.mag, Shl(One, n - 1)) THEN [ok |-> TRUE, w |-> x.f.mag] ELSE FBad)
         ELSE IF x.f.neg THEN FBad
         ELSE IF n = 64 \/ ULt(x.f.mag, Shl(One, n)) THEN [ok |-> TRUE, w |-> x.f.mag] ELSE FBad)
    [] I.op \in FFromIntOps -> (
         LET v == CASE I.op = "swtof" -> SExtBits(a, 32) [] I.op = "uwtof" -> TruncBits(a, 32) [] OTHER -> a
             f == IF I.op \in {"swtof", "sltof"} /\ SignBit(v) THEN FV(TRUE, Neg(v)) ELSE FV(FALSE, v) IN
         FPack(I.cls, f))
IFloat ==
  /\ InInst /\ IsFloatCalc
  /\ IF ~ArgsDefined THEN Stop("undef-temp")
     ELSE LET r == FCalc IN
          IF ~r.ok THEN Stop("unsupported-float-or-vararg")
          ELSE SetTmp(I.res, I.cls, r.w) /\ Advance /\ Tick /\ UNCHANGED <<allocs, frames, qout, qstatus, qret>>
IVararg == InInst /\ I.op \in VarargOps /\ Stop("unsupported-float-or-vararg")

(* ---------------------------------------------------------------------------------- *)
IPhi ==
  /\ Running /\ ip = 0 /\ fuel > 0
  /\ IF Len(B.phi) = 0 THEN UNCHANGED <<tmp, qstatus>>
     ELSE LET p == B.phi[1]
              S == {k \in 1..Len(p.srcs) : p.srcs[k].lbl = prev}
          IN IF S = {} THEN qstatus' = "phi-no-pred" /\ UNCHANGED tmp
             ELSE LET s == p.srcs[CHOOSE k \in S : TRUE].val
                  IN IF ~Defined(s) THEN qstatus' = "undef-temp" /\ UNCHANGED tmp
                     ELSE SetTmp(p.res, p.cls, Val(s)) /\ UNCHANGED qstatus
  /\ ip' = 1 /\ Tick
  /\ UNCHANGED <<pid, fn, blk, prev, allocs, frames, qout, qret>>


IArith ==
  /\ InInst /\ I.op \in BinOps \cup CmpOps \cup ExtOps \cup {"neg", "copy"} /\ ~IsFloatCalc
  /\ IF ~ArgsDefined THEN Stop("undef-temp")
     ELSE LET a == Val(I.args[1]) IN
       IF I.op \in BinOps THEN
         LET b == Val(I.args[2]) IN
         IF I.op \in DivOps /\ DivTraps(I.op, I.cls, a, b) THEN Stop("div-trap")
         ELSE SetTmp(I.res, I.cls, BinRes(I.op, I.cls, a, b)) /\ Advance /\ Tick
              /\ UNCHANGED <<allocs, frames, qout, qstatus, qret>>
       ELSE /\ SetTmp(I.res, I.cls,
                      IF I.op \in CmpOps THEN (IF CmpTrue(I.op, a, Val(I.args[2])) THEN One ELSE Zero)
                      ELSE IF I.op \in ExtOps THEN ExtRes(I.op, a)
                      ELSE IF I.op = "neg" THEN Neg(a) ELSE a)
            /\ Advance /\ Tick /\ UNCHANGED <<allocs, frames, qout, qstatus, qret>>

ILoad ==
  /\ InInst /\ I.op \in LoadOps
  /\ IF ~ArgsDefined THEN Stop("undef-temp")
     ELSE LET a == Val(I.args[1])  n == LoadSize(I.op) IN
       IF ~AddrOK(a, n) THEN Stop("memfault")
       ELSE LET raw == Load(a, n) IN
            /\ SetTmp(I.res, I.cls, IF LoadSigned(I.op) THEN SExtBits(raw, 8 * n) ELSE raw)
            /\ Advance /\ Tick /\ UNCHANGED <<allocs, frames, qout, qstatus, qret>>

IStore ==
  /\ InInst /\ I.op \in StoreOps
  /\ IF ~ArgsDefined THEN Stop("undef-temp")
     ELSE LET v == Val(I.args[1])  a == Val(I.args[2])  n == StoreSize(I.op) IN
       IF ~AddrOK(a, n) THEN Stop("memfault")
       ELSE /\ allocs' = Store(a, n, v)
            /\ Advance /\ Tick /\ UNCHANGED <<tmp, frames, qout, qstatus, qret>>

IAlloc ==
  /\ InInst /\ I.op \in AllocOps
  /\ IF ~ArgsDefined THEN Stop("undef-temp")
     ELSE LET sz == Val(I.args[1]) IN
       IF ~FitsNat31(sz) \/ Lo31(sz) > 65536 THEN Stop("alloc-too-big")
       ELSE LET base == NextBaseOf(allocs)
            IN /\ allocs' = Append(allocs, [base |-> base, size |-> Lo31(sz), live |-> TRUE, frame |-> Len(frames) + 1,
                                            bytes |-> [k \in 1..Lo31(sz) |-> 0]])
               /\ SetTmp(I.res, "l", W(base))
               /\ Advance /\ Tick /\ UNCHANGED <<frames, qout, qstatus, qret>>

(* call of $obs: the observation point *)
ICallObs ==
  /\ InInst /\ I.op = "call" /\ I.callee.t = "glob" /\ I.callee.n = "obs"
  /\ IF \E k \in 1..Len(I.cargs) : ~Defined(I.cargs[k].val) THEN Stop("undef-temp")
     ELSE /\ qout' = Append(qout, Norm(I.cargs[1].cls, Val(I.cargs[1].val)))
          /\ Advance /\ Tick /\ UNCHANGED <<tmp, allocs, frames, qstatus, qret>>

CalleeIdx ==     \* index of the called function, 0 if not a function of this module
  IF I.callee.t = "glob" THEN (IF HasFunc(I.callee.n) THEN FuncIdx(I.callee.n) ELSE 0)
  ELSE IF Defined(I.callee) /\ FitsNat31(Val(I.callee)) /\ Lo31(Val(I.callee)) % 16 = 0
          /\ Lo31(Val(I.callee)) \div 16 \in 1..Len(Funcs) THEN Lo31(Val(I.callee)) \div 16 ELSE 0

RECURSIVE CopyArgs(_, _, _, _)
CopyArgs(k, al, vals, ok) ==
  IF k > Len(I.cargs) \/ ~ok THEN [al |-> al, vals |-> vals, ok |-> ok]
  ELSE LET c == I.cargs[k] IN
       IF ~IsAgg(c.cls) THEN CopyArgs(k + 1, al, Append(vals, Val(c.val)), ok)
       ELSE LET sz == TypeSize(c.cls)  src == Val(c.val) IN
            IF ~AddrOK(src, sz) THEN [al |-> al, vals |-> vals, ok |-> FALSE]
            ELSE LET base == NextBaseOf(al) IN
                 CopyArgs(k + 1, Append(al, [base |-> base, size |-> sz, live |-> TRUE, frame |-> Len(frames) + 2, bytes |-> ReadBytes(src, sz)]),
                          Append(vals, W(base)), ok)

ICall ==
  /\ InInst /\ I.op = "call" /\ ~(I.callee.t = "glob" /\ I.callee.n = "obs")
  /\ IF \E k \in 1..Len(I.cargs) : ~Defined(I.cargs[k].val) THEN Stop("undef-temp")
     ELSE IF CalleeIdx = 0 THEN Stop("unsupported-extern-call")
     ELSE LET g == Funcs[CalleeIdx] IN
       IF g.variadic THEN Stop("unsupported-float-or-vararg")
       ELSE IF Len(g.params) # Len(I.cargs) \/ Len(frames) >= 40 THEN Stop(IF Len(frames) >= 40 THEN "stack-depth" ELSE "call-arity")
       ELSE IF \E k \in 1..Len(I.cargs) : I.cargs[k].cls \in {"s", "d"} THEN Stop("unsupported-float-or-vararg")
       ELSE LET ca == CopyArgs(1, allocs, <<>>, TRUE) IN     \* an aggregate argument is passed as a pointer to a copy owned by the callee
            IF ~ca.ok THEN Stop("memfault")
            ELSE /\ frames' = Append(frames, [fn |-> fn, blk |-> blk, ip |-> ip, prev |-> prev, tmp |-> tmp, res |-> I.res, cls |-> I.cls])
                 /\ tmp' = [n \in {g.params[k].name : k \in 1..Len(g.params)} |->
                              LET k == CHOOSE k \in 1..Len(g.params) : g.params[k].name = n IN Norm(g.params[k].cls, ca.vals[k])]
                 /\ allocs' = ca.al
                 /\ fn' = CalleeIdx /\ blk' = 1 /\ ip' = 0 /\ prev' = ""
                 /\ Tick /\ UNCHANGED <<pid, qout, qstatus, qret>>


AtJump == Running /\ ip = NInst + 1 /\ fuel > 0
J == B.jump

IJmp ==
  /\ AtJump /\ (IF Len(J) = 0 THEN TRUE ELSE J[1].k = "jmp")   \* (a disjunction would not short-circuit in an action)
  /\ LET target == IF Len(J) = 0 THEN (IF blk < Len(F.blocks) THEN F.blocks[blk + 1].label ELSE "") ELSE J[1].targets[1] IN
       IF ~HasBlock(F, target) THEN Stop("jump-to-missing-block")
       ELSE /\ blk' = BlockIdx(F, target) /\ ip' = 0 /\ prev' = B.label
            /\ Tick /\ UNCHANGED <<pid, fn, tmp, allocs, frames, qout, qstatus, qret>>

IJnz ==
  /\ AtJump /\ Len(J) = 1 /\ J[1].k = "jnz"
  /\ IF ~Defined(J[1].arg[1]) THEN Stop("undef-temp")
     ELSE LET c == TruncBits(Val(J[1].arg[1]), 32)
              target == IF IsZero(c) THEN J[1].targets[2] ELSE J[1].targets[1] IN
       IF ~HasBlock(F, target) THEN Stop("jump-to-missing-block")
       ELSE /\ blk' = BlockIdx(F, target) /\ ip' = 0 /\ prev' = B.label
            /\ Tick /\ UNCHANGED <<pid, fn, tmp, allocs, frames, qout, qstatus, qret>>

IHlt == AtJump /\ Len(J) = 1 /\ J[1].k = "hlt" /\ Stop("hlt")

IRet ==
  /\ AtJump /\ Len(J) = 1 /\ J[1].k = "ret"
  /\ IF Len(J[1].arg) = 1 /\ ~Defined(J[1].arg[1]) THEN Stop("undef-temp")
     ELSE LET rv == IF Len(J[1].arg) = 1 THEN Val(J[1].arg[1]) ELSE Zero
              depth == Len(frames) + 1
              dead == [i \in 1..Len(allocs) |-> IF allocs[i].frame = depth THEN [allocs[i] EXCEPT !.live = FALSE] ELSE allocs[i]] IN
       IF Len(frames) = 0
       THEN /\ qstatus' = "exit" /\ qret' = Norm(IF F.ret = "" THEN "w" ELSE F.ret, rv)
            /\ allocs' = dead /\ UNCHANGED <<pid, fn, blk, ip, prev, tmp, frames, qout, fuel>>
       ELSE LET fr == frames[Len(frames)] IN
            IF fr.res # "" /\ IsAgg(fr.cls)
            THEN \* aggregate result: the caller receives a pointer to a copy it owns
                 LET sz == TypeSize(fr.cls) IN
                 IF Len(J[1].arg) = 0 THEN Stop("undef-temp")          \* the value of a bare ret is unspecified: using it is an error
                 ELSE IF ~AddrOK(rv, sz) THEN Stop("memfault")
                 ELSE LET base == NextBaseOf(allocs) IN
                      /\ fn' = fr.fn /\ blk' = fr.blk /\ ip' = fr.ip + 1 /\ prev' = fr.prev
                      /\ tmp' = (fr.res :> W(base)) @@ fr.tmp
                      /\ frames' = SubSeq(frames, 1, Len(frames) - 1)
                      /\ allocs' = Append(dead, [base |-> base, size |-> sz, live |-> TRUE, frame |-> Len(frames), bytes |-> ReadBytes(rv, sz)])
                      /\ Tick /\ UNCHANGED <<pid, qout, qstatus, qret>>
            ELSE /\ fn' = fr.fn /\ blk' = fr.blk /\ ip' = fr.ip + 1 /\ prev' = fr.prev
                 /\ tmp' = IF fr.res = "" THEN fr.tmp ELSE (fr.res :> Norm(fr.cls, rv)) @@ fr.tmp
                 /\ frames' = SubSeq(frames, 1, Len(frames) - 1)
                 /\ allocs' = dead
                 /\ Tick /\ UNCHANGED <<pid, qout, qstatus, qret>>

OutOfFuel == Running /\ fuel = 0 /\ Stop("out-of-fuel")

QInit ==
  /\ pid \in 1..Len(Progs)
  /\ fn = FuncIdx("main") /\ blk = 1 /\ ip = 0 /\ prev = "" /\ tmp = <<>>
  /\ allocs = InitAllocs /\ frames = <<>> /\ qout = <<>> /\ qstatus = "run" /\ qret = Zero
  /\ fuel = 20000

QNext == IPhi \/ IArith \/ ILoad \/ IStore \/ IAlloc \/ ICallObs \/ ICall \/ IFloat \/ IVararg \/ IJmp \/ IJnz \/ IHlt \/ IRet \/ OutOfFuel

QSpec == QInit /\ [][QNext]_qvars

QDone == qstatus # "run"
QEmit == QDone => PrintT("VCASE " \o ToJson([pid |-> pid, status |-> qstatus, out |-> qout, ret |-> qret]))
MemSafe == qstatus # "memfault"
NoUndef == qstatus \notin {"undef-temp", "phi-no-pred", "jump-to-missing-block", "call-arity"}
=============================================================================
