------------------------------ MODULE Trace_Ids ------------------------------
(* Flow B for Ids.tla (C20): the id-allocation events written by the H10 hook   *)
(* of qbe.c (mkblock, mkglobal, functemp, mkfunc, emittype) during real          *)
(* executions must be a behaviour of Ids.tla: every id the compiler issued is    *)
(* the value of the corresponding counter after the same sequence of calls.      *)
(*   {"e":"id","k":"blk|glob|tmp|func|type","id":N,"ctr":0|1,"a":<address,       *)
(*    renumbered by the harness>}      {"e":"Reset"} separates executions        *)
(* The logged address is bound to the action's address parameter: whatever it    *)
(* is, the id must be the counter's.                                           *)
EXTENDS Naturals, Sequences, FiniteSets, TLC, Json, IOUtils

Trace == ndJsonDeserialize(IOEnv.TRACE)
NT == Len(Trace)

VARIABLES blk, glob, typ, tmp, calls, ids, l

I == INSTANCE Ids WITH MaxCalls <- 0, Addrs <- Nat, Dev_AddrInId <- FALSE, KeepHist <- FALSE

Init == I!Init /\ l = 1

Step ==
  /\ l <= NT
  /\ LET ev == Trace[l] IN
       \/ /\ ev.e = "id"
          /\ \/ ev.k = "blk"  /\ I!MkBlock(ev.a)
             \/ ev.k = "func" /\ I!MkFunc(ev.a)
             \/ ev.k = "tmp"  /\ I!FuncTemp(ev.a)
             \/ ev.k = "glob" /\ ev.ctr = 1 /\ I!MkGlobalLocal(ev.a)
             \/ ev.k = "glob" /\ ev.ctr = 0 /\ I!MkGlobalNamed(ev.a)
             \/ ev.k = "type" /\ I!EmitType(ev.a)
          /\ ids'[1] = ev.id
       \/ /\ ev.e = "Reset"
          /\ blk' = 0 /\ glob' = 0 /\ typ' = 0 /\ tmp' = 0 /\ calls' = << >> /\ ids' = << >>
  /\ l' = l + 1

Spec == Init /\ [][Step]_<<blk, glob, typ, tmp, calls, ids, l>>

Consumed == TLCGet("stats").diameter - 1
TraceAccepted ==
  IF Consumed >= NT THEN TRUE
  ELSE /\ PrintT("REJECT " \o ToJson([line |-> Consumed + 1, event |-> Trace[Consumed + 1]]))
       /\ FALSE
=============================================================================
