\* -simulate: 6 keys, mapinit(8), capacities 8 -> 16, hash values {0,7,8,15}: probe chains that wrap at 8 and at 16 and cross the growth
SPECIFICATION Spec
CONSTANTS
  NKeys = 6
  InitCap = 8
  CapMax = 16
  Buckets = {0, 7, 8, 15}
  SortedH = FALSE
  PutVals = {0, 1, 2}
  AllowKeep = TRUE
  AllowReset = FALSE
  MaxOps = 20
INVARIANTS Inv_Type Inv_FreeSlot Inv_Load Inv_Len Inv_NoDup Inv_Dom Inv_Cluster Inv_Get Inv_RetIndepOfH Inv_Emit
CHECK_DEADLOCK FALSE
