SPECIFICATION RSpec
INVARIANT REmit
CHECK_DEADLOCK FALSE
