\* generator (-simulate): selection/iteration statements with unbraced substatements whose expressions declare tags and
\* enumeration constants; uses in sibling substatements and after the statement
SPECIFICATION CSpec
CONSTANTS
  Names = {1, 2, 3}
  MaxScopes = 60
  MaxDepth = 7
  MaxIds = 0
  MaxLen = 50
  Deep = FALSE
  Feat = {"label", "for", "func", "stmt"}
INVARIANTS Inv_Lexical Inv_Stack Inv_Emit
CHECK_DEADLOCK FALSE
