\* generator (-simulate): declarators spelled like visible typedef names after every kind of type specifier (typedef name
\* incl. the same one, struct/union/enum specifier, _Bool, typeof, arithmetic), parameters `T T`, members `U T; T U;`
SPECIFICATION CSpec
CONSTANTS
  Names = {1, 2, 3}
  MaxScopes = 60
  MaxDepth = 5
  MaxIds = 0
  MaxLen = 45
  Deep = FALSE
  Feat = {"proto", "func", "tdspec"}
INVARIANTS Inv_Lexical Inv_LexicalTS Inv_Stack Inv_Emit
CHECK_DEADLOCK FALSE
