SPECIFICATION CSpec
INVARIANT CEmit
CHECK_DEADLOCK FALSE
