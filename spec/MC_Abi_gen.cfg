SPECIFICATION Spec
CONSTANTS
  Mode = "gen"
  MaxLen = 4
  MaxPool = 3
  MaxSize = 64
  Raise = FALSE
  Devs = {}
  Widths = {0, 1, 2, 3, 5, 7, 8, 9, 13, 15, 16, 17, 24, 31, 32, 33, 48, 63, 64}
  Emit = TRUE
  CharSigned = TRUE
  EUSuffixed = {}
  GenClasses = {"scalar", "array", "bitfield", "nested", "anon"}
  GenPacked = FALSE
  McSel = "full"
  CheckSim = FALSE
CHECK_DEADLOCK FALSE
