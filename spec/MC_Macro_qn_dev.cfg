\* PPModel with the known deviations on: cases are emitted for replay into the real binary
SPECIFICATION Spec
CONSTANTS
  Devs <- KnownDevs
  Space = "qn"
  Modes = {"E", "C"}
  EmitCases = TRUE
  PeekBudget = 0
INVARIANTS Inv_Ctx Inv_End Inv_Conform
CHECK_DEADLOCK FALSE
