---------------------------- MODULE Trace_Types ----------------------------
(* Flow B of C05: H3 events recorded by the hooks build of cproc (type.c /     *)
(* expr.c, guard CPROC_VERIF) while it compiles real sources are validated,    *)
(* one event per step, against TypeModel (the shipped code, deviations on) and *)
(* - wherever no deviation fires - against the declarative CTypes operators.   *)
(*   Reset{targ}                      a new execution (cproc -t targ)           *)
(*   prom{t,w,res}                    typepromote(t, w) returned res            *)
(*   ucv{t1,w1,t2,w2,res}             typecommonreal returned res               *)
(*   bin{op,lt,lw,rt,rw,res}          mkbinaryexpr: operand types at entry,     *)
(*                                    result type at return                      *)
(*   cond{lt,lw,rt,rw,lnull,rnull,res} condexpr: types / bit-field widths of the *)
(*                                    2nd/3rd operand, null-pointer-constant     *)
(*                                    flags, result type                          *)
(* Types are logged by name: basic types by identity, "enum:<base>", and the    *)
(* kind only for derived types ("ptr", "struct", ...): pointer operands are     *)
(* validated at kind level with a representative pointer type.                  *)
(* Accepted iff every event is consumed (POSTCONDITION, -workers 1); the index   *)
(* of the first event that is not a behaviour of the model is left in TLC        *)
(* register 42.                                                                  *)
EXTENDS TypeModel, IOUtils, Json

CONSTANTS Devs

VARIABLES l, targ
tvars == <<l, targ>>

TraceLog == ndJsonDeserialize(IOEnv.TRACE)
NT == Len(TraceLog)
ASSUME TLCSet(41, FALSE) /\ TLCSet(42, 0)
Ev == TraceLog[l]
IsEvent(n) == l <= NT /\ TraceLog[l].e = n
Adv == /\ l' = l + 1
       /\ TLCSet(42, l)
       /\ IF l = NT THEN TLCSet(41, TRUE) ELSE TRUE

(* ---- names <-> types ---------------------------------------------------- *)
RepPtr == Ptr(B("char"))
EnumRep(base) ==
  CASE base = "uint" -> "eu" [] base = "int" -> "es" [] base = "ulong" -> "eul" [] base = "long" -> "el"
    [] base \in IntKinds -> "ef_" \o base [] OTHER -> "none"
EnumTwin(tag) == CASE tag = "eu" -> "eu2" [] tag = "es" -> "es2" [] tag = "eul" -> "eul2" [] OTHER -> tag
IsEnumName(n) == Len(n) > 5 /\ SubSeq(n, 1, 5) = "enum:"
EnumBaseOfName(n) == SubSeq(n, 6, Len(n))
Known(n) == n \in BasicKinds \/ n \in {"ptr", "void", "struct", "union"} \/ (IsEnumName(n) /\ EnumRep(EnumBaseOfName(n)) # "none")
TypeOfName(n) ==
  IF n \in BasicKinds \/ n = "void" THEN B(n)
  ELSE IF n = "ptr" THEN RepPtr
  ELSE IF IsEnumName(n) THEN En(EnumRep(EnumBaseOfName(n)))
  ELSE IF n = "struct" THEN St("S1")
  ELSE Un("U1")
TName(t) ==
  IF t.k = "enum" THEN "enum:" \o EnumBase(t.tag)
  ELSE IF t.k = "ptr" THEN "ptr"
  ELSE IF t.k \in {"struct", "union"} THEN t.k
  ELSE IF t.k = "error" THEN "error"
  ELSE t.k
IsArithName(n) == n \in BasicKinds \/ IsEnumName(n)
D(t, w, npc) == [t |-> t, w |-> w, lv |-> FALSE, npc |-> npc]

OpGroup(op) ==
  LET hits == {i \in 1..Len(M_BinGroups) : \E j \in 1..Len(M_GroupOps(M_BinGroups[i])) : M_GroupOps(M_BinGroups[i])[j] = op}
  IN IF hits = {} THEN "none" ELSE M_BinGroups[CHOOSE i \in hits : TRUE]

(* ---- events --------------------------------------------------------------- *)
Reset == IsEvent("Reset") /\ Ev.targ \in Targets /\ targ' = Ev.targ /\ Adv

PromOK ==
  LET t == TypeOfName(Ev.t) IN
  /\ Known(Ev.t)
  /\ IF IsArithName(Ev.t)
     THEN /\ Ev.res = TName(M_typepromote(t, Ev.w, targ))
          /\ Ev.res = TName(DefaultArgPromote(t, Ev.w, targ))            \* 6.3.1.1p2 (+ float -> double, 6.5.2.2p6)
     ELSE Ev.res = Ev.t /\ Ev.w = 0
Prom == IsEvent("prom") /\ PromOK /\ UNCHANGED targ /\ Adv

UcvOK ==
  LET t1 == TypeOfName(Ev.t1)
      t2 == TypeOfName(Ev.t2)
      f(DD) == M_typecommonreal(t1, Ev.w1, t2, Ev.w2, targ, DD).t
  IN /\ IsArithName(Ev.t1) /\ IsArithName(Ev.t2) /\ Known(Ev.t1) /\ Known(Ev.t2)
     \* the answer C11 requires is always accepted; the answer of the shipped code only where a named deviation fires
     /\ \/ Ev.res = TName(UAC(t1, Ev.w1, t2, Ev.w2, targ))
        \/ (f(Devs) # f({}) /\ Ev.res = TName(f(Devs)))
     /\ f({}) = UAC(t1, Ev.w1, t2, Ev.w2, targ)
Ucv == IsEvent("ucv") /\ UcvOK /\ UNCHANGED targ /\ Adv

BinOK ==
  LET g == OpGroup(Ev.op)
      lt == TypeOfName(Ev.lt)
      rt == TypeOfName(Ev.rt)
      \* an integer operand facing a pointer in == / != got there as a null pointer constant (or the call is an error)
      eqp == g = "equality" /\ (Ev.lt = "ptr" \/ Ev.rt = "ptr")
      x == D(lt, Ev.lw, eqp /\ IsArithName(Ev.lt))
      y == D(rt, Ev.rw, eqp /\ IsArithName(Ev.rt))
      f(DD) == M_mkbinaryexpr(g, x, y, targ, DD).t
  IN /\ g # "none" /\ Known(Ev.lt) /\ Known(Ev.rt)
     /\ \/ Ev.res = TName(TypeOfBinary(Ev.op, x, y, targ))
        \/ (f(Devs) # f({}) /\ Ev.res = TName(f(Devs)))
Bin == IsEvent("bin") /\ BinOK /\ UNCHANGED targ /\ Adv

CondOK ==
  LET lt == TypeOfName(Ev.lt)
      rt == TypeOfName(Ev.rt)
      x == D(lt, Ev.lw, Ev.lnull = 1)
      y == D(rt, Ev.rw, Ev.rnull = 1)
      \* two operands logged with the same enum name may be the same enum type or two enum types with the same base
      y2 == IF IsEnumName(Ev.rt) /\ Ev.lt = Ev.rt THEN D(En(EnumTwin(rt.tag)), 0, FALSE) ELSE y
      f(DD, yy) == M_condexpr(x, yy, targ, DD).t
      ok(yy) == \/ Ev.res = TName(TypeOfCond(x, yy, targ))
                \/ (f(Devs, yy) # f({}, yy) /\ Ev.res = TName(f(Devs, yy)))
  IN /\ Known(Ev.lt) /\ Known(Ev.rt)
     /\ ok(y) \/ ok(y2)
Cond == IsEvent("cond") /\ CondOK /\ UNCHANGED targ /\ Adv

TInit == l = 1 /\ targ = "x86_64-sysv"
TNext == Reset \/ Prom \/ Ucv \/ Bin \/ Cond
TSpec == TInit /\ [][TNext]_tvars
TraceAccepted == TLCGet(41) /\ TLCGet("stats").diameter > 0
=============================================================================
