SPECIFICATION Spec
CONSTANTS
  TopTypes = {"int", "ptr", "AI3", "AIX", "AC4", "ACX", "APX", "MC", "B", "N", "A", "U", "SA", "SC", "SW", "B2", "AW2", "AH2", "MW", "SW2", "SH", "double", "float", "AD2", "SD", "UD", "UB1", "UB2", "UB3", "SAL", "AS"}
  MaxTok = 5
  MaxIdx = 2
  AllowAgg = FALSE
  DevOn = {}
  Salt = 0
  EmitCases = FALSE
  FormsOn = {"plain"}
  Prune = FALSE
INVARIANTS TypeOK StackDepth Refinement
CHECK_DEADLOCK FALSE
