\* every ordered pair of literals over {0,'a','b',0x161}, <= 2 elements, widths 1/2/4
SPECIFICATION Spec
CONSTANTS
  Widths = {1, 2, 4}
  Elems = {0, 97, 98, 353}
  MaxEls = 2
  Dev_PoolKeyInElements = FALSE
  Dev_PoolKeyIgnoresWidth = FALSE
  MaxUses = 2
INVARIANTS Inv_ModelServes Inv_FixedServes Inv_FixedSharesEqualOnly Inv_ShippedFailuresAreContent Inv_Emit
CHECK_DEADLOCK FALSE
