\* deviations on = LogicalReturnsOperand, BoolCastTruncates, FloatToUnsignedRejectsNeg, FloatCondNotFolded, UnevaluatedOperandFolded, NoDivisionGuard, CondSameTypeNoPromotion, BareAddressMinusRejected   (template: harness/props/c04.notes.md)
SPECIFICATION Spec
CONSTANTS
  Real = TRUE
  CharSigned = TRUE
  Families = {"binsame", "binmix", "fbin", "un", "cast", "condfew", "unev", "nest", "num", "leaf", "addr", "comp"}
  Level = 2
  Dev_LogicalReturnsOperand = TRUE
  Dev_BoolCastTruncates = TRUE
  Dev_FloatToUnsignedRejectsNeg = TRUE
  Dev_FloatCondNotFolded = TRUE
  Dev_UnevaluatedOperandFolded = TRUE
  Dev_NoDivisionGuard = TRUE
  Dev_CondSameTypeNoPromotion = TRUE
  Dev_BareAddressMinusRejected = TRUE
INVARIANTS Inv_Emit
CHECK_DEADLOCK FALSE
