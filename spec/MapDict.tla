----------------------------- MODULE MapDict -----------------------------
(* Declarative dictionary: what every client of /repo/map.c (scope.c, pp.c,   *)
(* qbe.c:funcgoto, decl.c:stringdecl) relies on.  Constant-level module (no   *)
(* variables) so that Map.tla (design-level model), Trace_Map.tla (flow B on   *)
(* recorded histories) and Scope.tla can all use the same definitions.         *)
(* Property C16.                                                               *)
EXTENDS Naturals, Integers, FiniteSets, TLC

NULL == 0          \* the null pointer: value of a slot that was created and never assigned
KEEP == -1         \* mapput argument "caller does not store through the returned pointer"

EmptyDict == << >>                                   \* function with empty domain

DHas(d, k) == k \in DOMAIN d
DGet(d, k) == IF DHas(d, k) THEN d[k] ELSE NULL      \* mapget(): NULL for an absent key *and* for a NULL value
DOld(d, k) == DGet(d, k)                             \* *mapput() before the caller assigns: NULL for a new key
DPut(d, k, a) ==                                     \* mapput() followed by `*entry = a` unless a = KEEP
  IF DHas(d, k)
  THEN (IF a = KEEP THEN d ELSE [d EXCEPT ![k] = a])
  ELSE d @@ (k :> (IF a = KEEP THEN NULL ELSE a))
DLen(d) == Cardinality(DOMAIN d)                     \* map.len: keys ever put (a NULL value still counts)

(* Growth rule of mapput: capacity in force after a mapput that found `len`    *)
(* keys in a table of `cap` slots (the test precedes the insertion).           *)
CapAfterPut(cap, len) == IF cap \div 2 < len THEN 2 * cap ELSE cap

IsPow2(n) == \E e \in 0..30 : n = 2^e
=============================================================================
