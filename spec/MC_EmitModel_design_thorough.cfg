SPECIFICATION Spec
CONSTANTS
  Labels = {"a", "b"}
  MaxCalls = 5
  MaxBlocks = 6
  ApiLevel = TRUE
  Structured = FALSE
  DevUndefinedGoto = FALSE
  DevDuplicateLabel = FALSE
  EmitCases = FALSE
INVARIANTS Inv_Terminates Inv_BlocksTerminated Inv_JumpsTargetExisting Inv_LabelsUnique Inv_NothingLost Inv_EndIsPlaced
VIEW ViewNoHist
CHECK_DEADLOCK FALSE
