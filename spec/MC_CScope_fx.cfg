\* generator (-simulate): every function definition has several function declarators (function returning pointer to
\* function, function-pointer parameters with named parameters); which parameter list is the body's scope
SPECIFICATION CSpec
CONSTANTS
  Names = {1, 2, 3}
  MaxScopes = 60
  MaxDepth = 5
  MaxIds = 0
  MaxLen = 40
  Deep = FALSE
  Feat = {"macro", "label", "proto", "fwd", "funcx"}
INVARIANTS Inv_Lexical Inv_Stack Inv_Emit
CHECK_DEADLOCK FALSE
