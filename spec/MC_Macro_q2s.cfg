\* design-level check: PPModel with every deviation off refines the declarative Expand on space "q2s"
SPECIFICATION Spec
CONSTANTS
  Devs <- NoDevs
  Space = "q2s"
  Modes = {"E", "C"}
  EmitCases = FALSE
INVARIANTS Inv_Ctx Inv_End Inv_Conform
CHECK_DEADLOCK FALSE
