SPECIFICATION Spec
CONSTANTS
  B = 4
  MaxBlocks = 4
  Dev_ReadErrIsEOF = FALSE
INVARIANTS TypeOK Inv_ExitCodes Inv_Conservation Inv_ZeroMeansDelivered Inv_IOFaultReported Inv_UsageIsTwo Inv_ChunkShape Inv_Emit
PROPERTIES Terminates
CHECK_DEADLOCK FALSE
