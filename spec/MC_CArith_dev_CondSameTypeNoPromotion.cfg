\* deviations on = CondSameTypeNoPromotion   (template: harness/props/c04.notes.md)
SPECIFICATION Spec
CONSTANTS
  Real = FALSE
  CharSigned = TRUE
  Families = {"condfew"}
  Level = 1
  Dev_LogicalReturnsOperand = FALSE
  Dev_BoolCastTruncates = FALSE
  Dev_FloatToUnsignedRejectsNeg = FALSE
  Dev_FloatCondNotFolded = FALSE
  Dev_UnevaluatedOperandFolded = FALSE
  Dev_NoDivisionGuard = FALSE
  Dev_CondSameTypeNoPromotion = TRUE
  Dev_BareAddressMinusRejected = FALSE
  Dev_SwapReassocClobbers = FALSE
INVARIANTS Inv_Refines
CHECK_DEADLOCK FALSE
