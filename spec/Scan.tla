-------------------------------- MODULE Scan --------------------------------
(* Property C13.  Two descriptions of "text -> token sequence":                  *)
(*                                                                               *)
(*  Lex(t)      declarative, C11 5.1.1.2 phases 2-3 + 6.4: delete every           *)
(*              backslash-newline, then repeatedly skip white space / comments    *)
(*              and take the longest prefix that is a preprocessing token          *)
(*              (Tok!MaxMunch); keywords by table lookup in the C11/C23/GNU list.  *)
(*  the scanner an action system transcribed from /repo/scan.c (nextchar, op2,     *)
(*              op3, op4, scankind's switch with the lookahead/restore of `..`,     *)
(*              number() with allowsign, ident(), prefix handling, charconst,       *)
(*              stringlit, escape, comment) and pp.c:keyword() as a bisection       *)
(*              over the table in the order it has in pp.c (read at run time).      *)
(*                                                                               *)
(* Known deviations of the code from 6.4 are named members of Devs; with           *)
(* Devs = {} the scanner is the code "as it would be without them" and must        *)
(* equal Lex (Inv_Refines); with Devs = AllDevs it is the code as it is and the     *)
(* set `fired` says which deviations took part in a result.                         *)
EXTENDS Tok, Json, IOUtils, SequencesExt

CONSTANTS Chunks,      \* set of texts a body is built from (single characters or longer pieces)
          MaxLen,      \* bound on the number of chunks of a body
          MinLen,      \* bodies shorter than this are not scanned (simulation mode)
          Variants,    \* subset of {"plain","splice","splice2","bcmt","bcmtnl","lcmt"}
          VarLen,      \* variants other than "plain" are applied to bodies of at most this many chunks
          Mode,        \* "alpha": bodies from Chunks;  "kw": bodies are keyword spellings and their perturbations
          PerturbChars,\* characters used for substitution / insertion in "kw" mode
          Devs,        \* deviations switched on
          Emit         \* TRUE: print one VCASE line per finished text

AllDevs == {"NoDigraphs", "NoUCNIdent", "NoUCNEscape", "NumberSignRun"}

VARIABLES body,   \* sequence of chunks chosen so far
          src,    \* the text being scanned (leader, body with variant applied, new-line)
          sc,     \* scanner state (struct scanner + position in the file)
          out,    \* tokens delivered so far: <<kind, spelling, space>>
          phase,  \* "build" | "scan" | "done" | "error"
          acts    \* names of the scan actions taken on this text (vacuity accounting, emitted with the case)
vars == <<body, src, sc, out, phase, acts>>

Leader == <<";", " ">>

(* ====================================================================== *)
(* Declarative side                                                        *)

(* phase 2: each backslash immediately followed by new-line is deleted with it *)
Phase2(t) ==
  LET keep(i) == /\ ~(t[i] = BS /\ i < Len(t) /\ t[i + 1] = NL)
                 /\ ~(t[i] = NL /\ i > 1 /\ t[i - 1] = BS)
      idx == SetToSortSeq({i \in 1..Len(t) : keep(i)}, LAMBDA a, b : a < b)
  IN [j \in 1..Len(idx) |-> t[idx[j]]]

Trigraph3 == {"=", "(", "/", ")", SQ, "<", "!", ">", "-"}
HasTrigraph(t) == \E i \in 1..(Len(t) - 2) : t[i] = "?" /\ t[i + 1] = "?" /\ t[i + 2] \in Trigraph3

(* phase 3.  Result: [res |-> "ok" | "error" | "undef", toks |-> sequence of <<kind, spelling, space>>] *)
(*   "error": a ' or " that cannot start a literal, a bad escape, an unterminated comment       *)
(*            (6.4p3 / 5.1.1.2p3: no meaning is defined; a diagnostic is demanded here)           *)
(*   "undef": the model takes no position (see Tok.tla header)                                     *)
RECURSIVE LexFrom(_, _, _, _)
LexFrom(u, i, sp, acc) ==
  IF i > Len(u) THEN [res |-> "ok", toks |-> acc]
  ELSE LET c == u[i] IN
    IF c \in White THEN LexFrom(u, i + 1, TRUE, acc)
    ELSE IF c = NL THEN LexFrom(u, i + 1, FALSE, Append(acc, <<"TNEWLINE", <<>>, sp>>))
    ELSE IF StartsWith(u, i, <<"/", "*">>) THEN
      LET ends == {j \in (i + 2)..(Len(u) - 1) : u[j] = "*" /\ u[j + 1] = "/"} IN
      IF ends = {} THEN [res |-> "error", toks |-> acc]
      ELSE LexFrom(u, SetMin(ends) + 2, TRUE, acc)
    ELSE IF StartsWith(u, i, <<"/", "/">>) THEN
      LET nls == {j \in i..Len(u) : u[j] = NL} IN
      IF nls = {} THEN [res |-> "undef", toks |-> acc]          \* file not ending in new-line
      ELSE LexFrom(u, SetMin(nls), TRUE, acc)
    ELSE
      LET n == MaxMunch(u, i) IN
      IF n > 0 THEN
        LET l == Sub(u, i, n) IN
        IF l \in KeywordDontCare THEN [res |-> "undef", toks |-> acc]
        ELSE LexFrom(u, i + n, FALSE, Append(acc, <<KindOf(l), SpellingOf(l), sp>>))
      ELSE IF c \in {SQ, DQ} THEN
        IF c = SQ /\ i < Len(u) /\ u[i + 1] = SQ THEN [res |-> "undef", toks |-> acc]   \* '' : 6.4p3 undefined, commonly passed through
        ELSE [res |-> "error", toks |-> acc]
      ELSE LexFrom(u, i + 1, FALSE, Append(acc, <<"TOTHER", <<c>>, sp>>))

Lex(t) ==
  IF HasTrigraph(t) \/ HasUnmodelledUCN(Phase2(t)) THEN [res |-> "undef", toks |-> <<>>]
  ELSE LET u == Phase2(t) IN
       IF u = <<>> \/ u[Len(u)] # NL \/ (Len(t) >= 2 /\ t[Len(t) - 1] = BS)   \* 5.1.1.2p2: must end in an unspliced new-line
       THEN [res |-> "undef", toks |-> <<>>]
       ELSE LexFrom(u, 1, FALSE, <<>>)

(* ====================================================================== *)
(* Implementation-shaped side: scan.c                                       *)

Dev(d) == d \in Devs

(* struct scanner; pos = index in the text of the next character getc() returns *)
Scanner0 == [pos |-> 1, chr |-> "NONE", line |-> 1, col |-> 0, buf |-> <<>>, usebuf |-> FALSE,
             saw |-> FALSE, err |-> "", fired |-> {}]

(* nextchar(): the for(;;) loop *)
RECURSIVE Fetch(_, _)
Fetch(t, s) ==
  IF s.pos > Len(t) THEN [s EXCEPT !.chr = "EOF", !.col = @ + 1]
  ELSE LET c == t[s.pos] IN
    IF c = NL THEN [s EXCEPT !.chr = c, !.pos = @ + 1, !.line = @ + 1, !.col = 0]
    ELSE IF c # BS THEN [s EXCEPT !.chr = c, !.pos = @ + 1, !.col = @ + 1]
    ELSE IF s.pos + 1 <= Len(t) /\ t[s.pos + 1] = NL
         THEN Fetch(t, [s EXCEPT !.pos = @ + 2, !.line = @ + 1, !.col = 0])     \* splice: both characters consumed
         ELSE [s EXCEPT !.chr = c, !.pos = @ + 1, !.col = @ + 1]                 \* ungetc(c)
NextChar(t, s) == Fetch(t, IF s.usebuf THEN [s EXCEPT !.buf = Append(@, s.chr)] ELSE s)
RECURSIVE NextChars(_, _, _)
NextChars(t, s, n) == IF n = 0 THEN s ELSE NextChars(t, NextChar(t, s), n - 1)
Fail(s, msg) == [s EXCEPT !.err = msg]
Fire(s, d) == [s EXCEPT !.fired = @ \cup {d}]

(* characters ahead of s.chr in the file, splices not removed (only used by the deviation-free variants) *)
AheadIs(t, s, p) == StartsWith(t, s.pos, p)
UCNAt(t, s) ==    \* s.chr is the backslash of a decided UCN; returns its length or 0
  IF s.chr # BS THEN 0
  ELSE IF \E x \in SafeUCN : Len(x) = 6 /\ AheadIs(t, s, Tail(x)) THEN 6
  ELSE IF \E x \in SafeUCN : Len(x) = 10 /\ AheadIs(t, s, Tail(x)) THEN 10
  ELSE 0

IsAlpha(c) == c \in Upper \cup Lower
IsDigit(c) == c \in Digit
IsAlnum(c) == IsAlpha(c) \/ IsDigit(c)

(* result of one pass through scankind up to `return` or `goto again` *)
Tok_(s, k) == [s |-> s, kind |-> k]
Again(s)   == [s |-> s, kind |-> "AGAIN"]

Op2(t, s, t1, t2) ==
  LET a == NextChar(t, s) IN
  IF a.chr # "=" THEN Tok_(a, t1) ELSE Tok_(NextChar(t, a), t2)
Op3(t, s, t1, t2, t3) ==
  LET c == s.chr
      a == NextChar(t, s) IN
  IF a.chr = "=" THEN Tok_(NextChar(t, a), t2)
  ELSE IF a.chr # c THEN Tok_(a, t1)
  ELSE Tok_(NextChar(t, a), t3)
Op4(t, s, t1, t2, t3, t4) ==
  LET c == s.chr
      a == NextChar(t, s) IN
  IF a.chr = "=" THEN Tok_(NextChar(t, a), t2)
  ELSE IF a.chr # c THEN Tok_(a, t1)
  ELSE LET b == NextChar(t, a) IN
       IF b.chr # "=" THEN Tok_(b, t3) ELSE Tok_(NextChar(t, b), t4)

(* ident(): while (isalnum(chr) || chr == '_') nextchar *)
RECURSIVE IdentLoop(_, _)
IdentLoop(t, s) ==
  IF IsAlnum(s.chr) \/ s.chr = "_" THEN IdentLoop(t, NextChar(t, s))
  ELSE IF UCNAt(t, s) > 0 THEN
         IF Dev("NoUCNIdent") THEN Fire(s, "NoUCNIdent")                        \* code stops the identifier here
         ELSE IdentLoop(t, NextChars(t, s, UCNAt(t, s)))
  ELSE s
Ident(t, s) == Tok_(IdentLoop(t, [s EXCEPT !.usebuf = TRUE]), "TIDENT")

(* number(): for (;;) { nextchar; switch (chr) ... } *)
RECURSIVE NumberLoop(_, _, _, _)
NumberLoop(t, s, allowsign, aftersign) ==     \* aftersign: the previous character was an accepted sign
  LET a == NextChar(t, s) IN
  IF a.chr \in {"e", "E", "p", "P"} THEN NumberLoop(t, a, TRUE, FALSE)
  ELSE IF a.chr \in {"+", "-"} THEN
         IF ~allowsign THEN a
         ELSE IF Dev("NumberSignRun")
              THEN NumberLoop(t, IF aftersign THEN Fire(a, "NumberSignRun") ELSE a, TRUE, TRUE)   \* code: allowsign is left set after a sign
              ELSE NumberLoop(t, a, FALSE, TRUE)
  ELSE IF a.chr \in {"_", "."} THEN NumberLoop(t, a, FALSE, FALSE)
  ELSE IF IsAlnum(a.chr) THEN NumberLoop(t, a, FALSE, FALSE)
  ELSE IF UCNAt(t, a) > 0 THEN
         IF Dev("NoUCNIdent") THEN Fire(a, "NoUCNIdent")
         ELSE NumberLoop(t, NextChars(t, a, UCNAt(t, a) - 1), FALSE, FALSE)
  ELSE a
Number(t, s) == Tok_(NumberLoop(t, [s EXCEPT !.usebuf = TRUE], FALSE, FALSE), "TNUMBER")

IsXDigit(c) == c \in HexDigit
IsODigit(c) == c \in OctDigit
RECURSIVE HexLoop(_, _)
HexLoop(t, s) == LET a == NextChar(t, s) IN IF IsXDigit(a.chr) THEN HexLoop(t, a) ELSE a     \* do nextchar while isxdigit
(* escape(): entered with chr = backslash *)
Escape(t, s) ==
  LET a == NextChar(t, s) IN
  IF a.chr = "x" THEN
    LET b == NextChar(t, a) IN
    IF ~IsXDigit(b.chr) THEN Fail(b, "invalid hexadecimal escape sequence") ELSE HexLoop(t, b)
  ELSE IF IsODigit(a.chr) THEN
    LET b == NextChar(t, a) IN
    IF IsODigit(b.chr) THEN
      LET c == NextChar(t, b) IN IF IsODigit(c.chr) THEN NextChar(t, c) ELSE c
    ELSE b
  ELSE IF a.chr \in SimpleEsc THEN NextChar(t, a)
  ELSE IF UCNAt(t, s) > 0 THEN
    IF Dev("NoUCNEscape") THEN Fail(Fire(a, "NoUCNEscape"), "invalid escape sequence")
    ELSE NextChars(t, a, UCNAt(t, s) - 1)
  ELSE Fail(a, "invalid escape sequence")

(* charconst() / stringlit(): q is the closing quote *)
RECURSIVE QuotedLoop(_, _, _)
QuotedLoop(t, s, q) ==
  IF s.err # "" THEN s
  ELSE IF s.chr = BS THEN QuotedLoop(t, Escape(t, s), q)
  ELSE IF s.chr = q THEN NextChar(t, s)
  ELSE IF s.chr = NL THEN Fail(s, "newline in literal")
  ELSE IF s.chr = "EOF" THEN Fail(s, "EOF in literal")
  ELSE QuotedLoop(t, NextChar(t, s), q)
CharConst(t, s) == Tok_(QuotedLoop(t, NextChar(t, [s EXCEPT !.usebuf = TRUE]), SQ), "TCHARCONST")
StringLit(t, s) == Tok_(QuotedLoop(t, NextChar(t, [s EXCEPT !.usebuf = TRUE]), DQ), "TSTRINGLIT")

(* comment(): entered after '/' was consumed; returns the state and whether a comment was skipped *)
RECURSIVE LineCmt(_, _), BlockCmt(_, _)
LineCmt(t, s) == LET a == NextChar(t, s) IN IF a.chr # NL /\ a.chr # "EOF" THEN LineCmt(t, a) ELSE a
BlockCmt(t, s) ==     \* do { last = chr; nextchar; if EOF error } while (last != '*' || chr != '/')
  LET last == s.chr
      a == NextChar(t, s) IN
  IF a.chr = "EOF" THEN Fail(a, "EOF in comment")
  ELSE IF last # "*" \/ a.chr # "/" THEN BlockCmt(t, a)
  ELSE a
Comment(t, s) ==
  IF s.chr = "/" THEN [s |-> [LineCmt(t, s) EXCEPT !.saw = TRUE], is |-> TRUE]
  ELSE IF s.chr = "*" THEN
    LET b == BlockCmt(t, NextChar(t, s)) IN
    IF b.err # "" THEN [s |-> b, is |-> TRUE]
    ELSE [s |-> [NextChar(t, b) EXCEPT !.saw = TRUE], is |-> TRUE]
  ELSE [s |-> s, is |-> FALSE]

(* ---- the branches of scankind's switch ---- *)
Singles == [c \in {"[", "]", "(", ")", "{", "}", "~", "?", ";", ","} |->
  CASE c = "[" -> "TLBRACK" [] c = "]" -> "TRBRACK" [] c = "(" -> "TLPAREN" [] c = ")" -> "TRPAREN"
    [] c = "{" -> "TLBRACE" [] c = "}" -> "TRBRACE" [] c = "~" -> "TBNOT" [] c = "?" -> "TQUESTION"
    [] c = ";" -> "TSEMICOLON" [] c = "," -> "TCOMMA"]

BrSpace(t, s)  == Again(NextChar(t, [s EXCEPT !.saw = TRUE]))
BrSingle(t, s) == Tok_(NextChar(t, s), Singles[s.chr])
BrNewline(t, s) == Tok_(NextChar(t, s), "TNEWLINE")
BrOp2(t, s) ==
  CASE s.chr = "!" -> Op2(t, s, "TLNOT", "TNEQ")
    [] s.chr = "*" -> Op2(t, s, "TMUL", "TMULASSIGN")
    [] s.chr = "=" -> Op2(t, s, "TASSIGN", "TEQL")
    [] s.chr = "^" -> Op2(t, s, "TXOR", "TXORASSIGN")
BrMod(t, s) ==
  IF Dev("NoDigraphs") THEN
    LET r == Op2(t, s, "TMOD", "TMODASSIGN") IN
    IF r.kind = "TMOD" /\ r.s.chr \in {">", ":"} THEN Tok_(Fire(r.s, "NoDigraphs"), r.kind) ELSE r
  ELSE   \* %  %=  %>  %:  %:%:
    LET a == NextChar(t, s) IN
    IF a.chr = "=" THEN Tok_(NextChar(t, a), "TMODASSIGN")
    ELSE IF a.chr = ">" THEN Tok_(NextChar(t, a), "TRBRACE")
    ELSE IF a.chr # ":" THEN Tok_(a, "TMOD")
    ELSE LET b == NextChar(t, a) IN
         IF b.chr # "%" THEN Tok_(b, "THASH")
         ELSE LET c == NextChar(t, b) IN
              IF c.chr = ":" THEN Tok_(NextChar(t, c), "THASHHASH")
              ELSE Tok_([c EXCEPT !.pos = IF c.chr = "EOF" THEN @ ELSE @ - 1, !.line = b.line, !.col = b.col, !.chr = "%"], "THASH")
BrOp3(t, s) ==
  CASE s.chr = "&" -> Op3(t, s, "TBAND", "TBANDASSIGN", "TLAND")
    [] s.chr = "+" -> Op3(t, s, "TADD", "TADDASSIGN", "TINC")
    [] s.chr = "|" -> Op3(t, s, "TBOR", "TBORASSIGN", "TLOR")
BrMinus(t, s) ==
  LET r == Op3(t, s, "TSUB", "TSUBASSIGN", "TDEC") IN
  IF r.kind # "TSUB" \/ r.s.chr # ">" THEN r ELSE Tok_(NextChar(t, r.s), "TARROW")
BrSlash(t, s) ==
  LET r == Op2(t, s, "TDIV", "TDIVASSIGN") IN
  IF r.kind # "TDIV" THEN r
  ELSE LET c == Comment(t, r.s) IN IF c.is THEN Again(c.s) ELSE r
BrLess(t, s) ==
  IF Dev("NoDigraphs") THEN
    LET r == Op4(t, s, "TLESS", "TLEQ", "TSHL", "TSHLASSIGN") IN
    IF r.kind = "TLESS" /\ r.s.chr \in {":", "%"} THEN Tok_(Fire(r.s, "NoDigraphs"), r.kind) ELSE r
  ELSE
    LET a == NextChar(t, s) IN
    IF a.chr = ":" THEN Tok_(NextChar(t, a), "TLBRACK")
    ELSE IF a.chr = "%" THEN Tok_(NextChar(t, a), "TLBRACE")
    ELSE Op4(t, s, "TLESS", "TLEQ", "TSHL", "TSHLASSIGN")
BrGreater(t, s) == Op4(t, s, "TGREATER", "TGEQ", "TSHR", "TSHRASSIGN")
BrHash(t, s) ==
  LET a == NextChar(t, s) IN IF a.chr # "#" THEN Tok_(a, "THASH") ELSE Tok_(NextChar(t, a), "THASHHASH")
BrColon(t, s) ==
  LET a == NextChar(t, s) IN
  IF a.chr = ":" THEN Tok_(NextChar(t, a), "TCOLONCOLON")
  ELSE IF a.chr = ">" THEN
    IF Dev("NoDigraphs") THEN Tok_(Fire(a, "NoDigraphs"), "TCOLON") ELSE Tok_(NextChar(t, a), "TRBRACK")
  ELSE Tok_(a, "TCOLON")
BrDot(t, s) ==
  LET a == NextChar(t, s) IN
  IF IsDigit(a.chr) THEN Number(t, [a EXCEPT !.buf = Append(@, ".")])
  ELSE IF a.chr # "." THEN Tok_(a, "TPERIOD")
  ELSE LET b == NextChar(t, a) IN                              \* oldloc = a's location
       IF b.chr # "."
       THEN \* ungetc(chr); loc = oldloc; chr = '.'   (ungetc(EOF) does nothing)
            Tok_([b EXCEPT !.pos = IF b.chr = "EOF" THEN @ ELSE @ - 1, !.line = a.line, !.col = a.col, !.chr = "."], "TPERIOD")
       ELSE Tok_(NextChar(t, b), "TELLIPSIS")
BrPrefix(t, s) ==      \* case 'L': case 'U': case 'u':
  LET first == s.chr
      a == NextChar(t, [s EXCEPT !.usebuf = TRUE])
      b == IF first = "u" /\ a.chr = "8" THEN NextChar(t, a) ELSE a IN       \* buf.str[0] == 'u'
  IF b.chr = SQ THEN CharConst(t, b)
  ELSE IF b.chr = DQ THEN StringLit(t, b)
  ELSE Ident(t, b)
BrOther(t, s) ==
  IF UCNAt(t, s) > 0 THEN
    IF Dev("NoUCNIdent") THEN Tok_(NextChar(t, Fire([s EXCEPT !.usebuf = TRUE], "NoUCNIdent")), "TOTHER")
    ELSE Ident(t, NextChars(t, [s EXCEPT !.usebuf = TRUE], UCNAt(t, s)))
  ELSE Tok_(NextChar(t, [s EXCEPT !.usebuf = TRUE]), "TOTHER")

Op2Chars == {"!", "*", "=", "^"}
Op3Chars == {"&", "+", "|"}
PrefixChars == {"L", "U", "u"}
Class(c) ==
  CASE c \in White -> "space"
    [] c = NL -> "newline"
    [] c = "EOF" -> "eof"
    [] c \in DOMAIN Singles -> "single"
    [] c \in Op2Chars -> "op2"
    [] c = "%" -> "mod"
    [] c \in Op3Chars -> "op3"
    [] c = "-" -> "minus"
    [] c = "/" -> "slash"
    [] c = "<" -> "less"
    [] c = ">" -> "greater"
    [] c = "#" -> "hash"
    [] c = ":" -> "colon"
    [] c = "." -> "dot"
    [] c = DQ -> "string"
    [] c = SQ -> "char"
    [] c \in PrefixChars -> "prefix"
    [] IsDigit(c) -> "number"
    [] IsAlpha(c) \/ c = "_" -> "ident"
    [] OTHER -> "other"

Branch(t, s) ==
  LET k == Class(s.chr) IN
  CASE k = "space" -> BrSpace(t, s)
    [] k = "newline" -> BrNewline(t, s)
    [] k = "eof" -> Tok_(s, "TEOF")
    [] k = "single" -> BrSingle(t, s)
    [] k = "op2" -> BrOp2(t, s)
    [] k = "mod" -> BrMod(t, s)
    [] k = "op3" -> BrOp3(t, s)
    [] k = "minus" -> BrMinus(t, s)
    [] k = "slash" -> BrSlash(t, s)
    [] k = "less" -> BrLess(t, s)
    [] k = "greater" -> BrGreater(t, s)
    [] k = "hash" -> BrHash(t, s)
    [] k = "colon" -> BrColon(t, s)
    [] k = "dot" -> BrDot(t, s)
    [] k = "string" -> StringLit(t, s)
    [] k = "char" -> CharConst(t, s)
    [] k = "prefix" -> BrPrefix(t, s)
    [] k = "number" -> Number(t, s)
    [] k = "ident" -> Ident(t, s)
    [] k = "other" -> BrOther(t, s)

(* scan(): sawspace = false; scankind until a token; lit = bufget if usebuf.                        *)
(* Returns [s, kind, lit, space, line, col]; line/col are the location captured at the last `again`. *)
RECURSIVE ScanKind(_, _)
ScanKind(t, s) ==
  LET r == Branch(t, s) IN
  IF r.s.err # "" THEN [s |-> r.s, kind |-> "ERROR", line |-> s.line, col |-> s.col]
  ELSE IF r.kind = "AGAIN" THEN ScanKind(t, r.s)
  ELSE [s |-> r.s, kind |-> r.kind, line |-> s.line, col |-> s.col]
ScanToken(t, s0) ==
  LET r == ScanKind(t, [s0 EXCEPT !.saw = FALSE]) IN
  [s |-> [r.s EXCEPT !.buf = <<>>, !.usebuf = FALSE], kind |-> r.kind,
   lit |-> IF r.s.usebuf THEN r.s.buf ELSE <<>>, space |-> r.s.saw, line |-> r.line, col |-> r.col]
ScanStart(t) == NextChar(t, Scanner0)        \* scanfrom(): loc = 1:0, nextchar

(* ====================================================================== *)
(* pp.c: keyword() — bisection over the table in the order it has in pp.c     *)
KwTable == IF "KWTABLE" \in DOMAIN IOEnv THEN JsonDeserialize(IOEnv.KWTABLE) ELSE <<>>   \* <<name, kind>> in file order

Min2(a, b) == IF a < b THEN a ELSE b
(* strcmp: sign of the first difference of unsigned chars, the terminator being 0 *)
Strcmp(a, b) ==
  LET n == Min2(Len(a), Len(b))
      diff == {i \in 1..n : a[i] # b[i]} IN
  IF diff = {} THEN (IF Len(a) = Len(b) THEN 0 ELSE IF Len(a) < Len(b) THEN 0 - 1 ELSE 1)
  ELSE LET i == SetMin(diff) IN IF Code(a[i]) < Code(b[i]) THEN 0 - 1 ELSE 1
RECURSIVE Bisect(_, _, _, _)
Bisect(tab, w, low, high) ==       \* while (low < high) { mid = (low + high) / 2; ... }
  IF low >= high THEN "TIDENT"
  ELSE LET mid == (low + high) \div 2
           cmp == Strcmp(w, tab[mid + 1][1]) IN
       IF cmp = 0 THEN tab[mid + 1][2]
       ELSE IF cmp < 0 THEN Bisect(tab, w, low, mid)
       ELSE Bisect(tab, w, mid + 1, high)
KeywordModel(w) == Bisect(KwTable, w, 0, Len(KwTable))

(* next(): token from scan(), identifiers through keyword(); what the -E dump prints for it *)
Delivered(r) ==
  LET k == IF r.kind = "TIDENT" THEN KeywordModel(r.lit) ELSE r.kind
      spell == IF r.kind \in {"TIDENT", "TNUMBER", "TCHARCONST", "TSTRINGLIT", "TOTHER"} /\ k = r.kind THEN r.lit
               ELSE IF k = "TNEWLINE" THEN <<>>
               ELSE IF r.kind = "TIDENT" THEN KeywordSpelling(k)       \* tokstr[kind]
               ELSE PunctCanon(k)
  IN <<k, spell, r.space>>

(* ====================================================================== *)
(* Text generation                                                           *)
RECURSIVE Flatten(_)
Flatten(ss) == IF ss = <<>> THEN <<>> ELSE ss[1] \o Flatten(Tail(ss))
InsertSeq(x, p, y) == SubSeq(x, 1, p) \o y \o SubSeq(x, p + 1, Len(x))     \* y after the first p characters of x

VariantTexts(b) ==      \* b: flattened body
  (IF "plain" \in Variants THEN {b} ELSE {})
  \cup (IF "splice"  \in Variants THEN {InsertSeq(b, p, <<BS, NL>>) : p \in 0..Len(b)} ELSE {})
  \cup (IF "splice2" \in Variants THEN {InsertSeq(b, p, <<BS, NL, BS, NL>>) : p \in 0..Len(b)} ELSE {})
  \cup (IF "bcmt"    \in Variants THEN {InsertSeq(b, p, <<"/", "*", "*", "/">>) : p \in 0..Len(b)} ELSE {})
  \cup (IF "bcmtnl"  \in Variants THEN {InsertSeq(b, p, <<"/", "*", SQ, "/", "/", NL, DQ, "*", "*", "/">>) : p \in 0..Len(b)} ELSE {})
  \cup (IF "lcmt"    \in Variants THEN {b \o <<"/", "/", " ", SQ, "/", "*">>, b \o <<"/", BS, NL, "/", DQ, BS, NL, "x">>} ELSE {})

(* "kw" mode: every spelling of the declarative list and of the table in pp.c, and its one-character perturbations *)
KwBase == {Keywords[i][1] : i \in 1..Len(Keywords)} \cup {KwTable[i][1] : i \in 1..Len(KwTable)}
Perturb(w) ==
  {w}
  \cup {[w EXCEPT ![i] = c] : i \in 1..Len(w), c \in PerturbChars}
  \cup {InsertSeq(w, p, <<c>>) : p \in 0..Len(w), c \in PerturbChars}
  \cup {SubSeq(w, 1, i - 1) \o SubSeq(w, i + 1, Len(w)) : i \in 1..Len(w)}
KwWords == {w \in UNION {Perturb(w) : w \in KwBase} : w # <<>>}

(* chunk sets for the configurations *)
Chars(S) == {<<c>> : c \in S}
PunctChunks == Chars({"[", "]", "(", ")", "{", "}", ".", "-", "+", "&", "*", "~", "!", "/", "%", "<", ">", "=", "^", "|", "?", ":", ";", ",", "#"})
PunctChunksSmall == Chars({"(", ".", "-", "+", "&", "*", "!", "/", "%", "<", ">", "=", "^", "|", "?", ":", ";", "#"})
DigraphChunks == Chars({"<", ">", ":", "%", "=", "#", ".", "-"})           \* where the deviation-free variant differs from the code
LitChunks == Chars({"0", "1", "8", "9", "e", "E", "p", "x", ".", "+", "-", "_", "a", "u", "U", "L", SQ, DQ, BS})

(* pieces for random long texts (simulation): multi-character punctuators, pp-numbers with signs, prefixes,
   keywords, literals containing comment openers and quotes, comments containing quotes and new-lines, splices *)
MixChunks ==
  { <<"<","<","=">>, <<">",">","=">>, <<".",".",".">>, <<".",".">>,
    <<"-",">">>, <<"+","+">>, <<"-","-">>, <<"#","#">>,
    <<"%",":">>, <<":",":">>,
    <<"+">>, <<"-">>, <<".">>, <<"/">>,
    <<"*">>, <<"=">>, <<"&">>, <<"|">>,
    <<"<">>, <<">">>, <<"#">>, <<"(">>,
    <<")">>, <<"?">>, <<"!">>, <<"%">>,
    <<"^">>, <<";">>, <<"0","x","1","e","+","3">>, <<"1","e","+","5">>,
    <<"0","x","e","+","1">>, <<".","5">>, <<"1",".">>, <<"1",".",".","2">>,
    <<"0","8">>, <<"1","e">>, <<"0","x","1","p","-","2">>, <<"e">>,
    <<"p","+">>, <<"E","-">>, <<"u","8">>, <<"u">>,
    <<"U">>, <<"L">>, <<"x">>, <<"_","a","1">>,
    <<"w","h","i","l","e">>, <<"i","n","t">>, <<"_","_","i","n","l","i","n","e">>, <<"d","o">>,
    <<"s","i","z","e","o","f","x">>, <<"'","a","'">>, <<"'","\\","'","'">>, <<"'","\\","\\","'">>,
    <<"'","\\","x","1","f","'">>, <<"'","\\","1","8","'">>, <<"\"","s","\"">>, <<"\"","\\","\"","\"">>,
    <<"\"","a","\\","n","\"">>, <<"\"","/","*","\"">>, <<"\"","/","/","\"">>, <<"'","\"","'">>,
    <<"\"","'","\"">>, <<"\"","\"">>, <<"/","*","*","/">>, <<"/","*"," ","*"," ","/"," ","*","/">>,
    <<"/","*","'","*","/">>, <<"/","*","\"","\n","/","/","*","/">>, <<" ">>, <<"\\","\n">>,
    <<"/","/">>, <<"@">>, <<"\\">> }

(* ====================================================================== *)
Init ==
  /\ body = <<>> /\ sc = Scanner0 /\ out = <<>> /\ acts = {}
  /\ IF Mode = "kw"
     THEN /\ phase = "scan"
          /\ src \in {Leader \o w \o <<NL>> : w \in KwWords}
     ELSE /\ phase = "build"
          /\ src = <<>>

Extend(ch) ==
  /\ phase = "build" /\ Len(body) < MaxLen
  /\ body' = Append(body, ch)
  /\ UNCHANGED <<src, sc, out, phase, acts>>

Start ==
  /\ phase = "build" /\ Len(body) >= MinLen /\ body # <<>>
  /\ \E v \in (IF Len(body) <= VarLen THEN VariantTexts(Flatten(body)) ELSE {Flatten(body)}) :
       src' = Leader \o v \o <<NL>>
  /\ phase' = "scan"
  /\ UNCHANGED <<body, sc, out, acts>>

(* one pass through scan(): named by the branch of scankind that is entered first *)
Scanning == phase = "scan"
Cur == IF sc.chr = "NONE" THEN ScanStart(src) ELSE sc
Deliver(classes, name) ==
  /\ Scanning
  /\ Class(Cur.chr) \in classes
  /\ LET r == ScanToken(src, Cur) IN
       /\ sc' = r.s
       /\ IF r.kind = "ERROR" THEN phase' = "error" /\ out' = out
          ELSE IF r.kind = "TEOF" THEN phase' = "done" /\ out' = out
          ELSE phase' = "scan" /\ out' = Append(out, Delivered(r))
  /\ acts' = acts \cup {name}
  /\ UNCHANGED <<body, src>>

ScanSpaceFirst == Deliver({"space"}, "ScanSpaceFirst")
ScanNewline    == Deliver({"newline"}, "ScanNewline")
ScanEOF        == Deliver({"eof"}, "ScanEOF")
ScanSingle     == Deliver({"single"}, "ScanSingle")
ScanOp2        == Deliver({"op2", "mod"}, "ScanOp2")
ScanOp3        == Deliver({"op3"}, "ScanOp3")
ScanMinus      == Deliver({"minus"}, "ScanMinus")
ScanSlash      == Deliver({"slash"}, "ScanSlash")
ScanOp4        == Deliver({"less", "greater"}, "ScanOp4")
ScanHash       == Deliver({"hash"}, "ScanHash")
ScanColon      == Deliver({"colon"}, "ScanColon")
ScanDot        == Deliver({"dot"}, "ScanDot")
ScanString     == Deliver({"string"}, "ScanString")
ScanChar       == Deliver({"char"}, "ScanChar")
ScanPrefix     == Deliver({"prefix"}, "ScanPrefix")
ScanNumber     == Deliver({"number"}, "ScanNumber")
ScanIdent      == Deliver({"ident"}, "ScanIdent")
ScanOther      == Deliver({"other"}, "ScanOther")

Next ==
  \/ \E ch \in Chunks : Extend(ch)
  \/ Start
  \/ ScanSpaceFirst \/ ScanNewline \/ ScanEOF \/ ScanSingle \/ ScanOp2 \/ ScanOp3 \/ ScanMinus \/ ScanSlash
  \/ ScanOp4 \/ ScanHash \/ ScanColon \/ ScanDot \/ ScanString \/ ScanChar \/ ScanPrefix \/ ScanNumber
  \/ ScanIdent \/ ScanOther

Spec == Init /\ [][Next]_vars

(* ====================================================================== *)
Finished == phase \in {"done", "error"}
ModelResult == [res |-> IF phase = "done" THEN "ok" ELSE "error", toks |-> out]

(* design-level refinement: where no deviation took part, the scanner delivers exactly Lex *)
Agrees(lx) ==
  \/ lx.res = "undef"
  \/ lx.res = "error" /\ phase = "error"
  \/ lx.res = "ok" /\ phase = "done" /\ out = lx.toks
Inv_Refines == Finished /\ sc.fired = {} => Agrees(Lex(src))

(* a deviation never fires when switched off; the keyword table is never consulted out of range *)
Inv_Fired == sc.fired \subseteq Devs

(* emission for flow A *)
RECURSIVE FlatToks(_)
FlatToks(ts) == IF ts = <<>> THEN <<>> ELSE <<ts[1][1], Str(ts[1][2]), IF ts[1][3] THEN 1 ELSE 0>> \o FlatToks(Tail(ts))
CodesOf(t) == [i \in 1..Len(t) |-> Code(t[i])]
EmitCase ==
  LET lx == Lex(src)
      ag == Agrees(lx) IN
  PrintT("VCASE " \o ToJson([t |-> CodesOf(src), r |-> lx.res, e |-> FlatToks(lx.toks), a |-> IF ag THEN 1 ELSE 0,
                             m |-> IF ag /\ lx.res # "undef" THEN <<>> ELSE <<ModelResult.res>> \o FlatToks(out),
                             f |-> SetToSeq(sc.fired), x |-> SetToSeq(acts)]))
Inv_Emit == (Emit /\ Finished) => EmitCase
=============================================================================
