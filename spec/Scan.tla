-------------------------------- MODULE Scan --------------------------------
(* Property C13.  Two descriptions of "text -> token sequence":                  *)
(*                                                                               *)
(*  Lex(t)      declarative, C11 5.1.1.2 phases 2-3 + 6.4: delete every           *)
(*              backslash-newline, then repeatedly skip white space / comments    *)
(*              and take the longest prefix that is a preprocessing token          *)
(*              (Tok!MaxMunch); keywords by table lookup in the C11/C23/GNU list.  *)
(*  the scanner an action system transcribed from /repo/scan.c (nextchar, op2,     *)
(*              op3, op4, scankind's switch with the lookahead/restore of `..`,     *)
(*              number() with allowsign, ident(), prefix handling, charconst,       *)
(*              stringlit, escape, comment) and pp.c:keyword() as a bisection       *)
(*              over the table in the order it has in pp.c (read at run time).      *)
(*                                                                               *)
(* Known deviations of the code from 6.4 are named members of Devs; with           *)
(* Devs = {} the scanner is the code "as it would be without them" and must        *)
(* equal Lex (Inv_Refines); with Devs = AllDevs it is the code as it is and the     *)
(* set `fired` says which deviations took part in a result.                         *)
EXTENDS ScanOps

CONSTANTS Chunks,      \* set of texts a body is built from (single characters or longer pieces)
          MaxLen,      \* bound on the number of chunks of a body
          MinLen,      \* bodies shorter than this are not scanned (simulation mode)
          Variants,    \* subset of {"plain","splice","splice2","bcmt","bcmtnl","lcmt"}
          VarLen,      \* variants other than "plain" are applied to bodies of at most this many chunks
          Mode,        \* "alpha": bodies from Chunks;  "kw": bodies are keyword spellings and their perturbations
          PerturbChars,\* characters used for substitution / insertion in "kw" mode
          Emit         \* TRUE: print one VCASE line per finished text

AllDevs == {"NoDigraphs", "NoUCNIdent", "NoUCNEscape"}   \* those that change the token sequence

VARIABLES body,   \* sequence of chunks chosen so far
          src,    \* the text being scanned (leader, body with variant applied, new-line)
          sc,     \* scanner state (struct scanner + position in the file)
          out,    \* tokens delivered so far: <<kind, spelling, space>>
          phase,  \* "build" | "scan" | "done" | "error"
          acts    \* names of the scan actions taken on this text (vacuity accounting, emitted with the case)
vars == <<body, src, sc, out, phase, acts>>

Leader == <<";", " ">>

(* ====================================================================== *)
(* Declarative side                                                        *)

(* phase 2: each backslash immediately followed by new-line is deleted with it *)
Phase2(t) ==
  LET keep(i) == /\ ~(t[i] = BS /\ i < Len(t) /\ t[i + 1] = NL)
                 /\ ~(t[i] = NL /\ i > 1 /\ t[i - 1] = BS)
      idx == SetToSortSeq({i \in 1..Len(t) : keep(i)}, LAMBDA a, b : a < b)
  IN [j \in 1..Len(idx) |-> t[idx[j]]]

Trigraph3 == {"=", "(", "/", ")", SQ, "<", "!", ">", "-"}
HasTrigraph(t) == \E i \in 1..(Len(t) - 2) : t[i] = "?" /\ t[i + 1] = "?" /\ t[i + 2] \in Trigraph3

(* phase 3.  Result: [res |-> "ok" | "error" | "undef", toks |-> sequence of <<kind, spelling, space>>] *)
(*   "error": a ' or " that cannot start a literal, a bad escape, an unterminated comment       *)
(*            (6.4p3 / 5.1.1.2p3: no meaning is defined; a diagnostic is demanded here)           *)
(*   "undef": the model takes no position (see Tok.tla header)                                     *)
RECURSIVE LexFrom(_, _, _, _)
LexFrom(u, i, sp, acc) ==
  IF i > Len(u) THEN [res |-> "ok", toks |-> acc]
  ELSE LET c == u[i] IN
    IF c \in White THEN LexFrom(u, i + 1, TRUE, acc)
    ELSE IF c = NL THEN LexFrom(u, i + 1, FALSE, Append(acc, <<"TNEWLINE", <<>>, sp>>))
    ELSE IF StartsWith(u, i, <<"/", "*">>) THEN
      LET ends == {j \in (i + 2)..(Len(u) - 1) : u[j] = "*" /\ u[j + 1] = "/"} IN
      IF ends = {} THEN [res |-> "error", toks |-> acc]
      ELSE LexFrom(u, SetMin(ends) + 2, TRUE, acc)
    ELSE IF StartsWith(u, i, <<"/", "/">>) THEN
      LET nls == {j \in i..Len(u) : u[j] = NL} IN
      IF nls = {} THEN [res |-> "undef", toks |-> acc]          \* file not ending in new-line
      ELSE LexFrom(u, SetMin(nls), TRUE, acc)
    ELSE
      LET n == MaxMunch(u, i) IN
      IF n > 0 THEN
        LET l == Sub(u, i, n) IN
        IF l \in KeywordDontCare THEN [res |-> "undef", toks |-> acc]
        ELSE LexFrom(u, i + n, FALSE, Append(acc, <<KindOf(l), SpellingOf(l), sp>>))
      ELSE IF c \in {SQ, DQ} THEN
        IF c = SQ /\ i < Len(u) /\ u[i + 1] = SQ THEN [res |-> "undef", toks |-> acc]   \* '' : 6.4p3 undefined, commonly passed through
        ELSE [res |-> "error", toks |-> acc]
      ELSE LexFrom(u, i + 1, FALSE, Append(acc, <<"TOTHER", <<c>>, sp>>))

Lex(t) ==
  IF HasTrigraph(t) \/ HasUnmodelledUCN(Phase2(t)) THEN [res |-> "undef", toks |-> <<>>]
  ELSE LET u == Phase2(t) IN
       IF u = <<>> \/ u[Len(u)] # NL \/ (Len(t) >= 2 /\ t[Len(t) - 1] = BS)   \* 5.1.1.2p2: must end in an unspliced new-line
       THEN [res |-> "undef", toks |-> <<>>]
       ELSE LexFrom(u, 1, FALSE, <<>>)

(* ====================================================================== *)
(* Text generation                                                           *)
RECURSIVE Flatten(_)
Flatten(ss) == IF ss = <<>> THEN <<>> ELSE ss[1] \o Flatten(Tail(ss))
InsertSeq(x, p, y) == SubSeq(x, 1, p) \o y \o SubSeq(x, p + 1, Len(x))     \* y after the first p characters of x

VariantTexts(b) ==      \* b: flattened body
  (IF "plain" \in Variants THEN {b} ELSE {})
  \cup (IF "splice"  \in Variants THEN {InsertSeq(b, p, <<BS, NL>>) : p \in 0..Len(b)} ELSE {})
  \cup (IF "splice2" \in Variants THEN {InsertSeq(b, p, <<BS, NL, BS, NL>>) : p \in 0..Len(b)} ELSE {})
  \cup (IF "bcmt"    \in Variants THEN {InsertSeq(b, p, <<"/", "*", "*", "/">>) : p \in 0..Len(b)} ELSE {})
  \cup (IF "bcmtnl"  \in Variants THEN {InsertSeq(b, p, <<"/", "*", SQ, "/", "/", NL, DQ, "*", "*", "/">>) : p \in 0..Len(b)} ELSE {})
  \cup (IF "lcmt"    \in Variants THEN {b \o <<"/", "/", " ", SQ, "/", "*">>, b \o <<"/", BS, NL, "/", DQ, BS, NL, "x">>} ELSE {})

(* "kw" mode: every spelling of the declarative list and of the table in pp.c, and its one-character perturbations *)
KwBase == {Keywords[i][1] : i \in 1..Len(Keywords)} \cup {KwTable[i][1] : i \in 1..Len(KwTable)}
Perturb(w) ==
  {w}
  \cup {[w EXCEPT ![i] = c] : i \in 1..Len(w), c \in PerturbChars}
  \cup {InsertSeq(w, p, <<c>>) : p \in 0..Len(w), c \in PerturbChars}
  \cup {SubSeq(w, 1, i - 1) \o SubSeq(w, i + 1, Len(w)) : i \in 1..Len(w)}
KwWords == {w \in UNION {Perturb(w) : w \in KwBase} : w # <<>>}

(* every simple escape of 6.4.4.4, one octal and one hex escape, alone in a character constant and in a string literal
   with each encoding prefix, and every ordered pair of them in an unprefixed literal: each is ONE token *)
EscapeSet == {<<BS, c>> : c \in SimpleEsc} \cup {<<BS, "1", "7">>, <<BS, "x", "1", "f">>}
EscBodies ==
  {p \o <<q>> \o e \o <<q>> : p \in CharPrefixes, q \in {SQ, DQ}, e \in EscapeSet}
  \cup {<<q>> \o e1 \o e2 \o <<q>> : q \in {SQ, DQ}, e1 \in EscapeSet, e2 \in EscapeSet}

(* hand-picked bodies run together with the keyword words: universal character names (the two NoUCN deviations), the
   classic maximal-munch examples of the property statement *)
SeedBodies ==
  { <<"a","\\","u","0","0","e","9","b">>,
    <<"\"","\\","u","0","0","e","9","\"">>,
    <<"'","\\","u","0","0","e","9","'">>,
    <<"1","\\","u","0","0","e","9">>,
    <<"\\","u","0","0","e","9">>,
    <<"\\","U","0","0","0","0","0","0","e","9","x">>,
    <<"i","n","t"," ","a","<",":","3",":",">",";">>,
    <<"a","+","+","+","b">>,
    <<"a","-","-","-","b">>,
    <<"x","<","<","=","y">>,
    <<"1","e","+","5","-","1">>,
    <<"0","x","e","+","1">>,
    <<"u","8","\"","s","\"">>,
    <<"u","8"," ","\"","s","\"">>,
    <<"a","-",">","b">>,
    <<"a","-","-",">","b">>,
    <<".","."," ",".",".",".">>,
    <<"L","'","a","'","L","\"","a","\"">> }


(* chunk sets for the configurations *)
Chars(S) == {<<c>> : c \in S}
PunctChunks == Chars({"[", "]", "(", ")", "{", "}", ".", "-", "+", "&", "*", "~", "!", "/", "%", "<", ">", "=", "^", "|", "?", ":", ";", ",", "#"})
PunctChunksSmall == Chars({"(", ".", "-", "+", "&", "*", "!", "/", "%", "<", ">", "=", "^", "|", "?", ":", ";", "#"})
DigraphChunks == Chars({"<", ">", ":", "%", "=", "#", ".", "-"})           \* where the deviation-free variant differs from the code
NumChunks == Chars({"1", "e", "p", "+", "-", ".", "x", "_"})                  \* pp-number / sign interplay at greater length
PrefixChunks == Chars({"u", "U", "L", "8", SQ, DQ, "a"})                      \* encoding prefixes against identifiers
LitChunks == Chars({"0", "1", "8", "9", "e", "E", "p", "x", ".", "+", "-", "_", "a", "u", "U", "L", SQ, DQ, BS})

(* pieces for random long texts (simulation): multi-character punctuators, pp-numbers with signs, prefixes,
   keywords, literals containing comment openers and quotes, comments containing quotes and new-lines, splices *)
MixChunks ==
  { <<"<","<","=">>, <<">",">","=">>, <<".",".",".">>, <<".",".">>,
    <<"-",">">>, <<"+","+">>, <<"-","-">>, <<"#","#">>,
    <<"%",":">>, <<":",":">>,
    <<"+">>, <<"-">>, <<".">>, <<"/">>,
    <<"*">>, <<"=">>, <<"&">>, <<"|">>,
    <<"<">>, <<">">>, <<"#">>, <<"(">>,
    <<")">>, <<"?">>, <<"!">>, <<"%">>,
    <<"^">>, <<";">>, <<"0","x","1","e","+","3">>, <<"1","e","+","5">>,
    <<"0","x","e","+","1">>, <<".","5">>, <<"1",".">>, <<"1",".",".","2">>,
    <<"0","8">>, <<"1","e">>, <<"0","x","1","p","-","2">>, <<"e">>,
    <<"p","+">>, <<"E","-">>, <<"u","8">>, <<"u">>,
    <<"U">>, <<"L">>, <<"x">>, <<"_","a","1">>,
    <<"w","h","i","l","e">>, <<"i","n","t">>, <<"_","_","i","n","l","i","n","e">>, <<"d","o">>,
    <<"s","i","z","e","o","f","x">>, <<"'","a","'">>, <<"'","\\","'","'">>, <<"'","\\","\\","'">>,
    <<"'","\\","x","1","f","'">>, <<"'","\\","1","8","'">>, <<"\"","s","\"">>, <<"\"","\\","\"","\"">>,
    <<"\"","a","\\","n","\"">>, <<"\"","/","*","\"">>, <<"\"","/","/","\"">>, <<"'","\"","'">>,
    <<"\"","'","\"">>, <<"\"","\"">>, <<"/","*","*","/">>, <<"/","*"," ","*"," ","/"," ","*","/">>,
    <<"/","*","'","*","/">>, <<"/","*","\"","\n","/","/","*","/">>, <<" ">>, <<"\\","\n">>,
    <<"/","/">>, <<"@">>, <<"\\">>, <<"8">> }

(* ====================================================================== *)
Init ==
  /\ body = <<>> /\ sc = Scanner0 /\ out = <<>> /\ acts = {}
  /\ IF Mode = "kw"
     THEN /\ phase = "scan"
          /\ src \in {Leader \o w \o <<NL>> : w \in KwWords \cup SeedBodies \cup EscBodies}
     ELSE /\ phase = "build"
          /\ src = <<>>

Extend(ch) ==
  /\ phase = "build" /\ Len(body) < MaxLen
  /\ body' = Append(body, ch)
  /\ UNCHANGED <<src, sc, out, phase, acts>>

Start ==
  /\ phase = "build" /\ Len(body) >= MinLen /\ body # <<>>
  /\ \E v \in (IF Len(body) <= VarLen THEN VariantTexts(Flatten(body)) ELSE {Flatten(body)}) :
       src' = Leader \o v \o <<NL>>
  /\ phase' = "scan"
  /\ UNCHANGED <<body, sc, out, acts>>

(* one pass through scan(): named by the branch of scankind that is entered first *)
Scanning == phase = "scan"
Cur == IF sc.chr = "NONE" THEN ScanStart(src) ELSE sc
Deliver(classes, name) ==
  /\ Scanning
  /\ Class(Cur.chr) \in classes
  /\ LET r == ScanToken(src, Cur) IN
       /\ sc' = r.s
       /\ IF r.kind = "ERROR" THEN phase' = "error" /\ out' = out
          ELSE IF r.kind = "TEOF" THEN phase' = "done" /\ out' = out
          ELSE phase' = "scan" /\ out' = Append(out, Delivered(r))
  /\ acts' = acts \cup {name}
  /\ UNCHANGED <<body, src>>

ScanSpaceFirst == Deliver({"space"}, "ScanSpaceFirst")
ScanNewline    == Deliver({"newline"}, "ScanNewline")
ScanEOF        == Deliver({"eof"}, "ScanEOF")
ScanSingle     == Deliver({"single"}, "ScanSingle")
ScanOp2        == Deliver({"op2", "mod"}, "ScanOp2")
ScanOp3        == Deliver({"op3"}, "ScanOp3")
ScanMinus      == Deliver({"minus"}, "ScanMinus")
ScanSlash      == Deliver({"slash"}, "ScanSlash")
ScanOp4        == Deliver({"less", "greater"}, "ScanOp4")
ScanHash       == Deliver({"hash"}, "ScanHash")
ScanColon      == Deliver({"colon"}, "ScanColon")
ScanDot        == Deliver({"dot"}, "ScanDot")
ScanString     == Deliver({"string"}, "ScanString")
ScanChar       == Deliver({"char"}, "ScanChar")
ScanPrefix     == Deliver({"prefix"}, "ScanPrefix")
ScanNumber     == Deliver({"number"}, "ScanNumber")
ScanIdent      == Deliver({"ident"}, "ScanIdent")
ScanOther      == Deliver({"other"}, "ScanOther")

Next ==
  \/ \E ch \in Chunks : Extend(ch)
  \/ Start
  \/ ScanSpaceFirst \/ ScanNewline \/ ScanEOF \/ ScanSingle \/ ScanOp2 \/ ScanOp3 \/ ScanMinus \/ ScanSlash
  \/ ScanOp4 \/ ScanHash \/ ScanColon \/ ScanDot \/ ScanString \/ ScanChar \/ ScanPrefix \/ ScanNumber
  \/ ScanIdent \/ ScanOther

Spec == Init /\ [][Next]_vars

(* ====================================================================== *)
Finished == phase \in {"done", "error"}
ModelResult == [res |-> IF phase = "done" THEN "ok" ELSE "error", toks |-> out]

(* design-level refinement: where no deviation took part, the scanner delivers exactly Lex *)
Agrees(lx) ==
  \/ lx.res = "undef"
  \/ lx.res = "error" /\ phase = "error"
  \/ lx.res = "ok" /\ phase = "done" /\ out = lx.toks
Inv_Refines == Finished /\ sc.fired = {} => Agrees(Lex(src))

(* a deviation never fires when switched off; the keyword table is never consulted out of range *)
Inv_Fired == sc.fired \subseteq Devs

(* emission for flow A *)
RECURSIVE FlatToks(_)
FlatToks(ts) == IF ts = <<>> THEN <<>> ELSE <<ts[1][1], Str(ts[1][2]), IF ts[1][3] THEN 1 ELSE 0>> \o FlatToks(Tail(ts))
CodesOf(t) == [i \in 1..Len(t) |-> Code(t[i])]
EmitCase ==
  LET lx == Lex(src)
      ag == Agrees(lx) IN
  PrintT("VCASE " \o ToJson([t |-> CodesOf(src), r |-> lx.res, e |-> FlatToks(lx.toks), a |-> IF ag THEN 1 ELSE 0,
                             m |-> IF ag /\ lx.res # "undef" THEN <<>> ELSE <<ModelResult.res>> \o FlatToks(out),
                             f |-> SetToSeq(sc.fired), x |-> SetToSeq(acts)]))
Inv_Emit == (Emit /\ Finished) => EmitCase
=============================================================================
