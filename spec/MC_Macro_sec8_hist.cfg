\* historical record: every deviation disjunct (also the repaired ones) against Expand on the documented inputs
SPECIFICATION Spec
CONSTANTS
  Devs <- DevNames
  Space = "sec8"
  Modes = {"E"}
  EmitCases = TRUE
  PeekBudget = 0
INVARIANTS Inv_Ctx Inv_End Inv_Conform
CHECK_DEADLOCK FALSE
