SPECIFICATION Spec
CONSTANT FreeOrder = TRUE
INVARIANTS TypeOK FlowMonotone FlowFixpoint FlowIsDominance
CHECK_DEADLOCK FALSE
