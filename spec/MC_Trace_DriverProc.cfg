SPECIFICATION TSpec
CONSTANTS
  MaxInputs = 2
  MaxStages = 4
  Cap = 2
  Modes = {"link", "file", "stdout"}
  FailEnds = {"exit1_before_read", "exit1_mid_write", "exit1_after", "signal", "spawn_fails"}
  LinkEnds = {"exit0", "exit1_after", "signal", "spawn_fails"}
  MaxFail = 2
  Devs = {}
  KeepReadEnds = TRUE
  EmitCases = FALSE
POSTCONDITION TraceAccepted
CHECK_DEADLOCK FALSE
