----------------------------- MODULE Trace_Pure -----------------------------
(* Flow B for C20: the run log of the real binary (ndjson, one line per run,    *)
(* written by harness/props/c20.py) must be a behaviour of Pure.tla.            *)
(*   {"e":"Run","env":<env id>,"i":<input id>,"o":<opts>,"rc":<int>,           *)
(*    "so":<sha256(output)>,"se":<sha256(normalised stderr)>,"u":<#uninit>,     *)
(*    "uf":<top in-repo frame of the first uninitialised-value report | "">}    *)
(* rc 10 (POSTCONDITION false) = rejected; every line `REJECT {...}` names an     *)
(* event whose Run was not enabled and the earlier event it conflicts with.     *)
EXTENDS Naturals, Integers, Sequences, FiniteSets, TLC, Json, IOUtils

Trace == ndJsonDeserialize(IOEnv.TRACE)
NT == Len(Trace)
Runs == {k \in 1..NT : Trace[k].e = "Run"}

VARIABLES seen, l

Res(ev) == [rc |-> ev.rc, out |-> ev.so, err |-> ev.se]
NoRes == [rc |-> 0, out |-> "none", err |-> "none"]     \* comparable with results, equal to none (digests are hex)

P == INSTANCE Pure WITH Inputs  <- {Trace[k].i : k \in Runs},
                        Opts    <- {Trace[k].o : k \in Runs},
                        Results <- {Res(Trace[k]) : k \in Runs} \cup {[Res(Trace[k]) EXCEPT !.out = "-"] : k \in Runs},
                        Envs    <- {Trace[k].env : k \in Runs},
                        None    <- NoRes

Init == P!Init /\ l = 1 /\ TLCSet(1, 0)

(* A log that is a behaviour of Pure.tla is consumed by Run steps alone.  An event *)
(* whose Run is not enabled is consumed by Skip, which proves the log is NOT a     *)
(* behaviour: it prints the witness (the event and the first earlier run of the    *)
(* same key it conflicts with), counts it in TLC register 1 and leaves `seen`      *)
(* alone, so that one pass reports every (input, opts) with two results.           *)
Conflict(k) ==   \* the first earlier run of the same (input, opts) with another result, 0 if none
  LET c == {j \in 1..(k - 1) : /\ Trace[j].e = "Run"
                               /\ Trace[j].i = Trace[k].i /\ Trace[j].o = Trace[k].o
                               /\ Trace[j].u = 0
                               /\ P!Proj(Res(Trace[j])) # P!Proj(Res(Trace[k]))}
  IN IF c = {} THEN 0 ELSE CHOOSE j \in c : \A j2 \in c : j <= j2

Witness(k) ==
  LET j == Conflict(k)
  IN PrintT("REJECT " \o ToJson([line |-> k, event |-> Trace[k], first_line |-> j,
                                  first |-> IF j = 0 THEN Trace[k] ELSE Trace[j]]))

Step ==
  /\ l <= NT
  /\ LET ev == Trace[l] IN
       \/ /\ ev.e = "Run"
          /\ P!Run(ev.env, ev.i, ev.o, P!Proj(Res(ev)), ev.u)
       \/ /\ ev.e = "Run"
          /\ ~ENABLED P!Run(ev.env, ev.i, ev.o, P!Proj(Res(ev)), ev.u)       \* Skip
          /\ Witness(l)
          /\ TLCSet(1, TLCGet(1) + 1)
          /\ UNCHANGED seen
       \/ /\ ev.e = "Reset"
          /\ seen' = [k \in P!Keys |-> NoRes]
  /\ l' = l + 1

Spec == Init /\ [][Step]_<<seen, l>>

(* the behaviour is a single chain: after consuming m events the diameter is m+1 *)
Consumed == TLCGet("stats").diameter - 1

TraceAccepted == Consumed >= NT /\ TLCGet(1) = 0
=============================================================================
