----------------------------- MODULE Trace_Pure -----------------------------
(* Flow B for C20: the run log of the real binary (ndjson, one line per run,    *)
(* written by harness/props/c20.py) must be a behaviour of Pure.tla.            *)
(*   {"e":"Run","env":<env id>,"i":<input id>,"o":<opts>,"rc":<int>,           *)
(*    "so":<sha256(output)>,"se":<sha256(normalised stderr)>,"u":<#uninit>,     *)
(*    "uf":<top in-repo frame of the first uninitialised-value report | "">}    *)
(* rc 10 (POSTCONDITION false) = rejected; the line `REJECT {...}` names the     *)
(* first event that is not enabled and the earlier event it conflicts with.     *)
EXTENDS Naturals, Integers, Sequences, FiniteSets, TLC, Json, IOUtils

Trace == ndJsonDeserialize(IOEnv.TRACE)
NT == Len(Trace)
Runs == {k \in 1..NT : Trace[k].e = "Run"}

VARIABLES seen, l

Res(ev) == [rc |-> ev.rc, out |-> ev.so, err |-> ev.se]
NoRes == [rc |-> 0, out |-> "none", err |-> "none"]     \* comparable with results, equal to none (digests are hex)

P == INSTANCE Pure WITH Inputs  <- {Trace[k].i : k \in Runs},
                        Opts    <- {Trace[k].o : k \in Runs},
                        Results <- {Res(Trace[k]) : k \in Runs} \cup {[Res(Trace[k]) EXCEPT !.out = "-"] : k \in Runs},
                        Envs    <- {Trace[k].env : k \in Runs},
                        None    <- NoRes

Init == P!Init /\ l = 1

Step ==
  /\ l <= NT
  /\ LET ev == Trace[l] IN
       \/ /\ ev.e = "Run"
          /\ P!Run(ev.env, ev.i, ev.o, P!Proj(Res(ev)), ev.u)
       \/ /\ ev.e = "Reset"
          /\ seen' = [k \in P!Keys |-> NoRes]
  /\ l' = l + 1

Spec == Init /\ [][Step]_<<seen, l>>

(* the behaviour is a single chain: after consuming m events the diameter is m+1 *)
Consumed == TLCGet("stats").diameter - 1

Conflict(k) ==   \* the first earlier run of the same (input, opts) with another result, 0 if none
  LET c == {j \in 1..(k - 1) : /\ Trace[j].e = "Run"
                               /\ Trace[j].i = Trace[k].i /\ Trace[j].o = Trace[k].o
                               /\ P!Proj(Res(Trace[j])) # P!Proj(Res(Trace[k]))}
  IN IF c = {} THEN 0 ELSE CHOOSE j \in c : \A j2 \in c : j <= j2

TraceAccepted ==
  IF Consumed >= NT THEN TRUE
  ELSE LET k == Consumed + 1
           j == IF Trace[k].e = "Run" THEN Conflict(k) ELSE 0
       IN /\ PrintT("REJECT " \o ToJson([line |-> k, event |-> Trace[k], first_line |-> j,
                                          first |-> IF j = 0 THEN Trace[k] ELSE Trace[j]]))
          /\ FALSE
=============================================================================
