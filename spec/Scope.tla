------------------------------- MODULE Scope -------------------------------
(* The scope chain of /repo/scope.c: mkscope / delscope / scopeputdecl /         *)
(* scopeputtag / scopegetdecl / scopegettag.  Every scope owns two dictionaries   *)
(* (ordinary identifiers, tags; MapDict.tla — the refinement of map.c to that     *)
(* dictionary is Map.tla's business) and a parent pointer.  Scopes are addressed  *)
(* by identity, as in the C code (decl.c keeps a prototype scope alive in         *)
(* `funcscope` and re-opens it for the function body), so the live scopes form a  *)
(* tree, not just a stack.                                                        *)
(*                                                                               *)
(* Implementation-shaped lookup (ImplGet: the do/while loop, lazily created       *)
(* tables) is checked against the declarative definition of C11 6.2.1p4           *)
(* (DeclGet: the binding of the nearest enclosing scope that has one in that      *)
(* name space).  Property C16.  Used by: MC_Scope_*.cfg (design check),           *)
(* CScope.tla (generator of scoping programs, flow A), Trace_Scope.tla (flow B    *)
(* on H8 events).                                                                 *)
EXTENDS Naturals, Integers, Sequences, FiniteSets, TLC, MapDict

CONSTANTS Names,       \* identifiers
          MaxScopes,   \* bound on scope identities ever created (besides the file scope)
          MaxDepth,    \* bound on nesting
          MaxIds       \* bound on declaration identities

NameSpaces == {"decl", "tag"}
FileScope == 0

VARIABLES sc,       \* function: live scope id -> [parent, decl, tag]   (parent of FileScope = -1)
          nsc,      \* scope ids handed out so far
          nid       \* declaration ids handed out so far

svars == <<sc, nsc, nid>>

NewScope(p) == [parent |-> p, decl |-> EmptyDict, tag |-> EmptyDict]   \* mkscope: decls.len = tags.len = 0
Live == DOMAIN sc

RECURSIVE Depth(_, _)
Depth(s, scs) == IF scs[s].parent = -1 THEN 0 ELSE 1 + Depth(scs[s].parent, scs)

(* ---------------------------------------------------------------------------- *)
(* Implementation-shaped lookup: scopegetdecl / scopegettag.                     *)
(*   do { d = s->decls.len ? mapget(&s->decls, &k) : NULL; s = s->parent; }       *)
(*   while (!d && s && recurse);                                                  *)
RECURSIVE ImplGetIn(_, _, _, _, _)
ImplGetIn(scs, s, ns, name, recurse) ==
  LET tbl == scs[s][ns]
      d   == IF DLen(tbl) # 0 THEN DGet(tbl, name) ELSE NULL     \* table exists only after the first put
      p   == scs[s].parent
  IN IF d = NULL /\ p # -1 /\ recurse THEN ImplGetIn(scs, p, ns, name, recurse) ELSE d
ImplGet(s, ns, name, recurse) == ImplGetIn(sc, s, ns, name, recurse)

(* Declarative: the identifier designates the entity declared in the innermost    *)
(* enclosing scope that declares it in that name space (6.2.1p4, 6.2.3).          *)
RECURSIVE AncestorsIn(_, _)
AncestorsIn(scs, s) == IF scs[s].parent = -1 THEN <<s>> ELSE <<s>> \o AncestorsIn(scs, scs[s].parent)   \* innermost first
DeclGetIn(scs, s, ns, name, recurse) ==
  LET chain == IF recurse THEN AncestorsIn(scs, s) ELSE <<s>>
      has   == {i \in 1..Len(chain) : DHas(scs[chain[i]][ns], name)}
  IN IF has = {} THEN NULL
     ELSE LET i == CHOOSE i \in has : \A j \in has : i <= j IN scs[chain[i]][ns][name]
DeclGet(s, ns, name, recurse) == DeclGetIn(sc, s, ns, name, recurse)
Visible(s, ns, name) == DeclGet(s, ns, name, TRUE)

(* ---------------------------------------------------------------------------- *)
SInit == sc = (FileScope :> NewScope(-1)) /\ nsc = 0 /\ nid = 0

OpenAs(p, id) == sc' = sc @@ (id :> NewScope(p))                     \* mkscope(parent)
CloseAs(s) == sc' = [x \in Live \ {s} |-> sc[x]]                     \* delscope(s)
PutAs(s, ns, name, id) == sc' = [sc EXCEPT ![s][ns] = DPut(@, name, id)]    \* scopeputdecl / scopeputtag

Open(p) ==
  /\ nsc < MaxScopes /\ p \in Live /\ Depth(p, sc) < MaxDepth
  /\ OpenAs(p, nsc + 1) /\ nsc' = nsc + 1 /\ UNCHANGED nid

Leaves == {s \in Live \ {FileScope} : \A x \in Live : sc[x].parent # s}
Close(s) == s \in Leaves /\ CloseAs(s) /\ UNCHANGED <<nsc, nid>>

Put(s, ns, name) ==
  /\ nid < MaxIds /\ s \in Live
  /\ PutAs(s, ns, name, nid + 1) /\ nid' = nid + 1 /\ UNCHANGED nsc

SNext == \/ \E p \in Live : Open(p)
         \/ \E s \in Live : Close(s)
         \/ \E s \in Live, ns \in NameSpaces, n \in Names : Put(s, ns, n)

SSpec == SInit /\ [][SNext]_svars

(* ---------------------------------------------------------------------------- *)
Inv_Refines == \A s \in Live, ns \in NameSpaces, n \in Names, r \in BOOLEAN :
                 ImplGet(s, ns, n, r) = DeclGet(s, ns, n, r)
Inv_NameSpacesApart ==    \* a put in one name space never changes a lookup in the other (6.2.3)
  \A s \in Live, n \in Names : LET id == nid + 1 IN
     /\ DeclGetIn([sc EXCEPT ![s]["tag"] = DPut(@, n, id)], s, "decl", n, TRUE) = DeclGet(s, "decl", n, TRUE)
     /\ DeclGetIn([sc EXCEPT ![s]["decl"] = DPut(@, n, id)], s, "tag", n, TRUE) = DeclGet(s, "tag", n, TRUE)
Inv_Tree == /\ FileScope \in Live /\ sc[FileScope].parent = -1
            /\ \A s \in Live \ {FileScope} : sc[s].parent \in Live
Inv_NoNullBinding == \A s \in Live, ns \in NameSpaces : \A n \in DOMAIN sc[s][ns] : sc[s][ns][n] # NULL
=============================================================================
