------------------------------- MODULE Init -------------------------------
(* Property C07: initialised objects contain exactly the specified initial image.  *)
(*                                                                                  *)
(* Part 1  type universe (constants of the spec; audited against gcc by the harness) *)
(* Part 2  declarative image  Image(T, I)  after C11 6.7.9 (current object, designa- *)
(*         tors, brace elision, strings, in-order overriding at bit granularity,     *)
(*         zero elsewhere, incomplete array length = max index + 1)                  *)
(* Part 3  implementation-shaped cursor machine of /repo/init.c (parseinit,          *)
(*         designator, findmember, focus, advance, subobj, initadd), one action per  *)
(*         critical section, known defects as named deviations (DevOn)               *)
(* Part 4  emitters of /repo/qbe.c: EmitData (static objects) and FuncInit/zero      *)
(*         (automatic objects)                                                       *)
(* Part 5  invariants, refinement, behaviour emission (VCASE)                        *)
EXTENDS Naturals, Integers, Sequences, FiniteSets, TLC, Json

CONSTANTS TopTypes,   \* declared types enumerated
          MaxTok,     \* bound on the number of initializer tokens
          MaxIdx,     \* largest index used with an incomplete array
          AllowAgg,   \* struct-valued expressions as initializers (automatic objects only)
          DevOn,      \* set of named deviations (known defects of the code) switched on
          Salt,       \* rotates the value / address-constant tables
          Prune,      \* generate only token sequences that begin a valid initializer
          EmitCases,  \* print VCASE lines for the harness
          FormsOn     \* declaration forms generated (see DeclForms)

VARIABLES top, form, toks, p, pc
vars == <<top, form, toks, p, pc>>

Dev(d) == d \in DevOn
Max2(a, b) == IF a < b THEN b ELSE a
Min2(a, b) == IF a < b THEN a ELSE b

(* ====================================================================== *)
(* Part 1: the type universe.                                              *)
(* sizes/offsets in bytes; bit-field members carry the storage unit's type *)
(* and offset plus the number of unit bits before/after the field          *)
(* (exactly cproc's struct member / struct bitfield).                      *)
M(n, t, o) == [name |-> n, ty |-> t, off |-> o, before |-> 0, after |-> 0]
BF(n, t, o, b, a) == [name |-> n, ty |-> t, off |-> o, before |-> b, after |-> a]
Sc(sz) == [kind |-> "int", size |-> sz, align |-> sz]
Arr(b, n, sz, al) == [kind |-> "arr", size |-> sz, align |-> al, base |-> b, n |-> n]
St(k, sz, al, ms) == [kind |-> k, size |-> sz, align |-> al, mems |-> ms]
\* pre: unnamed bit-fields (C text) declared before member number `at`; like cproc's member list, mems holds named
\* members only (6.7.9p9: unnamed members take no part in initialization)
StU(k, sz, al, ms, pre) == [kind |-> k, size |-> sz, align |-> al, mems |-> ms, pre |-> pre]

Ty == [
  char  |-> Sc(1),
  short |-> Sc(2),
  ushort |-> Sc(2),                       \* unsigned short = char16_t
  int   |-> Sc(4),
  uint  |-> Sc(4),
  ptr   |-> [kind |-> "ptr", size |-> 8, align |-> 8],
  float  |-> [kind |-> "flt", size |-> 4, align |-> 4],
  double |-> [kind |-> "flt", size |-> 8, align |-> 8],
  AD2   |-> Arr("double", 2, 16, 8),
  \* struct SD { float f; struct DI { double d; float g; } in; char c; }   union UD { double d; int i; float f; }
  DI    |-> St("struct", 16, 8, <<M("d", "double", 0), M("g", "float", 8)>>),
  SD    |-> St("struct", 32, 8, <<M("f", "float", 0), M("in", "DI", 8), M("c", "char", 24)>>),
  UD    |-> St("union", 8, 8, <<M("d", "double", 0), M("i", "int", 0), M("f", "float", 0)>>),
  AI3   |-> Arr("int", 3, 12, 4),
  AIX   |-> Arr("int", 0, 0, 4),          \* int []
  AI1   |-> Arr("int", 1, 4, 4),          \* what a shared typedef'd int[] has become after `A x0 = {0};` ...
  AI5   |-> Arr("int", 5, 20, 4),         \* ... after `A x0 = {0, 0, 0, 0, 0};`
  AC1   |-> Arr("char", 1, 1, 1),
  AC5   |-> Arr("char", 5, 5, 1),
  AP1   |-> Arr("ptr", 1, 8, 8),
  AP5   |-> Arr("ptr", 5, 40, 8),
  \* struct UB1 { int :32; int x; int y; }  struct UB2 { long long :64; char c; }  struct UB3 { unsigned :3; unsigned x:5; int y; }
  UB1   |-> StU("struct", 12, 4, <<M("x", "int", 4), M("y", "int", 8)>>, <<[at |-> 1, c |-> "int :32;"]>>),
  UB2   |-> StU("struct", 9, 1, <<M("c", "char", 8)>>, <<[at |-> 1, c |-> "long long :64;"]>>),
  \* struct SAL { char c; _Alignas(short[2]) char d; char e; }   (alignment taken from a type name whose size differs from it)
  SAL   |-> StU("struct", 4, 2, <<M("c", "char", 0), M("d", "char", 2), M("e", "char", 3)>>, <<[at |-> 2, c |-> "_Alignas(short[2])"]>>),
  UB3   |-> StU("struct", 8, 4, <<BF("x", "uint", 0, 3, 24), M("y", "int", 4)>>, <<[at |-> 1, c |-> "unsigned :3;"]>>),
  AW2   |-> Arr("int", 2, 8, 4),          \* wchar_t [2]: L"pq" fills it exactly, the NUL is dropped
  MW    |-> Arr("AW2", 2, 16, 4),         \* wchar_t [2][2]
  AH2   |-> Arr("ushort", 2, 4, 2),       \* char16_t [2]: u"pq" fills it exactly
  AC2   |-> Arr("char", 2, 2, 1),
  AC3   |-> Arr("char", 3, 3, 1),
  AC4   |-> Arr("char", 4, 4, 1),
  AC6   |-> Arr("char", 6, 6, 1),
  ACX   |-> Arr("char", 0, 0, 1),         \* char []
  APX   |-> Arr("ptr", 0, 0, 8),          \* char *[]
  MC    |-> Arr("AC3", 2, 6, 1),          \* char [2][3]
  P     |-> St("struct", 8, 4, <<M("x", "short", 0), M("y", "int", 4)>>),
  AP2   |-> Arr("P", 2, 16, 4),
  \* struct B { unsigned a:3, b:7, c:5, d:17; char e; }
  B     |-> St("struct", 8, 4, <<BF("a", "uint", 0, 0, 29), BF("b", "uint", 0, 3, 22), BF("c", "uint", 0, 10, 17),
                                 BF("d", "uint", 0, 15, 0), M("e", "char", 4)>>),
  \* struct B2 { char e; unsigned f:5, g:11; }   (bit-fields after a char in the same unit, a bit-field last)
  B2    |-> St("struct", 4, 4, <<M("e", "char", 0), BF("f", "uint", 0, 8, 19), BF("g", "uint", 0, 13, 8)>>),
  \* struct N { char c; struct P p; char *q; }
  N     |-> St("struct", 24, 8, <<M("c", "char", 0), M("p", "P", 4), M("q", "ptr", 16)>>),
  AU    |-> St("union", 4, 4, <<M("q", "int", 0), M("r", "AC2", 0)>>),
  \* struct A { int t; union { int q; char r[2]; }; short u; }
  A     |-> St("struct", 12, 4, <<M("t", "int", 0), M("", "AU", 4), M("u", "short", 8)>>),
  \* union U { int a; char s[4]; struct P p; }
  U     |-> St("union", 8, 4, <<M("a", "int", 0), M("s", "AC4", 0), M("p", "P", 0)>>),
  \* struct SA { struct P ps[2]; char k; }
  SA    |-> St("struct", 20, 4, <<M("ps", "AP2", 0), M("k", "char", 16)>>),
  \* struct SC { char s[6]; short z; }
  SC    |-> St("struct", 8, 2, <<M("s", "AC6", 0), M("z", "short", 6)>>),
  \* struct SW2 { int w[2]; char k; }  struct SH { unsigned short h[2]; short z; }  (exactly filled wide arrays before a member)
  SW2   |-> St("struct", 12, 4, <<M("w", "AW2", 0), M("k", "char", 8)>>),
  SH    |-> St("struct", 6, 2, <<M("h", "AH2", 0), M("z", "short", 4)>>),
  \* struct SW { int w[3]; char k; }   (w doubles as a wchar_t array)
  SW    |-> St("struct", 16, 4, <<M("w", "AI3", 0), M("k", "char", 12)>>),
  AS0   |-> St("struct", 8, 4, <<M("q", "int", 0), M("r", "char", 4)>>),
  \* struct AS { struct { int q; char r; }; int t; }
  AS    |-> St("struct", 12, 4, <<M("", "AS0", 0), M("t", "int", 8)>>)
]
TypeIds == DOMAIN Ty

Kind(t) == Ty[t].kind
IsScalar(t) == Kind(t) \in {"int", "ptr", "flt"}
IsSU(t) == Kind(t) \in {"struct", "union"}
IsIncT(t) == Kind(t) = "arr" /\ Ty[t].n = 0
\* arrays a string literal may initialise: char[] with "...", int[] (= wchar_t[]) with L"...", unsigned short[]
\* (= char16_t[]) with u"..."
StrElemW(t) == IF Kind(t) = "arr" /\ Ty[t].base \in {"char", "int", "ushort"} THEN Ty[Ty[t].base].size ELSE 0

\* the two string literals (without the terminating NUL)
StrData(id) == IF id = 1 THEN <<112, 113>> ELSE <<119, 120, 121, 122>>      \* "pq"  "wxyz"
\* j-th value token of an initializer (Salt rotates)
ValTab == <<287454020, 1432778632, -2, 2054913149, 65, 19088743, -1985229329, 258>>
\* the value token at position i of the initializer, the j-th value token: which table entries it denotes
\* (mixing the position in lets short initializers reach all entries; Salt rotates)
Val2(i, j) == ValTab[((i + 2 * j + Salt) % 8) + 1]
AddrIx2(i, j) == ((i + 2 * j + Salt) % 8) + 1                               \* which address constant of AddrTab
\* address constants: C text, and what they denote: a named object/function plus addend, or (sym = "") an
\* unnamed object (string literal, compound literal) identified by its content `obj`, plus addend
AddrC(c, sym, add, obj) == [c |-> c, sym |-> sym, add |-> add, obj |-> obj]
AddrTab == <<AddrC("g", "g", 0, <<>>),                       \* char g[8];
             AddrC("g + 3", "g", 3, <<>>),
             AddrC("(char *)fn", "fn", 0, <<>>),             \* void fn(void);
             AddrC("\"lit\" + 1", "", 1, <<108, 105, 116, 0>>),
             AddrC("(char []){55, 56, 57, 0}", "", 0, <<55, 56, 57, 0>>),
             AddrC("(char *)&hs.y", "hs", 4, <<>>),          \* struct P hs;
             AddrC("(char *)&ga[2]", "ga", 8, <<>>),         \* int ga[4];
             AddrC("&g[5] - 1", "g", 4, <<>>)>>
StrAddr(id) == AddrC("", "", 0, Append(StrData(id), 0))    \* a string literal initialising a pointer
\* floating constants: C text and the bytes (little endian IEEE-754) of the value the constant expression has.
\* Half of the doubles need 17 significant decimal digits to survive printing (what dataitem's "%.17g" provides);
\* the tables are audited against gcc on every run like every other expected byte.
FD(c, bs) == [c |-> c, bs |-> bs]
DblTab == <<FD("0.1 + 0.2", <<52, 51, 51, 51, 51, 51, 211, 63>>),
            FD("1.1 * 1.1", <<93, 143, 194, 245, 40, 92, 243, 63>>),
            FD("1.7976931348623157e308", <<255, 255, 255, 255, 255, 255, 239, 127>>),
            FD("2.2250738585072014e-308", <<0, 0, 0, 0, 0, 0, 16, 0>>),
            FD("4.9406564584124654e-324", <<1, 0, 0, 0, 0, 0, 0, 0>>),
            FD("9007199254740991.0", <<255, 255, 255, 255, 255, 255, 63, 67>>),
            FD("-0.1 * 3", <<52, 51, 51, 51, 51, 51, 211, 191>>),
            FD("1 / 3.0", <<85, 85, 85, 85, 85, 85, 213, 63>>)>>
FltTab == <<FD("0.1f", <<205, 204, 204, 61>>),
            FD("16777215.0f", <<255, 255, 127, 75>>),
            FD("3.40282347e38f", <<255, 255, 127, 127>>),
            FD("1.17549435e-38f", <<0, 0, 128, 0>>),
            FD("1.40129846e-45f", <<1, 0, 0, 0>>),
            FD("0.3f", <<154, 153, 153, 62>>),
            FD("-2.5f", <<0, 0, 32, 192>>),
            FD("0.33333334f", <<171, 170, 170, 62>>)>>
FConst(t, k) == IF t = "double" THEN DblTab[k] ELSE FltTab[k]
\* struct P valued expression used by "g" tokens: member values of the source object
AggX == 20818          \* 0x5152
AggY == 1398031702     \* 0x53545556

(* bit i of the two's complement representation of v *)
RECURSIVE VBit(_, _)
VBit(v, i) == IF v >= 0 THEN (IF i > 30 THEN 0 ELSE (v \div (2 ^ i)) % 2) ELSE 1 - VBit(-v - 1, i)
ByteOf(v, k) == VBit(v, 8*k) + 2*VBit(v, 8*k+1) + 4*VBit(v, 8*k+2) + 8*VBit(v, 8*k+3) + 16*VBit(v, 8*k+4)
                + 32*VBit(v, 8*k+5) + 64*VBit(v, 8*k+6) + 128*VBit(v, 8*k+7)
LEBytes(v, n) == [k \in 1..n |-> ByteOf(v, k - 1)]

RECURSIVE Flat(_)
Flat(ss) == IF ss = <<>> THEN <<>> ELSE Head(ss) \o Flat(Tail(ss))

\* element values of string literal id (with NUL) cut/extended to n elements, as bytes of width w
StrBytes(id, n, w) ==
  LET d == Append(StrData(id), 0)
  IN Flat([k \in 1..n |-> LEBytes(IF k <= Len(d) THEN d[k] ELSE 0, w)])

(* Declaration forms.  The object declared has type T in every form (6.2.7p3: the composite of T[n] and T[] is   *)
(* T[n]; every declaration using a typedef name for T[] declares its own object of its own size), so the image  *)
(* is Image(T, I) in every form.  What the implementation's parser is handed differs (deviations):              *)
(*   redecl-extern  `extern T x[n]; T x[] = I;`      redecl-tent  `T x[n]; T x[] = I;`                          *)
(*        decl.c takes typecomposite() = the NEW type, i.e. the incomplete one   (CompositeKeepsNew)             *)
(*   shared-big / shared-small   `typedef T A[]; A x0 = {0,0,0,0,0} / {0}; A x = I;`                            *)
(*        parseinit completes the typedef's type object in place, x sees T[5] / T[1]   (SharedIncompleteType)    *)
(*   alignas   `_Alignas(int[4]) T x = I;`  same image, the definition is aligned to max(_Alignof(int[4]), T's)   *)
IncOf(t) == IF t = "AI3" THEN "AIX" ELSE "ACX"
BigOf(t) == CASE t = "AIX" -> "AI5" [] t = "ACX" -> "AC5" [] OTHER -> "AP5"
SmallOf(t) == CASE t = "AIX" -> "AI1" [] t = "ACX" -> "AC1" [] OTHER -> "AP1"
DeclForms(t) == ({"plain"} \cup (IF t \in {"AI3", "AC4"} THEN {"redecl-extern", "redecl-tent"} ELSE {})
                          \cup (IF t \in {"AIX", "ACX", "APX"} THEN {"shared-big", "shared-small"} ELSE {})
                          \cup (IF t \in {"AC4", "SC"} THEN {"alignas"} ELSE {})) \cap FormsOn
DeclAlign(t, f) == IF f = "alignas" THEN Max2(Ty["int"].align, Ty[t].align) ELSE Ty[t].align
FormDev(f) == CASE f \in {"redecl-extern", "redecl-tent"} -> "CompositeKeepsNew"
                [] f \in {"shared-big", "shared-small"} -> "SharedIncompleteType"
                [] OTHER -> ""
\* the type the parser of the implementation works on
MTopOf(t, f) == IF FormDev(f) = "" \/ ~Dev(FormDev(f)) THEN t
                ELSE CASE f = "shared-big" -> BigOf(t) [] f = "shared-small" -> SmallOf(t) [] OTHER -> IncOf(t)
MTop == MTopOf(top, form)

(* ====================================================================== *)
(* Part 2: declarative image.                                              *)
(* A path is a sequence of child numbers below the object a brace list      *)
(* initialises.  Children of an array are its elements, of a struct/union   *)
(* its members in declaration order (anonymous members are children).       *)
NONE == <<-1>>
NKids(t) == IF Kind(t) = "arr" THEN (IF Ty[t].n = 0 THEN MaxIdx + 1 ELSE Ty[t].n) ELSE Len(Ty[t].mems)
\* child k of type t: type, bit offset of its value inside t, width in bits
Child(t, k) ==
  IF Kind(t) = "arr"
  THEN LET b == Ty[t].base IN [ty |-> b, lo |-> (k - 1) * Ty[b].size * 8, w |-> Ty[b].size * 8]
  ELSE LET m == Ty[t].mems[k] IN [ty |-> m.ty, lo |-> m.off * 8 + m.before, w |-> Ty[m.ty].size * 8 - m.before - m.after]

\* info about the subobject at `path` below an object of type t at bit offset lo; un = enclosing union choices
RECURSIVE PInfo(_, _)
PInfo(st, path) ==
  IF path = <<>> THEN st
  ELSE LET k == Head(path)
           c == Child(st.ty, k)
       IN PInfo([ty |-> c.ty, lo |-> st.lo + c.lo, w |-> c.w,
                 un |-> IF Kind(st.ty) = "union" THEN Append(st.un, [lo |-> st.lo, n |-> st.w, m |-> k]) ELSE st.un],
                Tail(path))
Obj(t, lo, un) == [ty |-> t, lo |-> lo, w |-> Ty[t].size * 8, un |-> un]

Front(s) == SubSeq(s, 1, Len(s) - 1)
Last(s) == s[Len(s)]

\* 6.7.9p17: the next subobject in order after the one at `path` (inside the object o.ty)
RECURSIVE NextPath(_, _)
NextPath(o, path) ==
  IF path = <<>> THEN NONE
  ELSE LET par == Front(path)
           k   == Last(path)
           pt  == PInfo(o, par).ty
       IN IF Kind(pt) # "union" /\ k < NKids(pt) THEN Append(par, k + 1) ELSE NextPath(o, par)
FirstPath(t) == IF IsScalar(t) THEN <<>> ELSE <<1>>

\* 6.7.2.1p13: members of anonymous members are members of the containing struct/union
RECURSIVE FindMem(_, _, _)
FindMem(t, nm, k) ==
  IF k > Len(Ty[t].mems) THEN <<>>
  ELSE LET m == Ty[t].mems[k]
       IN IF m.name = nm THEN <<k>>
          ELSE IF m.name = ""
               THEN LET r == FindMem(m.ty, nm, 1) IN IF r # <<>> THEN <<k>> \o r ELSE FindMem(t, nm, k + 1)
               ELSE FindMem(t, nm, k + 1)

\* consume a designator list starting at token i of ts, relative to object o
RECURSIVE DScan(_, _, _, _)
DScan(ts, o, i, path) ==
  IF i > Len(ts) \/ ts[i].k \notin {"m", "i"} THEN [ok |-> TRUE, path |-> path, pos |-> i]
  ELSE LET t == PInfo(o, path).ty
           tk == ts[i]
       IN IF tk.k = "i"
          THEN IF Kind(t) = "arr" /\ tk.n < NKids(t) THEN DScan(ts, o, i + 1, Append(path, tk.n + 1))
               ELSE [ok |-> FALSE, path |-> path, pos |-> i]
          ELSE IF IsSU(t) /\ FindMem(t, tk.s, 1) # <<>> THEN DScan(ts, o, i + 1, path \o FindMem(t, tk.s, 1))
               ELSE [ok |-> FALSE, path |-> path, pos |-> i]

\* brace elision: descend to the first scalar / to the subobject the expression can initialise as a whole
Stop(mode, t) == IsScalar(t) \/ (mode = "s" /\ StrElemW(t) > 0) \/ (mode = "g" /\ t = "P")
RECURSIVE Descend(_, _, _)
Descend(o, path, mode) ==
  IF Stop(mode, PInfo(o, path).ty) THEN path ELSE Descend(o, Append(path, 1), mode)

VOrd(ts, i) == Cardinality({j \in 1..i : ts[j].k = "v"})     \* ordinal of the value token at position i

W(lo, n, k, v, bs, un, tp, lt) == [lo |-> lo, n |-> n, k |-> k, v |-> v, bs |-> bs, un |-> un, tp |-> tp, lt |-> lt]
DErr == [ok |-> FALSE, pos |-> 0, w |-> <<>>, mx |-> 0]

\* the write an expression token at position i performs on the leaf/subobject pi (<<>> when ill-typed)
LeafWrite(ts, i, pi, n) ==
  LET tk == ts[i]
      t  == pi.ty
  IN CASE tk.k = "v" /\ Kind(t) = "int" -> <<W(pi.lo, pi.w, "int", Val2(i, VOrd(ts, i)), <<>>, pi.un, i, t)>>
       [] tk.k = "v" /\ Kind(t) = "ptr" -> <<W(pi.lo, 64, "addr", AddrIx2(i, VOrd(ts, i)), <<>>, pi.un, i, t)>>
       [] tk.k = "v" /\ Kind(t) = "flt" -> <<W(pi.lo, pi.w, "flt", AddrIx2(i, VOrd(ts, i)), FConst(t, AddrIx2(i, VOrd(ts, i))).bs, pi.un, i, t)>>
       [] tk.k = "s" /\ Kind(t) = "ptr" -> <<W(pi.lo, 64, "saddr", tk.n, <<>>, pi.un, i, t)>>
       [] tk.k = "s" /\ StrElemW(t) > 0 /\ Len(StrData(tk.n)) <= n ->
            <<W(pi.lo, n * StrElemW(t) * 8, "bytes", 0, StrBytes(tk.n, n, StrElemW(t)), pi.un, i, t)>>
       [] tk.k = "g" /\ t = "P" /\ AllowAgg -> <<W(pi.lo, 64, "agg", 0, <<>>, pi.un, i, t)>>
       [] OTHER -> <<>>

RECURSIVE DList(_, _, _, _, _, _, _)
(* items of the brace list that initialises object o; i = next token, path = last initialised subobject.  *)
(* pm = prefix mode: running out of tokens is not an error (is ts the beginning of a valid initializer?)  *)
DList(ts, pm, o, i, path, w, mx) ==
  IF i > Len(ts) THEN (IF pm THEN [ok |-> TRUE, pos |-> i, w |-> w, mx |-> mx] ELSE DErr)
  ELSE IF ts[i].k = "}" THEN [ok |-> path # NONE, pos |-> i + 1, w |-> w, mx |-> mx]
  ELSE IF path = <<>> THEN DErr                                  \* the object itself is already initialised
  ELSE
   LET d == DScan(ts, o, i, <<>>) IN
   IF ~d.ok THEN DErr ELSE
   IF d.pos > Len(ts) THEN (IF pm THEN [ok |-> TRUE, pos |-> d.pos, w |-> w, mx |-> mx] ELSE DErr) ELSE
   LET tgt == IF d.pos > i THEN d.path ELSE IF path = NONE THEN FirstPath(o.ty) ELSE NextPath(o, path) IN
   IF tgt = NONE THEN DErr ELSE                                 \* excess initializer
   LET it  == ts[d.pos]
       ti  == PInfo(o, tgt)
       mx1 == IF tgt = <<>> THEN mx ELSE Max2(mx, tgt[1])
   IN
   CASE it.k = "{" ->
          IF IsScalar(ti.ty)
          THEN \* braces around a scalar subobject: exactly { expr }
               IF tgt = <<>> THEN DErr
               ELSE IF d.pos + 1 > Len(ts) THEN (IF pm THEN [ok |-> TRUE, pos |-> d.pos + 1, w |-> w, mx |-> mx1] ELSE DErr)
               ELSE LET lw == LeafWrite(ts, d.pos + 1, ti, 0) IN
                    IF lw = <<>> THEN DErr
                    ELSE IF d.pos + 2 > Len(ts) THEN (IF pm THEN [ok |-> TRUE, pos |-> d.pos + 2, w |-> w, mx |-> mx1] ELSE DErr)
                    ELSE IF ts[d.pos + 2].k # "}" THEN DErr
                    ELSE DList(ts, pm, o, d.pos + 3, tgt, w \o lw, mx1)
          ELSE LET r == DList(ts, pm, ti, d.pos + 1, NONE, <<W(ti.lo, ti.w, "zero", 0, <<>>, ti.un, d.pos, ti.ty)>>, 0) IN
               IF ~r.ok THEN DErr ELSE DList(ts, pm, o, r.pos, tgt, w \o r.w, mx1)
     [] it.k = "E" ->
          IF IsScalar(ti.ty) THEN DErr
          ELSE DList(ts, pm, o, d.pos + 1, tgt, Append(w, W(ti.lo, ti.w, "zero", 0, <<>>, ti.un, d.pos, ti.ty)), mx1)
     [] it.k \in {"v", "s", "g"} ->
          \* a string literal as the (only) initializer of the char array the braces belong to
          IF it.k = "s" /\ d.pos = i /\ path = NONE /\ StrElemW(o.ty) > 0
          THEN LET n  == IF IsIncT(o.ty) THEN Len(StrData(it.n)) + 1 ELSE Ty[o.ty].n
                   lw == LeafWrite(ts, d.pos, [o EXCEPT !.w = n * StrElemW(o.ty) * 8], n)
               IN IF lw = <<>> THEN DErr ELSE DList(ts, pm, o, d.pos + 1, <<>>, w \o lw, Max2(mx, n))
          \* not modelled: a string literal arriving while the cursor stands inside a character array whose braces
          \* were elided or which was entered by a nested designator (gcc, clang and cproc give three different images)
          ELSE IF it.k = "s" /\ d.pos = i /\ path # NONE /\ Len(path) >= 1 /\ StrElemW(PInfo(o, Front(path)).ty) > 0 THEN DErr
          ELSE LET leaf == Descend(o, tgt, it.k)
                   li   == PInfo(o, leaf)
                   lw   == LeafWrite(ts, d.pos, li, IF Kind(li.ty) = "arr" THEN Ty[li.ty].n ELSE 0)
               IN IF lw = <<>> THEN DErr ELSE DList(ts, pm, o, d.pos + 1, leaf, w \o lw, mx1)
     [] OTHER -> DErr

(* the whole initializer ts of an object declared with type T *)
DeclOf(T, ts, pm) ==
  LET o == Obj(T, 0, <<>>)
      n == Len(ts)
  IN IF n = 0 THEN (IF pm THEN [ok |-> TRUE, pos |-> 1, w |-> <<>>, mx |-> 0] ELSE DErr)
     ELSE CASE ts[1].k = "{" ->
                 LET r == DList(ts, pm, o, 2, NONE, <<>>, 0) IN IF r.ok /\ r.pos = n + 1 THEN r ELSE DErr
            [] ts[1].k = "E" -> IF n = 1 /\ ~IsScalar(T) /\ ~IsIncT(T) THEN [ok |-> TRUE, pos |-> 2, w |-> <<>>, mx |-> 0] ELSE DErr
            [] OTHER ->
                 LET nn == IF IsIncT(T) /\ ts[1].k = "s" THEN Len(StrData(ts[1].n)) + 1 ELSE IF Kind(T) = "arr" THEN Ty[T].n ELSE 0
                     lw == LeafWrite(ts, 1, [o EXCEPT !.w = IF Kind(T) = "arr" THEN nn * Ty[Ty[T].base].size * 8 ELSE @], nn)
                 IN IF n = 1 /\ ts[1].k \in {"v", "s", "g"} /\ lw # <<>> /\ (IsScalar(T) \/ ts[1].k # "v")
                    THEN [ok |-> TRUE, pos |-> 2, w |-> lw, mx |-> nn] ELSE DErr
Decl == DeclOf(top, toks, FALSE)
\* ts is the beginning of some initializer C11 accepts for T (over-approximation; used to prune generation)
Viable(T, ts) == DeclOf(T, ts, TRUE).ok

\* size in bytes of the declared object once its initializer is known
DeclSize(D) == IF IsIncT(top) THEN D.mx * Ty[Ty[top].base].size ELSE Ty[top].size

(* ---- painting the writes, in order, on a zero object ------------------- *)
\* image: bit -> 0 | 1 | 2 (2 = unspecified: padding of a copied struct value); rel: address constants by byte offset
ZeroImg(nbits) == [bit |-> [b \in 0..nbits - 1 |-> 0], rel |-> {}]
Overl(lo1, n1, lo2, n2) == lo1 < lo2 + n2 /\ lo2 < lo1 + n1
Clear(img, lo, n) == [bit |-> [b \in DOMAIN img.bit |-> IF b >= lo /\ b < lo + n THEN 0 ELSE img.bit[b]],
                      rel |-> {r \in img.rel : ~Overl(r.off * 8, 64, lo, n)}]
AggBit(i) == IF i < 16 THEN VBit(AggX, i) ELSE IF i < 32 THEN 2 ELSE VBit(AggY, i - 32)
Paint(img, w) ==
  LET c == Clear(img, w.lo, w.n) IN
  CASE w.k = "int"   -> [c EXCEPT !.bit = [b \in DOMAIN c.bit |-> IF b >= w.lo /\ b < w.lo + w.n THEN VBit(w.v, b - w.lo) ELSE c.bit[b]]]
    [] w.k \in {"bytes", "flt"} -> [c EXCEPT !.bit = [b \in DOMAIN c.bit |-> IF b >= w.lo /\ b < w.lo + w.n
                                                                   THEN (w.bs[((b - w.lo) \div 8) + 1] \div (2 ^ ((b - w.lo) % 8))) % 2 ELSE c.bit[b]]]
    [] w.k = "agg"   -> [c EXCEPT !.bit = [b \in DOMAIN c.bit |-> IF b >= w.lo /\ b < w.lo + w.n THEN AggBit(b - w.lo) ELSE c.bit[b]]]
    [] w.k \in {"addr", "saddr"} -> [c EXCEPT !.rel = @ \cup {[off |-> w.lo \div 8, k |-> w.k, v |-> w.v]}]
    [] w.k = "zero"  -> c

RECURSIVE PaintAll(_, _, _)
PaintAll(img, ws, i) == IF i > Len(ws) THEN img ELSE PaintAll(Paint(img, ws[i]), ws, i + 1)

(* Alternative reading for unions (and for struct values partly overwritten later): naming a  *)
(* different member of a union discards what was stored through the previous member (gcc,     *)
(* clang).  C11 leaves the bytes outside the last-stored member unspecified (6.2.6.1p7), so   *)
(* both images are acceptable; they differ only for such initializers.                        *)
RECURSIVE SwitchUnions(_, _, _)
SwitchUnions(st, un, i) ==     \* st = [img, act]; act = set of union choices made so far
  IF i > Len(un) THEN st
  ELSE LET u == un[i]
           same == \E a \in st.act : a.lo = u.lo /\ a.n = u.n /\ a.m = u.m
           other == \E a \in st.act : a.lo = u.lo /\ a.n = u.n /\ a.m # u.m
       IN IF same THEN SwitchUnions(st, un, i + 1)
          ELSE IF other
               THEN SwitchUnions([st EXCEPT !.img = Clear(st.img, u.lo, u.n),
                                            !.act = {a \in st.act : ~(a.lo >= u.lo /\ a.lo + a.n <= u.lo + u.n)} \cup {u}], un, i + 1)
               ELSE SwitchUnions([st EXCEPT !.act = @ \cup {u}], un, i + 1)
RECURSIVE PaintAlt(_, _, _)
PaintAlt(st, ws, i) ==
  IF i > Len(ws) THEN st.img
  ELSE LET s1 == SwitchUnions(st, ws[i].un, 1)
           \* a partial write into a region last written by a struct value drops that value
           ag == {a \in s1.agg : Overl(a.lo, a.n, ws[i].lo, ws[i].n) /\ ~(ws[i].lo <= a.lo /\ ws[i].lo + ws[i].n >= a.lo + a.n)}
           im == IF ag = {} THEN s1.img ELSE LET a == CHOOSE a \in ag : TRUE IN Clear(s1.img, a.lo, a.n)
       IN PaintAlt([img |-> Paint(im, ws[i]), act |-> s1.act,
                    agg |-> (s1.agg \ ag) \cup (IF ws[i].k = "agg" THEN {[lo |-> ws[i].lo, n |-> ws[i].n]} ELSE {})], ws, i + 1)

Image(D) == PaintAll(ZeroImg(DeclSize(D) * 8), D.w, 1)
ImageAlt(D) == PaintAlt([img |-> ZeroImg(DeclSize(D) * 8), act |-> {}, agg |-> {}], D.w, 1)

ImgBytes(img, size) == [k \in 1..size |->
   LET b(i) == img.bit[8 * (k - 1) + i] IN
   IF \E i \in 0..7 : b(i) = 2 THEN -1
   ELSE b(0) + 2*b(1) + 4*b(2) + 8*b(3) + 16*b(4) + 32*b(5) + 64*b(6) + 128*b(7)]

\* bits that belong to some scalar member (everything else is padding)
RECURSIVE LeafBits(_, _)
LeafBits(t, lo) ==
  IF IsScalar(t) THEN lo .. lo + Ty[t].size * 8 - 1
  ELSE UNION {LET c == Child(t, k) IN IF IsScalar(c.ty) THEN (lo + c.lo) .. (lo + c.lo + c.w - 1) ELSE LeafBits(c.ty, lo + c.lo)
              : k \in 1..(IF Kind(t) = "arr" THEN Ty[t].n ELSE Len(Ty[t].mems))}

\* the same without anything that lies inside a union
RECURSIVE LeafBitsNU(_, _)
LeafBitsNU(t, lo) ==
  IF IsScalar(t) THEN lo .. lo + Ty[t].size * 8 - 1
  ELSE IF Kind(t) = "union" THEN {}
  ELSE UNION {LET c == Child(t, k) IN IF IsScalar(c.ty) THEN (lo + c.lo) .. (lo + c.lo + c.w - 1) ELSE LeafBitsNU(c.ty, lo + c.lo)
              : k \in 1..(IF Kind(t) = "arr" THEN Ty[t].n ELSE Len(Ty[t].mems))}
(* Bits of an automatic object whose value is determined by the initializer: members outside unions,  *)
(* and inside a union the member bits of whatever was written there last (padding of automatic        *)
(* objects, and of the member a union currently holds, is unspecified).                               *)
MemberBitsOf(w) == CASE w.k = "agg" -> LeafBits("P", w.lo)
                     [] w.k = "zero" -> LeafBits(w.lt, w.lo)
                     [] OTHER -> w.lo .. w.lo + w.n - 1
RECURSIVE OwnerOf(_, _, _)
OwnerOf(ws, b, i) == IF i = 0 THEN 0 ELSE IF b >= ws[i].lo /\ b < ws[i].lo + ws[i].n THEN i ELSE OwnerOf(ws, b, i - 1)
AutoMask(D, size) ==
  LET all == 0..size * 8 - 1
      nu  == IF IsIncT(top) THEN all ELSE LeafBitsNU(top, 0)
      inu == (IF IsIncT(top) THEN {} ELSE LeafBits(top, 0)) \ nu
      \* the member a union holds at the end: the one named by the last write that went through it
      RECURSIVE LastChoice(_, _)
      LastChoice(u, i) == IF i = 0 THEN 0
                          ELSE LET S == {k \in 1..Len(D.w[i].un) : D.w[i].un[k].lo = u.lo /\ D.w[i].un[k].n = u.n}
                               IN IF S # {} THEN D.w[i].un[CHOOSE k \in S : TRUE].m ELSE LastChoice(u, i - 1)
      current(w) == \A k \in 1..Len(w.un) : LastChoice(w.un[k], Len(D.w)) = w.un[k].m
  IN nu \cup {b \in inu : LET o == OwnerOf(D.w, b, Len(D.w)) IN o # 0 /\ b \in MemberBitsOf(D.w[o]) /\ current(D.w[o])}

(* ====================================================================== *)
(* Part 3: the cursor machine of init.c.                                   *)
(* p = [obj, cur, sub, list, last, tsz, inc, indes, fired, st]              *)
(*   obj   the parser's object stack (p->obj[0..]); entries above `sub`     *)
(*         keep their old contents like the C array does                    *)
(*   u     the union {mem, idx} of struct object, tagged: "g" = never       *)
(*         written (indeterminate), "idx" byte index, "mem" member number   *)
(*         (0 = NULL)                                                       *)
(*   tsz/inc  size and `incomplete` flag of the declared type when it is an *)
(*         array of unknown size (the only type the parser mutates here)    *)
(*   last  number of list entries before the position p->last points at     *)
(*   st    "run" | "done" | "err" (error()/fatal()) | "undef" (the C code   *)
(*         read an indeterminate or mistyped u: undefined behaviour)        *)
UG == [t |-> "g", v |-> 0]
UIdx(v) == [t |-> "idx", v |-> v]
UMem(k) == [t |-> "mem", v |-> k]

SizeI(q, t) == IF IsIncT(t) THEN q.tsz ELSE Ty[t].size
IncI(q, t) == IsIncT(t) /\ q.inc
Fail(q, st) == [q EXCEPT !.st = st]
Fire(q, d) == [q EXCEPT !.fired = @ \cup {d}]
Running(q) == q.st = "run"
SetU(q, s, u) == [q EXCEPT !.obj[s].u = u]
\* slots above `sub` keep their old contents in the C array, but are re-initialised by subobj() before any read
\* (since fix 4544836 findmember records u.mem on every level it descends through), so the model drops them
Pop(q) == [q EXCEPT !.sub = @ - 1, !.obj = SubSeq(@, 1, q.sub - 1)]

\* subobj(p, t, off)
SubObj(q, t, off) ==
  IF ~Running(q) THEN q
  ELSE LET s == q.sub + 1
           o == q.obj[q.sub].off + off
       IN IF s > 32 THEN Fail(q, "err")           \* fatal("internal error: too many designators")
          ELSE [q EXCEPT !.sub = s,
                         !.obj = IF s <= Len(@) THEN [@ EXCEPT ![s] = [off |-> o, ty |-> t, u |-> @.u, iscur |-> FALSE]]
                                 ELSE Append(@, [off |-> o, ty |-> t, u |-> UG, iscur |-> FALSE])]

\* findmember(p, name), examining members from number k on
RECURSIVE FindMember(_, _, _)
FindMember(q, nm, k) ==
  LET t  == q.obj[q.sub].ty
      ms == Ty[t].mems
  IN IF k > Len(ms) \/ ~Running(q) THEN [q |-> q, found |-> FALSE]
     ELSE LET m == ms[k] IN
          IF m.name # ""
          THEN IF m.name = nm THEN [q |-> SubObj(SetU(q, q.sub, UMem(k)), m.ty, m.off), found |-> TRUE]
               ELSE FindMember(q, nm, k + 1)
          ELSE \* anonymous member: record it, descend  (the missing `p->sub->u.mem = m` was deviation AnonNoMem,
               \* repaired in /repo by 4544836)
               LET q1 == SubObj(SetU(q, q.sub, UMem(k)), m.ty, m.off)
                   r  == FindMember(q1, nm, 1)
               IN IF r.found THEN r ELSE FindMember(Pop(q1), nm, k + 1)

\* one designator of designator(); first = first designator of this initializer
DesignateOp(q0, tk, first) ==
  LET q == IF first THEN [q0 EXCEPT !.last = 0, !.sub = q0.cur,
                                    !.obj = SubSeq(@, 1, q0.cur)] ELSE q0
      t == q.obj[q.sub].ty
  IN IF tk.k = "i"
     THEN IF Kind(t) # "arr" THEN Fail(q, "err")
          ELSE LET b   == Ty[t].base
                   idx == tk.n * Ty[b].size
                   q1  == SetU(q, q.sub, UIdx(idx))
               IN IF idx >= SizeI(q, t)
                  THEN IF ~IncI(q, t) THEN Fail(q, "err")
                       ELSE SubObj([q1 EXCEPT !.tsz = idx + Ty[b].size], b, idx)
                  ELSE SubObj(q1, b, idx)
     ELSE IF ~IsSU(t) THEN Fail(q, "err")
          ELSE LET r == FindMember(q, tk.s, 1) IN IF r.found THEN r.q ELSE Fail(r.q, "err")

\* focus(p)
FocusOp(q) ==
  LET s == q.sub
      t == q.obj[s].ty
  IN CASE Kind(t) = "arr" ->
            LET b == Ty[t].base
            IN SubObj([SetU(q, s, UIdx(0)) EXCEPT !.tsz = IF IncI(q, t) THEN Ty[b].size ELSE @], b, 0)
       [] IsSU(t) -> SubObj(SetU(q, s, UMem(1)), Ty[t].mems[1].ty, Ty[t].mems[1].off)   \* own offset: fix 7f4acb8 (was 0)
       [] OTHER -> Fail(q, "err")                   \* fatal("internal error: init cursor has unexpected type")

\* advance(p)
RECURSIVE AdvanceOp(_)
AdvanceOp(q0) ==
  LET q == Pop(q0)
      s == q.sub
      t == q.obj[s].ty
      u == q.obj[s].u
      up(qq) == IF qq.sub = qq.cur THEN Fail(qq, "err") ELSE AdvanceOp(qq)     \* "too many initializers for type"
  IN CASE Kind(t) = "arr" ->
            IF u.t # "idx" THEN Fail(q, "undef")
            ELSE LET b  == Ty[t].base
                     i2 == u.v + Ty[b].size
                     q1 == SetU(q, s, UIdx(i2))
                 IN IF i2 = SizeI(q, t)
                    THEN IF ~IncI(q, t) THEN up(q1)
                         ELSE SubObj([q1 EXCEPT !.tsz = @ + Ty[b].size], b, i2)
                    ELSE SubObj(q1, b, i2)
       [] Kind(t) = "struct" ->
            IF u.t # "mem" \/ u.v = 0 THEN Fail(q, "undef")
            ELSE LET k2 == IF u.v < Len(Ty[t].mems) THEN u.v + 1 ELSE 0
                     q1 == SetU(q, s, UMem(k2))
                 IN IF k2 # 0 THEN SubObj(q1, Ty[t].mems[k2].ty, Ty[t].mems[k2].off) ELSE up(q1)
       [] OTHER -> up(q)

(* ---- initadd ----------------------------------------------------------- *)
SBit(e) == e.s * 8 + e.b
EBit(e) == e.e * 8 - e.a
RECURSIVE SkipCovered(_, _, _)
SkipCovered(l, j, new) == IF j <= Len(l) /\ EBit(l[j]) <= EBit(new) THEN SkipCovered(l, j + 1, new) ELSE j
RECURSIVE Scan(_, _, _, _)
\* returns [l, at, fired]: the list with `new` linked in at position `at`
Scan(l, k, new, fd) ==
  IF k > Len(l) THEN [l |-> Append(l, new), at |-> k, fired |-> fd]
  ELSE LET old == l[k] IN
    IF EBit(old) <= SBit(new) THEN Scan(l, k + 1, new, fd)                                   \* old before new
    ELSE IF EBit(new) <= SBit(old)                                                            \* no overlap, insert before old
         THEN [l |-> SubSeq(l, 1, k - 1) \o <<new>> \o SubSeq(l, k, Len(l)), at |-> k, fired |-> fd]
    ELSE IF EBit(old) <= EBit(new) /\ (Dev("ReplaceEndOnly") \/ SBit(new) <= SBit(old))           \* replace what new covers
         \* the code compares only the ends: an entry that merely ends where `new` ends (a string whose last
         \* element is overridden) is dropped as if it were covered (deviation ReplaceEndOnly)
         THEN [l |-> SubSeq(l, 1, k - 1) \o <<new>> \o SubSeq(l, SkipCovered(l, k + 1, new), Len(l)), at |-> k,
               fired |-> IF SBit(new) <= SBit(old) THEN fd ELSE fd \cup {"ReplaceEndOnly"}]
    ELSE \* old covers new: keep looking.  Right for a string whose elements are overridden; for any other
         \* expression (union member, struct value) the list now holds overlapping non-string entries (UnionCover)
         IF old.x.k = "str" /\ new.e - new.s = old.x.w /\ (new.s - old.s) % old.x.w = 0 /\ new.b = 0 /\ new.a = 0
         THEN Scan(l, k + 1, new, fd)
         ELSE IF Dev("UnionCover") THEN Scan(l, k + 1, new, fd \cup {"UnionCover"})
         ELSE Scan(SubSeq(l, 1, k - 1) \o SubSeq(l, k + 1, Len(l)), k, new, fd)                \* repaired: drop old
InitAdd(q, new) ==
  LET r == Scan(q.list, q.last + 1, new, {})
      n == Len(q.list)
      \* which way the three-way scan went (vacuity accounting only)
      br == (IF r.at > q.last + 1 THEN {"initadd:skip"} ELSE {})
            \cup (IF Len(r.l) = n + 1 /\ r.at <= n THEN {"initadd:insert-before"} ELSE {})
            \cup (IF Len(r.l) = n + 1 /\ r.at = n + 1 THEN {"initadd:append"} ELSE {})
            \cup (IF Len(r.l) <= n THEN {"initadd:replace"} ELSE {})
            \cup (IF \E i \in 1..r.at - 1 : EBit(r.l[i]) > SBit(new) THEN {"initadd:inside-earlier"} ELSE {})
  IN [q EXCEPT !.list = r.l, !.last = r.at, !.fired = @ \cup r.fired, !.tr = @ \cup br]

\* repaired behaviour of a brace that re-initialises a subobject: forget what was listed for it
DropRange(q, s, e) ==
  [q EXCEPT !.list = SelectSeq(@, LAMBDA x : ~(x.s < e /\ s < x.e)), !.last = 0]
HasRange(q, s, e) == \E i \in 1..Len(q.list) : q.list[i].s < e /\ s < q.list[i].e

(* ---- state machine: one token at a time -------------------------------- *)
Tok(k, n, s) == [k |-> k, n |-> n, s |-> s]
RECURSIVE MemNames(_)
MemNames(t) == CASE Kind(t) = "arr" -> MemNames(Ty[t].base)
                 [] IsSU(t) -> UNION {(IF Ty[t].mems[k].name = "" THEN {} ELSE {Ty[t].mems[k].name}) \cup MemNames(Ty[t].mems[k].ty)
                                      : k \in 1..Len(Ty[t].mems)}
                 [] OTHER -> {}
RECURSIVE MaxLen(_)
MaxLen(t) == CASE Kind(t) = "arr" -> Max2(IF Ty[t].n = 0 THEN MaxIdx + 1 ELSE Ty[t].n, MaxLen(Ty[t].base))
               [] IsSU(t) -> LET S == {MaxLen(Ty[t].mems[k].ty) : k \in 1..Len(Ty[t].mems)} IN CHOOSE m \in S : \A x \in S : x <= m
               [] OTHER -> 0
Alphabet(T) ==
  {Tok("v", 0, ""), Tok("s", 1, ""), Tok("s", 2, ""), Tok("{", 0, ""), Tok("}", 0, ""), Tok("E", 0, "")}
  \cup (IF AllowAgg THEN {Tok("g", 0, "")} ELSE {})
  \cup {Tok("m", 0, nm) : nm \in MemNames(T)}
  \cup {Tok("i", i, "") : i \in 0..MaxLen(T) - 1}

P0(T) == [obj |-> <<[off |-> 0, ty |-> T, u |-> UG, iscur |-> FALSE]>>, cur |-> 0, sub |-> 1,
          list |-> <<>>, last |-> 0, tsz |-> 0, inc |-> IsIncT(T), indes |-> FALSE, fired |-> {}, tr |-> {}, st |-> "run"]

Init == /\ top \in TopTypes
        /\ form \in DeclForms(top)
        /\ toks = <<>>
        /\ p = [P0(MTopOf(top, form)) EXCEPT !.fired = IF MTopOf(top, form) # top THEN {FormDev(form)} ELSE {}]
        /\ pc = "head"

CurTok == toks[Len(toks)]
\* tr: names of the actions / initadd branches taken so far (vacuity accounting; a function of the history)
Goto(q, l, act) ==
  /\ p' = [q EXCEPT !.tr = @ \cup {act}]
  /\ pc' = IF q.st = "run" THEN l ELSE q.st
  /\ UNCHANGED <<top, form, toks>>

(* read the next token; at the loop head of parseinit, or after an initializer (",", "}") *)
Read(tk) ==
  /\ pc \in {"head", "after"}
  /\ Len(toks) < MaxTok
  /\ Prune => Viable(top, Append(toks, tk))
  /\ toks' = Append(toks, tk)
  /\ UNCHANGED <<top, form>>
  /\ p' = [p EXCEPT !.tr = @ \cup {"Read"}]
  /\ pc' = IF pc = "after" /\ tk.k = "}" THEN "close"
           ELSE IF p.cur = 0 THEN "item"
           ELSE IF tk.k \in {"m", "i"} THEN "des"
           ELSE IF p.indes THEN "item"                                 \* "=" after the designators
           ELSE IF p.sub # p.cur THEN "adv"
           ELSE IF IsSU(p.obj[p.cur].ty) THEN "foc"
           ELSE "item"

Designate == /\ pc = "des"
             /\ Goto([DesignateOp(p, CurTok, ~p.indes) EXCEPT !.indes = TRUE], "head", "Designate")
Advance == /\ pc = "adv"
           /\ Goto(AdvanceOp(p), "item", "Advance")
Focus == /\ pc = "foc"
         /\ Goto(FocusOp(p), "item", "Focus")

OpenBrace ==
  /\ pc = "item" /\ CurTok.k = "{"
  /\ LET q0 == [p EXCEPT !.indes = FALSE]
         q1 == IF q0.cur = q0.sub
               THEN IF IsScalar(q0.obj[q0.cur].ty) THEN Fail(q0, "err")        \* nested braces around scalar initializer
                    ELSE FocusOp(q0)
               ELSE q0
         o  == q1.obj[q1.sub]
         \* the code lists nothing for the brace itself, so what was listed before for members of this
         \* subobject survives (deviation BraceNoReset); repaired: forget it
         q2 == IF q0.cur # 0 /\ Running(q1) /\ ~IsScalar(o.ty) /\ HasRange(q1, o.off, o.off + SizeI(q1, o.ty))
               THEN IF Dev("BraceNoReset") THEN Fire(q1, "BraceNoReset") ELSE DropRange(q1, o.off, o.off + SizeI(q1, o.ty))
               ELSE q1
     IN Goto(IF Running(q2) THEN [q2 EXCEPT !.cur = q2.sub, !.obj[q2.sub].iscur = TRUE] ELSE q2, "head", "OpenBrace")

\* what follows an initializer in parseinit (label next:), when no brace is open the function returns
AfterInit(q) == IF q.cur = 0 THEN [q EXCEPT !.st = "done"] ELSE q

EmptyBrace ==
  /\ pc = "item" /\ CurTok.k = "E"
  /\ LET q0 == [p EXCEPT !.indes = FALSE]
         t  == q0.obj[q0.sub].ty
         \* `{}` jumps to next: without focusing on the first element of an array whose braces were just opened
         q1 == IF q0.cur = q0.sub /\ q0.cur # 0 /\ Kind(t) = "arr"
               THEN IF Dev("EmptyBraceNoFocus") THEN Fire(q0, "EmptyBraceNoFocus") ELSE FocusOp(q0)
               ELSE q0
         o  == q1.obj[q1.sub]
         q2 == IF q0.cur # 0 /\ Running(q1) /\ ~IsScalar(o.ty) /\ HasRange(q1, o.off, o.off + SizeI(q1, o.ty))
               THEN IF Dev("BraceNoReset") THEN Fire(q1, "BraceNoReset") ELSE DropRange(q1, o.off, o.off + SizeI(q1, o.ty))
               ELSE q1
     IN IF IncI(q0, t) THEN Goto(Fail(q0, "err"), "after", "EmptyBrace")                    \* array of unknown size has empty initializer
        ELSE Goto(AfterInit(q2), "after", "EmptyBrace")

BadItem == /\ pc = "item" /\ CurTok.k \in {"}", "m", "i"}
           /\ Goto(Fail(p, "err"), "item", "BadItem")                                      \* syntax error in assignexpr

\* the initializer expression denoted by token tk when it lands on an object of type t
ExprOf(tk, i, t) ==
  CASE tk.k = "v" /\ Kind(t) = "int" -> [k |-> "int", v |-> Val2(i, VOrd(toks, i)), ty |-> t, d |-> <<>>, w |-> 0]
    [] tk.k = "v" /\ Kind(t) = "ptr" -> [k |-> "addr", v |-> AddrIx2(i, VOrd(toks, i)), ty |-> t, d |-> <<>>, w |-> 0]
    [] tk.k = "v" /\ Kind(t) = "flt" -> [k |-> "flt", v |-> AddrIx2(i, VOrd(toks, i)), ty |-> t, d |-> FConst(t, AddrIx2(i, VOrd(toks, i))).bs, w |-> 0]
    [] tk.k = "s" /\ Kind(t) = "ptr" -> [k |-> "saddr", v |-> tk.n, ty |-> t, d |-> <<>>, w |-> 0]
    [] tk.k = "s" /\ StrElemW(t) > 0 -> [k |-> "str", v |-> tk.n, ty |-> t, d |-> Append(StrData(tk.n), 0), w |-> StrElemW(t)]
    [] tk.k = "g" /\ t = "P"         -> [k |-> "agg", v |-> 0, ty |-> t, d |-> <<>>, w |-> 0]
    [] OTHER                         -> [k |-> "bad", v |-> 0, ty |-> t, d |-> <<>>, w |-> 0]

StartExpr == /\ pc = "item" /\ CurTok.k \in {"v", "s", "g"}
             /\ Goto([p EXCEPT !.indes = FALSE], "expr", "StartExpr")

\* add: of parseinit
AddOp(q, x) ==
  LET s    == q.sub
      o    == q.obj[s]
      par  == IF s > 1 THEN q.obj[s - 1] ELSE o
      inSU == s > 1 /\ IsSU(par.ty)
      bad  == inSU /\ (par.u.t # "mem" \/ par.u.v = 0)                          \* p.sub[-1].u.mem->bits
      m    == Ty[par.ty].mems[par.u.v]
      new  == [s |-> o.off, e |-> o.off + SizeI(q, o.ty), b |-> IF inSU THEN m.before ELSE 0, a |-> IF inSU THEN m.after ELSE 0, x |-> x]
  IN IF x.k = "bad" THEN Fail(q, "err")
     ELSE IF bad THEN Fail(q, "undef")
     ELSE LET q1 == InitAdd(q, new)
          IN AfterInit(IF IncI(q1, o.ty) THEN [q1 EXCEPT !.inc = FALSE] ELSE q1)

ExprFocus ==      \* the expression does not initialise the aggregate as a whole: brace elision
  /\ pc = "expr"
  /\ LET t == p.obj[p.sub].ty IN
     /\ ~IsScalar(t)
     /\ ~(Kind(t) = "arr" /\ CurTok.k = "s" /\ Kind(Ty[t].base) = "int")
     /\ ~(IsSU(t) /\ CurTok.k = "g" /\ t = "P")
  /\ Goto(FocusOp(p), "expr", "ExprFocus")

AddString ==
  /\ pc = "expr"
  /\ LET t == p.obj[p.sub].ty IN
     /\ Kind(t) = "arr" /\ CurTok.k = "s" /\ Kind(Ty[t].base) = "int"
     /\ LET x == ExprOf(CurTok, Len(toks), t)
            q == IF IncI(p, t) /\ x.k = "str" THEN [p EXCEPT !.tsz = Len(x.d) * x.w] ELSE p
        IN Goto(AddOp(q, x), "after", "AddString")

AddAggregate ==
  /\ pc = "expr"
  /\ LET t == p.obj[p.sub].ty IN
     /\ IsSU(t) /\ CurTok.k = "g" /\ t = "P"
     /\ Goto(AddOp(p, ExprOf(CurTok, Len(toks), t)), "after", "AddAggregate")

AddScalar ==
  /\ pc = "expr"
  /\ LET t == p.obj[p.sub].ty IN
     /\ IsScalar(t)
     /\ Goto(AddOp(p, ExprOf(CurTok, Len(toks), t)), "after", "AddScalar")

CloseBrace ==
  /\ pc = "close"
  /\ LET RECURSIVE Outer(_)
         Outer(c) == IF c = 0 \/ p.obj[c].iscur THEN c ELSE Outer(c - 1)
         q1 == [p EXCEPT !.sub = p.cur, !.cur = Outer(p.cur - 1),
                         !.obj = SubSeq(@, 1, p.cur)]
         q2 == IF IncI(q1, q1.obj[q1.sub].ty) THEN [q1 EXCEPT !.inc = FALSE] ELSE q1
     IN Goto(AfterInit(q2), "after", "CloseBrace")

Next == \/ \E tk \in Alphabet(top) : Read(tk)
        \/ Designate \/ Advance \/ Focus \/ OpenBrace \/ EmptyBrace \/ BadItem \/ StartExpr
        \/ ExprFocus \/ AddString \/ AddAggregate \/ AddScalar \/ CloseBrace

Spec == Init /\ [][Next]_vars

(* ====================================================================== *)
(* Part 4: the emitters of qbe.c.                                          *)

(* bit sets stand for the 64-bit accumulator `bits` of emitdata *)
BitSet(v, n) == {i \in 0..n - 1 : VBit(v, i) = 1}
ByteVal(S) == LET b(i) == IF i \in S THEN 1 ELSE 0 IN b(0) + 2*b(1) + 4*b(2) + 8*b(3) + 16*b(4) + 32*b(5) + 64*b(6) + 128*b(7)
Zeros(n) == [k \in 1..n |-> 0]

\* the bytes dataitem prints for a non-bit-field initializer (size = cur->end - cur->start)
ItemBytes(x, size) ==
  CASE x.k = "int" -> LEBytes(x.v, Ty[x.ty].size)
    [] x.k \in {"addr", "saddr"} -> Zeros(8)
    [] x.k = "flt" -> x.d                      \* printed as d_%.17g / s_%.17g: must denote exactly the constant's value
    [] x.k = "str" -> LET n == Min2(Len(x.d), size \div x.w)
                      IN Flat([k \in 1..n |-> LEBytes(x.d[k], x.w)]) \o Zeros(size - n * x.w)
    [] OTHER -> <<>>

\* emitdata's inner loop: later entries that start inside a string entry overwrite its elements
RECURSIVE PatchStr(_, _, _, _)
PatchStr(l, j, cur, fd) ==
  IF j > Len(l) \/ ~(SBit(l[j]) < EBit(cur)) THEN [cur |-> cur, nxt |-> j, fired |-> fd, abort |-> FALSE]
  ELSE IF cur.x.k # "str" \/ l[j].x.k # "int" THEN [cur |-> cur, nxt |-> j, fired |-> fd, abort |-> TRUE]   \* assert()
  ELSE LET i == (l[j].s - cur.s) \div cur.x.w                          \* element to patch (0-based)
           v == l[j].x.v
           ev == IF cur.x.w = 1 THEN ByteOf(v, 0) ELSE v               \* elements may be negative ints: two's complement
       IN IF i < Len(cur.x.d)
          THEN PatchStr(l, j + 1, [cur EXCEPT !.x.d[i + 1] = ev], fd)
          ELSE \* element past the end of a literal shorter than its array: the literal is extended with zeros to i + 1
               \* elements first (the missing extension was deviation StrPatchOOB, repaired in /repo by 0923a04)
               PatchStr(l, j + 1, [cur EXCEPT !.x.d = [k \in 1..i + 1 |-> IF k <= Len(cur.x.d) THEN cur.x.d[k] ELSE IF k = i + 1 THEN ev ELSE 0]], fd)

RECURSIVE EmitLoop(_, _, _)
\* st = [off, bits, out, rel, fired, abort]
EmitLoop(l, i, st) ==
  IF i > Len(l) \/ st.abort THEN st
  ELSE LET pr    == PatchStr(l, i + 1, l[i], st.fired)
           cur   == pr.cur
           start == cur.s + cur.b \div 8
           end   == cur.e - (cur.a + 7) \div 8
           \* unfinished byte from a previous bit-field
           s1    == IF st.off < start /\ st.bits # {}
                    THEN [st EXCEPT !.out = Append(@, ByteVal(st.bits)), !.off = @ + 1, !.bits = {}] ELSE st
           s2    == IF s1.off < start THEN [s1 EXCEPT !.out = @ \o Zeros(start - s1.off)] ELSE s1
       IN IF pr.abort THEN [st EXCEPT !.abort = TRUE, !.fired = pr.fired]
          ELSE IF cur.b # 0 \/ cur.a # 0
          THEN LET acc == s2.bits \cup {i2 + (cur.b % 8) : i2 \in BitSet(cur.x.v, IF cur.x.ty = "uint" THEN 32 ELSE 64 - (cur.b % 8))}
                   n   == IF end > start THEN end - start ELSE 0
                   outb == [k \in 1..n |-> ByteVal({j - 8 * (k - 1) : j \in {b \in acc : b >= 8 * (k - 1) /\ b < 8 * k}})]
                   rest == {j - 8 * n : j \in {b \in acc : b >= 8 * n}}
                   keep == 7 - ((cur.a + 7) % 8)                                   \* bits &= 0x7f >> (after + 7) % 8
               IN EmitLoop(l, pr.nxt, [s2 EXCEPT !.out = @ \o outb, !.bits = {j \in rest : j < keep}, !.off = end, !.fired = pr.fired])
          ELSE IF cur.x.k = "agg" THEN [st EXCEPT !.abort = TRUE]                 \* error: not a constant expression
          ELSE EmitLoop(l, pr.nxt, [s2 EXCEPT !.out = @ \o ItemBytes(cur.x, cur.e - cur.s),
                                               !.rel = IF cur.x.k \in {"addr", "saddr"}
                                                       THEN @ \cup {[off |-> Len(s2.out), k |-> cur.x.k, v |-> cur.x.v]} ELSE @,
                                               !.off = end, !.fired = pr.fired])

\* emitdata(d, init): bytes and relocations of the data definition (offsets derived from what was printed)
EmitData(l, size) ==
  LET st  == EmitLoop(l, 1, [off |-> 0, bits |-> {}, out |-> <<>>, rel |-> {}, fired |-> {}, abort |-> FALSE])
      s1  == IF st.bits # {} THEN [st EXCEPT !.out = Append(@, ByteVal(st.bits)), !.off = @ + 1] ELSE st
      ab  == s1.abort \/ s1.off > size                                              \* assert(offset <= d->type->size)
  IN [abort |-> ab, fired |-> s1.fired, rel |-> s1.rel,
      bytes |-> IF ab THEN <<>> ELSE s1.out \o Zeros(size - s1.off)]

(* ---- funcinit / zero: automatic objects --------------------------------- *)
\* memory: byte offset (1-based index) -> 0..255, or -1 = indeterminate
RECURSIVE ZeroLoop(_, _, _, _, _)
ZeroLoop(mem, align, offset, end, a) ==
  IF ~(offset < end) THEN mem
  ELSE LET hit == ((align - (offset % align)) \div a) % 2 = 1            \* (align - (offset & align - 1)) & a
           m1  == IF hit THEN [k \in DOMAIN mem |-> IF k > offset /\ k <= offset + a THEN 0 ELSE mem[k]] ELSE mem
       IN ZeroLoop(m1, align, IF hit THEN offset + a ELSE offset, end, IF a < align THEN 2 * a ELSE a)
ZeroOp(mem, align, offset, end) == ZeroLoop(mem, IF align > 8 THEN 8 ELSE align, offset, end, 1)   \* the widest store is 8 bytes

StoreBytes(mem, off, bs) == [k \in DOMAIN mem |-> IF k > off /\ k <= off + Len(bs) THEN bs[k - off] ELSE mem[k]]
\* bit-field store: load the unit, clear the field, or in the shifted value, store the unit
StoreBits(mem, e) ==
  LET n   == e.e - e.s
      old == [k \in 1..n |-> mem[e.s + k]]
      lo  == e.b
      hi  == n * 8 - e.a                                                  \* field = bits lo..hi-1 of the unit
      nb  == [k \in 1..n |->
               IF old[k] = -1 THEN -1
               ELSE LET bit(i) == LET g == 8 * (k - 1) + i IN
                                  IF g >= lo /\ g < hi THEN VBit(e.x.v, g - lo) ELSE (old[k] \div (2 ^ i)) % 2
                    IN bit(0) + 2*bit(1) + 4*bit(2) + 8*bit(3) + 16*bit(4) + 32*bit(5) + 64*bit(6) + 128*bit(7)]
  IN StoreBytes(mem, e.s, nb)
AggBytes == LEBytes(AggX, 2) \o <<-1, -1>> \o LEBytes(AggY, 4)

RECURSIVE FuncLoop(_, _, _, _)
\* st = [mem, rel, off, max, fired]
FuncLoop(l, i, st, align) ==
  IF i > Len(l) THEN st
  ELSE LET e  == l[i]
           \* zero() starts at `offset`, which has moved backwards when the previous entry lay inside an earlier one
           back == st.off < st.max /\ st.off < e.s
           zoff == IF back /\ ~Dev("AutoBackZero") THEN st.max ELSE st.off
           fd0  == IF back /\ Dev("AutoBackZero") THEN st.fired \cup {"AutoBackZero"} ELSE st.fired
           m0 == ZeroOp(st.mem, align, zoff, e.s)
           r0 == {r \in st.rel : ~(r.off >= e.s /\ r.off < e.e)}
       IN IF e.x.k = "str"
          THEN LET n  == Min2(Len(e.x.d), (e.e - e.s + e.x.w - 1) \div e.x.w)      \* i < size && i*w < end - start
                   m1 == StoreBytes(m0, e.s, Flat([k \in 1..n |-> LEBytes(e.x.d[k], e.x.w)]))
                   o1 == e.s + n * e.x.w
               IN FuncLoop(l, i + 1, [mem |-> m1, rel |-> r0, off |-> o1, max |-> Max2(st.max, o1), fired |-> fd0], align)
          ELSE LET isbf == e.b # 0 \/ e.a # 0
                   m1 == IF zoff < e.e /\ isbf THEN ZeroOp(m0, align, Max2(zoff, st.off), e.e) ELSE m0
                   m2 == CASE isbf -> StoreBits(m1, e)
                           [] e.x.k = "int" -> StoreBytes(m1, e.s, LEBytes(e.x.v, Ty[e.x.ty].size))
                           [] e.x.k = "agg" -> StoreBytes(m1, e.s, AggBytes)
                           [] e.x.k = "flt" -> StoreBytes(m1, e.s, e.x.d)
                           [] OTHER -> StoreBytes(m1, e.s, Zeros(8))
                   r1 == IF e.x.k \in {"addr", "saddr"} THEN r0 \cup {[off |-> e.s, k |-> e.x.k, v |-> e.x.v]} ELSE r0
               IN FuncLoop(l, i + 1, [mem |-> m2, rel |-> r1, off |-> e.e, max |-> Max2(st.max, e.e), fired |-> fd0], align)

FuncInit(l, size, align) ==
  LET st == FuncLoop(l, 1, [mem |-> [k \in 1..size |-> -1], rel |-> {}, off |-> 0, max |-> 0, fired |-> {}], align)
  IN [bytes |-> ZeroOp(st.mem, align, st.max, size), rel |-> st.rel, fired |-> st.fired]

(* ====================================================================== *)
(* Part 5: invariants and refinement.                                      *)
Done == pc = "done"

\* entries are ordered by first bit; two entries overlap only when the earlier one is a string (or,
\* for automatic objects, a struct value) that strictly contains the later one
ListSortedDisjoint ==
  \A i, j \in 1..Len(p.list) : i < j =>
     LET a == p.list[i]
         b == p.list[j]
     IN \/ EBit(a) <= SBit(b)
        \/ "UnionCover" \in p.fired
        \/ (a.x.k \in {"str", "agg"} /\ SBit(a) <= SBit(b) /\ EBit(b) <= EBit(a) /\ b.x.k \notin {"str", "agg"})
StackDepth == p.sub <= 32 /\ p.cur <= p.sub /\ p.last <= Len(p.list)
TypeOK == /\ pc \in {"head", "after", "close", "des", "adv", "foc", "item", "expr", "done", "err", "undef"}
          /\ p.st \in {"run", "done", "err", "undef"}
          /\ Len(toks) <= MaxTok

ObjSize == IF IsIncT(MTop) THEN p.tsz ELSE Ty[MTop].size
RelSeq(R) == LET S == {r.off : r \in R}
                 RECURSIVE Ord(_)
                 Ord(X) == IF X = {} THEN <<>> ELSE LET m == CHOOSE x \in X : \A y \in X : x <= y IN <<m>> \o Ord(X \ {m})
             IN [i \in 1..Cardinality(S) |-> LET r == CHOOSE r \in R : r.off = Ord(S)[i] IN <<r.off, IF r.k = "addr" THEN 0 ELSE 1, r.v>>]

\* Does (bytes, rel) agree with the declarative image on the bits in `mask`?  Bits on which the two
\* readings (img, alt) differ are not constrained; image bit 2 / byte -1 = unspecified.
Agrees(bytes, rel, img, alt, size, mask) ==
  /\ Len(bytes) = size
  /\ (img.rel \cap alt.rel) \subseteq rel
  /\ rel \subseteq (img.rel \cup alt.rel)
  /\ \A b \in mask : LET v == bytes[(b \div 8) + 1] IN
                     img.bit[b] # alt.bit[b] \/ img.bit[b] = 2 \/ (v # -1 /\ (v \div (2 ^ (b % 8))) % 2 = img.bit[b])

(* Refinement.  For every completed initializer that C11 accepts: the machine accepts it, and the    *)
(* bytes EmitData prints / FuncInit stores are the declarative image (or the alternative image where *)
(* the standard leaves two readings).  With deviations switched on, a disagreement must be covered   *)
(* by a deviation that fired.                                                                         *)
\* When the machine stops early (error() or undefined behaviour in the C code) the initializer read so far is
\* judged with its open braces closed: if that is a valid initializer the compiler had no business stopping.
OpenDepth(ts) == Cardinality({i \in 1..Len(ts) : ts[i].k = "{"}) - Cardinality({i \in 1..Len(ts) : ts[i].k = "}"})
Completed == IF pc \in {"err", "undef"} /\ OpenDepth(toks) > 0
             THEN toks \o [i \in 1..OpenDepth(toks) |-> Tok("}", 0, "")] ELSE toks
Verdict ==
  LET D    == DeclOf(top, Completed, FALSE)
      size == DeclSize(D)
      img  == Image(D)
      alt  == ImageAlt(D)
      hasagg == \E i \in 1..Len(toks) : toks[i].k = "g"
      early  == pc \in {"err", "undef"}
      ed   == EmitData(p.list, ObjSize)
      fi   == FuncInit(p.list, ObjSize, Ty[top].align)
      all  == 0..size * 8 - 1
      leafs == LeafBits(top, 0) \cap all
      lmask == AutoMask(D, size)
      fired == p.fired \cup ed.fired
      sok  == /\ p.st = "done" /\ ObjSize = size /\ ~ed.abort
              /\ Agrees(ed.bytes, ed.rel, img, alt, size, all)
      aok  == /\ p.st = "done" /\ ObjSize = size
              /\ Agrees(fi.bytes, fi.rel, img, alt, size, lmask)
  IN [ok |-> D.ok, D |-> D, size |-> size, img |-> img, alt |-> alt, hasagg |-> hasagg, ed |-> ed, fi |-> fi, lmask |-> lmask,
      sok |-> hasagg \/ sok, aok |-> aok, sfired |-> fired, afired |-> p.fired \cup fi.fired]

Terminal == pc \in {"done", "err", "undef"}
Refinement ==
  Terminal =>
    LET v == Verdict IN
    v.ok => /\ (v.sok \/ v.sfired # {})
            /\ (v.aok \/ v.afired # {})

TokStr(t) == CASE t.k = "m" -> "." \o t.s
               [] t.k = "i" -> "[" \o ToString(t.n) \o "]"
               [] t.k = "s" -> "s" \o ToString(t.n)
               [] OTHER -> t.k
\* C text of the expression a write came from (the harness pastes it at token position tp)
StrC(id) == IF id = 1 THEN "\"pq\"" ELSE "\"wxyz\""
ExprC(w) == CASE w.k = "int" -> ToString(w.v)
              [] w.k = "addr" -> AddrTab[w.v].c
              [] w.k = "saddr" -> StrC(w.v)
              [] w.k = "bytes" -> (IF StrElemW(w.lt) = 4 THEN "L" ELSE IF StrElemW(w.lt) = 2 THEN "u" ELSE "") \o StrC(toks[w.tp].n)
              [] w.k = "flt" -> FConst(w.lt, w.v).c
              [] w.k = "agg" -> "pv"
              [] OTHER -> ""
\* relocation as the harness sees it: [offset, symbol, addend, content of an unnamed target]
RelOut(R) == LET S == RelSeq(R) IN
  [i \in 1..Len(S) |-> LET a == IF S[i][2] = 0 THEN AddrTab[S[i][3]] ELSE StrAddr(S[i][3])
                       IN [off |-> S[i][1], sym |-> a.sym, add |-> a.add, obj |-> a.obj]]
Emit ==
  (EmitCases /\ Terminal) =>
    LET v == Verdict IN
    v.ok =>
      LET ib == ImgBytes(v.img, v.size)
          \* per byte: mask of the bits on which the two readings of the standard differ (not compared)
          um == [k \in 1..v.size |-> LET d(i) == IF v.img.bit[8 * (k - 1) + i] # v.alt.bit[8 * (k - 1) + i] THEN 1 ELSE 0
                                     IN d(0) + 2*d(1) + 4*d(2) + 8*d(3) + 16*d(4) + 32*d(5) + 64*d(6) + 128*d(7)]
          same == v.alt = v.img
      IN PrintT("VCASE " \o ToJson([
           ty |-> top, form |-> form, al |-> DeclAlign(top, form), toks |-> [i \in 1..Len(Completed) |-> TokStr(Completed[i])], size |-> v.size,
           img |-> ib, rel |-> RelOut(v.img.rel \cap v.alt.rel),
           unc |-> IF same THEN <<>> ELSE um,
           optrel |-> IF same THEN <<>> ELSE RelOut((v.img.rel \cup v.alt.rel) \ (v.img.rel \cap v.alt.rel)),
           \* 6.7.9p10: an object of static storage duration declared without initializer (e.g. a later declarator of
           \* the same declaration, `static T x = I, x_z;`) is all zero
           zimg |-> IF IsIncT(top) THEN <<>> ELSE ImgBytes(ZeroImg(Ty[top].size * 8), Ty[top].size),
           ex |-> [i \in 1..Len(v.D.w) |-> [tp |-> v.D.w[i].tp, lt |-> v.D.w[i].lt, c |-> ExprC(v.D.w[i])]],
           agg |-> v.hasagg,
           am |-> [k \in 1..v.size |-> LET d(i) == IF (8 * (k - 1) + i) \in v.lmask THEN 1 ELSE 0
                                       IN d(0) + 2*d(1) + 4*d(2) + 8*d(3) + 16*d(4) + 32*d(5) + 64*d(6) + 128*d(7)],
           mst |-> IF p.st # "done" THEN p.st ELSE IF v.ed.abort THEN "abort" ELSE "ok",
           sfired |-> v.sfired, afired |-> v.afired, tr |-> p.tr,
           mimg |-> IF v.sok \/ p.st # "done" \/ v.ed.abort THEN <<>> ELSE v.ed.bytes,
           mrel |-> IF v.sok \/ p.st # "done" \/ v.ed.abort THEN <<>> ELSE RelOut(v.ed.rel),
           fimg |-> IF v.aok \/ p.st # "done" THEN <<>> ELSE v.fi.bytes,
           frel |-> IF v.aok \/ p.st # "done" THEN <<>> ELSE RelOut(v.fi.rel),
           sok |-> v.sok, aok |-> v.aok]))

\* tables the harness needs (types for rendering and for the gcc audit, value tables)
EmitTables ==
  pc = "head" => PrintT("VTABLES " \o ToJson([ty |-> Ty, vals |-> ValTab, addr |-> AddrTab,
                               strs |-> <<StrData(1), StrData(2)>>, aggx |-> AggX, aggy |-> AggY,
                               \* declarator-list forms of a plain case (same parser input, so not part of the state space):
                               \* `static T x = I, x_z, x_2 = I;` in a block, the same thread-local, and at file scope
                               listforms |-> <<"list-block", "list-thread", "list-file">>]))

\* terminal states only matter through the token history
=============================================================================
