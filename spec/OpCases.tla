------------------------------ MODULE OpCases ------------------------------
(* C01 generator (a): bounded-exhaustive single-operation cases.  One initial     *)
(* state per (kind, operator, left type, right type); its invariant prints one    *)
(* VCASE line per pair of boundary values whose operation is DEFINED, carrying    *)
(* the result CSem's expression semantics prescribe (IntBin/IntShift/IntCmp/Conv, *)
(* promotions and usual arithmetic conversions included).  The harness renders    *)
(* each as a run-time operation on non-constant objects and executes the IL the   *)
(* real compiler emits.                                                           *)
EXTENDS CSem

CONSTANTS ValueSet,     \* "small" | "full"
          NParts         \* the case space is cut into NParts slices; slice IOEnv.OPCASES_PART (0-based) is enumerated (NParts = 1: all)

VARIABLE cas
ovars == <<cas, cvars>>

Types == {"bool", "char", "schar", "uchar", "short", "ushort", "int", "uint", "long", "ulong", "llong", "ullong"}
BinOpsC == {"+", "-", "*", "/", "%", "&", "|", "^", "<<", ">>", "<", "<=", ">", ">=", "==", "!="}
UnOpsC == {"-", "~", "!"}

MaxOf(n) == IF Signed(n) THEN Shr(Ones, 65 - WidthOf(n)) ELSE TruncBits(Ones, WidthOf(n))
RawVals(n) ==
  IF ValueSet = "small"
  THEN {Zero, One, Ones, MinOf(n), MaxOf(n), W(3), W(WidthOf(n) - 1)}
  ELSE {Zero, One, W(2), W(3), W(7), Ones, MinOf(n), Add(MinOf(n), One), MaxOf(n), Sub(MaxOf(n), One),
        Shl(One, WidthOf(n) \div 2), Sub(Shl(One, WidthOf(n) \div 2), One), W(WidthOf(n) - 1), W(WidthOf(n)), W(100), Neg(W(100))}
Vals(n) == IF n = "bool" THEN {Zero, One} ELSE {Canon(n, w) : w \in RawVals(n)}

BinCase(op, lt, rt, a, b) ==      \* a, b canonical of lt, rt
  LET ln == Promote(lt, 0)  rn == Promote(rt, 0)
      la == Canon(ln, a)  ra == Canon(rn, b)
  IN IF op \in {"<<", ">>"} THEN IntShift(op, ln, la, rn, ra)
     ELSE LET n == UAC(ln, rn) IN
          IF op \in {"<", "<=", ">", ">=", "==", "!="} THEN RV(TInt, IntCmp(op, n, Conv(n, la), Conv(n, ra)))
          ELSE IntBin(op, n, Conv(n, la), Conv(n, ra))
UnCase(op, t, a) ==
  IF op = "!" THEN RV(TInt, BoolW(IsZero(a)))
  ELSE LET n == Promote(t, 0)  x == Canon(n, a) IN
       IF op = "~" THEN RV(IntT(n), Canon(n, WNot(x)))
       ELSE IF Signed(n) /\ x = MinOf(n) THEN Bad("signed-overflow") ELSE RV(IntT(n), Canon(n, Neg(x)))

Out(rec) == PrintT("VCASE " \o ToJson(rec))

EmitAll ==
  CASE cas.kind = "bin" ->
         \A a \in Vals(cas.lt), b \in Vals(cas.rt) :
           LET r == BinCase(cas.op, cas.lt, cas.rt, a, b) IN
           r.ok => Out([k |-> "bin", op |-> cas.op, lt |-> cas.lt, rt |-> cas.rt, a |-> a, b |-> b, t |-> r.t.n, v |-> r.v, cs |-> CharSigned])
    [] cas.kind = "casg" ->      \* lt x = a; x op= b; value of x afterwards
         \A a \in Vals(cas.lt), b \in Vals(cas.rt) :
           LET r == BinCase(cas.op, cas.lt, cas.rt, a, b) IN
           r.ok => Out([k |-> "casg", op |-> cas.op, lt |-> cas.lt, rt |-> cas.rt, a |-> a, b |-> b, t |-> cas.lt, v |-> Conv(cas.lt, r.v), cs |-> CharSigned])
    [] cas.kind = "un" ->
         \A a \in Vals(cas.lt) :
           LET r == UnCase(cas.op, cas.lt, a) IN
           r.ok => Out([k |-> "un", op |-> cas.op, lt |-> cas.lt, a |-> a, t |-> r.t.n, v |-> r.v, cs |-> CharSigned])
    [] cas.kind = "cast" ->
         \A a \in Vals(cas.lt) :
           Out([k |-> "cast", lt |-> cas.lt, rt |-> cas.rt, a |-> a, t |-> cas.rt, v |-> Conv(cas.rt, a), cs |-> CharSigned])

Cases ==
  {[kind |-> "bin", op |-> o, lt |-> l, rt |-> r] : o \in BinOpsC, l \in Types, r \in Types}
  \cup {[kind |-> "casg", op |-> o, lt |-> l, rt |-> r] : o \in BinOpsC \ {"<", "<=", ">", ">=", "==", "!="}, l \in Types \ {"bool"}, r \in Types}
  \cup {[kind |-> "un", op |-> o, lt |-> l, rt |-> l] : o \in UnOpsC, l \in Types}
  \cup {[kind |-> "cast", op |-> "cast", lt |-> l, rt |-> r] : l \in Types, r \in Types}

TypeSeq == <<"bool", "char", "schar", "uchar", "short", "ushort", "int", "uint", "long", "ulong", "llong", "ullong">>
OpSeq == <<"+", "-", "*", "/", "%", "&", "|", "^", "<<", ">>", "<", "<=", ">", ">=", "==", "!=", "~", "!", "cast">>
IndexIn(seq, x) == CHOOSE i \in 1..Len(seq) : seq[i] = x
Slice(c) == (IndexIn(OpSeq, c.op) * 7 + IndexIn(TypeSeq, c.lt) * 13 + IndexIn(TypeSeq, c.rt) * 5 + (IF c.kind = "casg" THEN 3 ELSE 0)) % NParts
Part == IF NParts = 1 THEN 0 ELSE atoi(IOEnv.OPCASES_PART)

(* the second program of C_PROGS has unsigned plain char: only cases mentioning char differ *)
OInit == /\ cpid \in 1..Len(CProgs)
         /\ cas \in {c \in Cases : c.kind \in {"cast", "un"} \/ Slice(c) = Part}     \* conversions and unary ops are always enumerated completely
         /\ (cpid > 1 => "char" \in {cas.lt, cas.rt})
         /\ ck = <<>> /\ env = <<>> /\ genv = <<>> /\ mem = <<>> /\ cout = <<>> /\ cstatus = "gen" /\ cret = Zero /\ cfuel = 0 /\ depth = 0
ONext == UNCHANGED ovars
OSpec == OInit /\ [][ONext]_ovars
OEmit == EmitAll
=============================================================================
