------------------------------ MODULE OpCases ------------------------------
(* C01 generator (a): bounded-exhaustive single-operation cases.  One initial     *)
(* state per (kind, operator, left type, right type); its invariant prints one    *)
(* VCASE line per pair of boundary values whose operation is DEFINED, carrying    *)
(* the result CSem's expression semantics prescribe (IntBin/IntShift/IntCmp/Conv, *)
(* promotions and usual arithmetic conversions included).  The harness renders    *)
(* each as a run-time operation on non-constant objects and executes the IL the   *)
(* real compiler emits.                                                           *)
EXTENDS CSem

CONSTANTS ValueSet,     \* "small" | "full"
          NParts         \* the case space is cut into NParts slices; slice IOEnv.OPCASES_PART (0-based) is enumerated (NParts = 1: all)

VARIABLE cas
ovars == <<cas, cvars>>

Types == {"bool", "char", "schar", "uchar", "short", "ushort", "int", "uint", "long", "ulong", "llong", "ullong"}
BinOpsC == {"+", "-", "*", "/", "%", "&", "|", "^", "<<", ">>", "<", "<=", ">", ">=", "==", "!="}
UnOpsC == {"-", "~", "!"}

MaxOf(n) == IF Signed(n) THEN Shr(Ones, 65 - WidthOf(n)) ELSE TruncBits(Ones, WidthOf(n))
RawVals(n) ==
  IF ValueSet = "small"
  THEN {Zero, One, Ones, MinOf(n), MaxOf(n), W(3), W(WidthOf(n) - 1)}
  ELSE IF ValueSet = "medium"
  THEN {Zero, One, W(2), W(7), Ones, MinOf(n), Add(MinOf(n), One), MaxOf(n), Sub(MaxOf(n), One),
        Shl(One, WidthOf(n) \div 2), W(WidthOf(n) - 1), Neg(W(100))}
  ELSE {Zero, One, W(2), W(3), W(7), Ones, MinOf(n), Add(MinOf(n), One), MaxOf(n), Sub(MaxOf(n), One),
        Shl(One, WidthOf(n) \div 2), Sub(Shl(One, WidthOf(n) \div 2), One), W(WidthOf(n) - 1), W(WidthOf(n)), W(100), Neg(W(100))}
Vals(n) == IF n = "bool" THEN {Zero, One} ELSE {Canon(n, w) : w \in RawVals(n)}

(* values on which signed and unsigned readings of an operand differ, plus a small positive one *)
SigVals(n) == IF n = "bool" THEN {One} ELSE {Canon(n, Ones), Canon(n, W(2)), MinOf(n)}
SigOps == {"<", ">=", "/", "%", ">>"}
BinCase(op, lt, rt, a, b) ==      \* a, b canonical of lt, rt
  LET ln == Promote(lt, 0)  rn == Promote(rt, 0)
      la == Canon(ln, a)  ra == Canon(rn, b)
  IN IF op \in {"<<", ">>"} THEN IntShift(op, ln, la, rn, ra)
     ELSE LET n == UAC(ln, rn) IN
          IF op \in {"<", "<=", ">", ">=", "==", "!="} THEN RV(TInt, IntCmp(op, n, Conv(n, la), Conv(n, ra)))
          ELSE IntBin(op, n, Conv(n, la), Conv(n, ra))
UnCase(op, t, a) ==
  IF op = "!" THEN RV(TInt, BoolW(IsZero(a)))
  ELSE LET n == Promote(t, 0)  x == Canon(n, a) IN
       IF op = "~" THEN RV(IntT(n), Canon(n, WNot(x)))
       ELSE IF Signed(n) /\ x = MinOf(n) THEN Bad("signed-overflow") ELSE RV(IntT(n), Canon(n, Neg(x)))

(* ---- floating point (the integral, exactly representable values CSem models) ---- *)
FTypes == {"float", "double"}
FT(n) == [k |-> "f", n |-> n]
FMags == IF ValueSet \in {"small", "medium"}
         THEN {Zero, One, W(3), W(128), W(255), W(256), W(65535), W(65536), Shl(One, 24), Sub(Shl(One, 31), One), Shl(One, 31), Sub(Shl(One, 32), One),
               Shl(One, 32), Shl(One, 53), Shl(One, 63), Sub(Ones, W(2047))}
         ELSE {Zero, One, W(2), W(3), W(100), W(127), W(128), W(129), W(255), W(256), W(32767), W(32768), W(65535), W(65536), Sub(Shl(One, 24), One), Shl(One, 24),
               Sub(Shl(One, 31), One), Shl(One, 31), Add(Shl(One, 31), One), Sub(Shl(One, 32), One), Shl(One, 32), Sub(Shl(One, 53), One), Shl(One, 53),
               Sub(Shl(One, 63), W(1024)), Shl(One, 63), Add(Shl(One, 63), W(2048)), Sub(Ones, W(2047))}
FVals(n) == {f \in {FV(s, m) : s \in BOOLEAN, m \in FMags} : Representable(f.mag, n)}
AnyVals(n) == IF n \in FTypes THEN FVals(n) ELSE Vals(n)
TyOf(n) == IF n \in FTypes THEN FT(n) ELSE IntT(n)
AsRV(n, x) == RV(TyOf(n), x)
(* observation of a result: integers as they are; floating results converted to long long when that is defined *)
ObsOf(r) == IF IsFlt(r.t) THEN (LET c == FToInt("llong", r.v) IN IF c.ok THEN [ok |-> TRUE, v |-> c.v] ELSE [ok |-> FALSE]) ELSE [ok |-> TRUE, v |-> r.v]

Out(rec) == PrintT("VCASE " \o ToJson(rec))

(* ---- operator chains written WITHOUT parentheses: e1 op1 e2 op2 e3 [op3 e4] ----                                         *)
(* The grammar of 6.5.5-6.5.14 decides which operands belong to which operator: every production has the form              *)
(*   X-expression: Y-expression | X-expression op Y-expression      (Y the next tighter level, 6.5.5 ... 6.5.14)           *)
(* so in a chain the root is the RIGHTMOST operator of the LOWEST level; Lvl is the level of the production that          *)
(* introduces the operator (multiplicative 10 ... logical-OR 1).  The expected value is obtained by applying CSem's own    *)
(* operators along that tree; the harness prints the bare token sequence, the compiler has to find the tree.               *)
ChainOpSeq == <<"*", "/", "%", "+", "-", "<<", ">>", "<", "<=", ">", ">=", "==", "!=", "&", "^", "|", "&&", "||">>
ChainOps == {ChainOpSeq[i] : i \in 1..Len(ChainOpSeq)}
Lvl(op) == CASE op \in {"*", "/", "%"} -> 10 [] op \in {"+", "-"} -> 9 [] op \in {"<<", ">>"} -> 8 [] op \in {"<", "<=", ">", ">="} -> 7
             [] op \in {"==", "!="} -> 6 [] op = "&" -> 5 [] op = "^" -> 4 [] op = "|" -> 3 [] op = "&&" -> 2 [] op = "||" -> 1
(* trees over the operands lo..hi: leaf <<i>>, node <<k, L, R>> with operator ops[k] standing between operand k and k+1 *)
RECURSIVE AllTrees(_, _)
AllTrees(lo, hi) == IF lo = hi THEN {<<lo>>}
                    ELSE UNION {{<<k, L, R>> : L \in AllTrees(lo, k), R \in AllTrees(k + 1, hi)} : k \in lo..(hi - 1)}
RECURSIVE GrammarTree(_, _, _)
GrammarTree(ops, lo, hi) ==
  IF lo = hi THEN <<lo>>
  ELSE LET m == CHOOSE x \in {Lvl(ops[i]) : i \in lo..(hi - 1)} : \A i \in lo..(hi - 1) : x <= Lvl(ops[i])
           k == CHOOSE i \in lo..(hi - 1) : Lvl(ops[i]) = m /\ \A j \in (i + 1)..(hi - 1) : Lvl(ops[j]) # m
       IN <<k, GrammarTree(ops, lo, k), GrammarTree(ops, k + 1, hi)>>
ChainBin(op, x, y) ==        \* x, y results (RV or Bad); && and || do not evaluate their right operand when the left one decides (6.5.13p4, 6.5.14p4)
  IF ~x.ok THEN x
  ELSE IF op = "&&" THEN (IF IsZero(x.v) THEN RV(TInt, Zero) ELSE IF ~y.ok THEN y ELSE RV(TInt, BoolW(~IsZero(y.v))))
  ELSE IF op = "||" THEN (IF ~IsZero(x.v) THEN RV(TInt, One) ELSE IF ~y.ok THEN y ELSE RV(TInt, BoolW(~IsZero(y.v))))
  ELSE IF ~y.ok THEN y ELSE BinCase(op, x.t.n, y.t.n, x.v, y.v)
RECURSIVE EvalTree(_, _, _, _)
EvalTree(tr, ops, tys, vals) == IF Len(tr) = 1 THEN RV(IntT(tys[tr[1]]), Canon(tys[tr[1]], vals[tr[1]]))
                                ELSE ChainBin(ops[tr[1]], EvalTree(tr[2], ops, tys, vals), EvalTree(tr[3], ops, tys, vals))
IW(n) == IF n < 0 THEN Neg(W(-n)) ELSE W(n)
ChainTuples == <<<<7, 2, 3, 5>>, <<1, 2, 3, 1>>, <<2, 3, 1, 2>>, <<5, 1, 2, 3>>, <<3, 3, 2, 1>>, <<0, 1, 2, 3>>, <<2, 0, 1, 1>>, <<1, 1, 0, 2>>,
                 <<6, 2, 2, 1>>, <<1, 5, 3, 2>>, <<2, 2, 2, 2>>, <<3, 1, 1, 0>>, <<-1, 2, 3, 1>>, <<4, -1, 2, 1>>, <<1, 2, -3, 2>>, <<8, 4, 2, 1>>,
                 <<0, 0, 1, 1>>, <<1, 0, 0, 1>>, <<12, 5, 3, 2>>, <<2, 7, 1, 4>>>>
ChainVals(i) == [j \in 1..4 |-> IW(ChainTuples[i][j])]
ChainTypeSets == <<<<"int", "int", "int", "int">>, <<"uint", "int", "long", "uchar">>>>
(* first operand tuple on which the grammar's tree is defined and the other tree w gives a different defined value (0: none) *)
RECURSIVE FirstDist(_, _, _, _, _)
FirstDist(g, w, ops, tys, i) ==
  IF i > Len(ChainTuples) THEN 0
  ELSE LET c == EvalTree(g, ops, tys, ChainVals(i)) IN
       IF c.ok /\ (LET x == EvalTree(w, ops, tys, ChainVals(i)) IN x.ok /\ (x.v # c.v \/ x.t # c.t)) THEN i
       ELSE FirstDist(g, w, ops, tys, i + 1)
RECURSIVE FirstDefined(_, _, _, _)
FirstDefined(g, ops, tys, i) == IF i > Len(ChainTuples) THEN 0 ELSE IF EvalTree(g, ops, tys, ChainVals(i)).ok THEN i ELSE FirstDefined(g, ops, tys, i + 1)

EmitAll ==
  CASE cas.kind = "bin" ->
         \A a \in Vals(cas.lt), b \in Vals(cas.rt) :
           LET r == BinCase(cas.op, cas.lt, cas.rt, a, b) IN
           r.ok => Out([k |-> "bin", op |-> cas.op, lt |-> cas.lt, rt |-> cas.rt, a |-> a, b |-> b, t |-> r.t.n, v |-> r.v, cs |-> CharSigned])
    [] cas.kind = "binsig" ->    \* sign-sensitive operators on every type pair, always enumerated: the common type of 6.3.1.8 decides the result
         \A a \in SigVals(cas.lt), b \in SigVals(cas.rt) :
           LET r == BinCase(cas.op, cas.lt, cas.rt, a, b) IN
           r.ok => Out([k |-> "bin", op |-> cas.op, lt |-> cas.lt, rt |-> cas.rt, a |-> a, b |-> b, t |-> r.t.n, v |-> r.v, cs |-> CharSigned])
    [] cas.kind = "casg" ->      \* lt x = a; x op= b; value of x afterwards
         \A a \in Vals(cas.lt), b \in Vals(cas.rt) :
           LET r == BinCase(cas.op, cas.lt, cas.rt, a, b) IN
           r.ok => Out([k |-> "casg", op |-> cas.op, lt |-> cas.lt, rt |-> cas.rt, a |-> a, b |-> b, t |-> cas.lt, v |-> Conv(cas.lt, r.v), cs |-> CharSigned])
    [] cas.kind = "un" ->
         \A a \in Vals(cas.lt) :
           LET r == UnCase(cas.op, cas.lt, a) IN
           r.ok => Out([k |-> "un", op |-> cas.op, lt |-> cas.lt, a |-> a, t |-> r.t.n, v |-> r.v, cs |-> CharSigned])
    [] cas.kind = "bincast" ->     \* (mt)a op (mt)b : both operands are results of narrowing conversions (not fresh loads)
         \A a \in Vals(cas.lt), b \in Vals(cas.lt) :
           LET r == BinCase(cas.op, cas.mt, cas.mt, Conv(cas.mt, a), Conv(cas.mt, b)) IN
           r.ok => Out([k |-> "bincast", op |-> cas.op, lt |-> cas.lt, mt |-> cas.mt, rt |-> cas.mt, a |-> a, b |-> b, t |-> r.t.n, v |-> r.v, cs |-> CharSigned])
    [] cas.kind = "cast2" ->      \* (rt)(mt)a : a narrowing conversion followed by another conversion
         \A a \in Vals(cas.lt) :
           LET m == ConvTo(TyOf(cas.mt), AsRV(cas.lt, a))
               r == IF m.ok THEN ConvTo(TyOf(cas.rt), m) ELSE m
               o == IF r.ok THEN ObsOf(r) ELSE r IN
           o.ok => Out([k |-> "cast2", lt |-> cas.lt, mt |-> cas.mt, rt |-> cas.rt, a |-> a, t |-> cas.rt, v |-> o.v, cs |-> CharSigned])
    [] cas.kind = "f2i" ->        \* (rt)f
         \A f \in FVals(cas.lt) :
           LET r == ConvTo(TyOf(cas.rt), AsRV(cas.lt, f)) IN
           r.ok => Out([k |-> "f2i", lt |-> cas.lt, rt |-> cas.rt, fa |-> f, t |-> cas.rt, v |-> r.v, cs |-> CharSigned])
    [] cas.kind = "i2f" ->        \* (lt)(rt)a round trip through floating type rt, and the sign test (rt)a < 0
         \A a \in Vals(cas.lt) :
           LET f == ConvTo(TyOf(cas.rt), AsRV(cas.lt, a)) IN
           f.ok => Out([k |-> "i2f", lt |-> cas.lt, rt |-> cas.rt, a |-> a, t |-> cas.lt, v |-> a, neg |-> f.v.neg, cs |-> CharSigned])
    [] cas.kind = "fbin" ->       \* a op b with at least one floating operand
         \A a \in AnyVals(cas.lt), b \in AnyVals(cas.rt) :
           LET r == FloatBin(cas.op, AsRV(cas.lt, a), AsRV(cas.rt, b))
               o == IF r.ok THEN ObsOf(r) ELSE r IN
           o.ok => Out([k |-> "fbin", op |-> cas.op, lt |-> cas.lt, rt |-> cas.rt, xa |-> a, xb |-> b, t |-> IF IsFlt(r.t) THEN r.t.n ELSE "int", v |-> o.v, cs |-> CharSigned])
    [] cas.kind = "chain" ->     \* e1 op1 e2 op2 e3 [op3 e4] without parentheses, operands of the types cas.tys
         LET n == Len(cas.ops) + 1
             g == GrammarTree(cas.ops, 1, n)
             ds == {FirstDist(g, w, cas.ops, cas.tys, 1) : w \in AllTrees(1, n) \ {g}} \ {0}
             is == IF ds = {} THEN {FirstDefined(g, cas.ops, cas.tys, 1)} \ {0} ELSE ds
         IN \A i \in is :
              LET r == EvalTree(g, cas.ops, cas.tys, ChainVals(i)) IN
              Out([k |-> "chain", op |-> "chain", ops |-> cas.ops, tys |-> cas.tys, lt |-> "int", rt |-> "int", vals |-> [j \in 1..n |-> Canon(cas.tys[j], ChainVals(i)[j])],
                   tree |-> g, t |-> r.t.n, v |-> r.v, cs |-> CharSigned])
    [] cas.kind = "cast" ->
         \A a \in Vals(cas.lt) :
           Out([k |-> "cast", lt |-> cas.lt, rt |-> cas.rt, a |-> a, t |-> cas.rt, v |-> Conv(cas.rt, a), cs |-> CharSigned])

ChainCases ==
  {[kind |-> "chain", op |-> "chain", lt |-> "int", rt |-> "int", ops |-> <<o1, o2>>, tys |-> ChainTypeSets[ts]] : o1 \in ChainOps, o2 \in ChainOps, ts \in 1..Len(ChainTypeSets)}
  \cup {[kind |-> "chain", op |-> "chain", lt |-> "int", rt |-> "int", ops |-> <<o1, o2, o3>>, tys |-> ChainTypeSets[1]] : o1 \in ChainOps, o2 \in ChainOps, o3 \in ChainOps}

Cases ==
  {[kind |-> "bin", op |-> o, lt |-> l, rt |-> r] : o \in BinOpsC, l \in Types, r \in Types}
  \cup {[kind |-> "casg", op |-> o, lt |-> l, rt |-> r] : o \in BinOpsC \ {"<", "<=", ">", ">=", "==", "!="}, l \in Types \ {"bool"}, r \in Types}
  \cup {[kind |-> "un", op |-> o, lt |-> l, rt |-> l] : o \in UnOpsC, l \in Types}
  \cup {[kind |-> "cast", op |-> "cast", lt |-> l, rt |-> r] : l \in Types, r \in Types}
  \cup {[kind |-> "cast2", op |-> "cast", lt |-> l, mt |-> m, rt |-> r] : l \in {"int", "uint", "long", "ulong"},
            m \in {"bool", "char", "schar", "uchar", "short", "ushort", "int", "uint"}, r \in Types \cup FTypes}
  \cup {[kind |-> "bincast", op |-> o, lt |-> l, mt |-> m, rt |-> m] : o \in BinOpsC, l \in {"int", "ulong"},
            m \in {"bool", "char", "schar", "uchar", "short", "ushort"}}
  \cup {[kind |-> "f2i", op |-> "cast", lt |-> l, rt |-> r] : l \in FTypes, r \in Types}
  \cup {[kind |-> "i2f", op |-> "cast", lt |-> l, rt |-> r] : l \in Types, r \in FTypes}
  \cup {[kind |-> "fbin", op |-> o, lt |-> l, rt |-> r] : o \in {"+", "-", "*", "/", "<", "<=", ">", ">=", "==", "!="},
            l \in FTypes, r \in FTypes \cup {"char", "int", "uint", "long", "ulong"}}
  \cup {[kind |-> "fbin", op |-> o, lt |-> l, rt |-> r] : o \in {"-", "/", "<"}, l \in {"int", "ulong"}, r \in FTypes}
  \cup ChainCases
  \cup {[kind |-> "binsig", op |-> o, lt |-> l, rt |-> r] : o \in SigOps, l \in Types, r \in Types}

TypeSeq == <<"bool", "char", "schar", "uchar", "short", "ushort", "int", "uint", "long", "ulong", "llong", "ullong", "float", "double">>
OpSeq == <<"+", "-", "*", "/", "%", "&", "|", "^", "<<", ">>", "<", "<=", ">", ">=", "==", "!=", "~", "!", "cast">>
IndexIn(seq, x) == CHOOSE i \in 1..Len(seq) : seq[i] = x
Hash(c) == IndexIn(OpSeq, c.op) * 7 + IndexIn(TypeSeq, c.lt) * 13 + IndexIn(TypeSeq, c.rt) * 5 + (IF c.kind = "casg" THEN 3 ELSE 0)
Part == IF NParts = 1 THEN 0 ELSE atoi(IOEnv.OPCASES_PART)
NPartsF == IF NParts = 1 THEN 1 ELSE 4            \* the floating-point product is smaller: cut into fewer slices
InSlice(c) == IF c.kind = "fbin" THEN Hash(c) % NPartsF = Part % NPartsF ELSE Hash(c) % NParts = Part
(* chains: every pair of operators always; triples cut into 8 slices when the case space is sliced at all *)
ChainHash(c) == IndexIn(ChainOpSeq, c.ops[1]) * 7 + IndexIn(ChainOpSeq, c.ops[2]) * 3 + IndexIn(ChainOpSeq, c.ops[3])
ChainInSlice(c) == Len(c.ops) = 2 \/ NParts = 1 \/ ChainHash(c) % 8 = Part % 8
Selected(c) == IF c.kind = "chain" THEN ChainInSlice(c) ELSE c.kind \in {"cast", "un", "cast2", "f2i", "i2f", "bincast", "binsig"} \/ InSlice(c)

(* the second program of C_PROGS has unsigned plain char: only cases mentioning char differ *)
OInit == /\ cpid \in 1..Len(CProgs)
         /\ cas \in {c \in Cases : Selected(c)}     \* conversions, unary ops and operator pairs are always enumerated completely
         /\ (cpid > 1 => "char" \in {cas.lt, cas.rt} \/ (cas.kind \in {"cast2", "bincast"} /\ cas.mt = "char"))
         /\ ck = <<>> /\ env = <<>> /\ genv = <<>> /\ mem = <<>> /\ cout = <<>> /\ cstatus = "gen" /\ cret = Zero /\ cfuel = 0 /\ depth = 0
ONext == UNCHANGED ovars
OSpec == OInit /\ [][ONext]_ovars
OEmit == EmitAll
=============================================================================
