SPECIFICATION Spec
CONSTANTS
  Ids = {"x"}
  MaxLen = 2
  MaxDepth = 2
  MixKinds = FALSE
  AsmForms = FALSE
  AsmFirst = FALSE
  Kinds = {"obj", "func"}
  Family = "funcspec"
  DevsOn = {"ThreadNoTentative", "ThreadMismatchNotDiagnosed", "InlineLateExternal", "NoUsedInternalUndefDiag"}
  OkPrefix = FALSE
  SampleMod = 1
  Emit = "all"
INVARIANTS Inv_Refines Inv_OneDef Inv_ExportedExt Inv_FiredExplains Inv_Emit
CHECK_DEADLOCK FALSE
