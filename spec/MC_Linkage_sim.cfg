SPECIFICATION Spec
CONSTANTS
  Ids = {"x", "y", "z"}
  MaxLen = 8
  MaxDepth = 2
  MixKinds = TRUE
  AsmForms = TRUE
  AsmFirst = FALSE
  Kinds = {"obj", "func"}
  Family = "all"
  DevsOn = {"ThreadNoTentative", "ThreadMismatchNotDiagnosed", "InlineLateExternal", "NoUsedInternalUndefDiag"}
  OkPrefix = TRUE
  SampleMod = 1
  Emit = "full"
INVARIANTS Inv_Refines Inv_OneDef Inv_ExportedExt Inv_FiredExplains Inv_Emit
CHECK_DEADLOCK FALSE
