------------------------------- MODULE Refine -------------------------------
(* C01, flow C: product of the C abstract machine (CSem) and the IL machine      *)
(* (QbeMachine) on one program: program i of C_PROGS is the MiniC AST, program i *)
(* of QBE_PROGS is the IL the real cproc printed for its rendering.  The C       *)
(* machine runs first, then the IL machine; when both have stopped the verdict   *)
(* ObsAgree is evaluated: same observation sequence, same exit status, and the   *)
(* IL side neither faulted (MemSafe) nor used an undefined temporary.  Programs  *)
(* whose C behaviour is undefined are outside the property (verdict "skip").     *)
EXTENDS CSem, QbeMachine

rvars == <<cvars, qvars>>

RInit == CInit /\ QInit /\ pid = cpid
RNext == \/ (~CDone /\ CNext /\ UNCHANGED qvars)
         \/ (CDone /\ cstatus = "exit" /\ ~QDone /\ QNext /\ UNCHANGED cvars)
RSpec == RInit /\ [][RNext]_rvars

BothDone == CDone /\ (cstatus # "exit" \/ QDone)
ObsAgree == /\ qstatus = "exit"
            /\ qout = cout
            /\ TruncBits(qret, 32) = TruncBits(cret, 32)
Unsupported == qstatus \in {"unsupported-extern-call", "unsupported-aggregate-arg", "unsupported-float-or-vararg"}   \* outside QbeMachine's fragment
Verdict == IF cstatus # "exit" THEN "skip" ELSE IF Unsupported THEN "unsupported" ELSE IF ObsAgree THEN "agree" ELSE "DISAGREE"
REmit == BothDone => PrintT("VCASE " \o ToJson([pid |-> cpid, verdict |-> Verdict, cstatus |-> cstatus, qstatus |-> qstatus,
                                                 cout |-> cout, qout |-> qout, cret |-> cret, qret |-> qret]))
=============================================================================
