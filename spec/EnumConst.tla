------------------------------ MODULE EnumConst ------------------------------
(* C05, enumeration family: the type of an ENUMERATION CONSTANT and of the ENUMERATED TYPE as a      *)
(* function of the enumerator values and of the types of their defining expressions                  *)
(* (C11 6.7.2.2p2-p4; C23 6.7.2.2p5-p13, the rule cproc follows: tagspec() in decl.c).                *)
(*                                                                                                    *)
(* One behaviour = one enum specifier processed enumerator by enumerator:                             *)
(*   A_Explicit   `name = ICE`   (value v, type of the defining expression ty)                        *)
(*   A_Implicit   `name`         (0 for the first, previous + 1 otherwise)                             *)
(*   A_Close      `}`            (compatible integer type chosen, member type after completion)       *)
(* A behaviour ends in st = "done" (the specifier is valid) or st = "rej" (a constraint of 6.7.2.2 is  *)
(* violated: a diagnostic is required).  Every final state prints one VCASE with, per constant, the  *)
(* observations its type must give DURING the definition (probe placed inside the enumerator list)    *)
(* and AFTER the closing brace, and the observations of the enumerated type itself.                   *)
(*                                                                                                    *)
(* Widths are scaled (TLC integers are 32 bit): char 5, short 8, int 12, long = long long 16 bits.    *)
(* Every value is printed as (anchor, offset) with anchor one of the limits of <limits.h> or 0; the   *)
(* harness adds the offset to the real limit (order and +1 steps are preserved: Inv_Anchor).          *)
(* Implementation-defined choices (C23 6.7.2.2p12 "choice of type is implementation-defined",         *)
(* p10 "a suitably sized ... type"): the LP64 ABI convention shared by gcc, clang and cproc's         *)
(* documentation: the lowest-rank type of {unsigned, unsigned long, unsigned long long} when no value *)
(* is negative, of {int, long, long long} otherwise; successor type = lowest rank >= int of the       *)
(* signedness of the previous constant's type.                                                        *)
EXTENDS Integers, Sequences, FiniteSets, TLC, Json

CONSTANTS MaxOff,      \* explicit values are anchor + d for d in -MaxOff..MaxOff
          PairMode,    \* "nat": pairs (any item, anchor in its natural type) and the reverse; "core": (any, anchor in any type)
                       \* and the reverse; "full": all pairs
          Triples,     \* TRUE: triples over the natural-type anchor items as well
          FixedTypes,  \* fixed underlying types (C23 6.7.2.2 enum-type-specifier)
          Emit

VARIABLES c, i, ks, st, why
vars == <<c, i, ks, st, why>>
Offs == (-MaxOff)..MaxOff

--------------------------------------------------------------------------------
(* integer types *)
AllTypes == {"schar", "uchar", "short", "ushort", "int", "uint", "long", "ulong", "llong", "ullong"}
ExprTypes == {"int", "uint", "long", "ulong", "llong", "ullong"}     \* type of a defining expression whose value may matter
GList == <<"schar", "uchar", "short", "ushort", "int", "uint", "long", "ulong", "llong", "ullong">>

Signed(t) == t \in {"schar", "short", "int", "long", "llong"}
Bits(t) == CASE t \in {"schar", "uchar"} -> 5 [] t \in {"short", "ushort"} -> 8 [] t \in {"int", "uint"} -> 12 [] OTHER -> 16
RealSize(t) == CASE t \in {"schar", "uchar"} -> 1 [] t \in {"short", "ushort"} -> 2 [] t \in {"int", "uint"} -> 4 [] OTHER -> 8
Rank(t) == CASE t \in {"schar", "uchar"} -> 1 [] t \in {"short", "ushort"} -> 2 [] t \in {"int", "uint"} -> 3
             [] t \in {"long", "ulong"} -> 4 [] OTHER -> 5
TMin(t) == IF Signed(t) THEN -(2^(Bits(t) - 1)) ELSE 0
TMax(t) == IF Signed(t) THEN 2^(Bits(t) - 1) - 1 ELSE 2^Bits(t) - 1
Fits(v, t) == TMin(t) <= v /\ v <= TMax(t)
Abs(x) == IF x < 0 THEN -x ELSE x
SetMin(S) == CHOOSE x \in S : \A y \in S : x <= y

FirstFit(list, v) ==                       \* first type of the list that represents v, "none" otherwise
  LET idx == {j \in 1..Len(list) : Fits(v, list[j])} IN IF idx = {} THEN "none" ELSE list[SetMin(idx)]
FirstFitAll(list, V) ==
  LET idx == {j \in 1..Len(list) : \A v \in V : Fits(v, list[j])} IN IF idx = {} THEN "none" ELSE list[SetMin(idx)]
SignedLadder == <<"int", "long", "llong">>
UnsignedLadder == <<"uint", "ulong", "ullong">>

--------------------------------------------------------------------------------
(* anchors: the limits of <limits.h> and 0 *)
Anchors == {"0", "SCHAR_MIN", "SCHAR_MAX", "UCHAR_MAX", "SHRT_MIN", "SHRT_MAX", "USHRT_MAX",
            "INT_MIN", "INT_MAX", "UINT_MAX", "LONG_MIN", "LONG_MAX", "ULONG_MAX"}
AV(a) == CASE a = "0" -> 0
           [] a = "SCHAR_MIN" -> TMin("schar") [] a = "SCHAR_MAX" -> TMax("schar") [] a = "UCHAR_MAX" -> TMax("uchar")
           [] a = "SHRT_MIN" -> TMin("short")  [] a = "SHRT_MAX" -> TMax("short")  [] a = "USHRT_MAX" -> TMax("ushort")
           [] a = "INT_MIN" -> TMin("int")     [] a = "INT_MAX" -> TMax("int")     [] a = "UINT_MAX" -> TMax("uint")
           [] a = "LONG_MIN" -> TMin("long")   [] a = "LONG_MAX" -> TMax("long")   [] a = "ULONG_MAX" -> TMax("ulong")
AnchorOf(v) == CHOOSE a \in Anchors : \A b \in Anchors : Abs(v - AV(a)) <= Abs(v - AV(b))
ValJ(v) == [a |-> AnchorOf(v), d |-> v - AV(AnchorOf(v))]

--------------------------------------------------------------------------------
(* the alphabet of enumerators *)
Implicit == [x |-> FALSE, v |-> 0, ty |-> "int"]
Expl(v, t) == [x |-> TRUE, v |-> v, ty |-> t]
ExplVals == {v \in {AV(a) + d : a \in Anchors, d \in Offs} : TMin("long") <= v /\ v <= TMax("ulong")}
AllItems == {Implicit} \cup {it \in {Expl(v, t) : v \in ExplVals, t \in ExprTypes} : Fits(it.v, it.ty)}
CoreItems == {it \in AllItems : ~it.x \/ it.v \in {AV(a) : a \in Anchors}}
NatType(v) == FirstFit(<<"int", "uint", "long", "ulong">>, v)
NatItems == {it \in CoreItems : ~it.x \/ it.ty = NatType(it.v)}

UnfixedSeqs ==
  {<<a>> : a \in AllItems}
  \cup (IF PairMode = "full" THEN {<<a, b>> : a \in AllItems, b \in AllItems}
        ELSE IF PairMode = "core" THEN {<<a, b>> : a \in AllItems, b \in CoreItems} \cup {<<a, b>> : a \in CoreItems, b \in AllItems}
        ELSE {<<a, b>> : a \in AllItems, b \in NatItems} \cup {<<a, b>> : a \in NatItems, b \in AllItems})
  \cup (IF Triples THEN {<<a, b, d>> : a \in NatItems, b \in NatItems, d \in NatItems} ELSE {})
FixedSeqs ==
  {<<a>> : a \in AllItems} \cup {<<a, Implicit>> : a \in AllItems} \cup {<<a, Implicit, Implicit>> : a \in CoreItems}
  \cup (IF PairMode = "full" THEN {<<a, b>> : a \in CoreItems, b \in CoreItems} ELSE {<<a, b>> : a \in NatItems, b \in NatItems})
Cases == {[fx |-> "", items |-> s] : s \in UnfixedSeqs} \cup {[fx |-> f, items |-> s] : f \in FixedTypes, s \in FixedSeqs}

--------------------------------------------------------------------------------
(* spellings of a defining expression with value v and type ty (6.4.4.1p5 table, 6.5.3.3, 6.5.4) *)
Suffixes == <<"", "u", "l", "ul", "ll", "ull">>
DecList(s) == CASE s = "" -> <<"int", "long", "llong">> [] s = "u" -> <<"uint", "ulong", "ullong">> [] s = "l" -> <<"long", "llong">>
                [] s = "ul" -> <<"ulong", "ullong">> [] s = "ll" -> <<"llong">> [] s = "ull" -> <<"ullong">>
HexList(s) == CASE s = "" -> <<"int", "uint", "long", "ulong", "llong", "ullong">> [] s = "u" -> <<"uint", "ulong", "ullong">>
                [] s = "l" -> <<"long", "ulong", "llong", "ullong">> [] s = "ul" -> <<"ulong", "ullong">>
                [] s = "ll" -> <<"llong", "ullong">> [] s = "ull" -> <<"ullong">>
\* cast: ((T)m) or (-(T)(m-1) - 1);  dec: m<s> or (-m<s>);  hex: 0x..<s>;  min1: (-(m-1)<s> - 1)
SpellingOK(form, s, it) ==
  LET m == Abs(it.v) IN
  CASE form = "cast" -> s = ""
    [] form = "dec"  -> FirstFit(DecList(s), m) = it.ty
    [] form = "hex"  -> FirstFit(HexList(s), m) = it.ty
    [] form = "min1" -> it.v < 0 /\ FirstFit(DecList(s), m - 1) = it.ty
SpellCands == [n \in 1..(4 * 6) |-> [form |-> <<"cast", "dec", "hex", "min1">>[((n - 1) \div 6) + 1], s |-> Suffixes[((n - 1) % 6) + 1]]]
Spellings(it) == SelectSeq(SpellCands, LAMBDA sp : SpellingOK(sp.form, sp.s, it))

--------------------------------------------------------------------------------
(* the specifier, enumerator by enumerator.  ks[j] = [v, ty]; ty = "E" is the enumerated type itself *)
Fixed == c.fx # ""
Cur == c.items[i]
Reject(w) == st' = "rej" /\ why' = w /\ UNCHANGED <<c, i, ks>>
Push(v, t) == ks' = Append(ks, [v |-> v, ty |-> t]) /\ i' = i + 1 /\ UNCHANGED <<c, st, why>>

A_Explicit ==
  /\ st = "run" /\ i <= Len(c.items) /\ Cur.x
  /\ IF Fixed
       THEN IF Fits(Cur.v, c.fx) THEN Push(Cur.v, "E")              \* C23 p7: shall be representable in the fixed type
            ELSE Reject("fixed-unrepresentable")
       ELSE Push(Cur.v, IF Fits(Cur.v, "int") THEN "int" ELSE Cur.ty)   \* C23 p10 bullets 2, 3 (C11 p3: int)

A_Implicit ==
  /\ st = "run" /\ i <= Len(c.items) /\ ~Cur.x
  /\ IF ks = <<>>
       THEN Push(0, IF Fixed THEN "E" ELSE "int")                     \* p10 bullet 1
       ELSE LET pv == ks[Len(ks)].v
                pt == ks[Len(ks)].ty
                nv == pv + 1
            IN IF Fixed
                 THEN IF Fits(nv, c.fx) THEN Push(nv, "E") ELSE Reject("fixed-successor-unrepresentable")
                 ELSE IF Fits(nv, pt) THEN Push(nv, pt)               \* p10 bullet 4
                 ELSE LET nt == FirstFit(IF Signed(pt) THEN SignedLadder ELSE UnsignedLadder, nv)
                      IN IF nt = "none" THEN Reject("successor-no-type") ELSE Push(nv, nt)

Vals == {ks[j].v : j \in 1..Len(ks)}
AllInt == \A v \in Vals : Fits(v, "int")
Underlying ==
  IF Fixed THEN c.fx
  ELSE FirstFitAll(IF \E v \in Vals : v < 0 THEN SignedLadder ELSE UnsignedLadder, Vals)

A_Close ==
  /\ st = "run" /\ i > Len(c.items)
  /\ IF Underlying = "none" THEN Reject("no-type-for-all-values")       \* C23 p5
     ELSE st' = "done" /\ UNCHANGED <<c, i, ks, why>>

Init == c \in Cases /\ i = 1 /\ ks = <<>> /\ st = "run" /\ why = ""
Next == A_Explicit \/ A_Implicit \/ A_Close
Spec == Init /\ [][Next]_vars

--------------------------------------------------------------------------------
(* member type after completion: C23 p12 (int if all values are representable in int, else the enumerated type), p13 *)
PostType(j) == IF Fixed THEN "E" ELSE IF AllInt THEN "int" ELSE "E"

(* observations of a type tau ("E" = the enumerated type, compatible with u) *)
Basic(tau, u) == IF tau = "E" THEN u ELSE tau
Promoted(tau, u) == IF Rank(Basic(tau, u)) < 3 THEN "int" ELSE Basic(tau, u)
GIndex(t) == CHOOSE n \in 1..Len(GList) : GList[n] = t
B2I(b) == IF b THEN 1 ELSE 0
Obs(tau, u) == [g |-> GIndex(Basic(tau, u)), sz |-> RealSize(Basic(tau, u)),
                neg |-> GIndex(Promoted(tau, u)), sg |-> B2I(Signed(Promoted(tau, u)))]
PostObs(tau, u) == [g |-> GIndex(Basic(tau, u)), sz |-> RealSize(Basic(tau, u)),
                    neg |-> GIndex(Promoted(tau, u)), sg |-> B2I(Signed(Promoted(tau, u))),
                    ce |-> B2I(tau = "E" \/ tau = u),      \* compatible with the enumerated type
                    ct |-> B2I(tau # "E" /\ tau = u)]      \* compatible with another enumerated type of the same underlying type

ItemJ(it) == IF it.x THEN [x |-> 1, a |-> ValJ(it.v).a, d |-> ValJ(it.v).d, ty |-> it.ty, sp |-> Spellings(it)]
             ELSE [x |-> 0, a |-> "0", d |-> 0, ty |-> "int", sp |-> <<>>]

CaseJ ==
  IF st = "done"
  THEN [ok |-> 1, why |-> "", fx |-> c.fx, items |-> [j \in 1..Len(c.items) |-> ItemJ(c.items[j])],
        u |-> Underlying, allint |-> B2I(AllInt),
        ks |-> [j \in 1..Len(ks) |-> [a |-> ValJ(ks[j].v).a, d |-> ValJ(ks[j].v).d, neg |-> B2I(ks[j].v < 0), fi |-> B2I(Fits(ks[j].v, "int")),
                                      dty |-> ks[j].ty, pty |-> PostType(j),
                                      during |-> Obs(ks[j].ty, Underlying), post |-> PostObs(PostType(j), Underlying)]],
        et |-> [g |-> GIndex(Underlying), sz |-> RealSize(Underlying), sg |-> B2I(Signed(Underlying))]]
  ELSE [ok |-> 0, why |-> why, fx |-> c.fx, items |-> [j \in 1..Len(c.items) |-> ItemJ(c.items[j])], at |-> i]

Inv_Emit == (Emit /\ st \in {"done", "rej"}) => PrintT("VCASE " \o ToJson(CaseJ))

--------------------------------------------------------------------------------
(* design-level obligations *)
\* every constant's type represents its value, during and after; the compatible type represents all values
Inv_Represents ==
  st = "done" => /\ \A j \in 1..Len(ks) : Fits(ks[j].v, Basic(ks[j].ty, Underlying)) /\ Fits(ks[j].v, Basic(PostType(j), Underlying))
                 /\ \A v \in Vals : Fits(v, Underlying)
\* C11 6.7.2.2p2-p3: an enumeration whose values are all representable in int has constants of type int
Inv_C11 ==
  (st = "done" /\ ~Fixed /\ AllInt) => /\ \A j \in 1..Len(ks) : ks[j].ty = "int" /\ PostType(j) = "int"
                                       /\ Underlying \in {"int", "uint"}
\* without a fixed type a constant's type never has a rank below int and is int exactly when the value fits (explicit case)
Inv_During ==
  (~Fixed) => \A j \in 1..Len(ks) : /\ Rank(ks[j].ty) >= 3
                                    /\ (c.items[j].x => (ks[j].ty = "int") = Fits(ks[j].v, "int"))
\* a valid specifier with a fixed type has all values in that type; a rejected one has a value (or successor) outside
Inv_Fixed ==
  Fixed => /\ (st = "done" => \A v \in Vals : Fits(v, c.fx))
           /\ (st = "rej" => why \in {"fixed-unrepresentable", "fixed-successor-unrepresentable"})
\* the scaled values stay next to their anchor (the harness adds the offset to the real limit)
Inv_Anchor ==
  st # "run" =>
  /\ \A j \in 1..Len(ks) : Abs(ValJ(ks[j].v).d) <= 4
  /\ \A j \in 1..Len(c.items) : c.items[j].x => (Abs(ValJ(c.items[j].v).d) <= 1 /\ Len(Spellings(c.items[j])) >= 1)
\* the spelling table: every explicit item has the cast form, and a plain negated decimal of INT_MIN magnitude is long
Inv_Spell ==
  /\ SpellingOK("dec", "", Expl(TMin("int"), "long")) /\ ~SpellingOK("dec", "", Expl(TMin("int"), "int"))
  /\ SpellingOK("min1", "", Expl(TMin("int"), "int")) /\ SpellingOK("hex", "", Expl(TMax("uint"), "uint"))
  /\ ~SpellingOK("dec", "", Expl(TMax("uint"), "uint")) /\ SpellingOK("dec", "", Expl(TMax("uint"), "long"))
=============================================================================
