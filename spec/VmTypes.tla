------------------------------ MODULE VmTypes ------------------------------
(* Property C20, input family `vmt:*`: derived declarator types over a scalar   *)
(* element, every derivation step an array of CONSTANT length ("K"), an array   *)
(* of VARIABLE length ("V": a parameter; "E": an arithmetic expression of a     *)
(* parameter) or a POINTER ("P"), to depth MaxDepth, in every position of a     *)
(* function that makes the compiler generate code from the type's run-time      *)
(* size: block-scope object, sizeof(type-name), pointer difference / addition,  *)
(* parameter (adjusted), block-scope typedef, cast, ++ / += on a pointer to it, *)
(* subscripting through a pointer to it.                                        *)
(*                                                                             *)
(* The size of an array type is a run-time value exactly when a variable        *)
(* dimension occurs in the chain before the first pointer (DynSize); at each    *)
(* level of the chain that can differ (a constant dimension over a variable     *)
(* one, a variable over a constant one, a pointer in between, ...).  The        *)
(* compiler keeps one "size expression" per array type; which of them exist,    *)
(* and which of them a use reads, is what this family sweeps.  The monitor      *)
(* (Pure.tla) then demands one result per (input, opts) in all environments,    *)
(* and no read of uninitialised memory.                                        *)
(*                                                                             *)
(* TLC enumerates Chains x Positions x Elems as initial states, checks the      *)
(* rendering invariants below and prints each case (text of one C function)     *)
(* as a VCASE line.  The harness only concatenates the texts into files.        *)
EXTENDS Naturals, Sequences, FiniteSets, TLC, Json

CONSTANTS MaxDepth,   \* longest derivation chain
          Kinds       \* subset of {"K","V","E","P"}

Elems == <<"char", "int", "long">>
Positions == <<"obj", "sizeof", "arith", "param", "typedef", "cast", "incr", "index">>

VARIABLES chain, pos, el
vars == <<chain, pos, el>>

Chains == UNION {[1..d -> Kinds] : d \in 1..MaxDepth}

IsVar(k) == k \in {"V", "E"}
(* variably modified: some variable dimension anywhere in the chain *)
VM(c) == \E i \in 1..Len(c) : IsVar(c[i])
(* the size of the level-i suffix type is a run-time value *)
DynSizeAt(c, i) == \E j \in i..Len(c) : IsVar(c[j]) /\ \A l \in i..(j - 1) : c[l] # "P"
DynSize(c) == DynSizeAt(c, 1)
(* levels whose array type has a constant length but a run-time element size *)
ConstOverDyn(c) == {i \in 1..Len(c) : c[i] = "K" /\ i < Len(c) /\ DynSizeAt(c, i + 1)}

(* ---- rendering ---------------------------------------------------------- *)
KLen == <<"3", "2", "4", "5">>
DimText(k, i) == CASE k = "K" -> "[" \o KLen[i] \o "]"
                   [] k = "V" -> (IF i % 2 = 1 THEN "[n]" ELSE "[m]")
                   [] k = "E" -> (IF i % 2 = 1 THEN "[m * 2]" ELSE "[n + 1]")

(* declarator of `name` with derivations c[1] (outermost) .. c[Len(c)]; st = the text so far begins with '*' *)
RECURSIVE Dcl(_, _, _, _)
Dcl(c, i, s, st) ==
  IF i > Len(c) THEN s
  ELSE IF c[i] = "P" THEN Dcl(c, i + 1, "*" \o s, TRUE)
  ELSE Dcl(c, i + 1, (IF st THEN "(" \o s \o ")" ELSE s) \o DimText(c[i], i), FALSE)

Decl(e, c, name) == e \o " " \o Dcl(c, 1, name, FALSE)
(* pointer to the type: one more (outermost) pointer derivation, dimension indices unchanged *)
PDcl(c, name) == Dcl(c, 1, "*" \o name, TRUE)
PDecl(e, c, name) == e \o " " \o PDcl(c, name)

KindChar(c) == LET RECURSIVE J(_) J(i) == IF i > Len(c) THEN "" ELSE c[i] \o J(i + 1) IN J(1)
ElemIdx(e) == CHOOSE k \in 1..Len(Elems) : Elems[k] = e
Digit == <<"0", "1", "2", "3", "4", "5", "6", "7", "8", "9">>
FName(c, p, e) == "f_" \o KindChar(c) \o "_" \o p \o "_" \o Digit[ElemIdx(e) + 1]

Hd(ret, c, p, e, extra) == ret \o " " \o FName(c, p, e) \o "(int n, int m" \o extra \o ") "

Text(c, p, e) ==
  CASE p = "obj"    -> Hd("unsigned long", c, p, e, "") \o "{ " \o Decl(e, c, "x") \o "; return sizeof x + sizeof *x; }"
    [] p = "sizeof" -> Hd("unsigned long", c, p, e, "") \o "{ return sizeof(" \o Decl(e, c, "") \o "); }"
    [] p = "arith"  -> Hd("long", c, p, e, ", " \o PDecl(e, c, "p") \o ", " \o PDecl(e, c, "q")) \o "{ return (p + 1) - q; }"
    [] p = "param"  -> Hd("void *", c, p, e, ", " \o Decl(e, c, "a") \o ", unsigned long *s") \o "{ *s = sizeof *a; return a + 1; }"
    [] p = "typedef"-> Hd("unsigned long", c, p, e, "") \o "{ typedef " \o Decl(e, c, "T_") \o "; T_ x; return sizeof(T_) + sizeof x; }"
    [] p = "cast"   -> Hd("void *", c, p, e, ", void *p") \o "{ return (" \o PDecl(e, c, "") \o ")p + 1; }"
    [] p = "incr"   -> Hd("unsigned long", c, p, e, ", void *p") \o "{ " \o PDecl(e, c, "q") \o " = p; q++; q += 2; return sizeof *q + sizeof **q; }"
    [] p = "index"  -> Hd("void *", c, p, e, ", void *p") \o "{ " \o PDecl(e, c, "q") \o " = p; return &q[1][1]; }"

Range(s) == {s[i] : i \in DOMAIN s}

Init == chain \in Chains /\ pos \in Range(Positions) /\ el \in Range(Elems)
Next == UNCHANGED vars
Spec == Init /\ [][Next]_vars

TypeOK == chain \in Chains /\ pos \in Range(Positions) /\ el \in Range(Elems)

(* sanity of the classification: a dynamic size implies variably modified; a chain whose variable dimensions all sit behind a  *)
(* pointer has a constant size; a constant-over-dynamic level implies a dynamic size of the level itself                       *)
Inv_Class ==
  /\ DynSize(chain) => VM(chain)
  /\ (chain[1] = "P") => ~DynSize(chain)
  /\ \A i \in ConstOverDyn(chain) : DynSizeAt(chain, i)
  /\ (\A i \in 1..Len(chain) : chain[i] \in {"K", "P"}) => ~VM(chain)

TargetIdx(c) == (Cardinality({i \in 1..Len(c) : c[i] = "K"}) + 2 * Cardinality({i \in 1..Len(c) : IsVar(c[i])}) + Len(c)) % 3

(* Allocator state is part of the family: the same case is rendered into a LARGE file (all positions and element types of a     *)
(* chain: type nodes come from recycled chunks) and into SMALL files (group `grp` = two positions, one element type `pick`:     *)
(* type nodes come from fresh, zero-filled heap unless the environment perturbs it).                                           *)
PosIdx(p) == CHOOSE k \in 1..Len(Positions) : Positions[k] = p
Grp(p) == (PosIdx(p) - 1) \div 2
Pick(c, p, e) == ElemIdx(e) = ((TargetIdx(c) + Grp(p)) % Len(Elems)) + 1

Inv_Emit ==
  PrintT("VCASE " \o ToJson([shape |-> KindChar(chain), pos |-> pos, elem |-> ElemIdx(el), vm |-> VM(chain), dyn |-> DynSize(chain),
                             cod |-> Cardinality(ConstOverDyn(chain)), tgt |-> TargetIdx(chain), grp |-> Grp(pos),
                             pick |-> Pick(chain, pos, el), text |-> Text(chain, pos, el)]))
=============================================================================
