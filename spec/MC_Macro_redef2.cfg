\* design-level check: PPModel with every deviation off refines the declarative Expand on space "redef2"
SPECIFICATION Spec
CONSTANTS
  Devs <- NoDevs
  Space = "redef2"
  Modes = {"E"}
  EmitCases = FALSE
  PeekBudget = 0
INVARIANTS Inv_Ctx Inv_End Inv_Conform
PROPERTIES Prop_Disc
CHECK_DEADLOCK FALSE
