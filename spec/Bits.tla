-------------------------------- MODULE Bits --------------------------------
(* 64-bit machine words for TLC (whose integers are 32-bit): a word is a tuple  *)
(* of 8 bytes, little endian.  Used by QbeMachine.tla and CSem.tla at the real   *)
(* widths of the targets.  All operators are total on words.                     *)
EXTENDS Naturals, Integers, Sequences
LOCAL INSTANCE Bitwise

Word == [1..8 -> 0..255]
(* words are explicit tuples: a lazily evaluated function value would be re-evaluated at every application *)
Mk8(F(_)) == <<F(1), F(2), F(3), F(4), F(5), F(6), F(7), F(8)>>
Zero == <<0, 0, 0, 0, 0, 0, 0, 0>>
One  == <<1, 0, 0, 0, 0, 0, 0, 0>>
Ones == <<255, 255, 255, 255, 255, 255, 255, 255>>

(* small naturals (< 2^31) <-> words *)
W(n) == <<n % 256, (n \div 256) % 256, (n \div 65536) % 256, (n \div 16777216) % 256, 0, 0, 0, 0>>
Lo31(a) == a[1] + 256 * a[2] + 65536 * a[3] + 16777216 * (a[4] % 128)   \* low 31 bits as a TLC int
FitsNat31(a) == a[5] = 0 /\ a[6] = 0 /\ a[7] = 0 /\ a[8] = 0 /\ a[4] < 128
IsZero(a) == a = Zero

(* ---- addition / subtraction ---- *)
AddC(a, b, cin) ==
  LET c[i \in 0..8] == IF i = 0 THEN cin ELSE (a[i] + b[i] + c[i - 1]) \div 256
  IN Mk8(LAMBDA i : (a[i] + b[i] + c[i - 1]) % 256)
Add(a, b) == AddC(a, b, 0)
WNot(a) == Mk8(LAMBDA i : 255 - a[i])
Neg(a) == AddC(WNot(a), Zero, 1)
Sub(a, b) == AddC(a, WNot(b), 1)

(* ---- logic ---- *)
WAnd(a, b) == Mk8(LAMBDA i : a[i] & b[i])
WOr(a, b)  == Mk8(LAMBDA i : a[i] | b[i])
WXor(a, b) == Mk8(LAMBDA i : a[i] ^^ b[i])

(* ---- comparison (unsigned, on all 64 bits) ---- *)
ULt(a, b) ==
  LET lt[i \in 0..8] == IF i = 0 THEN FALSE
                        ELSE IF a[i] < b[i] THEN TRUE ELSE IF a[i] > b[i] THEN FALSE ELSE lt[i - 1]
  IN lt[8]
ULe(a, b) == ~ULt(b, a)
SignBit(a) == a[8] >= 128
SLt(a, b) == IF SignBit(a) # SignBit(b) THEN SignBit(a) ELSE ULt(a, b)
SLe(a, b) == ~SLt(b, a)

(* ---- width handling: bits \in {8,16,32,64} (or any multiple of 8), and arbitrary widths for bit-fields ---- *)
Pow2(k) == 2 ^ k                       \* k <= 30
(* keep the low n bits, 0 <= n <= 64 *)
TruncBits(a, n) ==
  Mk8(LAMBDA i : IF 8 * i <= n THEN a[i]
                  ELSE IF 8 * (i - 1) >= n THEN 0
                  ELSE a[i] % Pow2(n - 8 * (i - 1)))
BitAt(a, k) == (a[(k \div 8) + 1] \div Pow2(k % 8)) % 2     \* bit k (0 = lsb)
(* sign-extend from n bits (1 <= n <= 64) to 64 *)
SExtBits(a, n) ==
  IF n >= 64 THEN a
  ELSE IF BitAt(a, n - 1) = 0 THEN TruncBits(a, n)
  ELSE Mk8(LAMBDA i : IF 8 * i <= n THEN a[i]
                       ELSE IF 8 * (i - 1) >= n THEN 255
                       ELSE (a[i] % Pow2(n - 8 * (i - 1))) + (256 - Pow2(n - 8 * (i - 1))))
ZExtBits(a, n) == TruncBits(a, n)

(* ---- shifts by 0 <= k <= 63 ---- *)
ShlBytes(a, m) == Mk8(LAMBDA i : IF i - m >= 1 THEN a[i - m] ELSE 0)
ShrBytes(a, m, fill) == Mk8(LAMBDA i : IF i + m <= 8 THEN a[i + m] ELSE fill)
Shl(a, k) ==
  LET m == k \div 8  s == k % 8  b == ShlBytes(a, m)
  IN IF s = 0 THEN b
     ELSE Mk8(LAMBDA i : ((b[i] * Pow2(s)) % 256) + (IF i > 1 THEN b[i - 1] \div Pow2(8 - s) ELSE 0))
ShrFill(a, k, fill) ==     \* fill \in {0, 255}
  LET m == k \div 8  s == k % 8  b == ShrBytes(a, m, fill)
  IN IF s = 0 THEN b
     ELSE Mk8(LAMBDA i : (b[i] \div Pow2(s)) + (((IF i < 8 THEN b[i + 1] ELSE fill) % Pow2(s)) * Pow2(8 - s)))
Shr(a, k) == ShrFill(a, k, 0)
Sar(a, k) == ShrFill(a, k, IF SignBit(a) THEN 255 ELSE 0)

(* ---- multiplication (low 64 bits) ---- *)
Mul(a, b) ==
  LET col(k) == LET s[j \in 0..k] == IF j = 0 THEN 0 ELSE s[j - 1] + a[j] * b[k + 1 - j] IN s[k]   \* sum of a[j]*b[k+1-j], j=1..k
      c[k \in 0..8] == IF k = 0 THEN 0 ELSE (col(k) + c[k - 1]) \div 256
  IN Mk8(LAMBDA k : (col(k) + c[k - 1]) % 256)

(* ---- unsigned division: restoring, one bit per step (b # 0) ---- *)
RECURSIVE DivStep(_, _, _, _, _)
DivStep(i, q, r, a, b) ==      \* operator arguments are evaluated once (LETs inside recursive functions are not)
  IF i > 64 THEN [q |-> q, r |-> r]
  ELSE LET r1 == WOr(Shl(r, 1), W(BitAt(a, 64 - i)))
       IN IF ULe(b, r1) THEN DivStep(i + 1, WOr(Shl(q, 1), One), Sub(r1, b), a, b)
                        ELSE DivStep(i + 1, Shl(q, 1), r1, a, b)
UDivMod(a, b) == DivStep(1, Zero, Zero, a, b)
UDiv(a, b) == UDivMod(a, b).q
URem(a, b) == UDivMod(a, b).r
Abs(a) == IF SignBit(a) THEN Neg(a) ELSE a
(* signed division truncating toward zero, remainder has the sign of the dividend (b # 0, not MIN/-1) *)
SDiv(a, b) == LET q == UDiv(Abs(a), Abs(b)) IN IF SignBit(a) # SignBit(b) THEN Neg(q) ELSE q
SRem(a, b) == LET r == URem(Abs(a), Abs(b)) IN IF SignBit(a) THEN Neg(r) ELSE r

MinSigned(n) == Shl(One, n - 1)                  \* as an n-bit pattern (zero-extended)
=============================================================================
