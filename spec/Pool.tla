------------------------------- MODULE Pool -------------------------------
(* The string-literal pool of /repo/decl.c:stringdecl.  Property C16 ("distinct  *)
(* string literals never share storage contents").                               *)
(*                                                                               *)
(* A literal is [w, els]: element width in bytes (1: "", u8""; 2: u""; 4: U"",    *)
(* L"") and the element values without the terminating zero.  Its array object    *)
(* has Len(els)+1 elements; Bytes(l) is the little-endian image.                  *)
(*                                                                               *)
(* Declarative requirement (6.4.5p6-7): the pointer a literal evaluates to must   *)
(* address storage that holds the literal's image and is aligned for its element  *)
(* type.  Identical or overlapping storage for several literals is allowed as      *)
(* long as every one of them reads its own image there (Serves).                   *)
(*                                                                               *)
(* Implementation-shaped: stringdecl keeps a dictionary keyed by a byte string     *)
(* and creates an object from the first literal that produces a key; later         *)
(* literals with an equal key get that object.  A correct key is (element width,   *)
(* whole image).  NAMED DEVIATIONS (CONSTANTS; both were TRUE for the code as      *)
(* shipped and are FALSE since `fix:` commit 7b5722a in /repo, so the check now    *)
(* demands the repaired behaviour and a regression is a VIOLATION):                *)
(*  Dev_PoolKeyInElements   expr->u.string.size — the number of ELEMENTS — is      *)
(*      passed as the key length in bytes, so for w > 1 only the first Len(els)+1  *)
(*      bytes take part: L"ab" and L"ac" share one object, u"a" and "a" share.     *)
(*  Dev_PoolKeyIgnoresWidth the element width is not part of the key; harmless as  *)
(*      long as the first deviation is present (Inv_ShippedFailuresAreContent),    *)
(*      but once the key length is repaired "\0" and u"" (equal images) would      *)
(*      share an object aligned for char only.                                     *)
EXTENDS Naturals, Integers, Sequences, FiniteSets, TLC, Json, SequencesExt

CONSTANTS Widths,      \* subset of {1,2,4}
          Elems,       \* element values used (values > 255 only for w > 1)
          MaxEls,      \* literals have 0..MaxEls elements before the terminator
          MaxUses,     \* literals per translation unit
          Dev_PoolKeyInElements,    \* named deviation: key length in elements (shipped before /repo 7b5722a); FALSE since the fix
          Dev_PoolKeyIgnoresWidth   \* named deviation: element width not part of the key; FALSE since the fix

VARIABLES uses     \* the literals of the unit, in order

Lits == {l \in [w : Widths, els : UNION {[1..n -> Elems] : n \in 0..MaxEls}] :
           \A i \in 1..Len(l.els) : l.w = 1 => l.els[i] < 256}

RECURSIVE LE(_, _)
LE(v, w) == IF w = 0 THEN <<>> ELSE <<v % 256>> \o LE(v \div 256, w - 1)        \* little-endian bytes of one element
RECURSIVE Cat(_)
Cat(ss) == IF ss = <<>> THEN <<>> ELSE Head(ss) \o Cat(Tail(ss))
Bytes(l) == Cat([i \in 1..Len(l.els) |-> LE(l.els[i], l.w)]) \o LE(0, l.w)
NElems(l) == Len(l.els) + 1                                                     \* expr->u.string.size

Take(s, n) == SubSeq(s, 1, IF n < Len(s) THEN n ELSE Len(s))
(* dev = [elems, width]: which of the two named deviations are in force *)
Shipped == [elems |-> TRUE,  width |-> TRUE]     \* the code as shipped
Naive   == [elems |-> FALSE, width |-> TRUE]     \* after the obvious repair `size * elementsize` only
Fixed   == [elems |-> FALSE, width |-> FALSE]    \* key = (element width, whole image)
Model   == [elems |-> Dev_PoolKeyInElements, width |-> Dev_PoolKeyIgnoresWidth]   \* what the real code is expected to do now
KeyOf(l, dev) ==                                                                \* mapkey(&key, data, size)
  <<IF dev.width THEN 0 ELSE l.w,                                               \* Dev_PoolKeyIgnoresWidth
    Take(Bytes(l), IF dev.elems THEN NElems(l) ELSE NElems(l) * l.w)>>          \* Dev_PoolKeyInElements

(* object = index (in `uses`) of the literal it was created from *)
RECURSIVE Resolve(_, _, _, _)
Resolve(us, i, pool, dev) ==      \* pool: sequence of [key, obj]; returns the sequence of objects for uses i..Len(us)
  IF i > Len(us) THEN <<>>
  ELSE LET k   == KeyOf(us[i], dev)
           hit == {j \in 1..Len(pool) : pool[j].key = k}
       IN IF hit # {} THEN <<pool[CHOOSE j \in hit : TRUE].obj>> \o Resolve(us, i + 1, pool, dev)
          ELSE <<i>> \o Resolve(us, i + 1, Append(pool, [key |-> k, obj |-> i]), dev)
Objects(us, dev) == Resolve(us, 1, <<>>, dev)

IsPrefixOf(a, b) == Len(a) <= Len(b) /\ SubSeq(b, 1, Len(a)) = a
ServesContent(objlit, l) == IsPrefixOf(Bytes(l), Bytes(objlit))       \* reads its own image there
ServesAlign(objlit, l) == objlit.w % l.w = 0                           \* storage aligned for the element type
Serves(objlit, l) == ServesContent(objlit, l) /\ ServesAlign(objlit, l)
AllServed(us, dev) == LET o == Objects(us, dev) IN \A i \in 1..Len(us) : Serves(us[o[i]], us[i])

Init == uses = <<>>
Use(l) == Len(uses) < MaxUses /\ uses' = Append(uses, l)
Next == \E l \in Lits : Use(l)
Spec == Init /\ [][Next]_uses

(* keyed by (width, whole image) the pool satisfies the requirement ... *)
Inv_FixedServes == AllServed(uses, Fixed)
(* ... the shipped one does not, and neither does the naive repair: "\0" then u"" would share a 1-aligned object *)
(* (MC_Pool_dev.cfg and MC_Pool_naive.cfg must be rejected by TLC) *)
Inv_ShippedServes == AllServed(uses, Shipped)
Inv_NaiveServes == AllServed(uses, Naive)
(* under the shipped key every failure is a content failure (so fixing the key length alone is what unmasks alignment) *)
Inv_ShippedFailuresAreContent == LET o == Objects(uses, Shipped) IN
  \A i \in 1..Len(uses) : ServesContent(uses[o[i]], uses[i]) => ServesAlign(uses[o[i]], uses[i])
(* the model of the current code (deviations as configured) satisfies the requirement *)
Inv_ModelServes == AllServed(uses, Model)
(* with the full key, sharing happens exactly for equal width and image *)
Inv_FixedSharesEqualOnly == LET o == Objects(uses, Fixed) IN
  \A i, j \in 1..Len(uses) : (o[i] = o[j]) <=> (Bytes(uses[i]) = Bytes(uses[j]) /\ uses[i].w = uses[j].w)

Emit == PrintT("VCASE " \o ToJson([uses |-> [i \in 1..Len(uses) |-> [w |-> uses[i].w, els |-> uses[i].els, bytes |-> Bytes(uses[i])]],
                                   objModel |-> Objects(uses, Model), objShipped |-> Objects(uses, Shipped), objNaive |-> Objects(uses, Naive), objFixed |-> Objects(uses, Fixed)]))
Inv_Emit == Len(uses) = MaxUses => Emit
=============================================================================
