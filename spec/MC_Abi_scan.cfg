SPECIFICATION Spec
CONSTANTS
  Mode = "mc"
  MaxLen = 3
  MaxPool = 1
  MaxSize = 64
  Raise = FALSE
  Devs = {}
  Widths = {3, 33}
  Emit = TRUE
  CharSigned = TRUE
  EUSuffixed = {}
  GenClasses = {"scalar", "array", "bitfield", "nested", "anon", "alignas", "flex"}
  GenPacked = TRUE
  McSel = "scan"
  CheckSim = FALSE
INVARIANTS Inv_EmitTerm
CHECK_DEADLOCK FALSE
