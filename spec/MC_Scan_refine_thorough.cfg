SPECIFICATION Spec
CONSTANTS
  Chunks <- DigraphChunks
  MaxLen = 5
  MinLen = 0
  Variants = {"plain", "splice", "bcmt"}
  VarLen = 3
  Mode = "alpha"
  PerturbChars = {}
  Devs = {}
  Emit = FALSE
INVARIANTS Inv_Fired Inv_Refines
CHECK_DEADLOCK FALSE
