SPECIFICATION Spec
CONSTANT FreeOrder = FALSE
INVARIANTS TypeOK FlowMonotone FlowFixpoint
CHECK_DEADLOCK FALSE
