SPECIFICATION Spec
CONSTANT FreeOrder = FALSE
INVARIANTS TypeOK FlowFixpoint
CHECK_DEADLOCK FALSE
