\* design-level check: PPModel with every deviation off refines the declarative Expand on space "redef"
SPECIFICATION Spec
CONSTANTS
  Devs <- NoDevs
  Space = "redef"
  Modes = {"E", "C"}
  EmitCases = FALSE
INVARIANTS Inv_Ctx Inv_End Inv_Conform
CHECK_DEADLOCK FALSE
