------------------------------- MODULE Map -------------------------------
(* Open-addressing hash table with linear probing, exactly as /repo/map.c       *)
(* (mapinit / mapput with growth + rehash / mapget / mapfree, keyindex probe     *)
(* sequence, keyequal), checked against the declarative dictionary of            *)
(* MapDict.tla.  Property C16.                                                   *)
(*                                                                               *)
(* The hash function is NOT modelled: it is the value H, an arbitrary function   *)
(* Keys -> Buckets fixed in the initial state and never changed, so TLC          *)
(* quantifies over all hash functions and therefore over every collision         *)
(* pattern (all keys in one bucket, wrap-around at the table end, clusters that   *)
(* split or merge when the table grows).  H[k] stands for hash(k) mod CapMax;    *)
(* the slot a probe starts at in a table of c <= CapMax slots is H[k] % c, which  *)
(* is what `k->hash & h->cap - 1` computes for a power of two c.                  *)
(*                                                                               *)
(* Keys are abstract identities 1..NKeys.  keyequal() compares (hash, len,       *)
(* bytes); since the hash is a function of (len, bytes) this is identity of the   *)
(* key, which is what KeyEqual says.  Which of the three tests separates two      *)
(* distinct keys is a degree of freedom of the *realisation*: the harness         *)
(* (harness/cmap.c, props/c16.py) replays each behaviour with real keys whose     *)
(* FNV-1a hash has the low bits H chose (full hashes differ), and again with      *)
(* forged `struct mapkey`s whose full hashes are equal whenever H is equal        *)
(* (different lengths / equal lengths and different bytes).                       *)
EXTENDS Naturals, Integers, Sequences, SequencesExt, FiniteSets, TLC, Json, MapDict

CONSTANTS NKeys,      \* keys are 1..NKeys
          InitCap,    \* argument of mapinit (power of two; see Inv_FreeSlot about 1 and 2)
          CapMax,     \* largest capacity explored = range of the abstract hash
          Buckets,    \* subset of 0..CapMax-1 the hash values are drawn from
          SortedH,    \* TRUE: only monotone H (sound reduction, see HSpace)
          PutVals,    \* values stored by Put: >= 1, or NULL (0)
          AllowKeep,  \* Put may also leave the slot untouched (KEEP), as stringdecl/funcgoto do
          AllowReset, \* include mapfree + mapinit
          MaxOps      \* bound on the history length (0 = unbounded)

Keys == 1..NKeys
Empty == 0              \* keys[i].str == NULL

VARIABLES H,      \* the hash function (constant along a behaviour)
          cap,    \* h->cap
          len,    \* h->len
          tab,    \* sequence of cap slots <<key or Empty, value>>; tab[i+1] is slot i
          dict,   \* declarative dictionary
          hang,   \* a keyindex loop would not terminate
          hist,   \* operations so far, with their results (not part of the VIEW)
          ret     \* result of the last operation

vars == <<H, cap, len, tab, dict, hang, hist, ret>>

(* Every hash function is a key permutation of a monotone one, and the set of    *)
(* operation sequences explored is closed under key permutation, so restricting   *)
(* to monotone H loses no behaviour up to renaming of keys.                       *)
HSpace == IF SortedH
          THEN {h \in [Keys -> Buckets] : \A i \in 1..NKeys-1 : h[i] <= h[i+1]}
          ELSE [Keys -> Buckets]

KeyEqual(k1, k2) == k1 = k2

SetMin(S) == CHOOSE x \in S : \A y \in S : x <= y

(* keyindex(h, k): i = hash & cap-1; while (keys[i].str && !keyequal) i = i+1 & cap-1  *)
(* -1: no slot on the whole cycle is free or holds k, the loop never exits.           *)
KeyIndex(hh, t, c, k) ==
  LET h0   == hh[k] % c
      cand == {j \in 0..c-1 : LET s == t[((h0 + j) % c) + 1] IN s[1] = Empty \/ KeyEqual(s[1], k)}
  IN IF cand = {} THEN -1 ELSE (h0 + SetMin(cand)) % c

EmptyTab(c) == [i \in 1..c |-> <<Empty, NULL>>]

(* the rehash loop of mapput: old slots in index order into the doubled table *)
RECURSIVE Rehash(_, _, _, _, _)
Rehash(hh, old, oldcap, i, new) ==
  IF i = oldcap THEN new
  ELSE LET s == old[i + 1] IN
       IF s[1] = Empty THEN Rehash(hh, old, oldcap, i + 1, new)
       ELSE LET j == KeyIndex(hh, new, 2 * oldcap, s[1])
            IN Rehash(hh, old, oldcap, i + 1, [new EXCEPT ![j + 1] = s])

Init ==
  /\ H \in HSpace
  /\ cap = InitCap /\ len = 0 /\ tab = EmptyTab(InitCap)
  /\ dict = EmptyDict /\ hang = FALSE /\ hist = <<>> /\ ret = <<>>

(* effect of mapput(h, k) followed by `*entry = a` (unless a = KEEP) as a record *)
PutResult(hh, t, c, n, k, a) ==
  LET grow == c \div 2 < n
      c1   == IF grow THEN 2 * c ELSE c
      t1   == IF grow THEN Rehash(hh, t, c, 0, EmptyTab(c1)) ELSE t
      i    == KeyIndex(hh, t1, c1, k)
  IN IF i = -1 THEN [hang |-> TRUE, cap |-> c1, len |-> n, tab |-> t1, ret |-> <<>>]
     ELSE LET fresh == t1[i + 1][1] = Empty
              old   == IF fresh THEN NULL ELSE t1[i + 1][2]
              v     == IF a = KEEP THEN old ELSE a
          IN [hang |-> FALSE, cap |-> c1, len |-> IF fresh THEN n + 1 ELSE n,
              tab |-> [t1 EXCEPT ![i + 1] = <<k, v>>], ret |-> <<old, i>>]

GetResult(hh, t, c, k) ==
  LET i == KeyIndex(hh, t, c, k)
  IN IF i = -1 THEN [hang |-> TRUE, ret |-> <<>>]
     ELSE [hang |-> FALSE, ret |-> <<IF t[i + 1][1] # Empty THEN t[i + 1][2] ELSE NULL>>]

(* mapfree(h, del): del(vals[i]) for every occupied slot in index order *)
FreeResult(t, c) == LET occ == SelectSeq(t, LAMBDA s : s[1] # Empty) IN [i \in 1..Len(occ) |-> occ[i][2]]

Bounded == MaxOps = 0 \/ Len(hist) < MaxOps

Put(k, a) ==
  /\ Bounded /\ ~hang
  /\ CapAfterPut(cap, len) <= CapMax
  /\ LET r == PutResult(H, tab, cap, len, k, a) IN
       /\ hang' = r.hang /\ cap' = r.cap /\ len' = r.len /\ tab' = r.tab /\ ret' = r.ret
       /\ hist' = Append(hist, [o |-> "p", k |-> k, a |-> a, r |-> r.ret])
  /\ dict' = DPut(dict, k, a)
  /\ UNCHANGED H

Get(k) ==
  /\ Bounded /\ ~hang
  /\ LET r == GetResult(H, tab, cap, k) IN
       /\ hang' = r.hang /\ ret' = r.ret
       /\ hist' = Append(hist, [o |-> "g", k |-> k, a |-> 0, r |-> r.ret])
  /\ UNCHANGED <<H, cap, len, tab, dict>>

Reset ==
  /\ AllowReset /\ Bounded /\ ~hang /\ len > 0
  /\ LET r == FreeResult(tab, cap) IN
       /\ ret' = r
       /\ hist' = Append(hist, [o |-> "f", k |-> 0, a |-> 0, r |-> r])
  /\ cap' = InitCap /\ len' = 0 /\ tab' = EmptyTab(InitCap) /\ dict' = EmptyDict
  /\ UNCHANGED <<H, hang>>

PutArgSet == PutVals \cup (IF AllowKeep THEN {KEEP} ELSE {})
PutArgSeq == SetToSortSeq(PutArgSet, LAMBDA x, y : x < y)
Next == (\E k \in Keys, a \in PutArgSet : Put(k, a)) \/ (\E k \in Keys : Get(k)) \/ Reset

Spec == Init /\ [][Next]_vars

(* ---------------------------------------------------------------------------- *)
(* Invariants: the table refines the dictionary.                                 *)
Occupied == {i \in 0..cap-1 : tab[i + 1][1] # Empty}
KeyAt(i) == tab[i + 1][1]
ValAt(i) == tab[i + 1][2]

Inv_Type == /\ IsPow2(cap) /\ cap >= InitCap /\ cap <= CapMax /\ Len(tab) = cap
            /\ \A i \in 0..cap-1 : KeyAt(i) \in Keys \cup {Empty}

(* probe terminates: a free slot always exists.  Holds for InitCap >= 4 (len <= cap/2+1 < cap).        *)
(* For InitCap \in {1,2} it is FALSE (MC_Map_cap2.cfg: two puts fill a 2-slot table, the next mapget of *)
(* an absent key never returns); the compiler only uses mapinit(8|32|64).                              *)
Inv_FreeSlot == ~hang /\ len < cap
Inv_Load == len <= cap \div 2 + 1
Inv_Len == len = DLen(dict) /\ len = Cardinality(Occupied)
Inv_NoDup == \A i, j \in Occupied : KeyAt(i) = KeyAt(j) => i = j
Inv_Dom == {KeyAt(i) : i \in Occupied} = DOMAIN dict
(* open-addressing invariant: no free slot between a key's home and its slot *)
Inv_Cluster == \A i \in Occupied :
  LET h0 == H[KeyAt(i)] % cap
      d  == (i - h0 + cap) % cap
  IN \A j \in 0..d : tab[((h0 + j) % cap) + 1][1] # Empty
(* forall k: Get(k) = dict[k], whatever H is *)
Inv_Get == ~hang => \A k \in Keys : GetResult(H, tab, cap, k).ret = <<DGet(dict, k)>>
(* the result of the last operation is the one the dictionary semantics gives: it does not depend on H *)
DeclRet(h) ==   \* declarative result of the last op of history h, from the dictionary before it
  LET RECURSIVE Run(_, _)
      Run(i, d) == IF i = Len(h) THEN d
                   ELSE LET e == h[i + 1] IN
                        Run(i + 1, IF e.o = "p" THEN DPut(d, e.k, e.a) ELSE IF e.o = "f" THEN EmptyDict ELSE d)
  IN Run(0, EmptyDict)
Inv_RetIndepOfH ==
  hist # <<>> /\ ~hang =>
    LET e == hist[Len(hist)]
        before == DeclRet(SubSeq(hist, 1, Len(hist) - 1))
    IN CASE e.o = "p" -> e.r[1] = DOld(before, e.k)
         [] e.o = "g" -> e.r = <<DGet(before, e.k)>>
         [] e.o = "f" -> \A v \in {NULL} \cup {x \in PutArgSet : x >= 0} :    \* same bag of values
                           Cardinality({i \in 1..Len(e.r) : e.r[i] = v}) = Cardinality({k \in DOMAIN before : before[k] = v})

(* ---------------------------------------------------------------------------- *)
(* Behaviour emission (flow A): every distinct state prints a history reaching   *)
(* it, its slot array, and the result + slot array of every operation from it.    *)
Flat(t) == [j \in 1..2 * Len(t) |-> t[(j + 1) \div 2][IF j % 2 = 1 THEN 1 ELSE 2]]

SuccPut(k, a) == LET r == PutResult(H, tab, cap, len, k, a)
                 IN [o |-> "p", k |-> k, a |-> a, r |-> r.ret, c |-> r.cap, n |-> r.len, s |-> Flat(r.tab)]
SuccGet(k) == [o |-> "g", k |-> k, a |-> 0, r |-> GetResult(H, tab, cap, k).ret, c |-> cap, n |-> len, s |-> Flat(tab)]
SuccFree == [o |-> "f", k |-> 0, a |-> 0, r |-> FreeResult(tab, cap), c |-> InitCap, n |-> 0, s |-> Flat(EmptyTab(InitCap))]

Succs ==
  LET np == Len(PutArgSeq)
      puts == IF CapAfterPut(cap, len) <= CapMax
              THEN [j \in 1..NKeys * np |-> SuccPut(((j - 1) \div np) + 1, PutArgSeq[((j - 1) % np) + 1])]
              ELSE <<>>
      gets == [k \in 1..NKeys |-> SuccGet(k)]
  IN puts \o gets \o (IF AllowReset /\ len > 0 THEN <<SuccFree>> ELSE <<>>)

Emit == PrintT("VCASE " \o ToJson([H |-> H, init |-> InitCap, hist |-> hist, c |-> cap, n |-> len, s |-> Flat(tab),
                                   succ |-> IF hang THEN <<>> ELSE Succs]))
Inv_Emit == Emit

View == <<H, cap, len, tab, hang>>
=============================================================================
