SPECIFICATION Spec
CONSTANTS
  Devs = {"StrEscapeTrunc"}
  Mode = "sim"
  Tier = "quick"
INVARIANTS Inv_Refines Inv_NoAbort Inv_Wf Inv_Emit
CHECK_DEADLOCK FALSE
