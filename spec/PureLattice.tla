---------------------------- MODULE PureLattice ----------------------------
(* Property C20.  The lattice of execution environments over which the output  *)
(* of cproc-qbe must be constant.  Constant-level module (no variables): used  *)
(* by PureEnv.tla (TLC enumerates covering sets / the full product and emits    *)
(* them as VCASE lines) and referenced by Pure.tla (the monitor never looks at  *)
(* an environment: that is the property).                                      *)
(*                                                                             *)
(* Every dimension is a sequence of symbolic values; harness/props/c20.py      *)
(* holds only the *rendering* of a symbolic value to a process set-up (which   *)
(* variable to export, which spelling of the path to pass ...), never the list  *)
(* of values or their combinations.                                            *)
EXTENDS Naturals, Sequences, FiniteSets, TLC, IOUtils

(* the second binary (self-built stage 2, property C02) is a dimension only    *)
(* when the coordinator has produced it; the harness says so via the process   *)
(* environment of TLC.                                                         *)
HasStage2 == ("C20_STAGE2" \in DOMAIN IOEnv) /\ (IOEnv.C20_STAGE2 = "1")

(* binaries whose map.c hash function is substituted (H11 hook, $CPROC_VERIF_HASH): *)
(* the whole compiler must produce the same bytes under any hash function -- the   *)
(* end-to-end counterpart of MapPure.tla's Inv_Lookup.  Part of the covering sets, *)
(* not of the full product.                                                      *)
HashBins == ("C20_HASHBINS" \in DOMAIN IOEnv) /\ (IOEnv.C20_HASHBINS = "1")

Dim(n, vs) == [name |-> n, vals |-> vs]

DimSpec == <<
  Dim("lc_all",  <<"unset", "C", "C.UTF-8", "POSIX", "xx_XX.UTF-8">>),   \* xx_XX: a locale that does not exist
  Dim("lang",    <<"unset", "de_DE.UTF-8">>),
  Dim("tz",      <<"unset", "Asia/Kathmandu">>),
  Dim("perturb", <<"0", "85", "170">>),                              \* MALLOC_PERTURB_
  Dim("malloc",  <<"default", "tcache0", "arena1_toppad_mmap">>),    \* allocator tunables
  Dim("aslr",    <<"on", "off">>),
  Dim("cwd",     <<"rel", "abs">>),                                  \* cwd = input dir + relative path | cwd = / + absolute path
  Dim("argv0",   <<"abs", "base", "alias">>),                        \* spelling of argv[0]
  Dim("inp",     <<"path", "stdin">>),
  Dim("out",     <<"stdout", "dash_o">>),
  Dim("extra",   <<"none", "noise">>),                               \* unrelated environment variables
  Dim("stack",   <<"keep", "unlimited">>),                           \* ulimit -s
  Dim("fds",     <<"std", "extra">>),                                \* additional open descriptors
  Dim("tool",    <<"native">>),
  Dim("bin",     (IF HasStage2 THEN <<"ref", "stage2">> ELSE <<"ref">>) \o
                 (IF HashBins THEN <<"hash_xor", "hash_const", "hash_low2">> ELSE << >>))
>>

(* the small lattice run under valgrind memcheck (slow: not part of the product) *)
VgSpec == <<
  Dim("lc_all",  <<"unset">>),
  Dim("lang",    <<"unset">>),
  Dim("tz",      <<"unset">>),
  Dim("perturb", <<"0">>),
  Dim("malloc",  <<"default">>),
  Dim("aslr",    <<"on">>),
  Dim("cwd",     <<"rel", "abs">>),
  Dim("argv0",   <<"abs">>),
  Dim("inp",     <<"path", "stdin">>),
  Dim("out",     <<"stdout", "dash_o">>),
  Dim("extra",   <<"none">>),
  Dim("stack",   <<"keep">>),
  Dim("fds",     <<"std">>),
  Dim("tool",    <<"memcheck">>),
  Dim("bin",     <<"ref">>)
>>

(* ---- generic operators over a lattice specification S ---------------------- *)
ND(S) == Len(S)
NV(S, d) == Len(S[d].vals)
Names(S) == {S[d].name : d \in 1..Len(S)}
IdxOf(S, n) == CHOOSE d \in 1..Len(S) : S[d].name = n

(* a row is a sequence of value indices, one per dimension *)
RECURSIVE Prod(_, _)
Prod(S, d) == IF d = 0 THEN {<< >>}
              ELSE {Append(p, v) : p \in Prod(S, d - 1), v \in 1..NV(S, d)}
AllRows(S) == Prod(S, ND(S))

EnvRec(S, row) == [n \in Names(S) |-> S[IdxOf(S, n)].vals[row[IdxOf(S, n)]]]

(* a pair = <<d1, v1, d2, v2>> with d1 < d2: "dimension d1 has value v1 and d2 has v2" *)
AllPairs(S) ==
  UNION {{<<d1, v1, d2, v2>> : v1 \in 1..NV(S, d1), v2 \in 1..NV(S, d2)} :
           <<d1, d2>> \in {q \in (1..ND(S)) \X (1..ND(S)) : q[1] < q[2]}}
PairsOfRow(S, row) == {<<d1, row[d1], d2, row[d2]>> :
                         <<d1, d2>> \in {q \in (1..ND(S)) \X (1..ND(S)) : q[1] < q[2]}}
Covers(row, p) == row[p[1]] = p[2] /\ row[p[3]] = p[4]
=============================================================================
