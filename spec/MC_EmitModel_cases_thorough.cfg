SPECIFICATION Spec
CONSTANTS
  Labels = {"a", "b"}
  MaxCalls = 5
  MaxBlocks = 19
  ApiLevel = FALSE
  Structured = FALSE
  DevUndefinedGoto = TRUE
  DevDuplicateLabel = TRUE
  EmitCases = TRUE
INVARIANTS Inv_EndIsPlaced Inv_Emit
CHECK_DEADLOCK FALSE
