SPECIFICATION Spec
CONSTANTS
  Labels = {"a", "b"}
  MaxCalls = 6
  MaxBlocks = 22
  ApiLevel = FALSE
  DevUndefinedGoto = TRUE
  DevDuplicateLabel = TRUE
  EmitCases = TRUE
INVARIANTS Inv_EndIsPlaced Inv_Emit
CHECK_DEADLOCK FALSE
