\* Compose: every fragment of the universe at every feasible position of three bases (plain void, loop+switch int, variadic)
SPECIFICATION Spec
CONSTANTS
  BaseIds = {"b01", "b08", "b15"}
  PosSet = {"file", "block", "nested", "macro"}
  Mode = {"compose"}
  Forms = {}
INVARIANTS TypeOK Inv_Claim
CHECK_DEADLOCK FALSE
