\* Compose restricted to the forms whose class depends on the base (statement context, return type, scopes, va_list), all 20 bases
SPECIFICATION Spec
CONSTANTS
  BaseIds = {"b01", "b02", "b03", "b04", "b05", "b06", "b07", "b08", "b09", "b10", "b11", "b12", "b13", "b14", "b15", "b16", "b17", "b18", "b19", "b20"}
  PosSet = {"file", "block", "nested", "macro"}
  Mode = {"compose"}
  Forms = {"stmt", "redecl", "vaarg", "builtin"}
INVARIANTS TypeOK Inv_Claim
CHECK_DEADLOCK FALSE
