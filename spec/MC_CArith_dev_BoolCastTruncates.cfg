\* generated by hand-written template (see harness/props/c04.notes.md); deviations on = BoolCastTruncates
SPECIFICATION Spec
CONSTANTS
  Real = FALSE
  CharSigned = TRUE
  Families = {"cast"}
  Level = 1
  Dev_LogicalReturnsOperand = FALSE
  Dev_BoolCastTruncates = TRUE
  Dev_FloatToUnsignedRejectsNeg = FALSE
  Dev_FloatCondNotFolded = FALSE
  Dev_UnevaluatedOperandFolded = FALSE
  Dev_NoDivisionGuard = FALSE
  Dev_CondSameTypeNoPromotion = FALSE
INVARIANTS Inv_Refines
CHECK_DEADLOCK FALSE
