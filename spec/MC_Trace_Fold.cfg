\* flow B: deviations on = what the current eval.c does (turn one off after its fix: commit)
SPECIFICATION Spec
CONSTANTS
  Real = TRUE
  CharSigned = TRUE
  Dev_LogicalReturnsOperand = TRUE
  Dev_BoolCastTruncates = TRUE
  Dev_FloatToUnsignedRejectsNeg = TRUE
  Dev_FloatCondNotFolded = TRUE
  Dev_UnevaluatedOperandFolded = TRUE
  Dev_NoDivisionGuard = TRUE
  Dev_CondSameTypeNoPromotion = TRUE
  Dev_BareAddressMinusRejected = TRUE
INVARIANTS Inv_Judge
CHECK_DEADLOCK FALSE
