\* flow B: all deviations off: every defect has its fix: commit (harness/props/c04.py FIXED)
SPECIFICATION Spec
CONSTANTS
  Real = TRUE
  CharSigned = TRUE
  Dev_LogicalReturnsOperand = FALSE
  Dev_BoolCastTruncates = FALSE
  Dev_FloatToUnsignedRejectsNeg = FALSE
  Dev_FloatCondNotFolded = FALSE
  Dev_UnevaluatedOperandFolded = FALSE
  Dev_NoDivisionGuard = FALSE
  Dev_CondSameTypeNoPromotion = FALSE
  Dev_BareAddressMinusRejected = FALSE
  Dev_SwapReassocClobbers = FALSE
INVARIANTS Inv_Judge
CHECK_DEADLOCK FALSE
