SPECIFICATION Spec
CONSTANTS
  Chunks <- NumChunks
  MaxLen = 5
  MinLen = 0
  Variants = {"plain", "splice"}
  VarLen = 3
  Mode = "alpha"
  PerturbChars = {}
  Devs = {"NoDigraphs", "NoUCNIdent", "NoUCNEscape"}
  Emit = TRUE
INVARIANTS Inv_Fired Inv_Emit
CHECK_DEADLOCK FALSE
