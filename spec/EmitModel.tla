----------------------------- MODULE EmitModel -----------------------------
(* Property C03, design level: the block / jump bookkeeping of /repo/qbe.c     *)
(* (mkblock, funclabel, funcjmp, funcjnz, funcret, funchlt, funcinst's dead-   *)
(* block rule, funcgoto's label table, emitfunc's implicit return and its walk *)
(* of the ->next chain) as an action system driven by an arbitrary bounded     *)
(* sequence of front-end calls.                                                *)
(*                                                                             *)
(* The operators below are a transcription of the C functions on a record `s`  *)
(* holding the heap of blocks; one TLA+ operator per C function, composed by   *)
(* the actions exactly in the order stmt.c composes them.                      *)
(*                                                                             *)
(* Front-end contract (what stmt.c/expr code guarantees and C11 6.8.1p3 /      *)
(* 6.8.6.1p1 demand of the program):                                            *)
(*   K1  a block is passed to funclabel at most once;                           *)
(*   K2  every block created for a structured statement is placed before       *)
(*       emitfunc;                                                              *)
(*   K3  every label named by a goto is defined in the function;               *)
(*   K4  a label is defined at most once.                                      *)
(* K3 and K4 are constraints on the *program*; the compiler has to diagnose    *)
(* their violation (then nothing is emitted with status 0).  The code as      *)
(* found did not: gotolabel.defined was written but never read (repaired by    *)
(* the fix: commits bebf93d and f515711 after this model reported it).  The    *)
(* two missing diagnostics are the NAMED deviations                            *)
(*   DevUndefinedGoto   - emitfunc is reached although a goto label is not     *)
(*                        defined  (`void f(void){ goto l; }`)                  *)
(*   DevDuplicateLabel  - funclabel is called again for a label that is        *)
(*                        already placed (`l: ...; l: ...;`)                    *)
(* With both deviations off TLC proves the invariants for every call sequence  *)
(* within the bounds; with a deviation on it finds the malformed functions,    *)
(* which the harness renders to C and replays into the real binary.            *)
EXTENDS Naturals, Integers, Sequences, FiniteSets, TLC, Json

CONSTANTS Labels,             \* goto label names
          MaxCalls,           \* bound on the number of front-end calls
          MaxBlocks,          \* bound on the number of blocks
          ApiLevel,           \* TRUE: raw API calls (mkblock/funclabel/funcjmp/funcjnz with arbitrary blocks) are enabled
          Structured,         \* TRUE: the structured statements of stmt.c (if/else, while, do, for, switch, break, continue)
          DevUndefinedGoto,
          DevDuplicateLabel,
          EmitCases           \* TRUE: print every finished behaviour as a VCASE (flow A)

VARIABLES s,       \* the heap: [blk, nxt, end, made, placed, gotos, defined, relabel] + stk, the open statements of the parser
          hist,    \* the calls made so far
          phase    \* "build" | "emitted"
vars == <<s, hist, phase>>

NoJump == [jump |-> "none", tgt |-> <<>>, ninst |-> 0]

(* ------------------------------------------------------------------------ *)
(* qbe.c                                                                     *)
NewId(h) == Len(h.blk) + 1

mkblock(h) ==                       \* b->jump.kind = JUMP_NONE; b->next = NULL
  [h EXCEPT !.blk = Append(@, NoJump), !.nxt = Append(@, 0), !.made = @ \cup {NewId(h)}]

funclabel(h, b) ==                  \* f->end->next = b; f->end = b;     (b->next is left as it is)
  [h EXCEPT !.nxt[h.end] = b, !.end = b, !.placed = @ \cup {b}, !.relabel = @ \/ (b \in h.placed)]

SetJump(h, k, tg) == [h EXCEPT !.blk[h.end] = [jump |-> k, tgt |-> tg, ninst |-> @.ninst]]

funcjmp(h, b)      == IF h.blk[h.end].jump = "none" THEN SetJump(h, "jmp", <<b>>) ELSE h
funcjnz(h, b1, b2) == IF h.blk[h.end].jump = "none" THEN SetJump(h, "jnz", <<b1, b2>>) ELSE h
funcret(h)         == IF h.blk[h.end].jump = "none" THEN SetJump(h, "ret", <<>>) ELSE h
funchlt(h)         == IF h.blk[h.end].jump = "none" THEN SetJump(h, "hlt", <<>>) ELSE h

funcinst(h) ==                      \* if (f->end->jump.kind) { b = mkblock("dead"); funclabel(f, b); }
  LET h1 == IF h.blk[h.end].jump # "none" THEN funclabel(mkblock(h), NewId(h)) ELSE h
  IN [h1 EXCEPT !.blk[h1.end].ninst = @ + 1]

funcgoto(h, l) ==                   \* mapput(&f->gotos, name); if (!g) g->label = mkblock(name)
  IF l \in DOMAIN h.gotos THEN h ELSE [mkblock(h) EXCEPT !.gotos = @ @@ (l :> NewId(h))]

(* mkfunc: f->start = f->end = mkblock("start"); ...; funclabel(f, mkblock("body")) *)
Heap0 ==
  LET h0 == [blk |-> <<NoJump>>, nxt |-> <<0>>, end |-> 1, made |-> {1}, placed |-> {1},
             gotos |-> <<>>, defined |-> {}, relabel |-> FALSE, stk |-> <<>>]
  IN funclabel(mkblock(h0), 2)

(* emitfunc: implicit return, then for (b = f->start; b; b = b->next) *)
RECURSIVE Chain(_, _, _)
Chain(h, b, fuel) ==
  IF b = 0 THEN <<>>
  ELSE IF fuel = 0 THEN <<-1>>                 \* the walk does not end: emitfunc prints for ever
  ELSE <<b>> \o Chain(h, h.nxt[b], fuel - 1)
Emitted(h) == Chain(h, 1, Len(h.blk) + 1)
EmSet(h) == {Emitted(h)[i] : i \in DOMAIN Emitted(h)}

(* ------------------------------------------------------------------------ *)
(* stmt.c: the statement forms that only use the calls above                 *)
GotoBlocks(h) == {h.gotos[l] : l \in DOMAIN h.gotos}

StInst   == funcinst(s)                                   \* x = 1;
StRet    == funcret(s)                                    \* return;
StHlt    == funchlt(funcinst(s))                          \* die();   (call of a _Noreturn function)
StGoto(l) == LET h == funcgoto(s, l) IN funcjmp(h, h.gotos[l])            \* goto l;
StLabel(l) ==                                                              \* l:
  LET h == funcgoto(s, l) IN funclabel([h EXCEPT !.defined = @ \cup {l}], h.gotos[l])
StIfGoto(l) ==                                                             \* if (x) goto l;
  LET h1 == funcinst(s)                      \* load of x
      t  == NewId(h1)
      h2 == mkblock(mkblock(h1))             \* if_true = t, if_false = t + 1
      h3 == funclabel(funcjnz(h2, t, t + 1), t)
      h4 == funcgoto(h3, l)
      h5 == funcjmp(h4, h4.gotos[l])
  IN funclabel(h5, t + 1)

(* ------------------------------------------------------------------------ *)
(* stmt.c: structured statements.  stk is the recursion of stmt(): one entry *)
(* per open statement with the blocks it still has to place:                 *)
(*   a = continue target / else-or-join block / case block of a switch       *)
(*   b = break target, c = loop body or condition block, d = default block   *)
Ent(k, a, b, c, d) == [k |-> k, a |-> a, b |-> b, c |-> c, d |-> d]
Top(h)     == h.stk[Len(h.stk)]
Push(h, e) == [h EXCEPT !.stk = Append(@, e)]
Pop(h)     == [h EXCEPT !.stk = SubSeq(@, 1, Len(@) - 1)]
Innermost(h, kinds) == LET js == {j \in DOMAIN h.stk : h.stk[j].k \in kinds} IN IF js = {} THEN 0 ELSE CHOOSE j \in js : \A i \in js : i <= j
Loops == {"while", "do", "for"}

OpenIf ==                                   \* if (x) {
  LET h1 == funcinst(s)
      t  == NewId(h1)
      h2 == mkblock(mkblock(h1))            \* if_true = t, if_false = t + 1
  IN Push(funclabel(funcjnz(h2, t, t + 1), t), Ent("if", t + 1, 0, 0, 0))
ElseOf ==                                   \* } else {
  LET j  == NewId(s)
      h1 == funclabel(funcjmp(mkblock(s), j), Top(s).a)     \* if_join = j; funcjmp(join); funclabel(if_false)
  IN Push(Pop(h1), Ent("else", j, 0, 0, 0))
OpenWhile ==                                \* while (x) {
  LET c  == NewId(s)                        \* while_cond = c, while_body = c + 1, while_join = c + 2
      h1 == funcinst(funclabel(mkblock(mkblock(mkblock(s))), c))
  IN Push(funclabel(funcjnz(h1, c + 1, c + 2), c + 1), Ent("while", c, c + 2, 0, 0))
OpenDo ==                                   \* do {
  LET c == NewId(s)                         \* do_body = c, do_cond = c + 1, do_join = c + 2
  IN Push(funclabel(mkblock(mkblock(mkblock(s))), c), Ent("do", c + 1, c + 2, c, 0))
OpenFor(withcond) ==                        \* for (;x;) {   /   for (;;) {
  LET c  == NewId(s)                        \* for_cond = c, for_body = c + 1, for_cont = c + 2, for_join = c + 3
      h1 == funclabel(mkblock(mkblock(mkblock(mkblock(s)))), c)
      h2 == IF withcond THEN funcjnz(funcinst(h1), c + 1, c + 3) ELSE h1
  IN Push(funclabel(h2, c + 1), Ent("for", c + 2, c + 3, c, 0))
OpenSwitch ==                               \* switch (x) {
  LET c  == NewId(s)                        \* switch_cond = c, switch_join = c + 1
      h1 == funcinst(mkblock(mkblock(s)))   \* v = funcexpr(e) after the two mkblock calls
  IN Push(funcjmp(h1, c), Ent("switch", 0, c + 1, c, 0))
CaseOf(i) ==                                \* case 1:
  LET b == NewId(s) IN [funclabel(mkblock(s), b) EXCEPT !.stk[i].a = b]
DefaultOf(i) ==                             \* default:
  LET b == NewId(s) IN [funclabel(mkblock(s), b) EXCEPT !.stk[i].d = b]
casesearch(h, e) ==                         \* funcswitch: one comparison ladder for the single case, else jump to default
  LET deflt == IF e.d # 0 THEN e.d ELSE e.b
  IN IF e.a = 0 THEN funcjmp(h, deflt)
     ELSE LET n  == NewId(h)                \* switch_ne = n, switch_lt = n + 1, switch_gt = n + 2
              h1 == funclabel(funcjnz(funcinst(mkblock(mkblock(mkblock(h)))), e.a, n), n)
              h2 == funclabel(funcjnz(funcinst(h1), n + 1, n + 2), n + 1)
          IN funcjmp(funclabel(funcjmp(h2, deflt), n + 2), deflt)
CloseOf ==                                  \* }      (} while (x); for do)
  LET e == Top(s)
      h == Pop(s)
  IN CASE e.k = "if"     -> funclabel(h, e.a)
       [] e.k = "else"   -> funclabel(h, e.a)
       [] e.k = "while"  -> funclabel(funcjmp(h, e.a), e.b)
       [] e.k = "do"     -> funclabel(funcjnz(funcinst(funclabel(h, e.a)), e.c, e.b), e.b)
       [] e.k = "for"    -> funclabel(funcjmp(funclabel(h, e.a), e.c), e.b)
       [] e.k = "switch" -> funclabel(casesearch(funclabel(funcjmp(h, e.b), e.c), e), e.b)

Fits(h) == Len(h.blk) <= MaxBlocks

Call(name, arg, h) ==
  /\ phase = "build"
  /\ Len(hist) < MaxCalls
  /\ Fits(h)
  /\ s' = h
  /\ hist' = Append(hist, <<name, arg>>)
  /\ UNCHANGED phase

Stmt ==
  \/ Call("inst", "", StInst)
  \/ Call("ret", "", StRet)
  \/ Call("hlt", "", StHlt)
  \/ \E l \in Labels : Call("goto", l, StGoto(l))
  \/ \E l \in Labels : (DevDuplicateLabel \/ l \notin s.defined) /\ Call("label", l, StLabel(l))
  \/ \E l \in Labels : Call("ifgoto", l, StIfGoto(l))

Struct ==
  /\ Structured
  /\ \/ Call("if", "", OpenIf)
     \/ s.stk # <<>> /\ Top(s).k = "if" /\ Call("else", "", ElseOf)
     \/ Call("while", "", OpenWhile)
     \/ Call("do", "", OpenDo)
     \/ \E c \in BOOLEAN : Call("for", IF c THEN "x" ELSE "", OpenFor(c))
     \/ Call("switch", "", OpenSwitch)
     \/ LET i == Innermost(s, {"switch"}) IN i # 0 /\ s.stk[i].a = 0 /\ Call("case", "", CaseOf(i))
     \/ LET i == Innermost(s, {"switch"}) IN i # 0 /\ s.stk[i].d = 0 /\ Call("default", "", DefaultOf(i))
     \/ LET i == Innermost(s, Loops \cup {"switch"}) IN i # 0 /\ Call("break", "", funcjmp(s, s.stk[i].b))
     \/ LET i == Innermost(s, Loops) IN i # 0 /\ Call("continue", "", funcjmp(s, s.stk[i].a))
     \/ s.stk # <<>> /\ Call("close", Top(s).k, CloseOf)

(* raw API calls with arbitrary (created) blocks: the structured statements of stmt.c are particular *)
(* sequences of these, so an invariant proved here holds for all of them                             *)
Api ==
  /\ ApiLevel
  /\ \/ Call("mkblock", "", mkblock(s))
     \/ \E b \in (s.made \ s.placed) \ GotoBlocks(s) : Call("funclabel", ToString(b), funclabel(s, b))     \* K1
     \/ \E b \in s.made : Call("funcjmp", ToString(b), funcjmp(s, b))
     \/ \E b1, b2 \in s.made : Call("funcjnz", ToString(b1) \o "," \o ToString(b2), funcjnz(s, b1, b2))

EmitFunc ==
  /\ phase = "build"
  /\ s.stk = <<>>                                                      \* the parser is back at the function body
  /\ (s.made \ s.placed) \subseteq GotoBlocks(s)                        \* K2
  /\ DevUndefinedGoto \/ DOMAIN s.gotos \subseteq s.defined              \* K3
  /\ s' = funcret(s)                                                    \* if (f->end->jump.kind == JUMP_NONE) funcret(f, v)
  /\ phase' = "emitted"
  /\ UNCHANGED hist

Init == s = Heap0 /\ hist = <<>> /\ phase = "build"
Next == Stmt \/ Struct \/ Api \/ EmitFunc
Spec == Init /\ [][Next]_vars

(* ------------------------------------------------------------------------ *)
(* Obligations on the emitted function (the QbeWF names)                     *)
Done == phase = "emitted"
E_Terminates          == -1 \notin EmSet(s)
E_BlocksTerminated    == LET e == Emitted(s) IN e[Len(e)] = -1 \/ s.blk[e[Len(e)]].jump # "none"
E_JumpsTargetExisting == \A b \in EmSet(s) \ {-1} : \A i \in DOMAIN s.blk[b].tgt : s.blk[b].tgt[i] \in EmSet(s)
E_LabelsUnique        == Cardinality(EmSet(s)) = Len(Emitted(s))
E_NothingLost         == s.placed \subseteq EmSet(s)

Inv_Terminates          == Done => E_Terminates
Inv_BlocksTerminated    == Done => E_BlocksTerminated
Inv_JumpsTargetExisting == Done => E_JumpsTargetExisting
Inv_LabelsUnique        == Done => E_LabelsUnique
Inv_NothingLost         == Done => E_NothingLost
(* while building: exactly the last placed block may still be open, all earlier ones either have a *)
(* jump or fall through into a placed block                                                         *)
Inv_EndIsPlaced == s.end \in s.placed /\ (s.relabel \/ s.nxt[s.end] = 0)

(* ------------------------------------------------------------------------ *)
(* Flow A: every finished behaviour with what the model says the output is   *)
Failing ==
  (IF E_Terminates THEN {} ELSE {"EmitTerminates"})
  \cup (IF E_BlocksTerminated THEN {} ELSE {"BlocksTerminated"})
  \cup (IF E_JumpsTargetExisting THEN {} ELSE {"JumpsTargetExisting"})
  \cup (IF E_LabelsUnique THEN {} ELSE {"LabelsUnique"})
  \cup (IF E_NothingLost THEN {} ELSE {"NothingLost"})
Skeleton == [i \in DOMAIN Emitted(s) |->
               LET b == Emitted(s)[i]
               IN IF b = -1 THEN [id |-> -1, jump |-> "", tgt |-> <<>>, ninst |-> 0]
                  ELSE [id |-> b, jump |-> s.blk[b].jump, tgt |-> s.blk[b].tgt, ninst |-> s.blk[b].ninst]]
Case ==
  [hist |-> hist, blocks |-> Skeleton, failing |-> Failing,
   dev |-> (IF DOMAIN s.gotos \subseteq s.defined THEN {} ELSE {"DevUndefinedGoto"})
           \cup (IF s.relabel THEN {"DevDuplicateLabel"} ELSE {}),
   labels |-> [l \in DOMAIN s.gotos |-> s.gotos[l]]]
Inv_Emit == (EmitCases /\ Done) => PrintT("VCASE " \o ToJson(Case))

(* design-level runs do not need the history: the heap determines the future *)
ViewNoHist == <<s, phase, Len(hist)>>
=============================================================================
