----------------------------- MODULE EmitModel -----------------------------
(* Property C03, design level: the block / jump bookkeeping of /repo/qbe.c     *)
(* (mkblock, funclabel, funcjmp, funcjnz, funcret, funchlt, funcinst's dead-   *)
(* block rule, funcgoto's label table, emitfunc's implicit return and its walk *)
(* of the ->next chain) as an action system driven by an arbitrary bounded     *)
(* sequence of front-end calls.                                                *)
(*                                                                             *)
(* The operators below are a transcription of the C functions on a record `s`  *)
(* holding the heap of blocks; one TLA+ operator per C function, composed by   *)
(* the actions exactly in the order stmt.c composes them.                      *)
(*                                                                             *)
(* Front-end contract (what stmt.c/expr code guarantees and C11 6.8.1p3 /      *)
(* 6.8.6.1p1 demand of the program):                                            *)
(*   K1  a block is passed to funclabel at most once;                           *)
(*   K2  every block created for a structured statement is placed before       *)
(*       emitfunc;                                                              *)
(*   K3  every label named by a goto is defined in the function;               *)
(*   K4  a label is defined at most once.                                      *)
(* K3 and K4 are constraints on the *program*; the compiler has to diagnose    *)
(* their violation (then nothing is emitted with status 0).  The current code  *)
(* does not: gotolabel.defined is written but never read.  The two missing     *)
(* diagnostics are the NAMED deviations                                        *)
(*   DevUndefinedGoto   - emitfunc is reached although a goto label is not     *)
(*                        defined  (`void f(void){ goto l; }`)                  *)
(*   DevDuplicateLabel  - funclabel is called again for a label that is        *)
(*                        already placed (`l: ...; l: ...;`)                    *)
(* With both deviations off TLC proves the invariants for every call sequence  *)
(* within the bounds; with a deviation on it finds the malformed functions,    *)
(* which the harness renders to C and replays into the real binary.            *)
EXTENDS Naturals, Integers, Sequences, FiniteSets, TLC, Json

CONSTANTS Labels,             \* goto label names
          MaxCalls,           \* bound on the number of front-end calls
          MaxBlocks,          \* bound on the number of blocks
          ApiLevel,           \* TRUE: raw API calls (mkblock/funclabel/funcjmp/funcjnz with arbitrary blocks) are enabled
          DevUndefinedGoto,
          DevDuplicateLabel,
          EmitCases           \* TRUE: print every finished behaviour as a VCASE (flow A)

VARIABLES s,       \* the heap: [blk, nxt, end, made, placed, gotos, defined, relabel]
          hist,    \* the calls made so far
          phase    \* "build" | "emitted"
vars == <<s, hist, phase>>

NoJump == [jump |-> "none", tgt |-> <<>>, ninst |-> 0]

(* ------------------------------------------------------------------------ *)
(* qbe.c                                                                     *)
NewId(h) == Len(h.blk) + 1

mkblock(h) ==                       \* b->jump.kind = JUMP_NONE; b->next = NULL
  [h EXCEPT !.blk = Append(@, NoJump), !.nxt = Append(@, 0), !.made = @ \cup {NewId(h)}]

funclabel(h, b) ==                  \* f->end->next = b; f->end = b;     (b->next is left as it is)
  [h EXCEPT !.nxt[h.end] = b, !.end = b, !.placed = @ \cup {b}, !.relabel = @ \/ (b \in h.placed)]

SetJump(h, k, tg) == [h EXCEPT !.blk[h.end] = [jump |-> k, tgt |-> tg, ninst |-> @.ninst]]

funcjmp(h, b)      == IF h.blk[h.end].jump = "none" THEN SetJump(h, "jmp", <<b>>) ELSE h
funcjnz(h, b1, b2) == IF h.blk[h.end].jump = "none" THEN SetJump(h, "jnz", <<b1, b2>>) ELSE h
funcret(h)         == IF h.blk[h.end].jump = "none" THEN SetJump(h, "ret", <<>>) ELSE h
funchlt(h)         == IF h.blk[h.end].jump = "none" THEN SetJump(h, "hlt", <<>>) ELSE h

funcinst(h) ==                      \* if (f->end->jump.kind) { b = mkblock("dead"); funclabel(f, b); }
  LET h1 == IF h.blk[h.end].jump # "none" THEN funclabel(mkblock(h), NewId(h)) ELSE h
  IN [h1 EXCEPT !.blk[h1.end].ninst = @ + 1]

funcgoto(h, l) ==                   \* mapput(&f->gotos, name); if (!g) g->label = mkblock(name)
  IF l \in DOMAIN h.gotos THEN h ELSE [mkblock(h) EXCEPT !.gotos = @ @@ (l :> NewId(h))]

(* mkfunc: f->start = f->end = mkblock("start"); ...; funclabel(f, mkblock("body")) *)
Heap0 ==
  LET h0 == [blk |-> <<NoJump>>, nxt |-> <<0>>, end |-> 1, made |-> {1}, placed |-> {1},
             gotos |-> <<>>, defined |-> {}, relabel |-> FALSE]
  IN funclabel(mkblock(h0), 2)

(* emitfunc: implicit return, then for (b = f->start; b; b = b->next) *)
RECURSIVE Chain(_, _, _)
Chain(h, b, fuel) ==
  IF b = 0 THEN <<>>
  ELSE IF fuel = 0 THEN <<-1>>                 \* the walk does not end: emitfunc prints for ever
  ELSE <<b>> \o Chain(h, h.nxt[b], fuel - 1)
Emitted(h) == Chain(h, 1, Len(h.blk) + 1)
EmSet(h) == {Emitted(h)[i] : i \in DOMAIN Emitted(h)}

(* ------------------------------------------------------------------------ *)
(* stmt.c: the statement forms that only use the calls above                 *)
GotoBlocks(h) == {h.gotos[l] : l \in DOMAIN h.gotos}

StInst   == funcinst(s)                                   \* x = 1;
StRet    == funcret(s)                                    \* return;
StHlt    == funchlt(funcinst(s))                          \* die();   (call of a _Noreturn function)
StGoto(l) == LET h == funcgoto(s, l) IN funcjmp(h, h.gotos[l])            \* goto l;
StLabel(l) ==                                                              \* l:
  LET h == funcgoto(s, l) IN funclabel([h EXCEPT !.defined = @ \cup {l}], h.gotos[l])
StIfGoto(l) ==                                                             \* if (x) goto l;
  LET h1 == funcinst(s)                      \* load of x
      t  == NewId(h1)
      h2 == mkblock(mkblock(h1))             \* if_true = t, if_false = t + 1
      h3 == funclabel(funcjnz(h2, t, t + 1), t)
      h4 == funcgoto(h3, l)
      h5 == funcjmp(h4, h4.gotos[l])
  IN funclabel(h5, t + 1)

Fits(h) == Len(h.blk) <= MaxBlocks

Call(name, arg, h) ==
  /\ phase = "build"
  /\ Len(hist) < MaxCalls
  /\ Fits(h)
  /\ s' = h
  /\ hist' = Append(hist, <<name, arg>>)
  /\ UNCHANGED phase

Stmt ==
  \/ Call("inst", "", StInst)
  \/ Call("ret", "", StRet)
  \/ Call("hlt", "", StHlt)
  \/ \E l \in Labels : Call("goto", l, StGoto(l))
  \/ \E l \in Labels : (DevDuplicateLabel \/ l \notin s.defined) /\ Call("label", l, StLabel(l))
  \/ \E l \in Labels : Call("ifgoto", l, StIfGoto(l))

(* raw API calls with arbitrary (created) blocks: the structured statements of stmt.c are particular *)
(* sequences of these, so an invariant proved here holds for all of them                             *)
Api ==
  /\ ApiLevel
  /\ \/ Call("mkblock", "", mkblock(s))
     \/ \E b \in (s.made \ s.placed) \ GotoBlocks(s) : Call("funclabel", ToString(b), funclabel(s, b))     \* K1
     \/ \E b \in s.made : Call("funcjmp", ToString(b), funcjmp(s, b))
     \/ \E b1, b2 \in s.made : Call("funcjnz", ToString(b1) \o "," \o ToString(b2), funcjnz(s, b1, b2))

EmitFunc ==
  /\ phase = "build"
  /\ (s.made \ s.placed) \subseteq GotoBlocks(s)                        \* K2
  /\ DevUndefinedGoto \/ DOMAIN s.gotos \subseteq s.defined              \* K3
  /\ s' = funcret(s)                                                    \* if (f->end->jump.kind == JUMP_NONE) funcret(f, v)
  /\ phase' = "emitted"
  /\ UNCHANGED hist

Init == s = Heap0 /\ hist = <<>> /\ phase = "build"
Next == Stmt \/ Api \/ EmitFunc
Spec == Init /\ [][Next]_vars

(* ------------------------------------------------------------------------ *)
(* Obligations on the emitted function (the QbeWF names)                     *)
Done == phase = "emitted"
E_Terminates          == -1 \notin EmSet(s)
E_BlocksTerminated    == LET e == Emitted(s) IN e[Len(e)] = -1 \/ s.blk[e[Len(e)]].jump # "none"
E_JumpsTargetExisting == \A b \in EmSet(s) \ {-1} : \A i \in DOMAIN s.blk[b].tgt : s.blk[b].tgt[i] \in EmSet(s)
E_LabelsUnique        == Cardinality(EmSet(s)) = Len(Emitted(s))
E_NothingLost         == s.placed \subseteq EmSet(s)

Inv_Terminates          == Done => E_Terminates
Inv_BlocksTerminated    == Done => E_BlocksTerminated
Inv_JumpsTargetExisting == Done => E_JumpsTargetExisting
Inv_LabelsUnique        == Done => E_LabelsUnique
Inv_NothingLost         == Done => E_NothingLost
(* while building: exactly the last placed block may still be open, all earlier ones either have a *)
(* jump or fall through into a placed block                                                         *)
Inv_EndIsPlaced == s.end \in s.placed /\ (s.relabel \/ s.nxt[s.end] = 0)

(* ------------------------------------------------------------------------ *)
(* Flow A: every finished behaviour with what the model says the output is   *)
Failing ==
  (IF E_Terminates THEN {} ELSE {"EmitTerminates"})
  \cup (IF E_BlocksTerminated THEN {} ELSE {"BlocksTerminated"})
  \cup (IF E_JumpsTargetExisting THEN {} ELSE {"JumpsTargetExisting"})
  \cup (IF E_LabelsUnique THEN {} ELSE {"LabelsUnique"})
  \cup (IF E_NothingLost THEN {} ELSE {"NothingLost"})
Skeleton == [i \in DOMAIN Emitted(s) |->
               LET b == Emitted(s)[i]
               IN IF b = -1 THEN [id |-> -1, jump |-> "", tgt |-> <<>>, ninst |-> 0]
                  ELSE [id |-> b, jump |-> s.blk[b].jump, tgt |-> s.blk[b].tgt, ninst |-> s.blk[b].ninst]]
Case ==
  [hist |-> hist, blocks |-> Skeleton, failing |-> Failing,
   dev |-> (IF DOMAIN s.gotos \subseteq s.defined THEN {} ELSE {"DevUndefinedGoto"})
           \cup (IF s.relabel THEN {"DevDuplicateLabel"} ELSE {}),
   labels |-> [l \in DOMAIN s.gotos |-> s.gotos[l]]]
Inv_Emit == (EmitCases /\ Done) => PrintT("VCASE " \o ToJson(Case))

(* design-level runs do not need the history: the heap determines the future *)
ViewNoHist == <<s, phase, Len(hist)>>
=============================================================================
