\* deviations on = UnevaluatedOperandFolded, NoDivisionGuard   (template: harness/props/c04.notes.md)
SPECIFICATION Spec
CONSTANTS
  Real = FALSE
  CharSigned = TRUE
  Families = {"unev"}
  Level = 1
  Dev_LogicalReturnsOperand = FALSE
  Dev_BoolCastTruncates = FALSE
  Dev_FloatToUnsignedRejectsNeg = FALSE
  Dev_FloatCondNotFolded = FALSE
  Dev_UnevaluatedOperandFolded = TRUE
  Dev_NoDivisionGuard = TRUE
  Dev_CondSameTypeNoPromotion = FALSE
  Dev_BareAddressMinusRejected = FALSE
  Dev_SwapReassocClobbers = FALSE
INVARIANTS Inv_Refines
CHECK_DEADLOCK FALSE
