\* generated by hand-written template (see harness/props/c04.notes.md); deviations on = UnevaluatedOperandFolded, NoDivisionGuard
SPECIFICATION Spec
CONSTANTS
  Real = FALSE
  CharSigned = TRUE
  Families = {"unev"}
  Level = 1
  Dev_LogicalReturnsOperand = FALSE
  Dev_BoolCastTruncates = FALSE
  Dev_FloatToUnsignedRejectsNeg = FALSE
  Dev_FloatCondNotFolded = FALSE
  Dev_UnevaluatedOperandFolded = TRUE
  Dev_NoDivisionGuard = TRUE
  Dev_CondSameTypeNoPromotion = FALSE
INVARIANTS Inv_Refines
CHECK_DEADLOCK FALSE
