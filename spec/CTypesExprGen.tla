--------------------------- MODULE CTypesExprGen ---------------------------
(* Random nested expressions for C05 (run with -simulate).  A behaviour builds *)
(* a pool of expression nodes bottom-up; every step appends one node whose     *)
(* operands are leaves (declared objects, bit-field members, functions,        *)
(* constants) or earlier nodes.  Each node carries                             *)
(*   e  - its C text (fully parenthesised),                                    *)
(*   x  - the descriptor CTypes (C11) assigns: recursive TypeOf, computed by   *)
(*        structural induction as the node is built,                           *)
(*   m  - the descriptor the model of the shipped code assigns (TypeModel with *)
(*        D = Devs), bfn = cproc's node is still an EXPRBITFIELD,              *)
(*   devs - deviations that fired anywhere below.                              *)
(* Only valid expressions are generated (x.t # Err).  Every new node is        *)
(* printed as a VCASE with the probes props/c05.py has to render and the       *)
(* answers required by C11 (`want`) and predicted for the shipped code (`alt`). *)
EXTENDS TypeModel, Json, SequencesExt, Randomization

CONSTANTS TargetSet, MaxDepth, Devs, Emit

VARIABLES targ, pool
vars == <<targ, pool>>

SS == St("SS")
Members ==     \* struct SS { ... } : name, declared type, bit-field width
  <<[n |-> "m", t |-> B("int"), w |-> 0], [n |-> "cm", t |-> Qual(B("int"), {"const"}), w |-> 0],
    [n |-> "vm", t |-> Qual(B("short"), {"volatile"}), w |-> 0], [n |-> "arr", t |-> Arr(B("char"), 3), w |-> 0],
    [n |-> "p", t |-> Ptr(B("int")), w |-> 0], [n |-> "cp", t |-> Qual(Ptr(Qual(B("char"), {"const"})), {"const"}), w |-> 0],
    [n |-> "bf", t |-> B("uint"), w |-> 5], [n |-> "sbf", t |-> B("int"), w |-> 5], [n |-> "lbf", t |-> B("ulong"), w |-> 40],
    [n |-> "e", t |-> En("eu"), w |-> 0], [n |-> "d", t |-> B("double"), w |-> 0], [n |-> "uc", t |-> B("uchar"), w |-> 0]>>

FnII == Fn(B("int"), <<B("int")>>, FALSE)
(* leaves: name (C text), type, width, lvalue, null pointer constant *)
Lf(n, t, w, lv, npc) == [n |-> n, t |-> t, w |-> w, lv |-> lv, npc |-> npc, td |-> FALSE]
(* an array object declared through a typedef of the unqualified array type: `typedef char A[3]; extern const A x;` *)
LfTd(n, t) == [n |-> n, t |-> t, w |-> 0, lv |-> TRUE, npc |-> FALSE, td |-> TRUE]
ObjLeaves ==
  {Lf("a_" \o k, B(k), 0, TRUE, FALSE) : k \in BasicKinds}
  \cup {Lf("a_eu", En("eu"), 0, TRUE, FALSE), Lf("a_es", En("es"), 0, TRUE, FALSE),
        Lf("c_int", Qual(B("int"), {"const"}), 0, TRUE, FALSE), Lf("v_short", Qual(B("short"), {"volatile"}), 0, TRUE, FALSE),
        Lf("cv_uchar", Qual(B("uchar"), {"const", "volatile"}), 0, TRUE, FALSE),
        Lf("p_int", Ptr(B("int")), 0, TRUE, FALSE), Lf("p_cint", Ptr(Qual(B("int"), {"const"})), 0, TRUE, FALSE),
        Lf("q_int", Ptr(B("int")), 0, TRUE, FALSE), Lf("p_uint", Ptr(B("uint")), 0, TRUE, FALSE),
        Lf("p_char", Ptr(B("char")), 0, TRUE, FALSE), Lf("p_void", Ptr(Void), 0, TRUE, FALSE),
        Lf("p_cvoid", Ptr(Qual(Void, {"const"})), 0, TRUE, FALSE), Lf("pp_int", Ptr(Ptr(B("int"))), 0, TRUE, FALSE),
        Lf("cp_int", Qual(Ptr(B("int")), {"const"}), 0, TRUE, FALSE),
        Lf("p_ss", Ptr(SS), 0, TRUE, FALSE), Lf("p_css", Ptr(Qual(SS, {"const"})), 0, TRUE, FALSE),
        Lf("p_arr", Ptr(Arr(B("int"), 3)), 0, TRUE, FALSE), Lf("p_arr0", Ptr(Arr(B("int"), 0)), 0, TRUE, FALSE),
        Lf("p_fn", Ptr(FnII), 0, TRUE, FALSE), Lf("p_eu", Ptr(En("eu")), 0, TRUE, FALSE),
        Lf("arr_int", Arr(B("int"), 4), 0, TRUE, FALSE), Lf("arr_cchar", Arr(Qual(B("char"), {"const"}), 3), 0, TRUE, FALSE),
        Lf("arr2", Arr(Arr(B("int"), 3), 2), 0, TRUE, FALSE), LfTd("tarr_cchar", Arr(Qual(B("char"), {"const"}), 3)),
        LfTd("tarr_vint", Arr(Qual(B("int"), {"volatile"}), 2)), Lf("arr_p", Arr(Ptr(B("int")), 2), 0, TRUE, FALSE),
        Lf("s1", SS, 0, TRUE, FALSE), Lf("cs1", Qual(SS, {"const"}), 0, TRUE, FALSE), Lf("vs1", Qual(SS, {"volatile"}), 0, TRUE, FALSE),
        Lf("f_int", FnII, 0, FALSE, FALSE), Lf("f_pc", Fn(Ptr(B("char")), <<B("int"), B("double")>>, FALSE), 0, FALSE, FALSE),
        Lf("f_va", Fn(B("double"), <<B("int")>>, TRUE), 0, FALSE, FALSE), Lf("f_eu", Fn(En("eu"), <<>>, FALSE), 0, FALSE, FALSE),
        Lf("f_void", Fn(Void, <<>>, FALSE), 0, FALSE, FALSE), Lf("f_ss", Fn(SS, <<>>, FALSE), 0, FALSE, FALSE),
        Lf("f_sc", Fn(B("schar"), <<B("float")>>, FALSE), 0, FALSE, FALSE)}
  \cup {Lf("sa." \o k \o "_" \o ToString(w), B(k), w, TRUE, FALSE) :
          <<k, w>> \in {<<"int", 7>>, <<"uint", 7>>, <<"uint", 31>>, <<"uint", 32>>, <<"int", 32>>, <<"bool", 1>>,
                        <<"long", 33>>, <<"ulong", 32>>, <<"ulong", 63>>, <<"ushort", 15>>}}
ConstLeaves ==
  {Lf("1", B("int"), 0, FALSE, FALSE), Lf("2u", B("uint"), 0, FALSE, FALSE), Lf("3l", B("long"), 0, FALSE, FALSE),
   Lf("4ul", B("ulong"), 0, FALSE, FALSE), Lf("5ll", B("llong"), 0, FALSE, FALSE), Lf("6ull", B("ullong"), 0, FALSE, FALSE),
   Lf("1.5", B("double"), 0, FALSE, FALSE), Lf("2.5f", B("float"), 0, FALSE, FALSE), Lf("3.5L", B("ldouble"), 0, FALSE, FALSE),
   Lf("'a'", B("int"), 0, FALSE, FALSE), Lf("0x80000000", B("uint"), 0, FALSE, FALSE), Lf("2147483648", B("long"), 0, FALSE, FALSE),
   Lf("0", B("int"), 0, FALSE, TRUE), Lf("0u", B("uint"), 0, FALSE, TRUE), Lf("((void *)0)", Ptr(Void), 0, FALSE, TRUE),
   Lf("EU_B", B("int"), 0, FALSE, FALSE), Lf("ES_A", B("int"), 0, FALSE, FALSE)}

MkX(l) == [t |-> l.t, w |-> l.w, lv |-> l.lv, npc |-> l.npc]
TdDev(l) == l.td /\ "ArrayQualOnArrayType" \in Devs
MkM(l) == [t |-> IF TdDev(l) THEN [l.t EXCEPT !.of = Unq(@), !.q = l.t.of.q] ELSE l.t,      \* decl->qual = const, array type unqualified
           w |-> l.w, lv |-> l.lv, npc |-> l.npc, bfn |-> l.w # 0]
(* ibf: the subtree reads a bit-field wider than int whose declared type is not int/unsigned/_Bool (IMPL-DEFINED, *)
(* gcc gives those their own type): such nodes are audited by clang only                                          *)
(* z: what is known about the node as an integer constant expression: "zero" (a null pointer constant when of integer *)
(* type or cast to void*, 6.3.2.3p3), "nonzero", "unknown" (constant, value not tracked), "na" (not a constant)       *)
LeafNode(l, isobj) == [e |-> l.n, x |-> MkX(l), m |-> MkM(l), d |-> 0, devs |-> IF TdDev(l) THEN {"ArrayQualOnArrayType"} ELSE {}, obj |-> isobj,
                       z |-> IF isobj THEN "na" ELSE IF l.npc THEN "zero" ELSE "nonzero",
                       ibf |-> BitfieldIsImplDefined(l.t, l.w) /\ l.w > 32]
LeafNodes == {LeafNode(l, TRUE) : l \in ObjLeaves} \cup {LeafNode(l, FALSE) : l \in ConstLeaves}

IsNpc(t, z) == z = "zero" /\ (IsInt(t) \/ t = Ptr(Void))
Node(e, x, m, d, devs, ibf, z) ==
  [e |-> e, x |-> [x EXCEPT !.npc = IsNpc(x.t, z)], m |-> [m EXCEPT !.npc = IsNpc(x.t, z) \/ @], d |-> d, devs |-> devs, obj |-> FALSE, ibf |-> ibf, z |-> z]
ZConst(S) == IF \A n \in S : n.z # "na" THEN "unknown" ELSE "na"
ZNot(a) == IF a.z = "zero" THEN "nonzero" ELSE IF a.z = "na" THEN "na" ELSE "unknown"

(* ---------------------------------------------------------------------- *)
Cand == LeafNodes \cup {pool[i] : i \in 1..Len(pool)}
VT(n) == ValType(n.x)
ArithC == {n \in Cand : IsArith(VT(n))}
IntC == {n \in Cand : IsInt(VT(n))}
PtrC == {n \in Cand : IsPtr(VT(n))}
ScalarC == ArithC \cup PtrC
(* modifiable lvalues used as left operands of = op= ++ --.  Bit-fields are left out: whether the RESULT of an    *)
(* assignment to a bit-field is still "restricted by the width" for a later promotion is read one way by the       *)
(* letter of 6.5.16p3/6.3.1.1p2 (cproc) and the other way by gcc and clang: not decided here.  The same holds for  *)
(* the comma operator with a bit-field right operand.                                                              *)
ModLvC == {n \in Cand : n.x.lv /\ n.x.w = 0 /\ ~("const" \in QualsOf(n.x.t)) /\ n.x.t.k \notin {"arr", "fn", "struct", "union"}}
RS(S) == IF S = {} THEN {} ELSE RandomSubset(1, S)     \* one random element, bound by \E so that it is chosen once per step
PoolSet == {pool[i] : i \in 1..Len(pool)}
(* operand choice: three times out of four an earlier node (if one qualifies), so that expressions nest *)
RN(S) == LET pn == {n \in S : n.d > 0}
         IN IF S = {} THEN {} ELSE IF pn # {} /\ RandomElement(1..4) > 1 THEN RandomSubset(1, pn) ELSE RandomSubset(1, S)
Max2(a, b) == IF a > b THEN a ELSE b
Fresh(n) == n.d < MaxDepth

XV(t) == [t |-> t, w |-> 0, lv |-> FALSE, npc |-> FALSE]                 \* an rvalue of type t
MV(t) == [t |-> t, w |-> 0, lv |-> FALSE, npc |-> FALSE, bfn |-> FALSE]
LocalFired(f(_)) == {d \in Devs : f({d}) # f({})}
Add(n) == pool' = Append(pool, n) /\ UNCHANGED targ
OkBoth(xt, mt) == ~IsErr(xt) /\ ~IsErr(mt)

(* ---- binary operators ---------------------------------------------------- *)
GroupOf(op) == CHOOSE i \in 1..Len(M_BinGroups) : \E j \in 1..Len(M_GroupOps(M_BinGroups[i])) : M_GroupOps(M_BinGroups[i])[j] = op
G_Bin ==
  /\ ScalarC # {}
  /\ \E op \in RS(BinOps), a \in RN(ScalarC) : \E b \in RN(IF op \in ShiftOps \cup IntOps THEN IntC ELSE ScalarC) :
     LET xt == TypeOfBinary(op, a.x, b.x, targ)
         f(D) == M_mkbinaryexpr(M_BinGroups[GroupOf(op)], a.m, b.m, targ, D).t
     IN /\ Fresh(a) /\ Fresh(b) /\ OkBoth(xt, f(Devs))
        /\ Add(Node("(" \o a.e \o " " \o op \o " " \o b.e \o ")", XV(xt), MV(f(Devs)), 1 + Max2(a.d, b.d),
                    a.devs \cup b.devs \cup LocalFired(f), a.ibf \/ b.ibf, ZConst({a, b})))

(* ---- unary + - ~ ! ---------------------------------------------------------- *)
G_Un ==
  /\ \E op \in RS({"+", "-", "~", "!"}), a \in RN(ScalarC) :
     LET xt == TypeOfUnary(op, a.x, targ)
         f(D) == M_unaryexpr(op, a.m, targ, D)
         keep == "SizeofSeesBitfield" \in Devs /\ op = "+" /\ a.m.bfn /\ M_exprconvert_same(a.m, M_typepromote(M_exprtype(a.m), a.m.w, targ))
     IN /\ Fresh(a) /\ OkBoth(xt, f(Devs))
        /\ Add(Node("(" \o op \o a.e \o ")", XV(xt),
                    [MV(f(Devs)) EXCEPT !.bfn = keep, !.w = IF keep THEN a.m.w ELSE 0],
                    1 + a.d, a.devs \cup LocalFired(f) \cup (IF keep /\ a.x.w # 0 THEN {"SizeofSeesBitfield"} \cap Devs ELSE {}), a.ibf, IF op \in {"+", "-"} THEN a.z ELSE ZNot(a)))

(* ---- conditional (the controlling expression is a non-constant object) ------- *)
CondLeaves == {n \in LeafNodes : n.obj /\ n.e \in {"a_int", "p_int", "a_double", "a_bool", "sa.uint_7"}}
SameClass(a) ==
  IF IsArith(VT(a)) THEN ArithC
  ELSE IF IsPtr(VT(a)) THEN PtrC \cup {n \in Cand : n.x.npc}
  ELSE {n \in Cand : VT(n) = VT(a)}
(* The controlling expression is a non-constant object or one of the constants of CTypes.CondControls: cproc folds a  *)
(* constant condition at parse time into exprconvert(selected operand, t), a different path for the same required type. *)
(* A folded conditional may or may not be an integer constant expression (6.6p6 vs. what compilers accept when the      *)
(* unselected operand is not constant): its value is "not tracked" (never a null pointer constant, never cast to pointer-to-void). *)
G_Cond ==
  /\ \E c0 \in RS(CondLeaves), ci \in RS(1..Len(CondControls)), a \in RN(Cand) : \E b \in RN(SameClass(a)) :
     LET cv == CondControls[ci]
         xt == TypeOfCond(a.x, b.x, targ)
         f(D) == IF CondIsConstant(cv) THEN M_condexpr_folded(a.m, b.m, CondSelectsFirst(cv), targ, D).t ELSE M_condexpr(a.m, b.m, targ, D).t
         ctext == IF CondIsConstant(cv) THEN cv ELSE c0.e
         \* deviation FoldedCondKeepsDecay: the folded node is exprconvert(selected, t); in the null-pointer-constant rows t IS the
         \* selected operand's type, so the operand's own node comes back, and if that is a decayed array / function designator
         \* it still carries `decayed`: sizeof and typeof look through it at the array / function
         sel == IF CondSelectsFirst(cv) THEN a ELSE b
         oth == IF CondSelectsFirst(cv) THEN b ELSE a
         keepsdecay == "FoldedCondKeepsDecay" \in Devs /\ CondIsConstant(cv) /\ sel.m.t.k \in {"arr", "fn"} /\ oth.x.npc
         \* deviation FoldedNullVoidPtrIsNpc: nullpointer() accepts every constant of type pointer-to-void and value 0, so a folded
         \* `K ? 0 : vp` (a null pointer of type void *, but neither an integer constant expression nor a cast of one) is
         \* taken for a null pointer constant by an enclosing ?: or ==
         nullvp == "FoldedNullVoidPtrIsNpc" \in Devs /\ CondIsConstant(cv) /\ sel.x.npc /\ IsPtr(f(Devs)) /\ f(Devs).to.k = "void"
         mres == IF keepsdecay THEN [sel.m EXCEPT !.npc = FALSE] ELSE [MV(f(Devs)) EXCEPT !.npc = nullvp]
         \* 6.2.7p3 does not say what the composite of an enumerated type and its compatible integer type is
         det == (IsPtr(VT(a)) /\ IsPtr(VT(b)) /\ PtrTargetsCompatible(VT(a), VT(b))) => CompositeDetermined(Unq(VT(a).to), Unq(VT(b).to))
     IN /\ Fresh(a) /\ Fresh(b) /\ OkBoth(xt, f(Devs)) /\ det
        /\ Add(Node("(" \o ctext \o " ? " \o a.e \o " : " \o b.e \o ")", XV(xt), mres, 1 + Max2(a.d, b.d),
                    a.devs \cup b.devs \cup LocalFired(f) \cup (IF keepsdecay THEN {"FoldedCondKeepsDecay"} ELSE {})
                    \cup (IF nullvp THEN {"FoldedNullVoidPtrIsNpc"} ELSE {}), a.ibf \/ b.ibf \/ (~CondIsConstant(cv) /\ c0.ibf),
                    IF CondIsConstant(cv) THEN "unknown" ELSE "na"))

(* ---- cast --------------------------------------------------------------------- *)
CastTypes == <<B("bool"), B("char"), B("schar"), B("uchar"), B("short"), B("ushort"), B("int"), B("uint"), B("long"), B("ulong"),
               B("llong"), B("ullong"), B("float"), B("double"), B("ldouble"), En("eu"), En("es"), Void, Ptr(B("int")),
               Ptr(Qual(B("char"), {"const"})), Ptr(Void), Qual(B("int"), {"const"}), Qual(B("uchar"), {"volatile"}), Ptr(FnII), Ptr(SS),
               Ptr(Arr(B("int"), 3))>>
AlignTypes == <<B("char"), B("int"), B("double"), Ptr(B("int")), SS, Arr(B("short"), 3)>>
CTName(i) == "CT" \o ToString(i)          \* typedef names declared by the harness from the table VCASE
ATName(i) == "AT" \o ToString(i)
CastOK(t, v) ==    \* 6.5.4p2-4
  \/ IsVoid(t)
  \/ (IsArith(t) /\ IsArith(v))
  \/ (IsPtr(t) /\ (IsPtr(v) \/ IsInt(v)))
  \/ (IsInt(t) /\ IsPtr(v))
G_Cast ==
  /\ \E i \in RS(1..Len(CastTypes)) : \E a \in RN(IF IsVoid(CastTypes[i]) THEN Cand ELSE ScalarC) :
     LET t == CastTypes[i]
     IN /\ Fresh(a) /\ CastOK(t, VT(a)) /\ (~IsVoid(t) => M_PROPSCALAR(M_exprtype(a.m)))
        \* `(void *)E` is a null pointer constant iff E is an integer constant expression with value 0 (6.3.2.3p3):
        \* constants whose value is not tracked, and pointer-typed null pointer constants, are not cast to void*
        \* (`(_Bool)0` and `(enum eu)0` are integer constant expressions too, but gcc 12 does not accept them as null
        \* pointer constants: they are treated as "value not tracked")
        /\ (t = Ptr(Void) => (a.z # "unknown" /\ ~(IsPtr(VT(a)) /\ a.x.npc)))
        /\ Add(Node("((" \o CTName(i) \o ")" \o a.e \o ")", XV(TypeOfCast(t)), MV(M_strip(t)), 1 + a.d, a.devs, a.ibf, IF t = Ptr(Void) /\ IsInt(VT(a)) THEN a.z ELSE IF t.k \in IntKinds \ {"bool"} /\ a.z = "zero" THEN "zero" ELSE IF a.z = "na" THEN "na" ELSE "unknown"))

(* ---- comma ---------------------------------------------------------------------- *)
G_Comma ==
  /\ \E a \in RN(Cand), b \in RN(Cand) :
        /\ Fresh(a) /\ Fresh(b) /\ b.x.w = 0
        /\ Add(Node("(" \o a.e \o ", " \o b.e \o ")", XV(VT(b)), MV(M_exprtype(b.m)), 1 + Max2(a.d, b.d), a.devs \cup b.devs, a.ibf \/ b.ibf, "na"))

(* ---- assignment, compound assignment, ++ -- ---------------------------------------- *)
AssignableFrom(a, b) ==       \* 6.5.16.1p1 (arithmetic, pointer, null pointer constant cases)
  LET l == Unq(a.x.t) r == VT(b) IN
  \/ (IsArith(l) /\ IsArith(r))
  \/ (l.k = "bool" /\ IsPtr(r))
  \/ (IsPtr(l) /\ IsPtr(r) /\ PtrAssignOK(l, r) /\ PtrAssignDecided(l, r))
  \/ (IsPtr(l) /\ b.x.npc)
G_Assign ==
  /\ ModLvC # {}
  /\ \E a \in RN(ModLvC) : \E b \in RN(IF IsPtr(Unq(a.x.t)) THEN PtrC \cup {n \in Cand : n.x.npc} ELSE ScalarC) :
        /\ Fresh(a) /\ Fresh(b) /\ AssignableFrom(a, b)
        /\ Add(Node("(" \o a.e \o " = " \o b.e \o ")", XV(TypeOfAssign(a.x)), MV(M_exprtype(a.m)), 1 + Max2(a.d, b.d), a.devs \cup b.devs, a.ibf \/ b.ibf, "na"))
G_OpAssign ==
  /\ ModLvC # {}
  /\ \E op \in RS({"+", "-", "*", "/", "%", "<<", ">>", "&", "^", "|"}), a \in RN(ModLvC) :
     \E b \in RN(IF op \in {"%", "<<", ">>", "&", "^", "|"} THEN IntC ELSE ArithC) :
     LET xt == TypeOfBinary(op, a.x, b.x, targ)
         ok == ~IsErr(xt) /\ (IsArith(Unq(a.x.t)) => IsArith(xt)) /\ (IsPtr(Unq(a.x.t)) => (op \in {"+", "-"} /\ IsPtr(xt)))
         mbin == M_mkbinaryexpr(M_BinGroups[GroupOf(op)], a.m, b.m, targ, Devs).t
     IN /\ Fresh(a) /\ Fresh(b) /\ ok /\ ~IsErr(mbin)
        /\ Add(Node("(" \o a.e \o " " \o op \o "= " \o b.e \o ")", XV(TypeOfAssign(a.x)), MV(M_exprtype(a.m)), 1 + Max2(a.d, b.d), a.devs \cup b.devs, a.ibf \/ b.ibf, "na"))
G_IncDec ==
  /\ ModLvC # {}
  /\ \E op \in RS({"++pre", "--pre", "post++", "post--"}), a \in RN(ModLvC) :
     LET xt == TypeOfUnary(op, a.x, targ)
         txt == IF op = "++pre" THEN "(++" \o a.e \o ")" ELSE IF op = "--pre" THEN "(--" \o a.e \o ")"
                ELSE IF op = "post++" THEN "(" \o a.e \o "++)" ELSE "(" \o a.e \o "--)"
     IN /\ Fresh(a) /\ ~IsErr(xt)
        /\ Add(Node(txt, XV(xt), MV(M_unaryexpr(op, a.m, targ, Devs)), 1 + a.d, a.devs, a.ibf, "na"))

(* ---- subscript, member access, call ------------------------------------------------------ *)
Deref(x) ==      \* 6.5.3.2p4: `*E`
  LET a == ValType(x) IN [t |-> a.to, w |-> 0, lv |-> a.to.k # "fn", npc |-> FALSE]
DerefM(m, D) == LET a == M_unaryexpr("*", m, targ, D) IN [t |-> a, w |-> 0, lv |-> a.k # "fn", npc |-> FALSE, bfn |-> FALSE]
G_Index ==
  /\ \E a \in RN(PtrC), b \in RN(IntC), sw \in RS({FALSE, TRUE}) :
     LET xt == TypeOfBinary("+", a.x, b.x, targ)
         mt == M_mkbinaryexpr("add", a.m, b.m, targ, Devs).t
     IN /\ Fresh(a) /\ Fresh(b) /\ OkBoth(xt, mt) /\ IsPtr(xt) /\ IsPtr(mt)
        /\ Add(Node((IF sw THEN "(" \o b.e \o "[" \o a.e \o "])" ELSE "(" \o a.e \o "[" \o b.e \o "])"),
                    Deref(XV(xt)), DerefM(MV(mt), Devs), 1 + Max2(a.d, b.d), a.devs \cup b.devs, a.ibf \/ b.ibf, "na"))
G_Deref ==
  /\ \E a \in RN({n \in PtrC : ~IsVoid(VT(n).to)}) :
        /\ Fresh(a) /\ IsPtr(M_exprtype(a.m))
        /\ Add(Node("(*" \o a.e \o ")", Deref(a.x), DerefM(a.m, Devs), 1 + a.d, a.devs \cup LocalFired(LAMBDA D : DerefM(a.m, D)), a.ibf, "na"))
G_Addr ==
  /\ \E a \in RN({n \in Cand : (n.x.lv /\ n.x.w = 0) \/ n.x.t.k = "fn"}) :
        /\ Fresh(a) /\ ~IsErr(M_unaryexpr("&", a.m, targ, Devs))
        /\ Add(Node("(&" \o a.e \o ")", XV(TypeOfUnary("&", a.x, targ)), MV(M_unaryexpr("&", a.m, targ, Devs)), 1 + a.d, a.devs, a.ibf, "na"))
IsSS(t) == t.k = "struct" /\ t.tag = "SS"
G_Member ==
  /\ \E s \in RN({n \in Cand : IsSS(n.x.t)}), mi \in RS(1..Len(Members)) :
     LET mb == Members[mi]
     IN /\ Fresh(s) /\ IsSS(s.m.t)
        /\ s.x.lv       \* a member of a non-lvalue structure with a qualified member type: C11 and C17 (DR 423) differ on
                        \* whether the rvalue keeps the qualifier, and so do gcc and clang: not generated
        /\ Add(Node("(" \o s.e \o "." \o mb.n \o ")",
                    [t |-> TypeOfMember(mb, s.x.t.q), w |-> mb.w, lv |-> s.x.lv, npc |-> FALSE],
                    [t |-> M_member(mb, s.m.t.q, Devs), w |-> mb.w, lv |-> s.m.lv, npc |-> FALSE, bfn |-> mb.w # 0],
                    1 + s.d, s.devs \cup LocalFired(LAMBDA D : M_member(mb, s.m.t.q, D)), s.ibf \/ (BitfieldIsImplDefined(mb.t, mb.w) /\ mb.w > 32), "na"))
G_Arrow ==
  /\ \E p \in RN({n \in PtrC : IsSS(VT(n).to)}), mi \in RS(1..Len(Members)) :
     LET mb == Members[mi]
     IN /\ Fresh(p) /\ IsPtr(M_exprtype(p.m)) /\ IsSS(M_exprtype(p.m).to)
        /\ Add(Node("(" \o p.e \o "->" \o mb.n \o ")",
                    [t |-> TypeOfMember(mb, VT(p).to.q), w |-> mb.w, lv |-> TRUE, npc |-> FALSE],
                    [t |-> M_member(mb, M_exprtype(p.m).to.q, Devs), w |-> mb.w, lv |-> TRUE, npc |-> FALSE, bfn |-> mb.w # 0],
                    1 + p.d, p.devs \cup LocalFired(LAMBDA D : M_member(mb, M_exprtype(p.m).to.q, D)), p.ibf \/ (BitfieldIsImplDefined(mb.t, mb.w) /\ mb.w > 32), "na"))
(* 6.5.2.2: call through a function designator or pointer; arguments are arithmetic (every prototype here has *)
(* arithmetic parameters); the result has the (unqualified) return type                                      *)
IsFnPtr(t) == IsPtr(t) /\ t.to.k = "fn"
G_Call ==
  /\ \E f \in RN({n \in Cand : IsFnPtr(VT(n))}), a1 \in RN(ArithC), a2 \in RN(ArithC), extra \in RN(ArithC) :
     LET ft == VT(f).to
         args == (IF Len(ft.ps) >= 1 THEN a1.e ELSE "") \o (IF Len(ft.ps) >= 2 THEN ", " \o a2.e ELSE "")
                 \o (IF ft.va THEN ", " \o extra.e ELSE "")
         used == (IF Len(ft.ps) >= 1 THEN {a1} ELSE {}) \cup (IF Len(ft.ps) >= 2 THEN {a2} ELSE {}) \cup (IF ft.va THEN {extra} ELSE {})
         dmax == IF used = {} THEN f.d ELSE Max2(f.d, CHOOSE d \in {u.d : u \in used} : \A u \in used : u.d <= d)
     IN /\ Fresh(f) /\ \A u \in used : Fresh(u) /\ u.m.t.k # "error"
        /\ IsFnPtr(M_exprtype(f.m))
        /\ Add(Node("(" \o f.e \o "(" \o args \o "))", XV(Unq(ft.ret)), MV(M_strip(M_exprtype(f.m).to.ret)), 1 + dmax,
                    f.devs \cup UNION {u.devs : u \in used}, f.ibf \/ \E u \in used : u.ibf, "na"))

(* ---- sizeof / _Alignof / parentheses ----------------------------------------------------------- *)
G_Sizeof ==
  /\ \E a \in RN({n \in Cand : n.x.w = 0 /\ IsCompleteObj(n.x.t)}), par \in RS({FALSE, TRUE}) :
        /\ Fresh(a) /\ ~a.m.bfn /\ ~M_incomplete(a.m.t) /\ a.m.t.k # "fn"
        /\ Add(Node((IF par THEN "(sizeof(" \o a.e \o "))" ELSE "(sizeof " \o a.e \o ")"), XV(B(SizeTKind)), MV(B("ulong")), 1 + a.d, a.devs, a.ibf, "nonzero"))
G_Alignof ==
  /\ \E i \in RS(1..Len(AlignTypes)) : Add(Node("(_Alignof(" \o ATName(i) \o "))", XV(B(SizeTKind)), MV(B("ulong")), 1, {}, FALSE, "nonzero"))
G_Paren ==
  /\ \E a \in RN(Cand) : Fresh(a) /\ Add(Node("(" \o a.e \o ")", a.x, a.m, 1 + a.d, a.devs, a.ibf, a.z))

Init == targ \in TargetSet /\ pool = <<>>
Next == G_Bin \/ G_Un \/ G_Cond \/ G_Cast \/ G_Comma \/ G_Assign \/ G_OpAssign \/ G_IncDec \/ G_Index \/ G_Deref \/ G_Addr
        \/ G_Member \/ G_Arrow \/ G_Call \/ G_Sizeof \/ G_Alignof \/ G_Paren
Spec == Init /\ [][Next]_vars

(* ---------------------------------------------------------------------- *)
(* Probes for the newest node                                               *)
RECURSIVE Mut(_), HasSU(_)
Mut(t) ==      \* types one atomic feature away from t
  IF t.k = "ptr" THEN {[t EXCEPT !.to = u] : u \in Mut(t.to)}
                      \cup (IF t.to.k \in {"fn", "arr"} THEN {}
                            ELSE {[t EXCEPT !.to = IF "const" \in @.q THEN [@ EXCEPT !.q = @ \ {"const"}] ELSE Qual(@, {"const"})]})
  ELSE IF t.k = "arr" THEN {[t EXCEPT !.n = @ + 1], [t EXCEPT !.n = 0]} \cup {[t EXCEPT !.of = u] : u \in {v \in Mut(t.of) : IsCompleteObj(v)}}
  ELSE IF t.k = "fn" THEN (IF Len(t.ps) > 0 THEN {[t EXCEPT !.va = ~@]} ELSE {}) \cup {[t EXCEPT !.ret = u] : u \in Mut(t.ret) \ {Void}}
  ELSE IF t.k \in {"struct", "union"} THEN {[t EXCEPT !.tag = "S1"]}
  ELSE IF t.k = "void" THEN {[t EXCEPT !.k = "char"]}
  ELSE ({[k |-> k2, q |-> t.q] : k2 \in {"int", "uint", "long", "llong", "char", "schar", "double"}} \cup {[k |-> "enum", tag |-> "eu", q |-> t.q]}) \ {t}
HasSU(t) ==
  IF t.k \in {"struct", "union"} THEN TRUE
  ELSE IF t.k = "arr" THEN HasSU(t.of)
  ELSE FALSE
RECURSIVE StripAll(_)
StripAll(t) == IF t.k = "arr" THEN [t EXCEPT !.q = {}, !.of = StripAll(@)] ELSE [t EXCEPT !.q = {}]
SizeOfEq(a, b) == IF HasSU(a) \/ HasSU(b) THEN StripAll(a) = StripAll(b) ELSE SizeOf(a) = SizeOf(b)

TypeofType(x) == IF x.lv THEN x.t ELSE Unq(x.t)
BSafe(t) == ~(t.k = "arr" /\ QualsOf(t) # {})
GenericOK(t) == IsCompleteObj(t) /\ t.k # "arr"        \* usable as the type name of a generic association

(* `want`: the answer C11 requires (declarative operators on n.x); `alt`: the answer predicted for the shipped code   *)
(* (TypeModel operators on n.m).  __typeof__ of a bit-field designator is refused by gcc/clang: no typeof probes.     *)
Probes(n) ==
  LET tt == TypeofType(n.x)
      mt == TypeofType(n.m)
      vt == ValType(n.x)
      mv == M_exprtype(n.m)
      near == Mut(tt)
      tyof == n.x.w = 0
      cprobe(ty) == [k |-> "compat", ty |-> ty, want |-> Compatible(Unq(tt), Unq(ty)), alt |-> M_typecompatible(mt, ty), altrej |-> FALSE,
                     qenum |-> QualEnumMeetsInt(Unq(tt), Unq(ty))]
      gprobe(ty) == [k |-> "generic", ty |-> ty, want |-> Compatible(Unq(vt), ty), alt |-> ty.q = {} /\ M_typecompatible(ty, mv), altrej |-> FALSE,
                     qenum |-> QualEnumMeetsInt(Unq(vt), ty)]
  IN SetToSeq(
       (IF tyof /\ BSafe(tt) /\ BSafe(mt) /\ ~IsVoid(tt) THEN {cprobe(ty) : ty \in {u \in {tt} \cup near : BSafe(u)}} ELSE {})
       \* the qualified version of the right type is a different (incompatible) association type: 6.5.1.1p2, 6.7.3p10
       \cup (IF GenericOK(vt) THEN {gprobe(ty) : ty \in {u \in {Unq(vt), Qual(Unq(vt), {"const"})} \cup Mut(Unq(vt)) : GenericOK(u)}} ELSE {})
       \cup (IF tyof /\ ~IsVoid(tt) THEN {[k |-> "ptrinit", ty |-> tt, want |-> TRUE, alt |-> TRUE, altrej |-> ~M_ptrassign(Ptr(mt), Ptr(tt))]} ELSE {})
       \cup (IF tyof /\ IsCompleteObj(tt) THEN {[k |-> "sizeof", ty |-> tt, want |-> TRUE,     \* sizeof(E) == sizeof(ty)
                      alt |-> IsCompleteObj(mt) /\ SizeOfEq(mt, tt), altrej |-> n.m.bfn \/ ~IsCompleteObj(mt)]} ELSE {})
       \cup (IF IsArith(vt) THEN {[k |-> "g1", ty |-> vt, want |-> GenericSel(vt, G1Types), alt |-> M_genericsel(mv, G1Types), altrej |-> FALSE],
                                  [k |-> "g2", ty |-> vt, want |-> GenericSel(vt, G2Types), alt |-> M_genericsel(mv, G2Types), altrej |-> FALSE]}
                                 \cup (IF tyof THEN {[k |-> "twin", ty |-> En(Twins[i]), want |-> Compatible(vt, En(Twins[i])),
                                                      alt |-> M_typecompatible(mv, En(Twins[i])), altrej |-> FALSE] : i \in 1..Len(Twins)} ELSE {})
             ELSE {}))

LeafJson(l) == [n |-> l.n, t |-> l.t, w |-> l.w, td |-> l.td]
ASSUME Emit => PrintT("VCASE " \o ToJson(
  [form |-> "nested_table", g1 |-> G1, g2 |-> G2, twins |-> Twins,
   objs |-> SetToSeq({LeafJson(l) : l \in ObjLeaves}),
   members |-> Members,
   casts |-> [i \in 1..Len(CastTypes) |-> [n |-> CTName(i), t |-> CastTypes[i]]],
   aligns |-> [i \in 1..Len(AlignTypes) |-> [n |-> ATName(i), t |-> AlignTypes[i]]]]))

Newest == pool[Len(pool)]
CaseJson ==
  LET n == Newest IN
  [form |-> "nested", targ |-> targ, e |-> n.e, d |-> n.d, t |-> n.x.t, lv |-> n.x.lv, w |-> n.x.w,
   exp |-> Name(TypeofType(n.x)), mod |-> Name(TypeofType(n.m)), devs |-> SetToSeq(n.devs), ibf |-> n.ibf, probes |-> Probes(n)]
Inv_Emit == (Emit /\ Len(pool) > 0) => PrintT("VCASE " \o ToJson(CaseJson))
(* design-level sanity: the two typings only differ where a deviation fired *)
Inv_DevsExplain == Len(pool) > 0 => (TypeofType(Newest.x) # TypeofType([k \in {"t", "w", "lv", "npc"} |-> Newest.m[k]]) => Newest.devs # {})
=============================================================================
