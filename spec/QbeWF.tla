------------------------------- MODULE QbeWF -------------------------------
(* Property C03, flow C: the judgement "M is a well-formed QBE IL module".    *)
(*                                                                             *)
(* Input: the modules cproc-qbe printed with exit status 0, parsed by          *)
(* harness/ilparse.py (strict grammar) and handed over as newline-delimited    *)
(* JSON (harness/c03lib.py: names interned to 1..n, None -> "" / 0; nothing    *)
(* is decided there).  One line = one module.                                  *)
(*                                                                             *)
(* WellFormed(M) is a conjunction of NAMED obligations.  Every obligation X    *)
(* is defined as  X(..) == Bad_X(..) = {}  where Bad_X is the set of           *)
(* offending places, so a failure names itself and its witnesses.              *)
(*                                                                             *)
(* The rules are those of the QBE IL reference (Types, Definitions,            *)
(* Control, Instructions, "Instructions index") plus parse.c:typecheck:        *)
(*   - sub-typing: a temporary of class l may be used where w is expected;     *)
(*   - integer constants and symbol addresses in any integer class;            *)
(*   - s_ / d_ constants only where exactly that class is expected;            *)
(*   - memory operands (m) have class l on the three 64-bit targets;           *)
(*   - phi: the source labels are exactly the predecessors of the block;       *)
(*   - a block without a jump falls through to the next block.                 *)
(*                                                                             *)
(* DefDominatesUse is not a formula but a state machine (DomFlowCore): the     *)
(* TLC states of a unit are the iterations of the must-analysis; there is one  *)
(* initial state per function (and one per module for the module-level         *)
(* obligations) so that TLC's workers split a batch of modules.                *)
EXTENDS Naturals, Integers, Sequences, FiniteSets, TLC, Json, IOUtils, SequencesExt, Functions,
        FiniteSetsExt, DomFlowCore

CONSTANT FreeOrder      \* FALSE: the worklist is processed in sweeps in layout order (deterministic, one path per function)
                        \* TRUE : any single block of the worklist may be processed (design check: confluence)

Mods  == ndJsonDeserialize(IOEnv.QBEWF_MODS)
NMods == Len(Mods)
(* process observations: [id, rc, errlen, parses, outlen, endsnl, fault] per run of cproc-qbe *)
Obs   == ndJsonDeserialize(IOEnv.QBEWF_OBS)

VARIABLES unit,      \* <<module index, function index>>; function index 0 = the module-level unit
          phase,     \* "judge" -> ("flow" ->)* "done"
          fa,        \* facts about the function computed once by JudgeFunc (CFG, gen sets, exposed uses)
          In,        \* block -> temporaries definitely defined on entry
          work,      \* blocks whose equation must be (re-)evaluated
          iters      \* number of Propagate steps taken
vars == <<unit, phase, fa, In, work, iters>>

(* ------------------------------------------------------------------------ *)
(* Classes                                                                   *)
IntC  == {"w", "l"}
FltC  == {"s", "d"}
Base  == IntC \cup FltC
ExtC  == {"b", "h"} \cup Base
Pow2  == {2 ^ k : k \in 0..28}

(* (sequences of instruction records are always walked by index: a set of records would have to be sorted) *)

(* ------------------------------------------------------------------------ *)
(* Instruction signatures (QBE IL reference, "Instructions index").          *)
(* r = admissible result classes ({} = no result), a = argument classes:     *)
(*  "T" the result class, "w" "l" "s" "d" fixed, "m" memory, "C" cast source *)
Grp(ops, r, a) == [o \in ops |-> [r |-> r, a |-> a]]
ICmp == {"eq", "ne", "sle", "slt", "sge", "sgt", "ule", "ult", "uge", "ugt"}
FCmp == {"eq", "ne", "le", "lt", "ge", "gt", "o", "uo"}
Sig ==
     Grp({"add", "sub", "div", "mul"},                    Base, <<"T", "T">>)
  @@ Grp({"neg"},                                         Base, <<"T">>)
  @@ Grp({"udiv", "rem", "urem", "or", "xor", "and"},     IntC, <<"T", "T">>)
  @@ Grp({"sar", "shr", "shl"},                           IntC, <<"T", "w">>)
  @@ Grp({"stored"},                                      {},   <<"d", "m">>)
  @@ Grp({"stores"},                                      {},   <<"s", "m">>)
  @@ Grp({"storel"},                                      {},   <<"l", "m">>)
  @@ Grp({"storew", "storeh", "storeb"},                  {},   <<"w", "m">>)
  @@ Grp({"loadd"},                                       {"d"}, <<"m">>)
  @@ Grp({"loads"},                                       {"s"}, <<"m">>)
  @@ Grp({"loadl"},                                       {"l"}, <<"m">>)
  @@ Grp({"loadw", "loadsw", "loaduw", "loadsh", "loaduh", "loadsb", "loadub"}, IntC, <<"m">>)
  @@ Grp({"alloc4", "alloc8", "alloc16"},                 {"l"}, <<"l">>)
  @@ Grp({"c" \o c \o "w" : c \in ICmp},                  IntC, <<"w", "w">>)
  @@ Grp({"c" \o c \o "l" : c \in ICmp},                  IntC, <<"l", "l">>)
  @@ Grp({"c" \o c \o "s" : c \in FCmp},                  IntC, <<"s", "s">>)
  @@ Grp({"c" \o c \o "d" : c \in FCmp},                  IntC, <<"d", "d">>)
  @@ Grp({"extsw", "extuw"},                              {"l"}, <<"w">>)
  @@ Grp({"extsh", "extuh", "extsb", "extub"},            IntC, <<"w">>)
  @@ Grp({"exts"},                                        {"d"}, <<"s">>)
  @@ Grp({"truncd"},                                      {"s"}, <<"d">>)
  @@ Grp({"stosi", "stoui"},                              IntC, <<"s">>)
  @@ Grp({"dtosi", "dtoui"},                              IntC, <<"d">>)
  @@ Grp({"swtof", "uwtof"},                              FltC, <<"w">>)
  @@ Grp({"sltof", "ultof"},                              FltC, <<"l">>)
  @@ Grp({"cast"},                                        Base, <<"C">>)
  @@ Grp({"copy"},                                        Base, <<"T">>)
  @@ Grp({"vastart"},                                     {},   <<"m">>)
  @@ Grp({"vaarg"},                                       Base, <<"m">>)
Ops == DOMAIN Sig
CastSrc == [w |-> "s", l |-> "d", s |-> "w", d |-> "l"]
ArgCls(a, k) == IF a = "T" THEN k ELSE IF a = "C" THEN CastSrc[k] ELSE a

(* ------------------------------------------------------------------------ *)
(* Facts about one function F.                                               *)
NB(F) == Len(F.blocks)

AggAsL(c) == IF c = "agg" THEN "l" ELSE c

(* definition sites of a block: set of <<temporary, class>> *)
BlockDefPairs(b) ==
  {<<b.phi[i].res, b.phi[i].cls>> : i \in DOMAIN b.phi}
  \cup {<<b.insts[i].res, AggAsL(b.insts[i].cls)>> : i \in {j \in DOMAIN b.insts : b.insts[j].res # 0}}
ParamDefPairs(F) == {<<F.params[i].t, AggAsL(F.params[i].cls)>> : i \in DOMAIN F.params}
DefPairs(F) == ParamDefPairs(F) \cup UNION {BlockDefPairs(F.blocks[b]) : b \in 1..NB(F)}

NDefSites(F) ==
  Len(F.params)
  + FoldLeft(LAMBDA acc, b : acc + Len(b.phi) + Cardinality({j \in DOMAIN b.insts : b.insts[j].res # 0}), 0, F.blocks)

(* class table: temporary -> class of (one of) its definition(s), "" if it has none *)
ClassTable(F) ==
  FoldSet(LAMBDA p, acc : [acc EXCEPT ![p[1]] = p[2]], [t \in 1..F.ntemps |-> ""], DefPairs(F))

(* label id -> index of (the last) block carrying it, 0 if no block does *)
LabelBlock(F) ==
  FoldLeft(LAMBDA acc, i : [acc EXCEPT ![F.blocks[i].label] = i], [l \in 1..F.nlabels |-> 0],
           [i \in 1..NB(F) |-> i])

SuccOf(F, lb, b) ==
  LET j == F.blocks[b].jump
  IN IF j.k = "none" THEN (IF b < NB(F) THEN {b + 1} ELSE {})
     ELSE {lb[j.targets[i]] : i \in DOMAIN j.targets} \ {0}

PredMap(F, succ) ==
  FoldLeft(LAMBDA acc, p : FoldSet(LAMBDA s, a2 : [a2 EXCEPT ![s] = @ \cup {p}], acc, succ[p]),
           [b \in 1..NB(F) |-> {}], [i \in 1..NB(F) |-> i])

(* temporaries read by an instruction / a jump *)
ValTmp(v) == IF v.t = "tmp" THEN {v.n} ELSE {}
InstUses(ins) ==
  UNION {ValTmp(ins.args[i]) : i \in DOMAIN ins.args}
  \cup ValTmp(ins.callee)
  \cup UNION {ValTmp(ins.cargs[i].v) : i \in DOMAIN ins.cargs}

(* one pass over a block: defs so far, uses not preceded by a definition in the block *)
BlockScan(b) ==
  LET start == [defd |-> {b.phi[i].res : i \in DOMAIN b.phi}, need |-> {}]
      step(acc, ins) == [defd |-> IF ins.res = 0 THEN acc.defd ELSE acc.defd \cup {ins.res},
                         need |-> acc.need \cup (InstUses(ins) \ acc.defd)]
      body == FoldLeft(step, start, b.insts)
  IN [defd |-> body.defd, need |-> body.need \cup (ValTmp(b.jump.arg) \ body.defd)]

(* phi operands are read at the end of the source block *)
PhiNeedsOfBlock(blk, lb) ==
  UNION {UNION {{<<lb[blk.phi[i].srcs[k].l], t>> : t \in ValTmp(blk.phi[i].srcs[k].v)}
                : k \in DOMAIN blk.phi[i].srcs}
         : i \in DOMAIN blk.phi}
PhiNeeds(F, lb) == UNION {PhiNeedsOfBlock(F.blocks[b], lb) : b \in 1..NB(F)}

Facts(F) ==
  LET nb    == NB(F)
      lb    == LabelBlock(F)
      succ  == [b \in 1..nb |-> SuccOf(F, lb, b)]
      pred  == PredMap(F, succ)
      scan  == [b \in 1..nb |-> BlockScan(F.blocks[b])]
      pn    == {pr \in PhiNeeds(F, lb) : pr[1] # 0}
      (* only temporaries with a use that is not preceded by a definition in the same block can need *)
      (* In[]; all others are settled by defsBefore(use).  This loses nothing.                         *)
      X     == UNION {scan[b].need : b \in 1..nb} \cup {pr[2] : pr \in pn}
  IN [nb |-> nb, lb |-> lb, succ |-> succ, pred |-> pred,
      gen |-> [b \in 1..nb |-> scan[b].defd \cap X],
      need |-> [b \in 1..nb |-> scan[b].need],
      phineed |-> pn, X |-> X,
      entry |-> {F.params[i].t : i \in DOMAIN F.params} \cap X]

(* ------------------------------------------------------------------------ *)
(* Operand typing                                                            *)
ValOK(tc, v, k) ==
  CASE v.t = "tmp"  -> LET c == tc[v.n] IN c = "" \/ c = (IF k = "m" THEN "l" ELSE k) \/ (k = "w" /\ c = "l")
    [] v.t = "int"  -> k \in {"w", "l", "m"}
    [] v.t = "glob" -> k \in {"w", "l", "m"}
    [] v.t = "flt"  -> v.s = k
    [] OTHER        -> FALSE

CallOK(tc, ins) ==
  /\ ValOK(tc, ins.callee, "m")
  /\ (ins.res = 0) <=> (ins.cls = "")
  /\ ins.cls \in Base \cup {"agg", ""}
  /\ Len(ins.args) = 0
  /\ \A i \in DOMAIN ins.cargs :
       LET a == ins.cargs[i]
       IN \/ a.va
          \/ a.cls \in Base /\ ValOK(tc, a.v, a.cls)
          \/ a.cls = "agg" /\ ValOK(tc, a.v, "m")
  /\ Cardinality({i \in DOMAIN ins.cargs : ins.cargs[i].va}) <= 1

InstOK(tc, ins) ==
  IF ins.op = "call" THEN CallOK(tc, ins)
  ELSE IF ins.op \notin Ops THEN FALSE
  ELSE LET s == Sig[ins.op]
           k == ins.cls
       IN /\ Len(ins.args) = Len(s.a)
          /\ IF s.r = {} THEN ins.res = 0 /\ k = "" ELSE ins.res # 0 /\ k \in s.r
          /\ (s.r = {} \/ k \in s.r) => \A i \in DOMAIN s.a : ValOK(tc, ins.args[i], ArgCls(s.a[i], k))
          /\ ins.callee.t = "none" /\ Len(ins.cargs) = 0

(* ------------------------------------------------------------------------ *)
(* Named obligations on a function F of module M                             *)
TypeDefinedBefore(M, ty, pos) == \E i \in DOMAIN M.types : M.types[i].name = ty /\ M.types[i].pos < pos

Bad_FuncSigClasses(M, F) ==
  (IF F.rcls \in Base \cup {"agg", ""} THEN {} ELSE {"ret"})
  \cup {"param" : i \in {j \in DOMAIN F.params : F.params[j].cls \notin Base \cup {"agg"}}}
FuncSigClasses(M, F) == Bad_FuncSigClasses(M, F) = {}

(* the header shows the signature the C source gives the function (csig: known for generated functions, SigGen.tla): *)
(* class of the result and of every parameter - an aggregate passed by value is `:tag.N`, never a base class -,    *)
(* number of parameters, variadic marker                                                                            *)
Bad_SigMatchesC(F) ==
  LET c == F.csig
  IN IF ~c.known THEN {}
     ELSE (IF F.rcls = c.rcls /\ F.rtag = c.rtag THEN {} ELSE {"ret"})
          \cup (IF Len(F.params) = Len(c.pcls) THEN {} ELSE {"nparams"})
          \cup {"param" \o ToString(i) : i \in {j \in DOMAIN F.params \cap DOMAIN c.pcls :
                                                  F.params[j].cls # c.pcls[j] \/ F.params[j].tag # c.ptag[j]}}
          \cup (IF F.variadic = c.variadic THEN {} ELSE {"variadic"})
SigMatchesC(F) == Bad_SigMatchesC(F) = {}

(* every :type named in the signature, by a call result or a call argument is defined earlier in the output *)
Bad_TypesDefinedBeforeUse_F(M, F) ==
  LET mentions ==
        (IF F.rcls = "agg" THEN {F.rty} ELSE {})
        \cup {F.params[i].ty : i \in {j \in DOMAIN F.params : F.params[j].cls = "agg"}}
        \cup UNION {UNION {LET ins == F.blocks[b].insts[n]
                           IN (IF ins.cls = "agg" THEN {ins.ty} ELSE {})
                              \cup {ins.cargs[i].ty : i \in {j \in DOMAIN ins.cargs : ins.cargs[j].cls = "agg"}}
                           : n \in DOMAIN F.blocks[b].insts} : b \in 1..NB(F)}
  IN {ty \in mentions : ~TypeDefinedBefore(M, ty, F.pos)}
TypesDefinedBeforeUse_F(M, F) == Bad_TypesDefinedBeforeUse_F(M, F) = {}

Bad_LabelsUnique(F) ==
  {F.blocks[b].name : b \in {c \in 1..NB(F) : \E d \in 1..NB(F) : d # c /\ F.blocks[d].label = F.blocks[c].label}}
LabelsUnique(F) == IsInjective([b \in 1..NB(F) |-> F.blocks[b].label])

Bad_JumpsTargetExisting(F, lb) ==
  UNION {{F.blocks[b].jump.tnames[i] : i \in {j \in DOMAIN F.blocks[b].jump.targets : lb[F.blocks[b].jump.targets[j]] = 0}}
         : b \in 1..NB(F)}
JumpsTargetExisting(F, lb) == Bad_JumpsTargetExisting(F, lb) = {}

Bad_BlocksTerminated(F) ==
  IF NB(F) = 0 THEN {"(no block)"}
  ELSE IF F.blocks[NB(F)].jump.k = "none" THEN {F.blocks[NB(F)].name} ELSE {}
BlocksTerminated(F) == Bad_BlocksTerminated(F) = {}

TempsDefinedOnce(F) == NDefSites(F) = Cardinality({p[1] : p \in DefPairs(F)})
Bad_TempsDefinedOnce(F) == IF TempsDefinedOnce(F) THEN {} ELSE {"multiple-definition"}

AllUses(F) ==
  UNION {UNION {InstUses(F.blocks[b].insts[n]) : n \in DOMAIN F.blocks[b].insts}
         \cup ValTmp(F.blocks[b].jump.arg)
         \cup UNION {UNION {ValTmp(F.blocks[b].phi[i].srcs[k].v) : k \in DOMAIN F.blocks[b].phi[i].srcs}
                     : i \in DOMAIN F.blocks[b].phi}
         : b \in 1..NB(F)}
Bad_UsesHaveDefs(F, tc) == {t \in AllUses(F) : tc[t] = ""}
UsesHaveDefs(F, tc) == Bad_UsesHaveDefs(F, tc) = {}

(* instructions and the operand of jnz *)
Bad_InstrClassOK(F, tc) ==
  UNION {{F.blocks[b].insts[n].op : n \in {k \in DOMAIN F.blocks[b].insts : ~InstOK(tc, F.blocks[b].insts[k])}}
         \cup (IF F.blocks[b].jump.k = "jnz" /\ ~ValOK(tc, F.blocks[b].jump.arg, "w") THEN {"jnz"} ELSE {})
         : b \in 1..NB(F)}
InstrClassOK(F, tc) == Bad_InstrClassOK(F, tc) = {}

(* calls of functions defined in this module *)
CallMatches(ins, g) ==
  LET np    == Len(g.params)
      fixed == SelectSeq(ins.cargs, LAMBDA a : ~a.va)
      vapos == SelectInSeq(ins.cargs, LAMBDA a : a.va)
  IN /\ ins.cls = g.rcls /\ ins.ty = g.rty
     /\ IF g.variadic
        THEN /\ Len(fixed) >= np
             /\ vapos = np + 1      \* IL reference: the marker separates named from variable arguments - also when
                                   \* there are none of the latter (x86-64: %al is only set for marked calls; /repo 98fe6bc)
        ELSE vapos = 0 /\ Len(fixed) = np
     /\ \A i \in 1..np : i <= Len(fixed) => fixed[i].cls = g.params[i].cls /\ fixed[i].ty = g.params[i].ty
Bad_CallArgsMatchCallee(M, F) ==
  UNION {{F.blocks[b].insts[n].callee.s : n \in {k \in DOMAIN F.blocks[b].insts :
            LET x == F.blocks[b].insts[k]
            IN /\ x.op = "call" /\ x.callee.t = "glob" /\ x.callee.n = 0
               /\ LET gi == SelectInSeq(M.funcs, LAMBDA g : g.name = x.callee.s)
                  IN gi # 0 /\ ~CallMatches(x, M.funcs[gi])}}
         : b \in 1..NB(F)}
CallArgsMatchCallee(M, F) == Bad_CallArgsMatchCallee(M, F) = {}

(* `ret v` needs a return class accepting v; a bare `ret` is always accepted (parse.c: Jret0) *)
Bad_RetMatchesSig(F, tc) ==
  {F.blocks[b].name : b \in {c \in 1..NB(F) :
      LET j == F.blocks[c].jump
      IN j.k = "ret" /\ j.arg.t # "none"
         /\ ~(F.rcls # "" /\ ValOK(tc, j.arg, IF F.rcls = "agg" THEN "m" ELSE F.rcls))}}
RetMatchesSig(F, tc) == Bad_RetMatchesSig(F, tc) = {}

(* typecheck(): "predecessors not matched in phi", "multiple entries for @b in phi" *)
Bad_PhiSourcesArePreds(F, fc) ==
  {F.blocks[b].name : b \in {c \in 1..NB(F) :
      \E i \in DOMAIN F.blocks[c].phi :
        LET srcs == F.blocks[c].phi[i].srcs
            ls   == {fc.lb[srcs[k].l] : k \in DOMAIN srcs}
        IN ls # fc.pred[c] \/ Cardinality(ls) # Len(srcs)}}
PhiSourcesArePreds(F, fc) == Bad_PhiSourcesArePreds(F, fc) = {}

Bad_PhiClassOK(F, tc) ==
  {F.blocks[b].name : b \in {c \in 1..NB(F) :
      \E i \in DOMAIN F.blocks[c].phi :
        LET p == F.blocks[c].phi[i]
        IN p.cls \notin Base \/ \E k \in DOMAIN p.srcs : ~ValOK(tc, p.srcs[k].v, p.cls)}}
PhiClassOK(F, tc) == Bad_PhiClassOK(F, tc) = {}

(* ------------------------------------------------------------------------ *)
(* Named obligations on the module level                                     *)
FieldOK(fld) == fld.cls \in ExtC \cup {"agg"} /\ fld.count >= 1
Bad_TypeFieldsValid(M) ==
  {M.types[i].name : i \in {j \in DOMAIN M.types :
     LET t == M.types[j]
     IN ~ CASE t.kind = "struct" -> Len(t.alts) = 1 /\ \A k \in DOMAIN t.alts[1] : FieldOK(t.alts[1][k])
          [] t.kind = "union"  -> Len(t.alts) >= 1 /\ \A a \in DOMAIN t.alts : Len(t.alts[a]) >= 1 /\ \A k \in DOMAIN t.alts[a] : FieldOK(t.alts[a][k])
          [] t.kind = "opaque" -> t.align \in Pow2 /\ t.size >= 0
          [] OTHER -> FALSE}}
TypeFieldsValid(M) == Bad_TypeFieldsValid(M) = {}

Bad_TypesDefinedBeforeUse_M(M) ==
  {M.types[i].name : i \in {j \in DOMAIN M.types :
     \E a \in DOMAIN M.types[j].alts : \E k \in DOMAIN M.types[j].alts[a] :
        LET fld == M.types[j].alts[a][k]
        IN fld.cls = "agg" /\ ~TypeDefinedBefore(M, fld.ty, M.types[j].pos)}}
TypesDefinedBeforeUse_M(M) == Bad_TypesDefinedBeforeUse_M(M) = {}

ItemOK(it) ==
  CASE it.k = "z"   -> it.n >= 0
    [] it.k = "num" -> it.cls \in {"b", "h", "w", "l"} /\ it.n >= 0
    [] it.k = "flt" -> it.cls \in FltC /\ it.n = 1
    [] it.k = "str" -> it.cls = "b"
    [] it.k = "ref" -> it.cls \in {"b", "h", "w", "l"}
    [] OTHER -> FALSE
Bad_DataItemsValid(M) ==
  {M.data[i].name : i \in {j \in DOMAIN M.data :
     ~(\A k \in DOMAIN M.data[j].items : ItemOK(M.data[j].items[k]))}}
DataItemsValid(M) == Bad_DataItemsValid(M) = {}

(* `data $x = { ... }` without an align clause gets QBE's default alignment 8 *)
EffAlign(d) == IF d.align = -1 THEN 8 ELSE d.align      \* align = -1: the definition has no align clause
ClsSize == [b |-> 1, h |-> 2, w |-> 4, l |-> 8, s |-> 4, d |-> 8]
ItemSize(it) == IF it.k = "z" \/ it.k = "str" THEN it.n ELSE ClsSize[it.cls] * it.n
DataBytes(d) == FoldLeft(LAMBDA acc, it : acc + ItemSize(it), 0, d.items)
(* csize/calign: size and alignment of the C object (H6-lite event of the instrumented build, or known *)
(* to the generator); -1 = unknown, not judged.                                                         *)
Bad_DataSize(M) ==
  {M.data[i].name : i \in {j \in DOMAIN M.data :
     LET d == M.data[j]
     IN ~d.big /\ d.csize >= 0 /\ DataBytes(d) # d.csize}}
DataSize(M) == Bad_DataSize(M) = {}
(* the alignment of a data definition is a power of two (>= 1: `align 0` is not an alignment) and at least the *)
(* alignment the C object requires (its type's alignment or its _Alignas, whichever is stricter)                *)
Bad_DataAlign(M) ==
  {M.data[i].name : i \in {j \in DOMAIN M.data :
     LET d == M.data[j]
     IN ~(d.align = -1 \/ d.align \in Pow2) \/ (d.calign >= 0 /\ EffAlign(d) < d.calign)}}
DataAlign(M) == Bad_DataAlign(M) = {}

(* no symbol (function or data: one name space for the assembler) and no type is defined twice in a module *)
Dups(names) == IF IsInjective(names) THEN {}
               ELSE {names[i] : i \in {j \in DOMAIN names : \E k \in 1..(j - 1) : names[k] = names[j]}}
Bad_NamesDefinedOnce(M) ==
  Dups([i \in 1..(Len(M.data) + Len(M.funcs)) |-> IF i <= Len(M.data) THEN M.data[i].name ELSE M.funcs[i - Len(M.data)].name])
  \cup Dups([i \in DOMAIN M.types |-> M.types[i].name])
NamesDefinedOnce(M) == Bad_NamesDefinedOnce(M) = {}

(* ------------------------------------------------------------------------ *)
(* The judgement                                                             *)
FuncFailures(M, F) ==
  LET tc == ClassTable(F)
      fc == Facts(F)
      R(name, bad) == IF bad = {} THEN {} ELSE {[ob |-> name, at |-> SetToSeq(bad)]}
  IN [fc |-> fc,
      failed |->
             R("FuncSigClasses", Bad_FuncSigClasses(M, F))
        \cup R("SigMatchesC", Bad_SigMatchesC(F))
        \cup R("TypesDefinedBeforeUse", Bad_TypesDefinedBeforeUse_F(M, F))
        \cup R("LabelsUnique", IF LabelsUnique(F) THEN {} ELSE Bad_LabelsUnique(F))
        \cup R("JumpsTargetExisting", Bad_JumpsTargetExisting(F, fc.lb))
        \cup R("BlocksTerminated", Bad_BlocksTerminated(F))
        \cup R("TempsDefinedOnce", Bad_TempsDefinedOnce(F))
        \cup R("UsesHaveDefs", {ToString(t) : t \in Bad_UsesHaveDefs(F, tc)})
        \cup R("InstrClassOK", Bad_InstrClassOK(F, tc))
        \cup R("CallArgsMatchCallee", Bad_CallArgsMatchCallee(M, F))
        \cup R("RetMatchesSig", Bad_RetMatchesSig(F, tc))
        \cup R("PhiSourcesArePreds", Bad_PhiSourcesArePreds(F, fc))
        \cup R("PhiClassOK", Bad_PhiClassOK(F, tc))]

ModuleFailures(M) ==
  LET R(name, bad) == IF bad = {} THEN {} ELSE {[ob |-> name, at |-> SetToSeq(bad)]}
  IN     R("TypesDefinedBeforeUse", Bad_TypesDefinedBeforeUse_M(M))
    \cup R("TypeFieldsValid", Bad_TypeFieldsValid(M))
    \cup R("DataItemsValid", Bad_DataItemsValid(M))
    \cup R("DataSize", Bad_DataSize(M))
    \cup R("DataAlign", Bad_DataAlign(M))
    \cup R("NamesDefinedOnce", Bad_NamesDefinedOnce(M))

(* DefDominatesUse at quiescence: every exposed use is available on entry, every phi operand at the end *)
(* of its source block.                                                                                *)
Bad_DefDominatesUse(F, fc, in) ==
  {F.blocks[b].name : b \in {c \in 1..fc.nb : ~(fc.need[c] \subseteq in[c])}}
  \cup {F.blocks[pr[1]].name : pr \in {q \in fc.phineed : q[2] \notin in[q[1]] /\ q[2] \notin fc.gen[q[1]]}}

(* The declarative reading of the whole judgement (what the verdict lines add up to). *)
StaticWellFormed(M) ==
  /\ ModuleFailures(M) = {}
  /\ \A f \in DOMAIN M.funcs : FuncFailures(M, M.funcs[f]).failed = {}

(* ------------------------------------------------------------------------ *)
(* Process clause: "status 0 is never returned with truncated, interleaved-  *)
(* with-diagnostic or otherwise malformed output".                           *)
(*   fault = "none": an ordinary run; otherwise the output channel was made  *)
(*   unable to take the whole (non-empty) output: /dev/full, closed          *)
(*   descriptor, file size limit below the output size.                      *)
ObsWhere(P(_)) == {Obs[i].id : i \in {j \in DOMAIN Obs : P(Obs[j])}}
Bad_Exit0StderrEmpty     == ObsWhere(LAMBDA o : o.rc = 0 /\ o.errlen # 0)
Bad_Exit0OutputParses    == ObsWhere(LAMBDA o : o.rc = 0 /\ ~o.parses)
Bad_Exit0EndsInNewline   == ObsWhere(LAMBDA o : o.rc = 0 /\ o.outlen > 0 /\ ~o.endsnl)
Bad_WriteFailureNotExit0 == ObsWhere(LAMBDA o : o.fault # "none" /\ o.rc = 0)
ProcFailures ==
  LET R(name, bad) == IF bad = {} THEN {} ELSE {[ob |-> name, at |-> SetToSeq(bad)]}
  IN     R("Exit0StderrEmpty", Bad_Exit0StderrEmpty)
    \cup R("Exit0OutputParses", Bad_Exit0OutputParses)
    \cup R("Exit0EndsInNewline", Bad_Exit0EndsInNewline)
    \cup R("WriteFailureNotExit0", Bad_WriteFailureNotExit0)
ProcClause == ProcFailures = {}

(* ------------------------------------------------------------------------ *)
(* The machine                                                               *)
VerdictId(mid, fname, kind, failed, n) ==
  PrintT("VCASE " \o ToJson([m |-> mid, f |-> fname, k |-> kind, failed |-> SetToSeq(failed), n |-> n]))
Verdict(m, fname, kind, failed, n) == VerdictId(Mods[m].id, fname, kind, failed, n)

Init ==
  /\ \/ unit = <<0, 0>>                                              \* the process-clause unit
     \/ \E m \in 1..NMods : \E f \in 0..Len(Mods[m].funcs) : unit = <<m, f>>
  /\ phase = "judge"
  /\ fa = <<>> /\ In = <<>> /\ work = {} /\ iters = 0

JudgeProc ==
  /\ phase = "judge" /\ unit = <<0, 0>>
  /\ VerdictId("", "", "proc", ProcFailures, Len(Obs))
  /\ phase' = "done"
  /\ UNCHANGED <<unit, fa, In, work, iters>>

JudgeModule ==
  /\ phase = "judge" /\ unit[2] = 0 /\ unit[1] > 0
  /\ Verdict(unit[1], "", "module", ModuleFailures(Mods[unit[1]]), Len(Mods[unit[1]].data))
  /\ phase' = "done"
  /\ UNCHANGED <<unit, fa, In, work, iters>>

JudgeFunc ==
  /\ phase = "judge" /\ unit[2] > 0
  /\ LET M == Mods[unit[1]]
         F == M.funcs[unit[2]]
         r == FuncFailures(M, F)
     IN /\ Verdict(unit[1], F.name, "static", r.failed, r.fc.nb)
        /\ fa' = r.fc
        /\ In' = InitIn(r.fc)
        /\ work' = 1..r.fc.nb
  /\ phase' = "flow"
  /\ UNCHANGED <<unit, iters>>

(* one evaluation of the equation of block b (design configuration: any b of the worklist) *)
Propagate(b) ==
  /\ phase = "flow" /\ b \in work
  /\ FreeOrder
  /\ In' = [In EXCEPT ![b] = NewIn(fa, In, b)]
  /\ work' = NewWork(fa, In, work, b)
  /\ iters' = iters + 1
  /\ UNCHANGED <<unit, phase, fa>>

(* one sweep = Propagate for every block of the worklist in layout order, blocks that enter the       *)
(* worklist behind the cursor are taken in the same sweep (production configuration: one TLC state   *)
(* per sweep instead of one per block evaluation; the fixpoint reached is the same, FlowFixpoint      *)
(* checks it at quiescence and MC_QbeWF_design.cfg checks confluence of the single steps).            *)
SweepResult ==
  FoldLeft(LAMBDA acc, b :
             IF b \notin acc.w THEN acc
             ELSE LET n == NewIn(fa, acc.in, b)
                  IN IF n = acc.in[b] THEN [acc EXCEPT !.w = @ \ {b}]
                     ELSE [in |-> [acc.in EXCEPT ![b] = n], w |-> (acc.w \ {b}) \cup fa.succ[b]],
           [in |-> In, w |-> work], [i \in 1..fa.nb |-> i])
Sweep ==
  /\ phase = "flow" /\ work # {}
  /\ ~FreeOrder
  /\ In' = SweepResult.in
  /\ work' = SweepResult.w
  /\ iters' = iters + 1
  /\ UNCHANGED <<unit, phase, fa>>

Finish ==
  /\ phase = "flow" /\ work = {}
  /\ LET F == Mods[unit[1]].funcs[unit[2]]
         bad == Bad_DefDominatesUse(F, fa, In)
     IN Verdict(unit[1], F.name, "flow",
                IF bad = {} THEN {} ELSE {[ob |-> "DefDominatesUse", at |-> SetToSeq(bad)]}, iters)
  /\ phase' = "done"
  /\ UNCHANGED <<unit, fa, In, work, iters>>

Next == JudgeProc \/ JudgeModule \/ JudgeFunc \/ (\E b \in work : Propagate(b)) \/ Sweep \/ Finish

Spec == Init /\ [][Next]_vars

(* ------------------------------------------------------------------------ *)
(* Invariants of the machine itself (a failure here is a machinery error).   *)
TypeOK ==
  /\ phase \in {"judge", "flow", "done"}
  /\ phase # "judge" /\ unit[2] > 0 => work \subseteq 1..fa.nb

(* the analysis only ever shrinks from the top element and never drops an entry temporary *)
FlowMonotone ==
  phase = "flow" => \A b \in 1..fa.nb : In[b] \subseteq Top(fa, b) /\ fa.entry \subseteq In[b]

(* at quiescence the result is the fixpoint ... *)
FlowFixpoint ==
  phase = "flow" /\ work = {} => \A b \in 1..fa.nb : In[b] = NewIn(fa, In, b)

(* ... and (design check, small functions only) it is the declarative dominance relation *)
FlowIsDominance ==
  phase = "flow" /\ work = {} /\ fa.nb <= 12 /\ TempsDefinedOnce(Mods[unit[1]].funcs[unit[2]])
    => In = DeclIn(fa)
=============================================================================
