SPECIFICATION Spec
CONSTANTS
  Keys = {1, 2, 3, 4, 5, 6, 7, 8, 9, 10, 11, 12}
  Vals = {1, 2, 3}
  Cap0 = 8
  HashRange = 32
  MaxOps = 14
INVARIANTS Inv_Lookup Inv_Len Inv_NeverFull Inv_Emit
CHECK_DEADLOCK FALSE
