\* every named rule at every feasible position of every base: witnesses (Violate_r / Use_u) and valid twins (Benign)
SPECIFICATION Spec
CONSTANTS
  BaseIds = {"b01", "b02", "b07", "b08", "b15", "b21", "b22", "b23", "b24", "b25", "b26", "b27", "b28", "b29", "b30", "b31", "b32"}
  PosSet = {"file", "block", "nested", "macro"}
  Mode = {"witness", "benign"}
  Forms = {}
INVARIANTS TypeOK Inv_Claim
CHECK_DEADLOCK FALSE
