\* every named rule at every feasible position of every base: witnesses (Violate_r / Use_u) and valid twins (Benign)
SPECIFICATION Spec
CONSTANTS
  BaseIds = {"b01", "b02", "b07", "b08", "b15"}
  PosSet = {"file", "block", "nested", "macro"}
  Mode = {"witness", "benign"}
  Forms = {}
INVARIANTS TypeOK Inv_Claim
CHECK_DEADLOCK FALSE
