INIT FullInit
NEXT FullNext
CONSTANTS
  Which = "main"
INVARIANTS TypeOK Inv_EmitFull
CHECK_DEADLOCK FALSE
