SPECIFICATION Spec
CONSTANTS
  Ids = {"x", "y", "z"}
  MaxLen = 3
  MaxDepth = 2
  MixKinds = TRUE
  AsmForms = TRUE
  AsmFirst = FALSE
  Kinds = {"obj", "func"}
  Family = "declarators"
  DevsOn = {"ThreadNoTentative", "ThreadMismatchNotDiagnosed", "InlineLateExternal", "NoUsedInternalUndefDiag"}
  OkPrefix = FALSE
  SampleMod = 1
  Emit = "all"
INVARIANTS Inv_Refines Inv_OneDef Inv_ExportedExt Inv_FiredExplains Inv_Emit
CHECK_DEADLOCK FALSE
