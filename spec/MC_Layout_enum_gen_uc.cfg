SPECIFICATION Spec
CONSTANTS
  Mode = "enum"
  MaxLen = 6
  MaxPool = 1
  MaxSize = 64
  Raise = FALSE
  Devs = {}
  Widths = {}
  Emit = TRUE
  CharSigned = FALSE
  EUSuffixed = {0, 1, 63, 64, 127, 128, 2047, 2048, 4095}
  GenClasses = {"scalar", "array", "bitfield", "nested", "anon", "alignas", "flex"}
  GenPacked = TRUE
  McSel = "full"
  CheckSim = FALSE
INVARIANTS Inv_EmitEnum
CHECK_DEADLOCK FALSE
