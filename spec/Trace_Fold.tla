----------------------------- MODULE Trace_Fold -----------------------------
(* Flow B of C04: every fold event recorded by hook H2 in eval.c (end of         *)
(* binary(), unary() and of the EXPRCAST branch of eval()) is judged against      *)
(* CArith:                                                                        *)
(*   - the implementation-shaped step (FoldBinary / FoldNeg / FoldCast with the   *)
(*     deviations of the configuration) must produce exactly the logged result;   *)
(*   - the declarative value (ConstEval of the one-operator expression the event  *)
(*     stands for) must be that result too, unless a named deviation fired.       *)
(* Fold events are independent of each other (the folder has no state), so the    *)
(* harness hands them over de-duplicated, as groups of chunks:                     *)
(*   IOEnv.TRACE = JSON file  [ group ... ],  group = [ chunk ... ],               *)
(*   chunk = [ event ... ],  event = {i, fn, op, lkind, lsize, lsigned, kind,      *)
(*   size, signed, l, r, res} with l, r, res as 8 little-endian bytes.             *)
(* One VCASE line per chunk lists the events that are not plainly accepted.       *)
EXTENDS CArith, IOUtils, Sequences

VARIABLES ph, gi, ci
vars == <<ph, gi, ci>>

Trace == JsonDeserialize(IOEnv.TRACE)

TyOf(k, z, sg) ==
  CASE k = "b" -> "bool"
    [] k = "f" -> (IF z = 4 THEN "float" ELSE IF z = 8 THEN "double" ELSE "ldouble")
    [] k = "p" -> "ulong"                         \* pointers, nullptr_t: 64 bits, no conversion
    [] k = "i" -> (CASE z = 1 -> (IF sg = 1 THEN "schar" ELSE "uchar")
                     [] z = 2 -> (IF sg = 1 THEN "short" ELSE "ushort")
                     [] z = 4 -> (IF sg = 1 THEN "int" ELSE "uint")
                     [] z = 8 -> (IF sg = 1 THEN "long" ELSE "ulong"))
SizeOfT(t) == IF t = "float" THEN 4 ELSE IF t = "double" THEN 8 ELSE CastBits(t) \div 8
TyKey(t) == <<IsFloat(t), SizeOfT(t), IsFloat(t) \/ IsSigned(t), t = "bool">>

(* IEEE-754 binary64 bit pattern -> exact dyadic; ok = FALSE for infinities and NaNs *)
DecodeD(b) ==
  LET neg  == b[8] >= 128
      ex   == (b[8] % 128) * 16 + (b[7] \div 16)
      frac == [i \in 1..ZB |-> IF i <= 6 THEN b[i] ELSE IF i = 7 THEN b[7] % 16 ELSE 0]
      mm   == IF ex = 0 THEN frac ELSE [frac EXCEPT ![7] = @ + 16]        \* hidden bit 2^52
      d    == DNorm(IF neg THEN Neg(mm) ELSE mm, IF ex = 0 THEN -1074 ELSE ex - 1075)
  IN [ok |-> ex # 2047, d |-> d]

KOf(t, b) == IF IsFloat(t) THEN KF(t, DecodeD(b).d) ELSE KI(t, b)
FiniteOf(t, b) == IsFloat(t) => DecodeD(b).ok
(* the operand as a value of its type, for the declarative side *)
ZOfOperand(t, b) == ZWrapT(CToZU(b), CastBits(t), IsSigned(t))
LitOf(t, b) == IF IsFloat(t) THEN Lit(t, DecodeD(b).d) ELSE Lit(t, ZOfOperand(t, b))
ValidOperand(t, b) == IsFloat(t) \/ InRange(ZOfOperand(t, b), t)

Judge(ev) ==
  LET lt == TyOf(ev.lkind, ev.lsize, ev.lsigned)
      t  == TyOf(ev.kind, ev.size, ev.signed)
  IN IF "ldouble" \in {lt, t} THEN [cls |-> "skip-ldouble", dv |-> {}]
     ELSE IF ~FiniteOf(lt, ev.l) \/ (ev.fn = "binary" /\ ~FiniteOf(lt, ev.r)) \/ ~FiniteOf(t, ev.res)
          THEN [cls |-> "skip-nonfinite", dv |-> {}]
     ELSE
     LET lk == KOf(lt, ev.l)
         rk == KOf(lt, ev.r)
         got == KOf(t, ev.res)
         model == CASE ev.fn = "binary" -> FoldBinary(ev.op, t, lk, rk)
                    [] ev.fn = "unary" -> FoldNeg(t, lk)
                    [] ev.fn = "cast" -> FoldCast(t, lk)
         \* right operand of a shift: its own (promoted) type is not logged; counts >= 64 are undefined anyway
         rlit == IF ev.op \in ShiftOps THEN Lit("ulong", CToZU(ev.r)) ELSE LitOf(lt, ev.r)
         \* (P + C1) +- C2 folds byte offsets into the node of C2: C1 is unsigned long, the result has the type of C2
         \* (long for `(long)&a[1] + 2`): same width, the value is the unsigned result converted to that type
         offs == /\ ev.fn = "binary" /\ ev.op \in {"+", "-"} /\ IsInt(lt) /\ IsInt(t)
                 /\ CastBits(lt) = CB /\ CastBits(t) = CB /\ TyKey(lt) # TyKey(t)
         surf == CASE ev.fn = "binary" /\ offs -> ECast(t, EBin(ev.op, LitOf(lt, ev.l), rlit))
                   [] ev.fn = "binary" /\ ~offs -> EBin(ev.op, LitOf(lt, ev.l), rlit)
                   [] ev.fn = "unary" -> EUn("-", LitOf(lt, ev.l))
                   [] ev.fn = "cast" -> ECast(t, LitOf(lt, ev.l))
         valid == ValidOperand(lt, ev.l) /\ (ev.fn = "binary" /\ ev.op \notin ShiftOps => ValidOperand(lt, ev.r))
         decl == ConstEval(surf)
         \* an operand whose type is not the type the parser gave the operation: only reachable when `||`/`&&`
         \* handed one of their operands (of any type) to an enclosing operator typed for an int
         mistyped == /\ ev.fn \in {"binary", "unary"}
                     /\ ev.op \notin RelOps
                     /\ TyKey(lt) # TyKey(t)
                     /\ ~offs
         declok == /\ TyKey(decl.t) = TyKey(t)
                   /\ IF IsFloat(t) THEN got.f = decl.v ELSE got.u = COfZ(decl.v)
     IN IF model.st = "unspec" THEN [cls |-> "skip-unspec", dv |-> model.dv]
        ELSE IF model.st # "ok" THEN [cls |-> "bad-model-no-result", dv |-> model.dv]      \* error()/trap leave no event
        ELSE IF model.n # got THEN [cls |-> "bad-model", dv |-> model.dv]
        ELSE IF ~valid THEN [cls |-> "ok-noncanonical-operand", dv |-> model.dv]
        ELSE IF decl.st # "ok" THEN [cls |-> "ok-undefined", dv |-> model.dv]
        ELSE IF declok THEN [cls |-> "ok", dv |-> {}]
        ELSE IF model.dv # {} THEN [cls |-> "dev", dv |-> model.dv]
        ELSE IF mistyped /\ Dev_LogicalReturnsOperand THEN [cls |-> "dev", dv |-> {"LogicalReturnsOperand"}]
        ELSE [cls |-> "bad-decl", dv |-> {}]

Init == ph = 0 /\ gi = 0 /\ ci = 0
Next ==
  \/ ph = 0 /\ ph' = 1 /\ gi' \in 1..Len(Trace) /\ UNCHANGED ci
  \/ ph = 1 /\ ph' = 2 /\ ci' \in 1..Len(Trace[gi]) /\ UNCHANGED gi
Spec == Init /\ [][Next]_vars

Verdict(ev) == LET j == Judge(ev) IN [i |-> ev.i, cls |-> j.cls, dv |-> j.dv]
(* one line per chunk: number of events judged and the verdicts that are not a plain "ok" *)
Inv_Judge ==
  ph = 2 =>
    LET ch == Trace[gi][ci] IN
    PrintT("VCASE " \o ToJson([n |-> Len(ch), v |-> {x \in {Verdict(ch[k]) : k \in 1..Len(ch)} : x.cls # "ok"}]))
=============================================================================
