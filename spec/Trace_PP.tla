------------------------------ MODULE Trace_PP ------------------------------
(* Flow B for pp.c: the H7 events (define / undef return, expand's push,        *)
(* macrodone's pop, expandfunc's return; guard CPROC_VERIF) recorded while the   *)
(* real preprocessor runs are accepted iff they obey the hide discipline of      *)
(* MacroDisc.tla at every step:                                                  *)
(*   push: macro defined, not live, depth = frames + 1, a function-like macro    *)
(*         is pushed immediately after its arguments were collected;             *)
(*   pop:  the top frame's macro, depth = frames - 1;                            *)
(*   args: function-like, n = number of parameters, macro not live;              *)
(*   def/undef: only while no frame is live;  End (run exited 0): no frame live. *)
(* Executions are concatenated with {"e":"Reset"}.                               *)
EXTENDS MacroDisc, Integers, TLC, Json, IOUtils

CONSTANT AllowHidden   \* deviation StaleDepth: an invocation may end inside a live expansion of the same macro

Trace == ndJsonDeserialize(IOEnv.TRACE)

VARIABLES stk,   \* macros with a live replacement-list frame, bottom first
          tbl,   \* macro table: name -> [fn, np]
          last,  \* the macro whose arguments were collected by the immediately preceding event ("" if none)
          l
tvars == <<stk, tbl, last, l>>

ev == Trace[l]
IsEvent(name) == l <= Len(Trace) /\ ev.e = name /\ l' = l + 1
Defined(m) == m \in DOMAIN tbl

TInit == stk = <<>> /\ tbl = <<>> /\ last = "" /\ l = 1

EvReset == IsEvent("Reset") /\ stk' = <<>> /\ tbl' = <<>> /\ last' = ""
EvEnd   == IsEvent("End") /\ stk = <<>> /\ UNCHANGED <<stk, tbl>> /\ last' = ""
EvDef   == /\ IsEvent("def") /\ ev.live = 0 /\ stk = <<>>
           /\ tbl' = [n \in DOMAIN tbl \cup {ev.macro} |-> IF n = ev.macro THEN [fn |-> ev.fn = 1, np |-> ev.nparam] ELSE tbl[n]]
           /\ UNCHANGED stk /\ last' = ""
EvUndef == /\ IsEvent("undef") /\ ev.live = 0 /\ stk = <<>> /\ (ev.was = 1 <=> Defined(ev.macro))
           /\ tbl' = [n \in DOMAIN tbl \ {ev.macro} |-> tbl[n]]
           /\ UNCHANGED stk /\ last' = ""
EvArgs  == /\ IsEvent("args") /\ Defined(ev.macro) /\ tbl[ev.macro].fn /\ ev.n = tbl[ev.macro].np
           /\ ev.depth = Len(stk)
           /\ (AllowHidden \/ (ev.hidden = 0 /\ ev.macro \notin RangeOf(stk)))
           /\ last' = ev.macro /\ UNCHANGED <<stk, tbl>>
EvPush  == /\ IsEvent("push") /\ Defined(ev.macro) /\ (ev.fn = 1 <=> tbl[ev.macro].fn)
           /\ (ev.fn = 1 => last = ev.macro)
           /\ ev.depth = Len(stk) + 1
           /\ (ev.hidden = 1 <=> ev.macro \in RangeOf(stk))
           /\ stk' = Append(stk, ev.macro) /\ DiscStep(stk, stk', AllowHidden)
           /\ last' = "" /\ UNCHANGED tbl
EvPop   == /\ IsEvent("pop") /\ stk # <<>> /\ stk[Len(stk)] = ev.macro /\ ev.depth = Len(stk) - 1
           /\ stk' = SubSeq(stk, 1, Len(stk) - 1) /\ last' = "" /\ UNCHANGED tbl

TNext == EvReset \/ EvEnd \/ EvDef \/ EvUndef \/ EvArgs \/ EvPush \/ EvPop
TSpec == TInit /\ [][TNext]_tvars

TraceAccepted == TLCGet("stats").diameter = Len(Trace) + 1
=============================================================================
