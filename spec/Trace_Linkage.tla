---------------------------- MODULE Trace_Linkage ----------------------------
(* Flow B for Linkage.tla (C09): the H6 events written by the -DCPROC_VERIF      *)
(* build of decl.c / qbe.c during real compilations must be a behaviour of the   *)
(* implementation-shaped model (with the deviations of the shipped code, DevsOn): *)
(* every declcommon decision (which struct decl the declaration resolved to, its  *)
(* linkage, whether a same-scope prior existed), every tentative enqueue, every   *)
(* definition emitted (export/thread/.L naming) and the flags left in the decl    *)
(* (defined, tentative, inline definition, storage duration), including the        *)
(* definitions emittentativedefns() flushes at the end of the unit.                *)
(*                                                                                 *)
(* Events (pointers renumbered, scopes turned into paths by the harness from the   *)
(* H8 open/close events):                                                          *)
(*  other   {name, path}                 scopeputdecl of a decl declcommon did not  *)
(*                                       create (parameter, typedef, enumerator...) *)
(*  decl    {name, path, kind, sc, tls, inl, asm, prior, link, d}                   *)
(*  tent    {d}                          appended to tentativedefns                 *)
(*  def     {d, kind, export, thread, lid, asm}     emitdata / emitfunc entry       *)
(*  declend {d, def, defined, tent, inldef, stor}                                   *)
(*  eot     {}                           emittentativedefns entered                  *)
(*  Reset   {ok}                         next execution (ok: it exited 0)            *)
EXTENDS Linkage, IOUtils

Trace == ndJsonDeserialize(IOEnv.TRACE)
NT == Len(Trace)

VARIABLES l,        \* cursor
          tm,       \* model state (same record as mOn)
          stk,      \* declarations whose initializer/body is being parsed: [d, i, h, tents, defs]
          dmap,     \* logged decl id -> heap index
          cnt,      \* declarations seen in this execution
          phase,    \* "run" | "flush"
          flushq    \* definitions emittentativedefns must still emit, in order

tvars == <<l, tm, stk, dmap, cnt, phase, flushq>>

OtherRec(name, path) ==
  [id |-> name, kind |-> "other", link |-> "none", path |-> path, defined |-> FALSE, tent |-> FALSE, stor |-> "",
   inldef |-> FALSE, alloc |-> FALSE, thr |-> FALSE, lid |-> 0, asm |-> "", body |-> 0, at |-> 0]

DefView(o) == [kind |-> o.kind, export |-> o.export, thread |-> o.thread, lid |-> (o.ent # 0), asm |-> (o.sym # o.id)]
EvView(ev) == [kind |-> ev.kind, export |-> ev.export, thread |-> ev.thread, lid |-> ev.lid, asm |-> ev.asm]
Drop(s, n) == SubSeq(s, n + 1, Len(s))

TInit == /\ l = 1 /\ tm = M0 /\ stk = <<>> /\ dmap = <<>> /\ cnt = 0 /\ phase = "run" /\ flushq = <<>>
         /\ hist = <<>> /\ nblk = 0 /\ mOff = M0 /\ mOn = M0

DMapGet(d) == LET K == {k \in 1..Len(dmap) : dmap[k].d = d} IN IF K = {} THEN 0 ELSE dmap[CHOOSE k \in K : TRUE].h

EvOther(ev) ==
  /\ ev.e = "other" /\ phase = "run"
  /\ tm' = [tm EXCEPT !.heap = Append(@, OtherRec(ev.name, ev.path))]
  /\ UNCHANGED <<stk, dmap, cnt, phase, flushq>>

EvDecl(ev) ==
  /\ ev.e = "decl" /\ phase = "run"
  /\ LET d == [id |-> ev.name, path |-> ev.path, sc |-> ev.sc, tls |-> ev.tls, inl |-> ev.inl, kind |-> ev.kind,
               def |-> "none", asm |-> ev.asm]
         p == Phase1(tm, d, cnt + 1, DevsOn)
         known == DMapGet(ev.d)
     IN /\ p.m.err = ""                                              \* the compiler went on, so must the model
        /\ (Lookup(tm, ev.name, ev.path) # 0) = ev.prior             \* same-scope prior found
        /\ p.m.heap[p.h].link = ev.link                              \* the linkage decided
        /\ IF known # 0 THEN p.h = known                             \* the struct decl returned
           ELSE p.h = Len(tm.heap) + 1
        /\ dmap' = IF known # 0 THEN dmap ELSE Append(dmap, [d |-> ev.d, h |-> p.h])
        /\ tm' = p.m
        /\ stk' = <<[d |-> d, i |-> cnt + 1, h |-> p.h, ev |-> ev.d, tents |-> 0, defs |-> <<>>]>> \o stk
        /\ cnt' = cnt + 1
  /\ UNCHANGED <<phase, flushq>>

(* the model diagnoses this declaration after declcommon has returned (e.g. the 6.7.1p3 check of the repaired *)
(* model): accepted only if the compiler indeed stopped right here with a failure status                    *)
EvDeclErr(ev) ==
  /\ ev.e = "decl" /\ phase = "run"
  /\ LET d == [id |-> ev.name, path |-> ev.path, sc |-> ev.sc, tls |-> ev.tls, inl |-> ev.inl, kind |-> ev.kind,
               def |-> "none", asm |-> ev.asm]
     IN Phase1(tm, d, cnt + 1, DevsOn).m.err # ""
  /\ l < NT /\ Trace[l + 1].e = "Reset" /\ ~Trace[l + 1].ok
  /\ UNCHANGED <<tm, stk, dmap, cnt, phase, flushq>>

EvTent(ev) ==
  /\ ev.e = "tent" /\ phase = "run" /\ stk # <<>> /\ stk[1].ev = ev.d
  /\ stk' = [stk EXCEPT ![1].tents = @ + 1]
  /\ UNCHANGED <<tm, dmap, cnt, phase, flushq>>

EvDefRun(ev) ==
  /\ ev.e = "def" /\ phase = "run" /\ stk # <<>> /\ stk[1].ev = ev.d
  /\ stk' = [stk EXCEPT ![1].defs = Append(@, EvView(ev))]
  /\ UNCHANGED <<tm, dmap, cnt, phase, flushq>>

EvDeclEnd(ev) ==
  /\ ev.e = "declend" /\ phase = "run" /\ stk # <<>> /\ stk[1].ev = ev.d
  /\ LET fr == stk[1]
         d  == [fr.d EXCEPT !.def = ev.def]
         m2 == Phase2(tm, d, fr.i, fr.h, DevsOn)
         r  == m2.heap[fr.h]
     IN /\ m2.err = ""
        /\ Len(m2.tent) - Len(tm.tent) = fr.tents                                     \* tentative enqueue
        /\ [k \in 1..(Len(m2.out) - Len(tm.out)) |-> DefView(m2.out[Len(tm.out) + k])] = fr.defs   \* definitions emitted
        /\ r.defined = ev.defined
        /\ r.tent = ev.tent
        /\ (d.kind = "func" => r.inldef = ev.inldef)
        /\ (d.kind = "obj" => r.stor = ev.stor)
        /\ tm' = m2
  /\ stk' = Drop(stk, 1)
  /\ UNCHANGED <<dmap, cnt, phase, flushq>>

EvEot(ev) ==
  /\ ev.e = "eot" /\ phase = "run" /\ stk = <<>>
  /\ LET m1 == FlushTent(tm, 1) IN
       /\ flushq' = [k \in 1..(Len(m1.out) - Len(tm.out)) |->
                       [v |-> DefView(m1.out[Len(tm.out) + k]), id |-> m1.out[Len(tm.out) + k].id]]
       /\ tm' = m1
  /\ phase' = "flush"
  /\ UNCHANGED <<stk, dmap, cnt>>

EvDefFlush(ev) ==
  /\ ev.e = "def" /\ phase = "flush" /\ flushq # <<>>
  /\ flushq[1].v = EvView(ev) /\ flushq[1].id = ev.name
  /\ flushq' = Drop(flushq, 1)
  /\ UNCHANGED <<tm, stk, dmap, cnt, phase>>

EvReset(ev) ==
  /\ ev.e = "Reset"
  /\ ev.ok => (stk = <<>> /\ phase = "flush" /\ flushq = <<>>)
  /\ tm' = M0 /\ stk' = <<>> /\ dmap' = <<>> /\ cnt' = 0 /\ phase' = "run" /\ flushq' = <<>>

TStep ==
  /\ l <= NT
  /\ LET ev == Trace[l] IN
       EvOther(ev) \/ EvDecl(ev) \/ EvDeclErr(ev) \/ EvTent(ev) \/ EvDefRun(ev) \/ EvDeclEnd(ev) \/ EvEot(ev) \/ EvDefFlush(ev) \/ EvReset(ev)
  /\ l' = l + 1
  /\ UNCHANGED vars

TSpec == TInit /\ [][TStep]_<<tvars, vars>>

Consumed == TLCGet("stats").diameter - 1
TraceAccepted ==
  IF Consumed >= NT THEN TRUE
  ELSE /\ PrintT("REJECT " \o ToJson([line |-> Consumed + 1, event |-> Trace[Consumed + 1]]))
       /\ FALSE
=============================================================================
