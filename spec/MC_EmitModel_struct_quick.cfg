SPECIFICATION Spec
CONSTANTS
  Labels = {"a"}
  MaxCalls = 4
  MaxBlocks = 24
  ApiLevel = FALSE
  Structured = TRUE
  DevUndefinedGoto = FALSE
  DevDuplicateLabel = FALSE
  EmitCases = TRUE
INVARIANTS Inv_Terminates Inv_BlocksTerminated Inv_JumpsTargetExisting Inv_LabelsUnique Inv_NothingLost Inv_Emit
CHECK_DEADLOCK FALSE
