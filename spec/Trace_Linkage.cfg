SPECIFICATION TSpec
CONSTANTS
  Ids = {"x"}
  MaxLen = 0
  MaxDepth = 0
  MixKinds = TRUE
  AsmForms = TRUE
  AsmFirst = FALSE
  Kinds = {"obj", "func"}
  Family = "all"
  DevsOn = {"ThreadNoTentative", "ThreadMismatchNotDiagnosed", "InlineLateExternal", "NoUsedInternalUndefDiag"}
  OkPrefix = FALSE
  SampleMod = 1
  Emit = "none"
POSTCONDITION TraceAccepted
CHECK_DEADLOCK FALSE
