\* design-level check: PPModel with every deviation off refines the declarative Expand on space "q4"
SPECIFICATION Spec
CONSTANTS
  Devs <- NoDevs
  Space = "q4"
  Modes = {"E"}
  EmitCases = FALSE
INVARIANTS Inv_Ctx Inv_End Inv_Conform
CHECK_DEADLOCK FALSE
