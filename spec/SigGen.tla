------------------------------- MODULE SigGen -------------------------------
(* Property C03: the SIGNATURE dimension of the generated inputs.              *)
(*                                                                             *)
(* WfGen draws function BODIES; every function it calls has a fixed, fully     *)
(* named parameter list.  This module enumerates, exhaustively within the      *)
(* bounds of the configuration, the shapes of a function DEFINITION that is    *)
(* also CALLED in the same translation unit:                                   *)
(*   - 0..NP parameters, each of any type of Types (one or more C types per    *)
(*     QBE class: w, l, s, d and aggregates: small / large struct, union,      *)
(*     struct with a nested struct), each NAMED or UNNAMED (C23 6.9.1p5: the   *)
(*     identifier of a parameter of a definition may be omitted);              *)
(*   - the return type (void or any type of Rets);                             *)
(*   - variadic or not (at least one parameter; the call then passes three     *)
(*     variable arguments of classes w, d, aggregate);                         *)
(*   - the layout of the unit: definition before the caller ("dc"), or         *)
(*     prototype, caller, definition ("pcd": the call is what mentions the     *)
(*     aggregate types first).                                                 *)
(* Every case is one translation unit (so that an aggregate type is mentioned  *)
(* for the first time by the case itself).                                     *)
(*                                                                             *)
(* The case carries the signature the IL must show (csig): the class of the    *)
(* result and of every parameter - by value aggregates are `:tag.N`, never a   *)
(* base class - and the variadic flag.  QbeWF judges the printed module: the   *)
(* header against csig (SigMatchesC) and every call against the header         *)
(* (CallArgsMatchCallee), so header, call and C signature agree pairwise.      *)
EXTENDS Naturals, Sequences, FiniteSets, TLC, Json

CONSTANTS NP,         \* maximal number of parameters
          Types,      \* indices into TyTab admitted as parameter types
          Rets,       \* indices into TyTab admitted as return types (0 = void)
          Shapes      \* admitted <<variadic, layout>> pairs

(* cty: C spelling; cls: QBE base class of a parameter / result of that type ("agg": passed by value as   *)
(* an aggregate, the IL names the type `:tag.N`); arg: an lvalue of that type declared by the prologue;   *)
(* use: how the body reads a named parameter p of that type (# = p) as a long                              *)
TyTab == <<
  [cty |-> "int",        cls |-> "w",   tag |-> "",   arg |-> "gi",  use |-> "#"],
  [cty |-> "char",       cls |-> "w",   tag |-> "",   arg |-> "gc",  use |-> "#"],
  [cty |-> "unsigned short", cls |-> "w", tag |-> "", arg |-> "gh",  use |-> "#"],
  [cty |-> "long",       cls |-> "l",   tag |-> "",   arg |-> "gl",  use |-> "#"],
  [cty |-> "char *",     cls |-> "l",   tag |-> "",   arg |-> "gp",  use |-> "#[0]"],
  [cty |-> "float",      cls |-> "s",   tag |-> "",   arg |-> "gf",  use |-> "#"],
  [cty |-> "double",     cls |-> "d",   tag |-> "",   arg |-> "gd",  use |-> "#"],
  [cty |-> "struct SA",  cls |-> "agg", tag |-> "SA", arg |-> "gsa", use |-> "#.a"],
  [cty |-> "struct SB",  cls |-> "agg", tag |-> "SB", arg |-> "gsb", use |-> "#.c"],
  [cty |-> "union UA",   cls |-> "agg", tag |-> "UA", arg |-> "gua", use |-> "#.l"],
  [cty |-> "struct SN",  cls |-> "agg", tag |-> "SN", arg |-> "gsn", use |-> "#.in.a"],
  [cty |-> "enum EN",    cls |-> "w",   tag |-> "",   arg |-> "gen", use |-> "#"],
  [cty |-> "_Bool",      cls |-> "w",   tag |-> "",   arg |-> "gb",  use |-> "#"] >>

(* configurations (cfg files cannot write tuples) *)
ShapesAll   == {<<FALSE, "dc">>, <<FALSE, "pcd">>, <<TRUE, "dc">>, <<TRUE, "pcd">>}
ShapesQuick == {<<FALSE, "dc">>, <<FALSE, "pcd">>, <<TRUE, "dc">>}
TypesAll    == 1..13
TypesQuick  == {1, 4, 5, 6, 7, 8, 9, 10, 11}      \* one scalar per class, pointer, every aggregate
TypesCore   == {1, 4, 6, 7, 8}                    \* one type per class (three-parameter configuration)
RetsAll     == 0..13
RetsQuick   == {0, 1, 8}

Void == [cty |-> "void", cls |-> "", tag |-> "", arg |-> "", use |-> ""]
Ty(i) == IF i = 0 THEN Void ELSE TyTab[i]

Param == [ty : Types, named : BOOLEAN]
ParamSeqs == UNION {[1..n -> Param] : n \in 0..NP}

VARIABLE sig
vars == <<sig>>

Init ==
  \E ps \in ParamSeqs, r \in Rets, sh \in Shapes :
    /\ sh[1] => Len(ps) >= 1        \* (`int f(...)` is C23 too, but gcc 12 cannot audit it: pinned input variadic-no-named-parameter)
    /\ sig = [ps |-> ps, ret |-> r, variadic |-> sh[1], layout |-> sh[2]]

Next == UNCHANGED sig
Spec == Init /\ [][Next]_vars

(* the signature the emitted `function` header must show *)
CSig(s) ==
  [known |-> TRUE, rcls |-> Ty(s.ret).cls, rtag |-> Ty(s.ret).tag,
   pcls |-> [i \in 1..Len(s.ps) |-> TyTab[s.ps[i].ty].cls],
   ptag |-> [i \in 1..Len(s.ps) |-> TyTab[s.ps[i].ty].tag],
   variadic |-> s.variadic]

Emit ==
  PrintT("VCASE " \o ToJson(
    [ret |-> Ty(sig.ret).cty, retarg |-> Ty(sig.ret).arg,
     vargs |-> IF sig.variadic THEN <<"gi", "gd", "gsa">> ELSE <<>>,     \* variable arguments of the call: w, d, aggregate
     callersig |-> [known |-> TRUE, rcls |-> "", rtag |-> "", pcls |-> <<>>, ptag |-> <<>>, variadic |-> FALSE],
     ps |-> [i \in 1..Len(sig.ps) |-> [cty |-> TyTab[sig.ps[i].ty].cty, named |-> sig.ps[i].named,
                                       arg |-> TyTab[sig.ps[i].ty].arg, use |-> TyTab[sig.ps[i].ty].use]],
     variadic |-> sig.variadic, layout |-> sig.layout,
     nunnamed |-> Cardinality({i \in 1..Len(sig.ps) : ~sig.ps[i].named}),
     nagg |-> Cardinality({i \in 1..Len(sig.ps) : TyTab[sig.ps[i].ty].cls = "agg"}),
     csig |-> CSig(sig)]))
=============================================================================
