SPECIFICATION Spec
CONSTANTS
  Labels = {"a"}
  MaxCalls = 8
  MaxBlocks = 40
  ApiLevel = FALSE
  Structured = TRUE
  DevUndefinedGoto = FALSE
  DevDuplicateLabel = FALSE
  EmitCases = TRUE
INVARIANTS Inv_Terminates Inv_BlocksTerminated Inv_JumpsTargetExisting Inv_LabelsUnique Inv_NothingLost Inv_Emit
CHECK_DEADLOCK FALSE
