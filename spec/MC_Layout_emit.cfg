SPECIFICATION Spec
CONSTANTS
  Mode = "mc"
  MaxLen = 2
  MaxPool = 1
  MaxSize = 64
  Raise = FALSE
  Devs = {}
  Widths = {0, 1, 3, 7, 8, 9, 15, 16, 17, 31, 32, 33, 63, 64}
  Emit = TRUE
  CharSigned = TRUE
  EUSuffixed = {}
  GenClasses = {"scalar", "array", "bitfield", "nested", "anon", "alignas", "flex"}
  GenPacked = TRUE
  McSel = "full"
  CheckSim = FALSE
INVARIANTS Inv_RefineStep Inv_RefineDone Inv_ImplSane Inv_Emit
CHECK_DEADLOCK FALSE
