SPECIFICATION Spec
CONSTANTS
  TopTypes = {"P", "N", "SA", "U"}
  MaxTok = 6
  MaxIdx = 2
  AllowAgg = TRUE
  DevOn = {}
  Salt = 0
  EmitCases = FALSE
  FormsOn = {"plain"}
  Prune = TRUE
INVARIANTS TypeOK StackDepth ListSortedDisjoint Refinement
CHECK_DEADLOCK FALSE
