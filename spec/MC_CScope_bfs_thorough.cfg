\* exhaustive: every program of <= 4 items over 2 names (design check of the generator + systematic short programs)
SPECIFICATION CSpec
CONSTANTS
  Names = {1, 2}
  MaxScopes = 6
  MaxDepth = 3
  MaxIds = 0
  MaxLen = 4
  Deep = FALSE
  Feat = {"macro", "label", "proto", "for", "fwd", "func"}
INVARIANTS Inv_Lexical Inv_Stack Inv_Refines Inv_Emit
CHECK_DEADLOCK FALSE
