------------------------------- MODULE WfGen -------------------------------
(* Property C03: spec-driven generator of C function bodies whose control-flow *)
(* and expression *shapes* exercise qbe.c's block bookkeeping: nested loops,    *)
(* switch (with case labels in nested statements), goto forward/backward,       *)
(* early returns, dead code after return/break/continue/goto, && || ?: (phi),   *)
(* struct-returning and variadic calls, VLAs, bit-fields, _Noreturn calls.      *)
(*                                                                             *)
(* A behaviour is a leftmost derivation of the grammar below; TLC -simulate    *)
(* draws the derivations.  `out` is the sentence so far (C tokens), `todo` the *)
(* sentential form still to expand.  Terminals are strings, nonterminals are   *)
(* records [nt, d, lp, sw]: d = nesting depth, lp = inside a loop (continue    *)
(* allowed), sw = id of the enclosing switch (0 = none; break allowed if lp or *)
(* sw # 0; case/default allowed if sw # 0).                                    *)
(*                                                                             *)
(* Validity of the generated program (so that exit 0 is the expected outcome   *)
(* and any malformed IL is cproc's fault):                                      *)
(*   - every variable is declared in the fixed prologue the harness prints     *)
(*     (see Prologue); expression nonterminals are typed: I int, L long,       *)
(*     D double, C scalar condition;                                           *)
(*   - case values are distinct (global counter), one default per switch;      *)
(*   - every label used by a goto is defined exactly once: labels still        *)
(*     pending at the end are defined before the final return, unless          *)
(*     UndefGoto (the known C03/C10 defect class) is set;                      *)
(*   - no jump enters the scope of a VLA: the only VLAs are `vla` (declared    *)
(*     before any label) and block-local ones in blocks without labels.        *)
EXTENDS Naturals, Sequences, FiniteSets, TLC, Json

CONSTANTS MaxD,          \* maximal nesting depth of statements / expressions
          MaxSteps,      \* bound on the number of expansions (then only leaves)
          NLabels,       \* goto labels L1..Ln
          NPlain         \* a behaviour draws its mode in Init from NPlain x "plain", 1 x "noret", 1 x "undef", so that
                         \* one -simulate run yields the three categories in that proportion

VARIABLES out, todo, used, defd, casen, swn, defsw, steps, globs, done, mode, vm
vars == <<out, todo, used, defd, casen, swn, defsw, steps, globs, done, mode, vm>>

ModeMix == [i \in 1..NPlain + 2 |-> IF i <= NPlain THEN "plain" ELSE IF i = NPlain + 1 THEN "noret" ELSE "undef"]
UndefGoto == mode = "undef"     \* leave pending goto labels undefined (known finding)
NoretArm  == mode = "noret"     \* allow `C ? (die(), I) : I` (known finding: phi source ends in hlt)

(* right-hand sides are sequences of strings; the strings in NT name nonterminals, which receive   *)
(* their context (depth, loop, switch) when the production is applied; everything else is a token *)
NT == {"@I", "@L", "@D", "@C", "@E", "@S", "@B", "@SL", "@IM"}
N(nt, d, lp, sw) == [nt |-> nt, d |-> d, lp |-> lp, sw |-> sw, tx |-> ""]
T(x) == [nt |-> "T", d |-> 0, lp |-> FALSE, sw |-> 0, tx |-> x]
IsT(x) == x.nt = "T"
Mk(x, d, lp, sw) ==
  IF x \notin NT THEN T(x)
  ELSE CASE x = "@SL" -> N("S", d, TRUE, sw)
         [] x = "@IM" -> N("I", MaxD, lp, sw)
         [] x = "@I" -> N("I", d, lp, sw) [] x = "@L" -> N("L", d, lp, sw) [] x = "@D" -> N("D", d, lp, sw)
         [] x = "@C" -> N("C", d, lp, sw) [] x = "@E" -> N("E", d, lp, sw) [] x = "@S" -> N("S", d, lp, sw)
         [] x = "@B" -> N("B", d, lp, sw)

(* move leading terminals of the sentential form to the sentence *)
RECURSIVE Flush(_, _)
Flush(o, t) == IF t # <<>> /\ IsT(Head(t)) THEN Flush(Append(o, Head(t).tx), Tail(t)) ELSE [o |-> o, t |-> t]

Lab(k) == "L" \o ToString(k)

IntLeaf  == <<"i", "j", "p", "7", "c", "sh", "(int)u", "a[1]", "*pp", "s.m", "b.bf", "sp.c[1]", "(int)sizeof vla", "0", "(-1)", "(int)b.lf",
             "o.in.m", "un.i", "st", "al", "str[1]", "__func__[0]", "(int)sizeof(struct O)", "o.h", "o.u.c",
             "(int)sizeof __func__", "fstr(__func__)", "fstr(\"s\")", "(int[2]){1, 2}[0]", "__func__[1]">>
LongLeaf == <<"l", "lp", "(long)pp", "5000000000", "s.n", "b.lf">>
DblLeaf  == <<"d", "dp", "1.5", "fl", "0.0", "(double)u", "(double)(unsigned long)l", "(float)u">>
CondLeaf == <<"i", "d", "l", "pp", "fl", "c", "sh", "u", "b.ub", "1", "0">>
ArithOps == <<"+", "-", "*", "/", "%", "&", "|", "^", "<<", ">>", "<", ">", "<=", ">=", "==", "!=">>
LongOps  == <<"+", "-", "*", "/", "%", "&", "|", "^">>
FltOps   == <<"+", "-", "*", "/">>
Each(xs, F(_)) == [k \in 1..Len(xs) |-> F(xs[k])]

(* globals with the size and alignment C11 + the LP64 ABIs of all three targets give them *)
GlobTab == <<
  [decl |-> "static char g1[5] = \"ab\";",                     name |-> "g1",  size |-> 5,  align |-> 1],
  [decl |-> "short g2 = 3;",                                    name |-> "g2",  size |-> 2,  align |-> 2],
  [decl |-> "int g3[3] = {1};",                                 name |-> "g3",  size |-> 12, align |-> 4],
  [decl |-> "long g4;",                                         name |-> "g4",  size |-> 8,  align |-> 8],
  [decl |-> "double g5 = 2.5;",                                 name |-> "g5",  size |-> 8,  align |-> 8],
  [decl |-> "struct { char c; int i; } g6 = {1, 2};",           name |-> "g6",  size |-> 8,  align |-> 4],
  [decl |-> "struct { char c; long l; char e; } g7 = {.e = 1};", name |-> "g7", size |-> 24, align |-> 8],
  [decl |-> "_Alignas(16) int g8 = 3;",                         name |-> "g8",  size |-> 4,  align |-> 16],
  [decl |-> "union { char c; double d; } g9 = {1};",            name |-> "g9",  size |-> 8,  align |-> 8],
  [decl |-> "struct { int a : 3; int b : 7; unsigned c : 9; } g10 = {1, 2, 3};", name |-> "g10", size |-> 4, align |-> 4],
  [decl |-> "char *g11 = \"xyz\";",                             name |-> "g11", size |-> 8,  align |-> 8],
  [decl |-> "static float g12[2] = {1.0f, 2.0f};",              name |-> "g12", size |-> 8,  align |-> 4],
  [decl |-> "static int h13[2]; int *g13 = &h13[1];",                             name |-> "g13", size |-> 8,  align |-> 8],
  [decl |-> "struct { char s[3]; short h; } g14[2] = {{\"ab\", 1}};", name |-> "g14", size |-> 12, align |-> 2],
  [decl |-> "unsigned short g15[] = u\"ab\";",                  name |-> "g15", size |-> 6,  align |-> 2],
  [decl |-> "struct { long l : 33; char c; } g16 = {1, 2};",    name |-> "g16", size |-> 8, align |-> 8],
  [decl |-> "unsigned short g17[5] = u\"ab\";",                name |-> "g17", size |-> 10, align |-> 2],
  [decl |-> "unsigned g18[4] = U\"a\";",                       name |-> "g18", size |-> 16, align |-> 4],
  [decl |-> "char g19[8] = \"ab\";",                           name |-> "g19", size |-> 8,  align |-> 1],
  [decl |-> "struct { char c; double d; float f; } g20 = {1, 2.0, 3.0f};", name |-> "g20", size |-> 24, align |-> 8],
  (* wide arrays filled exactly by a wide literal (the terminating null does not fit and is dropped, C11 6.7.9p14) *)
  [decl |-> "unsigned short g21[2] = u\"ab\";",                name |-> "g21", size |-> 4,  align |-> 2],
  [decl |-> "unsigned g22[1] = U\"a\";",                       name |-> "g22", size |-> 4,  align |-> 4],
  [decl |-> "struct { unsigned short s[2]; char c; } g23 = {u\"ab\", 1};", name |-> "g23", size |-> 6, align |-> 2],
  [decl |-> "unsigned short g24[2][2] = {u\"ab\", u\"c\"};", name |-> "g24", size |-> 8,  align |-> 2],
  [decl |-> "unsigned g25[2][1] = {U\"a\", U\"b\"};",        name |-> "g25", size |-> 8,  align |-> 4],
  [decl |-> "struct { char c; unsigned w[2]; } g26 = {1, U\"ab\"};", name |-> "g26", size |-> 12, align |-> 4],
  [decl |-> "unsigned short g27[3] = u\"ab\";",                name |-> "g27", size |-> 6,  align |-> 2],
  (* objects declared BEFORE their type is completed (tentative definitions emitted at the end of the unit), *)
  (* over-aligned, static and thread-local objects                                                           *)
  [decl |-> "struct T30 g30; struct T30 { long a; int b; };",   name |-> "g30", size |-> 16, align |-> 8],
  [decl |-> "typedef struct T31 t31; t31 g31; struct T31 { double d; char c; };", name |-> "g31", size |-> 16, align |-> 8],
  [decl |-> "union U32 g32; union U32 { int i; double d; };",   name |-> "g32", size |-> 8,  align |-> 8],
  [decl |-> "int g33[]; int g33[3];",                           name |-> "g33", size |-> 12, align |-> 4],
  [decl |-> "extern struct T34 g34; struct T34 { long a; short b; }; struct T34 g34;", name |-> "g34", size |-> 16, align |-> 8],
  [decl |-> "_Alignas(32) char g35[3];",                        name |-> "g35", size |-> 3,  align |-> 32],
  [decl |-> "static _Alignas(8) short g36;",                    name |-> "g36", size |-> 2,  align |-> 8],
  [decl |-> "_Thread_local long g37 = 1;",                      name |-> "g37", size |-> 8,  align |-> 8],
  [decl |-> "static struct T38 g38; struct T38 { int i; char c; };", name |-> "g38", size |-> 8, align |-> 4],
  [decl |-> "typedef union U39 u39; u39 g39; u39 g39; union U39 { char c[5]; short h; };", name |-> "g39", size |-> 6, align |-> 2] >>

(* functions with variably modified PARAMETERS (pointer to VLA, array parameter; 1 and 2 variable dimensions) whose  *)
(* length expressions contain control flow (?:, &&, ||) - they are evaluated in the start block, which also receives *)
(* the hoisted allocs of the parameters and of every later block-scope declaration                                    *)
VmTab == <<
  "int vp1(int n, int c, int (*p)[c ? n : 1]) { return (int)sizeof(*p); }",
  "int vp2(int n, int c, int (*p)[(n && c) + 1]) { int loc = n; loc += (*p)[0]; return (int)sizeof(*p) + loc; }",
  "int vp3(int n, int c, int (*p)[(n || c) + 1][c ? n : 2]) { int loc = n; { int arr[3] = {1, 2, 3}; loc += arr[1]; } return (int)sizeof(*p) + loc; }",
  "int vp4(int n, int c, int a[c ? n : 1][(n && c) + 1]) { long t = 0; int q[2] = {0}; while (c--) { int z = c; t += z; } return (int)sizeof(a[0]) + (int)t + q[0]; }",
  "void vp5(int n, int c, int (*p)[c ? n : 1], double (*q)[(n || c) + 1]) { int x = n; if (x) { long y = c; (*q)[0] = (double)y; } (*p)[0] = x; }",
  "int vp6(int n, int (*p)[n]) { int x = 1; return (int)sizeof *p + x; }",
  "int vp7(int n, int c, char (*p)[(c ? n : 1) + (n && c)][n > 1 || c ? 2 : 3]) { struct { int a; long b; } s = {n, c}; int k[2]; k[0] = s.a; return (int)sizeof(**p) + k[0]; }" >>

(* ------------------------------------------------------------------------ *)
Leafy(sym) == sym.d >= MaxD \/ steps >= MaxSteps

(* productions without side effects: nonterminal -> sequence of right-hand sides *)
(* (a sequence, not a set: right-hand sides mix strings and records, which TLC cannot order) *)
Rhs(sym) ==
  LET lp == sym.lp
      sw == sym.sw
      I == "@I"  L == "@L"  D == "@D"  C == "@C"  E == "@E"  S == "@S"  B == "@B"  SL == "@SL"
      Leaf == Leafy(sym)
  IN CASE sym.nt = "I" ->
            Each(IntLeaf, LAMBDA x : <<x>>)
            \o (IF Leaf THEN <<>> ELSE
                 Each(ArithOps, LAMBDA op : <<"(", I, op, I, ")">>)
                 \o << <<"(", C, "&&", C, ")">>, <<"(", C, "||", C, ")">>, <<"!", C>>, <<"(", C, "?", I, ":", I, ")">>,
                       <<"(", E, ",", I, ")">>, <<"(i =", I, ")">>, <<"(j +=", I, ")">>, <<"i++">>, <<"--j">>, <<"(u >>=", I, ")">>,
                       <<"fi(", I, ")">>, <<"vf(", I, ",", I, ",", D, ")">>, <<"vx(", I, ", \"s\",", L, ",", D, ")">>,
                       <<"(int)", D>>, <<"(int)", L>>, <<"(int)(unsigned)", D>>, <<"(int)(unsigned long)", D>>, <<"(int)(unsigned)fl">>, <<"a[", I, "& 3]">>, <<"(b.ub =", I, ")">>, <<"(b.bf +=", I, ")">>,
                       <<"gs(", I, ").m">>, <<"(", L, "<", L, ")">>, <<"(", D, ">=", D, ")">>, <<"(pp == 0)">>,
                       <<"(int[2]){", I, ", 2}[1]">>, <<"fp(", I, ")">>, <<"(c =", I, ")">>, <<"-", I>>, <<"~", I>>,
                       <<"(", C, "? i : j)">>, <<"(sh ?", I, ":", I, ")">>,
                       <<"fs(s)">>, <<"fo(o)">>, <<"gso(", I, ").in.m">>, <<"fs(gs(", I, "))">>, <<"(st +=", I, ")">>,
                       <<"(*(int *)__builtin_alloca((", I, "& 15) | 4) =", I, ")">>, <<"vf2(", I, ",", L, ", \"s\",", D, ")">>,
                       <<"(", C, "? s : s2).m">>, <<"(al ^=", I, ")">>, <<"(pp != &a[", I, "& 3])">>,
                       (* variadic callees whose NAMED parameters are double / long / float / _Bool: the int arguments *)
                       (* must be converted to the parameter type, not merely promoted                                  *)
                       <<"vg(", I, ",", I, ",", L, ")">>, <<"vh(", I, ",", I, ",", I, ",", D, ")">>, <<"vg(c, sh,", L, ")">>,
                       <<"vh(u, p, c, fl)">>,
                       <<"vz(", I, ")">> >>        \* variadic callee, no variable argument: the call still carries `...`
                 (* calls of _Noreturn functions as (the tail of) an operand: the block is closed by hlt in the   *)
                 (* middle of an expression that still has a phi / a conversion to emit                          *)
                 \o (IF NoretArm THEN << <<"(", C, "? (die(),", I, ") :", I, ")">>, <<"(", C, "?", I, ": (die(),", I, "))">>,
                                         <<"(", C, "|| (die(),", I, "))">>, <<"(", C, "&& (die(),", I, "))">>,
                                         <<"(", C, "|| ndie())">>, <<"(", C, "&& ndie())">>,
                                         <<"(", C, "? ndie() :", I, ")">>, <<"(", C, "?", I, ": ndie())">>,
                                         <<"(", E, ", (die(),", I, "))">>, <<"(ndie(),", I, ")">>,
                                         <<"((", C, "|| ndie()) &&", C, ")">>, <<"(", C, "|| (", C, "&& ndie()))">> >>
                      ELSE <<>>))
       [] sym.nt = "L" ->
            Each(LongLeaf, LAMBDA x : <<x>>)
            \o (IF Leaf THEN <<>> ELSE
                 Each(LongOps, LAMBDA op : <<"(", L, op, L, ")">>)
                 \o << <<"(long)", I>>, <<"(l <<=", I, ")">>, <<"(", C, "?", L, ":", L, ")">>, <<"-", L>>, <<"(long)", D>>, <<"(l =", L, ")">>,
                       <<"(", L, ">>", I, ")">> >>)
       [] sym.nt = "D" ->
            Each(DblLeaf, LAMBDA x : <<x>>)
            \o (IF Leaf THEN <<>> ELSE
                 Each(FltOps, LAMBDA op : <<"(", D, op, D, ")">>)
                 \o << <<"(double)", I>>, <<"(", C, "?", D, ":", D, ")">>, <<"fd(", D, ")">>, <<"-", D>>, <<"(d =", D, ")">>, <<"(fl +=", D, ")">>,
                       <<"(double)", L>>, <<"(float)", D>>, <<"d++">> >>)
       [] sym.nt = "C" ->
            Each(CondLeaf, LAMBDA x : <<x>>)
            \o (IF Leaf THEN <<>> ELSE << <<I>>, <<D>>, <<L>>, <<"(", I, "<", I, ")">>, <<"(", C, "&&", C, ")">>, <<"(", C, "||", C, ")">> >>)
       [] sym.nt = "E" ->
            << <<"i++">>, <<"s2 = s">>, <<"s = sp">>, <<"(void)0">> >>
            \o (IF Leaf THEN <<>> ELSE << <<I>>, <<D>>, <<L>>, <<"(void)", I>>, <<"s = gs(", I, ")">>, <<"vla[0] =", I>>, <<"*pp =", I>>, <<"s.n =", L>>,
                                              <<"o = gso(", I, ")">>, <<"un.d =", D>>, <<"o.u = un">>, <<"o.in = s">>, <<"str[2] = (char)", I>> >>)
       [] sym.nt = "B" ->
            IF Leaf THEN << <<S>> >> ELSE << <<S>>, <<S, S>>, <<S, S, S>>, <<S, B>> >>
       [] sym.nt = "S" ->
            << <<E, ";">>, <<";">>, <<"return", "@IM", ";">>, <<"die();">> >>
            \o (IF lp \/ sw # 0 THEN << <<"break;">> >> ELSE <<>>)
            \o (IF lp THEN << <<"continue;">> >> ELSE <<>>)
            \o (IF Leaf THEN <<>> ELSE
                 << <<"if (", C, ")", S>>, <<"if (", C, ")", S, "else", S>>,
                    <<"while (", C, ")", SL>>, <<"do", SL, "while (", C, ");">>,
                    <<"for (", E, ";", C, ";", E, ")", SL>>, <<"for (int k = 0; k <", I, "; k++)", SL>>,
                    <<"for (;;) {", SL, "if (", C, ") break; }">>,
                    <<"{", B, "}">>, <<"{ int t =", I, ";", B, "i += t; }">>,
                    <<"{ int w[(i & 3) + 1]; w[0] =", I, "; j += w[0] + (int)sizeof w; }">>,
                    (* a variably modified typedef of an outer block, first used on one path and used again on a *)
                    (* path that bypasses the first use (its size must be evaluated where the typedef is reached, *)
                    (* C11 6.8p3).  No statement nonterminal inside: nothing may jump into the typedef's scope.    *)
                    <<"{ typedef int T[(i & 3) + 1]; if (", C, ") { T x; x[0] =", I, "; j += x[0]; } else { T y; y[0] =", I, "; j += y[0]; } }">>,
                    <<"{ typedef int T[(i & 3) + 1][(j & 1) + 1]; while (", C, ") { T x; x[0][0] =", I, "; if (x[0][0]) break; } { T y; y[0][0] =", I, "; j += (int)sizeof y; } }">>,
                    <<"{ typedef int (*P)[(i & 3) + 1]; switch (", I, ") { case 1: { P q = (P)pp; j += (int)sizeof *q; } break; default: { P r = (P)pp; j += (int)sizeof *r + (*r)[0]; } } }">>,
                    <<"{ typedef int (*P)[(i & 1) + 1][(j & 3) + 1]; for (int k = 0; k <", I, "; k++) { P q = (P)pp; j += (int)sizeof **q; } { P r = (P)pp; j += (int)sizeof *r; } }">>,
                    <<"{ typedef long T[(u & 7) + 1]; if (", C, ") j += (int)sizeof(T); else { T y; y[0] =", L, "; } j += (int)sizeof(T); }">>,
                    <<"{ typedef char T[(i & 3) + 1]; do { if (", C, ") break; { T x; x[0] = (char)", I, "; } } while (", C, "); { T y; y[0] = 0; j += y[0]; } }">>,
                    <<"return", I, ";">> >>)
       [] OTHER -> <<>>

ExpandCtx(rhs, d, lp, sw) ==
  LET f == Flush(out, [k \in 1..Len(rhs) |-> Mk(rhs[k], d, lp, sw)] \o Tail(todo))
  IN /\ out' = f.o
     /\ todo' = f.t
     /\ steps' = steps + 1
Expand(rhs) == ExpandCtx(rhs, Head(todo).d + 1, Head(todo).lp, Head(todo).sw)

Plain ==
  /\ ~done /\ todo # <<>>
  /\ LET R == Rhs(Head(todo)) IN \E r \in 1..Len(R) : Expand(R[r])
  /\ UNCHANGED <<used, defd, casen, swn, defsw, globs, done, mode, vm>>

(* productions with side effects (statement nonterminals only) *)
Sym == Head(todo)
IsS == ~done /\ todo # <<>> /\ Sym.nt = "S"

Goto ==
  /\ IsS
  /\ \E k \in 1..NLabels :
       /\ \/ Expand(<<"goto", Lab(k), ";">>)
          \/ ~Leafy(Sym) /\ Expand(<<"if (", "@C", ") goto", Lab(k), ";">>)
       /\ used' = used \cup {k}
  /\ UNCHANGED <<defd, casen, swn, defsw, globs, done, mode, vm>>

Label ==
  /\ IsS /\ ~Leafy(Sym)
  /\ \E k \in (1..NLabels) \ defd :
       /\ Expand(<<Lab(k), ":", "@S">>)
       /\ defd' = defd \cup {k}
  /\ UNCHANGED <<used, casen, swn, defsw, globs, done, mode, vm>>

Switch ==
  /\ IsS /\ ~Leafy(Sym)
  /\ \E shape \in 1..3 :
       LET id == swn + 1
           S1 == "@S"
       IN ExpandCtx(<<"switch (", (IF shape = 2 THEN "@L" ELSE "@I"), ") {">>
                 \o (CASE shape = 1 -> <<S1, S1>>               \* statements; case labels come from the Case production
                       [] shape = 2 -> <<S1, S1, S1, S1>>
                       [] shape = 3 -> <<"{", S1, S1, "}", S1>>)
                 \o <<"}">>, Sym.d + 1, Sym.lp, id)
  /\ swn' = swn + 1
  /\ UNCHANGED <<used, defd, casen, defsw, globs, done, mode, vm>>

Case ==
  /\ IsS /\ Sym.sw # 0 /\ ~Leafy(Sym)
  /\ Expand(<<"case", ToString(casen), ":", "@S">>)
  /\ casen' = casen + 1
  /\ UNCHANGED <<used, defd, swn, defsw, globs, done, mode, vm>>

Default ==
  /\ IsS /\ Sym.sw # 0 /\ Sym.sw \notin defsw /\ ~Leafy(Sym)
  /\ Expand(<<"default", ":", "@S">>)
  /\ defsw' = defsw \cup {Sym.sw}
  /\ UNCHANGED <<used, defd, casen, swn, globs, done, mode, vm>>

(* the body is complete: define the labels that are still pending.  (Single successor: in -simulate TLC *)
(* evaluates the invariant - and so prints - on every candidate successor, not only the one it takes.)  *)
Finish ==
  /\ ~done /\ todo = <<>>
  /\ LET pend == used \ defd
         tail == IF UndefGoto THEN <<>> ELSE [i \in 1..NLabels |-> IF i \in pend THEN Lab(i) \o ": ;" ELSE ""]
     IN out' = out \o tail
  /\ done' = TRUE
  /\ UNCHANGED <<todo, used, defd, casen, swn, defsw, steps, globs, mode, vm>>

Init ==
  /\ out = <<>> /\ used = {} /\ defd = {} /\ casen = 1 /\ swn = 0 /\ defsw = {} /\ steps = 0 /\ done = FALSE
  /\ \E g1, g2, g3 \in 1..Len(GlobTab) : g1 < g2 /\ g2 < g3 /\ globs = <<GlobTab[g1], GlobTab[g2], GlobTab[g3]>>
  /\ todo = <<N("B", 0, FALSE, 0), N("B", 0, FALSE, 0)>>
  /\ \E i \in DOMAIN ModeMix : mode = ModeMix[i]
  /\ \E i \in DOMAIN VmTab : vm = VmTab[i]

Next == Plain \/ Goto \/ Label \/ Switch \/ Case \/ Default \/ Finish
Spec == Init /\ [][Next]_vars

Emit ==
  done => PrintT("VCASE " \o ToJson([toks |-> out, globs |-> globs, undef |-> (UndefGoto /\ used \ defd # {}), mode |-> mode, vm |-> vm,
                                     nsw |-> swn, ncase |-> casen - 1, labels |-> Cardinality(used \cup defd), steps |-> steps]))
=============================================================================
