SPECIFICATION OSpec
CONSTANTS ValueSet = "small"
  NParts = 16
INVARIANT OEmit
CHECK_DEADLOCK FALSE
