SPECIFICATION OSpec
CONSTANTS ValueSet = "small"
  NParts = 24
INVARIANT OEmit
CHECK_DEADLOCK FALSE
