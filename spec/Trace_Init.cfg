SPECIFICATION TSpec
CONSTANTS
  TopTypes = {"int"}
  MaxTok = 0
  MaxIdx = 2
  AllowAgg = FALSE
  DevOn = {"EmptyBraceNoFocus", "BraceNoReset", "UnionCover", "AutoBackZero", "ReplaceEndOnly"}
  Salt = 0
  EmitCases = FALSE
  Prune = TRUE
POSTCONDITION TraceAccepted
CHECK_DEADLOCK FALSE
