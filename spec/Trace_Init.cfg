SPECIFICATION TSpec
CONSTANTS
  TopTypes = {"int"}
  MaxTok = 0
  MaxIdx = 2
  AllowAgg = FALSE
  DevOn = {"CompositeKeepsNew", "SharedIncompleteType", "EmptyBraceNoFocus", "BraceNoReset", "UnionCover", "AutoBackZero", "ReplaceEndOnly"}
  Salt = 0
  EmitCases = FALSE
  FormsOn = {"plain"}
  Prune = TRUE
POSTCONDITION TraceAccepted
CHECK_DEADLOCK FALSE
