SPECIFICATION Spec
INVARIANTS Inv8 Inv16 Vec64
CHECK_DEADLOCK FALSE
