-------------------------------- MODULE Lit --------------------------------
(* Property C14: character constants and string literals denote the values  *)
(* C11 (6.4.4.4, 6.4.5, 5.1.1.2 phases 5-7) mandates for the target.        *)
(*                                                                          *)
(*  Part 1  declarative   Decl(case)    what the standard / property asks   *)
(*  Part 2  implementation-shaped  Model(case, D)  transcription of         *)
(*          scan.c:escape/charconst/stringlit, expr.c:decodechar/isodigit/  *)
(*          encodechar8,16,32/stringconcat/primaryexpr(TCHARCONST),         *)
(*          utf.c:utf8dec/utf8enc/utf16enc, targ.c, with the known defects  *)
(*          of the shipped code as NAMED deviations (members of D).         *)
(*  Part 3  case families (exhaustive) and random generator (-simulate)     *)
(*  Part 4  state machine, invariants, VCASE emission                       *)
(*                                                                          *)
(* A case is [ctx |-> "chr"|"str", targ, parts |-> <<[pfx, body]...>>];     *)
(* body = raw source bytes between the quotes.  32-bit quantities are words *)
(* <<hi16, lo16>> (TLC integers are 32-bit signed).  Results carry the      *)
(* object image as little-endian bytes.                                     *)
EXTENDS Naturals, Integers, Sequences, FiniteSets, TLC, Json, SequencesExt

CONSTANTS Devs,     \* deviations switched on in the model that is compared with the real binary
          Mode,     \* "exh" (exhaustive families) | "sim" (random generator, run with -simulate)
          Tier      \* "quick" | "thorough" : size of the exhaustive families

VARIABLES cs

(* Remaining known defects of the shipped code.  Octal8 (fix b953446), Utf8Overlong and Utf8SurrogateHigh *)
(* (fix aa3a89d), PlainCharRaw and WideCharRaw (fix 1ef9a15) were deviations until those commits; their *)
(* disjuncts are deleted and the model below transcribes the repaired code.                            *)
AllDevs == {"StrEscapeTrunc"}
ASSUME Devs \subseteq AllDevs

BS == 92   SQ == 39   DQ == 34   NL == 10

TargetSeq == <<"x86_64-sysv", "aarch64", "riscv64">>
PrefixSeq == <<"", "u8", "u", "U", "L">>
Targets == {TargetSeq[i] : i \in 1..3}
PrefixSet == {PrefixSeq[i] : i \in 1..5}

(* target facts (psABI): plain char signedness, wchar_t *)
CharSigned(t)  == t = "x86_64-sysv"
WcharSigned(t) == t # "aarch64"
WcharType(t)   == IF WcharSigned(t) THEN "int" ELSE "uint"

(* ------------------------------------------------------------------------ *)
(* 32-bit words as <<hi, lo>>                                                *)
WOfNat(n) == <<n \div 65536, (n % 65536)>>
NatOfW(w) == w[1] * 65536 + w[2]                       \* only for w[1] < 32768
UnitBytes(w, size) == SubSeq(<<(w[2] % 256), w[2] \div 256, (w[1] % 256), w[1] \div 256>>, 1, size)
WFits(w, size) == CASE size = 1 -> w[1] = 0 /\ w[2] < 256
                    [] size = 2 -> w[1] = 0
                    [] size = 4 -> TRUE
MinOf(S) == CHOOSE x \in S : \A y \in S : x <= y

IsHex(b) == (b >= 48 /\ b <= 57) \/ (b >= 65 /\ b <= 70) \/ (b >= 97 /\ b <= 102)
HexVal(b) == IF b <= 57 THEN b - 48 ELSE IF b <= 70 THEN b - 55 ELSE b - 87
IsOct(b) == b >= 48 /\ b <= 55
At(s, i) == IF i >= 1 /\ i <= Len(s) THEN s[i] ELSE 0
(* number of consecutive bytes from i satisfying P *)
HexRun(s, i) == MinOf({j \in i..Len(s)+1 : j = Len(s)+1 \/ ~IsHex(s[j])}) - i

SimpleEscChars == {39, 34, 63, 92, 97, 98, 102, 110, 114, 116, 118}
SimpleEscVal(b) == CASE b = 97 -> 7 [] b = 98 -> 8 [] b = 102 -> 12 [] b = 110 -> 10
                     [] b = 114 -> 13 [] b = 116 -> 9 [] b = 118 -> 11 [] OTHER -> b

(* ======================================================================== *)
(* Part 1.  Declarative side                                                *)
(* ======================================================================== *)
IsScalar(c) == (c >= 0 /\ c < 55296) \/ (c >= 57344 /\ c <= 1114111)

(* Unicode encoding forms (Unicode ch. 3 D92, D91, D90), defined on scalar values *)
Utf8(c) ==
  IF c < 128 THEN <<c>>
  ELSE IF c < 2048 THEN <<192 + c \div 64, 128 + (c % 64)>>
  ELSE IF c < 65536 THEN <<224 + c \div 4096, 128 + ((c \div 64) % 64), 128 + (c % 64)>>
  ELSE <<240 + c \div 262144, 128 + ((c \div 4096) % 64), 128 + ((c \div 64) % 64), 128 + (c % 64)>>
Utf16(c) == IF c < 65536 THEN <<c>>
            ELSE <<55296 + (c - 65536) \div 1024, 56320 + ((c - 65536) % 1024)>>

(* code units (as words) of scalar value c in an array of elements of `size` bytes *)
EncodeCp(c, size) ==
  CASE size = 1 -> [i \in 1..Len(Utf8(c)) |-> <<0, Utf8(c)[i]>>]
    [] size = 2 -> [i \in 1..Len(Utf16(c)) |-> <<0, Utf16(c)[i]>>]
    [] size = 4 -> <<WOfNat(c)>>

(* A source character: the well-formed UTF-8 sequence starting at body[i] is, by    *)
(* definition, the one that is the UTF-8 encoding form of some scalar value.       *)
DeclCpAt(body, i) ==
  LET b == body[i]
      n == IF b < 128 THEN 1 ELSE IF b >= 192 /\ b < 224 THEN 2 ELSE IF b >= 224 /\ b < 240 THEN 3
           ELSE IF b >= 240 /\ b < 248 THEN 4 ELSE 0
      pay(k) == (At(body, i + k) % 64)
      c == CASE n = 1 -> b
             [] n = 2 -> ((b % 32)) * 64 + pay(1)
             [] n = 3 -> ((b % 16)) * 4096 + pay(1) * 64 + pay(2)
             [] n = 4 -> ((b % 8)) * 262144 + pay(1) * 4096 + pay(2) * 64 + pay(3)
             [] OTHER -> -1
      (* classification of the malformed ones, used only to scope the gcc audit: a sequence that is a minimal-length *)
      (* encoding of a value > 10FFFF under the original 31-bit definition (RFC 2279) is "utf8-beyond"             *)
      nn == IF n > 0 THEN n ELSE IF b >= 248 /\ b < 252 THEN 5 ELSE IF b >= 252 /\ b < 254 THEN 6 ELSE 0
      contAll == \A k \in 1..(nn - 1) : At(body, i + k) >= 128 /\ At(body, i + k) < 192
      c31 == CASE nn = 4 -> c
               [] nn = 5 -> (b % 4) * 16777216 + pay(1) * 262144 + pay(2) * 4096 + pay(3) * 64 + pay(4)
               [] nn = 6 -> (b % 2) * 1073741824 + pay(1) * 16777216 + pay(2) * 262144 + pay(3) * 4096 + pay(4) * 64 + pay(5)
               [] OTHER -> 0
      beyond == nn >= 4 /\ contAll /\ c31 >= (CASE nn = 4 -> 1114112 [] nn = 5 -> 2097152 [] nn = 6 -> 67108864)
  IN IF n > 0 /\ i + n - 1 <= Len(body) /\ IsScalar(c) /\ Utf8(c) = SubSeq(body, i, i + n - 1)
     THEN [item |-> [k |-> "cp", v |-> c], n |-> n]
     ELSE [item |-> [k |-> "bad", why |-> IF beyond THEN "utf8-beyond" ELSE "utf8"], n |-> 1]

(* value of a digit string (sequence of digit values) in base 16 / 8 as a word; big = needs > 32 bits *)
DigitsVal(ds, base) ==
  LET nz  == {j \in 1..Len(ds) : ds[j] # 0}
      sig == IF nz = {} THEN <<>> ELSE SubSeq(ds, MinOf(nz), Len(ds))
      n   == Len(sig)
      val(s) == FoldLeft(LAMBDA a, d : a * base + d, 0, s)
  IN IF base = 8 THEN [big |-> FALSE, w |-> WOfNat(val(sig))]         \* at most 3 digits
     ELSE IF n > 8 THEN [big |-> TRUE, w |-> <<0, 0>>]
     ELSE IF n <= 4 THEN [big |-> FALSE, w |-> <<0, val(sig)>>]
     ELSE [big |-> FALSE, w |-> <<val(SubSeq(sig, 1, n - 4)), val(SubSeq(sig, n - 3, n))>>]

(* 6.4.4.4: c-char / s-char / escape-sequence starting at body[i]; q = the delimiter *)
DeclItemAt(body, i, q) ==
  LET b == body[i] IN
  IF b = q THEN [item |-> [k |-> "bad", why |-> "delimiter"], n |-> 1]
  ELSE IF b = NL THEN [item |-> [k |-> "bad", why |-> "newline"], n |-> 1]
  ELSE IF b # BS THEN DeclCpAt(body, i)
  ELSE LET e == At(body, i + 1) IN
    IF i + 1 > Len(body) THEN [item |-> [k |-> "bad", why |-> "escape"], n |-> 1]
    ELSE IF e \in SimpleEscChars THEN [item |-> [k |-> "esc", v |-> SimpleEscVal(e)], n |-> 2]
    ELSE IF e \in {117, 85} THEN [item |-> [k |-> "bad", why |-> "ucn"], n |-> 1]   \* universal character names: not modelled
    ELSE IF e = 120 THEN                       \* \x hex-digits, as many as there are
      LET r == HexRun(body, i + 2) IN
      IF r = 0 THEN [item |-> [k |-> "bad", why |-> "escape"], n |-> 1]
      ELSE LET v == DigitsVal([j \in 1..r |-> HexVal(body[i + 1 + j])], 16)
           IN [item |-> [k |-> "num", w |-> v.w, big |-> v.big], n |-> 2 + r]
    ELSE IF IsOct(e) THEN                      \* \ooo : one to three octal digits
      LET r == IF ~IsOct(At(body, i + 2)) THEN 1 ELSE IF ~IsOct(At(body, i + 3)) THEN 2 ELSE 3
          v == DigitsVal([j \in 1..r |-> body[i + j] - 48], 8)
      IN [item |-> [k |-> "num", w |-> v.w, big |-> FALSE], n |-> 1 + r]
    ELSE [item |-> [k |-> "bad", why |-> "escape"], n |-> 1]

RECURSIVE DeclItems(_, _, _)
DeclItems(body, i, q) ==
  IF i > Len(body) THEN <<>>
  ELSE LET r == DeclItemAt(body, i, q) IN
       IF r.item.k = "bad" THEN <<r.item>> ELSE <<r.item>> \o DeclItems(body, i + r.n, q)

IsBadSeq(its) == Len(its) > 0 /\ its[Len(its)].k = "bad"
(* NUL is not a member of any source character set a program can rely on; a lone CR is an end-of-line *)
(* indicator or not at the implementation's choice (5.1.1.2 phase 1): nothing is required for those *)
HasNul(parts) == \E i \in 1..Len(parts) : \E j \in 1..Len(parts[i].body) : parts[i].body[j] \in {0, 13}

ElemSize(pfx) == CASE pfx \in {"", "u8"} -> 1 [] pfx = "u" -> 2 [] OTHER -> 4
(* element type of a string literal.  u8: char in C11 (6.4.5p6), char8_t = unsigned char in C23 *)
StrElemTypes(pfx, targ) ==
  CASE pfx = "" -> {"char"} [] pfx = "u8" -> {"char", "uchar"} [] pfx = "u" -> {"ushort"}
    [] pfx = "U" -> {"uint"} [] pfx = "L" -> {WcharType(targ)}
(* type of a character constant (6.4.4.4p10,11; u8: C23 6.4.4.5) *)
ChrType(pfx, targ) ==
  CASE pfx = "" -> "int" [] pfx = "u8" -> "uchar" [] pfx = "u" -> "ushort"
    [] pfx = "U" -> "uint" [] pfx = "L" -> WcharType(targ)

Reject(why) == [o |-> "reject", why |-> why]
Unspec(why) == [o |-> "unspec", why |-> why]
Ok(tys, size, units) ==
  [o |-> "ok", tys |-> tys, size |-> size, n |-> Len(units), osize |-> Len(units) * size,
   bytes |-> FlattenSeq([i \in 1..Len(units) |-> UnitBytes(units[i], size)])]

NumOut(it, size) == it.k = "num" /\ (it.big \/ ~WFits(it.w, size))
NumHigh(it) == it.k = "num" /\ (it.big \/ it.w[1] # 0 \/ it.w[2] > 127)
ItemUnits(it, size) == IF it.k = "cp" THEN EncodeCp(it.v, size)
                       ELSE IF it.k = "esc" THEN <<<<0, it.v>>>> ELSE <<it.w>>

(* 6.4.5: string literal, possibly a concatenation of adjacent tokens *)
DeclStr(parts, targ) ==
  LET np   == Len(parts)
      its  == [i \in 1..np |-> DeclItems(parts[i].body, 1, DQ)]
      P    == {parts[i].pfx : i \in 1..np} \ {""}
      rp   == IF P = {} THEN "" ELSE CHOOSE p \in P : TRUE
      size == ElemSize(rp)
      bad  == {i \in 1..np : IsBadSeq(its[i])}
      all  == FlattenSeq([i \in 1..np |-> its[i]])
  IN IF HasNul(parts) THEN Unspec("nul-or-cr-in-source")
     ELSE IF bad # {} THEN LET w == its[MinOf(bad)][Len(its[MinOf(bad)])].why IN
                           IF w = "ucn" THEN Unspec("ucn-not-modelled") ELSE Reject(w)
     ELSE IF "u8" \in P /\ Cardinality(P) >= 2 THEN Reject("prefix-mix")     \* 6.4.5p2 constraint
     ELSE IF Cardinality(P) >= 2 THEN Unspec("wide-prefix-mix")              \* 6.4.5p5 implementation-defined (C23: constraint)
     ELSE IF \E j \in 1..Len(all) : NumOut(all[j], size) THEN Reject("escape-range")   \* 6.4.4.4p9
     ELSE IF rp # "" /\ \E i \in 1..np : parts[i].pfx = "" /\ \E j \in 1..Len(its[i]) : NumHigh(its[i][j])
          THEN Unspec("escape-in-unprefixed-part")   \* phase 5 converts it as a char before phase 6 re-types the sequence
     ELSE Ok(StrElemTypes(rp, targ), size,
             FlattenSeq([j \in 1..Len(all) |-> ItemUnits(all[j], size)]) \o <<<<0, 0>>>>)

(* image of `long long v = <constant>` : the value, sign- or zero-extended *)
ValBytes(w, neg) == UnitBytes(w, 4) \o (IF neg THEN <<255, 255, 255, 255>> ELSE <<0, 0, 0, 0>>)
OkChr(ty, size, w, neg) == [o |-> "ok", tys |-> {ty}, size |-> size, n |-> 1, osize |-> 8, bytes |-> ValBytes(w, neg)]

(* 6.4.4.4: character constant *)
DeclChr(pfx, body, targ) ==
  LET its  == DeclItems(body, 1, SQ)
      ty   == ChrType(pfx, targ)
      size == ElemSize(pfx)
      it   == its[1]
  IN IF HasNul(<<[body |-> body]>>) THEN Unspec("nul-or-cr-in-source")
     ELSE IF IsBadSeq(its) THEN (IF its[Len(its)].why = "ucn" THEN Unspec("ucn-not-modelled") ELSE Reject(its[Len(its)].why))
     ELSE IF Len(its) = 0 THEN Reject("empty")
     ELSE IF Len(its) > 1 THEN Unspec("multi-char")                 \* 6.4.4.4p10/11 implementation-defined
     ELSE IF NumOut(it, size) THEN Reject("escape-range")           \* 6.4.4.4p9
     ELSE IF pfx = "" THEN
          IF it.k = "cp" /\ it.v >= 128 THEN Unspec("multibyte-plain")   \* p10: not a single-byte execution character
          ELSE LET v == IF it.k = "num" THEN it.w[2] ELSE it.v IN         \* value of an object of type char ...
               IF CharSigned(targ) /\ v >= 128                             \* ... converted to int (p10, p13 example 2)
               THEN OkChr(ty, size, <<65535, 65280 + v>>, TRUE)
               ELSE OkChr(ty, size, <<0, v>>, FALSE)
     ELSE IF it.k = "cp" /\ pfx = "u8" /\ it.v >= 128 THEN Reject("cp-range")   \* C23 6.4.4.5: one UTF-8 code unit
     ELSE IF it.k = "cp" /\ pfx = "u" /\ it.v >= 65536
          THEN [o |-> "weak", why |-> "cp-range", size |-> size]    \* C11 impl.-defined value *of type char16_t*; C23 constraint
     ELSE LET w == ItemUnits(it, 4)[1] IN
          OkChr(ty, size, w, pfx = "L" /\ WcharSigned(targ) /\ w[1] >= 32768)

DeclLit(c) == IF c.ctx = "str" THEN DeclStr(c.parts, c.targ)
              ELSE DeclChr(c.parts[1].pfx, c.parts[1].body, c.targ)

(* ---- the literal as initializer of an array object (6.7.9p14, p15, p21, p22) ---------------------------- *)
(* alen = declared number of elements, -1 = array of unknown size; stor = "static" | "auto" | "member"       *)
(* ("member": struct { T a[alen]; T b; } s = { LIT, MemberVal } -- the object image includes the member b). *)
(* d.n counts the terminating zero.  Room for everything: the rest is zero (p21).  Exactly no room for the   *)
(* terminator: it is dropped (p14 "if there is room").  Fewer elements than characters: 6.7.9p2 makes that a *)
(* constraint violation, which belongs to C10; here it may be rejected, and if it is accepted the object      *)
(* still has its declared size and holds the leading elements ("okrej").                                     *)
Alen(c) == IF "alen" \in DOMAIN c THEN c.alen ELSE -1
Stor(c) == IF "stor" \in DOMAIN c THEN c.stor ELSE "static"
Zeros(k) == [i \in 1..k |-> 0]
MemberVal == 90
DeclInit(d, alen, stor) ==
  IF d.o # "ok" \/ alen = -1 THEN d
  ELSE LET room == alen * d.size
           img  == IF alen >= d.n THEN d.bytes \o Zeros(room - d.n * d.size) ELSE SubSeq(d.bytes, 1, room)
           all  == img \o (IF stor = "member" THEN UnitBytes(<<0, MemberVal>>, d.size) ELSE <<>>)
       IN [d EXCEPT !.o = IF alen >= d.n - 1 THEN "ok" ELSE "okrej", !.bytes = all, !.osize = Len(all)]

Decl(c) == DeclInit(DeclLit(c), Alen(c), Stor(c))

(* ======================================================================== *)
(* Part 2.  Implementation-shaped model (D = deviations switched on)        *)
(* ======================================================================== *)
MReject == [o |-> "reject"]
MAbort  == [o |-> "abort"]

(* scan.c: isodigit *)
ScanIsODigit(c) == c >= 48 /\ c < 56
(* expr.c: isodigit  --  '0' <= c && c <= '7' *)
ExprIsODigit(c, D) == c >= 48 /\ c <= 55

(* scan.c: escape().  j = index of the character after the backslash; result = index after the escape, 0 = error *)
ScanEscape(s, j) ==
  LET c == s[j] IN
  IF c = 120 THEN IF ~IsHex(s[j + 1]) THEN 0 ELSE j + 1 + HexRun(s, j + 1)
  ELSE IF ScanIsODigit(c) THEN
       IF ~ScanIsODigit(s[j + 1]) THEN j + 1 ELSE IF ~ScanIsODigit(s[j + 2]) THEN j + 2 ELSE j + 3
  ELSE IF c \in SimpleEscChars \/ c = 0 THEN j + 1       \* strchr(.., 0) finds the terminator
  ELSE 0

(* scan.c: charconst()/stringlit() loop.  s ends in a newline, so the scan stops. result = index of closing quote, 0 = error *)
RECURSIVE ScanLit(_, _, _)
ScanLit(s, i, q) ==
  LET c == s[i] IN
  IF c = BS THEN LET e == ScanEscape(s, i + 1) IN IF e = 0 THEN 0 ELSE ScanLit(s, e, q)
  ELSE IF c = q THEN i
  ELSE IF c = NL THEN 0
  ELSE ScanLit(s, i + 1, q)

(* the token is accepted by the scanner and spans exactly the rendered literal *)
ScanOk(body, q) == ScanLit(body \o <<q, 59, NL>>, 1, q) = Len(body) + 1

(* utf.c: utf8dec(&c, s, 4) *)
Utf8Dec(tok, i, D) ==
  LET b == tok[i]
      l == IF b < 128 THEN 1 ELSE IF b >= 192 /\ b < 224 THEN 2 ELSE IF b >= 224 /\ b < 240 THEN 3
           ELSE IF b >= 240 /\ b < 248 THEN 4 ELSE 0
      x0 == CASE l = 2 -> (b % 32) [] l = 3 -> (b % 16) [] l = 4 -> (b % 8) [] OTHER -> b
      contOk == \A k \in 1..(l - 1) : At(tok, i + k) >= 128 /\ At(tok, i + k) < 192
      x == FoldLeft(LAMBDA a, k : a * 64 + (At(tok, i + k) % 64), x0, [k \in 1..(l - 1) |-> k])
      surr == x >= 55296 /\ x < 57344                                          \* x - 0xd800 < 0x0800
      overlong == (l = 2 /\ x < 128) \/ (l = 3 /\ x < 2048) \/ (l = 4 /\ x < 65536)  \* x < (l == 2 ? 0x80 : l == 3 ? 0x800 : 0x10000)
  IN IF l = 0 THEN [ok |-> FALSE]
     ELSE IF l = 1 THEN [ok |-> TRUE, c |-> b, l |-> 1]
     ELSE IF ~contOk THEN [ok |-> FALSE]
     ELSE IF x >= 1114112 \/ surr \/ overlong THEN [ok |-> FALSE]
     ELSE [ok |-> TRUE, c |-> x, l |-> l]

(* utf.c: utf8enc / utf16enc; <<-1>> = assert(0) *)
Utf8Enc(c) ==
  IF c < 128 THEN <<c>>
  ELSE IF c < 2048 THEN <<192 + c \div 64, 128 + (c % 64)>>
  ELSE IF c < 55296 \/ (c >= 57344 /\ c < 65536) THEN <<224 + c \div 4096, 128 + ((c \div 64) % 64), 128 + (c % 64)>>
  ELSE IF c >= 65536 /\ c < 1114112 THEN <<240 + c \div 262144, 128 + ((c \div 4096) % 64), 128 + ((c \div 64) % 64), 128 + (c % 64)>>
  ELSE <<-1>>
Utf16Enc(c) ==
  IF c < 55296 \/ (c >= 57344 /\ c < 65536) THEN <<c>>
  ELSE IF c >= 65536 /\ c < 1114112 THEN <<55296 + (((c - 65536) \div 1024) % 1024), 56320 + ((c - 65536) % 1024)>>
  ELSE <<-1>>

(* c = c * base + d  in uint_least32_t; ovf records a carry out of 32 bits *)
WStep(a, d, base) ==
  LET lo == a.w[2] * base + d
      hi == a.w[1] * base + lo \div 65536
  IN [w |-> <<(hi % 65536), (lo % 65536)>>, ovf |-> a.ovf \/ hi >= 65536]

(* expr.c: decodechar().  st: "ok" | "err" (error()) | "abort" (assert) *)
DecodeChar(tok, i, D) ==
  IF tok[i] = BS THEN
    LET e == At(tok, i + 1) IN
    IF e \in SimpleEscChars THEN [st |-> "ok", w |-> <<0, SimpleEscVal(e)>>, n |-> 2, hexoct |-> FALSE, ovf |-> FALSE]
    ELSE IF e = 120 THEN
      LET r == HexRun(tok, i + 2) IN
      IF r = 0 THEN [st |-> "abort"]
      ELSE LET a == FoldLeft(LAMBDA acc, k : WStep(acc, HexVal(tok[i + 1 + k]), 16), [w |-> <<0, 0>>, ovf |-> FALSE], [k \in 1..r |-> k])
           IN IF a.ovf THEN [st |-> "err"]        \* if (c >> 28) error(loc, "%s contains escape sequence out of range", desc)
              ELSE [st |-> "ok", w |-> a.w, n |-> 2 + r, hexoct |-> TRUE, ovf |-> FALSE]
    ELSE IF ~ExprIsODigit(e, D) THEN [st |-> "abort"]
    ELSE LET r == IF ~ExprIsODigit(At(tok, i + 2), D) THEN 1 ELSE IF ~ExprIsODigit(At(tok, i + 3), D) THEN 2 ELSE 3
             a == FoldLeft(LAMBDA acc, k : WStep(acc, tok[i + k] - 48, 8), [w |-> <<0, 0>>, ovf |-> FALSE], [k \in 1..r |-> k])
         IN [st |-> "ok", w |-> a.w, n |-> 1 + r, hexoct |-> TRUE, ovf |-> FALSE]
  ELSE LET u == Utf8Dec(tok, i, D) IN
       IF ~u.ok THEN [st |-> "err"]
       ELSE [st |-> "ok", w |-> WOfNat(u.c), n |-> u.l, hexoct |-> FALSE, ovf |-> FALSE]

(* expr.c: encodechar8/16/32.  Result: sequence of unit words, or <<>> for assert(0) *)
EncodeChar(size, w, hexoct) ==
  CASE size = 1 -> IF hexoct THEN <<<<0, (w[2] % 256)>>>>
                   ELSE LET e == Utf8Enc(NatOfW(w)) IN IF e = <<-1>> THEN <<>> ELSE [k \in 1..Len(e) |-> <<0, e[k]>>]
    [] size = 2 -> IF hexoct THEN <<<<0, w[2]>>>>
                   ELSE LET e == Utf16Enc(NatOfW(w)) IN IF e = <<-1>> THEN <<>> ELSE [k \in 1..Len(e) |-> <<0, e[k]>>]
    [] size = 4 -> <<w>>

(* the decode/encode loop of stringconcat over one token: while src[0] is not the closing quote *)
RECURSIVE DecLoop(_, _, _, _, _)
DecLoop(tok, i, size, D, acc) ==
  IF tok[i] = DQ THEN [st |-> "ok", units |-> acc]
  ELSE LET d == DecodeChar(tok, i, D) IN
    IF d.st # "ok" THEN [st |-> d.st]
    ELSE IF "StrEscapeTrunc" \notin D /\ d.hexoct /\ ~WFits(d.w, size) THEN [st |-> "err"]   \* deviation: encodechar8/16 truncate
    ELSE LET e == EncodeChar(size, d.w, d.hexoct) IN
         IF e = <<>> THEN [st |-> "abort"] ELSE DecLoop(tok, i + d.n, size, D, acc \o e)

(* expr.c: stringconcat(str, false) + primaryexpr(TSTRINGLIT) *)
ModelStr(parts, targ, D) ==
  LET np == Len(parts)
      scanok == \A i \in 1..np : ScanOk(parts[i].body, DQ)
      kinds == FoldLeft(LAMBDA a, i : LET nk == parts[i].pfx IN
                          [kind |-> IF nk # "" THEN nk ELSE a.kind,
                           err  |-> a.err \/ (a.kind # nk /\ a.kind # "" /\ nk # "")],
                        [kind |-> "", err |-> FALSE], [i \in 1..np |-> i])
      kind == kinds.kind
      ty   == CASE kind = "" -> "char" [] kind = "u8" -> "uchar" [] kind = "u" -> "ushort"
                [] kind = "U" -> "uint" [] kind = "L" -> WcharType(targ)          \* targ->typewchar
      size == ElemSize(kind)                                                       \* t->size
      run  == FoldLeft(LAMBDA a, i : IF a.st # "ok" THEN a
                                      ELSE DecLoop(parts[i].body \o <<DQ, 0>>, 1, size, D, a.units),
                       [st |-> "ok", units |-> <<>>], [i \in 1..np |-> i])
  IN IF ~scanok \/ kinds.err THEN MReject
     ELSE IF run.st = "err" THEN MReject
     ELSE IF run.st = "abort" THEN MAbort
     ELSE Ok({ty}, size, run.units \o <<<<0, 0>>>>)

(* expr.c: primaryexpr(TCHARCONST) *)
ModelChr(pfx, body, targ, D) ==
  LET tok == body \o <<SQ, 0>>
      ty  == ChrType(pfx, targ)
      size == ElemSize(pfx)
      d   == DecodeChar(tok, 1, D)
      low == (d.w[2] % 256)
  IN IF ~ScanOk(body, SQ) THEN MReject
     ELSE IF d.st = "err" THEN MReject
     ELSE IF d.st = "abort" THEN MAbort
     ELSE IF tok[1 + d.n] # SQ THEN MReject                 \* "more than one character"
     ELSE IF d.hexoct /\ ~WFits(d.w, size) THEN MReject    \* hexoct && chr >> (t ? t->size * 8 - 1 : 7) >> 1
     ELSE IF ~d.hexoct /\ pfx \in {"u8", "u"}            \* !hexoct && t && t->size < 4 && chr >= (t->size == 1 ? 0x80 : 0x10000)
             /\ NatOfW(d.w) >= (IF pfx = "u8" THEN 128 ELSE 65536) THEN MReject
     ELSE IF pfx = "" THEN          \* !t: if (targ->signedchar && val >= 0x80 && val < 0x100) val -= 0x100; larger codes stay raw
          IF CharSigned(targ) /\ d.w[1] = 0 /\ d.w[2] >= 128 /\ d.w[2] < 256 THEN OkChr(ty, size, <<65535, 65280 + low>>, TRUE)
          ELSE OkChr(ty, size, d.w, FALSE)
     ELSE                            \* t->u.basic.issigned && top bit of the 32-bit unit: sign-extend (only wchar_t = int is signed)
          OkChr(ty, size, d.w, pfx = "L" /\ WcharSigned(targ) /\ d.w[1] >= 32768)

ModelLit(c, D) == IF c.ctx = "str" THEN ModelStr(c.parts, c.targ, D)
                  ELSE ModelChr(c.parts[1].pfx, c.parts[1].body, c.targ, D)

(* init.c parseinit (an incomplete array takes the literal's size) + qbe.c dataitem / funcinit: the loop        *)
(*   for (i = 0; i < string.size && i * w < end - start; ++i) emit unit i;   then zero-fill up to `end`          *)
(* followed by the next initializer (the member b).  Too long a literal is clipped silently.                    *)
ModelInit(m, alen, stor) ==
  IF m.o # "ok" \/ alen = -1 THEN m
  ELSE LET w    == m.size
           span == alen * w
           k    == CHOOSE i \in 0..m.n : (i = m.n \/ i * w >= span) /\ \A j \in 0..(i - 1) : j < m.n /\ j * w < span
           all  == SubSeq(m.bytes, 1, k * w) \o Zeros(span - k * w)
                   \o (IF stor = "member" THEN UnitBytes(<<0, MemberVal>>, w) ELSE <<>>)
       IN [m EXCEPT !.bytes = all, !.osize = Len(all)]

Model(c, D) == ModelInit(ModelLit(c, D), Alen(c), Stor(c))

(* what the declarative side allows an implementation to do *)
Conforms(m, d) ==
  CASE d.o = "unspec" -> m.o \in {"ok", "reject"}
    [] d.o = "weak"   -> m.o = "reject" \/ (m.o = "ok" /\ \A k \in (d.size + 1)..8 : m.bytes[k] = 0)
    [] d.o = "reject" -> m.o = "reject"
    [] d.o = "ok"     -> m.o = "ok" /\ m.tys \subseteq d.tys /\ m.size = d.size /\ m.n = d.n /\ m.osize = d.osize /\ m.bytes = d.bytes
    [] d.o = "okrej"  -> m.o = "reject" \/ (m.o = "ok" /\ m.tys \subseteq d.tys /\ m.size = d.size /\ m.n = d.n
                                            /\ m.osize = d.osize /\ m.bytes = d.bytes)

(* a deviation is held responsible for a case if switching it alone on or alone off changes the model's answer *)
Fired(c) == IF Model(c, Devs) = Model(c, {}) THEN {}
            ELSE {x \in Devs : Model(c, Devs \ {x}) # Model(c, Devs) \/ Model(c, {x}) # Model(c, {})}

(* ======================================================================== *)
(* Part 3.  Case families                                                    *)
(* ======================================================================== *)
RawEnc(v, n) ==      \* generalised UTF-8 bit pattern of length n, no validity restrictions
  CASE n = 1 -> <<v>>
    [] n = 2 -> <<192 + v \div 64, 128 + (v % 64)>>
    [] n = 3 -> <<224 + v \div 4096, 128 + ((v \div 64) % 64), 128 + (v % 64)>>
    [] n = 4 -> <<240 + v \div 262144, 128 + ((v \div 4096) % 64), 128 + ((v \div 64) % 64), 128 + (v % 64)>>
Cap(n) == CASE n = 1 -> 128 [] n = 2 -> 2048 [] n = 3 -> 65536 [] n = 4 -> 2097152

BoundaryCps ==
  LET B0 == {0, 127, 128, 2047, 2048, 55295, 55296, 57343, 57344, 65535, 65536, 1114111, 1114112}
  IN {x \in {v + d : v \in B0, d \in {-1, 0, 1}} : x >= 0} \cup {55807, 55808, 56319, 56320, 2097151, 233, 8364, 128512}
BoundarySeqs == UNION {{RawEnc(v, n) : v \in {x \in BoundaryCps : x < Cap(n)}} : n \in 1..4}
Variants(s) ==
  {s} \cup (IF Len(s) >= 2
            THEN {SubSeq(s, 1, Len(s) - 1),                           \* truncated
                  [s EXCEPT ![Len(s)] = @ - 128],                     \* last continuation byte 0xxxxxxx
                  [s EXCEPT ![Len(s)] = @ + 64],                      \* last continuation byte 11xxxxxx
                  [s EXCEPT ![2] = @ - 128]}                          \* first continuation byte 0xxxxxxx
            ELSE {})
Utf8Bodies ==
  LET core == UNION {Variants(s) : s \in BoundarySeqs}
              \cup {<<128>>, <<191>>, <<192>>, <<254>>, <<255>>, <<248, 136, 128, 128, 128>>,
                    <<252, 132, 128, 128, 128, 128>>, <<245, 128, 128, 128>>}
  IN core \cup {<<97>> \o s \o <<122>> : s \in core}

OctDigits == IF Tier = "quick" THEN {0, 3, 4, 7} ELSE 0..7
OctRuns == {<<a>> : a \in OctDigits} \cup {<<a, b>> : a, b \in OctDigits} \cup {<<a, b, c>> : a, b, c \in OctDigits}
OctFollow == {<<>>, <<48>>, <<55>>, <<56>>, <<57>>, <<97>>}
OctBodies == {<<BS>> \o [i \in 1..Len(r) |-> 48 + r[i]] \o f : r \in OctRuns, f \in OctFollow}
OctChrBodies == {<<BS>> \o [i \in 1..Len(r) |-> 48 + r[i]] : r \in OctRuns}

Rep(b, n) == [i \in 1..n |-> b]
HexRuns ==
  UNION {{Rep(102, L), <<49>> \o Rep(48, L - 1), Rep(48, L - 1) \o <<49>>, <<55>> \o Rep(102, L - 1),
          <<56>> \o Rep(48, L - 1), Rep(48, L - 1) \o <<65>>, Rep(70, L)} : L \in 1..10}
  \cup {<<52, 49>>, <<101, 57>>, <<69, 57>>, <<70, 102>>, <<49, 48, 48>>, <<48, 102, 102>>, <<49, 50, 51, 52, 53>>,
        <<100, 56, 48, 48>>, <<68, 70, 70, 70>>, <<49, 48, 70, 70, 70, 70>>, <<49, 49, 48, 48, 48, 48>>,
        <<49, 48, 48, 48, 48, 48, 48, 52, 49>>, <<48, 48, 48, 48, 48, 48, 48, 48, 48, 48, 102, 102>>,
        <<55, 102>>, <<56, 48>>, <<102, 102, 102, 102>>, <<49, 48, 48, 48, 48>>, <<97, 98, 99, 100, 101, 102>>}
HexFollow == {<<>>, <<103>>, <<71>>}
HexBodies == {<<BS, 120>> \o r \o f : r \in HexRuns, f \in HexFollow}
HexChrBodies == {<<BS, 120>> \o r : r \in HexRuns}

EscBodies == {<<BS, e>> : e \in SimpleEscChars \cup {48, 56, 57, 99, 101, 117, 85, 120, 88, 32, 65}}
             \cup {<<>>, <<97, 98>>, <<BS, 110, 97>>, <<97, NL, 98>>}      \* empty, two characters, raw newline

CatBodies == {<<97>>, <<195, 169>>, <<240, 159, 152, 128>>, <<BS, 49, 48, 49>>, <<BS, 120, 102, 102>>,
              <<BS, 120, 49, 48, 48>>, <<>>, <<BS, 49>>, <<56>>}

(* literals used as expressions (each becomes an anonymous static object found through the string pool of decl.c    *)
(* stringdecl): bodies chosen so that, within one prefix, several literals have the same number of units and share   *)
(* leading units / differ only in the last unit / differ only in the high byte(s) of a unit (0x62 'b', 0x162, 0x1F600) *)
PoolBodies == {<<97, 98>>, <<97, 99>>, <<97, 197, 162>>, <<97, 206, 177>>, <<97>>, <<98>>, <<>>,
               <<97, 98, 99, 100>>, <<97, 98, 99, 121>>, <<97, 98, 99, 197, 162>>, <<97, 240, 159, 152, 128, 100>>,
               <<107, 101, 121, 61, 49>>, <<107, 101, 121, 61, 88>>, <<107, 101, 121, 61, 240, 159, 152, 128>>,
               <<107, 101, 121, 61, BS, 120, 51, 49>>}

Families == {"byte", "utf8", "oct", "hex", "esc", "cat", "arr", "pool"}

Chunks == {[fam |-> f, targ |-> t, pfx |-> p] : f \in Families, t \in Targets, p \in PrefixSet}

One(ctx, t, p, body) == [ctx |-> ctx, targ |-> t, parts |-> <<[pfx |-> p, body |-> body]>>]
(* literals as initializers of sized arrays: lengths around the literal's own length n (units incl. terminator) *)
ArrBodies == {<<97, 98>>, <<97, 240, 159, 152, 128>>, <<BS, 120, 55, 102, 103>>, <<>>, <<226, 130, 172, 122, 122, 122>>}
ArrCases(t, p) ==
  UNION {LET c0 == One("str", t, p, b)
             d0 == DeclLit(c0)
             n  == IF d0.o = "ok" THEN d0.n ELSE 3
         IN {c0 @@ ("alen" :> a) @@ ("stor" :> st) :
               a \in {x \in {n - 3, n - 2, n - 1, n, n + 1, n + 3} : x >= 1} \cup {-1},
               st \in {"static", "auto", "member"}}
           : b \in ArrBodies}
  \ {c \in UNION {{One("str", t, p, b) @@ ("alen" :> -1) @@ ("stor" :> "member")} : b \in ArrBodies} : TRUE}

ChunkCases(ch) ==
  LET t == ch.targ  p == ch.pfx IN
  CASE ch.fam = "byte" -> {One(x, t, p, <<b>>) : x \in {"chr", "str"}, b \in 0..255}
    [] ch.fam = "utf8" -> {One(x, t, p, s) : x \in {"chr", "str"}, s \in Utf8Bodies}
    [] ch.fam = "oct"  -> {One("str", t, p, s) : s \in OctBodies} \cup {One("chr", t, p, s) : s \in OctChrBodies}
    [] ch.fam = "hex"  -> {One("str", t, p, s) : s \in HexBodies} \cup {One("chr", t, p, s) : s \in HexChrBodies}
    [] ch.fam = "esc"  -> {One(x, t, p, s) : x \in {"chr", "str"}, s \in EscBodies}
    [] ch.fam = "arr"  -> ArrCases(t, p)
    [] ch.fam = "pool" -> {One("str", t, p, s) : s \in PoolBodies}
    [] ch.fam = "cat"  ->
         {[ctx |-> "str", targ |-> t, parts |-> <<[pfx |-> p, body |-> a], [pfx |-> q, body |-> b]>>]
            : q \in PrefixSet, a \in CatBodies, b \in CatBodies}
         \cup {[ctx |-> "str", targ |-> t,
                parts |-> <<[pfx |-> p, body |-> <<97>>], [pfx |-> q, body |-> <<BS, 49>>], [pfx |-> r, body |-> <<56, 195, 169>>]>>]
                 : q \in PrefixSet, r \in PrefixSet}

(* ---- random generator (Mode = "sim") ------------------------------------ *)
Rnd(n) == RandomElement(0..(n - 1))
AsciiOk == (1..127) \ {NL, 13, DQ, SQ, BS, 63}         \* no delimiters, no '?' (trigraphs in the gcc audit)
AsciiSeq == SetToSortSeq(AsciiOk, LAMBDA a, b : a < b)
HexDigitSeq == <<48, 49, 50, 51, 52, 53, 54, 55, 56, 57, 97, 98, 99, 100, 101, 102, 65, 66, 67, 68, 69, 70>>
SimpleEscSeq == SetToSortSeq(SimpleEscChars, LAMBDA a, b : a < b)

RHexDigits(n) == [i \in 1..n |-> HexDigitSeq[1 + Rnd(22)]]
(* one random item for an element size; `wild` items ignore the size and the validity rules *)
RItem(size) ==
  LET k == Rnd(40) IN
  CASE k < 8  -> <<AsciiSeq[1 + Rnd(Len(AsciiSeq))]>>
    [] k < 12 -> Utf8(128 + Rnd(1920))
    [] k < 17 -> LET v == 2048 + Rnd(61440) IN Utf8(IF v >= 55296 THEN v + 2048 ELSE v)
    [] k < 22 -> Utf8(65536 * (1 + Rnd(16)) + Rnd(65536))
    [] k < 25 -> <<BS, SimpleEscSeq[1 + Rnd(11)]>>
    [] k < 30 -> <<BS>> \o [i \in 1..(1 + Rnd(3)) |-> 48 + Rnd(8)] \o (IF Rnd(2) = 0 THEN <<56 + Rnd(2)>> ELSE <<>>)
    [] k < 36 -> <<BS, 120>> \o Rep(48, Rnd(3) * Rnd(2)) \o RHexDigits(1 + Rnd(2 * size)) \o (IF Rnd(3) = 0 THEN <<103 + Rnd(4)>> ELSE <<>>)
    [] k < 37 -> <<BS, 120>> \o RHexDigits(1 + Rnd(9))                    \* any length: mostly out of range
    [] k < 38 -> <<128 + Rnd(128)>>                                        \* stray high byte
    [] k < 39 -> LET s == Utf8(65536 * Rnd(17) + Rnd(65536) + (IF Rnd(2) = 0 THEN 0 ELSE 2048)) IN
                 IF Rnd(2) = 0 THEN SubSeq(s, 1, Len(s) - 1) ELSE s        \* truncated / arbitrary incl. surrogate patterns
    [] OTHER  -> RawEnc(Rnd(2048), 2 + Rnd(3))                             \* mostly overlong
RBody(size, n) == FlattenSeq([i \in 1..n |-> RItem(size)])
StorSeq == <<"static", "auto", "member">>
WithArray(c) ==     \* a third of the accepted random strings become initializers of a sized array
  LET d == DeclLit(c) IN
  IF c.ctx # "str" \/ d.o # "ok" \/ Rnd(3) # 0 THEN c
  ELSE LET a == d.n + Rnd(6) - 3 IN
       c @@ ("alen" :> IF a < 1 THEN 1 ELSE a) @@ ("stor" :> StorSeq[1 + Rnd(3)])
RandomCase0(salt) ==
  LET t  == TargetSeq[1 + Rnd(3)]
      p  == PrefixSeq[1 + Rnd(5)]
      sz == ElemSize(p)
  IN IF Rnd(4) = 0 THEN One("chr", t, p, RItem(sz))
     ELSE LET np == 1 + (IF Rnd(3) = 0 THEN 1 + Rnd(2) ELSE 0) IN
          [ctx |-> "str", targ |-> t,
           parts |-> [i \in 1..np |->
                        [pfx |-> (LET r == Rnd(12) IN IF np = 1 \/ r < 6 THEN p ELSE IF r < 11 THEN "" ELSE PrefixSeq[1 + Rnd(5)]),
                         body |-> RBody(sz, Rnd(7))]]]
RandomCase(salt) == WithArray(RandomCase0(salt))

(* ======================================================================== *)
(* Part 4.  State machine, invariants, emission                             *)
(* ======================================================================== *)
Start(ch) == [ctx |-> "start", chunk |-> ch]

Init == IF Mode = "exh" THEN \E ch \in Chunks : cs = Start(ch) ELSE cs = Start(0)

Enumerate == cs.ctx = "start" /\ Mode = "exh" /\ \E c \in ChunkCases(cs.chunk) : cs' = c @@ ("fam" :> cs.chunk.fam)
Generate  == Mode = "sim" /\ \E k \in 1..4 : cs' = RandomCase(k) @@ ("fam" :> "rnd")
Next == Enumerate \/ Generate
Spec == Init /\ [][Next]_cs

IsCase == cs.ctx # "start"

(* design level: the model with every deviation switched off is a correct implementation *)
Inv_Refines == IsCase => Conforms(Model(cs, {}), Decl(cs))
(* the corrected model never dies on an assertion *)
Inv_NoAbort == IsCase => Model(cs, {}).o # "abort"
(* bodies that cannot be rendered as one token are never claimed to be valid *)
Inv_Wf == IsCase => (Decl(cs).o = "ok" => \A i \in 1..Len(cs.parts) : ScanOk(cs.parts[i].body, IF cs.ctx = "str" THEN DQ ELSE SQ))

Emit == PrintT("VCASE " \o ToJson([fam |-> cs.fam, ctx |-> cs.ctx, targ |-> cs.targ, parts |-> cs.parts,
                                   alen |-> Alen(cs), stor |-> Stor(cs), decl |-> Decl(cs),
                                   impl |-> Model(cs, Devs), fired |-> Fired(cs)]))
Inv_Emit == IsCase => Emit
=============================================================================
