SPECIFICATION Spec
CONSTANTS
  ItemKinds = {"decl", "sp_between", "sp_inside", "cmt2", "lcmt", "lcmt_sp", "blank", "blank2", "sp_first", "pragma", "nulldir", "macro3", "macro_nl", "dotdot_sp", "line1", "line7", "lineBig", "line010", "line7f", "line7fp", "line7fx", "line7e", "line7sp", "marker7", "marker1nf"}
  ViolKinds = {"v_undecl", "v_str", "v_define"}
  MaxItems = 3
  MinItems = 0
  MaxCmt = 0
  Devs = {"NewlineLocNextLine", "SetlocAfterLookahead", "DotDotRestore"}
  Emit = TRUE
INVARIANTS Inv_Emit
CHECK_DEADLOCK FALSE
