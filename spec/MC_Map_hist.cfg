\* bounded histories without VIEW: result of every operation is independent of H (all 4096 hash functions)
SPECIFICATION Spec
CONSTANTS
  NKeys = 3
  InitCap = 4
  CapMax = 8
  Buckets = {0,1,2,3,4,5,6,7}
  SortedH = FALSE
  PutVals = {0, 1}
  AllowKeep = TRUE
  AllowReset = TRUE
  MaxOps = 3
INVARIANTS Inv_FreeSlot Inv_Get Inv_RetIndepOfH
CHECK_DEADLOCK FALSE
