SPECIFICATION Spec
CONSTANTS
  Ids = {"x", "y", "z"}
  MaxLen = 5
  MaxDepth = 0
  MixKinds = FALSE
  AsmForms = FALSE
  AsmFirst = FALSE
  Kinds = {"obj", "func"}
  Family = "tentative"
  DevsOn = {"ThreadNoTentative", "ThreadMismatchNotDiagnosed", "InlineLateExternal", "NoUsedInternalUndefDiag"}
  OkPrefix = FALSE
  SampleMod = 4
  Emit = "all"
INVARIANTS Inv_Refines Inv_OneDef Inv_ExportedExt Inv_FiredExplains Inv_Emit
CHECK_DEADLOCK FALSE
