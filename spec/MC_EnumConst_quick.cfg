\* C05 quick tier, enumeration family: singles, pairs (any item x anchor in its natural type, and the reverse), fixed underlying types
SPECIFICATION Spec
CONSTANTS
  MaxOff = 1
  PairMode = "nat"
  Triples = FALSE
  FixedTypes = {"schar", "uchar", "short", "ushort", "int", "uint", "long", "ulong"}
  Emit = TRUE
INVARIANTS Inv_Represents Inv_C11 Inv_During Inv_Fixed Inv_Anchor Inv_Spell Inv_Emit
CHECK_DEADLOCK FALSE
