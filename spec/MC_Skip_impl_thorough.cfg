SPECIFICATION Spec
CONSTANTS
  MaxLen = 5
  Loops = {"attr", "gnuattr", "margs", "pragma", "define", "cppc", "cc", "str"}
  Dev_AttrSkipNoEOF = TRUE
INVARIANTS Refines Inv_Emit
CHECK_DEADLOCK FALSE
