\* design-level check: PPModel with every deviation off refines the declarative Expand on space "qn"
SPECIFICATION Spec
CONSTANTS
  Devs <- NoDevs
  Space = "qn"
  Modes = {"E", "C"}
  EmitCases = FALSE
  PeekBudget = 0
INVARIANTS Inv_Ctx Inv_End Inv_Conform Inv_Text Inv_Newline
PROPERTIES Prop_Disc
CHECK_DEADLOCK FALSE
