SPECIFICATION Spec
CONSTANTS
  MaxD = 7
  MaxSteps = 70
  NLabels = 3
  UndefGoto = FALSE
  NoretArm = TRUE
INVARIANT Emit
CHECK_DEADLOCK FALSE
