\* generator (-simulate): tags and enumeration constants declared INSIDE struct member lists, used after the closing brace
SPECIFICATION CSpec
CONSTANTS
  Names = {1, 2, 3}
  MaxScopes = 60
  MaxDepth = 5
  MaxIds = 0
  MaxLen = 45
  Deep = FALSE
  Feat = {"func", "nest"}
INVARIANTS Inv_Lexical Inv_Stack Inv_Emit
CHECK_DEADLOCK FALSE
