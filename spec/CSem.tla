-------------------------------- MODULE CSem --------------------------------
(* Abstract machine for "MiniC", the C fragment the C01 generators emit: all     *)
(* integer types, every unary/binary/compound-assignment/++/--/conditional/      *)
(* logical/cast operator, arrays, pointers to objects and array elements,        *)
(* structs with plain and bit-field members, block-scoped automatic and file     *)
(* scope objects with initialisers, if/while/do/for/switch/break/continue/       *)
(* return and calls (recursion) with scalar and pointer arguments.               *)
(* It defines the observable behaviour C11 prescribes for a program: the         *)
(* sequence of values passed to obs() and main's return value, or "undef" when   *)
(* the program has undefined behaviour (such programs are outside C01's          *)
(* quantifier and are discarded by the harness).                                 *)
(*                                                                               *)
(* Memory is abstract: an object's value is a word (scalar), a pointer           *)
(* [obj, path], a sequence (array) or a record keyed by member name (struct);    *)
(* no layout is assumed, so the expected behaviour does not depend on C06.       *)
(* Implementation-defined choices, fixed as the targets' ABI does: two's         *)
(* complement, conversion to a signed type wraps, >> of negative values is       *)
(* arithmetic, char signedness per target (Prog.charsigned).                     *)
EXTENDS Bits, FloatInt, Naturals, Integers, Sequences, FiniteSets, TLC, Json, IOUtils

CProgs == ndJsonDeserialize(IOEnv.C_PROGS)

VARIABLES cpid, ck, env, genv, mem, cout, cstatus, cret, cfuel, depth

cvars == <<cpid, ck, env, genv, mem, cout, cstatus, cret, cfuel, depth>>
CP == CProgs[cpid]

(* ---------------- types ---------------- *)
(* [k |-> "i", n |-> name] | [k |-> "p", t |-> T] | [k |-> "a", t |-> T, n |-> len] | [k |-> "s", id |-> i] *)
IntT(n) == [k |-> "i", n |-> n]
TInt == IntT("int")
IsInt(t) == t.k = "i"
IsPtr(t) == t.k = "p"
CharSigned == CP.charsigned
Size(n) == CASE n \in {"bool", "char", "schar", "uchar"} -> 1 [] n \in {"short", "ushort"} -> 2
             [] n \in {"int", "uint"} -> 4 [] OTHER -> 8
Signed(n) == CASE n = "char" -> CharSigned [] n \in {"schar", "short", "int", "long", "llong"} -> TRUE [] OTHER -> FALSE
Rank(n) == CASE n = "bool" -> 0 [] n \in {"char", "schar", "uchar"} -> 1 [] n \in {"short", "ushort"} -> 2
             [] n \in {"int", "uint"} -> 3 [] n \in {"long", "ulong"} -> 4 [] OTHER -> 5
Unsigned(n) == CASE n = "int" -> "uint" [] n = "long" -> "ulong" [] n = "llong" -> "ullong" [] OTHER -> n
WidthOf(n) == 8 * Size(n)

(* canonical word of a value of integer type n: sign- or zero-extended to 64 bits *)
Canon(n, w) == IF n = "bool" THEN (IF IsZero(w) THEN Zero ELSE One)
               ELSE IF Signed(n) THEN SExtBits(w, WidthOf(n)) ELSE TruncBits(w, WidthOf(n))
(* 6.3.1.2 / 6.3.1.3 conversion of word w (canonical for its own type) to integer type n *)
Conv(n, w) == Canon(n, w)

(* 6.3.1.1 integer promotions; bw > 0: bit-field of that width *)
Promote(n, bw) ==
  IF bw > 0 THEN (IF bw < 32 \/ (bw = 32 /\ Signed(n)) THEN (IF Rank(n) <= 3 THEN "int" ELSE n)
                  ELSE IF Rank(n) <= 3 THEN (IF Signed(n) THEN "int" ELSE "uint") ELSE n)
  ELSE IF Rank(n) < 3 THEN "int" ELSE n
(* 6.3.1.8 usual arithmetic conversions on promoted integer types *)
UAC(a, b) ==
  IF a = b THEN a
  ELSE IF Signed(a) = Signed(b) THEN (IF Rank(a) >= Rank(b) THEN a ELSE b)
  ELSE LET u == IF Signed(a) THEN b ELSE a
           s == IF Signed(a) THEN a ELSE b
       IN IF Rank(u) >= Rank(s) THEN u
          ELSE IF Size(s) > Size(u) THEN s
          ELSE Unsigned(s)

(* does the mathematical result fit type n?  (a, b canonical words of type n, n signed, at least int) *)
AddOvf(n, a, b) == LET r == Canon(n, Add(a, b)) IN (SignBit(a) = SignBit(b)) /\ (SignBit(r) # SignBit(a))
SubOvf(n, a, b) == LET r == Canon(n, Sub(a, b)) IN (SignBit(a) # SignBit(b)) /\ (SignBit(r) # SignBit(a))
(* signed multiplication overflow: check by dividing back (a, b canonical, 64-bit sign-extended) *)
MulOvf(n, a, b) ==
  IF IsZero(a) \/ IsZero(b) THEN FALSE
  ELSE IF WidthOf(n) = 32 THEN Canon(n, Mul(a, b)) # Mul(a, b)         \* exact in 64 bits
  ELSE LET p == Mul(a, b) IN
       \/ (a = Ones /\ b = Shl(One, 63)) \/ (b = Ones /\ a = Shl(One, 63))
       \/ SDiv(p, b) # a
MinOf(n) == Canon(n, Shl(One, WidthOf(n) - 1))

(* ---------------- floating types, restricted to the values this model can treat exactly ---------------- *)
(* A value of type float/double is modelled only when it is an INTEGER representable in the format: [neg, mag] with mag a  *)
(* 64-bit magnitude whose significant bits (between its highest and lowest set bit) fit the format's precision (24 / 53).   *)
(* Every operation whose exact result is not such a value yields Bad("inexact") and the program is discarded: rounding is   *)
(* outside the model (DESIGN.md section 6).                                                                                *)
IsFlt(t) == t.k = "f"
IsArith(t) == IsInt(t) \/ IsFlt(t)
Prec(n) == IF n = "float" THEN 24 ELSE 53
Representable(mag, n) == RepresentableP(mag, Prec(n))          \* FV, FAdd, FNeg, FMul, FDiv, FLt: FloatInt.tla
FOk(n, f) == IF Representable(f.mag, n) THEN [ok |-> TRUE, t |-> [k |-> "f", n |-> n], v |-> f, bw |-> 0] ELSE [ok |-> FALSE, why |-> "inexact"]
(* integer (canonical word w of type n) -> float value *)
IntToF(n, w) == IF Signed(n) /\ SignBit(w) THEN FV(TRUE, Neg(w)) ELSE FV(FALSE, w)
(* float value -> integer type n (6.3.1.4: undefined if the value cannot be represented) *)
FToInt(n, f) ==
  IF n = "bool" THEN [ok |-> TRUE, v |-> IF IsZero(f.mag) THEN Zero ELSE One]
  ELSE IF f.neg THEN (IF ~Signed(n) THEN [ok |-> FALSE]
                      ELSE IF ULt(Shl(One, WidthOf(n) - 1), f.mag) THEN [ok |-> FALSE] ELSE [ok |-> TRUE, v |-> Canon(n, Neg(f.mag))])
  ELSE IF WidthOf(n) = 64 /\ ~Signed(n) THEN [ok |-> TRUE, v |-> f.mag]
  ELSE IF ULt(f.mag, Shl(One, WidthOf(n) - (IF Signed(n) THEN 1 ELSE 0))) THEN [ok |-> TRUE, v |-> Canon(n, f.mag)] ELSE [ok |-> FALSE]

(* ---------------- values and memory ---------------- *)
(* scalar int: [v |-> word]; pointer: [obj |-> o, path |-> seq] (obj 0 = null); array: [el |-> seq]; struct: [f |-> record] *)
Null == [obj |-> 0, path |-> <<>>]
Structs == CP.structs
(* A union holds the value of ONE member: [act |-> member name, uv |-> its value].  Storing into a member makes it the active *)
(* one; reading a member other than the active one reinterprets the object representation (6.5.2.3 footnote 95), which this   *)
(* layout-free model does not define: the access yields the poison value Pun and the program is discarded as "undefined".     *)
IsUnion(sid) == "union" \in DOMAIN Structs[sid] /\ Structs[sid].union
Pun == [pun |-> TRUE]
FieldOf(sid, name) == LET fs == Structs[sid].fields IN fs[CHOOSE j \in 1..Len(fs) : fs[j].n = name]

RECURSIVE ZeroOf(_)
ZeroOf(t) ==
  CASE t.k = "i" -> [v |-> Zero]
    [] t.k = "f" -> [v |-> FZero]
    [] t.k = "p" -> Null
    [] t.k = "fp" -> [fn |-> ""]
    [] t.k = "a" -> [el |-> [j \in 1..t.n |-> ZeroOf(t.t)]]
    [] t.k = "s" /\ IsUnion(t.id) -> [act |-> Structs[t.id].fields[1].n, uv |-> ZeroOf(Structs[t.id].fields[1].t)]
    [] t.k = "s" -> [f |-> [nm \in {Structs[t.id].fields[j].n : j \in 1..Len(Structs[t.id].fields)} |-> ZeroOf(FieldOf(t.id, nm).t)]]

RECURSIVE GetPath(_, _, _)
GetPath(val, path, j) ==       \* sub-value at path[j..]
  IF j > Len(path) THEN val
  ELSE IF "pun" \in DOMAIN val THEN val
  ELSE IF "el" \in DOMAIN val THEN GetPath(val.el[path[j] + 1], path, j + 1)
  ELSE IF "act" \in DOMAIN val THEN (IF val.act = path[j] THEN GetPath(val.uv, path, j + 1) ELSE Pun)
  ELSE GetPath(val.f[path[j]], path, j + 1)
RECURSIVE SetPath(_, _, _, _)
SetPath(val, path, j, new) ==
  IF j > Len(path) THEN new
  ELSE IF "pun" \in DOMAIN val THEN val
  ELSE IF "el" \in DOMAIN val THEN [val EXCEPT !.el[path[j] + 1] = SetPath(@, path, j + 1, new)]
  ELSE IF "act" \in DOMAIN val THEN
         (IF val.act = path[j] THEN [val EXCEPT !.uv = SetPath(@, path, j + 1, new)]
          ELSE IF j = Len(path) THEN [act |-> path[j], uv |-> new]           \* a whole member is stored: it becomes the active one
          ELSE [act |-> path[j], uv |-> Pun])                                  \* part of an inactive member: the rest is unspecified
  ELSE [val EXCEPT !.f[path[j]] = SetPath(@, path, j + 1, new)]

(* lvalue: [ok, obj, path, t, bw] ; bw = bit-field width or 0 *)
Bad(why) == [ok |-> FALSE, why |-> why]
LV(obj, path, t, bw) == [ok |-> TRUE, obj |-> obj, path |-> path, t |-> t, bw |-> bw]
RV(t, v) == [ok |-> TRUE, t |-> t, v |-> v, bw |-> 0]       \* v: word for ints, pointer record for pointers

TypeAt(t, idx) == t.t
InBounds(lv) == TRUE

(* ---------------- expression evaluation (pure) ---------------- *)
ArithOps == {"+", "-", "*", "/", "%", "&", "|", "^"}
ShiftOps == {"<<", ">>"}
CmpOps2 == {"<", "<=", ">", ">=", "==", "!="}
ToIntSmall(n, w) == IF SignBit(w) THEN -Lo31(Neg(w)) ELSE Lo31(w)    \* |value| < 2^31 assumed (checked by SmallEnough)
SmallEnough(w) == FitsNat31(w) \/ FitsNat31(Neg(w))
Truth(r) == IF IsPtr(r.t) THEN r.v.obj # 0 ELSE IF r.t.k = "f" THEN ~IsZero(r.v.mag) ELSE ~IsZero(r.v)
BoolW(b) == IF b THEN One ELSE Zero

IntBin(op, n, a, b) ==      \* a, b canonical words of type n (>= int); result RV or Bad
  CASE op = "+" -> IF Signed(n) /\ AddOvf(n, a, b) THEN Bad("signed-overflow") ELSE RV(IntT(n), Canon(n, Add(a, b)))
    [] op = "-" -> IF Signed(n) /\ SubOvf(n, a, b) THEN Bad("signed-overflow") ELSE RV(IntT(n), Canon(n, Sub(a, b)))
    [] op = "*" -> IF Signed(n) /\ MulOvf(n, a, b) THEN Bad("signed-overflow") ELSE RV(IntT(n), Canon(n, Mul(a, b)))
    [] op \in {"/", "%"} ->
         IF IsZero(b) THEN Bad("div-by-zero")
         ELSE IF Signed(n) /\ a = MinOf(n) /\ b = Ones THEN Bad("div-overflow")
         ELSE IF Signed(n) THEN RV(IntT(n), Canon(n, IF op = "/" THEN SDiv(a, b) ELSE SRem(a, b)))
         ELSE RV(IntT(n), Canon(n, IF op = "/" THEN UDiv(a, b) ELSE URem(a, b)))
    [] op = "&" -> RV(IntT(n), Canon(n, WAnd(a, b)))
    [] op = "|" -> RV(IntT(n), Canon(n, WOr(a, b)))
    [] op = "^" -> RV(IntT(n), Canon(n, WXor(a, b)))
IntCmp(op, n, a, b) ==
  LET lt == IF Signed(n) THEN SLt(a, b) ELSE ULt(a, b)
      gt == IF Signed(n) THEN SLt(b, a) ELSE ULt(b, a)
  IN BoolW(CASE op = "<" -> lt [] op = "<=" -> ~gt [] op = ">" -> gt [] op = ">=" -> ~lt [] op = "==" -> a = b [] op = "!=" -> a # b)
IntShift(op, n, a, cntT, cnt) ==    \* n: promoted left type; cnt canonical word of promoted right type cntT
  IF (Signed(cntT) /\ SignBit(cnt)) \/ ~FitsNat31(cnt) \/ Lo31(cnt) >= WidthOf(n) THEN Bad("shift-count")
  ELSE LET k == Lo31(cnt) IN
    IF op = ">>" THEN RV(IntT(n), Canon(n, IF Signed(n) THEN Sar(a, k) ELSE Shr(a, k)))
    ELSE IF ~Signed(n) THEN RV(IntT(n), Canon(n, Shl(a, k)))
    ELSE IF SignBit(a) THEN Bad("shl-negative")
    ELSE IF Shr(Shl(a, k), k) # a \/ SignBit(Canon(n, Shl(a, k))) \/ Canon(n, Shl(a, k)) # Shl(a, k) THEN Bad("shl-overflow")
    ELSE RV(IntT(n), Shl(a, k))

ElemT(t) == t.t
RECURSIVE TypeOfLV(_)

(* ---------------- static typing (C11 6.5) of MiniC expressions: [t, bw] ---------------- *)
RECURSIVE TypeOfE(_)
TB(t, bw) == [t |-> t, bw |-> bw]
PromTB(x) == IF IsInt(x.t) THEN IntT(Promote(x.t.n, x.bw)) ELSE x.t
ArithT(a, b) ==     \* 6.3.1.8 on arithmetic operands a, b given as [t, bw]
  IF (IsFlt(a.t) /\ a.t.n = "double") \/ (IsFlt(b.t) /\ b.t.n = "double") THEN [k |-> "f", n |-> "double"]
  ELSE IF IsFlt(a.t) \/ IsFlt(b.t) THEN [k |-> "f", n |-> "float"]
  ELSE IntT(UAC(PromTB(a).n, PromTB(b).n))
Decay(t) == IF t.k = "a" THEN [k |-> "p", t |-> t.t] ELSE t
TypeOfE(e) ==
  CASE e.k = "lit" -> (TB(e.t, 0))
    [] e.k = "flit" -> (TB(e.t, 0))
    [] e.k = "fnref" -> (TB(e.t, 0))
    [] e.k \in {"var", "strlit"} -> (TB(Decay(env[e.n].t), 0))
    [] e.k = "idx" -> (TB(Decay(TypeOfE(e.a).t.t), 0))
    [] e.k = "deref" -> (TB(Decay(TypeOfE(e.e).t.t), 0))
    [] e.k = "mem" -> (LET b == TypeOfE(e.e)  fd == FieldOf(b.t.id, e.f) IN TB(Decay(fd.t), fd.bw))
    [] e.k = "addr" -> (TB([k |-> "p", t |-> TypeOfLV(e.l)], 0))
    [] e.k = "cast" -> (TB(e.t, 0))
    [] e.k = "sizeof" -> (TB(IntT("ulong"), 0))
    [] e.k = "misalign" -> (TB(IntT("ulong"), 0))
    [] e.k = "clit" -> (TB(e.t, 0))
    [] e.k = "un" -> (IF e.op = "!" THEN TB(TInt, 0) ELSE TB(PromTB(TypeOfE(e.e)), 0))
    [] e.k = "cond" -> (LET a == TypeOfE(e.a)  b == TypeOfE(e.b) IN
                        IF IsArith(a.t) /\ IsArith(b.t) THEN TB(ArithT(a, b), 0) ELSE TB(a.t, 0))
    [] e.k = "bin" -> (LET a == TypeOfE(e.l)  b == TypeOfE(e.r) IN
                       IF e.op \in {"&&", "||", "<", "<=", ">", ">=", "==", "!="} THEN TB(TInt, 0)
                       ELSE IF e.op = "," THEN b
                       ELSE IF e.op \in {"<<", ">>"} THEN TB(PromTB(a), 0)
                       ELSE IF IsArith(a.t) /\ IsArith(b.t) THEN TB(ArithT(a, b), 0)
                       ELSE IF IsPtr(a.t) /\ IsPtr(b.t) THEN TB(IntT("long"), 0)
                       ELSE TB(a.t, 0))
    [] e.k \in {"incdec", "asg"} -> (TypeOfE(e.l))        \* the type of the (unqualified) left operand, a bit-field keeps its width
    [] e.k = "sc" -> (TB(TInt, 0))
    [] e.k = "scond" -> (LET a == TypeOfE(e.a)  b == TypeOfE(e.b) IN
                         IF IsArith(a.t) /\ IsArith(b.t) THEN TB(ArithT(a, b), 0) ELSE TB(a.t, 0))
    [] OTHER -> (TB(TInt, 0))
TypeOfLV(e) ==
  CASE e.k \in {"var", "strlit"} -> (env[e.n].t)
    [] e.k = "idx" -> (TypeOfE(e.a).t.t)
    [] e.k = "deref" -> (TypeOfE(e.e).t.t)
    [] e.k = "mem" -> (FieldOf(TypeOfLV(e.e).id, e.f).t)
    [] OTHER -> (TInt)

(* value of an lvalue read in an expression: bit-fields promote by width *)
PromT(r) == IF IsInt(r.t) THEN IntT(Promote(r.t.n, r.bw)) ELSE r.t
PromV(r) == IF IsInt(r.t) THEN Canon(Promote(r.t.n, r.bw), r.v) ELSE r.v

(* conversion of an rvalue to arithmetic/pointer type t as if by assignment or cast (6.3.1): RV or Bad *)
ConvTo(t, r) ==
  IF IsInt(t) /\ IsInt(r.t) THEN RV(t, Conv(t.n, PromV(r)))
  ELSE IF IsInt(t) /\ IsFlt(r.t) THEN (LET c == FToInt(t.n, r.v) IN IF c.ok THEN RV(t, c.v) ELSE Bad("float-to-int-range"))
  ELSE IF IsFlt(t) /\ IsInt(r.t) THEN FOk(t.n, IntToF(Promote(r.t.n, r.bw), PromV(r)))
  ELSE IF IsFlt(t) /\ IsFlt(r.t) THEN FOk(t.n, r.v)
  ELSE IF IsInt(t) /\ t.n = "bool" /\ IsPtr(r.t) THEN RV(t, BoolW(r.v.obj # 0))
  ELSE IF t = r.t THEN r
  ELSE Bad("conversion")

FloatBin(op, l, r) ==     \* arithmetic/comparison with at least one floating operand (usual arithmetic conversions first)
  LET ft == [k |-> "f", n |-> IF (IsFlt(l.t) /\ l.t.n = "double") \/ (IsFlt(r.t) /\ r.t.n = "double") THEN "double" ELSE "float"]
      a == ConvTo(ft, l)  b == ConvTo(ft, r) IN
  IF ~a.ok THEN a ELSE IF ~b.ok THEN b
  ELSE IF op \in CmpOps2 THEN
         RV(TInt, BoolW(CASE op = "<" -> FLt(a.v, b.v) [] op = ">" -> FLt(b.v, a.v) [] op = "<=" -> ~FLt(b.v, a.v)
                          [] op = ">=" -> ~FLt(a.v, b.v) [] op = "==" -> a.v = b.v [] op = "!=" -> a.v # b.v))
  ELSE LET x == CASE op = "+" -> FAdd(a.v, b.v) [] op = "-" -> FAdd(a.v, FNeg(b.v)) [] op = "*" -> FMul(a.v, b.v)
                   [] op = "/" -> FDiv(a.v, b.v) [] OTHER -> [ok |-> FALSE] IN
       IF ~x.ok THEN Bad("inexact") ELSE FOk(ft.n, x.f)

RECURSIVE SizeOfT(_)
SizeOfT(t) == CASE t.k = "fp" -> 8 [] t.k = "i" -> Size(t.n) [] t.k = "f" -> (IF t.n = "float" THEN 4 ELSE 8) [] t.k = "p" -> 8 [] t.k = "a" -> (IF SizeOfT(t.t) < 0 THEN -1 ELSE t.n * SizeOfT(t.t)) [] OTHER -> -1
RECURSIVE Eval(_), LVal(_), InitVal(_, _)
(* load through an lvalue, with array-to-pointer decay *)
LoadLV(lv) ==
  IF ~lv.ok THEN lv
  ELSE IF lv.t.k = "a" THEN RV([k |-> "p", t |-> lv.t.t], [obj |-> lv.obj, path |-> Append(lv.path, 0)])
  ELSE IF lv.obj = 0 \/ lv.obj \notin DOMAIN mem \/ ~mem[lv.obj].live THEN Bad("dead-or-null-object")
  ELSE LET x == GetPath(mem[lv.obj].val, lv.path, 1) IN
    IF "pun" \in DOMAIN x THEN Bad("union-inactive-member")
    ELSE IF lv.t.k \in {"i", "f"} THEN [ok |-> TRUE, t |-> lv.t, v |-> x.v, bw |-> lv.bw]
    ELSE IF lv.t.k \in {"p", "fp"} THEN RV(lv.t, x)
    ELSE [ok |-> TRUE, t |-> lv.t, v |-> x, bw |-> 0]           \* whole struct value

(* A string literal denotes an array object of static storage duration holding its characters and a terminating zero    *)
(* (6.4.5p6): the program record declares that object (hidden from the C text) under the name e.n, and the literal is an    *)
(* lvalue for it; like any array it decays to a pointer to its first element.  Whether equal literals share storage is       *)
(* unspecified: generated programs never compare pointers into different literals.                                           *)
LVal(e) ==
  CASE e.k \in {"var", "strlit"} -> (
         IF e.n \in DOMAIN env THEN LV(env[e.n].obj, <<>>, env[e.n].t, 0) ELSE Bad("unbound " \o e.n))
    [] e.k = "idx" -> (
         LET p == Eval(e.a)  i == Eval(e.i) IN
         IF ~p.ok THEN p ELSE IF ~i.ok THEN i
         ELSE IF ~IsPtr(p.t) \/ p.v.obj = 0 \/ ~SmallEnough(i.v) THEN Bad("bad-subscript")
         ELSE LET base == p.v.path[Len(p.v.path)]
                  j == base + ToIntSmall(i.t.n, i.v)
                  arr == GetPath(mem[p.v.obj].val, SubSeq(p.v.path, 1, Len(p.v.path) - 1), 1)
              IN IF "el" \notin DOMAIN arr THEN Bad("union-inactive-member")
                 ELSE IF j < 0 \/ j >= Len(arr.el) THEN Bad("index-out-of-bounds")
                 ELSE LV(p.v.obj, [p.v.path EXCEPT ![Len(p.v.path)] = j], p.t.t, 0))
    [] e.k = "deref" -> (
         LET p == Eval(e.e) IN
         IF ~p.ok THEN p
         ELSE IF ~IsPtr(p.t) \/ p.v.obj = 0 THEN Bad("null-deref")
         ELSE IF Len(p.v.path) > 0 /\ p.v.path[Len(p.v.path)] \in Nat /\ "el" \in DOMAIN GetPath(mem[p.v.obj].val, SubSeq(p.v.path, 1, Len(p.v.path) - 1), 1)
              THEN LET arr == GetPath(mem[p.v.obj].val, SubSeq(p.v.path, 1, Len(p.v.path) - 1), 1) IN
                   IF p.v.path[Len(p.v.path)] >= Len(arr.el) THEN Bad("deref-past-end") ELSE LV(p.v.obj, p.v.path, p.t.t, 0)
              ELSE LV(p.v.obj, p.v.path, p.t.t, 0))
    [] e.k = "mem" -> (
         LET b == LVal(e.e) IN
         IF ~b.ok THEN b
         ELSE LET fd == FieldOf(b.t.id, e.f) IN LV(b.obj, Append(b.path, e.f), fd.t, fd.bw))
    [] OTHER -> ( Bad("not-an-lvalue"))

Eval(e) ==
  CASE e.k = "lit" -> ( RV(e.t, Canon(e.t.n, e.v)))
    [] e.k = "flit" -> (FOk(e.t.n, FV(e.neg, e.mag)))
    [] e.k = "fnref" -> (RV(e.t, [fn |-> e.n]))          \* a function designator converted to a pointer to the function
    [] e.k \in {"var", "strlit", "idx", "deref", "mem"} -> ( LoadLV(LVal(e)))
    [] e.k = "addr" -> (
         LET lv == LVal(e.l) IN
         IF ~lv.ok THEN lv
         ELSE RV([k |-> "p", t |-> lv.t], [obj |-> lv.obj, path |-> lv.path]))
    [] e.k = "cast" -> (
         LET r == Eval(e.e) IN
         IF ~r.ok THEN r
         ELSE IF IsInt(e.t) /\ IsInt(r.t) THEN RV(e.t, Conv(e.t.n, r.v))
         ELSE IF IsArith(e.t) /\ IsArith(r.t) THEN ConvTo(e.t, r)
         ELSE IF IsInt(e.t) /\ e.t.n = "bool" /\ IsPtr(r.t) THEN RV(e.t, BoolW(r.v.obj # 0))
         ELSE IF IsPtr(e.t) /\ IsPtr(r.t) /\ e.t = r.t THEN r
         ELSE Bad("unsupported-cast"))
    [] e.k = "un" -> (
         LET r == Eval(e.e) IN
         IF ~r.ok THEN r
         ELSE IF e.op = "!" THEN RV(TInt, BoolW(~Truth(r)))
         ELSE IF IsFlt(r.t) THEN (IF e.op = "-" THEN RV(r.t, FNeg(r.v)) ELSE IF e.op = "+" THEN r ELSE Bad("unary-on-float"))
         ELSE IF ~IsInt(r.t) THEN Bad("unary-on-pointer")
         ELSE LET n == Promote(r.t.n, r.bw)  a == Canon(n, r.v) IN
              CASE e.op = "+" -> RV(IntT(n), a)
                [] e.op = "~" -> RV(IntT(n), Canon(n, WNot(a)))
                [] e.op = "-" -> IF Signed(n) /\ a = MinOf(n) THEN Bad("signed-overflow") ELSE RV(IntT(n), Canon(n, Neg(a))))
    [] e.k = "bin" /\ e.op = "&&" -> (
         LET l == Eval(e.l) IN
         IF ~l.ok THEN l ELSE IF ~Truth(l) THEN RV(TInt, Zero)
         ELSE LET r == Eval(e.r) IN IF ~r.ok THEN r ELSE RV(TInt, BoolW(Truth(r))))
    [] e.k = "bin" /\ e.op = "||" -> (
         LET l == Eval(e.l) IN
         IF ~l.ok THEN l ELSE IF Truth(l) THEN RV(TInt, One)
         ELSE LET r == Eval(e.r) IN IF ~r.ok THEN r ELSE RV(TInt, BoolW(Truth(r))))
    [] e.k = "bin" /\ e.op = "," -> (
         LET l == Eval(e.l) IN IF ~l.ok THEN l ELSE LET r == Eval(e.r) IN IF ~r.ok THEN r ELSE r)
    [] e.k = "cond" -> (
         LET c == Eval(e.c) IN
         IF ~c.ok THEN c
         ELSE LET x == Eval(IF Truth(c) THEN e.a ELSE e.b) IN
           IF ~x.ok THEN x
           ELSE IF IsArith(x.t) THEN     \* result type: usual arithmetic conversions of both arms (static typing: TypeOfE)
                  ConvTo(TypeOfE(e).t, x)
                ELSE x)
    [] e.k = "bin" -> (
         LET l == Eval(e.l)  r == Eval(e.r) IN
         IF ~l.ok THEN l ELSE IF ~r.ok THEN r
         ELSE IF IsArith(l.t) /\ IsArith(r.t) /\ (IsFlt(l.t) \/ IsFlt(r.t)) THEN FloatBin(e.op, l, r)
         ELSE IF IsInt(l.t) /\ IsInt(r.t) THEN
           LET ln == Promote(l.t.n, l.bw)  rn == Promote(r.t.n, r.bw)
               la == Canon(ln, l.v)  ra == Canon(rn, r.v) IN
           IF e.op \in ShiftOps THEN IntShift(e.op, ln, la, rn, ra)
           ELSE LET n == UAC(ln, rn)  a == Conv(n, la)  b == Conv(n, ra) IN
                IF e.op \in CmpOps2 THEN RV(TInt, IntCmp(e.op, n, a, b)) ELSE IntBin(e.op, n, a, b)
         ELSE IF IsPtr(l.t) /\ IsInt(r.t) /\ e.op \in {"+", "-"} THEN
           IF l.v.obj = 0 \/ ~SmallEnough(Canon(Promote(r.t.n, r.bw), r.v)) THEN Bad("pointer-arith")
           ELSE LET d == ToIntSmall(r.t.n, Canon(Promote(r.t.n, r.bw), r.v))
                    j == l.v.path[Len(l.v.path)] + (IF e.op = "+" THEN d ELSE -d)
                    arr == GetPath(mem[l.v.obj].val, SubSeq(l.v.path, 1, Len(l.v.path) - 1), 1)
                IN IF j < 0 \/ j > Len(arr.el) THEN Bad("pointer-arith-out-of-bounds")
                   ELSE RV(l.t, [l.v EXCEPT !.path[Len(l.v.path)] = j])
         ELSE IF IsPtr(l.t) /\ IsPtr(r.t) /\ e.op \in CmpOps2 \cup {"-"} THEN
           IF e.op \in {"==", "!="} THEN RV(TInt, BoolW((l.v = r.v) = (e.op = "==")))
           ELSE IF l.v.obj = 0 \/ l.v.obj # r.v.obj \/ SubSeq(l.v.path, 1, Len(l.v.path) - 1) # SubSeq(r.v.path, 1, Len(r.v.path) - 1) THEN Bad("pointer-compare-different-objects")
           ELSE LET a == l.v.path[Len(l.v.path)]  b == r.v.path[Len(r.v.path)] IN
                IF e.op = "-" THEN RV(IntT("long"), IF a >= b THEN W(a - b) ELSE Neg(W(b - a)))
                ELSE RV(TInt, BoolW(CASE e.op = "<" -> a < b [] e.op = "<=" -> a <= b [] e.op = ">" -> a > b [] e.op = ">=" -> a >= b))
         ELSE Bad("operand-types"))
    [] e.k = "clit" -> (LET iv == InitVal(e.t, e.init) IN      \* compound literal used as an rvalue (6.5.2.5)
                        IF ~iv.ok THEN iv ELSE IF IsInt(e.t) THEN RV(e.t, iv.val.v) ELSE RV(e.t, iv.val))
    [] e.k = "misalign" -> (LET lv == LVal(e.l) IN IF ~lv.ok THEN lv ELSE RV(IntT("ulong"), Zero))   \* (unsigned long)&l % its declared alignment: always 0 (6.2.8)
    [] e.k = "sizeof" -> (LET t == TypeOfLV(e.l) IN IF SizeOfT(t) < 0 THEN Bad("sizeof-struct") ELSE RV(IntT("ulong"), W(SizeOfT(t))))
    [] OTHER -> ( Bad("unknown-expression " \o e.k))

(* ---------------- stores ---------------- *)
(* value to store into an lvalue of type lv.t from an rvalue r (assignment conversion) *)
StoreVal(lv, r) ==        \* r already converted to lv.t (ConvTo) for floating types
  IF IsFlt(lv.t) THEN [v |-> r.v]
  ELSE IF IsInt(lv.t) /\ IsInt(r.t) THEN
    LET c == Conv(lv.t.n, PromV(r)) IN
    [v |-> IF lv.bw > 0 THEN (IF lv.t.n = "bool" THEN c ELSE IF Signed(lv.t.n) THEN SExtBits(c, lv.bw) ELSE TruncBits(c, lv.bw)) ELSE c]
  ELSE IF IsInt(lv.t) /\ lv.t.n = "bool" /\ IsPtr(r.t) THEN [v |-> BoolW(r.v.obj # 0)]
  ELSE r.v
StoreConv(lv, r) ==      \* [ok, val]: conversion as if by assignment, then the stored representation
  IF IsArith(lv.t) /\ IsArith(r.t) /\ (IsFlt(lv.t) \/ IsFlt(r.t))
  THEN (LET c == ConvTo(lv.t, r) IN IF ~c.ok THEN c ELSE [ok |-> TRUE, val |-> StoreVal(lv, c)])
  ELSE [ok |-> TRUE, val |-> StoreVal(lv, r)]
DoStore(lv, r) == [mem EXCEPT ![lv.obj].val = SetPath(@, lv.path, 1, StoreVal(lv, r))]
Assignable(lv, r) == (IsArith(lv.t) /\ IsArith(r.t)) \/ (IsInt(lv.t) /\ lv.t.n = "bool" /\ IsPtr(r.t)) \/ (lv.t = r.t)

(* ---------------- the statement machine ---------------- *)
Top == ck[Len(ck)]
Pop == SubSeq(ck, 1, Len(ck) - 1)
Push(stk, item) == Append(stk, item)
CRunning == cstatus = "run" /\ Len(ck) > 0 /\ cfuel > 0
Fail(why) == /\ cstatus' = "undef:" \o why
             /\ UNCHANGED <<cpid, genv, ck, env, mem, cout, cret, cfuel, depth>>
CTick == cfuel' = cfuel - 1
NewObj == IF DOMAIN mem = {} THEN 1 ELSE Cardinality(DOMAIN mem) + 1
FuncByName(n) == CP.funcs[CHOOSE j \in 1..Len(CP.funcs) : CP.funcs[j].name = n]

(* initial value of an object of type t from initialiser tree init ([] = none -> zero for statics, indeterminate for autos: the
   generator always initialises autos it reads); scalars: [e |-> expr]; aggregates: [list |-> seq of init] in member order *)
InitVal(t, init) ==      \* returns [ok, val]
  IF "e" \in DOMAIN init /\ init.e.k = "strlit" /\ t.k = "a" THEN
    \* an array of character type initialised by a string literal (6.7.9p14): successive characters, the terminating zero
    \* only if there is room, remaining elements zero
    (IF init.e.n \notin DOMAIN env THEN Bad("unbound-string")
     ELSE LET src == mem[env[init.e.n].obj].val.el IN
          IF Len(src) - 1 > t.n THEN Bad("string-too-long")
          ELSE [ok |-> TRUE, val |-> [el |-> [j \in 1..t.n |-> IF j <= Len(src) THEN [v |-> Conv(t.t.n, src[j].v)] ELSE ZeroOf(t.t)]]])
  ELSE IF "e" \in DOMAIN init THEN
    LET r == Eval(init.e) IN
    IF ~r.ok THEN r
    ELSE IF t.k = "s" THEN [ok |-> TRUE, val |-> r.v]
    ELSE IF ~Assignable(LV(0, <<>>, t, 0), r) THEN Bad("init-type") ELSE StoreConv(LV(0, <<>>, t, 0), r)
  ELSE IF t.k = "a" THEN
    LET parts == [j \in 1..t.n |-> IF j <= Len(init.list) THEN InitVal(t.t, init.list[j]) ELSE [ok |-> TRUE, val |-> ZeroOf(t.t)]] IN
    IF \E j \in 1..t.n : ~parts[j].ok THEN Bad("init-element") ELSE [ok |-> TRUE, val |-> [el |-> [j \in 1..t.n |-> parts[j].val]]]
  ELSE IF t.k = "s" /\ IsUnion(t.id) THEN
    \* { x } initialises the first member (6.7.9p17), { .m = x } the designated one; {} is the zero value
    (IF "um" \in DOMAIN init THEN
       (LET p == InitVal(FieldOf(t.id, init.um).t, init.i) IN IF ~p.ok THEN p ELSE [ok |-> TRUE, val |-> [act |-> init.um, uv |-> p.val]])
     ELSE IF Len(init.list) = 0 THEN [ok |-> TRUE, val |-> ZeroOf(t)]
     ELSE LET f1 == Structs[t.id].fields[1]  p == InitVal(f1.t, init.list[1]) IN
          IF ~p.ok THEN p ELSE [ok |-> TRUE, val |-> [act |-> f1.n, uv |-> p.val]])
  ELSE IF t.k = "s" THEN
    LET fs == Structs[t.id].fields
        part(j) == IF j <= Len(init.list) THEN
                      (IF "e" \in DOMAIN init.list[j] /\ fs[j].bw > 0
                       THEN LET r == Eval(init.list[j].e) IN IF ~r.ok THEN r ELSE [ok |-> TRUE, val |-> StoreVal(LV(0, <<>>, fs[j].t, fs[j].bw), r)]
                       ELSE InitVal(fs[j].t, init.list[j]))
                   ELSE [ok |-> TRUE, val |-> ZeroOf(fs[j].t)] IN
    IF \E j \in 1..Len(fs) : ~part(j).ok THEN Bad("init-member")
    ELSE [ok |-> TRUE, val |-> [f |-> [nm \in {fs[j].n : j \in 1..Len(fs)} |-> part(CHOOSE j \in 1..Len(fs) : fs[j].n = nm).val]]]
  ELSE Bad("init-shape")

(* side-effect rvalue of an assignment statement: pure expression, or ++/-- of an lvalue, or a nested (compound) assignment.
   Returns [ok, t, v, bw, mem] *)
ApplyAsg(op, lv, r, m) ==       \* lv op= r on memory m; returns [ok, t, v, mem]: value of the assignment expression
  IF ~lv.ok THEN lv ELSE IF ~r.ok THEN r
  ELSE IF op = "=" THEN
         IF ~Assignable(lv, r) THEN Bad("assign-types")
         ELSE LET sc == StoreConv(lv, r)  sv == sc.val IN
              IF ~sc.ok THEN sc ELSE
              [ok |-> TRUE, t |-> lv.t, bw |-> lv.bw, v |-> IF IsArith(lv.t) THEN sv.v ELSE sv,
               mem |-> [m EXCEPT ![lv.obj].val = SetPath(@, lv.path, 1, sv)]]
  ELSE LET cur == LoadLV(lv) IN
       IF ~cur.ok THEN cur
       ELSE LET bop == CASE op = "+=" -> "+" [] op = "-=" -> "-" [] op = "*=" -> "*" [] op = "/=" -> "/" [] op = "%=" -> "%"
                         [] op = "&=" -> "&" [] op = "|=" -> "|" [] op = "^=" -> "^" [] op = "<<=" -> "<<" [] op = ">>=" -> ">>"
                res == IF IsArith(cur.t) /\ IsArith(r.t) /\ (IsFlt(cur.t) \/ IsFlt(r.t)) THEN
                         (IF bop \in {"+", "-", "*", "/"} THEN FloatBin(bop, cur, r) ELSE Bad("compound-types"))
                       ELSE IF IsInt(cur.t) /\ IsInt(r.t) THEN
                         LET ln == Promote(cur.t.n, cur.bw)  rn == Promote(r.t.n, r.bw)
                             la == Canon(ln, cur.v)  ra == Canon(rn, r.v) IN
                         IF bop \in ShiftOps THEN IntShift(bop, ln, la, rn, ra)
                         ELSE LET n == UAC(ln, rn) IN IntBin(bop, n, Conv(n, la), Conv(n, ra))
                       ELSE IF IsPtr(cur.t) /\ IsInt(r.t) /\ bop \in {"+", "-"} /\ cur.v.obj # 0 /\ SmallEnough(Canon(Promote(r.t.n, r.bw), r.v)) THEN
                         LET d == ToIntSmall(r.t.n, Canon(Promote(r.t.n, r.bw), r.v))
                             j == cur.v.path[Len(cur.v.path)] + (IF bop = "+" THEN d ELSE -d)
                             arr == GetPath(m[cur.v.obj].val, SubSeq(cur.v.path, 1, Len(cur.v.path) - 1), 1) IN
                         IF j < 0 \/ j > Len(arr.el) THEN Bad("pointer-arith-out-of-bounds") ELSE RV(cur.t, [cur.v EXCEPT !.path[Len(cur.v.path)] = j])
                       ELSE Bad("compound-types")
            IN IF ~res.ok THEN res
               ELSE LET sc == StoreConv(lv, res)  sv == sc.val IN
                    IF ~sc.ok THEN sc ELSE
                    [ok |-> TRUE, t |-> lv.t, bw |-> lv.bw, v |-> IF IsArith(lv.t) THEN sv.v ELSE sv,
                     mem |-> [m EXCEPT ![lv.obj].val = SetPath(@, lv.path, 1, sv)]]

OneOf(t) == IF IsInt(t) THEN RV(TInt, One) ELSE RV(TInt, One)
SideEval0(e) ==     \* -> [ok, t, v, bw, mem]
  CASE e.k = "incdec" -> (      \* ++x, --x, x++, x--
         LET lv == LVal(e.l) IN
         IF ~lv.ok THEN lv
         ELSE LET old == LoadLV(lv)
                  upd == ApplyAsg(IF e.dec THEN "-=" ELSE "+=", lv, RV(TInt, One), mem) IN
              IF ~old.ok THEN old ELSE IF ~upd.ok THEN upd
              ELSE IF e.post THEN [ok |-> TRUE, t |-> old.t, v |-> old.v, bw |-> old.bw, mem |-> upd.mem] ELSE upd)
    [] e.k = "asg" -> ( ApplyAsg(e.op, LVal(e.l), Eval(e.r), mem))
    [] OTHER -> ( LET r == Eval(e) IN IF ~r.ok THEN r ELSE [ok |-> TRUE, t |-> r.t, v |-> r.v, bw |-> r.bw, mem |-> mem])

(* side effects below a sequence point (6.5.13p4, 6.5.14p4, 6.5.15p4): the right operand of && / || and the arms of ?:  *)
(* are evaluated (with their side effects) only when selected, after the value computation of the first operand         *)
WithMem(r, m) == [ok |-> TRUE, t |-> r.t, v |-> r.v, bw |-> r.bw, mem |-> m]
SideEval(e) ==
  CASE e.k = "sc" -> (      \* a && <side-effect rvalue>, a || <side-effect rvalue>
         LET a == Eval(e.a) IN
         IF ~a.ok THEN a
         ELSE IF (e.op = "&&" /\ ~Truth(a)) \/ (e.op = "||" /\ Truth(a)) THEN WithMem(RV(TInt, BoolW(Truth(a))), mem)
         ELSE LET b == SideEval0(e.b) IN IF ~b.ok THEN b ELSE WithMem(RV(TInt, BoolW(Truth(b))), b.mem))
    [] e.k = "scond" -> (   \* c ? <side-effect rvalue> : <side-effect rvalue>; the result has the common type of both arms
         LET c == Eval(e.c) IN
         IF ~c.ok THEN c
         ELSE LET x == SideEval0(IF Truth(c) THEN e.a ELSE e.b) IN
              IF ~x.ok THEN x
              ELSE IF IsArith(x.t) THEN LET cv == ConvTo(TypeOfE(e).t, x) IN IF ~cv.ok THEN cv ELSE WithMem(cv, x.mem)
              ELSE x)
    [] OTHER -> (SideEval0(e))

(* ---- one action per statement kind; the continuation stack holds items [k, ...] ---- *)
Item(k) == [k |-> k]
IsStmt(kind) == CRunning /\ Top.k = "s" /\ Top.s.k = kind
S == Top.s

SComma ==       \* (a, b) with side effects in a: a is evaluated as a void expression, then a sequence point, then b (6.5.17p2)
  /\ CRunning /\ Top.k = "s" /\ Top.s.k \in {"expr", "asg"}
  /\ LET x == IF S.k = "expr" THEN S.e ELSE S.r IN
       /\ x.k = "scomma"
       /\ ck' = Push(Push(Pop, [k |-> "s", s |-> IF S.k = "expr" THEN [k |-> "expr", e |-> x.b] ELSE [k |-> "asg", op |-> S.op, l |-> S.l, r |-> x.b]]),
                     [k |-> "s", s |-> [k |-> "expr", e |-> x.a]])
  /\ CTick /\ UNCHANGED <<cpid, genv, env, mem, cout, cstatus, cret, depth>>

SExpr ==        \* expression statement (incl. assignment with a side-effect rvalue, ++/--)
  /\ IsStmt("expr") /\ S.e.k # "scomma"
  /\ LET r == SideEval(S.e) IN
       IF ~r.ok THEN Fail(r.why)
       ELSE mem' = r.mem /\ ck' = Pop /\ CTick /\ UNCHANGED <<cpid, genv, env, cout, cstatus, cret, depth>>

SAsg ==         \* l op= <side-effect rvalue>
  /\ IsStmt("asg") /\ S.r.k # "scomma"
  /\ LET r == SideEval(S.r) IN
       IF ~r.ok THEN Fail(r.why)
       ELSE LET lv == LVal(S.l)
                a == ApplyAsg(S.op, lv, [ok |-> TRUE, t |-> r.t, v |-> r.v, bw |-> r.bw], r.mem) IN
            IF ~a.ok THEN Fail(a.why)
            ELSE mem' = a.mem /\ ck' = Pop /\ CTick /\ UNCHANGED <<cpid, genv, env, cout, cstatus, cret, depth>>

SObs ==
  /\ IsStmt("obs")
  /\ LET r == Eval(S.e) IN
       IF ~r.ok THEN Fail(r.why)
       ELSE IF ~IsInt(r.t) THEN Fail("obs-of-non-integer")
       ELSE /\ cout' = Append(cout, Conv("llong", PromV(r)))
            /\ ck' = Pop /\ CTick /\ UNCHANGED <<cpid, genv, env, mem, cstatus, cret, depth>>

SStatic ==     \* block-scope object with static (or thread) storage duration: created and initialised once (6.2.4p3),
               \* found again on every later execution of its declaration; initialiser is a constant expression
  /\ IsStmt("static")
  /\ LET key == "$" \o S.u IN
       IF key \in DOMAIN genv
       THEN /\ env' = (S.n :> genv[key]) @@ env
            /\ ck' = Pop /\ CTick /\ UNCHANGED <<cpid, genv, mem, cout, cstatus, cret, depth>>
       ELSE LET iv == IF "init" \in DOMAIN S THEN InitVal(S.t, S.init) ELSE [ok |-> TRUE, val |-> ZeroOf(S.t)]
                o == NewObj IN
            IF ~iv.ok THEN Fail(iv.why)
            ELSE /\ mem' = (o :> [val |-> iv.val, live |-> TRUE]) @@ mem
                 /\ env' = (S.n :> [obj |-> o, t |-> S.t]) @@ env
                 /\ genv' = (key :> [obj |-> o, t |-> S.t]) @@ genv
                 /\ ck' = Pop /\ CTick /\ UNCHANGED <<cpid, cout, cstatus, cret, depth>>

SDecl ==
  /\ IsStmt("decl")
  /\ LET iv == IF "init" \in DOMAIN S THEN InitVal(S.t, S.init) ELSE [ok |-> TRUE, val |-> ZeroOf(S.t)]
         o == NewObj IN
       IF ~iv.ok THEN Fail(iv.why)
       ELSE /\ mem' = (o :> [val |-> iv.val, live |-> TRUE]) @@ mem
            /\ env' = (S.n :> [obj |-> o, t |-> S.t]) @@ env
            /\ ck' = Pop /\ CTick /\ UNCHANGED <<cpid, genv, cout, cstatus, cret, depth>>

SVla ==        \* T name[len]; with a run-time length (6.7.6.2p5: the length shall be greater than zero)
  /\ IsStmt("vla")
  /\ LET r == Eval(S.len) IN
       IF ~r.ok THEN Fail(r.why)
       ELSE IF ~IsInt(r.t) \/ ~FitsNat31(PromV(r)) \/ Lo31(PromV(r)) = 0 \/ Lo31(PromV(r)) > 64 THEN Fail("vla-length")
       ELSE LET r2 == IF "len2" \in DOMAIN S THEN Eval(S.len2) ELSE r IN      \* optional second (inner) variable dimension
            IF ~r2.ok THEN Fail(r2.why)
            ELSE IF ~IsInt(r2.t) \/ ~FitsNat31(PromV(r2)) \/ Lo31(PromV(r2)) = 0 \/ Lo31(PromV(r2)) > 64 THEN Fail("vla-length")
            ELSE LET et == IF "len2" \in DOMAIN S THEN [k |-> "a", t |-> S.t, n |-> Lo31(PromV(r2))] ELSE S.t
                     t == [k |-> "a", t |-> et, n |-> Lo31(PromV(r))]  o == NewObj IN
            /\ mem' = (o :> [val |-> ZeroOf(t), live |-> TRUE]) @@ mem
            /\ env' = (S.n :> [obj |-> o, t |-> t]) @@ env
            /\ ck' = Pop /\ CTick /\ UNCHANGED <<cpid, genv, cout, cstatus, cret, depth>>

SVTypedef ==   \* typedef T name[len]; in a block: the lengths are evaluated when the declaration is reached (6.8p3), not when the name is used
  /\ IsStmt("vtypedef")
  /\ LET r == Eval(S.len) IN
       IF ~r.ok THEN Fail(r.why)
       ELSE IF ~IsInt(r.t) \/ ~FitsNat31(PromV(r)) \/ Lo31(PromV(r)) = 0 \/ Lo31(PromV(r)) > 64 THEN Fail("vla-length")
       ELSE LET r2 == IF "len2" \in DOMAIN S THEN Eval(S.len2) ELSE r IN
            IF ~r2.ok THEN Fail(r2.why)
            ELSE IF ~IsInt(r2.t) \/ ~FitsNat31(PromV(r2)) \/ Lo31(PromV(r2)) = 0 \/ Lo31(PromV(r2)) > 64 THEN Fail("vla-length")
            ELSE LET et == IF "len2" \in DOMAIN S THEN [k |-> "a", t |-> S.t, n |-> Lo31(PromV(r2))] ELSE S.t
                     t == [k |-> "a", t |-> et, n |-> Lo31(PromV(r))] IN
            /\ env' = (S.n :> [obj |-> 0 - 1, t |-> t]) @@ env        \* a type name: never an operand
            /\ ck' = Pop /\ CTick /\ UNCHANGED <<cpid, genv, mem, cout, cstatus, cret, depth>>

SVlaT ==       \* TypeName name; where TypeName is a variably modified typedef name: the size recorded by SVTypedef
  /\ IsStmt("vlat")
  /\ IF S.tn \notin DOMAIN env THEN Fail("unknown-typedef")
     ELSE LET t == env[S.tn].t  o == NewObj IN
          /\ mem' = (o :> [val |-> ZeroOf(t), live |-> TRUE]) @@ mem
          /\ env' = (S.n :> [obj |-> o, t |-> t]) @@ env
          /\ ck' = Pop /\ CTick /\ UNCHANGED <<cpid, genv, cout, cstatus, cret, depth>>

SAlloca ==     \* T *p = __builtin_alloca(len * sizeof(T)): storage that lives until the function returns
  /\ IsStmt("alloca")
  /\ LET r == Eval(S.len) IN
       IF ~r.ok THEN Fail(r.why)
       ELSE IF ~IsInt(r.t) \/ ~FitsNat31(PromV(r)) \/ Lo31(PromV(r)) = 0 \/ Lo31(PromV(r)) > 64 THEN Fail("alloca-length")
       ELSE LET t == [k |-> "a", t |-> S.t, n |-> Lo31(PromV(r))]  o == NewObj IN
            /\ mem' = (o :> [val |-> ZeroOf(t), live |-> TRUE]) @@ ((o + 1) :> [val |-> [obj |-> o, path |-> <<0>>], live |-> TRUE]) @@ mem
            /\ env' = (S.n :> [obj |-> o + 1, t |-> [k |-> "p", t |-> S.t]]) @@ env
            /\ ck' = Pop /\ CTick /\ UNCHANGED <<cpid, genv, cout, cstatus, cret, depth>>

SBlock ==
  /\ IsStmt("block")
  /\ ck' = Push(Pop, [k |-> "seq", ss |-> S.ss, i |-> 1, env0 |-> env])
  /\ CTick /\ UNCHANGED <<cpid, genv, env, mem, cout, cstatus, cret, depth>>

SSeq ==         \* next statement of a block; leaving the block restores the environment
  /\ CRunning /\ Top.k = "seq"
  /\ IF Top.i > Len(Top.ss) THEN ck' = Pop /\ env' = Top.env0
     ELSE ck' = Push([ck EXCEPT ![Len(ck)].i = @ + 1], [k |-> "s", s |-> Top.ss[Top.i]]) /\ UNCHANGED env
  /\ CTick /\ UNCHANGED <<cpid, genv, mem, cout, cstatus, cret, depth>>

SIf ==
  /\ IsStmt("if")
  /\ LET c == Eval(S.c) IN
       IF ~c.ok THEN Fail(c.why)
       ELSE /\ ck' = IF Truth(c) THEN Push(Pop, [k |-> "s", s |-> S.a])
                     ELSE IF "b" \in DOMAIN S THEN Push(Pop, [k |-> "s", s |-> S.b]) ELSE Pop
            /\ CTick /\ UNCHANGED <<cpid, genv, env, mem, cout, cstatus, cret, depth>>

SLoop ==        \* while / do / for: replace the statement by a loop item
  /\ CRunning /\ Top.k = "s" /\ S.k \in {"while", "do", "for"}
  /\ IF S.k = "for" THEN
       ck' = Push(Push(Pop, [k |-> "loop", c |-> S.c, body |-> S.body, step |-> S.step, phase |-> "test", env0 |-> env, benv |-> env]), [k |-> "s", s |-> S.init])
     ELSE ck' = Push(Pop, [k |-> "loop", c |-> S.c, body |-> S.body, step |-> [k |-> "nop"], phase |-> IF S.k = "do" THEN "body" ELSE "test", env0 |-> env, benv |-> env])
  /\ CTick /\ UNCHANGED <<cpid, genv, env, mem, cout, cstatus, cret, depth>>

SLoopTest ==
  /\ CRunning /\ Top.k = "loop"
  /\ CASE Top.phase = "body" ->
            ck' = Push([ck EXCEPT ![Len(ck)].phase = "step", ![Len(ck)].benv = env], [k |-> "s", s |-> Top.body]) /\ UNCHANGED <<env, cstatus>>
       [] Top.phase = "step" ->
            ck' = Push([ck EXCEPT ![Len(ck)].phase = "test"], [k |-> "s", s |-> Top.step]) /\ UNCHANGED <<env, cstatus>>
       [] Top.phase = "test" ->
            LET c == Eval(Top.c) IN
            IF ~c.ok THEN cstatus' = "undef:" \o c.why /\ UNCHANGED <<ck, env>>
            ELSE IF Truth(c) THEN ck' = Push([ck EXCEPT ![Len(ck)].phase = "step", ![Len(ck)].benv = env], [k |-> "s", s |-> Top.body]) /\ UNCHANGED <<env, cstatus>>
            ELSE ck' = Pop /\ env' = Top.env0 /\ UNCHANGED cstatus
  /\ CTick /\ UNCHANGED <<cpid, genv, mem, cout, cret, depth>>

SNop == IsStmt("nop") /\ ck' = Pop /\ CTick /\ UNCHANGED <<cpid, genv, env, mem, cout, cstatus, cret, depth>>
SCaseLabel == CRunning /\ Top.k = "s" /\ S.k \in {"case", "default"} /\ ck' = Pop /\ CTick /\ UNCHANGED <<cpid, genv, env, mem, cout, cstatus, cret, depth>>

(* unwind the stack to the innermost item satisfying a kind test; position 0 if none *)
InnerPos(kinds) == LET P == {j \in 1..Len(ck) : ck[j].k \in kinds} IN IF P = {} THEN 0 ELSE CHOOSE j \in P : \A q \in P : q <= j

(* goto: labels are top-level statements of a function body placed after its top-level declarations (the generator      *)
(* guarantees this, and that names are unique, so the environment needs no adjustment); the continuation becomes the rest *)
(* of the body after the label, dropping every enclosing loop/switch/block item of this function activation.             *)
CurFunc == LET j == InnerPos({"call"}) IN IF j = 0 THEN "main" ELSE ck[j].fn
SGoto ==
  /\ IsStmt("goto")
  /\ LET j == InnerPos({"call"})
         body == FuncByName(CurFunc).body
         P == {i \in 1..Len(body.ss) : body.ss[i].k = "label" /\ body.ss[i].n = S.n} IN
       IF P = {} THEN Fail("goto-undefined-label")
       ELSE /\ ck' = Append(SubSeq(ck, 1, j), [k |-> "seq", ss |-> body.ss, i |-> (CHOOSE i \in P : TRUE) + 1, env0 |-> env])
            /\ CTick /\ UNCHANGED <<cpid, genv, env, mem, cout, cstatus, cret, depth>>
SLabel == IsStmt("label") /\ ck' = Pop /\ CTick /\ UNCHANGED <<cpid, genv, env, mem, cout, cstatus, cret, depth>>

SBreak ==
  /\ IsStmt("break")
  /\ LET j == InnerPos({"loop", "sw"}) IN
       IF j = 0 THEN Fail("break-outside") ELSE ck' = SubSeq(ck, 1, j - 1) /\ env' = ck[j].env0 /\ CTick /\ UNCHANGED <<cpid, genv, mem, cout, cstatus, cret, depth>>

SContinue ==
  /\ IsStmt("continue")
  /\ LET j == InnerPos({"loop"}) IN
       IF j = 0 THEN Fail("continue-outside") ELSE ck' = SubSeq(ck, 1, j) /\ env' = ck[j].benv /\ CTick /\ UNCHANGED <<cpid, genv, mem, cout, cstatus, cret, depth>>

SSwitch ==      \* body: sequence of statements with case/default markers; control enters after the selected marker
  /\ IsStmt("switch")
  /\ LET r == Eval(S.e) IN
       IF ~r.ok THEN Fail(r.why)
       ELSE LET n == Promote(r.t.n, r.bw)
                v == Canon(n, r.v)
                hits == {j \in 1..Len(S.body) : S.body[j].k = "case" /\ Conv(n, S.body[j].v) = v}
                defs == {j \in 1..Len(S.body) : S.body[j].k = "default"}
                start == IF hits # {} THEN CHOOSE j \in hits : TRUE ELSE IF defs # {} THEN CHOOSE j \in defs : TRUE ELSE Len(S.body) + 1
            IN /\ ck' = Push(Push(Pop, [k |-> "sw", env0 |-> env]), [k |-> "seq", ss |-> S.body, i |-> start, env0 |-> env])
               /\ CTick /\ UNCHANGED <<cpid, genv, env, mem, cout, cstatus, cret, depth>>
SSwitchEnd == CRunning /\ Top.k = "sw" /\ ck' = Pop /\ CTick /\ UNCHANGED <<cpid, genv, env, mem, cout, cstatus, cret, depth>>

(* default argument promotions: integer promotions, float -> double *)
DefaultPromote(r) ==
  IF IsInt(r.t) THEN RV(PromT(r), PromV(r))
  ELSE IF IsFlt(r.t) THEN ConvTo([k |-> "f", n |-> "double"], r)
  ELSE r

(* l = va_arg(ap, T): next trailing argument of the innermost active call; its promoted type must be compatible with T
   (6.4/7.16.1.1p2: same type, or signed/unsigned counterparts with a value representable in both) *)
SVaArg ==
  /\ IsStmt("va_arg")
  /\ LET j == InnerPos({"call"}) IN
       IF j = 0 THEN Fail("va_arg-outside-function")
       ELSE LET fr == ck[j] IN
         IF fr.vai > Len(fr.va) THEN Fail("va_arg-no-more-arguments")
         ELSE LET a == fr.va[fr.vai]
                  compatible == \/ a.t = S.t
                                \/ (IsInt(a.t) /\ IsInt(S.t) /\ Size(a.t.n) = Size(S.t.n) /\ Rank(a.t.n) = Rank(S.t.n) /\ ~SignBit(Canon(a.t.n, a.v)) /\
                                    (Size(a.t.n) = 8 \/ ~SignBit(SExtBits(a.v, 32)))) IN
              IF ~compatible THEN Fail("va_arg-type")
              ELSE LET r == ApplyAsg("=", LVal(S.l), RV(S.t, IF IsInt(S.t) THEN Canon(S.t.n, a.v) ELSE a.v), mem) IN
                   IF ~r.ok THEN Fail(r.why)
                   ELSE /\ mem' = r.mem
                        /\ ck' = [Pop EXCEPT ![j].vai = @ + 1]
                        /\ CTick /\ UNCHANGED <<cpid, genv, env, cout, cstatus, cret, depth>>

SCall ==        \* [l =] f(args);  arguments are pure expressions
  /\ IsStmt("call")
  /\ LET fe == IF "fe" \in DOMAIN S THEN Eval(S.fe) ELSE RV(TInt, Zero)       \* call through a pointer to function
         fname == IF "fe" \in DOMAIN S THEN (IF fe.ok /\ fe.t.k = "fp" THEN fe.v.fn ELSE "") ELSE S.f
         g == FuncByName(IF fname = "" THEN "main" ELSE fname)
         av == [j \in 1..Len(S.args) |-> Eval(S.args[j])] IN
       IF fname = "" THEN Fail("call-through-null-or-bad-function-pointer")
       ELSE IF \E j \in 1..Len(S.args) : ~av[j].ok THEN Fail("argument")
       ELSE IF \E j \in 1..Len(g.params) : ~StoreConv(LV(0, <<>>, g.params[j].t, 0), av[j]).ok THEN Fail("argument-conversion")
       ELSE IF depth >= 12 THEN Fail("recursion-depth")
       ELSE IF Len(S.args) # Len(g.params) /\ ~("variadic" \in DOMAIN g /\ g.variadic /\ Len(S.args) > Len(g.params)) THEN Fail("call-arity")
       ELSE IF \E j \in (Len(g.params) + 1)..Len(S.args) : ~DefaultPromote(av[j]).ok THEN Fail("argument-promotion")
       ELSE LET base == Cardinality(DOMAIN mem)
                objs == [j \in 1..Len(g.params) |-> [val |-> StoreConv(LV(0, <<>>, g.params[j].t, 0), av[j]).val, live |-> TRUE]] IN
            /\ mem' = [o \in (DOMAIN mem) \cup ((base + 1)..(base + Len(g.params))) |-> IF o \in DOMAIN mem THEN mem[o] ELSE objs[o - base]]
            /\ env' = [nm \in (DOMAIN genv) \cup {g.params[j].n : j \in 1..Len(g.params)} |->
                        IF \E j \in 1..Len(g.params) : g.params[j].n = nm
                        THEN LET j == CHOOSE j \in 1..Len(g.params) : g.params[j].n = nm IN [obj |-> base + j, t |-> g.params[j].t]
                        ELSE genv[nm]]
            /\ ck' = Push(Push(Pop, [k |-> "call", env0 |-> env, hasl |-> "l" \in DOMAIN S, l |-> IF "l" \in DOMAIN S THEN S.l ELSE [k |-> "nop"], rt |-> g.ret, fn |-> fname,
                                             \* trailing arguments of a variadic call after the default argument promotions (6.5.2.2p7)
                                             va |-> [j \in 1..(Len(S.args) - Len(g.params)) |-> DefaultPromote(av[Len(g.params) + j])], vai |-> 1]),
                          [k |-> "s", s |-> g.body])
            /\ depth' = depth + 1
            /\ CTick /\ UNCHANGED <<cpid, genv, cout, cstatus, cret>>

(* function end reached without return: value-less return *)
SCallEnd ==
  /\ CRunning /\ Top.k = "call"
  /\ IF Top.hasl THEN Fail("missing-return-value")
     ELSE ck' = Pop /\ env' = Top.env0 /\ depth' = depth - 1 /\ CTick /\ UNCHANGED <<cpid, genv, mem, cout, cstatus, cret>>

SReturn ==
  /\ IsStmt("ret")
  /\ LET j == InnerPos({"call"})
         r == IF "e" \in DOMAIN S THEN Eval(S.e) ELSE RV(TInt, Zero) IN
       IF ~r.ok THEN Fail(r.why)
       ELSE IF j = 0 THEN      \* return from main
         /\ cstatus' = "exit" /\ cret' = Conv("int", PromV(r)) /\ ck' = <<>>
         /\ UNCHANGED <<cpid, genv, env, mem, cout, cfuel, depth>>
       ELSE LET fr == ck[j]
                sc == StoreConv(LV(0, <<>>, fr.rt, 0), r)
                sv == sc.val
                rv == IF IsArith(fr.rt) THEN RV(fr.rt, sv.v) ELSE RV(fr.rt, sv) IN
         IF ~sc.ok THEN Fail("return-conversion")
         ELSE IF ~fr.hasl THEN ck' = SubSeq(ck, 1, j - 1) /\ env' = fr.env0 /\ depth' = depth - 1 /\ CTick /\ UNCHANGED <<cpid, genv, mem, cout, cstatus, cret>>
         ELSE \* the assignment of the result happens in the caller's environment
              /\ ck' = Push(SubSeq(ck, 1, j - 1), [k |-> "retasg", l |-> fr.l, t |-> rv.t, v |-> rv.v])
              /\ env' = fr.env0 /\ depth' = depth - 1 /\ CTick /\ UNCHANGED <<cpid, genv, mem, cout, cstatus, cret>>

SRetAsg ==
  /\ CRunning /\ Top.k = "retasg"
  /\ LET a == ApplyAsg("=", LVal(Top.l), RV(Top.t, Top.v), mem) IN
       IF ~a.ok THEN Fail(a.why)
       ELSE mem' = a.mem /\ ck' = Pop /\ CTick /\ UNCHANGED <<cpid, genv, env, cout, cstatus, cret, depth>>

(* main's body finished without return: main returns 0 (5.1.2.2.3) *)
SEnd == /\ cstatus = "run" /\ Len(ck) = 0
        /\ cstatus' = "exit" /\ cret' = Zero /\ UNCHANGED <<cpid, genv, ck, env, mem, cout, cfuel, depth>>
COutOfFuel == cstatus = "run" /\ Len(ck) > 0 /\ cfuel = 0 /\ cstatus' = "undef:out-of-fuel" /\ UNCHANGED <<cpid, genv, ck, env, mem, cout, cret, cfuel, depth>>

(* file-scope objects are created in order before main runs *)
CInit ==
  /\ cpid \in 1..Len(CProgs)
  /\ ck = <<[k |-> "s", s |-> [k |-> "block", ss |-> CP.globals \o <<[k |-> "s_main"]>>]]>>
  /\ env = <<>> /\ genv = <<>> /\ mem = <<>> /\ cout = <<>> /\ cstatus = "run" /\ cret = Zero /\ cfuel = 20000 /\ depth = 0

SMain ==        \* after the globals: enter main's body with the global environment
  /\ IsStmt("s_main")
  /\ ck' = <<[k |-> "s", s |-> FuncByName("main").body]>>
  /\ genv' = env
  /\ CTick /\ UNCHANGED <<cpid, env, mem, cout, cstatus, cret, depth>>

CNext == SComma \/ SExpr \/ SAsg \/ SObs \/ SDecl \/ SStatic \/ SVla \/ SVTypedef \/ SVlaT \/ SAlloca \/ SBlock \/ SSeq \/ SIf \/ SLoop \/ SLoopTest \/ SNop \/ SCaseLabel \/ SBreak \/ SContinue
         \/ SSwitch \/ SSwitchEnd \/ SGoto \/ SLabel \/ SVaArg \/ SCall \/ SCallEnd \/ SReturn \/ SRetAsg \/ SEnd \/ COutOfFuel \/ SMain

CSpec == CInit /\ [][CNext]_cvars
CDone == cstatus # "run"
CEmit == CDone => PrintT("VCASE " \o ToJson([pid |-> cpid, status |-> cstatus, out |-> cout, ret |-> cret]))
=============================================================================
