SPECIFICATION Spec
CONSTANTS
  MaxInputs = 2
  MaxStages = 3
  Cap = 2
  Modes = {"link", "file", "stdout"}
  FailEnds = {"exit1_before_read", "exit1_mid_write", "exit1_after", "signal", "spawn_fails"}
  LinkEnds = {"exit0", "exit1_after", "signal", "spawn_fails"}
  MaxFail = 1
  Devs = {}
  KeepReadEnds = TRUE
  EmitCases = TRUE
INVARIANTS TypeOK Inv_FailClean Inv_NoTemps Inv_Success Inv_ExitCode Inv_LinkFail Inv_Reaped Inv_Npids Inv_Emit
CHECK_DEADLOCK FALSE
