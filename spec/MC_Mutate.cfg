SPECIFICATION Spec
CONSTANTS MaxEdits = 2
INVARIANT Emit
CHECK_DEADLOCK FALSE
