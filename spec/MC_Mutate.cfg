SPECIFICATION Spec
CONSTANTS MaxEdits = 2
  Exhaustive = FALSE
INVARIANT Emit
CHECK_DEADLOCK FALSE
