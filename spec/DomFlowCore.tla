---------------------------- MODULE DomFlowCore ----------------------------
(* The forward must-analysis behind QbeWF!DefDominatesUse, as pure operators  *)
(* over an abstract control-flow graph, so that the same step is used          *)
(*   - by QbeWF.tla on the CFG of a function cproc printed (flow C), and       *)
(*   - by DomFlow.tla, where TLC checks it against the declarative definition  *)
(*     of dominance on every small CFG and every worklist order.               *)
(*                                                                             *)
(* A graph g is a record                                                       *)
(*   nb    number of blocks (1 = entry)                                        *)
(*   pred  [1..nb -> SUBSET 1..nb]                                             *)
(*   succ  [1..nb -> SUBSET 1..nb]                                             *)
(*   gen   [1..nb -> SUBSET X]     temporaries defined anywhere in the block   *)
(*   X     universe of tracked temporaries                                     *)
(*   entry SUBSET X                temporaries defined on function entry       *)
EXTENDS Naturals, FiniteSets, FiniteSetsExt

Top(g, b) == IF b = 1 THEN g.entry ELSE g.X

InitIn(g) == [b \in 1..g.nb |-> Top(g, b)]

Out(g, In, p) == In[p] \cup g.gen[p]

(* one evaluation of the transfer equation at block b *)
NewIn(g, In, b) ==      \* Top(b) \cap the Out sets of all predecessors (set operations, not a filter: TLC does them natively)
  FoldSet(LAMBDA p, acc : acc \cap (In[p] \cup g.gen[p]), Top(g, b), g.pred[b])

(* the worklist after evaluating b *)
NewWork(g, In, work, b) ==
  IF NewIn(g, In, b) = In[b] THEN work \ {b} ELSE (work \ {b}) \cup g.succ[b]

MinOf(S) == CHOOSE x \in S : \A y \in S : x <= y

(* ---------------------------------------------------------------------- *)
(* Declarative side: t, defined only in block d, is available on entry to  *)
(* b iff every path from the entry to the entry of b runs through d, i.e.  *)
(* b is not reachable when d's outgoing edges are cut.  Unreachable blocks *)
(* have everything available (QBE deletes them before its SSA check).      *)
RECURSIVE ReachCut(_, _, _)
ReachCut(g, cut, R) ==   \* least R' >= R closed under succ, never leaving `cut`
  LET R2 == R \cup UNION {g.succ[p] : p \in R \ cut}
  IN IF R2 = R THEN R ELSE ReachCut(g, cut, R2)

EntryReach(g, cut) == IF g.nb = 0 THEN {} ELSE ReachCut(g, cut, {1})

DefBlocks(g, t) == {d \in 1..g.nb : t \in g.gen[d]}

Available(g, t, b) ==
  \/ b \notin EntryReach(g, {})                            \* unreachable block
  \/ t \in g.entry
  \/ \E d \in DefBlocks(g, t) : b \notin EntryReach(g, {d})   \* single definition: d dominates b strictly
                                                             \* (or b = d re-entered only through d)

DeclIn(g) == [b \in 1..g.nb |-> {t \in g.X : Available(g, t, b)}]
=============================================================================
