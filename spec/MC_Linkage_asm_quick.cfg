SPECIFICATION Spec
CONSTANTS
  Ids = {"x"}
  MaxLen = 3
  MaxDepth = 2
  MixKinds = FALSE
  AsmForms = TRUE
  AsmFirst = TRUE
  Kinds = {"obj"}
  Family = "all"
  DevsOn = {"ThreadNoTentative", "ThreadMismatchNotDiagnosed", "InlineLateExternal", "NoUsedInternalUndefDiag"}
  OkPrefix = FALSE
  SampleMod = 4
  Emit = "all"
INVARIANTS Inv_Refines Inv_OneDef Inv_ExportedExt Inv_FiredExplains Inv_Emit
CHECK_DEADLOCK FALSE
