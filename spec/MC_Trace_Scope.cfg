SPECIFICATION TSpec
CONSTANTS
  Names = {}
  MaxScopes = 0
  MaxDepth = 0
  MaxIds = 0
POSTCONDITION TraceAccepted
CHECK_DEADLOCK FALSE
