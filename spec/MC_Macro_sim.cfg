SPECIFICATION Spec
CONSTANTS
  Devs <- KnownDevs
  Space = "sim"
  Modes = {"E"}
  EmitCases = TRUE
  PeekBudget = 0
INVARIANTS Inv_Ctx Inv_End Inv_Conform
CHECK_DEADLOCK FALSE
