------------------------------ MODULE Mutate ------------------------------
(* Spec-driven input mutation (used by C02, C03, C19, C20): a behaviour is a     *)
(* sequence of <= MaxEdits token-level edits of one corpus file.  The harness    *)
(* tokenises the corpus, tells this module how many tokens each file has, and     *)
(* applies the edits TLC chose.  Edit kinds: replace a token by one of the        *)
(* alphabet, delete it, duplicate it, swap it with its successor, insert an       *)
(* alphabet token before it, truncate the file after it.                          *)
EXTENDS Naturals, Sequences, TLC, Json, IOUtils

CONSTANTS MaxEdits,
          Exhaustive      \* TRUE: every single edit is a successor (model checking a small file); FALSE: edits are drawn (simulation)
NTok == JsonDeserialize(IOEnv.MUTATE_NTOK)      \* sequence: number of tokens of file i
NAlpha == atoi(IOEnv.MUTATE_NALPHA)             \* size of the replacement alphabet

VARIABLES file, edits
vars == <<file, edits>>

Kinds == {"replace", "delete", "dup", "swap", "insert", "truncate"}

Init == file \in 1..Len(NTok) /\ edits = <<>>

ExhAlpha == IF Exhaustive THEN JsonDeserialize(IOEnv.MUTATE_EXH_ALPHA) ELSE <<>>     \* alphabet indexes used for replace / insert
EditAll ==        \* the whole one-edit neighbourhood of the file: every kind at every position (with every token of ExhAlpha)
  /\ Exhaustive /\ Len(edits) < MaxEdits /\ NTok[file] > 0
  /\ \E k \in Kinds, p \in 1..NTok[file] :
       \E a \in (IF k \in {"replace", "insert"} THEN {ExhAlpha[i] : i \in 1..Len(ExhAlpha)} ELSE {1}) :
         edits' = Append(edits, [kind |-> k, pos |-> p, alpha |-> a])
  /\ UNCHANGED file

Edit ==
  /\ ~Exhaustive
  /\ Len(edits) < MaxEdits
  /\ NTok[file] > 0
  \* simulation mode: TLC draws the edit at random (enumerating all successors would be 10^5 per step)
  /\ edits' = Append(edits, [kind |-> RandomElement(Kinds), pos |-> RandomElement(1..NTok[file]), alpha |-> RandomElement(1..NAlpha)])
  /\ UNCHANGED file

Next == Edit \/ EditAll
Spec == Init /\ [][Next]_vars

Emit == (Len(edits) >= 1) => PrintT("VCASE " \o ToJson([file |-> file, edits |-> edits]))
=============================================================================
