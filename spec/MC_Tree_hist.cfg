SPECIFICATION Spec
CONSTANTS
  Keys = {0, 1, 7, 8, 15, 16, 127, 128, 248, 255}
  MaxN = 4
  HalfBits = 4
  AllowDup = TRUE
INVARIANTS Inv_BST Inv_Balanced Inv_Heights Inv_Set Inv_New Inv_Log Inv_Ladder
CHECK_DEADLOCK FALSE
