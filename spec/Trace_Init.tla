---------------------------- MODULE Trace_Init ----------------------------
(* Flow B of C07: H5 events recorded from the real init.c (hooks build) are accepted only if every     *)
(* `initadd` transforms the list the parser holds exactly as Init!Scan (the transcription of initadd,  *)
(* deviations of the current code switched on) does, starting at the position p->last points at, which  *)
(* is either where the previous initadd left it or the list head (designator() resets it).  parseinit   *)
(* invocations nest (compound literals inside initializers), events carry the invocation id.            *)
EXTENDS Init, IOUtils

Trace == ndJsonDeserialize(IOEnv.TRACE)
NT == Len(Trace)

VARIABLES l,      \* cursor into the trace
          ps      \* id of a running parseinit -> [list, last]
tvars == <<l, ps>>

Empty == [x \in {} |-> 0]
Proj(lst) == [i \in 1..Len(lst) |-> <<lst[i].s, lst[i].e, lst[i].b, lst[i].a>>]
Entry(s, e, b, a, str) == [s |-> s, e |-> e, b |-> b, a |-> a,
                           x |-> [k |-> IF str > 0 THEN "str" ELSE "int", v |-> 0, ty |-> "char", d |-> <<>>, w |-> str]]

TInit == /\ l = 1 /\ ps = Empty
         /\ top = "int" /\ form = "plain" /\ toks = <<>> /\ p = P0("int") /\ pc = "head"

EvReset(ev) == ev.e = "Reset" /\ ps' = Empty
EvBegin(ev) == /\ ev.e = "initbegin"
               /\ ev.id \notin DOMAIN ps
               /\ ps' = [i \in DOMAIN ps \cup {ev.id} |-> IF i = ev.id THEN [list |-> <<>>, last |-> 0] ELSE ps[i]]
EvAdd(ev) ==
  /\ ev.e = "initadd"
  /\ ev.id \in DOMAIN ps
  /\ LET st  == ps[ev.id]
         new == Entry(ev.s, ev.end, ev.b, ev.a, ev.str)
     IN /\ ev.last \in {st.last, 0}
        /\ ev.s < ev.end \/ (ev.s = ev.end /\ ev.b = 0 /\ ev.a = 0)
        /\ LET r == Scan(st.list, ev.last + 1, new, {})
           IN /\ Proj(r.l) = ev.list
              /\ r.at = ev.at + 1
              /\ ev.n = Len(r.l)
              /\ ps' = [ps EXCEPT ![ev.id] = [list |-> r.l, last |-> r.at]]
\* only logged by a repaired parser (proposed fix for BraceNoReset): braces re-initialise [s, end)
EvClear(ev) ==
  /\ ev.e = "initclear"
  /\ ev.id \in DOMAIN ps
  /\ ps' = [ps EXCEPT ![ev.id] = [list |-> SelectSeq(@.list, LAMBDA x : ~(x.s < ev.end /\ ev.s < x.e)), last |-> 0]]
EvDone(ev) ==
  /\ ev.e = "initdone"
  /\ ev.id \in DOMAIN ps
  /\ ev.incomplete = 0 \/ ps[ev.id].list = <<>>
  /\ \A i \in 1..Len(ps[ev.id].list) : ps[ev.id].list[i].e <= ev.tsize        \* every initializer lies inside the object
  /\ ps' = [i \in DOMAIN ps \ {ev.id} |-> ps[i]]

TStep ==
  /\ l <= NT
  /\ l' = l + 1
  /\ LET ev == Trace[l] IN EvReset(ev) \/ EvBegin(ev) \/ EvAdd(ev) \/ EvClear(ev) \/ EvDone(ev)
  /\ UNCHANGED vars

TSpec == TInit /\ [][TStep]_<<tvars, vars>>

Consumed == TLCGet("stats").diameter - 1
TraceAccepted ==
  IF Consumed >= NT THEN TRUE
  ELSE /\ PrintT("REJECT " \o ToJson([line |-> Consumed + 1, event |-> Trace[Consumed + 1]]))
       /\ FALSE
=============================================================================
