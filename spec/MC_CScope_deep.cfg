\* generator (-simulate): descend through 200 nested scopes declaring/using/shadowing on the way, then climb back
SPECIFICATION CSpec
CONSTANTS
  Names = {1, 2, 3}
  MaxScopes = 420
  MaxDepth = 200
  MaxIds = 0
  MaxLen = 2400
  Deep = TRUE
  Feat = {"macro", "label", "proto", "for", "fwd", "func"}
INVARIANTS Inv_Stack Inv_Emit
CHECK_DEADLOCK FALSE
