SPECIFICATION Spec
CONSTANTS
  Chunks <- PunctChunks
  MaxLen = 4
  MinLen = 0
  Variants = {"plain", "splice", "splice2", "bcmt", "bcmtnl", "lcmt"}
  VarLen = 2
  Mode = "alpha"
  PerturbChars = {}
  Devs = {"NoDigraphs", "NoUCNIdent", "NoUCNEscape"}
  Emit = TRUE
INVARIANTS Inv_Fired Inv_Emit
CHECK_DEADLOCK FALSE
