\* emission config (flow A): hash values drawn from {0,3,7}: wrap-around at cap 4 (3) and cap 8 (7),
\* clusters that split when the table grows (3 vs 7), everything-in-one-bucket
SPECIFICATION Spec
CONSTANTS
  NKeys = 4
  InitCap = 4
  CapMax = 8
  Buckets = {0,3,7}
  SortedH = TRUE
  PutVals = {0, 1}
  AllowKeep = TRUE
  AllowReset = TRUE
  MaxOps = 0
INVARIANTS Inv_Type Inv_FreeSlot Inv_Load Inv_Len Inv_NoDup Inv_Dom Inv_Cluster Inv_Get Inv_Emit
VIEW View
CHECK_DEADLOCK FALSE
