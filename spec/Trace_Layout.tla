---------------------------- MODULE Trace_Layout ----------------------------
(* Flow B for Layout.tla (C06): the H4 events written by the -DCPROC_VERIF build of     *)
(* decl.c (end of addmember; tagspec after the final ALIGNUP / enum base choice) during *)
(* real compilations must be steps of the implementation-shaped accumulator (with the   *)
(* deviations of the shipped code, Devs) AND, for struct members outside the deviation  *)
(* classes, steps of the declarative layout (DStep) under the refinement mapping         *)
(* pos = 8*size - bits.                                                                  *)
(*                                                                                       *)
(* Events (pointers renumbered, 0/1 turned into booleans, enum min/max compressed onto   *)
(* the scaled carrier by props/c06.py):                                                  *)
(*  member {sid, un, pk, msize, malign, mflex, width, alignas, named, hasm,              *)
(*          size0, align0, bits0, flex0, off, before, after, size, align, bits, flex}    *)
(*  tagend {sid, kind = "struct"|"union", pk, size, align}                                *)
(*  tagend {sid, kind = "enum", fixed, min, max, base}                                    *)
(*  Reset  {}                          next execution                                     *)
EXTENDS Layout

Trace == ndJsonDeserialize(IOEnv.TRACE)
NT == Len(Trace)

VARIABLES l,     \* cursor
          acc    \* sid -> accumulator state of the aggregates under construction

tvars == <<l, acc>>

Empty == [x \in {} |-> 0]

TInit == /\ l = 1 /\ acc = Empty
         /\ st = Acc0(FALSE, FALSE) /\ ms = <<>> /\ outs = <<>> /\ pool = <<>> /\ phase = "trace" /\ want = 0 /\ pick = ""

StateOf(ev, size, align, bits, flex) == [un |-> ev.un, pk |-> ev.pk, size |-> size, align |-> align, bits |-> bits, flex |-> flex]

EvMember(ev) ==
  /\ ev.e = "member"
  /\ LET s0 == IF ev.sid \in DOMAIN acc THEN acc[ev.sid] ELSE Acc0(ev.un, ev.pk)
         r  == IF ev.width = -1 THEN IPlain(s0, ev.msize, ev.malign, ev.alignas, ev.mflex)
               ELSE IBit(s0, Devs, Raise, ev.msize, ev.width, ev.named)
         m  == MEM(SC("int"), ev.named, ev.width, ev.alignas)           \* DStep only looks at nm, w, al
         ml == [size |-> ev.msize, align |-> ev.malign, flex |-> ev.mflex]
         devHere == ev.width # -1 /\ ~ev.named /\ Raise /\ "UnnamedNoAlign" \in Devs
     IN /\ s0 = StateOf(ev, ev.size0, ev.align0, ev.bits0, ev.flex0)                        \* what the code had on entry
        /\ r.s = StateOf(ev, ev.size, ev.align, ev.bits, ev.flex)                           \* what addmember left behind
        /\ ev.hasm = (r.o # NoMember)
        /\ ev.hasm => r.o = [off |-> ev.off, bf |-> ev.before, af |-> ev.after]
        /\ (~ev.un /\ ~devHere /\ (ev.width = -1 \/ ev.msize = ev.malign)) =>                \* declarative step
              LET d == DStep(FALSE, ev.pk, Raise, [pos |-> AbsPos(s0), al |-> Max(s0.align, 1)], m, ml) IN
              /\ AbsPos(r.s) = d.pos
              /\ Max(r.s.align, 1) = d.al
              /\ ev.hasm => ev.off = d.f.off /\ ev.before = d.f.bo
        /\ acc' = (ev.sid :> r.s) @@ acc

EvTagEnd(ev) ==
  /\ ev.e = "tagend" /\ ev.kind \in {"struct", "union"}
  /\ ev.sid \in DOMAIN acc
  /\ LET s == acc[ev.sid] f == IFinish(s, Devs) IN
       /\ s.un = (ev.kind = "union") /\ s.pk = ev.pk
       /\ f.size = ev.size /\ f.align = ev.align
       /\ (~(s.pk /\ "PackedNoFinalAlign" \in Devs)) => ev.size % ev.align = 0
       /\ (~s.un /\ ~(s.pk /\ "PackedNoFinalAlign" \in Devs)) => ev.size = DFinishSize(AbsPos(s), s.align)
  /\ acc' = [x \in DOMAIN acc \ {ev.sid} |-> acc[x]]

EvEnumEnd(ev) ==
  /\ ev.e = "tagend" /\ ev.kind = "enum"
  /\ ~ev.fixed =>
       LET f == EFinish([EInit("none") EXCEPT !.min = ev.min, !.max = ev.max]) IN
       /\ f.ok /\ f.base = ev.base
       \* declarative: the range [-min, max] seen as two enumerators
       /\ LET d == EnumD("none", <<[x |-> TRUE, v |-> -ev.min, u |-> FALSE], [x |-> TRUE, v |-> ev.max, u |-> FALSE]>>)
          IN d.ok /\ d.base = ev.base
  /\ UNCHANGED acc

EvReset(ev) ==
  /\ ev.e = "Reset"
  /\ acc' = Empty

TStep ==
  /\ l <= NT
  /\ l' = l + 1
  /\ LET ev == Trace[l] IN EvMember(ev) \/ EvTagEnd(ev) \/ EvEnumEnd(ev) \/ EvReset(ev)
  /\ UNCHANGED vars

TSpec == TInit /\ [][TStep]_<<tvars, vars>>

Consumed == TLCGet("stats").diameter - 1
TraceAccepted ==
  IF Consumed >= NT THEN TRUE
  ELSE /\ PrintT("REJECT " \o ToJson([line |-> Consumed + 1, event |-> Trace[Consumed + 1]]))
       /\ FALSE
=============================================================================
