SPECIFICATION ASpec
CONSTANTS
  Mode = "sig"
  MaxLen = 0
  MaxPool = 1
  MaxSize = 64
  Raise = FALSE
  Devs = {}
  Widths = {}
  Emit = FALSE
  CharSigned = TRUE
  EUSuffixed = {}
  GenClasses = {"scalar", "array", "bitfield", "nested", "anon", "alignas", "flex"}
  GenPacked = TRUE
  McSel = "full"
  CheckSim = FALSE
  MaxParams = 12
  AbiDevs = {}
  MaxExtra = 4
CHECK_DEADLOCK FALSE
