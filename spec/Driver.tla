------------------------------- MODULE Driver -------------------------------
(* Property C17: the cproc driver runs exactly the documented stages with the       *)
(* documented arguments.                                                            *)
(*                                                                                  *)
(* Two halves.                                                                      *)
(*  * Declarative:  Plans(items) — the set of acceptable outcomes for a command line *)
(*    given as a sequence of grammar ITEMS of cproc(1) (an input, "-D v" attached or *)
(*    detached, a mode flag, -Wp,a,b …).  An outcome is the list of pipelines (tool, *)
(*    argv, in pipeline order), the link command, the files removed afterwards and   *)
(*    the exit status.  Written from cproc(1), README.md and the usage line only.    *)
(*  * Implementation-shaped:  Impl(words, D) — a transcription of driver.c: main()'s *)
(*    option loop over the rendered argv WORDS at character level (arg[1], arg[2],   *)
(*    nextarg attached/detached, the argc counter, -x state), detectfiletype,        *)
(*    changeext, the stage masks, buildobj/spawnphase argv assembly, buildexe.       *)
(*    Known defects are named deviations, present iff their name is in D.            *)
(*                                                                                  *)
(* TLC checks, for every item sequence within the bounds, Impl(Render(items), {})    *)
(* \in Plans(items), and that Impl(…, Devs) leaves Plans only where a deviation      *)
(* fired.  Every state prints one VCASE line (argv, acceptable observations,         *)
(* predicted observation of the current code) that harness/props/c17.py replays into *)
(* the real driver.c built against stub tools (harness/vstub.c).                     *)
(*                                                                                  *)
(* Stub tools are part of the model: StubEffects interprets an outcome on a file     *)
(* system in which every input file n holds "[n]" and a tool named t turns its       *)
(* input x into "t(x)", so that the final texts exhibit pipeline order and           *)
(* provenance.                                                                       *)
EXTENDS Naturals, Integers, Sequences, FiniteSets, TLC, Json, SequencesExt

CONSTANTS MaxOpts,      \* bound on option items
          MaxInputs,    \* bound on input items
          Alphabet,     \* "core" | "full"
          EmitOpts,     \* VCASE lines are printed for states with <= EmitOpts option items …
          EmitInputs,   \* … and <= EmitInputs inputs, and for any number of options with at most one input …
          EmitNames,    \* … out of these names
          Devs          \* names of the known deviations of the current code

VARIABLES items

(* ------------------------------------------------------------------------------ *)
(* Strings.  TLC implements Len, SubSeq and \o on strings.                          *)
NULLS == "<NULL>"                        \* the null pointer
OOB   == "<OOB>"                         \* a read beyond argv[argc]
Ch(s, i)   == IF i < Len(s) THEN SubSeq(s, i + 1, i + 1) ELSE ""   \* s[i] in C; "" is NUL
Rest(s, i) == SubSeq(s, i + 1, Len(s))                               \* &s[i]
HasPrefix(s, p) == Len(s) >= Len(p) /\ SubSeq(s, 1, Len(p)) = p
EndsWith(s, p)  == Len(s) >= Len(p) /\ SubSeq(s, Len(s) - Len(p) + 1, Len(s)) = p
RECURSIVE JoinWith(_, _)
JoinWith(parts, sep) == IF parts = <<>> THEN ""
                        ELSE IF Len(parts) = 1 THEN parts[1]
                        ELSE parts[1] \o sep \o JoinWith(Tail(parts), sep)
Flat(ss) == FoldLeft(LAMBDA acc, s : acc \o s, <<>>, ss)             \* concatenation of a sequence of sequences

(* ------------------------------------------------------------------------------ *)
(* The grammar of command lines.                                                    *)
Langs == {"none", "c", "c-header", "cpp-output", "qbe", "assembler", "assembler-with-cpp"}

In(n)           == [k |-> "in", name |-> n]
X(l, att)       == [k |-> "x", lang |-> l, att |-> att]
Mode(w)         == [k |-> "mode", w |-> w]
OptA(o, v, att) == [k |-> "opta", o |-> o, v |-> v, att |-> att]    \* operand attached or detached
OptD(o, v)      == [k |-> "optd", o |-> o, v |-> v]                   \* operand always a separate word
Flag(w)         == [k |-> "flag", w |-> w]
W(t, parts)     == [k |-> "W", t |-> t, parts |-> parts]
Lib(v, att)     == [k |-> "lib", v |-> v, att |-> att]
Out(v, att)     == [k |-> "o", v |-> v, att |-> att]
Bad(w)          == [k |-> "bad", w |-> w]                             \* not an option of cproc(1)
Dangling(w)     == [k |-> "dangling", w |-> w]                        \* option missing its operand: last word only

RenderItem(it) ==
  CASE it.k = "in"       -> <<it.name>>
    [] it.k = "x"        -> IF it.att THEN <<"-x" \o it.lang>> ELSE <<"-x", it.lang>>
    [] it.k = "mode"     -> <<it.w>>
    [] it.k = "opta"     -> IF it.att THEN <<it.o \o it.v>> ELSE <<it.o, it.v>>
    [] it.k = "optd"     -> <<it.o, it.v>>
    [] it.k = "flag"     -> <<it.w>>
    [] it.k = "W"        -> <<"-W" \o it.t \o "," \o JoinWith(it.parts, ",")>>
    [] it.k = "lib"      -> IF it.att THEN <<"-l" \o it.v>> ELSE <<"-l", it.v>>
    [] it.k = "o"        -> IF it.att THEN <<"-o" \o it.v>> ELSE <<"-o", it.v>>
    [] it.k = "bad"      -> <<it.w>>
    [] it.k = "dangling" -> <<it.w>>
Render(its) == Flat([i \in 1..Len(its) |-> RenderItem(its[i])])

(* Input names; every one except "-" exists as a file holding "[name]".             *)
CoreNames == {"a.c", "b.h", "c.i", "d.qbe", "e.s", "f.S", "g.o", "-"}
FullNames == CoreNames \cup {"sub/h.c", "noext", "k.x.c", "m.C", "z", "dir.c/n"}
Names == IF Alphabet = "core" THEN CoreNames ELSE FullNames
InitialFiles == FullNames \ {"-"}

CoreOpts ==
  {Mode("-c"), Mode("-S"), Mode("-E"), Mode("-emit-qbe"), Mode("-M")} \cup
  {X("c", FALSE), X("assembler-with-cpp", TRUE), X("none", FALSE)} \cup
  {OptA("-D", "v1", FALSE), OptA("-D", "X=2", TRUE), OptA("-L", "v1", FALSE)} \cup
  {OptD("-include", "v1")} \cup
  {Flag("-nostdinc"), Flag("-s"), Flag("-pthread"), Flag("-nostdlib"), Flag("-g"), Flag("-Wall")} \cup
  {W("p", <<"w1", "w2">>), W("a", <<"w1">>), W("l", <<"w1", "", "w2">>)} \cup
  {Lib("m", TRUE), Lib("m", FALSE)} \cup
  {Out("out", FALSE), Out("-", FALSE)} \cup
  {Bad("-z"), Dangling("-D"), Dangling("-include")}

FullOpts ==
  CoreOpts \cup
  {Mode("-MM")} \cup
  {X(l, a) : l \in Langs, a \in BOOLEAN} \cup {X("bogus", FALSE), X("C", TRUE)} \cup
  {OptA(o, v, a) : o \in {"-D", "-U", "-I", "-L"}, v \in {"v1", "X=2", "-E"}, a \in BOOLEAN} \cup
  {OptD(o, v) : o \in {"-include", "-idirafter", "-isystem", "-iquote", "-MT", "-MF"}, v \in {"v1", "-c"}} \cup
  {Flag(w) : w \in {"-std=c11", "-MD", "-MMD", "-P", "-static", "-g3", "-O", "-O2", "-pipe", "-pedantic",
                    "-W", "-Wextra", "-v"}} \cup
  {W(t, p) : t \in {"p", "a", "l"}, p \in {<<"w1">>, <<"w1", "w2">>, <<"w1", "", "w2">>, <<"">>}} \cup
  {Lib("pthread", TRUE), Lib("v1", FALSE)} \cup
  {Out("out", TRUE), Out("-", TRUE), Out("sub/out.x", FALSE)} \cup
  {Bad(w) : w \in {"--help", "-cx", "-Ex", "-Sx", "-sx", "-vx", "-MP", "-Wx,y", "-save-temps", "-nostdlibx"}} \cup
  {Dangling(w) : w \in {"-U", "-I", "-L", "-l", "-o", "-x", "-idirafter", "-isystem", "-iquote", "-MT", "-MF"}}

Opts == IF Alphabet = "core" THEN CoreOpts ELSE FullOpts

(* ------------------------------------------------------------------------------ *)
(* Outcomes.                                                                        *)
(*   rc      exit status                                                            *)
(*   pipes   sequence of pipelines; a pipeline is a sequence of [tool, argv]        *)
(*   link    argv of the link command or <<>>                                       *)
(*   rm      paths removed after the link step                                      *)
(*   ub      TRUE: the current code reads beyond argv here, nothing is predicted    *)
(* Words starting with "@" are placeholders the harness expands from the generated  *)
(* config.h: @cpp @qbe @as @ld (base commands), @self-qbe, @startfiles @endfiles,   *)
(* @arch @qbearch (see TargetTable).  TMPn is the n-th temporary object.             *)
Usage == [rc |-> 2, pipes |-> <<>>, link |-> <<>>, rm |-> <<>>, ub |-> FALSE]
Undefined == [rc |-> -1, pipes |-> <<>>, link |-> <<>>, rm |-> <<>>, ub |-> TRUE]
Tmp(n) == "TMP" \o ToString(n)

(* Target flag: which -t names the compiler proper and QBE get for a triple.        *)
TargetTable == [x86_64 |-> <<"x86_64-sysv", "amd64_sysv">>, amd64 |-> <<"x86_64-sysv", "amd64_sysv">>,
                aarch64 |-> <<"aarch64", "arm64">>, riscv64 |-> <<"riscv64", "rv64">>]
Triples == {"x86_64-linux-gnu", "x86_64-linux-musl", "aarch64-linux-gnu", "aarch64-linux-musl", "riscv64-linux-gnu",
            "riscv64-linux-musl", "amd64-unknown-freebsd13", "x86_64-unknown-openbsd7", "x86_64-unknown-netbsd9",
            "aarch64-unknown-freebsd13", "i686-linux-gnu", "x86_64", "aarch64"}
RECURSIVE IndexOf(_, _, _)
IndexOf(s, c, from) == IF from > Len(s) THEN 0 ELSE IF SubSeq(s, from, from) = c THEN from ELSE IndexOf(s, c, from + 1)
PlanArch(triple) ==      \* the architecture is the part before the first "-"
  LET d == IndexOf(triple, "-", 1)
      cpu == IF d = 0 THEN "" ELSE SubSeq(triple, 1, d - 1)
  IN IF cpu \in DOMAIN TargetTable THEN TargetTable[cpu] ELSE <<"unsupported">>
ImplArch(target) ==      \* driver.c main(): the hasprefix chain
  IF HasPrefix(target, "x86_64-") \/ HasPrefix(target, "amd64-") THEN <<"x86_64-sysv", "amd64_sysv">>
  ELSE IF HasPrefix(target, "aarch64-") THEN <<"aarch64", "arm64">>
  ELSE IF HasPrefix(target, "riscv64-") THEN <<"riscv64", "rv64">>
  ELSE <<"unsupported">>
ASSUME ArchAgree == \A t \in Triples : PlanArch(t) = ImplArch(t)

(* ------------------------------------------------------------------------------ *)
(* Declarative plan.                                                                *)
TypeOfLang(l) ==
  CASE l = "c" -> "C" [] l = "c-header" -> "CHDR" [] l = "cpp-output" -> "CPPOUT" [] l = "qbe" -> "QBE"
    [] l = "assembler" -> "ASM" [] l = "assembler-with-cpp" -> "ASMPP"
TypeOfSuffix(n) ==      \* "determine source code language from the known file extensions"
  IF EndsWith(n, ".c") THEN "C" ELSE IF EndsWith(n, ".h") THEN "CHDR" ELSE IF EndsWith(n, ".i") THEN "CPPOUT"
  ELSE IF EndsWith(n, ".qbe") THEN "QBE" ELSE IF EndsWith(n, ".s") THEN "ASM" ELSE IF EndsWith(n, ".S") THEN "ASMPP"
  ELSE "OBJ"
Needs(type) ==          \* the tools an input of this type has to pass before it is an object
  CASE type = "C" -> <<"cpp", "cc", "qbe", "as">> [] type = "CHDR" -> <<"cpp">> [] type = "CPPOUT" -> <<"cc", "qbe", "as">>
    [] type = "QBE" -> <<"qbe", "as">> [] type = "ASM" -> <<"as">> [] type = "ASMPP" -> <<"cpp", "as">> [] type = "OBJ" -> <<>>
LastTool(mode) == CASE mode = "E" -> "cpp" [] mode = "emit" -> "cc" [] mode = "S" -> "qbe" [] mode = "c" -> "as" [] mode = "link" -> "as"
ModeOfFlag(w) == CASE w = "-c" -> "c" [] w = "-S" -> "S" [] w = "-E" -> "E" [] w = "-emit-qbe" -> "emit" [] w = "-M" -> "E" [] w = "-MM" -> "E"
Participates(type, mode) == IF mode = "link" THEN type # "CHDR" ELSE LastTool(mode) \in Range(Needs(type))
StagesFor(type, mode) ==
  LET n == Needs(type) IN
  IF mode = "link" THEN n ELSE SubSeq(n, 1, CHOOSE i \in 1..Len(n) : n[i] = LastTool(mode))

(* the language in force at item i: operand of the last -x before it *)
LangAt(its, i) ==
  LET xs == {j \in 1..(i - 1) : its[j].k = "x"} IN
  IF xs = {} THEN "none" ELSE its[CHOOSE j \in xs : \A j2 \in xs : j2 <= j].lang

InputsOf(its) ==        \* sequence of [name, type, lib]
  LET idx == SelectSeq([i \in 1..Len(its) |-> i], LAMBDA i : its[i].k \in {"in", "lib"}) IN
  [q \in 1..Len(idx) |->
     LET it == its[idx[q]] IN
     IF it.k = "lib" THEN [name |-> it.v, type |-> "OBJ", lib |-> TRUE]
     ELSE LET l == LangAt(its, idx[q]) IN
          [name |-> it.name, lib |-> FALSE,
           type |-> IF l # "none" THEN TypeOfLang(l) ELSE IF it.name = "-" THEN "STDIN-NEEDS-X" ELSE TypeOfSuffix(it.name)]]

(* options routed to a tool, in command-line order *)
RoutePP(it) ==
  CASE it.k = "opta" /\ it.o \in {"-D", "-U", "-I"} -> <<it.o, it.v>>
    [] it.k = "optd" -> <<it.o, it.v>>
    [] it.k = "flag" /\ (it.w \in {"-nostdinc", "-MD", "-MMD", "-P"} \/ HasPrefix(it.w, "-std=")) -> <<it.w>>
    [] it.k = "mode" /\ it.w \in {"-M", "-MM"} -> <<it.w>>
    [] it.k = "W" /\ it.t = "p" -> it.parts
    [] OTHER -> <<>>
RouteAS(it) == IF it.k = "W" /\ it.t = "a" THEN it.parts ELSE <<>>
RouteLD(it) ==
  CASE it.k = "opta" /\ it.o = "-L" -> <<"-L", it.v>>
    [] it.k = "flag" /\ it.w \in {"-s", "-static"} -> <<it.w>>
    [] it.k = "flag" /\ it.w = "-pthread" -> <<"-l", "pthread">>
    [] it.k = "W" /\ it.t = "l" -> it.parts
    [] OTHER -> <<>>
Routed(its, R(_)) == Flat([i \in 1..Len(its) |-> R(its[i])])

LastIdx(s, c) == IF \E i \in 1..Len(s) : SubSeq(s, i, i) = c
                 THEN CHOOSE i \in 1..Len(s) : SubSeq(s, i, i) = c /\ \A j \in (i + 1)..Len(s) : SubSeq(s, j, j) # c
                 ELSE 0
ReplaceSuffix(n, ext) ==    \* "replacing the source file extension", in the current directory
  LET b == Rest(n, LastIdx(n, "/"))
      d == LastIdx(b, ".")
  IN (IF d = 0 THEN b ELSE SubSeq(b, 1, d - 1)) \o "." \o ext

BaseCmd(tool, its) ==
  CASE tool = "cpp" -> <<"@cpp">> \o Routed(its, RoutePP)
    [] tool = "cc"  -> <<"@self-qbe", "-t", "@arch">>
    [] tool = "qbe" -> <<"@qbe", "-t", "@qbearch">>
    [] tool = "as"  -> <<"@as">> \o Routed(its, RouteAS)

PlanMode(its, mode) ==     \* set of acceptable outcomes once the mode is fixed
  LET ins  == InputsOf(its)
      os   == SelectSeq(its, LAMBDA it : it.k = "o")
      o    == IF os = <<>> THEN NULLS ELSE os[Len(os)].v
      part == [q \in 1..Len(ins) |-> Participates(ins[q].type, mode)]
      npart == Cardinality({q \in 1..Len(ins) : part[q]})
      nostdlib == \E i \in 1..Len(its) : its[i] = Flag("-nostdlib")
      \* the n-th temporary belongs to the n-th input that is compiled in link mode
      tmpno(q) == Cardinality({r \in 1..q : part[r] /\ ins[r].type # "OBJ"})
      outOf(q) ==
        IF mode = "link" THEN Tmp(tmpno(q))
        ELSE IF o # NULLS THEN (IF o = "-" THEN NULLS ELSE o)
        ELSE IF mode = "c" THEN ReplaceSuffix(ins[q].name, "o")
        ELSE IF mode = "S" THEN ReplaceSuffix(ins[q].name, "s")
        ELSE NULLS                               \* -E, -emit-qbe: standard output (cproc(1))
      pipeOf(q) ==
        LET st == StagesFor(ins[q].type, mode) IN
        [j \in 1..Len(st) |->
           [tool |-> st[j],
            argv |-> BaseCmd(st[j], its)
                     \o (IF j = Len(st) /\ outOf(q) # NULLS THEN <<"-o", outOf(q)>> ELSE <<>>)
                     \o (IF j = 1 /\ ins[q].name # "-" THEN <<ins[q].name>> ELSE <<>>)]]
      pipes == [x \in 1..Cardinality({q \in 1..Len(ins) : part[q] /\ ins[q].type # "OBJ"}) |->
                  pipeOf(CHOOSE q \in 1..Len(ins) : part[q] /\ ins[q].type # "OBJ" /\ tmpno(q) = x)]
      objs == Flat([q \in 1..Len(ins) |->
                  IF ins[q].lib THEN <<"-l", ins[q].name>>
                  ELSE IF ins[q].type = "OBJ" THEN <<ins[q].name>>
                  ELSE IF part[q] THEN <<Tmp(tmpno(q))>> ELSE <<>>])
      linkcmd == <<"@ld">> \o Routed(its, RouteLD) \o <<"-o", IF o = NULLS THEN "a.out" ELSE o>>
                 \o (IF nostdlib THEN <<>> ELSE <<"@startfiles">>) \o objs \o (IF nostdlib THEN <<>> ELSE <<"@endfiles">>)
      normal == [rc |-> 0, pipes |-> pipes,
                 link |-> IF mode = "link" THEN linkcmd ELSE <<>>,
                 rm |-> IF mode = "link" THEN [x \in 1..Len(pipes) |-> Tmp(x)] ELSE <<>>,
                 ub |-> FALSE]
  IN IF o = "-" /\ mode \in {"c", "link"} THEN {Usage}                    \* an object cannot go to standard output
     ELSE IF o \notin {NULLS, "-"} /\ mode # "link" /\ Len(ins) > 1
          THEN IF npart > 1 THEN {Usage}                                   \* one -o for several outputs
               ELSE {Usage, normal}    \* cproc(1) is silent on whether ignored inputs count: either is accepted
     ELSE {normal}

Plans(its) ==
  LET ins == InputsOf(its)
      modes == {ModeOfFlag(its[i].w) : i \in {j \in 1..Len(its) : its[j].k = "mode"}}
  IN IF \E i \in 1..Len(its) : its[i].k \in {"bad", "dangling"} \/ (its[i].k = "x" /\ its[i].lang \notin Langs) THEN {Usage}
     ELSE IF \E q \in 1..Len(ins) : ins[q].type = "STDIN-NEEDS-X" THEN {Usage}
     ELSE IF ins = <<>> THEN {Usage}
     \* with several different mode flags cproc(1) does not say which one counts: any is accepted
     ELSE UNION {PlanMode(its, m) : m \in (IF modes = {} THEN {"link"} ELSE modes)}

(* ------------------------------------------------------------------------------ *)
(* Implementation-shaped model: driver.c.                                           *)
PREPROCESS == 0  COMPILE == 1  CODEGEN == 2  ASSEMBLE == 3  LINK == 4
ToolOf(stage) == <<"cpp", "cc", "qbe", "as", "ld">>[stage + 1]

RECURSIVE StrRChr(_, _, _)
StrRChr(s, c, i) == IF i = 0 THEN 0 ELSE IF SubSeq(s, i, i) = c THEN i ELSE StrRChr(s, c, i - 1)   \* 1-based index or 0

DetectFileType(name) ==
  LET dot == StrRChr(name, ".", Len(name)) IN
  IF dot = 0 THEN "OBJ"
  ELSE LET e == Rest(name, dot) IN
       IF e = "c" THEN "C" ELSE IF e = "h" THEN "CHDR" ELSE IF e = "i" THEN "CPPOUT" ELSE IF e = "qbe" THEN "QBE"
       ELSE IF e = "s" THEN "ASM" ELSE IF e = "S" THEN "ASMPP" ELSE "OBJ"

ChangeExt(name0, ext) ==
  LET slash == StrRChr(name0, "/", Len(name0))
      name  == Rest(name0, slash)
      dot   == StrRChr(name, ".", Len(name))
      baselen == IF dot # 0 THEN dot - 1 ELSE Len(name)
  IN SubSeq(name, 1, baselen) \o "." \o ext

StagesOfType(ft) ==
  CASE ft = "ASM" -> {ASSEMBLE, LINK} [] ft = "ASMPP" -> {PREPROCESS, ASSEMBLE, LINK}
    [] ft = "C" -> {PREPROCESS, COMPILE, CODEGEN, ASSEMBLE, LINK} [] ft = "CHDR" -> {PREPROCESS}
    [] ft = "CPPOUT" -> {COMPILE, CODEGEN, ASSEMBLE, LINK} [] ft = "QBE" -> {CODEGEN, ASSEMBLE, LINK} [] ft = "OBJ" -> {LINK}

RECURSIVE SplitComma(_)
SplitComma(s) == LET e == IndexOf(s, ",", 1) IN
                 IF e = 0 THEN <<s>> ELSE <<SubSeq(s, 1, e - 1)>> \o SplitComma(Rest(s, e))

Impl(words, D) ==
  LET n == Len(words)
      Arg(j) == IF j <= n THEN words[j] ELSE IF j = n + 1 THEN NULLS ELSE OOB        \* argv[j]
      st0 == [p |-> 0, argc |-> n + 1, ft |-> "NONE", last |-> LINK, out |-> NULLS,
              pp |-> <<"@cpp">>, cc |-> <<"@self-qbe", "-t", "@arch">>, qbe |-> <<"@qbe", "-t", "@qbearch">>,
              as |-> <<"@as">>, ld |-> <<"@ld">>,
              ins |-> <<>>, nostdlib |-> FALSE, res |-> "loop"]
      usage(st) == [st EXCEPT !.res = "usage"]
      (* nextarg(): operand attached to the option word or the next word *)
      NextArg(st, arg) ==
        IF Ch(arg, 2) # "" THEN [ok |-> TRUE, v |-> Rest(arg, 2), p |-> st.p]
        ELSE IF Arg(st.p + 1) = NULLS THEN [ok |-> FALSE, v |-> "", p |-> st.p + 1]
        ELSE [ok |-> TRUE, v |-> Arg(st.p + 1), p |-> st.p + 1]
      (* "-include x" style: if (!--argc) usage(NULL); add(arg); add(next word) *)
      TwoWords(st, arg) ==
        LET argc2 == st.argc - 1
            v == Arg(st.p + 1)
        IN IF argc2 = 0 THEN usage(st)
           ELSE IF v = NULLS
                THEN (IF "ArgcDesync" \in D THEN [st EXCEPT !.res = "ub"]   \* NULL is appended, then ++argv walks into envp
                      ELSE usage(st))
           ELSE [st EXCEPT !.argc = argc2, !.p = st.p + 1, !.pp = @ \o <<arg, v>>]
      WithOperand(st, arg, F(_, _)) ==
        LET na == NextArg(st, arg) IN
        IF ~na.ok THEN usage(st) ELSE F([st EXCEPT !.p = na.p], na.v)
      Step(sta) ==      \* one iteration of the for (;;) loop of main()
        LET st  == [sta EXCEPT !.p = @ + 1, !.argc = @ - 1]
            arg == Arg(st.p)
        IN
        IF arg = NULLS THEN [st EXCEPT !.res = "parsed"]
        ELSE IF Ch(arg, 0) # "-" \/ Ch(arg, 1) = "" THEN
          LET isnone == IF "OneCharName" \in D THEN st.ft = "NONE" /\ Ch(arg, 1) # ""     \* filetype == NONE && arg[1]
                        ELSE st.ft = "NONE" /\ arg # "-"
              ft == IF isnone THEN DetectFileType(arg) ELSE st.ft
          IN IF ft = "NONE" THEN usage(st)
             ELSE [st EXCEPT !.ins = Append(@, [name |-> arg, lib |-> FALSE, ft |-> ft, stages |-> StagesOfType(ft)])]
        ELSE IF arg = "-nostdlib" THEN [st EXCEPT !.nostdlib = TRUE]
        ELSE IF arg = "-nostdinc" THEN [st EXCEPT !.pp = Append(@, arg)]
        ELSE IF arg = "-static" THEN [st EXCEPT !.ld = Append(@, arg)]
        ELSE IF arg = "-emit-qbe" THEN [st EXCEPT !.last = COMPILE]
        ELSE IF arg \in {"-include", "-idirafter", "-isystem", "-iquote"} THEN TwoWords(st, arg)
        ELSE IF arg = "-pipe" THEN st
        ELSE IF HasPrefix(arg, "-std=") THEN [st EXCEPT !.pp = Append(@, arg)]
        ELSE IF arg = "-pedantic" THEN st
        ELSE IF arg = "-pthread" THEN [st EXCEPT !.ld = @ \o <<"-l", "pthread">>]
        ELSE IF Ch(arg, 2) # "" /\ Ch(arg, 1) \in {"c", "E", "S", "s", "v"} THEN usage(st)
        ELSE LET c == Ch(arg, 1) IN
          CASE c = "c" -> [st EXCEPT !.last = ASSEMBLE]
            [] c = "D" -> WithOperand(st, arg, LAMBDA s, v : [s EXCEPT !.pp = @ \o <<"-D", v>>])
            [] c = "E" -> [st EXCEPT !.last = PREPROCESS]
            [] c = "g" -> st
            [] c = "I" -> WithOperand(st, arg, LAMBDA s, v : [s EXCEPT !.pp = @ \o <<"-I", v>>])
            [] c = "L" -> WithOperand(st, arg, LAMBDA s, v : [s EXCEPT !.ld = @ \o <<"-L", v>>])
            [] c = "l" -> WithOperand(st, arg, LAMBDA s, v :
                            [s EXCEPT !.ins = Append(@, [name |-> v, lib |-> TRUE, ft |-> "OBJ", stages |-> {LINK}])])
            [] c = "M" -> IF arg \in {"-M", "-MM"} THEN [st EXCEPT !.pp = Append(@, arg), !.last = PREPROCESS]
                          ELSE IF arg \in {"-MD", "-MMD"} THEN [st EXCEPT !.pp = Append(@, arg)]
                          ELSE IF arg \in {"-MT", "-MF"} THEN TwoWords(st, arg)
                          ELSE usage(st)
            [] c = "O" -> st
            [] c = "o" -> WithOperand(st, arg, LAMBDA s, v : [s EXCEPT !.out = v])
            [] c = "P" -> [st EXCEPT !.pp = Append(@, "-P")]
            [] c = "S" -> [st EXCEPT !.last = CODEGEN]
            [] c = "s" -> [st EXCEPT !.ld = Append(@, "-s")]
            [] c = "U" -> WithOperand(st, arg, LAMBDA s, v : [s EXCEPT !.pp = @ \o <<"-U", v>>])
            [] c = "v" -> st
            [] c = "W" -> IF Ch(arg, 2) # "" /\ Ch(arg, 3) = ","
                          THEN LET parts == SplitComma(Rest(arg, 4)) IN
                               CASE Ch(arg, 2) = "p" -> [st EXCEPT !.pp = @ \o parts]
                                 [] Ch(arg, 2) = "a" -> [st EXCEPT !.as = @ \o parts]
                                 [] Ch(arg, 2) = "l" -> [st EXCEPT !.ld = @ \o parts]
                                 [] OTHER -> usage(st)
                          ELSE st
            [] c = "x" -> WithOperand(st, arg, LAMBDA s, v :
                            CASE v = "none" -> [s EXCEPT !.ft = "NONE"] [] v = "c" -> [s EXCEPT !.ft = "C"]
                              [] v = "c-header" -> [s EXCEPT !.ft = "CHDR"] [] v = "cpp-output" -> [s EXCEPT !.ft = "CPPOUT"]
                              [] v = "qbe" -> [s EXCEPT !.ft = "QBE"] [] v = "assembler" -> [s EXCEPT !.ft = "ASM"]
                              [] v = "assembler-with-cpp" -> [s EXCEPT !.ft = "ASMPP"] [] OTHER -> usage(s))
            [] OTHER -> usage(st)
      RECURSIVE Loop(_)
      Loop(st) == IF st.res # "loop" THEN st ELSE Loop(Step(st))
      ps == Loop(st0)
      nin == Len(ps.ins)
      cmdOf(stage) == CASE stage = PREPROCESS -> ps.pp [] stage = COMPILE -> ps.cc [] stage = CODEGEN -> ps.qbe
                        [] stage = ASSEMBLE -> ps.as [] stage = LINK -> ps.ld
      (* main() after the loop: which inputs are built, with which stages *)
      built(q) == ps.last \in ps.ins[q].stages /\ ps.ins[q].ft # "OBJ"
      stagesOf(q) == {s \in ps.ins[q].stages : s <= ps.last}              \* &= (1 << last + 1) - 1
      tmpno(q) == Cardinality({r \in 1..q : built(r) /\ LINK \in stagesOf(r)})
      (* buildobj(): output name *)
      outputOf(q) ==
        LET sg == stagesOf(q) IN
        IF LINK \in sg THEN Tmp(tmpno(q))                                  \* mkstemp("/tmp/cproc-XXXXXX")
        ELSE IF ps.out # NULLS THEN (IF ps.out = "-" THEN NULLS ELSE ps.out)
        ELSE IF ASSEMBLE \in sg THEN ChangeExt(ps.ins[q].name, "o")
        ELSE IF CODEGEN \in sg THEN ChangeExt(ps.ins[q].name, "s")
        ELSE IF COMPILE \in sg THEN (IF "EmitQbeFile" \in D THEN ChangeExt(ps.ins[q].name, "qbe") ELSE NULLS)
        ELSE NULLS
      (* buildobj() stage loop + spawnphase() argv assembly *)
      pipeOf(q) ==
        LET sg == stagesOf(q) \ {LINK}
            sq == SetToSortSeq(sg, LAMBDA a, b : a < b)
            name == IF ps.ins[q].name = "-" THEN NULLS ELSE ps.ins[q].name
        IN [j \in 1..Len(sq) |->
              [tool |-> ToolOf(sq[j]),
               argv |-> cmdOf(sq[j])
                        \o (IF j = Len(sq) /\ outputOf(q) # NULLS THEN <<"-o", outputOf(q)>> ELSE <<>>)   \* last && output
                        \o (IF name # NULLS /\ j = 1 THEN <<name>> ELSE <<>>)]]                            \* input && *fd == -1
      bq == SelectSeq([q \in 1..nin |-> q], built)
      pipes == [x \in 1..Len(bq) |-> pipeOf(bq[x])]
      (* inputs[i].name as buildexe() sees it *)
      nameAfter(q) == IF built(q) THEN outputOf(q) ELSE ps.ins[q].name
      listed(q) == IF "HeaderLinked" \in D THEN TRUE ELSE (ps.ins[q].ft = "OBJ" \/ built(q))
      linkcmd == ps.ld \o <<"-o", IF ps.out = NULLS THEN "a.out" ELSE ps.out>>
                 \o (IF ps.nostdlib THEN <<>> ELSE <<"@startfiles">>)
                 \o Flat([q \in 1..nin |-> IF ~listed(q) THEN <<>>
                                           ELSE (IF ps.ins[q].lib THEN <<"-l">> ELSE <<>>) \o <<nameAfter(q)>>])
                 \o (IF ps.nostdlib THEN <<>> ELSE <<"@endfiles">>)
      rm == Flat([q \in 1..nin |-> IF ps.ins[q].ft # "OBJ" /\ listed(q) THEN <<nameAfter(q)>> ELSE <<>>])
  IN
  IF ps.res = "usage" THEN Usage
  ELSE IF ps.res = "ub" THEN Undefined
  ELSE IF nin = 0 THEN Usage
  ELSE IF ps.out # NULLS /\ ps.out = "-" /\ ps.last >= ASSEMBLE THEN Usage
  ELSE IF ps.out # NULLS /\ ps.out # "-" /\ ps.last # LINK /\ nin > 1 THEN Usage
  ELSE [rc |-> 0, pipes |-> pipes,
        link |-> IF ps.last = LINK THEN linkcmd ELSE <<>>,
        rm |-> IF ps.last = LINK THEN rm ELSE <<>>,
        ub |-> FALSE]

(* ------------------------------------------------------------------------------ *)
(* What the stub tools make of an outcome (harness/vstub.c).                         *)
FileText(n) == "[" \o n \o "]"
FS0 == [n \in InitialFiles |-> FileText(n)]
OperandOfO(argv) ==      \* index of the operand of the last -o, or 0
  LET os == {i \in 1..(Len(argv) - 1) : argv[i] = "-o"} IN
  IF os = {} THEN 0 ELSE 1 + CHOOSE i \in os : \A j \in os : j <= i

StubEffects(oc) ==
  LET RunStage(acc, stg) ==        \* acc: [fs, piped, stdin]
        LET av == stg.argv
            oi == OperandOfO(av)
            lastw == av[Len(av)]
            fromfile == Len(av) > 1 /\ Len(av) # oi /\ lastw \in DOMAIN acc.fs
            input == IF fromfile THEN acc.fs[lastw] ELSE acc.piped
            text == stg.tool \o "(" \o input \o ")"
        IN IF oi = 0 THEN [acc EXCEPT !.piped = text]
           ELSE [acc EXCEPT !.piped = "", !.fs = (av[oi] :> text) @@ @]
      RunPipe(acc, pipe) ==
        LET a0 == [fs |-> acc.fs, piped |-> acc.stdin, stdin |-> acc.stdin]
            \* the first stage reads the driver's standard input unless it opens a file
            firstFromFile == LET av == pipe[1].argv IN
                               Len(av) > 1 /\ Len(av) # OperandOfO(av) /\ av[Len(av)] \in DOMAIN acc.fs
            a1 == FoldLeft(RunStage, a0, pipe)
        IN [fs |-> a1.fs, stdout |-> acc.stdout \o a1.piped,
            stdin |-> IF firstFromFile THEN acc.stdin ELSE ""]
      s1 == FoldLeft(RunPipe, [fs |-> FS0, stdout |-> "", stdin |-> "[stdin]"], oc.pipes)
      lk == oc.link
      fs2 == IF lk = <<>> THEN s1.fs
             ELSE LET oi == OperandOfO(lk)
                      objs == SelectSeq([i \in 1..Len(lk) |-> IF i # 1 /\ i # oi /\ lk[i] \in DOMAIN s1.fs THEN s1.fs[lk[i]] ELSE NULLS],
                                        LAMBDA x : x # NULLS)
                  IN (lk[oi] :> ("ld(" \o JoinWith(objs, ",") \o ")")) @@ s1.fs
      fs3 == [n \in (DOMAIN fs2) \ Range(oc.rm) |-> fs2[n]]
      toolruns(t) == LET all == Flat([x \in 1..Len(oc.pipes) |-> oc.pipes[x]]) IN
                     [y \in 1..Len(SelectSeq(all, LAMBDA g : g.tool = t)) |-> SelectSeq(all, LAMBDA g : g.tool = t)[y].argv]
  IN [rc |-> oc.rc,
      runs |-> [cpp |-> toolruns("cpp"), cc |-> toolruns("cc"), qbe |-> toolruns("qbe"), as |-> toolruns("as"),
                ld |-> IF lk = <<>> THEN <<>> ELSE <<lk>>],
      stdout |-> s1.stdout,
      files |-> [n \in {m \in DOMAIN fs3 : m \notin DOMAIN FS0 \/ fs3[m] # FS0[m]} |-> fs3[n]],
      deleted |-> SetToSeq({m \in DOMAIN FS0 : m \notin DOMAIN fs3})]

(* ------------------------------------------------------------------------------ *)
(* Generator: every reachable state is one command line.                            *)
NOpts(its) == Cardinality({i \in 1..Len(its) : its[i].k # "in"})
NIns(its)  == Cardinality({i \in 1..Len(its) : its[i].k = "in"})

Init == items = <<>>
AddItem(it) ==
  /\ IF items = <<>> THEN TRUE ELSE items[Len(items)].k # "dangling"   \* a missing operand is the last word
  /\ IF it.k = "in" THEN NIns(items) < MaxInputs ELSE NOpts(items) < MaxOpts
  /\ it.k = "o" => \A i \in 1..Len(items) : items[i].k # "o"  \* a second -o is outside the documented grammar
  /\ items' = Append(items, it)
Next == \E it \in Opts \cup {In(n) : n \in Names} : AddItem(it)
Spec == Init /\ [][Next]_items

AllDevs == {"ArgcDesync", "OneCharName", "EmitQbeFile", "HeaderLinked"}   \* ArgcDesync, OneCharName, HeaderLinked: fixed in /repo, off in the cfgs

(* Design check: the driver's algorithm, with its known deviations repaired, realises the plan. *)
Inv_Refines == Impl(Render(items), {}) \in Plans(items)

(* The current code is explained: it leaves the plan only where a deviation is responsible,   *)
(* i.e. only where removing the deviations changes its outcome.                              *)
Inv_Explained == LET w == Render(items) IN Impl(w, Devs) \in Plans(items) \/ Impl(w, Devs) # Impl(w, {})

FiredDevs(w) == {d \in Devs : Impl(w, Devs) # Impl(w, Devs \ {d})}

EmitThis == \/ NOpts(items) <= EmitOpts /\ NIns(items) <= EmitInputs
            \/ /\ NIns(items) <= 1
               /\ \A i \in 1..Len(items) : items[i].k = "in" => items[i].name \in EmitNames
Emit ==
  LET w == Render(items)
      cur == Impl(w, Devs)
      acc == Plans(items)
  IN PrintT("VCASE " \o ToJson(
       [argv |-> w,
        accept |-> SetToSeq({StubEffects(p) : p \in acc}),
        devs |-> SetToSeq(IF cur \in acc THEN {} ELSE FiredDevs(w)),
        cur |-> IF cur \in acc THEN <<>> ELSE IF cur.ub THEN <<"undefined">> ELSE <<StubEffects(cur)>>]))
Inv_Emit == EmitThis => Emit

Table == PrintT("VTABLE " \o ToJson([targets |-> TargetTable, files |-> [n \in InitialFiles |-> FileText(n)],
                                      stdin |-> "[stdin]", alldevs |-> SetToSeq(AllDevs)]))
ASSUME Table
=============================================================================
