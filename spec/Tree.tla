------------------------------- MODULE Tree -------------------------------
(* Case index of a switch statement: AVL insertion exactly as /repo/tree.c      *)
(* (treeinsert / balance / rot) and the comparison ladder qbe.c:casesearch emits *)
(* for the resulting tree.  Property C15.                                        *)
(*                                                                               *)
(* Keys are values of a scaled carrier: the implementation keeps 64-bit unsigned *)
(* keys and compares them either in class l (64 bits) or class w (low 32 bits);   *)
(* here the carrier has 2*HalfBits bits and class w looks at the low HalfBits.   *)
(* The harness maps the scaled universe onto real 64-bit values by a map that    *)
(* preserves order of the full value and of the low half (see props/c15.py).     *)
EXTENDS Naturals, Integers, Sequences, FiniteSets, TLC, Json, SequencesExt

CONSTANTS Keys,        \* universe of keys (subset of 0..2^(2*HalfBits)-1)
          MaxN,        \* bound on the number of insertions
          HalfBits,    \* width of class w in the scaled carrier
          AllowDup     \* whether histories may repeat a key

VARIABLES tree, hist, lastnew

vars == <<tree, hist, lastnew>>

Nil == [h |-> 0]
IsNil(t) == t.h = 0
Node(k, l, r, h) == [h |-> h, k |-> k, l |-> l, r |-> r]
Height(t) == t.h

(* ---------------------------------------------------------------------- *)
(* Implementation-shaped insertion.                                        *)
(* Child(t, dir): dir = 0 left, 1 right, as child[key > n->key].           *)
Child(t, dir) == IF dir = 0 THEN t.l ELSE t.r
SetChild(t, dir, c) == IF dir = 0 THEN [t EXCEPT !.l = c] ELSE [t EXCEPT !.r = c]

(* rot(p, x, dir): dir is the deeper side.  Returns [t, d] with d = new height - old height of x *)
Rot(x, dir) ==
  LET y  == Child(x, dir)
      z  == Child(y, 1 - dir)
      hx == x.h
      hz == Height(z)
  IN IF hz > Height(Child(y, dir))
     THEN \* double rotation
          LET x2 == [SetChild(x, dir, Child(z, 1 - dir)) EXCEPT !.h = hz]
              y2 == [SetChild(y, 1 - dir, Child(z, dir)) EXCEPT !.h = hz]
              z2 == [SetChild(SetChild(z, 1 - dir, x2), dir, y2) EXCEPT !.h = hz + 1]
          IN [t |-> z2, d |-> (hz + 1) - hx]
     ELSE \* single rotation
          LET x2 == [SetChild(x, dir, z) EXCEPT !.h = hz + 1]
              y2 == [SetChild(y, 1 - dir, x2) EXCEPT !.h = hz + 2]
          IN [t |-> y2, d |-> (hz + 2) - hx]

(* balance(p): h0 - h1 + 1u < 3u  <=>  |h0 - h1| <= 1 *)
Balance(n) ==
  LET h0 == Height(n.l)
      h1 == Height(n.r)
  IN IF (h0 - h1 + 1 >= 0) /\ (h0 - h1 + 1 < 3)
     THEN LET nh == IF h0 < h1 THEN h1 + 1 ELSE h0 + 1
          IN [t |-> [n EXCEPT !.h = nh], d |-> nh - n.h]
     ELSE Rot(n, IF h0 < h1 THEN 1 ELSE 0)

(* treeinsert: descend recording the path, place the node, then rebalance the   *)
(* ancestors bottom-up and stop at the first one whose height did not change.   *)
RECURSIVE Ins(_, _)
Ins(t, k) ==
  IF IsNil(t) THEN [t |-> Node(k, Nil, Nil, 1), d |-> 1, new |-> TRUE, depth |-> 1]
  ELSE IF k = t.k THEN [t |-> t, d |-> 0, new |-> FALSE, depth |-> 1]
  ELSE LET dir == IF k > t.k THEN 1 ELSE 0
           sub == Ins(Child(t, dir), k)
           t1  == SetChild(t, dir, sub.t)
       IN IF sub.d = 0
          THEN [t |-> t1, d |-> 0, new |-> sub.new, depth |-> sub.depth + 1]
          ELSE LET b == Balance(t1)
               IN [t |-> b.t, d |-> b.d, new |-> sub.new, depth |-> sub.depth + 1]

(* ---------------------------------------------------------------------- *)
(* Declarative side.                                                       *)
RECURSIVE KeySet(_), TrueHeight(_), IsBST(_, _, _), Balanced(_), HeightsExact(_), Size(_)
KeySet(t) == IF IsNil(t) THEN {} ELSE {t.k} \cup KeySet(t.l) \cup KeySet(t.r)
Size(t) == IF IsNil(t) THEN 0 ELSE 1 + Size(t.l) + Size(t.r)
Max2(a, b) == IF a < b THEN b ELSE a
TrueHeight(t) == IF IsNil(t) THEN 0 ELSE 1 + Max2(TrueHeight(t.l), TrueHeight(t.r))
IsBST(t, lo, hi) ==   \* all keys strictly between lo and hi (unsigned order of the carrier)
  IsNil(t) \/ (lo < t.k /\ t.k < hi /\ IsBST(t.l, lo, t.k) /\ IsBST(t.r, t.k, hi))
Balanced(t) ==
  IsNil(t) \/ ((LET d == TrueHeight(t.l) - TrueHeight(t.r) IN d >= -1 /\ d <= 1) /\ Balanced(t.l) /\ Balanced(t.r))
HeightsExact(t) == IsNil(t) \/ (t.h = TrueHeight(t) /\ HeightsExact(t.l) /\ HeightsExact(t.r))

(* minimal number of nodes of an AVL tree of height h: N(0)=0, N(1)=1, N(h)=N(h-1)+N(h-2)+1 *)
RECURSIVE MinNodes(_)
MinNodes(h) == IF h = 0 THEN 0 ELSE IF h = 1 THEN 1 ELSE MinNodes(h - 1) + MinNodes(h - 2) + 1

(* ---------------------------------------------------------------------- *)
(* The comparison ladder of casesearch, interpreted on a probe value.       *)
(* class "l": compare full carrier; class "w": compare low HalfBits.        *)
Mod == 2 ^ HalfBits
Full == Mod * Mod
Proj(class, v) == IF class = "w" THEN v % Mod ELSE v
RECURSIVE Ladder(_, _, _)
Ladder(t, class, v) ==    \* returns the key whose body is jumped to, or -1 for the default label
  IF IsNil(t) THEN -1
  ELSE IF Proj(class, v) = Proj(class, t.k) THEN t.k                 \* ceq -> jnz body
  ELSE IF Proj(class, v) < Proj(class, t.k) THEN Ladder(t.l, class, v)   \* cult -> switch_lt
  ELSE Ladder(t.r, class, v)                                           \* switch_gt

(* A key set is admissible for a controlling type: every key is the carrier     *)
(* representation of a value of that type (what intconstexpr yields for a value *)
(* in range of the promoted controlling type).                                  *)
SExt(x) == IF x >= Mod \div 2 THEN x + (Full - Mod) ELSE x    \* sign-extend low half to carrier
TypeVals(ty) ==
  CASE ty = "int"   -> {SExt(x) : x \in 0..Mod-1}
    [] ty = "uint"  -> 0..Mod-1
    [] ty = "long"  -> 0..Full-1
    [] ty = "ulong" -> 0..Full-1
ClassOf(ty) == IF ty \in {"int", "uint"} THEN "w" ELSE "l"
Types == {"int", "uint", "long", "ulong"}

LadderCorrect(t) ==
  LET ks == KeySet(t) IN
  \A ty \in Types :
    LET tv == TypeVals(ty)
        cl == ClassOf(ty) IN
    ks \subseteq tv =>
      \A v \in tv :
        \* in class w the upper half of the probe temporary is unspecified: try 0s and 1s
        \A pv \in (IF cl = "w" THEN {v % Mod, (v % Mod) + (Full - Mod)} ELSE {v}) :
          Ladder(t, cl, pv) = (IF v \in ks THEN v ELSE -1)

(* ---------------------------------------------------------------------- *)
Init == tree = Nil /\ hist = <<>> /\ lastnew = TRUE

Insert(k) ==
  /\ Len(hist) < MaxN
  /\ AllowDup \/ k \notin KeySet(tree)
  /\ LET r == Ins(tree, k) IN
       /\ tree' = r.t
       /\ lastnew' = r.new
  /\ hist' = Append(hist, k)

Next == \E k \in Keys : Insert(k)

Spec == Init /\ [][Next]_vars

(* ---------------------------------------------------------------------- *)
Inv_BST == IsBST(tree, -1, Full)
Inv_Balanced == Balanced(tree)
Inv_Heights == HeightsExact(tree)
Inv_Set == KeySet(tree) = {hist[i] : i \in 1..Len(hist)} /\ Size(tree) = Cardinality(KeySet(tree))
Inv_New == hist # <<>> =>
  (lastnew <=> hist[Len(hist)] \notin {hist[i] : i \in 1..Len(hist)-1})
Inv_Log == Size(tree) >= MinNodes(tree.h)          \* height <= ~1.44 log2(n+2)
Inv_PathFits == tree.h + 1 <= 96                    \* MAXH = 64*3/2 slots in treeinsert's path array
Inv_Ladder == LadderCorrect(tree)

(* ---------------------------------------------------------------------- *)
(* Behaviour emission for flow A: every state prints its history, its shape and *)
(* the shape after inserting each key of the universe (every transition).       *)
RECURSIVE Pre(_)
Pre(t) == IF IsNil(t) THEN <<-1>> ELSE <<t.k, t.h>> \o Pre(t.l) \o Pre(t.r)

SuccOf(k) == LET r == Ins(tree, k) IN [k |-> k, new |-> r.new, shape |-> Pre(r.t)]
KeySeq == SetToSortSeq(Keys, LAMBDA a, b : a < b)
Emit ==
  PrintT("VCASE " \o ToJson([hist |-> hist, shape |-> Pre(tree),
                             succ |-> [i \in 1..Cardinality(Keys) |-> SuccOf(KeySeq[i])]]))

Inv_Emit == Emit

View == tree
=============================================================================
