SPECIFICATION ASpec
CONSTANTS
  Mode = "mc"
  MaxLen = 3
  MaxPool = 1
  MaxSize = 64
  Raise = FALSE
  Devs = {}
  Widths = {0, 1, 7, 8, 9, 31, 32, 33, 63, 64}
  Emit = FALSE
  CharSigned = TRUE
  EUSuffixed = {}
  GenClasses = {"scalar", "array", "bitfield", "nested", "anon", "alignas", "flex"}
  GenPacked = TRUE
  McSel = "full"
  CheckSim = FALSE
  MaxParams = 0
  AbiDevs = {}
  MaxExtra = 0
INVARIANTS Inv_Descr
CHECK_DEADLOCK FALSE
