SPECIFICATION Spec
CONSTANTS
  MaxOpts = 3
  MaxInputs = 1
  Alphabet = "core"
  EmitOpts = 2
  EmitNames = {"a.c"}
  EmitInputs = 1
  Devs = {"EmitQbeFile"}
INVARIANTS Inv_Refines Inv_Explained Inv_Emit
CHECK_DEADLOCK FALSE
