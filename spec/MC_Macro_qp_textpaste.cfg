\* historical record: with the former -E loop (blank only where the source had one, deviation TextPaste) the printed text
\* does not re-scan to the delivered tokens: Inv_Text is violated (expected: TLC exit 12)
SPECIFICATION Spec
CONSTANTS
  Devs = {"TextPaste"}
  Space = "qp"
  Modes = {"E"}
  EmitCases = FALSE
  PeekBudget = 0
INVARIANTS Inv_Text
CHECK_DEADLOCK FALSE
