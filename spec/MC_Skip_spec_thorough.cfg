SPECIFICATION Spec
CONSTANTS
  MaxLen = 5
  Loops = {"attr", "gnuattr", "margs", "pragma", "define", "cppc", "cc", "str"}
  Dev_AttrSkipNoEOF = FALSE
INVARIANTS Refines Inv_Emit
PROPERTIES Terminates
CHECK_DEADLOCK FALSE
