------------------------------ MODULE CTypesMC ------------------------------
(* Exhaustive check and behaviour generator for the arithmetic part of C05:   *)
(*   {operators} x {arithmetic types, enum flavours, bit-fields}^2 x targets,  *)
(*   unary operators, conditional operator, integer/floating/character         *)
(*   constants.                                                                *)
(* One initial state per case; one action per code site of expr.c (the switch  *)
(* groups of mkbinaryexpr, condexpr, the unaryexpr cases, inttype, character    *)
(* constants).  A done state carries                                            *)
(*   exp  - the type CTypes (C11) assigns,                                      *)
(*   fix  - the type the repaired implementation model assigns (D = {}),        *)
(*   mod  - the type the model of the shipped code assigns (D = Devs).          *)
(* Invariants: fix = exp (refinement of the declarative rules by the           *)
(* algorithm), and mod # exp only where a named deviation fires.  Every done    *)
(* state is printed as a VCASE line and replayed into cproc (props/c05.py).     *)
EXTENDS TypeModel, Json, SequencesExt

CONSTANTS TargetSet,     \* subset of Targets
          Widths,        \* bit-field widths
          BFKinds,       \* declared basic kinds that get bit-field operands
          EnumOps,       \* enum tags used as operands
          EnumBFs,       \* enum tags that get bit-field operands
          Devs,          \* deviations of the shipped code (subset of AllDevs)
          CondCVs,       \* controlling expressions of ?: (subset of the elements of CTypes.CondControls)
          Forms,         \* which case families to enumerate
          Emit           \* BOOLEAN: print VCASE lines

VARIABLES c, r
vars == <<c, r>>

(* ---------------------------------------------------------------------- *)
(* Operands: [t |-> type, w |-> bit-field width or 0]                       *)
ScalarOperands == {[t |-> B(k), w |-> 0] : k \in BasicKinds} \cup {[t |-> En(e), w |-> 0] : e \in EnumOps}
BFWidthOK(k, w) == IF k = "bool" THEN w = 1 ELSE w <= 8 * KindSize(k)
BFOperands == {[t |-> B(k), w |-> w] : <<k, w>> \in {kw \in BFKinds \X Widths : BFWidthOK(kw[1], kw[2])}}
              \cup {[t |-> En(e), w |-> w] : <<e, w>> \in {ew \in EnumBFs \X Widths : BFWidthOK(EnumBase(ew[1]), ew[2])}}
Operands == ScalarOperands \cup BFOperands
IntOperands == {o \in Operands : IsInt(o.t)}

AsX(o) == X(o.t, o.w, TRUE, FALSE)
OName(o) == IF o.w = 0 THEN Name(o.t) ELSE Name(o.t) \o ":" \o ToString(o.w)

ASSUME CondCVs \subseteq {CondControls[i] : i \in 1..Len(CondControls)}
LitBases == {"dec", "oct", "hex", "bin"}
LitSuffixes == {"", "u", "l", "ul", "ll", "ull"}
LitBits == {0, 1, 7, 8, 15, 16, 31, 32, 33, 63, 64}
UnOps == {"+", "-", "~", "!", "sizeof"}

Cases ==
     (IF "bin" \in Forms THEN [form : {"bin"}, targ : TargetSet, a : Operands, b : Operands] ELSE {})
\cup (IF "cond" \in Forms THEN [form : {"cond"}, targ : TargetSet, a : Operands, b : Operands, cv : CondCVs] ELSE {})
\cup (IF "un" \in Forms THEN [form : {"un"}, targ : TargetSet, a : Operands] ELSE {})
\cup (IF "lit" \in Forms THEN [form : {"lit"}, targ : TargetSet, base : LitBases, suffix : LitSuffixes, nbits : LitBits] ELSE {})
\cup (IF "flt" \in Forms THEN [form : {"flt"}, targ : TargetSet, suffix : {"", "f", "l"}] ELSE {})
\cup (IF "chr" \in Forms THEN [form : {"chr"}, targ : TargetSet, prefix : {"", "L", "u", "U", "u8"}] ELSE {})

NotDone == [done |-> FALSE]
Init == c \in Cases /\ r = NotDone

(* deviations that change the outcome of this case *)
Fired(f(_)) == IF f(Devs) = f({}) THEN {} ELSE {d \in Devs : f({d}) # f({})}

(* certain = the required outcome is fixed by C11 (or, for wide enums, by C23 and both reference compilers) *)
WideEnumOperand(o) == IsWideEnum(o.t)

(* szrej[i]: the i-th rendering of the case (see props/c05.py expr_texts) is refused as a sizeof operand by the *)
(* shipped code although it does not designate a bit-field (deviation SizeofSeesBitfield)                       *)
Done(site, ops, exp, fix, mod, br, devs, certain, szrej) ==
  r' = [done |-> TRUE, site |-> site, ops |-> ops, exp |-> exp, fix |-> fix, mod |-> mod, br |-> br,
        devs |-> devs, certain |-> certain, szrej |-> szrej]

(* ---- mkbinaryexpr, one action per switch group --------------------------- *)
BinAct(g) ==
  /\ c.form = "bin" /\ ~r.done
  /\ LET x == AsX(c.a)
         y == AsX(c.b)
         ops == M_GroupOps(g)
         exp == TypeOfBinary(ops[1], x, y, c.targ)
         f(D) == M_mkbinaryexpr(g, x, y, c.targ, D)
         \* a wide enum as the promoted left operand of a shift is not decided (see CTypes.IsWideEnum)
         certain == ~(g = "shift" /\ WideEnumOperand(c.a))
     IN /\ \A i \in 1..Len(ops) : TypeOfBinary(ops[i], x, y, c.targ) = exp      \* one result per switch group
        /\ Done(g, ops, exp, f({}).t, f(Devs).t, f(Devs).br, Fired(LAMBDA D : f(D).t), certain, <<FALSE>>)
  /\ UNCHANGED c
A_Logical == BinAct("logical")
A_Equality == BinAct("equality")
A_Relational == BinAct("relational")
A_Bitwise == BinAct("bitwise")
A_Add == BinAct("add")
A_Sub == BinAct("sub")
A_Mod == BinAct("mod")
A_MulDiv == BinAct("muldiv")
A_Shift == BinAct("shift")

(* ---- condexpr -------------------------------------------------------------- *)
(* cv: the controlling expression (CTypes.CondControls): a variable ("x") or a constant (the node is then folded) *)
A_Cond ==
  /\ c.form = "cond" /\ ~r.done
  /\ LET x == AsX(c.a)
         y == AsX(c.b)
         f(D) == IF c.cv = "x" THEN M_condexpr(x, y, c.targ, D) ELSE M_condexpr_folded(x, y, CondSelectsFirst(c.cv), c.targ, D)
         ch == IF CondSelectsFirst(c.cv) THEN x ELSE y
     IN Done("cond", <<"?:">>, TypeOfCond(x, y, c.targ), f({}).t, f(Devs).t, f(Devs).br, Fired(LAMBDA D : f(D).t), TRUE,
             <<c.cv # "x" /\ M_sizeof_refuses(ch, M_condexpr(x, y, c.targ, Devs).t, Devs)>>)
  /\ UNCHANGED c

(* ---- unaryexpr -------------------------------------------------------------- *)
UnAct(op) ==
  /\ c.form = "un" /\ ~r.done
  /\ LET x == AsX(c.a)
         f(D) == M_unaryexpr(op, x, c.targ, D)
         certain == ~(op \in {"+", "-", "~"} /\ WideEnumOperand(c.a))
         \* unary + is exprpromote() alone; - ~ ! build a new node
     IN Done("unary", <<op>>, TypeOfUnary(op, x, c.targ), f({}), f(Devs), "-", Fired(f), certain,
             <<op = "+" /\ M_sizeof_refuses(x, f(Devs), Devs)>>)
  /\ UNCHANGED c
A_UnaryPlus == UnAct("+")
A_UnaryMinus == UnAct("-")
A_BitNot == UnAct("~")
A_LogNot == UnAct("!")
A_Sizeof == UnAct("sizeof")

(* ---- constants ---------------------------------------------------------------- *)
KindOrErr(k) == IF k = "none" THEN Err ELSE B(k)
A_IntLit ==
  /\ c.form = "lit" /\ ~r.done
  /\ LET exp == KindOrErr(TypeOfLit(c.base, c.suffix, c.nbits, c.targ))
         m == KindOrErr(M_inttype(c.nbits, c.base = "dec", c.suffix, c.targ))
         \* a constant that fits no type of its list has no type in C11 (6.4.4.1p6): outcome not required
     IN Done("inttype", <<"lit">>, exp, m, m, "-", {}, ~IsErr(exp), <<FALSE>>)
  /\ UNCHANGED c
A_FloatLit ==
  /\ c.form = "flt" /\ ~r.done
  /\ LET t == B(TypeOfFloatLit(c.suffix)) IN Done("fltlit", <<"flt">>, t, t, t, "-", {}, TRUE, <<FALSE>>)
  /\ UNCHANGED c
A_CharConst ==
  /\ c.form = "chr" /\ ~r.done
  /\ LET m == B(M_charconsttype(c.prefix, c.targ))
     IN Done("charconst", <<"chr">>, B(TypeOfCharConst(c.prefix, c.targ)), m, m, "-", {}, TRUE, <<FALSE>>)
  /\ UNCHANGED c

Next == \/ A_Logical \/ A_Equality \/ A_Relational \/ A_Bitwise \/ A_Add \/ A_Sub \/ A_Mod \/ A_MulDiv \/ A_Shift
        \/ A_Cond \/ A_UnaryPlus \/ A_UnaryMinus \/ A_BitNot \/ A_LogNot \/ A_Sizeof
        \/ A_IntLit \/ A_FloatLit \/ A_CharConst
Spec == Init /\ [][Next]_vars

(* ---------------------------------------------------------------------- *)
(* Design-level properties                                                  *)
Inv_Refines == (r.done /\ r.certain) => r.fix = r.exp                      \* repaired algorithm = C11
Inv_DevsExplain == (r.done /\ r.certain) => ((r.mod # r.exp) => (r.devs # {}))    \* shipped algorithm differs only where a deviation fires
Inv_NoFatal == r.done => r.br # "fatal"                     \* typecommonreal's fatal() is unreachable
(* sanity of the declarative rules themselves *)
Inv_UacSymmetric ==
  (c.form = "bin") =>
    UAC(c.a.t, c.a.w, c.b.t, c.b.w, c.targ) = UAC(c.b.t, c.b.w, c.a.t, c.a.w, c.targ)
Inv_UacHoldsBoth ==      \* the common type can represent the promoted range of an operand of equal signedness
  (c.form = "bin" /\ IsInt(c.a.t) /\ IsInt(c.b.t)) =>
    LET u == UAC(c.a.t, c.a.w, c.b.t, c.b.w, c.targ)
        pa == EnumToUnderlying(Promote(c.a.t, c.a.w, c.targ))
    IN /\ Rank(u) >= Rank(pa)
       /\ Rank(u) >= KindRank("int")
       /\ (Signed(u, c.targ) => (Signed(pa, c.targ) \/ ValueBits(u, 0, c.targ) >= ValueBits(pa, 0, c.targ)))
Inv_PromoteIdempotent ==
  (c.form = "un" /\ IsInt(c.a.t)) =>
    LET p == Promote(c.a.t, c.a.w, c.targ) IN
    /\ Promote(p, 0, c.targ) = p
    /\ ValueBits(c.a.t, c.a.w, c.targ) <= ValueBits(p, 0, c.targ)      \* value preserving
    /\ (Signed(c.a.t, c.targ) => Signed(p, c.targ))

(* ---------------------------------------------------------------------- *)
(* Emission                                                                 *)
(* what the probes of props/c05.py observe for an expression of type T: the generic  *)
(* selection over G1 (all basic arithmetic types) and G2 (one enum per compatible type), *)
(* compatibility with the twin enums, size, and incompatible types of the same size.     *)
ObsTypes == {B(k) : k \in BasicKinds} \cup {En(e) : e \in ProbeEnumTags}
ObsOf(t) ==
  [name |-> Name(t),
   g1 |-> GenericSel(t, G1Types),
   g2 |-> GenericSel(t, G2Types),
   tw |-> [i \in 1..Len(Twins) |-> Compatible(t, En(Twins[i]))],
   size |-> SizeOf(t),
   near |-> SetToSeq({k \in BasicKinds : ~Compatible(t, B(k)) /\ KindSize(k) = SizeOf(t)})]
ASSUME Emit => PrintT("VCASE " \o ToJson(
  [form |-> "table", g1 |-> G1, g2 |-> G2, twins |-> Twins,
   enumbase |-> [e \in ProbeEnumTags |-> EnumBase(e)],
   groups |-> [i \in 1..Len(M_BinGroups) |-> [g |-> M_BinGroups[i], ops |-> M_GroupOps(M_BinGroups[i])]],
   obs |-> SetToSeq({ObsOf(t) : t \in ObsTypes})]))

CaseJson ==
  [form |-> c.form, targ |-> c.targ, site |-> r.site, ops |-> r.ops,
   exp |-> Name(r.exp), mod |-> Name(r.mod), br |-> r.br,
   devs |-> SetToSeq(r.devs), certain |-> r.certain, szrej |-> r.szrej]
  @@ (IF c.form = "cond" THEN [cv |-> c.cv] ELSE <<>>)
  @@ (IF c.form \in {"bin", "cond"} THEN [a |-> Name(c.a.t), aw |-> c.a.w, b |-> Name(c.b.t), bw |-> c.b.w,
                                             ibf |-> BitfieldIsImplDefined(c.a.t, c.a.w) \/ BitfieldIsImplDefined(c.b.t, c.b.w)]
      ELSE IF c.form = "un" THEN [a |-> Name(c.a.t), aw |-> c.a.w, ibf |-> BitfieldIsImplDefined(c.a.t, c.a.w)]
      ELSE IF c.form = "lit" THEN [base |-> c.base, suffix |-> c.suffix, nbits |-> c.nbits]
      ELSE IF c.form = "flt" THEN [suffix |-> c.suffix]
      ELSE [prefix |-> c.prefix])
Inv_Emit == (Emit /\ r.done /\ ~(IsErr(r.exp) /\ IsErr(r.mod))) => PrintT("VCASE " \o ToJson(CaseJson))
=============================================================================
