SPECIFICATION Spec
CONSTANTS
  MaxDepth = 3
  Kinds = {"K", "V", "P"}
INVARIANTS TypeOK Inv_Class Inv_Emit
CHECK_DEADLOCK FALSE
