\* design-level: peek()'s one-token push-back is transparent (consumer may push back up to 2 tokens anywhere)
SPECIFICATION Spec
CONSTANTS
  Devs <- NoDevs
  Space = "t0"
  Modes = {"C"}
  EmitCases = FALSE
  PeekBudget = 2
INVARIANTS Inv_Ctx Inv_End Inv_Conform
PROPERTIES Prop_Disc
CHECK_DEADLOCK FALSE
