SPECIFICATION Spec
CONSTANTS
  NP = 2
  Types <- TypesQuick
  Rets <- RetsQuick
  Shapes <- ShapesQuick
INVARIANT Emit
CHECK_DEADLOCK FALSE
