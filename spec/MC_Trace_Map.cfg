SPECIFICATION Spec
CONSTANTS
  StrictGrowth = TRUE
POSTCONDITION TraceAccepted
CHECK_DEADLOCK FALSE
