SPECIFICATION QSpec
INVARIANT QEmit
CHECK_DEADLOCK FALSE
