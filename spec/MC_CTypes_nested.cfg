\* C05: random nested expressions (run with -simulate num=N -depth D)
SPECIFICATION Spec
CONSTANTS
  TargetSet = {"x86_64-sysv", "aarch64", "riscv64"}
  MaxDepth = 4
  Devs = {"CondSameTypeNoConversion", "CompositeIsFirst", "UacKeepsWideEnum", "SizeofSeesBitfield", "ConvertKeepsCompatible", "ArrayQualOnArrayType", "DerefDecayedArrayDropsQual"}
  Emit = TRUE
INVARIANTS Inv_Emit Inv_DevsExplain
CHECK_DEADLOCK FALSE
