\* C05: random nested expressions (run with -simulate num=N -depth D)
\* Devs: deviations of the shipped code still open. Fixed in /repo and therefore removed (a regression is a VIOLATION):
\* CondSameTypeNoConversion (ba99903), ConvertKeepsCompatible + SizeofSeesBitfield (4c7c95a), DerefDecayedArrayDropsQual (13d3f3d),
\* UacKeepsWideEnum (60245bf)
SPECIFICATION Spec
CONSTANTS
  TargetSet = {"x86_64-sysv", "aarch64", "riscv64"}
  MaxDepth = 4
  Devs = {"CompositeIsFirst", "ArrayQualOnArrayType", "FoldedCondKeepsDecay", "FoldedNullVoidPtrIsNpc"}
  Emit = TRUE
INVARIANTS Inv_Emit Inv_DevsExplain
CHECK_DEADLOCK FALSE
