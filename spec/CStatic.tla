------------------------------- MODULE CStatic -------------------------------
(* Property C10 - constraint violations and unsupported features are diagnosed.   *)
(*                                                                               *)
(* Static semantics (C11 "Constraints" + the checks cproc documents) of MiniC     *)
(* programs.  A MiniC program is a record                                         *)
(*     P = [base |-> b, slots |-> [Positions -> fragment or None]]                *)
(* b names one of the base skeletons of CSFrags!BaseTab (all of them valid);      *)
(* a fragment (CSFrags) is a record of semantic attributes.                       *)
(*   Bad(b, p, f)    one boolean per NAMED rule: fragment f placed at position p   *)
(*                   of base b violates that rule                                  *)
(*   R_xxx(P)        the named rules (no filled slot violates xxx)                  *)
(*   Valid(P)        conjunction of all named rules                                 *)
(*   Unsupported(P)  P is valid C but uses a feature cproc documents as missing     *)
(* Generator actions Violate_R_xxx(pos) / Use_U_xxx(pos) / Benign(pos) fill a slot   *)
(* of the valid base with a hand-chosen witness fragment and *claim* its class;     *)
(* Inv_Claim makes TLC check that the post-state violates exactly the claimed rule  *)
(* and no other (catalogue honesty).  Compose(pos) fills the slot with any           *)
(* fragment of the universe; its class is whatever the rules compute.               *)
(* Every state is emitted as a VCASE line and compiled by the real cproc-qbe.        *)
EXTENDS CSFrags, Json

CONSTANTS BaseIds,     \* bases explored by this configuration (subset of AllBases)
          PosSet,      \* positions explored (subset of Positions)
          Mode,        \* subset of {"witness", "benign", "compose"}
          Forms        \* forms explored by Compose ({} = all)

VARIABLES prog, claim
vars == <<prog, claim>>

(* ------------------------------------------------------------------------------ *)
(* helpers                                                                          *)
Cnt(s, k) == Cardinality({i \in DOMAIN s : s[i] = k})
SeqSet(s) == {s[i] : i \in DOMAIN s}
Chk(n, c) == IF c THEN {n} ELSE {}

(* operands (entity names) an expression-like fragment mentions *)
Ops(f) ==
  CASE f.form = "use" -> {f.n}
    [] f.form \in {"bin", "asg"} -> {f.l, f.r}
    [] f.form = "un" -> {f.a}
    [] f.form = "call" -> {f.fn} \cup SeqSet(f.args)
    [] f.form = "mem" -> {f.a}
    [] f.form = "idx" -> {f.a, f.i}
    [] f.form = "cast" -> {f.a}
    [] f.form = "cond" -> {f.c, f.a, f.b}
    [] f.form = "sinit" -> {f.o}
    [] f.form = "vaarg" -> {f.a}
    [] f.form = "generic" -> {f.c} \cup (IF "vla" \in SeqSet(f.assoc) THEN {"li"} ELSE {})
    [] f.form = "builtin" -> IF f.ap THEN {"ap"} ELSE {}
    [] f.form = "cinit" -> (IF f.of.form = "bin" THEN {f.of.l, f.of.r} ELSE {f.of.c, f.of.a, f.of.b})
    [] f.form = "struct" -> IF \E i \in DOMAIN f.mem : f.mem[i].ty = "vla" THEN {"li"} ELSE {}
    [] f.form = "misc" -> IF f.kind \in {"vla_init", "vla2_init", "vla_ok", "static_init_addr_local"} THEN {"li"} ELSE {}
    [] f.form = "ctl" -> {f.c}
    [] f.form = "stmt" /\ f.kind = "return" /\ f.v # "none" -> {f.v}
    [] OTHER -> {}

(* 6.5.1p2: an identifier that is a primary expression must be declared and visible *)
Undecl(b, p, f) == \E n \in Ops(f) :
   \/ n = "nope"
   \/ n = "ap" /\ ~(BaseTab[b].var /\ p # "file")
   \/ n \in EntNames /\ Ent(n).loc /\ p = "file"
Typed(b, p, f) == ~Undecl(b, p, f)

(* ---- binary operators, 6.5.5 - 6.5.14 ------------------------------------------- *)
BinOK(op, l, r) == LET a == VT(l)  c == VT(r) IN
  CASE op \in {"*", "/"} -> IsArith(a) /\ IsArith(c)
    [] op \in {"%", "<<", ">>", "&", "^", "|"} -> IsInt(a) /\ IsInt(c)
    [] op = "+" -> \/ IsArith(a) /\ IsArith(c)
                   \/ IsObjPtr(a) /\ IsInt(c)
                   \/ IsInt(a) /\ IsObjPtr(c)
    [] op = "-" -> \/ IsArith(a) /\ IsArith(c)
                   \/ IsObjPtr(a) /\ IsInt(c)
                   \/ IsObjPtr(a) /\ IsObjPtr(c) /\ PteeCompat(a, c)
    [] op \in {"<", ">", "<=", ">="} ->
                   \/ IsArith(a) /\ IsArith(c)
                   \/ IsPtr(a) /\ IsPtr(c) /\ PteeCompat(a, c) /\ ~IsFnPtr(a)
    [] op \in {"==", "!="} ->
                   \/ IsArith(a) /\ IsArith(c)
                   \/ IsPtr(a) /\ IsNullConst(r)
                   \/ IsNullConst(l) /\ IsPtr(c)
                   \/ /\ IsPtr(a) /\ IsPtr(c)
                      /\ \/ PteeCompat(a, c)
                         \/ IsVoidPtr(a) /\ ~IsFnPtr(c)
                         \/ IsVoidPtr(c) /\ ~IsFnPtr(a)
    [] op \in {"&&", "||"} -> IsScalar(a) /\ IsScalar(c)
    [] OTHER -> FALSE

IncDec == {"preinc", "postinc", "predec"}
CompoundOK(op, lt, r) == LET c == VT(r) IN
  CASE op \in {"+=", "-="} -> (IsArith(lt) /\ IsArith(c)) \/ (IsObjPtr(lt) /\ IsInt(c))
    [] op = "*=" -> IsArith(lt) /\ IsArith(c)
    [] op \in {"%=", "<<=", "&="} -> IsInt(lt) /\ IsInt(c)
    [] OTHER -> FALSE

(* class of a failed "may be assigned" check *)
PtrMismatch(lt, o) == ~AssignOK(lt, o) /\ IsPtr(lt) /\ (IsPtr(VT(o)) \/ IsInt(VT(o)))
OtherMismatch(lt, o) == ~AssignOK(lt, o) /\ ~PtrMismatch(lt, o)

(* the (target type, operand) pairs a fragment subjects to 6.5.16.1p1 *)
ArityOK(ft, n) == IF Variadic(ft) THEN n >= Len(Params(ft)) ELSE n = Len(Params(ft))
AssignPairs(b, p, f) ==
  CASE f.form = "asg" /\ f.op = "=" /\ Ent(f.l).lv /\ ~IsArrayObj(f.l) -> {<<Ent(f.l).ty, f.r>>}
    [] f.form = "sinit" -> {<<f.ty, f.o>>}
    [] f.form = "call" /\ IsFnPtr(VT(f.fn)) /\ ArityOK(Pointee(VT(f.fn)), Len(f.args)) ->
         {<<Params(Pointee(VT(f.fn)))[i], f.args[i]>> : i \in DOMAIN Params(Pointee(VT(f.fn)))}
    [] f.form = "stmt" /\ f.kind = "return" /\ f.v # "none" /\ BaseTab[b].ret # "void" -> {<<BaseTab[b].ret, f.v>>}
    [] f.form = "strinit" /\ f.tgt = "charp" -> {<<"ptr_char", IF f.lit = "narrow" THEN "ks" ELSE "gp">>}
    [] OTHER -> {}

CondArmsOK(x, y) == LET a == VT(x)  c == VT(y) IN
  \/ IsArith(a) /\ IsArith(c)
  \/ IsStructT(a) /\ a = c
  \/ IsPtr(a) /\ IsNullConst(y)
  \/ IsNullConst(x) /\ IsPtr(c)
  \/ IsPtr(a) /\ IsPtr(c) /\ (PteeCompat(a, c) \/ (IsVoidPtr(a) /\ ~IsFnPtr(c)) \/ (IsVoidPtr(c) /\ ~IsFnPtr(a)))

(* ---- declaration specifiers, 6.7.2p2 ---------------------------------------------- *)
TypeSpecKw == {"void", "char", "short", "int", "long", "float", "double", "signed", "unsigned", "_Bool", "_Complex", "struct_S", "td_t"}
NotC11Kw   == {"_BitInt", "_Decimal32", "_Decimal64", "_Decimal128", "constexpr"}
TS(kw) == SelectSeq(kw, LAMBDA k : k \in TypeSpecKw)
SpecOK(kw) == LET ts == TS(kw)  n == Len(ts)  c(k) == Cnt(ts, k)  sg == c("signed") + c("unsigned") IN
  \/ n = 1 /\ (c("void") = 1 \/ c("_Bool") = 1 \/ c("struct_S") = 1 \/ c("td_t") = 1)
  \/ c("char") = 1 /\ sg <= 1 /\ n = 1 + sg
  \/ c("short") = 1 /\ c("int") <= 1 /\ sg <= 1 /\ n = 1 + c("int") + sg
  \/ c("int") <= 1 /\ sg <= 1 /\ c("int") + sg >= 1 /\ n = c("int") + sg
  \/ c("long") \in {1, 2} /\ c("int") <= 1 /\ sg <= 1 /\ n = c("long") + c("int") + sg
  \/ c("float") = 1 /\ c("_Complex") <= 1 /\ n = 1 + c("_Complex")
  \/ c("double") = 1 /\ c("long") <= 1 /\ c("_Complex") <= 1 /\ n = 1 + c("long") + c("_Complex")

(* storage-class specifiers, 6.7.1p2 *)
ScOK(sc) == \/ Len(sc) <= 1
            \/ Len(sc) = 2 /\ sc[1] # sc[2] /\ "_Thread_local" \in SeqSet(sc) /\ SeqSet(sc) \cap {"static", "extern"} # {}

Pow2 == {1, 2, 4, 8, 16, 32}
AlignOfOn(on) == IF on = "double" THEN 8 ELSE 4
BitsOf(t) == IF t = "bool" THEN 1 ELSE 32

(* initializer lists (simplified 6.7.9): capacity in scalars of the target, first index designated *)
InitCap(t) == CASE t = "int" -> 1 [] t = "arr2" -> 2 [] t = "struct_T" -> 1 [] t = "struct_S" -> 2 [] OTHER -> 99
InitIsArr(t) == t \in {"arr2", "arr_unk"}
InitIsStruct(t) == t \in {"struct_T", "struct_S"}
DesIdx(d) == CASE d = "idx0" -> 0 [] d = "idx1" -> 1 [] d = "idx2" -> 2 [] d = "idxneg" -> -1 [] OTHER -> 0
DesMem(d) == CASE d = "mem_q" -> "q" [] d = "mem_m" -> "m" [] OTHER -> "zz"
BadDesignator(f) ==
  \/ f.des \in {"idx0", "idx1", "idx2", "idxneg"} /\ ~InitIsArr(f.tgt)
  \/ f.des \in {"mem_q", "mem_m", "mem_zz"} /\ ~InitIsStruct(f.tgt)
  \/ InitIsArr(f.tgt) /\ f.des = "idxneg"
  \/ f.tgt = "arr2" /\ f.des = "idx2"
  \/ InitIsStruct(f.tgt) /\ f.des \in {"mem_q", "mem_m", "mem_zz"} /\ DesMem(f.des) \notin Members(f.tgt)

(* struct member lists: occurrences <<member index, inner index, name>> of every declared member name *)
MemOcc(ms) == {<<i, 0, ms[i].n>> : i \in {j \in DOMAIN ms : ms[j].n # ""}}
              \cup UNION {{<<i, k, ms[i].inner[k]>> : k \in DOMAIN ms[i].inner} : i \in DOMAIN ms}
DupNames(occ) == \E x \in occ, y \in occ : x # y /\ x[3] = y[3]

(* redeclaration, 6.7p3-4, 6.2.2, 6.9: what the prelude / zbase already declares *)
Pr(k, t, l, s, d) == [kind |-> k, ty |-> t, link |-> l, scope |-> s, defd |-> d, tls |-> FALSE]
Prior == [gi |-> Pr("obj", "int", "ext", "file", FALSE), gst |-> Pr("obj", "int", "int", "file", FALSE),
          gdef |-> Pr("obj", "int", "ext", "file", TRUE), gf |-> Pr("fn", "fn_ii", "ext", "file", FALSE),
          gfd |-> Pr("fn", "fn_ii", "ext", "file", TRUE), td_t |-> Pr("typedef", "int", "none", "file", FALSE),
          ek |-> Pr("const", "int", "none", "file", FALSE), li |-> Pr("obj", "int", "none", "body", FALSE),
          pa |-> Pr("obj", "int", "none", "param", FALSE)]
ScopeAt(b, p) == IF p = "file" THEN "file" ELSE IF p \in {"block", "macro"} /\ SlotIsBody(b) THEN "body" ELSE "inner"
SameScope(b, p, f) == LET ps == Prior[f.name].scope  s == ScopeAt(b, p) IN
  (ps = "file" /\ s = "file") \/ (ps \in {"body", "param"} /\ s = "body")
NewLink(p, f) == LET pl == Prior[f.name].link IN
  IF f.kind = "typedef" THEN "none"
  ELSE IF p = "file" THEN (IF f.sc = "static" THEN "int"
                           ELSE IF f.sc = "extern" \/ f.kind = "fn" THEN (IF pl # "none" THEN pl ELSE "ext")
                           ELSE "ext")
  ELSE IF f.kind = "fn" \/ f.sc = "extern" THEN (IF pl # "none" THEN pl ELSE "ext")
  ELSE "none"

TagKw == [S |-> "struct", I |-> "struct", E |-> "enum", U |-> "union", Znew |-> "none"]
TagComplete == [S |-> TRUE, I |-> FALSE, E |-> TRUE, U |-> TRUE, Znew |-> FALSE]
NewTagHere(p, f) == p # "file" /\ (f.body \/ f.use = "decl")

(* 6.7.2.2 (C23): an enumerator of an enum with fixed underlying type must be representable in that type.  The VALUE of the  *)
(* constant expression counts, whatever its type: 0xffffffffffffffffUL is 2^64-1, not -1.                                      *)
FixBits(ub) == CASE ub \in {"signed char", "unsigned char"} -> 8 [] ub = "short" -> 16 [] ub \in {"int", "unsigned"} -> 32 [] OTHER -> 64
FixSigned(ub) == ub \notin {"unsigned char", "unsigned"}
FixRepresentable(f) ==
  IF f.k = -1 THEN TRUE
  ELSE IF ~f.neg THEN MagLe(f.k, f.d, IF FixSigned(f.ub) THEN FixBits(f.ub) - 1 ELSE FixBits(f.ub), -1)
  ELSE FixSigned(f.ub) /\ MagLe(f.k, f.d, FixBits(f.ub) - 1, 0)

(* 6.8.4.2p3 with p5: no two case constants of one switch have the same value AFTER conversion to the promoted type of the      *)
(* controlling expression.  For a 32-bit promoted type (int for _Bool/char/short/int, unsigned for unsigned) the conversion is   *)
(* modulo 2^32, so k + m * 2^32 converts to k whatever m; for the 64-bit types it is modulo 2^64 and only m = 2^32 vanishes.     *)
Promoted32(ct) == ct \in {"bool", "char", "short", "int", "unsigned"}
MClass(m) == IF m = "p32" THEN "0" ELSE m
SameAfterConversion(ct, a, b) == a.k = b.k /\ (Promoted32(ct) \/ MClass(a.m) = MClass(b.m))

(* uses the value of a long double object (cproc cannot load/store/compute 16-byte floats) *)
LdUse(f) ==
  \/ f.form \in {"bin", "asg"} /\ "gld" \in {f.l, f.r}
  \/ f.form = "un" /\ f.a = "gld" /\ f.op \notin {"addr", "sizeof"}
  \/ f.form = "cast" /\ f.a = "gld"
  \/ f.form = "sinit" /\ f.o = "gld"
  \/ f.form = "ctl" /\ f.c = "gld"
  \/ f.form = "stmt" /\ f.kind = "return" /\ f.v = "gld"

(* ------------------------------------------------------------------------------ *)
(* THE RULES.  One boolean per named rule: "fragment f at position p of base b      *)
(* violates the rule".                                                               *)
Bad(b, p, f) ==
  LET fm == f.form
      T  == Typed(b, p, f)
      AP == IF fm \in {"asg", "sinit", "call", "stmt", "strinit"} /\ T THEN AssignPairs(b, p, f) ELSE {}
      isincdec == fm = "un" /\ T /\ f.op \in IncDec
      ts == IF fm = "spec" THEN TS(f.kw) ELSE <<>>
      scs == IF fm = "sc" THEN SeqSet(f.sc) ELSE {}
      rd == fm = "redecl"
      same == rd /\ SameScope(b, p, f)
      pk == IF rd THEN Prior[f.name] ELSE Pr("none", "none", "none", "none", FALSE)
      nl == IF rd THEN NewLink(p, f) ELSE "none"
      samekind == same /\ f.kind = pk.kind
      linked == samekind /\ f.kind \in {"obj", "fn"} /\ pk.link # "none" /\ nl # "none"
      cross == rd /\ ~same /\ p # "file" /\ nl # "none" /\ pk.link # "none"
  IN [
  (* 6.5.1 primary expressions *)
  R_undeclared          |-> Undecl(b, p, f),
  (* 6.5.5 .. 6.5.14 *)
  R_operand_types       |-> fm = "bin" /\ T /\ ~BinOK(f.op, f.l, f.r),
  (* 6.5.3 unary operators, 6.5.2.4 *)
  R_unary_operand       |-> fm = "un" /\ T /\ ( (f.op \in {"neg", "pos"} /\ ~IsArith(VT(f.a)))
                                               \/ (f.op = "bnot" /\ ~IsInt(VT(f.a)))
                                               \/ (f.op = "lnot" /\ ~IsScalar(VT(f.a))) ),
  R_deref_nonpointer    |-> fm = "un" /\ T /\ f.op = "deref" /\ ~IsPtr(VT(f.a)),
  R_addr_nonlvalue      |-> fm = "un" /\ T /\ f.op = "addr" /\ ~Ent(f.a).lv /\ ~IsFnDesig(f.a),
  R_addr_of_bitfield    |-> fm = "un" /\ T /\ f.op = "addr" /\ Ent(f.a).bf,
  R_addr_of_register    |-> fm = "un" /\ T /\ f.op = "addr" /\ Ent(f.a).reg,
  R_incdec_nonlvalue    |-> isincdec /\ (~Ent(f.a).lv \/ IsArrayObj(f.a)),
  R_incdec_const        |-> isincdec /\ Ent(f.a).lv /\ ~IsArrayObj(f.a) /\ Ent(f.a).cq,
  R_incdec_type         |-> isincdec /\ Ent(f.a).lv /\ ~IsArrayObj(f.a) /\ ~(IsArith(VT(f.a)) \/ IsObjPtr(VT(f.a))),
  R_sizeof_function     |-> \/ fm = "un" /\ T /\ f.op = "sizeof" /\ IsFnDesig(f.a)
                            \/ fm = "sizeoft" /\ f.ty \in FnTypes,
  R_sizeof_bitfield     |-> fm = "un" /\ T /\ f.op = "sizeof" /\ Ent(f.a).bf,
  R_sizeof_incomplete   |-> fm = "sizeoft" /\ f.ty \in {"void", "struct_I", "arr_unk"},
  R_abstract_declarator_ident |-> fm = "sizeoft" /\ f.ty = "named_abstract",
  (* 6.5.16 assignment *)
  R_assign_nonlvalue    |-> fm = "asg" /\ T /\ (~Ent(f.l).lv \/ IsArrayObj(f.l)),
  R_assign_const        |-> fm = "asg" /\ T /\ Ent(f.l).lv /\ ~IsArrayObj(f.l) /\ Ent(f.l).cq,
  R_incompatible_ptr    |-> \E x \in AP : PtrMismatch(x[1], x[2]),
  R_assign_incompatible |-> \E x \in AP : OtherMismatch(x[1], x[2]),
  R_compound_assign_types |-> fm = "asg" /\ T /\ f.op # "=" /\ Ent(f.l).lv /\ ~IsArrayObj(f.l) /\ ~CompoundOK(f.op, Ent(f.l).ty, f.r),
  (* 6.5.2.2 calls *)
  R_call_nonfunction    |-> fm = "call" /\ T /\ ~IsFnPtr(VT(f.fn)),
  R_call_arity          |-> fm = "call" /\ T /\ IsFnPtr(VT(f.fn)) /\ ~ArityOK(Pointee(VT(f.fn)), Len(f.args)),
  (* 6.5.2.2p4 with p7: an argument matching the ellipsis must have complete object type (here: not a whole struct is fine; void is not generated) *)
  (* 6.5.2.3, 6.5.2.1 *)
  R_member_of_nonstruct |-> fm = "mem" /\ T /\ ( (f.op = "." /\ ~IsStructT(Ent(f.a).ty))
                                                \/ (f.op = "->" /\ VT(f.a) # "ptr_S") ),
  R_no_member           |-> fm = "mem" /\ T /\ ( (f.op = "." /\ IsStructT(Ent(f.a).ty) /\ f.m \notin Members(Ent(f.a).ty))
                                                \/ (f.op = "->" /\ VT(f.a) = "ptr_S" /\ f.m \notin Members("struct_S")) ),
  R_subscript           |-> fm = "idx" /\ T /\ ~( (IsObjPtr(VT(f.a)) /\ IsInt(VT(f.i)))
                                                 \/ (IsInt(VT(f.a)) /\ IsObjPtr(VT(f.i))) ),
  (* 6.5.4, 6.5.15, 6.5.1.1 *)
  R_cast_nonscalar      |-> fm = "cast" /\ T /\ f.to # "void" /\ (~IsScalar(f.to) \/ ~IsScalar(VT(f.a))),
  R_cond_first_operand  |-> fm = "cond" /\ T /\ ~IsScalar(VT(f.c)),
  R_cond_operands       |-> fm = "cond" /\ T /\ ~CondArmsOK(f.a, f.b),
  R_generic_dup_default |-> fm = "generic" /\ Cnt(f.assoc, "default") > 1,
  R_generic_assoc_type  |-> fm = "generic" /\ T /\ SeqSet(f.assoc) \cap {"struct_I", "fn_ii", "arr_unk", "vla"} # {},
  R_generic_dup_type    |-> fm = "generic" /\ \E t \in SeqSet(f.assoc) \ {"default"} : Cnt(f.assoc, t) > 1,
  R_generic_nomatch     |-> fm = "generic" /\ T /\ "bad" \notin SeqSet(f.assoc) /\ VT(f.c) \notin SeqSet(f.assoc) /\ "default" \notin SeqSet(f.assoc),
  R_va_arg_type         |-> fm = "vaarg" /\ T /\ f.a # "ap",
  R_va_list_type        |-> fm = "builtin" /\ T /\ f.kind \in {"va_copy_dst", "va_copy_src", "va_end_bad", "va_start_bad"},
  R_offsetof            |-> fm = "builtin" /\ f.kind \in {"offsetof_nonstruct", "offsetof_nomember", "offsetof_idx_nonarray",
                                                          "offsetof_mem_nonstruct", "offsetof_nested_nomember"},
  (* 6.4 lexical elements *)
  R_lex_empty_char      |-> fm = "lit" /\ f.kind = "empty_char",
  R_lex_bad_escape      |-> fm = "lit" /\ f.kind \in {"bad_escape", "bad_escape_str", "bad_hex"},
  R_lex_unterminated_literal |-> fm = "lit" /\ f.kind \in {"unterm_str", "unterm_char", "eof_char", "eof_str"},
  R_lex_unterminated_comment |-> (fm = "lit" /\ f.kind = "eof_comment") \/ (fm = "misc" /\ f.kind = "eof_comment_decl"),
  R_lex_bad_number      |-> fm = "lit" /\ f.kind \in {"bad_int_suffix", "bad_octal", "bad_float_suffix", "hex_nodigits", "exp_nodigits", "bin_nodigits"},
  R_int_constant_range  |-> fm = "lit" /\ f.kind = "too_big_int",
  R_lex_string_prefix_mix |-> fm = "lit" /\ f.kind = "mixed_prefix",
  R_lex_stray_char      |-> fm = "lit" /\ f.kind = "stray_char",
  (* 6.8 statements *)
  R_case_outside_switch |-> fm = "stmt" /\ f.kind = "case" /\ ~InSwitch(b),
  R_dup_case            |-> fm = "stmt" /\ f.kind = "case" /\ InSwitch(b) /\ f.v \in CasesBefore(b),
  R_dup_case_converted  |-> fm = "swcase" /\ SameAfterConversion(f.ct, f.a, f.b),
  R_case_nonconst       |-> fm = "stmt" /\ f.kind = "case" /\ f.v \in {"gi", "1.5"},
  R_default_outside_switch |-> fm = "stmt" /\ f.kind = "default" /\ ~InSwitch(b),
  R_dup_default         |-> fm = "stmt" /\ f.kind = "default" /\ HasDefault(b),
  R_dup_label           |-> fm = "stmt" /\ f.kind = "label" /\ f.v \in LabelsDefined,
  R_undefined_label     |-> fm = "stmt" /\ f.kind = "goto" /\ f.v \notin LabelsDefined,
  R_break_outside       |-> fm = "stmt" /\ f.kind = "break" /\ ~(InLoop(b) \/ InSwitch(b)),
  R_continue_outside    |-> fm = "stmt" /\ f.kind = "continue" /\ ~InLoop(b),
  R_return_value_in_void |-> fm = "stmt" /\ f.kind = "return" /\ BaseTab[b].ret = "void" /\ f.v # "none",
  R_return_novalue      |-> fm = "stmt" /\ f.kind = "return" /\ BaseTab[b].ret # "void" /\ f.v = "none",
  R_control_scalar      |-> fm = "ctl" /\ T /\ f.kw # "switch" /\ ~IsScalar(VT(f.c)),
  R_switch_integer      |-> fm = "ctl" /\ T /\ f.kw = "switch" /\ ~IsInt(VT(f.c)),
  (* 6.7 declarations *)
  R_not_c11             |-> \/ fm = "spec" /\ SeqSet(f.kw) \cap NotC11Kw # {}
                            \/ fm = "misc" /\ f.kind = "nullptr_assign"
                            \/ fm = "enum" /\ f.ub # "",
  R_no_type_specifier   |-> fm = "spec" /\ SeqSet(f.kw) \cap NotC11Kw = {} /\ Len(ts) = 0,
  R_specifier_combo     |-> fm = "spec" /\ SeqSet(f.kw) \cap NotC11Kw = {} /\ Len(ts) > 0 /\ ~SpecOK(f.kw),
  R_storage_combo       |-> fm = "sc" /\ ~ScOK(f.sc),
  R_storage_file_scope  |-> fm = "sc" /\ p = "file" /\ scs \cap {"auto", "register"} # {},
  R_storage_block_tls   |-> \/ fm = "sc" /\ p # "file" /\ f.what = "obj" /\ scs = {"_Thread_local"}
                            \/ rd /\ p # "file" /\ f.kind = "obj" /\ f.sc = "tls",
  R_storage_block_func  |-> fm = "sc" /\ p # "file" /\ f.what = "fn" /\ scs \cap {"static", "auto", "register"} # {},
  R_void_object         |-> fm = "obj" /\ f.ty = "void",
  R_incomplete_object   |-> \/ fm = "obj" /\ f.ty \in {"struct_I", "arr_unk"}
                            \/ fm = "init" /\ f.tgt = "struct_I",
  R_bitfield_type       |-> fm = "bf" /\ ~IsInt(f.ty),
  R_bitfield_width      |-> fm = "bf" /\ (f.w < 0 \/ (IsInt(f.ty) /\ f.w > BitsOf(f.ty))),
  R_bitfield_zero_named |-> fm = "bf" /\ f.w = 0 /\ f.named,
  R_alignas_bitfield    |-> fm = "bf" /\ f.al # 0,
  R_alignas_value       |-> \/ fm = "alignas" /\ f.n # 0 /\ f.n \notin Pow2
                            \/ fm = "misc" /\ f.kind = "attr_aligned_bad",
  R_alignas_weaker      |-> fm = "alignas" /\ f.on \in {"int", "double", "member"} /\ f.n \in Pow2 /\ f.n < AlignOfOn(f.on),
  R_alignas_target      |-> fm = "alignas" /\ f.on \in {"typedef", "fn", "param"},
  R_array_size_negative |-> fm = "arr" /\ f.n \in {"-1", "k_neg_expr"},
  R_array_size_zero     |-> fm = "arr" /\ f.n = "0",
  R_array_size_type     |-> fm = "arr" /\ f.n = "1.5",
  R_array_too_large     |-> fm = "arr" /\ f.n = "huge",
  R_static_vla          |-> fm = "misc" /\ f.kind = "vla_static",
  R_init_vla            |-> fm = "misc" /\ T /\ f.kind \in {"vla_init", "vla2_init"},
  R_constexpr_range     |-> fm = "misc" /\ f.kind \in {"const_fold_overflow_s", "const_fold_overflow_u"},
  R_array_elem          |-> fm = "arr" /\ f.el # "int",
  R_static_assert       |-> fm = "sa" /\ f.v = "0",
  R_static_assert_nonconst |-> fm = "sa" /\ f.v \in {"gi", "1.5"},
  R_designator          |-> fm = "init" /\ f.tgt # "struct_I" /\ f.n > 0 /\ BadDesignator(f),
  R_too_many_init       |-> \/ fm = "init" /\ f.tgt # "struct_I" /\ f.n > 0 /\ ~BadDesignator(f) /\ DesIdx(f.des) + f.n > InitCap(f.tgt)
                            \* 6.7.9p2 applies to every brace level: the inner list initializes only the first subobject
                            \/ fm = "ninit" /\ f.n > (IF f.tgt \in {"arr22", "sarr"} THEN 2 ELSE 1),
  R_init_empty          |-> fm = "init" /\ f.n = 0 /\ f.tgt = "arr_unk",
  R_init_nonconst       |-> \/ fm = "init" /\ p = "file" /\ f.val = "gi"
                            \/ fm = "sinit" /\ T /\ p = "file" /\ ~Ent(f.o).cst,
  (* 6.7.9p4 with 6.6p9: an address constant points to an object of STATIC storage duration (not automatic, not thread) *)
  R_static_init_address |-> \/ fm = "misc" /\ T /\ f.kind \in {"static_init_addr_local", "static_init_addr_compound", "static_init_addr_index"}
                            \/ fm = "sinitaddr" /\ f.dur # "static",
  R_init_string_width   |-> fm = "strinit" /\ ( (f.tgt \in {"char4", "charunk"} /\ f.lit = "wide")
                                              \/ (f.tgt = "int4" /\ f.lit = "narrow") ),
  R_dup_member          |-> fm = "struct" /\ DupNames(MemOcc(f.mem)),
  R_struct_no_members   |-> fm = "struct" /\ \A i \in DOMAIN f.mem : f.mem[i].ty = "sa",
  R_member_flexible_struct |-> fm = "struct" /\ \E i \in DOMAIN f.mem : f.mem[i].ty = "flexstruct",
  R_member_vla          |-> fm = "struct" /\ T /\ \E i \in DOMAIN f.mem : f.mem[i].ty = "vla",
  R_member_incomplete   |-> fm = "struct" /\ \E i \in DOMAIN f.mem : f.mem[i].ty \in {"struct_I", "self"},
  R_member_function     |-> fm = "struct" /\ \E i \in DOMAIN f.mem : f.mem[i].ty = "fn",
  R_flexible_not_last   |-> fm = "struct" /\ \E i \in DOMAIN f.mem : f.mem[i].ty = "flex" /\ i < Len(f.mem),
  R_member_no_declarator |-> fm = "struct" /\ \E i \in DOMAIN f.mem : f.mem[i].ty = "int" /\ f.mem[i].n = "",
  R_member_specifier    |-> fm = "struct" /\ \E i \in DOMAIN f.mem : f.mem[i].pre \in {"static", "inline"},
  R_dup_param           |-> fm = "param" /\ DupNames({<<i, 0, f.ps[i].n>> : i \in {j \in DOMAIN f.ps : f.ps[j].n # ""}}),
  R_param_storage       |-> fm = "param" /\ \E i \in DOMAIN f.ps : f.ps[i].sc \notin {"", "register"},
  R_param_no_type       |-> fm = "param" /\ \E i \in DOMAIN f.ps : f.ps[i].ty = "",
  R_func_returns        |-> fm = "fdecl" /\ f.ret \in {"fn", "arr"},
  R_redecl_kind         |-> \/ same /\ f.kind # pk.kind
                            \/ cross /\ f.kind # pk.kind,
  R_typedef_redef       |-> samekind /\ f.kind = "typedef" /\ f.ty # pk.ty,
  R_redecl_nolinkage    |-> samekind /\ f.kind \in {"obj", "fn"} /\ (pk.link = "none" \/ nl = "none"),
  R_redecl_linkage      |-> linked /\ nl # pk.link,
  R_redecl_incompatible |-> \/ linked /\ f.ty # pk.ty
                            \/ cross /\ f.kind = pk.kind /\ f.ty # pk.ty,
  R_redecl_tls          |-> linked /\ f.kind = "obj" /\ (f.sc = "tls") # pk.tls,
  R_redefinition        |-> linked /\ f.init /\ pk.defd,
  R_extern_init_block   |-> rd /\ p # "file" /\ f.kind = "obj" /\ f.sc = "extern" /\ f.init,
  R_tag_kind            |-> fm = "tag" /\ f.tag # "Znew" /\ f.kw # TagKw[f.tag] /\ ~NewTagHere(p, f),
  R_tag_redefinition    |-> fm = "tag" /\ f.body /\ p = "file" /\ f.kw = TagKw[f.tag] /\ TagComplete[f.tag],
  R_enum_nonconst       |-> fm = "enum" /\ \E i \in DOMAIN f.items : f.items[i].v \in {"gi", "1.5"},
  R_enum_fixed_range    |-> fm = "enumfix" /\ ~FixRepresentable(f),
  R_enum_range          |-> fm = "enum" /\ f.ub = "" /\ \E i \in DOMAIN f.items : f.items[i].v \in {"max_u64", "max_i64"},
  R_dup_enumerator      |-> fm = "enum" /\ DupNames({<<i, 0, f.items[i].n>> : i \in DOMAIN f.items}),
  R_empty_declaration   |-> fm = "misc" /\ f.kind = "toplevel_semi" /\ p = "file",
  R_nested_function     |-> fm = "misc" /\ f.kind = "nested_fn" /\ p # "file",
  R_syntax_drop         |-> fm = "drop",
  R_syntax              |-> \/ fm = "misc" /\ f.kind \in {"missing_semi", "unbalanced_paren", "kw_as_ident", "init_missing_comma"}
                            \/ fm = "synx" /\ f.kind # "paren_ok"
                            \/ fm = "generic" /\ "bad" \in SeqSet(f.assoc),
  (* 6.10 preprocessing directives *)
  R_dir_unknown         |-> fm = "dir" /\ f.d = "foo",
  R_dir_unbalanced      |-> fm = "dir" /\ f.d \in {"elif", "else", "endif"},
  R_error_directive     |-> fm = "dir" /\ f.d = "error",
  R_macro_redefinition  |-> fm = "dir" /\ f.d = "define" /\ f.redef \in {"diff", "diff_kind", "diff_params"},
  R_hash_not_param      |-> fm = "dir" /\ f.d = "define" /\ f.fl /\ f.hashop \in {"nonparam", "nonident"},
  R_va_args_misuse      |-> fm = "dir" /\ f.d = "define" /\ f.va \in {"nonvariadic_used", "nonvariadic_later"},
  R_macro_no_name       |-> fm = "dir" /\ ~f.named,
  R_dir_extra_tokens    |-> fm = "dir" /\ f.extra,
  R_macro_arity         |-> fm = "minv" /\ f.closed /\ f.nargs # 2,
  R_macro_unterminated  |-> fm = "minv" /\ ~f.closed
  ]

RuleNames == DOMAIN Bad("b01", "block", None)

(* Features that are valid C11 but documented as missing from cproc (README "What's      *)
(* missing", error texts "... is not yet supported / not implemented").  Some of them     *)
(* are only unsupported where the construct is evaluated (code must be generated).         *)
Unsup(b, p, f) ==
  LET fm == f.form  T == Typed(b, p, f)  ev == Evaluated(p) IN [
  U_volatile_store   |-> ev /\ T /\ ( (fm = "asg" /\ Ent(f.l).lv /\ Ent(f.l).vq)
                                    \/ (fm = "un" /\ f.op \in IncDec /\ Ent(f.a).vq) ),
  U_long_double      |-> ev /\ T /\ LdUse(f),
  U_atomic           |-> fm = "spec" /\ "_Atomic" \in SeqSet(f.kw),
  U_complex          |-> fm = "spec" /\ "_Complex" \in SeqSet(f.kw),
  U_asm              |-> fm = "stmt" /\ f.kind = "asm",
  U_multichar        |-> fm = "lit" /\ f.kind = "multi_char",
  U_va_arg_aggregate |-> ev /\ T /\ fm = "vaarg" /\ f.ty \in {"struct_S", "union_U"},
  U_packed_bitfield  |-> fm = "bf" /\ f.packed,
  U_pp_conditional   |-> fm = "dir" /\ f.d \in {"if", "ifdef", "ifndef"},
  U_pp_include       |-> fm = "dir" /\ f.d = "include",
  U_pp_paste         |-> fm = "dir" /\ f.d = "define" /\ f.paste,
  (* GNU extensions cproc implements only in part (doc/extensions.md), and rejections of constructs ISO C leaves open *)
  U_asm_name         |-> \/ fm = "redecl" /\ f.asm /\ Prior[f.name].link # "none"
                         \/ fm = "misc" /\ f.kind = "typedef_asm",
  U_gnu_attribute    |-> fm = "misc" /\ f.kind \in {"attr_after_paren", "attr_aligned_unsup"},
  U_builtin_nanf_arg |-> fm = "builtin" /\ f.kind = "nanf_arg",
  U_init_braces      |-> fm = "misc" /\ f.kind = "scalar_double_brace",
  U_source_encoding  |-> fm = "lit" /\ f.kind = "invalid_utf8"
  ]
UnsupNames == DOMAIN Unsup("b01", "block", None)

(* Fragments whose required outcome is not certain (C11 leaves it undefined or            *)
(* implementation-defined, or the reference compilers used for the audit are known to be   *)
(* laxer/stricter than the text) are not generated at all.  Each line says why.            *)
ExcludedCore(b, p, f) ==
  LET fm == f.form IN
  \/ p \notin FeasiblePos(f)
  \* void pointer <-> function pointer: constraint by the letter, universally accepted extension
  \/ \E x \in (IF Typed(b, p, f) /\ fm \in {"asg", "sinit", "call", "stmt"} THEN AssignPairs(b, p, f) ELSE {}) : VoidFnMix(x[1], x[2])
  \* the arms of ?: are a void pointer and a function pointer (6.5.15p3 by the letter; same common extension)
  \/ fm = "cond" /\ Typed(b, p, f) /\ ~IsNullConst(f.a) /\ ~IsNullConst(f.b)
       /\ ((IsVoidPtr(VT(f.a)) /\ IsFnPtr(VT(f.b))) \/ (IsFnPtr(VT(f.a)) /\ IsVoidPtr(VT(f.b))))
  \* *(void *) / *(incomplete *): valid expression, but lvalue conversion of it is undefined
  \/ fm = "un" /\ f.op = "deref" /\ f.a \in {"gv", "gip"}
  \* pointer <-> floating casts (6.5.4p4) and function pointer -> object pointer casts: not in cproc's catalogue
  \/ fm = "cast" /\ ((f.to = "double" /\ IsPtr(VT(f.a))) \/ (IsPtr(f.to) /\ VT(f.a) \in {"double", "ldouble"}))
  \/ fm = "cast" /\ f.a = "gf" /\ f.to \notin {"void", "struct_S"}
  \/ fm = "sizeoft" /\ f.op = "_Alignof" /\ f.ty = "arr_unk"
  \* a file-scope tentative definition of incomplete type is only required to be complete at the end of the unit
  \/ fm = "obj" /\ p = "file" /\ f.ty \in {"void", "arr_unk"}
  \* _Bool bit-field wider than 1: width of _Bool is implementation-defined
  \/ fm = "bf" /\ f.ty = "bool" /\ f.w > 1
  \/ fm = "bf" /\ f.al # 0 /\ ~f.named
  \/ fm = "alignas" /\ f.n = 0 /\ f.on \in {"typedef", "fn", "param"}
  \* static_assert without message is C23; generated with message only (renderer), nothing to exclude
  \* expressions at file scope must be constant: only the sizeof wrapper is used, sinit needs a constant operand
  \/ fm = "param" /\ f.def /\ p # "file"
  \/ fm = "param" /\ f.def /\ \E i \in DOMAIN f.ps : f.ps[i].n = ""
  \/ fm = "redecl" /\ f.name \in {"li", "pa"} /\ p = "file"
  \/ fm = "redecl" /\ f.kind = "fn" /\ f.init /\ p # "file"
  \/ fm = "redecl" /\ f.kind = "obj" /\ f.sc = "extern" /\ f.init /\ p = "file"
  \/ fm = "redecl" /\ f.kind = "obj" /\ f.sc = "tls" /\ f.init
  \* forward reference to an enum tag: pedantic-only diagnostic, accepted by every compiler
  \/ fm = "tag" /\ f.kw = "enum" /\ ~f.body /\ (f.use = "decl" \/ TagKw[f.tag] # "enum")
  \/ fm = "dir" /\ f.d = "linemarker"
  \/ fm = "dir" /\ f.va = "variadic_used" /\ ~f.fl
  \* va_arg needs a started va_list: only in variadic bases (elsewhere it is just R_undeclared, kept)
  \* fragments placed in a macro body must fit on one logical line: the unterminated comment would swallow the invocation
  \/ fm = "minv" /\ p = "macro"
  \* static_assert without a message is C23: only its failing form is invalid in both dialects
  \/ fm = "sa" /\ ~f.msg /\ f.v # "0"
  \* `{}` is a C23 initializer for complete types
  \/ fm = "init" /\ f.n = 0 /\ f.tgt # "arr_unk"
  \/ fm = "init" /\ f.tgt = "struct_I" /\ (f.des # "none" \/ f.n # 1)
  \* fragments that need the local li / the va_list ap are only meaningful inside zbase
  \/ fm \in {"struct", "generic", "misc"} /\ "li" \in Ops(f) /\ p = "file"
  \/ fm = "builtin" /\ f.ap /\ ~(BaseTab[b].var /\ p # "file")
  \/ fm = "builtin" /\ f.kind = "alloca_ok" /\ p = "file"
  \* a compound literal at file scope has static storage duration: its address is a constant there
  \/ fm = "misc" /\ f.kind = "static_init_addr_compound" /\ p = "file"
  \* the automatic and the block-scope thread objects live in zbase
  \/ fm = "sinitaddr" /\ f.dur \in {"auto", "tls_block"} /\ p = "file"
  \* `T td_t;` at file scope would redeclare the typedef in its own scope
  \/ fm = "tdshadow" /\ f.where = "obj" /\ p = "file"
  \* _Bool op= pointer: a constraint violation by 6.5.16.2p1-2 that the reference compilers accept silently
  \/ fm = "asg" /\ f.op # "=" /\ f.l = "gb" /\ IsPtr(VT(f.r))
  \* an address converted to _Bool is not one of the constant expressions 6.6p7 requires for static initializers
  \/ fm = "sinit" /\ f.o \in EntNames /\ f.ty = "bool" /\ IsPtr(VT(f.o)) /\ p = "file"
  \* struct object = non-struct expression without braces: 6.7.9p13/p16 are "shall"s outside a Constraints section
  \/ fm = "sinit" /\ f.o \in EntNames /\ f.ty = "struct_S" /\ VT(f.o) # "struct_S"
  \* *"str" as a discarded expression: valid C that cproc rejects with an internal error (reported, not a C10 matter)
  \/ fm = "un" /\ f.op = "deref" /\ f.a = "ks"
  \* the literal that ends the translation unit can only be rendered where nothing of the fragment follows it
  \/ fm = "lit" /\ f.kind \in {"eof_char", "eof_str"} /\ p = "macro"

Excluded(b, p, f) ==
  IF f.form = "drop"
  THEN \/ ExcludedCore(b, p, f.of) \/ ~Typed(b, p, f.of)
       \/ f.of.form = "sinit" /\ p = "file" /\ ~Ent(f.of.o).cst
       \/ f.tok \notin Closers(f.of)
       \* the fragment that loses a token must itself be valid and supported here, so that the missing token is all that is wrong
       \/ (LET r == Bad(b, p, f.of) IN \E n \in DOMAIN r : r[n])
       \/ (LET u == Unsup(b, p, f.of) IN \E n \in DOMAIN u : u[n])
  ELSE ExcludedCore(b, p, f)

(* ------------------------------------------------------------------------------ *)
(* `int zv = (E);` violates what E violates (the operands are constants, so the initializer is constant wherever it stands) *)
Core(f) == IF f.form = "cinit" THEN f.of ELSE f
Viol(b, p, f)  == IF f = None THEN {} ELSE LET r == Bad(b, p, Core(f)) IN {n \in DOMAIN r : r[n]}
Unsp(b, p, f)  == IF f = None THEN {} ELSE LET r == Unsup(b, p, Core(f)) IN {n \in DOMAIN r : r[n]}

Filled(P) == {s \in Positions : P.slots[s] # None}
Rule(r, P) == \A s \in Filled(P) : ~Bad(P.base, s, Core(P.slots[s]))[r]
Valid(P) == \A s \in Filled(P) : Viol(P.base, s, P.slots[s]) = {}
Unsupported(P) == Valid(P) /\ \E s \in Filled(P) : Unsp(P.base, s, P.slots[s]) # {}
Violated(P) == UNION {Viol(P.base, s, P.slots[s]) : s \in Filled(P)}
UnsupOf(P)  == UNION {Unsp(P.base, s, P.slots[s]) : s \in Filled(P)}
Verdict(P) == IF ~Valid(P) THEN "invalid" ELSE IF Unsupported(P) THEN "unsupported" ELSE "valid"

(* the named rules as predicates on programs *)
R_undeclared(P) == Rule("R_undeclared", P)
R_operand_types(P) == Rule("R_operand_types", P)
R_assign_const(P) == Rule("R_assign_const", P)
R_assign_nonlvalue(P) == Rule("R_assign_nonlvalue", P)
R_incompatible_ptr(P) == Rule("R_incompatible_ptr", P)
R_call_arity(P) == Rule("R_call_arity", P)
R_call_nonfunction(P) == Rule("R_call_nonfunction", P)
R_dup_case(P) == Rule("R_dup_case", P)
R_dup_default(P) == Rule("R_dup_default", P)
R_case_outside_switch(P) == Rule("R_case_outside_switch", P)
R_default_outside_switch(P) == Rule("R_default_outside_switch", P)
R_undefined_label(P) == Rule("R_undefined_label", P)
R_dup_label(P) == Rule("R_dup_label", P)
R_break_outside(P) == Rule("R_break_outside", P)
R_continue_outside(P) == Rule("R_continue_outside", P)
R_specifier_combo(P) == Rule("R_specifier_combo", P)
R_storage_combo(P) == Rule("R_storage_combo", P)
R_incomplete_object(P) == Rule("R_incomplete_object", P)
R_void_object(P) == Rule("R_void_object", P)
R_dup_member(P) == Rule("R_dup_member", P)
R_dup_param(P) == Rule("R_dup_param", P)
R_redecl_kind(P) == Rule("R_redecl_kind", P)
R_redecl_incompatible(P) == Rule("R_redecl_incompatible", P)
R_static_assert(P) == Rule("R_static_assert", P)
R_too_many_init(P) == Rule("R_too_many_init", P)
R_designator(P) == Rule("R_designator", P)
(* ------------------------------------------------------------------------------ *)
(* WITNESSES: for every named rule, hand-chosen fragments meant to violate exactly   *)
(* that rule (for U_ names: to use exactly that unsupported feature).                *)
(* valid fragments that lose one closing token (see CSFrags!Closers) *)
DropBase == {
  FBin("+", "gp", "gi"), FAsg("=", "gi", "gd"), FUn("neg", "gd"), FUn("sizeof", "gs"), FCall("gf", <<"gi">>), FCall("gvf", <<>>), FCast("int", "gd"),
  FSizeofT("sizeof", "int"), FSizeofT("_Alignof", "struct_S"), FBuiltin("offsetof_ok", FALSE), FBuiltin("tcp_ok", FALSE),
  FCtl("if", "gi"), FCtl("while", "gp"), FCtl("do", "gd"), FCtl("for", "gb"), FCtl("switch", "gi"),
  FAlignas(8, "int"), FAlignas(8, "member"), FSa("1", "decl", TRUE), FSa("1", "struct", TRUE),
  FParam(<<Pm("a", "", "int"), Pm("b", "", "int")>>, FALSE), FFdecl("int"),
  FCond("gi", "gi", "gd"), FGeneric("gi", <<"int", "default">>), FIdx("gp", "gi"), FIdx("ga", "k1"), FArr("3", "int"),
  FStmt("goto", "L1"), FBf("int", 3, TRUE, FALSE, 0), FBf("int", 0, FALSE, FALSE, 0),
  FInit("arr2", 2, "none", "k1"), FInit("struct_T", 1, "mem_q", "k1"), FInit("arr2", 1, "idx1", "k1"), FEnum(<<En("ZA", ""), En("ZB", "3")>>),
  FStruct(<<M("a", "int"), M("b", "int")>>), FStruct(<<M("a", "int"), [M("", "anon") EXCEPT !.inner = <<"b", "c">>]>>),
  FTag("struct", "I", TRUE, "decl"), FTag("union", "Znew", TRUE, "ptr"), FTag("enum", "Znew", TRUE, "decl"), FObj("int"), FObj("struct_S")}
DropCtx == {FStmt("case", "2"), FStmt("default", ""), FStmt("break", ""), FStmt("continue", ""), FStmt("return", "none"), FStmt("return", "gi"),
            FStmt("return", "gp"), FStmt("return", "gs")}
DropFrags == {FDrop(f, t) : f \in DropBase \cup DropCtx, t \in {")", "]", "}", ":", ";"}} \cup
             UNION {{FSwap(f, t, w) : w \in SwapWith(t)} : f \in DropBase \cup DropCtx, t \in {")", "]", "}"}}
AllFragsX == AllFrags \cup DropFrags

DI(h, v, p) == [D0("define") EXCEPT !.fl = TRUE, !.hashop = h, !.va = v, !.paste = p]
Wit == [
  R_undeclared |-> {FUse("nope")},
  R_operand_types |-> {FBin("*", "gs", "gi"), FBin("/", "gp", "gi"), FBin("%", "gd", "gi"), FBin("+", "gp", "gp"), FBin("+", "gv", "gi"),
     FBin("+", "gs", "gi"), FBin("-", "gi", "gp"), FBin("-", "gp", "gq"), FBin("-", "gip", "gip"), FBin("<<", "gi", "gd"), FBin(">>", "gp", "gi"),
     FBin("<", "gp", "gq"), FBin("<", "gp", "k0"), FBin(">=", "gs", "gs"), FBin("<=", "gfp", "gfp"), FBin("==", "gp", "gq"), FBin("==", "gp", "gi"),
     FBin("!=", "gfp", "gv"), FBin("==", "gs", "gs"), FBin("&", "gd", "gi"), FBin("^", "gp", "gi"), FBin("|", "gi", "gs"),
     FBin("&&", "gs", "gi"), FBin("||", "gi", "gs"),
     \* a constant zero of non-void pointer type is NOT a null pointer constant (6.3.2.3p3): no shortcut past 6.5.9p2
     FBin("==", "gq", "kpi"), FBin("!=", "kpc", "gp"), FBin("==", "gfp", "kpi"), FBin("!=", "gq", "knil"), FBin("==", "kpc", "kpi"),
     FCInit(FBin("==", "kpc", "kpi")), FCInit(FBin("!=", "knil", "kpc")),
     \* a null pointer constant of pointer type against a non-pointer that is not a null pointer constant (repaired in /repo: pinned)
     FBin("==", "kv", "gi"), FBin("!=", "gd", "kv"), FBin("==", "gs", "kv"), FCInit(FBin("==", "kv", "k1"))},
  R_unary_operand |-> {FUn("neg", "gp"), FUn("pos", "gs"), FUn("bnot", "gd"), FUn("lnot", "gs"), FUn("bnot", "gp")},
  R_deref_nonpointer |-> {FUn("deref", "gi"), FUn("deref", "gd"), FUn("deref", "gs")},
  R_addr_nonlvalue |-> {FUn("addr", "k1")},
  R_addr_of_bitfield |-> {FUn("addr", "gsbf")},
  R_addr_of_register |-> {FUn("addr", "lr")},
  R_incdec_nonlvalue |-> {FUn("preinc", "k1"), FUn("postinc", "ga"), FUn("predec", "gf")},
  R_incdec_const |-> {FUn("preinc", "gc"), FUn("postinc", "gc"), FUn("preinc", "gcbf"),
     FUn("postinc", "gcspa1"), FUn("preinc", "gcsa1"), FUn("predec", "gta1"), FUn("postinc", "gcspm2"), FUn("preinc", "gcap1"), FUn("postinc", "gcspin")},
  R_incdec_type |-> {FUn("postinc", "gs"), FUn("preinc", "gv"), FUn("postinc", "gfp")},
  R_sizeof_function |-> {FUn("sizeof", "gf"), FSizeofT("sizeof", "fn_ii"), FSizeofT("_Alignof", "fn_ii")},
  R_sizeof_bitfield |-> {FUn("sizeof", "gsbf")},
  R_abstract_declarator_ident |-> {FSizeofT("sizeof", "named_abstract"), FSizeofT("_Alignof", "named_abstract")},
  R_sizeof_incomplete |-> {FSizeofT("sizeof", "void"), FSizeofT("sizeof", "struct_I"), FSizeofT("sizeof", "arr_unk"), FSizeofT("_Alignof", "struct_I")},
  R_assign_nonlvalue |-> {FAsg("=", "k1", "gi"), FAsg("=", "ga", "k0"), FAsg("=", "gf", "k0"), FAsg("+=", "k1", "gi")},
  R_assign_const |-> {FAsg("=", "gc", "gi"), FAsg("+=", "gc", "k1"), FAsg("=", "gcbf", "k1"), FAsg("+=", "gcbf", "k1"),
     \* the const is inherited from the enclosing struct / the typedef'd array type
     FAsg("=", "gcsa1", "k1"), FAsg("=", "gcspa1", "gi"), FAsg("=", "gcspin", "k1"), FAsg("=", "gcspm2", "k1"), FAsg("=", "gta1", "k1"),
     FAsg("=", "gcap1", "k1"), FAsg("+=", "gcspa1", "k1"), FAsg("<<=", "gta1", "k1")},
  R_incompatible_ptr |-> {FAsg("=", "gp", "gq"), FAsg("=", "gp", "gi"), FAsg("=", "gp", "gcp"), FSInit("ptr_int", "gq"), FSInit("ptr_char", "gp"),
     FSInit("ptr_int", "gcp"), FSInit("ptr_int", "gi"), FSInit("ptr_int", "ks"), FCall("gpf", <<"gq">>), FCall("gpf", <<"gi">>), FStrInit("charp", "wide"),
     FSInit("ptr_int", "gcspa"), FSInit("ptr_int", "gcapd"), FSInit("ptr_int", "gta"), FAsg("=", "gp", "gcspa"), FAsg("=", "gp", "gta"), FAsg("=", "gv", "gcapd")},
  R_assign_incompatible |-> {FAsg("=", "gi", "gp"), FAsg("=", "gi", "gs"), FAsg("=", "gs", "gt"), FAsg("=", "gs", "gi"), FAsg("=", "gp", "gd"),
     FSInit("int", "gp"), FSInit("int", "gs"), FSInit("ptr_int", "gd"), FSInit("double", "gp"), FSInit("int", "ks"),
     FCall("gf", <<"gp">>), FCall("gf", <<"gs">>), FCall("gsfn", <<"gt">>), FCall("gsfn", <<"gi">>), FSInit("bool", "gs")},
  R_compound_assign_types |-> {FAsg("+=", "gi", "gp"), FAsg("+=", "gp", "gp"), FAsg("+=", "gp", "gd"), FAsg("+=", "gs", "gi"), FAsg("%=", "gd", "gi"),
     FAsg("<<=", "gi", "gd"), FAsg("&=", "gi", "gp"), FAsg("*=", "gp", "gi"), FAsg("-=", "gv", "gi")},
  R_call_nonfunction |-> {FCall("gi", <<>>), FCall("gp", <<"gi">>), FCall("gs", <<>>)},
  R_call_arity |-> {FCall("gf", <<>>), FCall("gf", <<"gi", "gi">>), FCall("gvf", <<"gi">>), FCall("gfp", <<>>), FCall("gpf", <<"gp", "gi">>),
     FCall("gvar", <<>>), FCall("gvar", <<"gi">>)},
  R_member_of_nonstruct |-> {FMem(".", "gi", "m"), FMem("->", "gp", "m"), FMem("->", "gs", "m"), FMem(".", "gsp", "m"), FMem(".", "gd", "q")},
  R_no_member |-> {FMem(".", "gs", "zz"), FMem("->", "gsp", "zz"), FMem(".", "gt", "m"), FMem(".", "gu", "q")},
  R_subscript |-> {FIdx("gi", "gi"), FIdx("gp", "gd"), FIdx("gip", "gi"), FIdx("gv", "k1"), FIdx("gp", "gp"), FIdx("gs", "gi"), FIdx("gfp", "gi")},
  R_cast_nonscalar |-> {FCast("struct_S", "gs"), FCast("int", "gs"), FCast("struct_S", "gi"), FCast("ptr_int", "gs")},
  R_cond_first_operand |-> {FCond("gs", "gi", "gi")},
  R_cond_operands |-> {FCond("gi", "gq", "kpi"), FCond("gi", "knil", "gq"), FCond("gi", "kpi", "gfp"), FCond("gi", "kpc", "kpi"),
     FCInit(FCond("k1", "kpc", "kpi")), FCond("gi", "gs", "gi"), FCond("gi", "gp", "gq"), FCond("gi", "gs", "gt"), FCond("gi", "gp", "gi"), FCond("gi", "gd", "gp")},
  R_generic_dup_default |-> {FGeneric("gi", <<"default", "default">>)},
  R_generic_assoc_type |-> {FGeneric("gi", <<"struct_I", "default">>), FGeneric("gi", <<"fn_ii", "default">>), FGeneric("gi", <<"arr_unk", "default">>), FGeneric("gi", <<"vla", "default">>)},
  R_generic_dup_type |-> {FGeneric("gi", <<"int", "int">>)},
  R_generic_nomatch |-> {FGeneric("gd", <<"int">>), FGeneric("gi", <<"double", "ptr_int">>), FGeneric("gp", <<"ptr_char", "bool">>)},
  R_va_arg_type |-> {FVaArg("gi", "int")},
  R_va_list_type |-> {FBuiltin("va_copy_dst", FALSE), FBuiltin("va_copy_src", TRUE), FBuiltin("va_end_bad", FALSE), FBuiltin("va_start_bad", FALSE)},
  R_offsetof |-> {FBuiltin(k, FALSE) : k \in {"offsetof_nonstruct", "offsetof_nomember", "offsetof_idx_nonarray", "offsetof_mem_nonstruct", "offsetof_nested_nomember"}},
  R_int_constant_range |-> {FLit("too_big_int")},
  R_lex_empty_char |-> {FLit("empty_char")},
  R_lex_bad_escape |-> {FLit("bad_escape"), FLit("bad_escape_str"), FLit("bad_hex")},
  R_lex_unterminated_literal |-> {FLit("unterm_str"), FLit("unterm_char"), FLit("eof_char"), FLit("eof_str")},
  R_lex_unterminated_comment |-> {FLit("eof_comment"), FMisc("eof_comment_decl")},
  R_lex_bad_number |-> {FLit("bad_int_suffix"), FLit("bad_octal"), FLit("bad_float_suffix"), FLit("hex_nodigits"), FLit("exp_nodigits"), FLit("bin_nodigits")},
  R_lex_string_prefix_mix |-> {FLit("mixed_prefix")},
  R_lex_stray_char |-> {FLit("stray_char")},
  R_case_outside_switch |-> {FStmt("case", "1"), FStmt("case", "2")},
  R_dup_case |-> {FStmt("case", "1")},
  R_dup_case_converted |-> {
     \* written differently, equal after conversion to the promoted controlling type
     FSwCase("int", KC(1, "0", "int", "lit"), KC(1, "1", "ll", "lit")), FSwCase("int", KC(7, "0", "int", "lit"), KC(7, "2", "ll", "sum")),
     FSwCase("int", KC(1, "0", "int", "lit"), KC(1, "-1", "ll", "lit")), FSwCase("int", KC(1, "0", "int", "lit"), KC(1, "max31", "ll", "lit")),
     FSwCase("int", KC(1, "0", "int", "lit"), KC(1, "min31", "ll", "lit")), FSwCase("int", KC(1, "0", "int", "lit"), KC(1, "1", "ull", "lit")),
     FSwCase("int", KC(-1, "0", "int", "lit"), KC(-1, "1", "uint", "lit")), FSwCase("int", KC(-1, "0", "int", "lit"), KC(-1, "p32", "ull", "lit")),
     FSwCase("int", KC(-1, "0", "int", "lit"), KC(-1, "-1", "ll", "lit")), FSwCase("int", KC(7, "0", "int", "lit"), KC(7, "max31", "ull", "lit")),
     FSwCase("bool", KC(1, "0", "int", "lit"), KC(1, "1", "ll", "lit")), FSwCase("char", KC(7, "0", "int", "lit"), KC(7, "-1", "ll", "sum")),
     FSwCase("short", KC(1, "0", "int", "lit"), KC(1, "2", "ull", "lit")), FSwCase("short", KC(-1, "0", "int", "lit"), KC(-1, "1", "uint", "lit")),
     FSwCase("unsigned", KC(1, "0", "int", "lit"), KC(1, "1", "ll", "lit")), FSwCase("unsigned", KC(-1, "0", "int", "lit"), KC(-1, "1", "uint", "lit")),
     FSwCase("unsigned", KC(7, "0", "int", "lit"), KC(7, "min31", "ll", "sum")), FSwCase("unsigned", KC(-1, "0", "int", "lit"), KC(-1, "max31", "ull", "lit")),
     FSwCase("long", KC(-1, "0", "int", "lit"), KC(-1, "p32", "ull", "lit")), FSwCase("ulong", KC(-1, "0", "int", "lit"), KC(-1, "p32", "ull", "lit")),
     FSwCase("long", KC(1, "0", "int", "lit"), KC(1, "0", "ull", "lit")), FSwCase("ulong", KC(7, "0", "int", "lit"), KC(7, "0", "ll", "lit"))},
  R_case_nonconst |-> {FStmt("case", "gi"), FStmt("case", "1.5")},
  R_default_outside_switch |-> {FStmt("default", "")},
  R_dup_default |-> {FStmt("default", "")},
  R_dup_label |-> {FStmt("label", "L1")},
  R_undefined_label |-> {FStmt("goto", "nolabel")},
  R_break_outside |-> {FStmt("break", "")},
  R_continue_outside |-> {FStmt("continue", "")},
  R_return_value_in_void |-> {FStmt("return", "gi"), FStmt("return", "gp"), FStmt("return", "gs")},
  R_return_novalue |-> {FStmt("return", "none")},
  R_control_scalar |-> {FCtl("if", "gs"), FCtl("while", "gs"), FCtl("do", "gs"), FCtl("for", "gs")},
  R_switch_integer |-> {FCtl("switch", "gd"), FCtl("switch", "gp"), FCtl("switch", "gs")},
  R_not_c11 |-> {FSpec(<<"_BitInt">>), FSpec(<<"_Decimal32">>), FSpec(<<"_Decimal64">>), FSpec(<<"_Decimal128">>), FSpec(<<"constexpr", "int">>), FMisc("nullptr_assign"),
     [FEnum(<<En("ZA", "")>>) EXCEPT !.ub = "nope"], [FEnum(<<En("ZA", "256")>>) EXCEPT !.ub = "unsigned char"]},
  R_no_type_specifier |-> {FSpec(<<"const">>), FSpec(<<"const", "volatile">>)},
  R_specifier_combo |-> {FSpec(<<"int", "int">>), FSpec(<<"void", "int">>), FSpec(<<"short", "short">>), FSpec(<<"long", "long", "long">>),
     FSpec(<<"signed", "unsigned">>), FSpec(<<"signed", "signed">>), FSpec(<<"unsigned", "unsigned", "int">>), FSpec(<<"unsigned", "double">>),
     FSpec(<<"short", "char">>), FSpec(<<"long", "char">>), FSpec(<<"float", "int">>), FSpec(<<"int", "struct_S">>), FSpec(<<"signed", "float">>),
     FSpec(<<"long", "float">>), FSpec(<<"short", "double">>), FSpec(<<"td_t", "int">>), FSpec(<<"_Bool", "int">>), FSpec(<<"signed", "_Bool">>),
     FSpec(<<"long", "void">>)},
  R_storage_combo |-> {FSc(<<"static", "extern">>, "obj"), FSc(<<"typedef", "static">>, "obj"), FSc(<<"static", "static">>, "obj"),
     FSc(<<"typedef", "_Thread_local">>, "obj"), FSc(<<"static", "_Thread_local", "extern">>, "obj")},
  R_storage_file_scope |-> {FSc(<<"auto">>, "obj"), FSc(<<"register">>, "obj"), FSc(<<"register">>, "fn"), FSc(<<"auto">>, "fn")},
  R_storage_block_tls |-> {FSc(<<"_Thread_local">>, "obj")},
  R_storage_block_func |-> {FSc(<<"static">>, "fn"), FSc(<<"auto">>, "fn"), FSc(<<"register">>, "fn")},
  R_void_object |-> {FObj("void")},
  R_incomplete_object |-> {FObj("struct_I"), FObj("arr_unk"), FInit("struct_I", 1, "none", "k1")},
  R_bitfield_type |-> {FBf("double", 3, TRUE, FALSE, 0), FBf("ptr_int", 3, TRUE, FALSE, 0), FBf("struct_S", 3, TRUE, FALSE, 0), FBf("double", 3, FALSE, FALSE, 0)},
  R_bitfield_width |-> {FBf("int", 33, TRUE, FALSE, 0), FBf("int", -1, TRUE, FALSE, 0), FBf("int", 33, FALSE, FALSE, 0), FBf("int", -1, FALSE, FALSE, 0)},
  R_bitfield_zero_named |-> {FBf("int", 0, TRUE, FALSE, 0), FBf("bool", 0, TRUE, FALSE, 0)},
  R_alignas_bitfield |-> {FBf("int", 3, TRUE, FALSE, 8)},
  R_alignas_value |-> {FAlignas(3, "int"), FAlignas(24, "double"), FAlignas(3, "member"), FMisc("attr_aligned_bad")},
  R_alignas_weaker |-> {FAlignas(1, "int"), FAlignas(2, "int"), FAlignas(1, "double"), FAlignas(2, "member"), FAlignas(1, "member")},
  R_alignas_target |-> {FAlignas(8, "typedef"), FAlignas(8, "fn"), FAlignas(8, "param"), FAlignas(16, "typedef")},
  R_array_size_negative |-> {FArr("-1", "int"), FArr("k_neg_expr", "int")},
  R_array_size_zero |-> {FArr("0", "int")},
  R_array_size_type |-> {FArr("1.5", "int")},
  R_array_too_large |-> {FArr("huge", "int")},
  R_static_vla |-> {FMisc("vla_static")},
  R_init_vla |-> {FMisc("vla_init"), FMisc("vla2_init")},
  R_constexpr_range |-> {FMisc("const_fold_overflow_s"), FMisc("const_fold_overflow_u")},
  R_init_empty |-> {FInit("arr_unk", 0, "none", "k1")},
  R_array_elem |-> {FArr("3", "void"), FArr("3", "struct_I"), FArr("3", "fn")},
  R_static_assert |-> {FSa("0", "decl", TRUE), FSa("0", "struct", TRUE), FSa("0", "decl", FALSE)},
  R_static_assert_nonconst |-> {FSa("gi", "decl", TRUE), FSa("1.5", "decl", TRUE), FSa("gi", "struct", TRUE)},
  R_designator |-> {FInit("struct_T", 1, "mem_zz", "k1"), FInit("struct_S", 1, "mem_q", "k1"), FInit("arr2", 1, "idx2", "k1"), FInit("arr2", 1, "idxneg", "k1"),
     FInit("struct_T", 1, "idx0", "k1"), FInit("arr2", 1, "mem_m", "k1"), FInit("int", 1, "idx0", "k1"), FInit("int", 1, "mem_m", "k1"),
     FInit("arr_unk", 1, "idxneg", "k1")},
  R_too_many_init |-> {FInit("arr2", 3, "none", "k1"), FInit("struct_T", 2, "none", "k1"), FInit("int", 2, "none", "k1"), FInit("arr2", 2, "idx1", "k1"),
     FInit("struct_S", 3, "none", "k1"), FInit("struct_S", 3, "mem_m", "k1"),
     FNInit("arr22", 3), FNInit("arr22", 4), FNInit("sarr", 3), FNInit("sstr", 2), FNInit("sun", 2), FNInit("sun", 3)},
  R_init_nonconst |-> {FInit("int", 1, "none", "gi"), FInit("arr2", 2, "none", "gi"), FSInit("int", "gi"), FSInit("ptr_int", "gp"), FSInit("struct_S", "gs")},
  R_static_init_address |-> {FMisc("static_init_addr_local"), FMisc("static_init_addr_compound"), FMisc("static_init_addr_index")}
     \cup {FSInitAddr(d, sh) : d \in {"auto", "tls_file", "tls_block", "tls_extern"}, sh \in {"scalar", "member", "elem", "decay"}},
  R_init_string_width |-> {FStrInit("char4", "wide"), FStrInit("charunk", "wide"), FStrInit("int4", "narrow")},
  R_dup_member |-> {FStruct(<<M("a", "int"), M("a", "int")>>), FStruct(<<M("a", "int"), M("b", "int"), M("a", "int")>>),
     FStruct(<<M("a", "int"), [M("", "anon") EXCEPT !.inner = <<"a">>]>>),
     FStruct(<<[M("", "anon") EXCEPT !.inner = <<"x", "y">>], [M("", "anon") EXCEPT !.inner = <<"z", "x">>]>>)},
  R_struct_no_members |-> {FStruct(<<>>), FStruct(<<M("", "sa")>>)},
  R_member_flexible_struct |-> {FStruct(<<M("n", "int"), M("x", "flexstruct")>>)},
  R_member_vla |-> {FStruct(<<M("a", "vla")>>)},
  R_member_incomplete |-> {FStruct(<<M("x", "struct_I")>>), FStruct(<<M("a", "int"), M("x", "self")>>)},
  R_member_function |-> {FStruct(<<M("x", "fn")>>)},
  R_flexible_not_last |-> {FStruct(<<M("n", "int"), M("fl", "flex"), M("z", "int")>>)},
  R_member_no_declarator |-> {FStruct(<<M("", "int")>>), FStruct(<<M("a", "int"), M("", "int")>>)},
  R_member_specifier |-> {FStruct(<<[M("a", "int") EXCEPT !.pre = "static"]>>), FStruct(<<[M("a", "int") EXCEPT !.pre = "inline"]>>)},
  R_dup_param |-> {FParam(<<Pm("a", "", "int"), Pm("a", "", "int")>>, d) : d \in BOOLEAN} \cup
                  {FParam(<<Pm("a", "", "int"), Pm("b", "", "int"), Pm("a", "", "int")>>, FALSE)},
  R_param_storage |-> {FParam(<<Pm("a", "static", "int")>>, FALSE), FParam(<<Pm("a", "extern", "int"), Pm("b", "", "int")>>, FALSE)},
  R_param_no_type |-> {FParam(<<Pm("a", "", "")>>, FALSE)},
  R_func_returns |-> {FFdecl("fn"), FFdecl("arr")},
  R_redecl_kind |-> {FRedecl("gi", "fn", "fn_ii", "none", FALSE), FRedecl("gf", "obj", "int", "extern", FALSE)},
  R_typedef_redef |-> {FRedecl("td_t", "typedef", "double", "none", FALSE)},
  R_redecl_nolinkage |-> {FRedecl("li", "obj", "int", "none", FALSE), FRedecl("li", "obj", "int", "static", FALSE),
     FRedecl("li", "obj", "int", "extern", FALSE), FRedecl("pa", "obj", "int", "none", FALSE)},
  R_redecl_linkage |-> {FRedecl("gi", "obj", "int", "static", FALSE), FRedecl("gst", "obj", "int", "none", FALSE)},
  R_redecl_incompatible |-> {FRedecl("gi", "obj", "double", "extern", FALSE), FRedecl("gf", "fn", "fn_id", "none", FALSE)},
  R_redecl_tls |-> {FRedecl("gi", "obj", "int", "tls", FALSE)},
  R_redefinition |-> {FRedecl("gdef", "obj", "int", "none", TRUE), FRedecl("gfd", "fn", "fn_ii", "none", TRUE)},
  R_extern_init_block |-> {FRedecl("gi", "obj", "int", "extern", TRUE)},
  R_tag_kind |-> {FTag("union", "S", FALSE, "ptr"), FTag("struct", "U", FALSE, "ptr"), FTag("struct", "E", FALSE, "ptr")},
  R_tag_redefinition |-> {FTag("struct", "S", TRUE, "decl"), FTag("enum", "E", TRUE, "decl"), FTag("union", "U", TRUE, "ptr")},
  R_enum_nonconst |-> {FEnum(<<En("ZA", "gi")>>), FEnum(<<En("ZA", "1.5")>>), FEnum(<<En("ZA", "3"), En("ZB", "gi")>>)},
  R_enum_fixed_range |-> {
     FEnumFix("int", FALSE, 64, -1, "ulong", FALSE), FEnumFix("int", FALSE, 63, 0, "ulong", FALSE), FEnumFix("int", FALSE, 64, -3, "ulong", FALSE),
     FEnumFix("int", FALSE, 31, 0, "unsigned", FALSE), FEnumFix("int", FALSE, 31, 0, "long", FALSE), FEnumFix("int", TRUE, 31, 1, "long", FALSE),
     FEnumFix("int", FALSE, 32, -1, "unsigned", FALSE), FEnumFix("int", FALSE, 64, -1, "ulong", TRUE),
     FEnumFix("long", FALSE, 63, 0, "ulong", FALSE), FEnumFix("long", FALSE, 64, -1, "ulong", FALSE), FEnumFix("long", FALSE, 63, 0, "ulong", TRUE),
     FEnumFix("long long", FALSE, 63, 0, "ulong", FALSE), FEnumFix("long long", FALSE, 64, -3, "ulong", FALSE),
     FEnumFix("signed char", FALSE, 64, -3, "ulong", FALSE), FEnumFix("signed char", FALSE, 7, 0, "int", FALSE), FEnumFix("signed char", TRUE, 7, 1, "int", FALSE),
     FEnumFix("signed char", FALSE, 8, -1, "int", FALSE), FEnumFix("short", FALSE, 15, 0, "int", FALSE), FEnumFix("short", TRUE, 15, 1, "int", FALSE),
     FEnumFix("short", FALSE, 64, -1, "ulong", FALSE), FEnumFix("unsigned char", FALSE, 8, 0, "int", FALSE), FEnumFix("unsigned char", TRUE, 0, 0, "int", FALSE),
     FEnumFix("unsigned char", FALSE, 64, -1, "ulong", FALSE), FEnumFix("unsigned", TRUE, 0, 0, "int", FALSE), FEnumFix("unsigned", FALSE, 32, 0, "long", FALSE),
     FEnumFix("unsigned", FALSE, 32, 0, "ulong", FALSE), FEnumFix("unsigned", TRUE, 0, 0, "long", FALSE), FEnumFix("unsigned", FALSE, 63, 0, "ulong", TRUE)},
  R_enum_range |-> {FEnum(<<En("ZA", "max_u64"), En("ZB", "")>>), FEnum(<<En("ZA", "max_i64"), En("ZB", "")>>), FEnum(<<En("ZA", "-1"), En("ZB", "max_u64")>>)},
  R_dup_enumerator |-> {FEnum(<<En("ZA", ""), En("ZA", "")>>), FEnum(<<En("ZA", "3"), En("ZB", ""), En("ZA", "9")>>)},
  R_empty_declaration |-> {FMisc("toplevel_semi")},
  R_nested_function |-> {FMisc("nested_fn")},
  R_syntax_drop |-> DropFrags,
  R_syntax |-> {FMisc("missing_semi"), FMisc("unbalanced_paren"), FMisc("kw_as_ident"), FMisc("init_missing_comma"), FGeneric("gi", <<"bad", "default">>)}
               \cup {FSynx(k) : k \in {"member_nonident", "alignof_noparen", "missing_operand", "cond_missing_colon", "typedef_as_value"}},
  R_dir_unknown |-> {D0("foo")},
  R_dir_unbalanced |-> {D0("elif"), D0("else"), D0("endif")},
  R_error_directive |-> {D0("error")},
  R_macro_redefinition |-> {[D0("define") EXCEPT !.redef = r] : r \in {"diff", "diff_kind", "diff_params"}},
  R_hash_not_param |-> {DI("nonparam", "none", FALSE), DI("nonident", "none", FALSE)},
  R_va_args_misuse |-> {DI("none", "nonvariadic_used", FALSE), [D0("define") EXCEPT !.va = "nonvariadic_used"],
                        DI("none", "nonvariadic_later", FALSE), [D0("define") EXCEPT !.va = "nonvariadic_later"]},
  R_macro_no_name |-> {[D0("define") EXCEPT !.named = FALSE], [D0("undef") EXCEPT !.named = FALSE]},
  R_dir_extra_tokens |-> {[D0("undef") EXCEPT !.extra = TRUE]},
  R_macro_arity |-> {FMinv(1, TRUE), FMinv(3, TRUE), FMinv(0, TRUE), FMinvM(1, TRUE, "MG"), FMinvM(3, TRUE, "MG")},
  R_macro_unterminated |-> {FMinv(2, FALSE), FMinvM(1, FALSE, "MG")},
  U_volatile_store |-> {FAsg("=", "gvsa1", "k1"), FAsg("+=", "gvsa1", "gi"), FAsg("=", "gvol", "gi"), FAsg("+=", "gvol", "k1"), FUn("preinc", "gvol")},
  U_long_double |-> {FBin("+", "gld", "gi"), FBin("<", "gi", "gld"), FAsg("=", "gld", "gd"), FAsg("=", "gd", "gld"), FUn("neg", "gld"), FUn("lnot", "gld"),
     FCast("int", "gld"), FSInit("double", "gld"), FCtl("if", "gld")},
  U_atomic |-> {FSpec(<<"_Atomic", "int">>)},
  U_complex |-> {FSpec(<<"double", "_Complex">>), FSpec(<<"float", "_Complex">>)},
  U_asm |-> {FStmt("asm", "")},
  U_multichar |-> {FLit("multi_char")},
  U_va_arg_aggregate |-> {FVaArg("ap", "struct_S"), FVaArg("ap", "union_U")},
  U_packed_bitfield |-> {FBf("int", 3, TRUE, TRUE, 0), FBf("int", 3, FALSE, TRUE, 0)},
  U_pp_conditional |-> {D0("if"), D0("ifdef"), D0("ifndef")},
  U_pp_include |-> {D0("include")},
  U_pp_paste |-> {[D0("define") EXCEPT !.fl = f, !.paste = TRUE] : f \in BOOLEAN},
  U_asm_name |-> {[FRedecl("gi", "obj", "int", "extern", FALSE) EXCEPT !.asm = TRUE], [FRedecl("gf", "fn", "fn_ii", "none", FALSE) EXCEPT !.asm = TRUE],
                  FMisc("typedef_asm")},
  U_gnu_attribute |-> {FMisc("attr_after_paren"), FMisc("attr_aligned_unsup")},
  U_builtin_nanf_arg |-> {FBuiltin("nanf_arg", FALSE)},
  U_init_braces |-> {FMisc("scalar_double_brace")},
  U_source_encoding |-> {FLit("invalid_utf8")}
]

(* where a witness of the rule can be placed so that nothing else is wrong (feasible positions/bases) *)
(* the function-context bases (fn # "plain") take the rules that are diagnosed at the end of the function or by a later pass *)
FnRules == {"R_undefined_label", "R_dup_label", "R_case_outside_switch", "R_default_outside_switch", "R_dup_case", "R_dup_case_converted",
            "R_case_nonconst", "R_dup_default", "R_break_outside", "R_continue_outside", "R_return_value_in_void", "R_return_novalue"}
FnBenign == {FStmt("goto", "L1"), FStmt("label", "L2")}
CtxApp(r, b, p) ==
  CASE FnOf(b) # "plain" /\ r \notin FnRules -> FALSE
    [] r \in {"R_case_outside_switch", "R_default_outside_switch"} -> ~InSwitch(b)
    [] r \in {"R_dup_case", "R_case_nonconst"} -> InSwitch(b)
    [] r = "R_dup_default" -> HasDefault(b)
    [] r = "R_break_outside" -> ~(InLoop(b) \/ InSwitch(b))
    [] r = "R_continue_outside" -> ~InLoop(b)
    [] r = "R_return_value_in_void" -> BaseTab[b].ret = "void"
    [] r = "R_return_novalue" -> BaseTab[b].ret # "void"
    [] r \in {"R_storage_file_scope", "R_empty_declaration", "R_tag_redefinition", "R_redefinition", "R_typedef_redef",
              "R_redecl_linkage", "R_redecl_tls", "R_init_nonconst"} -> p = "file"
    [] r \in {"R_storage_block_tls", "R_storage_block_func", "R_nested_function", "R_extern_init_block"} -> p # "file"
    [] r = "R_redecl_nolinkage" -> ScopeAt(b, p) = "body"
    [] r \in {"R_init_vla", "R_member_vla"} -> p # "file"
    [] r \in {"U_volatile_store", "U_long_double"} -> p # "file"
    [] r = "U_va_arg_aggregate" -> BaseTab[b].var /\ p # "file"
    [] OTHER -> TRUE
App(r, b, p, f) ==
  /\ ~Excluded(b, p, f)
  /\ r # "R_undeclared" => Typed(b, p, f)
  /\ (f.form = "sinit" /\ p = "file" /\ r # "R_init_nonconst") => Ent(f.o).cst
  /\ CtxApp(r, b, p)

(* curated valid fragments (the valid twins of the witnesses) *)
BenignFrags == {
  FBin("==", "gp", "kpi"), FBin("!=", "kv", "gq"), FBin("==", "gp", "knil"), FBin("==", "gfp", "kv"), FBin("!=", "kpi", "k0"), FBin("==", "kv", "kpc"),
  FCond("gi", "gp", "kpi"), FCond("gi", "gq", "kv"), FCond("gi", "kv", "gfp"), FCond("gi", "knil", "gp"), FCond("gi", "k0", "kpc"),
  FCInit(FBin("==", "kpi", "kpi")), FCInit(FBin("!=", "kpi", "kv")), FCInit(FBin("==", "kpc", "k0")), FCInit(FBin("==", "knil", "kpi")),
  FCInit(FCond("k1", "kpi", "kv")), FCInit(FCond("k1", "k0", "kpc")),
  FAsg("=", "gfp", "kv"), FAsg("=", "gp", "kpi"), FAsg("=", "gq", "kv"), FCall("gvar", <<"gi", "gi">>), FCall("gvar", <<"gi", "gi", "gd">>),
  FCall("gvar", <<"gi", "gi", "gp">>), FUn("neg", "gcbf"),
  FEnumFix("int", FALSE, 31, -1, "int", FALSE), FEnumFix("int", TRUE, 31, 0, "long", FALSE), FEnumFix("int", FALSE, -1, 0, "int", FALSE),
  FEnumFix("int", FALSE, 31, -1, "unsigned", FALSE), FEnumFix("int", FALSE, 31, -1, "ulong", TRUE), FEnumFix("long", FALSE, 63, -1, "long", FALSE),
  FEnumFix("long", FALSE, 63, -1, "ulong", FALSE), FEnumFix("long", FALSE, -1, 0, "int", TRUE), FEnumFix("long long", FALSE, 63, -1, "ulong", FALSE),
  FEnumFix("long long", TRUE, 32, 1, "long", FALSE), FEnumFix("signed char", FALSE, 7, -1, "int", FALSE), FEnumFix("signed char", TRUE, 7, 0, "int", FALSE),
  FEnumFix("short", FALSE, 15, -1, "int", FALSE), FEnumFix("short", TRUE, 15, 0, "long", FALSE), FEnumFix("unsigned char", FALSE, 8, -1, "int", FALSE),
  FEnumFix("unsigned char", FALSE, 8, -1, "ulong", FALSE), FEnumFix("unsigned char", FALSE, -1, 0, "int", FALSE), FEnumFix("unsigned", FALSE, 32, -1, "unsigned", FALSE),
  FEnumFix("unsigned", FALSE, 32, -1, "long", FALSE), FEnumFix("unsigned", FALSE, 32, -1, "ulong", FALSE), FEnumFix("unsigned", FALSE, 31, 0, "ulong", TRUE),
  FAsg("=", "gssa1", "k1"), FAsg("=", "gsspa1", "gi"), FAsg("+=", "gsspa1", "k1"), FUn("postinc", "gsspa1"), FUn("preinc", "gssa1"),
  FSInit("ptr_int", "gsspa"), FSInit("ptr_cint", "gcspa"), FSInit("ptr_cint", "gta"), FAsg("=", "gcp", "gcspa"), FAsg("=", "gcp", "gcapd"),
  FAsg("=", "gp", "gsspa"), FUn("neg", "gcsa1"), FAsg("=", "gi", "gcspin"), FAsg("=", "gi", "gcspm2"), FUn("sizeof", "gta1"), FUn("addr", "gcspa1"),
  FAsg("=", "gi", "gvsa1"),
  \* case constants that differ by one after conversion
  FSwCase("int", KC(1, "0", "int", "lit"), KC(2, "1", "ll", "lit")), FSwCase("int", KC(7, "0", "int", "lit"), KC(8, "2", "ll", "sum")),
  FSwCase("int", KC(-1, "0", "int", "lit"), KC(0, "1", "ull", "lit")), FSwCase("int", KC(-1, "0", "int", "lit"), KC(0, "0", "uint", "lit")),
  FSwCase("int", KC(1, "0", "int", "lit"), KC(2, "min31", "ll", "lit")), FSwCase("bool", KC(1, "0", "int", "lit"), KC(2, "max31", "ull", "lit")),
  FSwCase("short", KC(7, "0", "int", "lit"), KC(8, "-1", "ll", "lit")), FSwCase("unsigned", KC(-1, "0", "int", "lit"), KC(0, "1", "ll", "lit")),
  FSwCase("unsigned", KC(1, "0", "int", "lit"), KC(2, "0", "uint", "lit")), FSwCase("long", KC(1, "0", "int", "lit"), KC(1, "1", "ll", "lit")),
  FSwCase("long", KC(-1, "0", "int", "lit"), KC(-1, "1", "uint", "lit")), FSwCase("ulong", KC(-1, "0", "int", "lit"), KC(-1, "-1", "ll", "lit")),
  FSwCase("ulong", KC(7, "0", "int", "lit"), KC(7, "max31", "ull", "lit")),
  FSInitAddr("static", "scalar"), FSInitAddr("static", "member"), FSInitAddr("static", "elem"), FSInitAddr("static", "decay"),
  FTdShadow("td_t", "obj"), FTdShadow("td_t", "param"), FTdShadow("td_t", "member"), FTdShadow("struct_S", "obj"), FTdShadow("struct_S", "param"),
  FTdShadow("struct_S", "member"), FTdShadow("union_U", "obj"), FTdShadow("enum_E", "obj"), FTdShadow("enum_E", "param"), FTdShadow("enum_E", "member"),
  FTdShadow("void_ptr", "obj"), FTdShadow("void_ptr", "param"), FTdShadow("void_ptr", "member"), FTdShadow("_Bool", "obj"), FTdShadow("_Bool", "param"),
  FTdShadow("_Bool", "member"), FTdShadow("int", "obj"), FTdShadow("int", "param"), FTdShadow("int", "member"), FTdShadow("ptr_td", "obj"),
  FTdShadow("ptr_td", "param"), FTdShadow("ptr_td", "member"), FTdShadow("union_U", "member"),
  FNInit("arr22", 2), FNInit("arr22", 1), FNInit("sarr", 2), FNInit("sstr", 1), FNInit("sun", 1), FNInit("sarr", 1),
  FUse("gi"), FUse("ek"), FBin("+", "gp", "gi"), FBin("+", "gi", "gq"), FBin("-", "gp", "gcp"), FBin("-", "gq", "gi"), FBin("==", "gp", "k0"),
  FBin("!=", "gv", "gp"), FBin("==", "gfp", "gfp"), FBin("<", "gp", "gcp"), FBin(">=", "gv", "gv"), FBin("<=", "gip", "gip"), FBin("&", "gi", "k0"),
  FBin("%", "gi", "gi"), FBin("<<", "gi", "k0"), FBin("&&", "gp", "gd"), FBin("||", "gfp", "gi"), FBin("*", "gd", "gi"), FBin("/", "gi", "gd"),
  FUn("addr", "gi"), FUn("addr", "gf"), FUn("addr", "gs"), FUn("addr", "ga"), FUn("addr", "gsm"), FUn("addr", "gld"), FUn("deref", "gp"),
  FUn("deref", "gfp"), FUn("deref", "gf"), FUn("postinc", "gp"), FUn("preinc", "gd"), FUn("predec", "gi"), FUn("postinc", "gsbf"), FUn("preinc", "gb"),
  FUn("sizeof", "gs"), FUn("sizeof", "gld"), FUn("sizeof", "ga"), FUn("sizeof", "ks"), FUn("lnot", "gp"), FUn("bnot", "gi"), FUn("neg", "gd"),
  FUn("pos", "gb"), FUn("preinc", "lr"), FUn("sizeof", "lr"), FUn("neg", "li"),
  FAsg("=", "gi", "gd"), FAsg("=", "gd", "gi"), FAsg("=", "gp", "gv"), FAsg("=", "gv", "gq"), FAsg("=", "gp", "k0"), FAsg("=", "gcp", "gp"),
  FAsg("=", "gs", "gs"), FAsg("=", "gb", "gp"), FAsg("=", "gsbf", "k1"), FAsg("=", "li", "gi"), FAsg("=", "gfp", "gf"), FAsg("+=", "gp", "gi"),
  FAsg("-=", "gq", "k1"), FAsg("<<=", "gi", "k1"), FAsg("*=", "gd", "gi"), FAsg("%=", "gi", "k1"), FAsg("&=", "gsbf", "gi"), FAsg("+=", "gd", "gd"),
  FCall("gf", <<"gi">>), FCall("gf", <<"gd">>), FCall("gfp", <<"k0">>), FCall("gvf", <<>>), FCall("gpf", <<"gp">>), FCall("gpf", <<"k0">>),
  FMem(".", "gs", "m"), FMem("->", "gsp", "m"), FMem(".", "gt", "q"), FIdx("gp", "gi"), FIdx("gi", "gp"), FIdx("ga", "k1"), FIdx("gq", "gi"),
  FCast("int", "gd"), FCast("void", "gs"), FCast("ptr_int", "gv"), FCast("bool", "gp"), FCast("double", "gi"), FCast("int", "gp"), FCast("void", "gf"),
  FCond("gi", "gi", "gd"), FCond("gp", "gp", "k0"), FCond("gi", "gs", "gs"), FCond("gi", "gp", "gv"), FCond("gd", "k0", "gq"), FCond("gi", "gt", "gt"),
  FSizeofT("sizeof", "int"), FSizeofT("_Alignof", "struct_S"), FSizeofT("sizeof", "ptr_inc"), FSizeofT("sizeof", "arr_int"), FSizeofT("_Alignof", "int"),
  FSInit("int", "k1"), FSInit("double", "k0"), FSInit("ptr_int", "k0"), FSInit("ptr_char", "ks"), FSInit("bool", "kd"), FSInit("int", "gi"),
  FSInit("ptr_int", "ga"), FSInit("ptr_void", "gp"), FSInit("ptr_cint", "gp"), FSInit("struct_S", "gs"), FSInit("double", "gi"), FSInit("bool", "gp"),
  FLit("ok_int"), FLit("ok_hex"), FLit("ok_ull"), FLit("ok_float"), FLit("ok_char"), FLit("ok_esc"), FLit("ok_str"), FLit("ok_strcat"), FLit("ok_wide"),
  FGeneric("gi", <<"int", "default">>), FGeneric("gd", <<"int", "double", "ptr_int">>), FGeneric("gp", <<"default">>), FGeneric("gp", <<"double", "ptr_int">>),
  FVaArg("ap", "int"), FVaArg("ap", "double"), FVaArg("ap", "ptr_int"),
  FStmt("label", "L2"), FStmt("goto", "L1"), FStmt("empty", ""),
  FCtl("if", "gi"), FCtl("while", "gp"), FCtl("do", "gd"), FCtl("for", "gb"), FCtl("switch", "gi"), FCtl("switch", "gb"), FCtl("if", "ga"),
  FSpec(<<"int">>), FSpec(<<"long", "long">>), FSpec(<<"unsigned", "long", "long", "int">>), FSpec(<<"signed", "char">>), FSpec(<<"short", "int">>),
  FSpec(<<"long", "unsigned">>), FSpec(<<"unsigned">>), FSpec(<<"long", "double">>), FSpec(<<"struct_S">>), FSpec(<<"td_t">>), FSpec(<<"_Bool">>),
  FSpec(<<"const", "int">>),
  FSc(<<>>, "obj"), FSc(<<"static">>, "obj"), FSc(<<"extern">>, "obj"), FSc(<<"typedef">>, "obj"), FSc(<<"_Thread_local", "static">>, "obj"),
  FSc(<<"extern", "_Thread_local">>, "obj"), FSc(<<>>, "fn"), FSc(<<"extern">>, "fn"), FSc(<<"typedef">>, "fn"),
  FObj("int"), FObj("struct_S"), FObj("ptr_inc"),
  FBf("int", 3, TRUE, FALSE, 0), FBf("int", 32, TRUE, FALSE, 0), FBf("int", 0, FALSE, FALSE, 0), FBf("bool", 1, TRUE, FALSE, 0), FBf("int", 1, FALSE, FALSE, 0),
  FAlignas(8, "int"), FAlignas(16, "double"), FAlignas(0, "int"), FAlignas(8, "member"), FAlignas(8, "double"),
  FArr("3", "int"), FSa("1", "decl", TRUE), FSa("1", "struct", TRUE), FMisc("vla_ok"), FMisc("static_init_addr_ok"), FSynx("paren_ok"), FCall("gsfn", <<"gs">>),
  FBuiltin("offsetof_ok", FALSE), FBuiltin("offsetof_nested_ok", FALSE), FBuiltin("offsetof_idx_ok", FALSE), FBuiltin("nanf_ok", FALSE),
  FBuiltin("tcp_ok", FALSE), FBuiltin("constant_p_ok", FALSE), FBuiltin("expect_ok", FALSE), FBuiltin("alloca_ok", FALSE),
  FBuiltin("unreachable_ok", FALSE), FBuiltin("inff_ok", FALSE), FBuiltin("va_copy_ok", TRUE), FBuiltin("va_end_ok", TRUE),
  FInit("int", 1, "none", "k1"), FInit("arr2", 2, "none", "k1"), FInit("arr2", 1, "idx1", "k1"), FInit("arr_unk", 3, "none", "k1"), FInit("arr_unk", 2, "idx2", "k1"),
  FInit("struct_T", 1, "mem_q", "k1"), FInit("struct_S", 2, "none", "k1"), FInit("struct_S", 2, "mem_m", "k1"), FInit("struct_T", 1, "none", "k1"),
  FStrInit("char4", "narrow"), FStrInit("charunk", "narrow"), FStrInit("int4", "wide"), FStrInit("charp", "narrow"),
  FStruct(<<M("a", "int"), M("b", "int")>>), FStruct(<<M("a", "int")>>), FStruct(<<M("a", "int"), [M("", "anon") EXCEPT !.inner = <<"b", "c">>]>>),
  FStruct(<<M("n", "int"), M("fl", "flex")>>), FStruct(<<[M("a", "int") EXCEPT !.pre = "const"], M("p", "selfptr")>>),
  FParam(<<Pm("a", "", "int"), Pm("b", "", "int")>>, FALSE), FParam(<<Pm("a", "", "int"), Pm("b", "", "int")>>, TRUE), FParam(<<Pm("a", "register", "int")>>, FALSE),
  FParam(<<Pm("", "", "int"), Pm("", "", "int")>>, FALSE),
  FFdecl("int"), FFdecl("ptr_int"),
  FRedecl("gi", "obj", "int", "extern", FALSE), FRedecl("gi", "obj", "int", "none", TRUE), FRedecl("gst", "obj", "int", "extern", FALSE),
  FRedecl("gf", "fn", "fn_ii", "none", FALSE), FRedecl("gf", "fn", "fn_ii", "none", TRUE), FRedecl("td_t", "typedef", "int", "none", FALSE),
  FRedecl("gdef", "obj", "int", "none", FALSE), FRedecl("gst", "obj", "int", "static", TRUE),
  FTag("struct", "S", FALSE, "decl"), FTag("struct", "S", FALSE, "ptr"), FTag("struct", "I", TRUE, "decl"), FTag("union", "Znew", TRUE, "ptr"),
  FTag("enum", "E", FALSE, "ptr"), FTag("struct", "Znew", FALSE, "ptr"), FTag("enum", "Znew", TRUE, "decl"),
  FEnum(<<En("ZA", ""), En("ZB", "3")>>), FEnum(<<En("ZA", "")>>),
  FMisc("asm_label"), FMisc("attr_ok"),
  D0("define"), D0("undef"), D0("pragma"), D0("line"), D0("null"), [D0("define") EXCEPT !.redef = "same"], DI("param", "none", FALSE),
  DI("none", "variadic_used", FALSE), DI("none", "none", FALSE),
  FMinv(2, TRUE), FMinvM(2, TRUE, "MG")}

(* valid statements whose validity depends on the base *)
BenignCtx(b) ==
  (IF InLoop(b) \/ InSwitch(b) THEN {FStmt("break", "")} ELSE {}) \cup
  (IF InLoop(b) THEN {FStmt("continue", "")} ELSE {}) \cup
  (IF InSwitch(b) THEN {FStmt("case", "2")} ELSE {}) \cup
  (IF InSwitch(b) /\ ~HasDefault(b) THEN {FStmt("default", "")} ELSE {}) \cup
  (LET r == BaseTab[b].ret IN
     CASE r = "void" -> {FStmt("return", "none")}
       [] r \in {"int", "double"} -> {FStmt("return", "gi"), FStmt("return", "gd"), FStmt("return", "k0")}
       [] r = "ptr_int" -> {FStmt("return", "gp"), FStmt("return", "k0")}
       [] r = "struct_S" -> {FStmt("return", "gs")}
       [] OTHER -> {})

(* ------------------------------------------------------------------------------ *)
(* the generator                                                                      *)
EmptySlots == [s \in Positions |-> None]
Prog(b, p, f) == [base |-> b, slots |-> [EmptySlots EXCEPT ![p] = f]]

Init == /\ prog \in {[base |-> b, slots |-> EmptySlots] : b \in BaseIds}
        /\ claim = "valid"

Fill(p, f, c) == /\ Filled(prog) = {}
                 /\ p \in PosSet
                 /\ prog' = [prog EXCEPT !.slots[p] = f]
                 /\ claim' = c

Violate(r, p) == /\ "witness" \in Mode
                 /\ \E f \in Wit[r] : App(r, prog.base, p, f) /\ Fill(p, f, r)
Benign(p)     == /\ "benign" \in Mode
                 /\ \E f \in (IF FnOf(prog.base) = "plain" THEN BenignFrags ELSE FnBenign) \cup BenignCtx(prog.base) :
                       /\ ~Excluded(prog.base, p, f) /\ Typed(prog.base, p, f)
                       /\ (f.form = "sinit" /\ p = "file") => Ent(f.o).cst
                       /\ Fill(p, f, "valid")
Compose(p)    == /\ "compose" \in Mode
                 /\ \E f \in AllFragsX : /\ Forms = {} \/ f.form \in Forms
                                        /\ ~Excluded(prog.base, p, f)
                                        /\ Fill(p, f, "any")

Violate_R_undeclared(p) == Violate("R_undeclared", p)
Violate_R_operand_types(p) == Violate("R_operand_types", p)
Violate_R_unary_operand(p) == Violate("R_unary_operand", p)
Violate_R_deref_nonpointer(p) == Violate("R_deref_nonpointer", p)
Violate_R_addr_nonlvalue(p) == Violate("R_addr_nonlvalue", p)
Violate_R_addr_of_bitfield(p) == Violate("R_addr_of_bitfield", p)
Violate_R_addr_of_register(p) == Violate("R_addr_of_register", p)
Violate_R_incdec_nonlvalue(p) == Violate("R_incdec_nonlvalue", p)
Violate_R_incdec_const(p) == Violate("R_incdec_const", p)
Violate_R_incdec_type(p) == Violate("R_incdec_type", p)
Violate_R_sizeof_function(p) == Violate("R_sizeof_function", p)
Violate_R_sizeof_bitfield(p) == Violate("R_sizeof_bitfield", p)
Violate_R_sizeof_incomplete(p) == Violate("R_sizeof_incomplete", p)
Violate_R_abstract_declarator_ident(p) == Violate("R_abstract_declarator_ident", p)
Violate_R_assign_nonlvalue(p) == Violate("R_assign_nonlvalue", p)
Violate_R_assign_const(p) == Violate("R_assign_const", p)
Violate_R_incompatible_ptr(p) == Violate("R_incompatible_ptr", p)
Violate_R_assign_incompatible(p) == Violate("R_assign_incompatible", p)
Violate_R_compound_assign_types(p) == Violate("R_compound_assign_types", p)
Violate_R_call_nonfunction(p) == Violate("R_call_nonfunction", p)
Violate_R_call_arity(p) == Violate("R_call_arity", p)
Violate_R_member_of_nonstruct(p) == Violate("R_member_of_nonstruct", p)
Violate_R_no_member(p) == Violate("R_no_member", p)
Violate_R_subscript(p) == Violate("R_subscript", p)
Violate_R_cast_nonscalar(p) == Violate("R_cast_nonscalar", p)
Violate_R_cond_first_operand(p) == Violate("R_cond_first_operand", p)
Violate_R_cond_operands(p) == Violate("R_cond_operands", p)
Violate_R_generic_dup_default(p) == Violate("R_generic_dup_default", p)
Violate_R_generic_assoc_type(p) == Violate("R_generic_assoc_type", p)
Violate_R_generic_dup_type(p) == Violate("R_generic_dup_type", p)
Violate_R_generic_nomatch(p) == Violate("R_generic_nomatch", p)
Violate_R_va_arg_type(p) == Violate("R_va_arg_type", p)
Violate_R_va_list_type(p) == Violate("R_va_list_type", p)
Violate_R_offsetof(p) == Violate("R_offsetof", p)
Violate_R_lex_empty_char(p) == Violate("R_lex_empty_char", p)
Violate_R_lex_bad_escape(p) == Violate("R_lex_bad_escape", p)
Violate_R_lex_unterminated_literal(p) == Violate("R_lex_unterminated_literal", p)
Violate_R_lex_unterminated_comment(p) == Violate("R_lex_unterminated_comment", p)
Violate_R_lex_bad_number(p) == Violate("R_lex_bad_number", p)
Violate_R_int_constant_range(p) == Violate("R_int_constant_range", p)
Violate_R_lex_string_prefix_mix(p) == Violate("R_lex_string_prefix_mix", p)
Violate_R_lex_stray_char(p) == Violate("R_lex_stray_char", p)
Violate_R_case_outside_switch(p) == Violate("R_case_outside_switch", p)
Violate_R_dup_case(p) == Violate("R_dup_case", p)
Violate_R_dup_case_converted(p) == Violate("R_dup_case_converted", p)
Violate_R_case_nonconst(p) == Violate("R_case_nonconst", p)
Violate_R_default_outside_switch(p) == Violate("R_default_outside_switch", p)
Violate_R_dup_default(p) == Violate("R_dup_default", p)
Violate_R_dup_label(p) == Violate("R_dup_label", p)
Violate_R_undefined_label(p) == Violate("R_undefined_label", p)
Violate_R_break_outside(p) == Violate("R_break_outside", p)
Violate_R_continue_outside(p) == Violate("R_continue_outside", p)
Violate_R_return_value_in_void(p) == Violate("R_return_value_in_void", p)
Violate_R_return_novalue(p) == Violate("R_return_novalue", p)
Violate_R_control_scalar(p) == Violate("R_control_scalar", p)
Violate_R_switch_integer(p) == Violate("R_switch_integer", p)
Violate_R_not_c11(p) == Violate("R_not_c11", p)
Violate_R_no_type_specifier(p) == Violate("R_no_type_specifier", p)
Violate_R_specifier_combo(p) == Violate("R_specifier_combo", p)
Violate_R_storage_combo(p) == Violate("R_storage_combo", p)
Violate_R_storage_file_scope(p) == Violate("R_storage_file_scope", p)
Violate_R_storage_block_tls(p) == Violate("R_storage_block_tls", p)
Violate_R_storage_block_func(p) == Violate("R_storage_block_func", p)
Violate_R_void_object(p) == Violate("R_void_object", p)
Violate_R_incomplete_object(p) == Violate("R_incomplete_object", p)
Violate_R_bitfield_type(p) == Violate("R_bitfield_type", p)
Violate_R_bitfield_width(p) == Violate("R_bitfield_width", p)
Violate_R_bitfield_zero_named(p) == Violate("R_bitfield_zero_named", p)
Violate_R_alignas_bitfield(p) == Violate("R_alignas_bitfield", p)
Violate_R_alignas_value(p) == Violate("R_alignas_value", p)
Violate_R_alignas_weaker(p) == Violate("R_alignas_weaker", p)
Violate_R_alignas_target(p) == Violate("R_alignas_target", p)
Violate_R_array_size_negative(p) == Violate("R_array_size_negative", p)
Violate_R_array_size_zero(p) == Violate("R_array_size_zero", p)
Violate_R_array_size_type(p) == Violate("R_array_size_type", p)
Violate_R_array_too_large(p) == Violate("R_array_too_large", p)
Violate_R_static_vla(p) == Violate("R_static_vla", p)
Violate_R_init_vla(p) == Violate("R_init_vla", p)
Violate_R_constexpr_range(p) == Violate("R_constexpr_range", p)
Violate_R_array_elem(p) == Violate("R_array_elem", p)
Violate_R_static_assert(p) == Violate("R_static_assert", p)
Violate_R_static_assert_nonconst(p) == Violate("R_static_assert_nonconst", p)
Violate_R_designator(p) == Violate("R_designator", p)
Violate_R_too_many_init(p) == Violate("R_too_many_init", p)
Violate_R_init_empty(p) == Violate("R_init_empty", p)
Violate_R_init_nonconst(p) == Violate("R_init_nonconst", p)
Violate_R_static_init_address(p) == Violate("R_static_init_address", p)
Violate_R_init_string_width(p) == Violate("R_init_string_width", p)
Violate_R_dup_member(p) == Violate("R_dup_member", p)
Violate_R_struct_no_members(p) == Violate("R_struct_no_members", p)
Violate_R_member_flexible_struct(p) == Violate("R_member_flexible_struct", p)
Violate_R_member_vla(p) == Violate("R_member_vla", p)
Violate_R_member_incomplete(p) == Violate("R_member_incomplete", p)
Violate_R_member_function(p) == Violate("R_member_function", p)
Violate_R_flexible_not_last(p) == Violate("R_flexible_not_last", p)
Violate_R_member_no_declarator(p) == Violate("R_member_no_declarator", p)
Violate_R_member_specifier(p) == Violate("R_member_specifier", p)
Violate_R_dup_param(p) == Violate("R_dup_param", p)
Violate_R_param_storage(p) == Violate("R_param_storage", p)
Violate_R_param_no_type(p) == Violate("R_param_no_type", p)
Violate_R_func_returns(p) == Violate("R_func_returns", p)
Violate_R_redecl_kind(p) == Violate("R_redecl_kind", p)
Violate_R_typedef_redef(p) == Violate("R_typedef_redef", p)
Violate_R_redecl_nolinkage(p) == Violate("R_redecl_nolinkage", p)
Violate_R_redecl_linkage(p) == Violate("R_redecl_linkage", p)
Violate_R_redecl_incompatible(p) == Violate("R_redecl_incompatible", p)
Violate_R_redecl_tls(p) == Violate("R_redecl_tls", p)
Violate_R_redefinition(p) == Violate("R_redefinition", p)
Violate_R_extern_init_block(p) == Violate("R_extern_init_block", p)
Violate_R_tag_kind(p) == Violate("R_tag_kind", p)
Violate_R_tag_redefinition(p) == Violate("R_tag_redefinition", p)
Violate_R_enum_nonconst(p) == Violate("R_enum_nonconst", p)
Violate_R_enum_fixed_range(p) == Violate("R_enum_fixed_range", p)
Violate_R_enum_range(p) == Violate("R_enum_range", p)
Violate_R_dup_enumerator(p) == Violate("R_dup_enumerator", p)
Violate_R_empty_declaration(p) == Violate("R_empty_declaration", p)
Violate_R_nested_function(p) == Violate("R_nested_function", p)
Violate_R_syntax_drop(p) == Violate("R_syntax_drop", p)
Violate_R_syntax(p) == Violate("R_syntax", p)
Violate_R_dir_unknown(p) == Violate("R_dir_unknown", p)
Violate_R_dir_unbalanced(p) == Violate("R_dir_unbalanced", p)
Violate_R_error_directive(p) == Violate("R_error_directive", p)
Violate_R_macro_redefinition(p) == Violate("R_macro_redefinition", p)
Violate_R_hash_not_param(p) == Violate("R_hash_not_param", p)
Violate_R_va_args_misuse(p) == Violate("R_va_args_misuse", p)
Violate_R_macro_no_name(p) == Violate("R_macro_no_name", p)
Violate_R_dir_extra_tokens(p) == Violate("R_dir_extra_tokens", p)
Violate_R_macro_arity(p) == Violate("R_macro_arity", p)
Violate_R_macro_unterminated(p) == Violate("R_macro_unterminated", p)
Use_U_volatile_store(p) == Violate("U_volatile_store", p)
Use_U_long_double(p) == Violate("U_long_double", p)
Use_U_atomic(p) == Violate("U_atomic", p)
Use_U_complex(p) == Violate("U_complex", p)
Use_U_asm(p) == Violate("U_asm", p)
Use_U_multichar(p) == Violate("U_multichar", p)
Use_U_va_arg_aggregate(p) == Violate("U_va_arg_aggregate", p)
Use_U_packed_bitfield(p) == Violate("U_packed_bitfield", p)
Use_U_pp_conditional(p) == Violate("U_pp_conditional", p)
Use_U_pp_include(p) == Violate("U_pp_include", p)
Use_U_pp_paste(p) == Violate("U_pp_paste", p)
Use_U_asm_name(p) == Violate("U_asm_name", p)
Use_U_gnu_attribute(p) == Violate("U_gnu_attribute", p)
Use_U_builtin_nanf_arg(p) == Violate("U_builtin_nanf_arg", p)
Use_U_init_braces(p) == Violate("U_init_braces", p)
Use_U_source_encoding(p) == Violate("U_source_encoding", p)
NamedViolate(p) ==
  \/ Violate_R_undeclared(p)
  \/ Violate_R_operand_types(p)
  \/ Violate_R_unary_operand(p)
  \/ Violate_R_deref_nonpointer(p)
  \/ Violate_R_addr_nonlvalue(p)
  \/ Violate_R_addr_of_bitfield(p)
  \/ Violate_R_addr_of_register(p)
  \/ Violate_R_incdec_nonlvalue(p)
  \/ Violate_R_incdec_const(p)
  \/ Violate_R_incdec_type(p)
  \/ Violate_R_sizeof_function(p)
  \/ Violate_R_sizeof_bitfield(p)
  \/ Violate_R_sizeof_incomplete(p)
  \/ Violate_R_abstract_declarator_ident(p)
  \/ Violate_R_assign_nonlvalue(p)
  \/ Violate_R_assign_const(p)
  \/ Violate_R_incompatible_ptr(p)
  \/ Violate_R_assign_incompatible(p)
  \/ Violate_R_compound_assign_types(p)
  \/ Violate_R_call_nonfunction(p)
  \/ Violate_R_call_arity(p)
  \/ Violate_R_member_of_nonstruct(p)
  \/ Violate_R_no_member(p)
  \/ Violate_R_subscript(p)
  \/ Violate_R_cast_nonscalar(p)
  \/ Violate_R_cond_first_operand(p)
  \/ Violate_R_cond_operands(p)
  \/ Violate_R_generic_dup_default(p)
  \/ Violate_R_generic_assoc_type(p)
  \/ Violate_R_generic_dup_type(p)
  \/ Violate_R_generic_nomatch(p)
  \/ Violate_R_va_arg_type(p)
  \/ Violate_R_va_list_type(p)
  \/ Violate_R_offsetof(p)
  \/ Violate_R_lex_empty_char(p)
  \/ Violate_R_lex_bad_escape(p)
  \/ Violate_R_lex_unterminated_literal(p)
  \/ Violate_R_lex_unterminated_comment(p)
  \/ Violate_R_lex_bad_number(p)
  \/ Violate_R_int_constant_range(p)
  \/ Violate_R_lex_string_prefix_mix(p)
  \/ Violate_R_lex_stray_char(p)
  \/ Violate_R_case_outside_switch(p)
  \/ Violate_R_dup_case(p)
  \/ Violate_R_dup_case_converted(p)
  \/ Violate_R_case_nonconst(p)
  \/ Violate_R_default_outside_switch(p)
  \/ Violate_R_dup_default(p)
  \/ Violate_R_dup_label(p)
  \/ Violate_R_undefined_label(p)
  \/ Violate_R_break_outside(p)
  \/ Violate_R_continue_outside(p)
  \/ Violate_R_return_value_in_void(p)
  \/ Violate_R_return_novalue(p)
  \/ Violate_R_control_scalar(p)
  \/ Violate_R_switch_integer(p)
  \/ Violate_R_not_c11(p)
  \/ Violate_R_no_type_specifier(p)
  \/ Violate_R_specifier_combo(p)
  \/ Violate_R_storage_combo(p)
  \/ Violate_R_storage_file_scope(p)
  \/ Violate_R_storage_block_tls(p)
  \/ Violate_R_storage_block_func(p)
  \/ Violate_R_void_object(p)
  \/ Violate_R_incomplete_object(p)
  \/ Violate_R_bitfield_type(p)
  \/ Violate_R_bitfield_width(p)
  \/ Violate_R_bitfield_zero_named(p)
  \/ Violate_R_alignas_bitfield(p)
  \/ Violate_R_alignas_value(p)
  \/ Violate_R_alignas_weaker(p)
  \/ Violate_R_alignas_target(p)
  \/ Violate_R_array_size_negative(p)
  \/ Violate_R_array_size_zero(p)
  \/ Violate_R_array_size_type(p)
  \/ Violate_R_array_too_large(p)
  \/ Violate_R_static_vla(p)
  \/ Violate_R_init_vla(p)
  \/ Violate_R_constexpr_range(p)
  \/ Violate_R_array_elem(p)
  \/ Violate_R_static_assert(p)
  \/ Violate_R_static_assert_nonconst(p)
  \/ Violate_R_designator(p)
  \/ Violate_R_too_many_init(p)
  \/ Violate_R_init_empty(p)
  \/ Violate_R_init_nonconst(p)
  \/ Violate_R_static_init_address(p)
  \/ Violate_R_init_string_width(p)
  \/ Violate_R_dup_member(p)
  \/ Violate_R_struct_no_members(p)
  \/ Violate_R_member_flexible_struct(p)
  \/ Violate_R_member_vla(p)
  \/ Violate_R_member_incomplete(p)
  \/ Violate_R_member_function(p)
  \/ Violate_R_flexible_not_last(p)
  \/ Violate_R_member_no_declarator(p)
  \/ Violate_R_member_specifier(p)
  \/ Violate_R_dup_param(p)
  \/ Violate_R_param_storage(p)
  \/ Violate_R_param_no_type(p)
  \/ Violate_R_func_returns(p)
  \/ Violate_R_redecl_kind(p)
  \/ Violate_R_typedef_redef(p)
  \/ Violate_R_redecl_nolinkage(p)
  \/ Violate_R_redecl_linkage(p)
  \/ Violate_R_redecl_incompatible(p)
  \/ Violate_R_redecl_tls(p)
  \/ Violate_R_redefinition(p)
  \/ Violate_R_extern_init_block(p)
  \/ Violate_R_tag_kind(p)
  \/ Violate_R_tag_redefinition(p)
  \/ Violate_R_enum_nonconst(p)
  \/ Violate_R_enum_fixed_range(p)
  \/ Violate_R_enum_range(p)
  \/ Violate_R_dup_enumerator(p)
  \/ Violate_R_empty_declaration(p)
  \/ Violate_R_nested_function(p)
  \/ Violate_R_syntax_drop(p)
  \/ Violate_R_syntax(p)
  \/ Violate_R_dir_unknown(p)
  \/ Violate_R_dir_unbalanced(p)
  \/ Violate_R_error_directive(p)
  \/ Violate_R_macro_redefinition(p)
  \/ Violate_R_hash_not_param(p)
  \/ Violate_R_va_args_misuse(p)
  \/ Violate_R_macro_no_name(p)
  \/ Violate_R_dir_extra_tokens(p)
  \/ Violate_R_macro_arity(p)
  \/ Violate_R_macro_unterminated(p)
  \/ Use_U_volatile_store(p)
  \/ Use_U_long_double(p)
  \/ Use_U_atomic(p)
  \/ Use_U_complex(p)
  \/ Use_U_asm(p)
  \/ Use_U_multichar(p)
  \/ Use_U_va_arg_aggregate(p)
  \/ Use_U_packed_bitfield(p)
  \/ Use_U_pp_conditional(p)
  \/ Use_U_pp_include(p)
  \/ Use_U_pp_paste(p)
  \/ Use_U_asm_name(p)
  \/ Use_U_gnu_attribute(p)
  \/ Use_U_builtin_nanf_arg(p)
  \/ Use_U_init_braces(p)
  \/ Use_U_source_encoding(p)

Next == /\ Filled(prog) = {}
        /\ \E p \in PosSet : NamedViolate(p) \/ Benign(p) \/ Compose(p)
Spec == Init /\ [][Next]_vars

(* ------------------------------------------------------------------------------ *)
TypeOK == /\ prog.base \in AllBases
          /\ DOMAIN prog.slots = Positions
          /\ claim \in RuleNames \cup UnsupNames \cup {"valid", "any"}

(* sub-context of a fragment, used by the harness in the finding key *)
(* the tags separate defects that share a rule and an operator but live in different code *)
NullVsNonPtr(x, y) == (x = "kv" /\ ~IsPtr(VT(y))) \/ (y = "kv" /\ ~IsPtr(VT(x)))
RECURSIVE SubOf(_)
SubOf(f) == CASE f.form = "bin" -> (IF f.l \in EntNames /\ f.r \in EntNames /\ NullVsNonPtr(f.l, f.r) THEN "nullconst-vs-nonpointer" \o f.op ELSE f.op)
              [] f.form = "un" -> (IF f.a = "gcbf" THEN "constbitfield-" \o f.op
                                   ELSE IF f.op \in IncDec /\ f.a \in EntNames /\ ~IsScalar(VT(f.a)) THEN "nonscalar-" \o f.op
                                   ELSE f.op)
              [] f.form = "asg" -> (IF f.l = "gcbf" THEN "constbitfield-" ELSE "") \o (IF f.op = "=" THEN "assign" ELSE f.op)
              [] f.form = "call" -> f.fn
              [] f.form \in {"sinit", "strinit"} -> "init"
              [] f.form = "init" -> f.tgt
              [] f.form = "stmt" -> f.kind
              [] f.form = "ctl" -> f.kw
              [] f.form = "redecl" -> f.name
              [] f.form \in {"synx", "lit", "misc", "builtin"} -> f.kind
              [] f.form = "dir" -> (IF f.va # "none" THEN f.va ELSE f.d)
              [] f.form = "drop" -> (IF f.with = "" THEN f.tok ELSE f.with)
              [] f.form = "cinit" -> SubOf(f.of)
              [] f.form = "enumfix" -> f.ub
              [] f.form = "swcase" -> f.ct
              [] f.form = "ninit" -> "nested-" \o f.tgt
              [] f.form = "sinitaddr" -> f.dur \o "-" \o f.shape
              [] f.form = "tdshadow" -> f.spec \o "-" \o f.where
              [] OTHER -> f.form

(* One invariant evaluates the rules once per state and does three things:                 *)
(*  Inv_BaseValid  every base is valid and supported;                                        *)
(*  Inv_Claim      catalogue honesty: the post-state of Violate_r violates r and nothing      *)
(*                 else; the post-state of Use_u is valid and uses exactly u; Benign is valid;  *)
(*  emission       the state leaves TLC as a VCASE line (returns TRUE).                        *)
ClaimOK(c, v, u) ==
  /\ c \in RuleNames => v = {c}
  /\ c \in UnsupNames => v = {} /\ u = {c}
  /\ c = "valid" => v = {} /\ u = {}
VerdictOf(v, u) == IF v # {} THEN "invalid" ELSE IF u # {} THEN "unsupported" ELSE "valid"
Inv_Claim ==
  LET v == Violated(prog)
      u == UnsupOf(prog)
      fs == Filled(prog)
  IN /\ fs = {} => v = {} /\ u = {}
     /\ ClaimOK(claim, v, u)
     /\ \A s \in fs : ~Excluded(prog.base, s, prog.slots[s])
     /\ \/ fs = {} /\ PrintT("VCASE " \o ToJson([base |-> prog.base, pos |-> "none", frag |-> None, claim |-> claim,
                                    verdict |-> VerdictOf(v, u), viol |-> v, unsup |-> u, sub |-> ""]))
        \/ \E s \in fs :
             PrintT("VCASE " \o ToJson([base |-> prog.base, pos |-> s, frag |-> prog.slots[s], claim |-> claim,
                                    verdict |-> VerdictOf(v, u), viol |-> v, unsup |-> u, sub |-> SubOf(prog.slots[s])]))
(* Valid/Unsupported/Verdict (defined from the named rules) agree with the sets used above *)
Inv_Defs == /\ Valid(prog) <=> Violated(prog) = {}
            /\ Verdict(prog) = VerdictOf(Violated(prog), UnsupOf(prog))
            /\ R_undeclared(prog) <=> "R_undeclared" \notin Violated(prog)
            /\ R_dup_label(prog) <=> "R_dup_label" \notin Violated(prog)

(* tables the harness needs (entities, types, bases): exported once *)
Meta == [ents |-> [n \in EntNames |-> [decl |-> Ent(n).decl, txt |-> Ent(n).txt, loc |-> Ent(n).loc]],
         ctype |-> CType, prelude |-> PreludeTypes, bases |-> BaseTab, ctlvar |-> CtlVar, locals |-> PreludeLocals, baselocals |-> [b \in AllBases |-> BaseLocals(b)],
         rules |-> RuleNames, unsup |-> UnsupNames,
         nwit |-> [r \in RuleNames \cup UnsupNames |-> Cardinality(Wit[r])]]
ASSUME PrintT("VCASE " \o ToJson([meta |-> Meta]))
ASSUME DOMAIN Wit = RuleNames \cup UnsupNames
ASSUME \A r \in DOMAIN Wit : Wit[r] # {} /\ Wit[r] \subseteq AllFragsX
ASSUME DropBase \subseteq BenignFrags
ASSUME BenignFrags \subseteq AllFrags
ASSUME \A b \in AllBases : BenignCtx(b) \subseteq AllFrags
=============================================================================
