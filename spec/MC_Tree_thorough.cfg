SPECIFICATION Spec
CONSTANTS
  Keys = {0, 1, 7, 8, 15, 16, 127, 128, 248, 255}
  MaxN = 9
  HalfBits = 4
  AllowDup = TRUE
INVARIANTS Inv_BST Inv_Balanced Inv_Heights Inv_Set Inv_Log Inv_PathFits Inv_Ladder Inv_Emit
VIEW View
CHECK_DEADLOCK FALSE
