\* emission config (flow A), thorough: every monotone hash function into 0..7
SPECIFICATION Spec
CONSTANTS
  NKeys = 4
  InitCap = 4
  CapMax = 8
  Buckets = {0,1,2,3,4,5,6,7}
  SortedH = TRUE
  PutVals = {0, 1}
  AllowKeep = TRUE
  AllowReset = TRUE
  MaxOps = 0
INVARIANTS Inv_Type Inv_FreeSlot Inv_Load Inv_Len Inv_NoDup Inv_Dom Inv_Cluster Inv_Get Inv_Emit
VIEW View
CHECK_DEADLOCK FALSE
