\* design record: a directive exit path that skips the restore of ppflags (deviation NullDirLeak: the null directive returns
\* with PPNEWLINE set) lets new-line tokens reach the parser in compile mode: Inv_Newline is violated (expected: TLC exit 12)
SPECIFICATION Spec
CONSTANTS
  Devs = {"NullDirLeak"}
  Space = "qn"
  Modes = {"C"}
  EmitCases = FALSE
  PeekBudget = 0
INVARIANTS Inv_Newline
CHECK_DEADLOCK FALSE
