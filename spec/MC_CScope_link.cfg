\* generator (-simulate): block-scope declarations with linkage (extern objects, function declarations) behind hiding
\* locals / parameters / for-init declarations, with and without a file-scope declaration of the entity
SPECIFICATION CSpec
CONSTANTS
  Names = {1, 2, 3}
  MaxScopes = 60
  MaxDepth = 5
  MaxIds = 0
  MaxLen = 45
  Deep = FALSE
  Feat = {"for", "func", "linkage"}
INVARIANTS Inv_Lexical Inv_Stack Inv_Emit
CHECK_DEADLOCK FALSE
