SPECIFICATION Spec
CONSTANTS
  TopTypes = {"P", "N", "SA", "U"}
  MaxTok = 6
  MaxIdx = 2
  AllowAgg = TRUE
  DevOn = {"CompositeKeepsNew", "SharedIncompleteType", "EmptyBraceNoFocus", "BraceNoReset", "UnionCover", "AutoBackZero", "ReplaceEndOnly"}
  Salt = 0
  EmitCases = TRUE
  FormsOn = {"plain"}
  Prune = TRUE
INVARIANTS TypeOK StackDepth ListSortedDisjoint Refinement Emit
CHECK_DEADLOCK FALSE
