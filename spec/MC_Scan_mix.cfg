SPECIFICATION Spec
CONSTANTS
  Chunks <- MixChunks
  MaxLen = 14
  MinLen = 8
  Variants = {"plain"}
  VarLen = 0
  Mode = "alpha"
  PerturbChars = {}
  Devs = {"NoDigraphs", "NoUCNIdent", "NoUCNEscape"}
  Emit = TRUE
INVARIANTS Inv_Fired Inv_Emit
CHECK_DEADLOCK FALSE
