SPECIFICATION Spec
CONSTANTS
  ItemKinds = {"gcmt_lead", "gcmt_mid", "decl"}
  ViolKinds = {"v_undecl"}
  MaxItems = 2
  MinItems = 0
  MaxCmt = 5
  Devs = {"NewlineLocNextLine", "SetlocAfterLookahead", "DotDotRestore"}
  Emit = TRUE
INVARIANTS Inv_Emit
CHECK_DEADLOCK FALSE
