-------------------------- MODULE Trace_DriverProc --------------------------
(* Flow B of C18: system-call traces of the real driver (strace -f) validated as     *)
(* behaviours of DriverProc.                                                        *)
(*                                                                                  *)
(* The harness turns the driver's OWN system calls into events, in completion order: *)
(*   Reset{cfg}                      a new execution; cfg = configuration the stubs were scripted for *)
(*   Mkstemp                         openat("/tmp/cproc-XXXXXX", O_CREAT|O_EXCL)       *)
(*   Spawn{stage, ok}                clone + the child's execve result                 *)
(*   CloseW                          close() of the write end of the pipe just made     *)
(*   CloseR{pipe}                    close() of a read end the driver held (none today) *)
(*   Wait{stage, status}             wait4(-1) returned that stage; ok | exit1 | sig    *)
(*   Kill{stages}                    consecutive kill(pid, SIGTERM)                      *)
(*   Unlink{paths}                   consecutive unlink(): model names tmpK / outK       *)
(*   SpawnLink{ok}  WaitLink{status} the link command                                   *)
(*   Exit{code}                      exit_group                                          *)
(* The steps of the children (reads, writes, exits, delivery of SIGTERM) are not      *)
(* logged: TLC infers them (any number of unlogged steps between two events), as are  *)
(* the driver's steps that make no system call (MatchPid, WaitDone, …).               *)
(* Accepted iff some path consumes every event: the action consuming the last event   *)
(* sets a TLC register that the POSTCONDITION reads (-workers 1).                     *)
EXTENDS DriverProc, IOUtils

VARIABLE l
TraceLog == ndJsonDeserialize(IOEnv.TRACE)
NT == Len(TraceLog)

ASSUME TLCSet(41, FALSE) /\ TLCSet(42, 0)

Ev == TraceLog[l]
IsEvent(n) == l <= NT /\ TraceLog[l].e = n
Adv == /\ l' = l + 1
       /\ IF l + 1 > TLCGet(42) THEN TLCSet(42, l + 1) ELSE TRUE      \* furthest event reached (diagnostics)
       /\ IF l = NT THEN TLCSet(41, TRUE) ELSE TRUE
ToSet(seq) == {seq[i] : i \in 1..Len(seq)}

TInit ==
  /\ l = 1
  /\ cfg = [ni |-> 1, nst |-> [k \in 1..MaxInputs |-> 1], mode |-> "stdout", fin |-> 0,
            ends |-> [s \in Stages |-> "exit0"], big |-> 0, lend |-> "exit0"]
  /\ pc = "exited" /\ cur = 1 /\ si = 1 /\ npids = 0 /\ success = TRUE
  /\ haspid = [s \in Stages |-> FALSE] /\ wret = 0 /\ output = NONE /\ exitc = NONE
  /\ ch = [s \in Stages |-> NoChild] /\ lk = NoChild
  /\ pipes = [j \in Stages |-> NoPipe]
  /\ files = {} /\ linkStarted = FALSE /\ failed = FALSE /\ early = {}

Reset ==
  /\ IsEvent("Reset") /\ pc = "exited"
  /\ cfg' = [ni |-> Ev.cfg.ni, nst |-> Ev.cfg.nst, mode |-> Ev.cfg.mode, fin |-> Ev.cfg.fin,
             ends |-> Ev.cfg.ends, big |-> Ev.cfg.big, lend |-> Ev.cfg.lend]
  /\ pc' = "start" /\ cur' = 1 /\ si' = 1 /\ npids' = 0 /\ success' = TRUE
  /\ haspid' = [s \in Stages |-> FALSE] /\ wret' = 0 /\ output' = NONE /\ exitc' = NONE
  /\ ch' = [s \in Stages |-> NoChild] /\ lk' = NoChild
  /\ pipes' = [j \in Stages |-> NoPipe]
  /\ files' = {} /\ linkStarted' = FALSE /\ failed' = FALSE /\ early' = {}
  /\ Adv

(* kill: — the property asks that the remaining stages be terminated (checked by outcome: no survivor, no hang);
   what a trace must respect is that only stages that still have a pid (live or un-reaped) are ever signalled.  *)
TKill(S) ==
  /\ pc = "kill"
  /\ S \subseteq {s \in Stages : haspid[s]}
  /\ ch' = [s \in Stages |-> IF s \in S THEN [ch[s] EXCEPT !.term = TRUE] ELSE ch[s]]
  /\ success' = FALSE /\ pc' = "wait"
  /\ UNCHANGED <<cfg, cur, si, npids, haspid, wret, output, exitc, lk, pipes, files, linkStarted, failed, early>>

(* unlink(): only the output of the failing pipeline and temporary objects may be removed (never a file of the user) *)
TUnlink(P, allowed, to) ==
  /\ P \subseteq allowed
  /\ files' = files \ P /\ pc' = to
  /\ UNCHANGED <<cfg, cur, si, npids, success, haspid, wret, output, exitc, ch, lk, pipes, linkStarted, failed, early>>

Logged ==
  \/ IsEvent("Mkstemp") /\ Mkstemp
  \/ IsEvent("Spawn") /\ Ev.stage = si /\ ((Ev.ok /\ SpawnOk) \/ (~Ev.ok /\ SpawnErr))
  \/ IsEvent("CloseW") /\ CloseWriteEnd
  \/ IsEvent("Wait") /\ Ev.stage \in Stages /\ ch[Ev.stage].status = Ev.status /\ Wait(Ev.stage)
  \/ IsEvent("Kill") /\ TKill(ToSet(Ev.stages))
  \/ IsEvent("CloseR") /\ Ev.pipe \in Stages /\ pipes' = [pipes EXCEPT ![Ev.pipe].r = @ \ {0}]
        /\ UNCHANGED <<cfg, pc, cur, si, npids, success, haspid, wret, output, exitc, ch, lk, files, linkStarted, failed, early>>
  \/ IsEvent("Unlink") /\ pc = "unlink" /\ output # NONE /\ output \in ToSet(Ev.paths)
        /\ TUnlink(ToSet(Ev.paths), {output} \cup Temps, "exit1")
  \/ IsEvent("Unlink") /\ pc = "exited" /\ TUnlink(ToSet(Ev.paths), Temps, "exited")       \* clean-up on the way out of fatal()
  \/ IsEvent("Unlink") /\ pc = "unlinktemps" /\ ToSet(Ev.paths) = {TmpOf(k) : k \in 1..cfg.ni} /\ UnlinkTemps
  \/ IsEvent("SpawnLink") /\ ((Ev.ok /\ SpawnLinkOk) \/ (~Ev.ok /\ SpawnLinkErr))
  \/ IsEvent("WaitLink") /\ lk.status = Ev.status /\ WaitLink
  \/ IsEvent("Exit") /\ Exit1 /\ Ev.code = 1
  \/ IsEvent("Exit") /\ ExitLink /\ Ev.code = exitc'
  \/ IsEvent("Exit") /\ pc = "next" /\ NextInput /\ pc' = "exited" /\ Ev.code = exitc'
  \/ IsEvent("Exit") /\ pc = "exited" /\ exitc = Ev.code /\ cfg.lend = "spawn_fails" /\ UNCHANGED vars   \* after fatal()

Unlogged ==
  \/ NameOutput
  \/ MatchPid
  \/ TKill({})
  \/ WaitDone
  \/ output = NONE /\ UnlinkOutput
  \/ NextInput /\ pc' # "exited"
  \/ \E s \in Stages : ChildStep(s)
  \/ LWrite \/ LEnd

TNext == \/ Reset
         \/ Logged /\ Adv
         \/ Unlogged /\ UNCHANGED l
TSpec == TInit /\ [][TNext]_<<vars, l>>

TraceAccepted ==
  LET far == TLCGet(42) IN
  /\ TLCGet("stats").diameter > 0
  /\ IF TLCGet(41) THEN TRUE
     ELSE /\ PrintT("VREJECT " \o ToString(far))
          /\ PrintT(IF far <= NT THEN TraceLog[far] ELSE "end")
          /\ FALSE
=============================================================================
