------------------------------- MODULE Bounds -------------------------------
(* Property C19 (2): the explicit capacity mechanisms of the compiler proper, each as a     *)
(* small action system transcribed from the C source, with the invariant                     *)
(*        every index written is below the capacity in force at the time of the write.       *)
(*                                                                                          *)
(*  buf      scan.c:bufadd / bufget    token buffer: capacity 0 -> Cap0 -> 2*Cap0 ..., one    *)
(*                                      terminator byte added by bufget, buffer reused        *)
(*  array    util.c:arrayadd           byte array: `if (cap - len < n) do cap = cap ? 2*cap   *)
(*                                      : Cap0 while (cap - len < n)`; element sizes Elems     *)
(*  objstack init.c:subobj / advance   obj[ObjCap] of the initializer parser: `++sub ==       *)
(*                                      obj + ObjCap` is fatal before anything is written      *)
(*  desc     token.c:tokendesc         snprintf into DescCap bytes: min(n, DescCap-1) bytes   *)
(*                                      + NUL                                                 *)
(*  args     pp.c:expandfunc           arg[nparam]: argument i is stored at index i only      *)
(*                                      while i < nparam; too many / too few are diagnosed     *)
(*                                                                                          *)
(* From the same constants the module derives the boundary inputs (lengths and depths just   *)
(* below, at and above every threshold, and the large values named by the property) and the  *)
(* outcome class {0, 1} the real compiler must show for each; these leave TLC as VCASE        *)
(* lines from the operator Cases.  tree.c's path array (MAXH) against the AVL height bound    *)
(* is an invariant of spec/Tree.tla (Inv_PathFits, Inv_Log; property C15) and not repeated.   *)
(* Recursion depth has no capacity mechanism in the source: for it the module only names the  *)
(* depths the property quantifies over and the required class.                                *)
EXTENDS Naturals, Integers, Sequences, FiniteSets, TLC, Json

CONSTANTS Cap0,        \* first capacity of bufadd / arrayadd (256)
          MaxLen,      \* the action systems are explored up to this many bytes
          Elems,       \* element sizes used with arrayadd (1: characters, 8: pointers, ...)
          ObjCap,      \* LEN(p->obj) in init.c (32)
          DescCap,     \* sizeof(want), sizeof(got) in token.c (64)
          MaxParam,    \* macro parameters / arguments explored
          NObjHash,    \* number of object-like replacement lists containing # / ## rendered by the harness
          HashHash,    \* which of them (0-based) contain ## (not implemented by cproc: status left open)
          NAttrName,   \* attribute names compared in attr.c (read by the harness at run time) plus one unknown name
          NGuard,      \* number of range-guard probes rendered by the harness (eval.c float->int, decl.c array size, ...)
          BigLens,     \* large token lengths named by the property (beyond MaxLen; same growth rule)
          Depths       \* nesting depths named by the property

VARIABLES mech, len, cap, widx, wcap, fatal
vars == <<mech, len, cap, widx, wcap, fatal>>
(* widx/wcap: index range last written is [widx, widx + wn) ... for one-byte writes wn = 1;  *)
(* for the array the last index written is widx (= v + n - 1).                               *)

Mechs == {"buf", "array", "objstack", "desc", "args"}

Grow(c) == IF c = 0 THEN Cap0 ELSE 2 * c

RECURSIVE GrowUntil(_, _, _)
GrowUntil(c, l, n) == IF c - l < n THEN GrowUntil(Grow(c), l, n) ELSE c

Init == /\ mech \in Mechs /\ len = 0 /\ cap = (IF mech = "objstack" THEN ObjCap ELSE IF mech = "desc" THEN DescCap ELSE 0)
        /\ widx = -1 /\ wcap = 0 /\ fatal = FALSE

(* scan.c:28  if (b->len >= b->cap) { b->cap = b->cap ? b->cap * 2 : 1<<8; realloc } b->str[b->len++] = c; *)
BufAdd ==
  /\ mech = "buf" /\ len <= MaxLen
  /\ LET c2 == IF len >= cap THEN Grow(cap) ELSE cap IN
       cap' = c2 /\ widx' = len /\ wcap' = c2 /\ len' = len + 1
  /\ UNCHANGED <<mech, fatal>>
(* scan.c:38 bufget: bufadd(b, '\0'); copy; b->len = 0  (capacity is kept for the next token) *)
BufGet ==
  /\ mech = "buf"
  /\ LET c2 == IF len >= cap THEN Grow(cap) ELSE cap IN
       cap' = c2 /\ widx' = len /\ wcap' = c2 /\ len' = 0
  /\ UNCHANGED <<mech, fatal>>

(* util.c:115 arrayadd(a, n): returns a->val + a->len, the caller writes n bytes there *)
ArrayAdd(n) ==
  /\ mech = "array" /\ len + n <= MaxLen
  /\ LET c2 == IF cap - len < n THEN GrowUntil(cap, len, n) ELSE cap IN
       cap' = c2 /\ widx' = len + n - 1 /\ wcap' = c2 /\ len' = len + n
  /\ UNCHANGED <<mech, fatal>>
(* pp.c: pending.len = 0 / parts.len = 0: the array is emptied, the capacity kept *)
ArrayReset == mech = "array" /\ len' = 0 /\ UNCHANGED <<mech, cap, widx, wcap, fatal>>

(* init.c:66 subobj: if (++p->sub == p->obj + LEN(p->obj)) fatal(...); p->sub->type = ...  *)
(* `len` is the index of p->sub                                                               *)
ObjPush ==
  /\ mech = "objstack" /\ ~fatal
  /\ IF len + 1 = ObjCap THEN fatal' = TRUE /\ len' = len + 1 /\ UNCHANGED <<widx, wcap>>
     ELSE len' = len + 1 /\ widx' = len + 1 /\ wcap' = ObjCap /\ UNCHANGED fatal
  /\ UNCHANGED <<mech, cap>>
(* init.c:168 advance / 92 findmember: --p->sub, only ever undoing a push *)
ObjPop == mech = "objstack" /\ ~fatal /\ len > 0 /\ len' = len - 1 /\ UNCHANGED <<mech, cap, widx, wcap, fatal>>

(* token.c:169 snprintf(buf, len, ...): at most len-1 bytes and the terminator. `len` = bytes needed *)
Desc(n) ==
  /\ mech = "desc" /\ widx = -1
  /\ LET stored == IF n < DescCap THEN n ELSE DescCap - 1 IN
       len' = n /\ widx' = stored /\ wcap' = DescCap
  /\ UNCHANGED <<mech, cap, fatal>>

(* pp.c:479 arg = xreallocarray(NULL, nparam, ...); for (i = 0; i < nparam; ++i) { ... arg[i] ... } *)
(* cap = nparam, len = i                                                                          *)
ArgsStart(np) == mech = "args" /\ widx = -1 /\ len = 0 /\ cap = 0 /\ wcap = 0 /\ cap' = np /\ wcap' = -1 /\ UNCHANGED <<mech, len, widx, fatal>>
ArgStore == mech = "args" /\ wcap = -1 /\ len < cap /\ widx' = len /\ len' = len + 1 /\ UNCHANGED <<mech, cap, wcap, fatal>>

Next == \/ BufAdd \/ BufGet \/ ArrayReset \/ ObjPush \/ ObjPop \/ ArgStore
        \/ \E n \in Elems : ArrayAdd(n)
        \/ \E n \in 0..(DescCap + 3) : Desc(n)
        \/ \E np \in 0..MaxParam : ArgsStart(np)

Spec == Init /\ [][Next]_vars

(* ---------------------------------------------------------------------------------- *)
Inv_IndexBelowCapacity ==
  CASE mech \in {"buf", "array", "objstack", "desc"} -> widx = -1 \/ (widx >= 0 /\ widx < wcap)
    [] mech = "args" -> widx = -1 \/ (widx >= 0 /\ widx < cap)
Inv_LenWithinCap == mech \in {"buf", "array"} => len <= cap      \* so that `cap - len` never wraps (size_t)
Inv_ObjDiagnosed == mech = "objstack" => (fatal <=> len = ObjCap) /\ len <= ObjCap

(* ---------------------------------------------------------------------------------- *)
(* Boundary inputs.                                                                    *)
RECURSIVE CapsUpTo(_, _)
CapsUpTo(c, m) == IF c > m THEN {} ELSE {c} \cup CapsUpTo(2 * c, m)
Caps == CapsUpTo(Cap0, MaxLen)

(* lengths of a token whose bytes go through bufadd (one more byte for the terminator):     *)
(* the reallocation happens when the length reaches a capacity                              *)
TokLens == UNION {{c - 2, c - 1, c, c + 1} : c \in Caps} \cup BigLens
(* number of elements of size e after which arrayadd must grow *)
ElemCounts(e) == UNION {{c \div e + d - 2 : d \in 0..4} : c \in Caps}
Counts == {k \in UNION {ElemCounts(e) : e \in Elems \ {1}} : k >= 1}

(* levels of sub-objects below the object being initialized: index ObjCap is never reached *)
ObjLevels == {ObjCap - 2, ObjCap - 1, ObjCap, ObjCap + 1, 2 * ObjCap}
ObjClass(k) == IF k <= ObjCap - 1 THEN 0 ELSE 1

(* bytes snprintf needs for a description and what the buffer then holds *)
DescNeeds == {DescCap - 3, DescCap - 2, DescCap - 1, DescCap, DescCap + 1, DescCap + 2, 4 * DescCap, 1000}
DescHeld(n) == IF n < DescCap THEN n ELSE DescCap - 1

(* function-like macro with np parameters (variadic: the last one is `...`) called with na arguments; *)
(* class 2 = either status: 6.10.3p4 wants at least one variadic argument, implementations commonly   *)
(* accept none, so that case is left open                                                             *)
ArgClass(np, na, variadic) ==
  IF variadic THEN (IF np = 0 THEN 2 ELSE IF na >= np \/ (np = 1 /\ na = 0) THEN 0 ELSE IF na < np - 1 /\ ~(np = 2 /\ na = 0) THEN 1 ELSE 2)
  ELSE IF np = 0 THEN (IF na = 0 THEN 0 ELSE 1)
  ELSE IF np = 1 THEN (IF na <= 1 THEN 0 ELSE 1)       \* F() is one empty argument
  ELSE (IF na = np THEN 0 ELSE 1)

(* Escape alphabet: every byte 1..255 directly after a backslash, in a character constant and in a string literal,  *)
(* with every encoding prefix.  C11 6.4.4.4: simple escapes ' " ? \ a b f n r t v, octal digits, x followed by hex  *)
(* digits are valid (class 0); anything else is outside the grammar and left open (class 2: diagnosed or accepted as *)
(* an extension) - but the scanner (scan.c:escape) and the decoder (expr.c:decodechar) must agree, whatever they do. *)
(* n = byte + 256 * kind + 512 * prefix, kind 0 = character constant, 1 = string literal, prefix 0..4 = none L u8 u U *)
SimpleEsc == {39, 34, 63, 92, 97, 98, 102, 110, 114, 116, 118}
EscClass(b) == IF b \in SimpleEsc \/ b \in 48..55 \/ b = 120 THEN 0 ELSE 2
EscCases == {[fam |-> "escape", n |-> b + 256 * k + 512 * p, class |-> EscClass(b), held |-> -1] : b \in 1..255, k \in 0..1, p \in 0..4}

(* Macro invocation arity sweep (pp.c:expandfunc fills arg[0..nparam-1]; every slot that ctxnext may read must have   *)
(* been written by *this* invocation).  A macro with np named parameters (0..MaxParam), variadic or not, whose body    *)
(* uses every parameter as tokens / stringifies every parameter / uses none, is invoked twice on one line: first with  *)
(* a full argument list (so that the heap chunk recycled for the second `arg` array holds stale counts and pointers),  *)
(* then with na = 0..np+2 arguments, all "1" or all empty (a trailing comma is an extra empty argument).  The class of  *)
(* the line is the class of the second invocation.  n = ((((np*2+v)*3+body)*8+na)*2+empty).                              *)
ArityCases ==
  {[fam |-> "arity", n |-> ((((np * 2 + v) * 3 + body) * 8 + na) * 2 + e), class |-> ArgClass(np + v, na, v = 1), held |-> -1] :
      np \in 0..MaxParam, v \in {0, 1}, body \in 0..2, na \in 0..(MaxParam + 2), e \in {0, 1}}

(* Object-like macros whose replacement list contains # or ##: there they are ordinary tokens, never operators.  Each *)
(* list is expanded in text, twice, as an argument (pre-expansion), through a stringifying macro, nested, after an     *)
(* unexpanding #, followed by "(" and across lines; -E must print it (class 0); ## is not implemented by cproc (open).  *)
ObjHashCases == {[fam |-> "objhash", n |-> 8 * b + u, class |-> IF b \in HashHash THEN 2 ELSE 0, held |-> -1] : b \in 0..(NObjHash - 1), u \in 0..7}

(* Attribute sweep (attr.c: parseattr is called with a == NULL from every place but tagspec): every name x spelling     *)
(* {x, __x__} x prefix {none, gnu::, __gnu__::} ([[ ]] only) x argument {none, (8), (3), ()} x syntax {[[ ]],               *)
(* __attribute__(( ))} x 9 positions where attributes are parsed.  Which of them are accepted is C10's business: the    *)
(* class is open, the run must end with status 0 or 1.  n = ((((name*2+sp)*4+pre)*4+arg)*2+syn)*9+pos.                   *)
AttrCases == {[fam |-> "attr", n |-> ((((nm * 2 + sp) * 4 + pre) * 4 + a) * 2 + syn) * 9 + pos, class |-> 2, held |-> -1] :
                nm \in 0..(NAttrName - 1), sp \in 0..1, pre \in 0..2, a \in 0..3, syn \in 0..1, pos \in 0..8}

(* UTF-8 decoding boundaries (utf.c:utf8dec, expr.c:decodechar / stringconcat, utf.c:utf8enc / utf16enc): raw bytes  *)
(* inside a literal are decoded to a code point and, for 8- and 16-bit strings, encoded again; the encoders have no    *)
(* case for a value the decoder should never deliver.  U8Enc(cp, l) is the l-byte UTF-8 form of cp (shortest form     *)
(* when l = U8Min(cp), an overlong form when l is larger, a value past U+10FFFF when cp is).  The byte sequences are   *)
(* derived from the edges of the decoder's case analysis: first and last code point of every encoded length, both     *)
(* sides of the surrogate range, last code point / first value past the code space / last value of the F4 lead / last  *)
(* value of the 4-byte form, every overlong form of those (and of the characters that end a literal), every proper     *)
(* prefix (truncation), a continuation byte replaced by an ASCII or a lead byte, stray continuation bytes, the lead     *)
(* bytes F5..FF alone and followed by continuation bytes, the 5- and 6-byte forms.  Each sequence x kind {character    *)
(* constant, string} x prefix {none L u8 u U} x context {initializer, expression in a function, static_assert,         *)
(* adjacent literal with another prefix (strings only)}.  What is accepted is C14's business: the class is open, the   *)
(* run must end with status 0 or 1 on both builds.  n = (kind * 5 + prefix) * 4 + context; the bytes travel in the     *)
(* case record.                                                                                                       *)
U8Enc(cp, l) ==
  IF l = 1 THEN <<cp>>
  ELSE IF l = 2 THEN <<192 + cp \div 64, 128 + (cp % 64)>>
  ELSE IF l = 3 THEN <<224 + cp \div 4096, 128 + ((cp \div 64) % 64), 128 + (cp % 64)>>
  ELSE <<240 + cp \div 262144, 128 + ((cp \div 4096) % 64), 128 + ((cp \div 64) % 64), 128 + (cp % 64)>>
U8Min(cp) == IF cp < 128 THEN 1 ELSE IF cp < 2048 THEN 2 ELSE IF cp < 65536 THEN 3 ELSE 4
U8Points == {1, 65, 127, 128, 2047, 2048, 55295, 55296, 57343, 57344, 65535, 65536, 1114111, 1114112, 1310719, 2097151}
U8EndsLiteral == {0, 10, 34, 39, 92}      \* NUL, newline, ", ', \ : only their overlong forms are put inside a literal
U8Shortest == {U8Enc(cp, U8Min(cp)) : cp \in U8Points}
U8Overlong == {U8Enc(x[1], x[2]) : x \in {y \in (U8Points \cup U8EndsLiteral) \X (2..4) : y[2] > U8Min(y[1])}}
U8Whole == U8Shortest \cup U8Overlong
U8Trunc == UNION {{SubSeq(s, 1, j) : j \in 1..(Len(s) - 1)} : s \in U8Whole}
U8BadCont == UNION {{SubSeq(s, 1, j) \o <<b>> \o SubSeq(s, j + 2, Len(s)) : j \in 1..(Len(s) - 1), b \in {65, 192}} : s \in U8Shortest}
U8Stray == {<<128>>, <<191>>, <<128, 191>>, <<65, 128>>}
U8BadLead == {<<b>> : b \in 245..255} \cup {<<b, 128, 128, 128>> : b \in 245..255} \cup {<<248, 136, 128, 128, 128>>, <<252, 132, 128, 128, 128, 128>>}
U8Seqs == U8Whole \cup U8Trunc \cup U8BadCont \cup U8Stray \cup U8BadLead
Utf8Cases == {[fam |-> "utf8", n |-> (k * 5 + p) * 4 + c, class |-> 2, held |-> -1, bytes |-> s] :
                s \in U8Seqs, k \in 0..1, p \in 0..4, c \in 0..3}

Cases ==
       {c \in Utf8Cases : c.n \div 20 = 0 => c.n % 4 # 3} \cup
       {c \in AttrCases : (c.n \div 9) % 2 = 1 => ((c.n \div 72) % 4 = 0)} \cup ObjHashCases \cup EscCases \cup {c \in ArityCases : LET na == (c.n \div 2) % 8 np == c.n \div 96 IN na <= np + 2 /\ (c.n % 2 = 1 => na >= 2)} \cup
       {[fam |-> f, n |-> n, class |-> 0, held |-> -1] : f \in {"ident", "string", "ppnumber", "floatconst", "comment", "escstring"}, n \in {k \in TokLens : k >= 1}}
  \cup {[fam |-> f, n |-> n, class |-> 0, held |-> -1] : f \in {"macrobody", "macrochain", "macroargtoks", "callargs", "strconcat", "peeknl", "initlist", "params"}, n \in Counts}
  \cup {[fam |-> "stringize", n |-> n, class |-> 0, held |-> -1] : n \in {k \in TokLens : k >= 1 /\ k \notin BigLens}}
  \cup {[fam |-> f, n |-> k, class |-> ObjClass(k), held |-> -1] : f \in {"braces", "idxdesig", "memdesig", "implicit", "structbraces"}, k \in ObjLevels}
  \cup {[fam |-> f, n |-> n, class |-> 1, held |-> DescHeld(n)] : f \in {"desc_ident", "desc_number", "desc_string"}, n \in DescNeeds}
  \cup {[fam |-> "margs", n |-> np * 100 + na * 2 + v, class |-> ArgClass(np, na, v = 1), held |-> -1] :
            np \in 0..MaxParam, na \in 0..(MaxParam + 1), v \in {0, 1}}
  \* guards before trapping arithmetic / range-checked conversions: C leaves the status open (undefined behaviour of the
  \* program being compiled, or an implementation limit), the compiler itself must stay free of undefined operations
  \cup {[fam |-> "guard", n |-> i, class |-> 2, held |-> -1] : i \in 1..NGuard}
  \cup {[fam |-> f, n |-> d, class |-> 0, held |-> -1] : f \in {"parens", "blocks", "declparens", "pointers", "unaryneg", "dims", "elseif",
                                                             "structnest", "casts", "sizeofs", "ternary", "lognot", "subscripts", "calls", "ifnest"}, d \in Depths}

ASSUME PrintT("VCASE " \o ToJson([cases |-> Cases]))
=============================================================================
