------------------------------ MODULE Linkage ------------------------------
(* Property C09: linkage of identifiers and the symbol table of the emitted     *)
(* module follow C11 6.2.2 / 6.9 (6.9.2 tentative definitions, 6.7.4p7 inline   *)
(* definitions, 6.7.1 storage-class constraints).                               *)
(*                                                                              *)
(* A history is a sequence of declarations, each                                *)
(*   [id, path, sc, tls, inl, kind, def, asm]                                   *)
(*   path : scope path, <<>> = file scope, <<b1>> = body of function number b1,  *)
(*          <<b1,b2>> = block b2 nested in it (blocks are numbered in order of   *)
(*          opening and never reopened)                                          *)
(*   sc   : "none" | "static" | "extern"      tls : _Thread_local present        *)
(*   inl  : inline present                    kind: "obj" | "func"               *)
(*   def  : "none" | "init" | "body"          asm : __asm__("lbl.<id>") present  *)
(* Every declaration is followed by a use of the identifier in the same scope    *)
(* (the harness renders it), so that what the use resolves to is observable.     *)
(*                                                                              *)
(* Part 1 (declarative): Resolve(h, skip) -- what C11 prescribes.                *)
(* Part 2 (implementation-shaped): ImplDecl / ImplEnd -- transcription of        *)
(*   decl.c: getlinkage, declcommon, decl (object/function cases, tentative      *)
(*   list, inlinedefn), defineobj, emittentativedefns; qbe.c: mkglobal, emitdata *)
(*   header, emitfunc(global).  Known defects are named deviations (AllDevs).    *)
(* Part 3: generator (all histories up to MaxLen), invariants, VCASE emission.   *)
EXTENDS Naturals, Sequences, FiniteSets, TLC, Json

CONSTANTS Ids,        \* identifiers
          MaxLen,     \* number of declarations in a history
          MaxDepth,   \* block nesting bound (1: function bodies only, 2: one nested block)
          MixKinds,   \* may an identifier be declared both as object and as function
          AsmForms,   \* generate __asm__ labels on first declarations
          AsmFirst,   \* (with AsmForms) the first declaration of an identifier must carry the label
          Kinds,      \* kinds generated, subset of {"obj", "func"}
          Family,     \* "all" | "declarators" (one declaration with an init-declarator list of up to MaxLen declarators
                      \* x, y, z: event field join = TRUE means "joined to the previous declarator by a comma"; the
                      \* list is semantically the sequence of its declarators, so neither half reads `join`) |
                      \* "funcspec" (file-scope function declarations whose function-specifier list is rendered as
                      \* event field nr: "" `inline`, "after" `inline _Noreturn`, "before" `_Noreturn inline`, "dup" `inline
                      \* inline` (without inline: nothing / `_Noreturn`); _Noreturn and repetition do not change linkage or
                      \* definitions, so neither half reads nr; in the other families nr cycles with position and form) |
                      \* "funcname" (uses of __func__, evaluated or under sizeof, and block-scope statics, in function
                      \* bodies and nested blocks) | "tentative": only file-scope object declarations `int x;` `int x = v;` `static int x;`
                      \* `static int x = v;` `extern int x;` of several identifiers, identifiers introduced in a fixed order
                      \* (every interleaving of their histories: the shared tentative-definition list)
          DevsOn,     \* deviations switched on in the model compared with the binary
          OkPrefix,   \* extend only histories that are well-defined so far (random multi-identifier units)
          SampleMod,  \* histories of full length MaxLen are emitted only if Hash(hist) % SampleMod = 0 (1: all)
          Emit        \* "all": VCASE at every state; "full": only where a history cannot be extended; "none"

AllDevs == {"ExternInheritsNoLinkage",     \* getlinkage: `extern` after a visible no-linkage declaration gets *its* linkage (none)
                                           \* (fixed in /repo by 82bd59f: switched off in every cfg, kept as a negative control)
            "ThreadNoTentative",           \* decl(): file-scope _Thread_local without initializer is defined on the spot, every time
            "ThreadMismatchNotDiagnosed",  \* 6.7.1p3: _Thread_local must be on every declaration of the object; not checked
            "InlineLateExternal",          \* XXX in decl(): inline definition not kept for a later non-inline/extern declaration
            "NoUsedInternalUndefDiag"}     \* 6.9p3: internal-linkage function used but never defined is accepted
ASSUME DevsOn \subseteq AllDevs

IsPrefix(p, q) == Len(p) <= Len(q) /\ \A k \in 1..Len(p) : p[k] = q[k]
Parent(p) == SubSeq(p, 1, Len(p) - 1)
Label(id) == "lbl." \o id

(* ======================================================================== *)
(* Part 1: declarative                                                       *)
(* ======================================================================== *)

(* declaration of the same identifier visible just before declaration i:     *)
(* innermost enclosing scope first, the latest one within it; 0 if none       *)
VisPrior(h, i) ==
  LET J == {j \in 1..(i-1) : h[j].id = h[i].id /\ IsPrefix(h[j].path, h[i].path)}
  IN IF J = {} THEN 0
     ELSE CHOOSE j \in J : \A k \in J : \/ Len(h[k].path) < Len(h[j].path)
                                        \/ (Len(h[k].path) = Len(h[j].path) /\ k <= j)

(* 6.2.2p3-6 *)
LinkFn(h) ==
  LET L[i \in 1..Len(h)] ==
        LET d  == h[i]
            vp == VisPrior(h, i)
            inherit == IF vp # 0 /\ L[vp] # "none" THEN L[vp] ELSE "ext"        \* p4 (and p5 for functions)
        IN IF d.path = <<>>
           THEN IF d.sc = "static" THEN "int"                                   \* p3
                ELSE IF d.sc = "extern" \/ d.kind = "func" THEN inherit         \* p4, p5
                ELSE "ext"                                                      \* p5 (object, no storage class)
           ELSE IF d.kind = "func" THEN (IF d.sc = "static" THEN "none" ELSE inherit)
                ELSE IF d.sc = "extern" THEN inherit ELSE "none"                \* p6
  IN L

ResolveId(h, id, skip) ==
  LET n    == Len(h)
      I    == {i \in 1..n : h[i].id = id}
      L    == LinkFn(h)
      LD   == {i \in I : L[i] # "none"}                   \* declarations of the entity with linkage (6.2.2p2)
      LS   == {L[i] : i \in LD}
      FD   == {i \in LD : h[i].path = <<>>}               \* its file-scope declarations
      Defs == {i \in FD : h[i].def # "none"}              \* external definitions (6.9p5, 6.9.2p1)
      kinds == {h[i].kind : i \in LD}
      (* __asm__ label (GNU extension, property text: "used verbatim"): the entity with linkage is named by the   *)
      (* label of its first declaration; a labelled block-scope static is named by its label, without .L and id. *)
      firstL == IF LD = {} THEN 0 ELSE CHOOSE i \in LD : \A j \in LD : i <= j
      sym  == IF firstL # 0 /\ h[firstL].asm THEN Label(id) ELSE id
      (* ---- constraint violations (a diagnostic is required) ---- *)
      E_tlsblock == \E i \in I : h[i].path # <<>> /\ h[i].tls /\ h[i].sc = "none"                      \* 6.7.1p3
      E_funcsc   == \E i \in I : h[i].path # <<>> /\ h[i].kind = "func" /\ h[i].sc = "static"          \* 6.7.1p7
      E_blockinit == \E i \in LD : h[i].path # <<>> /\ h[i].def = "init"                               \* 6.7.9p5
      E_nolink   == \E i, j \in I : i < j /\ h[i].path = h[j].path /\ (L[i] = "none" \/ L[j] = "none") \* 6.7p3
      E_kind     == \E i, j \in LD : i < j /\ h[i].path = h[j].path /\ h[i].kind # h[j].kind           \* 6.7p4
      E_thread   == \E i, j \in LD : h[i].kind = "obj" /\ h[j].kind = "obj" /\ h[i].tls # h[j].tls     \* 6.7.1p3
      E_redefint == LS = {"int"} /\ Cardinality(Defs) > 1                                              \* 6.9p3
      Used(i)    == i \notin skip
      E_usedundef == LS = {"int"} /\ kinds = {"func"} /\ Defs = {} /\ \E i \in LD : Used(i)            \* 6.9p3
      (* ---- undefined behaviour: excluded from judgement ---- *)
      U_link  == Cardinality(LS) > 1                                                                   \* 6.2.2p7
      U_kind  == Cardinality(kinds) > 1                                                                \* 6.2.7p2
      U_redef == LS = {"ext"} /\ Cardinality(Defs) > 1                                                 \* 6.9p5
      U_inl   == LS = {"ext"} /\ kinds = {"func"} /\ Defs = {} /\ \E i \in LD : h[i].inl               \* 6.7.4p7
      (* not C11: whether a label given on a block-scope declaration also names declarations of the entity in    *)
      (* other scopes is not specified by the extension (gcc: yes, cproc: no) -- unjudged                         *)
      U_asm   == \E i \in LD : h[i].asm /\ h[i].path # <<>> /\ \E j \in LD : h[j].path # h[i].path
      (* Verdict.  A constraint violation needs a diagnostic even if the unit also has undefined       *)
      (* behaviour (5.1.1.3p1); but a constraint that speaks about "the same object or function" is    *)
      (* only judged where 6.2.2p7 / 6.2.7p2 leave the identity of the entity intact.                   *)
      verdict ==
        IF E_tlsblock THEN <<"error", "6.7.1p3-block-thread-local">>
        ELSE IF E_funcsc THEN <<"error", "6.7.1p7-block-function-storage-class">>
        ELSE IF E_blockinit THEN <<"error", "6.7.9p5-block-linkage-initializer">>
        ELSE IF E_nolink THEN <<"error", "6.7p3-no-linkage-redeclared">>
        ELSE IF U_link THEN <<"ub", "6.2.2p7">>
        ELSE IF E_kind THEN <<"error", "6.7p4-different-kind">>
        ELSE IF U_kind THEN <<"ub", "6.2.7p2">>
        ELSE IF E_thread THEN <<"error", "6.7.1p3-thread-local-mismatch">>
        ELSE IF E_redefint THEN <<"error", "6.9p3-internal-redefined">>
        ELSE IF E_usedundef THEN <<"error", "6.9p3-internal-used-undefined">>
        ELSE IF U_redef THEN <<"ub", "6.9p5">>
        ELSE IF U_inl THEN <<"ub", "6.7.4p7">>
        ELSE IF U_asm THEN <<"ub", "asm-label-on-block-scope-declaration">>
        ELSE <<"ok", "">>
      err == IF verdict[1] = "error" THEN verdict[2] ELSE ""
      ub  == IF verdict[1] = "ub" THEN verdict[2] ELSE ""
      (* ---- the well-defined outcome ---- *)
      link  == IF LD = {} THEN "none" ELSE CHOOSE l \in LS : TRUE
      kind  == IF LD = {} THEN "none" ELSE CHOOSE k \in kinds : TRUE
      thr   == \E i \in LD : h[i].tls
      tent  == kind = "obj" /\ \E i \in FD : h[i].def = "none" /\ h[i].sc # "extern"                   \* 6.9.2p2
      inldef == kind = "func" /\ link = "ext" /\ \A i \in FD : h[i].inl /\ h[i].sc # "extern"          \* 6.7.4p7
      ndefs == Cardinality(Defs)
      emitted == IF LD = {} THEN "none"
                 ELSE IF (kind = "obj" /\ (ndefs = 1 \/ tent)) \/ (kind = "func" /\ ndefs = 1 /\ ~inldef)
                      THEN (IF link = "ext" THEN "exported" ELSE "local")
                      ELSE "none"
      defat == IF ndefs = 1 THEN CHOOSE i \in Defs : TRUE ELSE 0
      ldef  == IF emitted = "none" THEN {}
               ELSE {[id |-> id, sym |-> sym, ent |-> 0, kind |-> kind, export |-> emitted = "exported",
                      thread |-> thr, zero |-> (ndefs = 0), at |-> defat]}
      SD    == {i \in I : L[i] = "none" /\ h[i].kind = "obj" /\ h[i].sc = "static"}    \* block-scope statics
      sdefs == {IF h[i].asm
                THEN [id |-> id, sym |-> Label(id), ent |-> 0, kind |-> "obj", export |-> FALSE, thread |-> h[i].tls,
                      zero |-> (h[i].def = "none"), at |-> IF h[i].def = "none" THEN 0 ELSE i]
                ELSE [id |-> id, sym |-> id, ent |-> i, kind |-> "obj", export |-> FALSE, thread |-> h[i].tls,
                      zero |-> (h[i].def = "none"), at |-> i] : i \in SD}
      UseOf(i) == IF L[i] # "none"
                  THEN [at |-> i, id |-> id, cls |-> "glob", sym |-> sym, thr |-> (kind = "obj" /\ thr), ent |-> 0]
                  ELSE IF h[i].sc = "static" /\ h[i].asm
                  THEN [at |-> i, id |-> id, cls |-> "glob", sym |-> Label(id), thr |-> h[i].tls, ent |-> 0]
                  ELSE IF h[i].sc = "static"
                  THEN [at |-> i, id |-> id, cls |-> "static", sym |-> id, thr |-> h[i].tls, ent |-> i]
                  ELSE [at |-> i, id |-> id, cls |-> "auto", sym |-> "", thr |-> FALSE, ent |-> i]
      uses  == {UseOf(i) : i \in {j \in I : Used(j)}}
  IN [id |-> id, err |-> err, ub |-> ub, link |-> link, kind |-> kind, ndefs |-> ndefs, emitted |-> emitted,
      tentativeZero |-> (emitted # "none" /\ kind = "obj" /\ ndefs = 0), thread |-> thr, inlinedef |-> (inldef /\ ndefs = 1),
      undefinedRefIfUsed |-> (LD # {} /\ emitted = "none"),
      defs |-> ldef \cup sdefs, uses |-> uses]

(* uses that would violate 6.9p3 (internal-linkage function never defined): the   *)
(* "safe" rendering leaves them out, the "all" rendering keeps them.              *)
Unsafe(h) ==
  LET L == LinkFn(h) IN
  {i \in 1..Len(h) :
     /\ h[i].kind = "func" /\ L[i] = "int"
     /\ ~\E j \in 1..Len(h) : h[j].id = h[i].id /\ h[j].path = <<>> /\ h[j].def = "body"}

IdsOf(h) == {h[i].id : i \in 1..Len(h)}

(* Audit exceptions: case classes on which the reference compiler (gcc -std=c11          *)
(* -pedantic-errors) is knowingly more lenient or stricter than C11; the clause that     *)
(* justifies the specification is given with each.  The audit of the specification       *)
(* against gcc ignores disagreements on units that fall in one of these classes.         *)
AuditEx(h) ==
  LET L == LinkFn(h)
      I(id)  == {i \in 1..Len(h) : h[i].id = id}
      LD(id) == {i \in I(id) : L[i] # "none"}
      FD(id) == {i \in LD(id) : h[i].path = <<>>}
      (* 6.9p3 is a constraint for every identifier with internal linkage; gcc issues only a plain   *)
      (* warning ("inline function declared but never defined") when a declaration carries `inline`. *)
      inlundef == \E id \in IdsOf(h) :
                    /\ \E i \in FD(id) : h[i].kind = "func" /\ h[i].inl
                    /\ \E i \in LD(id) : L[i] = "int"
                    /\ ~\E i \in FD(id) : h[i].def = "body"
      (* 6.7.4p7: "If all of the FILE SCOPE declarations for a function in a translation unit include *)
      (* the inline function specifier without extern, then the definition ... is an inline           *)
      (* definition".  gcc lets block-scope declarations take part: an earlier block-scope declaration *)
      (* without `inline` turns an inline definition into an external one, and a block-scope           *)
      (* declaration between `extern inline int f(int);` and `inline int f(int a){...}` suppresses the  *)
      (* external definition.  Class: a defined function with an `inline` file-scope declaration and a  *)
      (* block-scope declaration.                                                                      *)
      blockinl == \E id \in IdsOf(h) :
                    /\ \E i \in FD(id) : h[i].kind = "func" /\ h[i].inl
                    /\ \E i \in FD(id) : h[i].def = "body"
                    /\ \E i \in LD(id) : h[i].path # <<>>
  IN (IF inlundef THEN {"gcc-warns-only-for-undefined-static-inline(6.9p3)"} ELSE {})
     \cup (IF blockinl THEN {"gcc-counts-block-scope-declarations-for-inline-definition(6.7.4p7)"} ELSE {})

(* The predefined identifier __func__ (6.4.2.2): in every function definition an implicit block-scope      *)
(* `static const char __func__[] = "name";` -- no linkage, static storage, one object per function.  History *)
(* events of kind "fname" are uses of it at a block path (def = "eval": the array is evaluated, e.g. decays   *)
(* to a pointer argument; def = "sizeof": operand of sizeof only).  The object is a local definition of the    *)
(* unit exactly when the function evaluates it; ent/at = the first evaluating use (where it is emitted).      *)
FnId == "__func__"
ResolveFn(h) ==
  LET F      == {i \in 1..Len(h) : h[i].kind = "fname"}
      Fn(i)  == h[i].path[1]
      Ev(b)  == {i \in F : Fn(i) = b /\ h[i].def = "eval"}
      Fst(b) == CHOOSE i \in Ev(b) : \A j \in Ev(b) : i <= j
      defs   == {[id |-> FnId, sym |-> FnId, ent |-> Fst(b), kind |-> "obj", export |-> FALSE, thread |-> FALSE,
                  zero |-> FALSE, at |-> Fst(b)] : b \in {Fn(i) : i \in {j \in F : h[j].def = "eval"}}}
      uses   == {IF h[i].def = "eval"
                 THEN [at |-> i, id |-> FnId, cls |-> "static", sym |-> FnId, thr |-> FALSE, ent |-> Fst(Fn(i))]
                 ELSE [at |-> i, id |-> FnId, cls |-> "const", sym |-> "", thr |-> FALSE, ent |-> 0] : i \in F}
  IN [id |-> FnId, err |-> "", ub |-> "", link |-> "none", kind |-> "obj", ndefs |-> Cardinality(defs),
      emitted |-> IF defs = {} THEN "none" ELSE "local", tentativeZero |-> FALSE, thread |-> FALSE, inlinedef |-> FALSE,
      undefinedRefIfUsed |-> FALSE, defs |-> defs, uses |-> uses]

Resolve1(h, id, skip) == IF id = FnId THEN ResolveFn(h) ELSE ResolveId(h, id, skip)

Resolve(h, skip) ==
  LET R    == [id \in IdsOf(h) |-> Resolve1(h, id, skip)]
      ubs  == {R[id].ub : id \in IdsOf(h)} \ {""}
      errs == {R[id].err : id \in IdsOf(h)} \ {""}
  IN IF ubs # {} THEN [cls |-> "ub", rule |-> CHOOSE u \in ubs : TRUE]
     ELSE IF errs # {} THEN [cls |-> "error", rule |-> CHOOSE e \in errs : TRUE]
     ELSE [cls |-> "ok", defs |-> UNION {R[id].defs : id \in IdsOf(h)},
           ndefs |-> Cardinality(UNION {R[id].defs : id \in IdsOf(h)}),
           uses |-> UNION {R[id].uses : id \in IdsOf(h)}]

Summary(h, skip) ==   \* the record named in the property text, per identifier (evidence / samples)
  [id \in IdsOf(h) |->
     LET r == Resolve1(h, id, skip) IN
     [err |-> r.err, ub |-> r.ub, linkage |-> r.link, ndefs |-> r.ndefs, emitted |-> r.emitted,
      tentativeZero |-> r.tentativeZero, thread |-> r.thread, undefinedRefIfUsed |-> r.undefinedRefIfUsed]]

(* ======================================================================== *)
(* Part 2: implementation-shaped model                                       *)
(* ======================================================================== *)
(* m = [heap, tent, out, uses, err, erri, gid, fired, lthr]                  *)
(* heap: struct decl objects in creation order                                *)
(*   [id, kind, link, path, defined, tent, stor, inldef, alloc, thr, lid, asm, body, at]  *)
(* tent: the tentativedefns list (heap indices); out: emitted definitions;     *)
(* lthr: {[id, t]}: thread-ness ("t"/"n") of the first declaration with linkage *)
(*       of each identifier -- the "map of identifiers with linkage" the XXX comment in *)
(*       declcommon asks for; only the repaired model consults it.             *)

M0 == [heap |-> <<>>, tent |-> <<>>, out |-> <<>>, uses |-> <<>>, useh |-> <<>>, err |-> "", erri |-> 0, gid |-> 0,
       fired |-> {}, lthr |-> {}, fnemit |-> {}]

Fail(m, rule, i) == [m EXCEPT !.err = rule, !.erri = i]
Fire(m, dev) == [m EXCEPT !.fired = @ \cup {dev}]

(* scopegetdecl(s, name, false) *)
Lookup(m, id, path) ==
  LET K == {k \in 1..Len(m.heap) : m.heap[k].id = id /\ m.heap[k].path = path}
  IN IF K = {} THEN 0 ELSE CHOOSE k \in K : \A k2 \in K : k2 <= k
(* scopegetdecl(s, name, true) *)
LookupRec(m, id, path) ==
  LET K == {k \in 1..Len(m.heap) : m.heap[k].id = id /\ IsPrefix(m.heap[k].path, path)}
  IN IF K = {} THEN 0
     ELSE CHOOSE k \in K : \A k2 \in K : \/ Len(m.heap[k2].path) < Len(m.heap[k].path)
                                          \/ (Len(m.heap[k2].path) = Len(m.heap[k].path) /\ k2 <= k)

(* getlinkage(kind, sc, prior, filescope); returns [l, dev] *)
GetLinkage(m, d, prior, D) ==
  LET file == d.path = <<>> IN
  IF d.sc = "static" THEN [l |-> IF file THEN "int" ELSE "none", dev |-> FALSE]
  ELSE IF d.sc = "extern" \/ d.kind = "func"
       THEN IF prior = 0 THEN [l |-> "ext", dev |-> FALSE]
            ELSE IF m.heap[prior].link = "none"
                 THEN (IF "ExternInheritsNoLinkage" \in D THEN [l |-> "none", dev |-> TRUE]   \* return prior->linkage
                       ELSE [l |-> "ext", dev |-> FALSE])                                     \* 6.2.2p4
                 ELSE [l |-> m.heap[prior].link, dev |-> FALSE]
  ELSE [l |-> IF file THEN "ext" ELSE "none", dev |-> FALSE]

(* declcommon(); returns [m, h] with h = heap index of the returned decl (0 after an error) *)
DeclCommon(m, d, i, prior, D) ==
  LET file == d.path = <<>> IN
  IF prior # 0
  THEN LET p == m.heap[prior]
           g == GetLinkage(m, d, prior, D)
       IN IF p.link = "none" THEN [m |-> Fail(m, "no-linkage-redeclared", i), h |-> 0]
          ELSE IF p.link # g.l THEN [m |-> Fail(m, "different-linkage", i), h |-> 0]
          ELSE IF d.asm /\ p.asm = "" THEN [m |-> Fail(m, "different-asm-name", i), h |-> 0]
          ELSE [m |-> m, h |-> prior]
  ELSE LET vis == IF file THEN 0 ELSE LookupRec(m, d.id, Parent(d.path))
           g   == GetLinkage(m, d, vis, D)
           m1  == IF g.dev THEN Fire(m, "ExternInheritsNoLinkage") ELSE m
           fp  == IF g.l # "none" /\ ~file THEN Lookup(m, d.id, <<>>) ELSE 0
           chk == fp # 0 /\ m.heap[fp].link # "none"
           asmname == IF d.asm THEN Label(d.id) ELSE IF chk THEN m.heap[fp].asm ELSE ""
           new == [id |-> d.id, kind |-> d.kind, link |-> g.l, path |-> d.path, defined |-> FALSE, tent |-> FALSE,
                   stor |-> "", inldef |-> FALSE, alloc |-> FALSE, thr |-> FALSE, lid |-> 0, asm |-> asmname,
                   body |-> 0, at |-> i]
       IN IF chk /\ m.heap[fp].kind # d.kind THEN [m |-> Fail(m1, "different-kind", i), h |-> 0]
          ELSE IF chk /\ m.heap[fp].link # g.l THEN [m |-> Fail(m1, "different-linkage", i), h |-> 0]
          ELSE IF chk /\ d.asm /\ m.heap[fp].asm = "" THEN [m |-> Fail(m1, "different-asm-name", i), h |-> 0]
          ELSE [m |-> [m1 EXCEPT !.heap = Append(@, new)], h |-> Len(m1.heap) + 1]

Sym(r) == IF r.asm # "" THEN r.asm ELSE r.id

(* mkglobal(d): thread flag from the storage duration, .L id for no linkage (asm name: id 0) *)
MkGlobal(m, h) ==
  LET r == m.heap[h]
      fresh == r.link = "none" /\ r.asm = ""
  IN [m EXCEPT !.heap[h].thr = (r.kind = "obj" /\ r.stor = "thread"),
               !.heap[h].lid = IF fresh THEN m.gid + 1 ELSE 0,
               !.gid = IF fresh THEN @ + 1 ELSE @]

(* emitdata(d, init) header / emitfunc(f, global) header *)
EmitData(m, h, i, init) ==
  LET r == m.heap[h] IN
  [m EXCEPT !.out = Append(@, [id |-> r.id, sym |-> Sym(r), ent |-> IF r.lid = 0 THEN 0 ELSE r.at, kind |-> "obj",
                               export |-> r.link = "ext", thread |-> r.stor = "thread", zero |-> ~init,
                               at |-> IF r.lid # 0 THEN r.at ELSE IF init THEN i ELSE 0]),
            !.heap[h].defined = TRUE]
EmitFunc(m, h, i) ==
  LET r == m.heap[h] IN
  [m EXCEPT !.out = Append(@, [id |-> r.id, sym |-> Sym(r), ent |-> IF r.lid = 0 THEN 0 ELSE r.at, kind |-> "func",
                               export |-> r.link = "ext", thread |-> FALSE, zero |-> FALSE, at |-> i])]

(* the use rendered after declaration i: scopegetdecl finds heap[h]; its ->value is referenced *)
UseRec(m, h, i) ==
  LET r == m.heap[h] IN
  IF r.kind = "obj" /\ r.stor = "auto"
  THEN [at |-> i, id |-> r.id, cls |-> IF r.alloc THEN "auto" ELSE "null", sym |-> "", thr |-> FALSE, ent |-> r.at]
  ELSE [at |-> i, id |-> r.id, cls |-> IF r.lid = 0 THEN "glob" ELSE "static", sym |-> Sym(r), thr |-> r.thr,
        ent |-> IF r.lid = 0 THEN 0 ELSE r.at]
AddUse(m, h, i) == [m EXCEPT !.uses = Append(@, UseRec(m, h, i)), !.useh = Append(@, h)]

(* 6.7.1p3 check of the repaired model against the first declaration with linkage *)
LThr(m, id) == IF \E e \in m.lthr : e.id = id THEN (CHOOSE e \in m.lthr : e.id = id).t ELSE ""
ThreadCheck(m, d, h, i, D) ==
  LET r == m.heap[h]
      me == IF d.tls THEN "t" ELSE "n"
      linked == r.link # "none" /\ d.kind = "obj"
  IN IF ~linked THEN m
     ELSE IF LThr(m, d.id) = "" THEN [m EXCEPT !.lthr = @ \cup {[id |-> d.id, t |-> me]}]
     ELSE IF LThr(m, d.id) = me THEN m
     ELSE IF "ThreadMismatchNotDiagnosed" \in D THEN Fire(m, "ThreadMismatchNotDiagnosed")
     ELSE Fail(m, "thread-local-mismatch", i)

(* decl(), case DECLOBJECT, from declcommon's return to just before the initializer is parsed: *)
(* storage duration and mkglobal                                                              *)
ObjPhase1(m0, d, i, h, D) ==
  LET mA == ThreadCheck(m0, d, h, i, D)
      r0 == mA.heap[h]
      auto == r0.link = "none" /\ d.sc # "static"
      stor == IF auto THEN "auto" ELSE IF d.tls THEN "thread" ELSE "static"
  IN IF mA.err # "" THEN mA
     ELSE IF auto THEN [mA EXCEPT !.heap[h].stor = stor]
     ELSE MkGlobal([mA EXCEPT !.heap[h].stor = stor], h)

(* decl(), case DECLOBJECT, the rest: initializer / extern / tentative / defineobj *)
ObjPhase2(mB, d, i, h, D) ==
  LET file == d.path = <<>>
      r == mB.heap[h]
      stor == r.stor
  IN IF d.def = "init"
     THEN IF ~file /\ r.link # "none" THEN Fail(mB, "block-linkage-initializer", i)
          ELSE IF r.defined THEN Fail(mB, "object-redefined", i)
          ELSE IF stor = "auto" THEN AddUse([mB EXCEPT !.heap[h].alloc = TRUE, !.heap[h].defined = TRUE], h, i)   \* funcinit
          ELSE AddUse(EmitData(mB, h, i, TRUE), h, i)
     ELSE IF d.sc = "extern" THEN AddUse(mB, h, i)
     ELSE IF r.link # "none" /\ (stor = "static" \/ (stor = "thread" /\ "ThreadNoTentative" \notin D))
     THEN IF ~r.defined /\ ~r.tent
          THEN AddUse([mB EXCEPT !.heap[h].tent = TRUE, !.tent = Append(@, h)], h, i)
          ELSE AddUse(mB, h, i)
     ELSE IF stor = "auto" THEN AddUse([mB EXCEPT !.heap[h].alloc = TRUE, !.heap[h].defined = TRUE], h, i)
     ELSE \* defineobj now: block-scope static, or (deviation) thread-local with linkage
          LET mC == IF r.link # "none" THEN Fire(mB, "ThreadNoTentative") ELSE mB
          IN AddUse(EmitData(mC, h, i, FALSE), h, i)

(* decl(), case DECLFUNC, from declcommon's return to the test for '{': mkglobal, inlinedefn;   *)
(* prior = same-scope prior heap index (0 none)                                               *)
FuncPhase1(m0, d, i, h, prior, D) ==
  LET mA == MkGlobal(m0, h)
      r0 == mA.heap[h]
      inldef == r0.link = "ext" /\ d.inl /\ d.sc # "extern" /\ (prior = 0 \/ m0.heap[prior].inldef)
  IN [mA EXCEPT !.heap[h].inldef = inldef]

(* decl(), case DECLFUNC, the rest: body (emitfunc unless it is an inline definition) or plain declaration *)
FuncPhase2(mB, d, i, h, D) ==
  LET r == mB.heap[h] IN
  IF d.def = "body"
  THEN IF d.asm THEN Fail(mB, "function-definition-not-allowed", i)
       ELSE IF r.defined THEN Fail(mB, "function-redefined", i)
       ELSE LET mC == IF r.inldef THEN [mB EXCEPT !.heap[h].body = i] ELSE EmitFunc(mB, h, i)
            IN AddUse([mC EXCEPT !.heap[h].defined = TRUE], h, i)
  ELSE \* a later declaration turns an inline definition already seen into an external definition:
       \* the shipped code has dropped the body (XXX comment in decl()); the repaired model emits it now
       IF r.body # 0 /\ ~r.inldef
       THEN IF "InlineLateExternal" \in D THEN AddUse(Fire([mB EXCEPT !.heap[h].body = 0], "InlineLateExternal"), h, i)
            ELSE AddUse(EmitFunc([mB EXCEPT !.heap[h].body = 0], h, r.body), h, i)
       ELSE AddUse(mB, h, i)

(* returns [m, h]: h = heap index of the struct decl the declaration resolved to *)
Phase1(m, d, i, D) ==
  LET file == d.path = <<>>
      prior == Lookup(m, d.id, d.path)
  IN IF ~file /\ d.tls /\ d.sc = "none" THEN [m |-> Fail(m, "block-thread-local", i), h |-> 0]
     ELSE IF prior # 0 /\ m.heap[prior].kind # d.kind THEN [m |-> Fail(m, "different-kind", i), h |-> 0]
     ELSE IF d.kind = "func" /\ ~file /\ d.sc = "static" THEN [m |-> Fail(m, "block-function-storage-class", i), h |-> 0]
     ELSE LET dc == DeclCommon(m, d, i, prior, D) IN
          IF dc.m.err # "" THEN dc
          ELSE IF d.kind = "obj" THEN [m |-> ObjPhase1(dc.m, d, i, dc.h, D), h |-> dc.h]
          ELSE [m |-> FuncPhase1(dc.m, d, i, dc.h, prior, D), h |-> dc.h]

Phase2(m, d, i, h, D) ==
  IF d.kind = "obj" THEN ObjPhase2(m, d, i, h, D) ELSE FuncPhase2(m, d, i, h, D)

(* a use of __func__ (qbe.c: mkfunc creates f->namedecl with mkglobal; funclval emits its data definition at   *)
(* the first evaluated use and clears f->namedecl).  fnemit: {[b, at]} functions whose object was emitted.      *)
ImplFname(m, d, i) ==
  LET b == d.path[1]
      done == \E e \in m.fnemit : e.b = b
      at0 == IF done THEN (CHOOSE e \in m.fnemit : e.b = b).at ELSE i
      m1 == IF d.def = "eval" /\ ~done
            THEN [m EXCEPT !.out = Append(@, [id |-> FnId, sym |-> FnId, ent |-> i, kind |-> "obj", export |-> FALSE,
                                             thread |-> FALSE, zero |-> FALSE, at |-> i]),
                           !.fnemit = @ \cup {[b |-> b, at |-> i]}]
            ELSE m
      u == IF d.def = "eval"
           THEN [at |-> i, id |-> FnId, cls |-> "static", sym |-> FnId, thr |-> FALSE, ent |-> at0]
           ELSE [at |-> i, id |-> FnId, cls |-> "const", sym |-> "", thr |-> FALSE, ent |-> 0]
  IN [m1 EXCEPT !.uses = Append(@, u), !.useh = Append(@, 0)]

ImplDecl(m, d, i, D) ==
  IF m.err # "" THEN m
  ELSE IF d.kind = "fname" THEN ImplFname(m, d, i)
  ELSE LET p == Phase1(m, d, i, D) IN
       IF p.m.err # "" THEN p.m ELSE Phase2(p.m, d, i, p.h, D)

(* emittentativedefns(), then (repaired model only) the 6.9p3 check *)
RECURSIVE FlushTent(_, _)
FlushTent(m, k) ==
  IF k > Len(m.tent) THEN m
  ELSE LET h == m.tent[k] IN
       FlushTent(IF m.heap[h].defined THEN m ELSE EmitData(m, h, 0, FALSE), k + 1)

ImplEnd(m, D, skip) ==
  IF m.err # "" THEN m
  ELSE LET m1 == FlushTent(m, 1)
           bad == \E u \in 1..Len(m1.uses) :
                    /\ m1.useh[u] # 0
                    /\ LET r == m1.heap[m1.useh[u]] IN
                         /\ m1.uses[u].at \notin skip /\ r.kind = "func" /\ r.link = "int"
                         /\ ~\E k \in 1..Len(m1.heap) : m1.heap[k].id = r.id /\ m1.heap[k].kind = "func"
                                                         /\ m1.heap[k].link = "int" /\ m1.heap[k].defined
       IN IF ~bad THEN m1
          ELSE IF "NoUsedInternalUndefDiag" \in D THEN Fire(m1, "NoUsedInternalUndefDiag")
          ELSE Fail(m1, "internal-used-undefined", 0)

Range(s) == {s[k] : k \in 1..Len(s)}

Proj(m, D, skip) ==
  LET e == ImplEnd(m, D, skip) IN
  IF e.err # "" THEN [cls |-> "error", rule |-> e.err]
  ELSE [cls |-> "ok", defs |-> Range(e.out), ndefs |-> Len(e.out),
        uses |-> {u \in Range(e.uses) : u.at \notin skip}]
(* same, with the definitions as the sequence emitted (duplicates visible to the harness) *)
ProjSeq(m, D, skip) ==
  LET p == Proj(m, D, skip) IN
  IF p.cls = "ok" THEN [p EXCEPT !.defs = ImplEnd(m, D, skip).out] ELSE p
FiredAtEnd(m, D, skip) == ImplEnd(m, D, skip).fired

(* ======================================================================== *)
(* Part 3: generator and invariants                                          *)
(* ======================================================================== *)
VARIABLES hist, nblk, mOff, mOn
vars == <<hist, nblk, mOff, mOn>>

Bool == {TRUE, FALSE}
FileForms ==
  {[sc |-> s, tls |-> t, inl |-> FALSE, kind |-> "obj", def |-> df] : s \in {"none", "static", "extern"}, t \in Bool, df \in {"none", "init"}}
  \cup {[sc |-> s, tls |-> FALSE, inl |-> n, kind |-> "func", def |-> df] : s \in {"none", "static", "extern"}, n \in Bool, df \in {"none", "body"}}
BlockForms ==
  {[sc |-> s, tls |-> FALSE, inl |-> FALSE, kind |-> "obj", def |-> df] : s \in {"none", "static", "extern"}, df \in {"none", "init"}}
  \cup {[sc |-> s, tls |-> TRUE, inl |-> FALSE, kind |-> "obj", def |-> "none"] : s \in {"none", "static", "extern"}}
  \cup {[sc |-> s, tls |-> FALSE, inl |-> FALSE, kind |-> "func", def |-> "none"] : s \in {"none", "static", "extern"}}

TentForms == {f \in FileForms : f.kind = "obj" /\ ~f.tls /\ ~(f.sc = "extern" /\ f.def = "init")}
IdRank(id) == IF id = "x" THEN 1 ELSE IF id = "y" THEN 2 ELSE IF id = "z" THEN 3 ELSE 4

FnForms == {[sc |-> "none", tls |-> FALSE, inl |-> FALSE, kind |-> "fname", def |-> df] : df \in {"eval", "sizeof"}}
           \cup {[sc |-> "static", tls |-> FALSE, inl |-> FALSE, kind |-> "obj", def |-> "none"]}

CurPath == IF hist = <<>> THEN <<>> ELSE hist[Len(hist)].path

(* paths reachable from the current one: keep k levels, open m fresh blocks *)
NextPaths ==
  LET cp == CurPath IN
  {p \in {SubSeq(cp, 1, k) \o [j \in 1..m |-> nblk + j] : k \in 0..Len(cp), m \in 0..MaxDepth} : Len(p) <= MaxDepth}

Opened(p) == Cardinality({k \in 1..Len(p) : p[k] > nblk})

Init == hist = <<>> /\ nblk = 0 /\ mOff = M0 /\ mOn = M0

Declare(d) ==
  /\ hist' = Append(hist, d)
  /\ nblk' = nblk + Opened(d.path)
  /\ mOff' = ImplDecl(mOff, d, Len(hist) + 1, {})
  /\ mOn' = ImplDecl(mOn, d, Len(hist) + 1, DevsOn)

Extensible ==
  /\ Len(hist) < MaxLen
  /\ ~(mOff.err # "" /\ mOn.err # "")          \* the compiler has stopped in both models: extensions are unobservable
  /\ (OkPrefix /\ hist # <<>>) => Resolve(hist, Unsafe(hist)).cls = "ok"

Next ==
  /\ Extensible
  /\ \E id \in Ids, p \in NextPaths, a \in (IF AsmForms THEN Bool ELSE {FALSE}),
        nrc \in (IF Family = "funcspec" THEN {"", "after", "before", "dup"} ELSE {"-"}) :
       \E f \in (IF Family = "tentative" THEN TentForms ELSE IF Family = "funcname" THEN FnForms
                 ELSE IF Family = "funcspec" THEN {g \in FileForms : g.kind = "func"}
                 ELSE IF p = <<>> THEN FileForms ELSE BlockForms) :
         LET firstdecl == ~\E j \in 1..Len(hist) : hist[j].id = id IN
         /\ Family = "funcname" => p # <<>>
         /\ Family = "funcspec" => p = <<>>
         /\ f.kind = "fname" \/ MixKinds \/ \A j \in 1..Len(hist) : hist[j].id = id => hist[j].kind = f.kind
         /\ a => /\ firstdecl
                 /\ \/ p = <<>> /\ f.def # "body"
                    \/ p # <<>> /\ f.kind = "obj" /\ f.sc \in {"static", "extern"}     \* labelled block-scope static / extern
         /\ (AsmFirst /\ firstdecl) => a
         /\ f.kind \in Kinds \cup {"fname"}
         /\ Family = "tentative" =>
              /\ p = <<>>
              /\ \A id2 \in Ids : IdRank(id2) < IdRank(id) => \E j \in 1..Len(hist) : hist[j].id = id2
         /\ Family = "declarators" =>      \* ONE declaration: x [, y [, z]] share specifiers and scope
              /\ IdRank(id) = Len(hist) + 1
              /\ f.def # "body"
              /\ hist # <<>> => LET q == hist[Len(hist)] IN
                                p = q.path /\ f.sc = q.sc /\ f.tls = q.tls /\ f.inl = q.inl
         /\ Declare([id |-> IF f.kind = "fname" THEN FnId ELSE id, path |-> p, sc |-> f.sc, tls |-> f.tls, inl |-> f.inl, kind |-> f.kind,
                     def |-> f.def, asm |-> a, join |-> (Family = "declarators" /\ hist # <<>>),
                     nr |-> IF nrc # "-" THEN nrc
                            ELSE IF f.kind = "func" /\ p = <<>> /\ Family # "declarators"   \* specifiers are shared by a list
                            THEN <<"", "after", "before", "dup">>[((Len(hist) + (IF f.inl THEN 1 ELSE 0) + (IF f.def = "body" THEN 2 ELSE 0)
                                                                  + (IF f.sc = "none" THEN 0 ELSE IF f.sc = "static" THEN 1 ELSE 3)) % 4) + 1]
                            ELSE ""])

Spec == Init /\ [][Next]_vars

(* ---- design-level invariants ---- *)
SkipSafe == Unsafe(hist)

(* the repaired model (no deviations) is the declarative definition, for both renderings *)
Same(a, b) == a.cls = b.cls /\ (a.cls = "ok" => a = b)
Inv_Refines ==
  /\ LET s == Resolve(hist, SkipSafe) IN s.cls # "ub" => Same(Proj(mOff, {}, SkipSafe), s)
  /\ LET s == Resolve(hist, {}) IN s.cls # "ub" => Same(Proj(mOff, {}, {}), s)

(* at most one definition per entity is emitted (repaired model) *)
Inv_OneDef ==
  LET p == Proj(mOff, {}, SkipSafe) IN
  p.cls = "ok" => /\ p.ndefs = Cardinality(p.defs)
                  /\ \A a, b \in p.defs : (a.id = b.id /\ a.ent = b.ent /\ a.sym = b.sym) => a = b

(* exported => external linkage *)
Inv_ExportedExt ==
  LET p == Proj(mOff, {}, SkipSafe)
      L == LinkFn(hist) IN
  p.cls = "ok" => \A o \in p.defs : o.export =>
      /\ o.ent = 0
      /\ {L[i] : i \in {j \in 1..Len(hist) : hist[j].id = o.id /\ L[j] # "none"}} = {"ext"}

(* wherever the model of the shipped code differs from the repaired one, a named deviation fired *)
Inv_FiredExplains ==
  /\ ~Same(Proj(mOn, DevsOn, SkipSafe), Proj(mOff, {}, SkipSafe)) => FiredAtEnd(mOn, DevsOn, SkipSafe) # {}
  /\ ~Same(Proj(mOn, DevsOn, {}), Proj(mOff, {}, {})) => FiredAtEnd(mOn, DevsOn, {}) # {}

(* ---- behaviour emission (flow A) ---- *)
Case ==
  LET skip == SkipSafe
      sp == Resolve(hist, skip)
      on == IF sp.cls # "ub" /\ Same(Proj(mOn, DevsOn, skip), sp) THEN [same |-> TRUE] ELSE ProjSeq(mOn, DevsOn, skip)
      base0 == [h |-> hist, skip |-> skip, spec |-> sp, on |-> on, fired |-> FiredAtEnd(mOn, DevsOn, skip),
                aex |-> AuditEx(hist)]
      base == IF Len(hist) <= 2 \/ Emit = "full" THEN base0 @@ [sum |-> Summary(hist, skip)] ELSE base0
  IN IF skip # {} /\ sp.cls = "ok"
     THEN base @@ [all |-> [spec |-> Resolve(hist, {}), on |-> ProjSeq(mOn, DevsOn, {}),
                                               fired |-> FiredAtEnd(mOn, DevsOn, {})]]
     ELSE base

(* deterministic sampling of the longest histories for replay (all of them are model-checked) *)
Code(d) == (IF d.sc = "none" THEN 0 ELSE IF d.sc = "static" THEN 1 ELSE 2) + 3 * (IF d.tls THEN 1 ELSE 0)
           + 6 * (IF d.inl THEN 1 ELSE 0) + 12 * (IF d.kind = "obj" THEN 0 ELSE 1)
           + 24 * (IF d.def = "none" THEN 0 ELSE 1) + 48 * Len(d.path) + 144 * (IF d.asm THEN 1 ELSE 0)
           + 288 * (IF d.path = <<>> THEN 0 ELSE d.path[Len(d.path)]) + 577 * (IF d.def = "sizeof" THEN 1 ELSE 0)
RECURSIVE HashFrom(_, _)
HashFrom(k, acc) == IF k > Len(hist) THEN acc ELSE HashFrom(k + 1, (acc * 31 + Code(hist[k]) + 7) % 1000003)
Sampled == SampleMod = 1 \/ Len(hist) < MaxLen \/ HashFrom(1, 17) % SampleMod = 0

Inv_Emit ==
  IF hist # <<>> /\ ((Emit = "all" /\ Sampled) \/ (Emit = "full" /\ ~Extensible))
  THEN PrintT("VCASE " \o ToJson(Case))
  ELSE TRUE
=============================================================================
