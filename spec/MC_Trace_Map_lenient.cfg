\* used only to classify a rejection: dictionary semantics + free slot, any monotone power-of-two capacity
SPECIFICATION Spec
CONSTANTS
  StrictGrowth = FALSE
POSTCONDITION TraceAccepted
CHECK_DEADLOCK FALSE
