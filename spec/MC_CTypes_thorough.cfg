\* C05 thorough tier: every (switch group, operand, operand, target) over all arithmetic types, six enum
\* flavours, bit-fields of every integer kind and of four enum flavours at all ten widths (that fit).
\* Devs: deviations of the shipped code still open. Fixed in /repo and therefore removed (a regression is a VIOLATION):
\* CondSameTypeNoConversion (ba99903), ConvertKeepsCompatible + SizeofSeesBitfield (4c7c95a), DerefDecayedArrayDropsQual (13d3f3d),
\* UacKeepsWideEnum (60245bf)
SPECIFICATION Spec
CONSTANTS
  TargetSet = {"x86_64-sysv", "aarch64", "riscv64"}
  Widths = {1, 7, 8, 15, 16, 31, 32, 33, 63, 64}
  BFKinds = {"bool", "char", "schar", "uchar", "short", "ushort", "int", "uint", "long", "ulong", "llong", "ullong"}
  EnumOps = {"eu", "es", "eul", "el", "efs", "efuc"}
  EnumBFs = {"eu", "es", "eul", "efs"}
  Devs = {"CompositeIsFirst", "ArrayQualOnArrayType", "FoldedCondKeepsDecay", "FoldedNullVoidPtrIsNpc"}
  CondCVs = {"x", "1", "0", "1.5", "0.0", "0x100000000"}
  Forms = {"bin", "cond", "un", "lit", "flt", "chr"}
  Emit = TRUE
INVARIANTS Inv_Refines Inv_DevsExplain Inv_NoFatal Inv_UacSymmetric Inv_UacHoldsBoth Inv_PromoteIdempotent Inv_Emit
CHECK_DEADLOCK FALSE
